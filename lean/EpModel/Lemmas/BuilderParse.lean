import EpModel.Lemmas.Builder
import EpModel.Lemmas.DecRefine
/-
  C10, parsing half: the wire-format walk `Spec.decode` over the bytes the PacketBuilder model emits.

  * memory lemmas: `memOf (a ++ b)`, `Holds g o b` (the memory holds `b` at `o`; splits along `++`),
    and the fields the walk looks at read out of the serialised headers (`eth2_et`, `vlan_et`,
    `sll_fields`, `ipv4_fields`, `ipv6_fields`, `udp_len_field`, `tcp_dataOffset`, `icmp4_fields`,
    `rawExt_fields`, `frag_fields`, `auth_fields`, `arp_fields`);
  * one lemma per `Spec.step` arm, over an arbitrary memory that holds the header
    (`step_eth`, `step_sll`, `step_vlan`, `step_ether_*`, `step_ipAny*`, `step_ipv4_plain`,
    `step_ipv4_auth`, `step_ipv6`, `walk_udp`, `walk_tcp`, `walk_icmp4`, `walk_icmp6`, `walk_other`);
  * the IPv6 extension chain: `Spec.chain` over the headers `set_next_headers` + `write_internal` emit
    (`chain_exts`, through `ChainRes` composed header by header; `setNextHeaders_num/_bytes` give the
    emitted chain in closed form);
  * the stages over a configuration (`walk_tp_cfg`, `walk_ipv4_cfg`, `walk_ipv6_cfg`, `walk_net_cfg`,
    `walk_vlan_cfg`) and the result `decode_buildOk`: `Spec.decode (startOf c)` of `buildOk c p` is
    `.ok (expPacket c p.length)` for every well-formed, encodable configuration with `ParseOk`.
-/
namespace EpModel.Lemmas.BuilderParse
open EpModel EpModel.Dec EpModel.Spec EpModel.Codec EpModel.CodecNet EpModel.Builder EpModel.Lemmas.Builder
open EpModel.Lemmas.Codec EpModel.Lemmas.Refine
open EpModel.Lemmas.CodecNet (or_eq_add and31)
set_option linter.unusedSimpArgs false

theorem memOf_append_left (a b : Bytes) (i : Nat) (h : i < a.length) : memOf (a ++ b) i = memOf a i :=
  bAt_append_left a b i h

theorem memOf_append_right (a b : Bytes) (i : Nat) (h : a.length ≤ i) :
    memOf (a ++ b) i = memOf b (i - a.length) :=
  bAt_append_right a b i h

theorem g16_memOf (b : Bytes) (i : Nat) : g16 (memOf b) i = be16 b i := rfl

theorem g16_memOf_append_left (a b : Bytes) (i : Nat) (h : i + 1 < a.length) :
    g16 (memOf (a ++ b)) i = g16 (memOf a) i := by
  unfold Dec.g16
  rw [memOf_append_left a b i (by omega), memOf_append_left a b (i + 1) h]

theorem g16_memOf_append_right (a b : Bytes) (i : Nat) (h : a.length ≤ i) :
    g16 (memOf (a ++ b)) i = g16 (memOf b) (i - a.length) := by
  unfold Dec.g16
  rw [memOf_append_right a b i h, memOf_append_right a b (i + 1) (by omega)]
  have e : i + 1 - a.length = i - a.length + 1 := by omega
  rw [e]

/-- the memory `g` holds the bytes `b` at offset `o` -/
def Holds (g : Mem) (o : Nat) (b : Bytes) : Prop := ∀ i, i < b.length → g (o + i) = bAt b i

theorem holds_memOf (b : Bytes) : Holds (memOf b) 0 b := by
  intro i _; simp [memOf]

theorem Holds.left {g : Mem} {o : Nat} {a b : Bytes} (h : Holds g o (a ++ b)) : Holds g o a := by
  intro i hi
  rw [h i (by simp; omega), bAt_append_left a b i hi]

theorem Holds.right {g : Mem} {o : Nat} {a b : Bytes} (h : Holds g o (a ++ b)) :
    Holds g (o + a.length) b := by
  intro i hi
  rw [Nat.add_assoc, h (a.length + i) (by simp; omega), bAt_append_right a b _ (by omega)]
  congr 1; omega

theorem Holds.at {g : Mem} {o : Nat} {b : Bytes} (h : Holds g o b) (i : Nat) (hi : i < b.length) :
    g (o + i) = bAt b i := h i hi

theorem Holds.at0 {g : Mem} {o : Nat} {b : Bytes} (h : Holds g o b) (hi : 0 < b.length) :
    g o = bAt b 0 := h 0 hi

theorem Holds.g16 {g : Mem} {o : Nat} {b : Bytes} (h : Holds g o b) (i : Nat) (hi : i + 1 < b.length) :
    g16 g (o + i) = be16 b i := by
  unfold Dec.g16 be16
  rw [h i (by omega), Nat.add_assoc, h (i + 1) hi]

theorem bAt_take (b : Bytes) (n i : Nat) (h : i < n) : bAt (b.take n) i = bAt b i := by
  unfold bAt; simp [List.getD, List.getElem?_take, h]

theorem be16_take (b : Bytes) (n i : Nat) (h : i + 1 < n) : be16 (b.take n) i = be16 b i := by
  unfold be16; rw [bAt_take _ _ _ (by omega), bAt_take _ _ _ h]

/-- the fragment word of an IPv4 header as a number -/
theorem ipv4_fragWord (h : Ipv4Header) (hfo : h.fragmentOffset < 8192) :
    (h.fragAndFlags).1 % 256 * 256 + (h.fragAndFlags).2 % 256
      = (if h.dontFragment then 16384 else 0) + (if h.moreFragments then 8192 else 0) + h.fragmentOffset := by
  have e6 : (h.fragAndFlags).1 = (if h.dontFragment then 64 else 0)
      + (if h.moreFragments then 32 else 0) + h.fragmentOffset / 256 := by
    unfold Ipv4Header.fragAndFlags
    simp only [CodecNet.Ipv4.flagBits_eq, and31]
    rw [or_eq_add 5 (by split <;> split <;> omega) (by omega)]; omega
  have e7 : (h.fragAndFlags).2 = h.fragmentOffset % 256 := rfl
  rw [e6, e7]
  cases h.dontFragment <;> cases h.moreFragments <;> simp <;> omega

theorem ipv4_fields (h : Ipv4Header) (ho : h.options.length ≤ 40) (hfo : h.fragmentOffset < 8192)
    (htl : h.totalLen < 65536) (hp : h.protocol < 256) :
    bAt h.toBytes 0 = 64 + (h.options.length / 4 + 5) ∧ be16 h.toBytes 2 = h.totalLen ∧
    be16 h.toBytes 6 = (if h.dontFragment then 16384 else 0) + (if h.moreFragments then 8192 else 0)
        + h.fragmentOffset ∧
    bAt h.toBytes 9 = h.protocol := by
  have e0 : 64 ||| h.ihl = 64 + (h.options.length / 4 + 5) := by
    rw [CodecNet.Ipv4.ihl_eq h ho]; exact or_eq_add 4 (by decide) (by omega)
  have fw := ipv4_fragWord h hfo
  unfold Ipv4Header.toBytes Ipv4Header.headerLen
  refine ⟨?_, ?_, ?_, ?_⟩
  · rw [bAt_take _ _ _ (by omega)]
    simp [e0]; omega
  · rw [be16_take _ _ _ (by omega)]
    simp [be16]; clear fw e0; omega
  · rw [be16_take _ _ _ (by omega)]
    simp [be16]
    exact fw
  · rw [bAt_take _ _ _ (by omega)]
    simp; omega

theorem ipv6_fields (h : Ipv6Header) (htc : h.trafficClass < 256) (hpl : h.payloadLength < 65536)
    (hn : h.nextHeader < 256) :
    bAt h.toBytes 0 / 16 = 6 ∧ be16 h.toBytes 4 = h.payloadLength ∧ bAt h.toBytes 6 = h.nextHeader := by
  have e0 : 96 ||| (h.trafficClass >>> 4) = 96 + h.trafficClass / 16 := by
    rw [Nat.shiftRight_eq_div_pow]; exact or_eq_add 4 (by decide) (by omega)
  unfold Ipv6Header.toBytes
  refine ⟨?_, ?_, ?_⟩
  · simp [e0]; omega
  · simp [be16]; omega
  · simp; omega

theorem eth2_et (h : Eth2) (wf : h.WF) : be16 (Eth2.toBytes h) 12 = h.et := by
  obtain ⟨hd, hs, he⟩ := wf
  unfold Eth2.toBytes
  rw [be16_append_right _ _ _ (by simp [hd, hs])]
  simp only [List.length_append, hd, hs]
  have := be16_enc16 h.et [] he
  simpa using this

theorem vlan_et (v : Vlan) (he : v.et < 65536) : be16 (Vlan.toBytes v) 2 = v.et := by
  unfold Vlan.toBytes
  have := be16_enc16 v.et [] he
  simpa [be16] using this

theorem sll_fields (s : Sll) (wf : s.WF) :
    be16 (Sll.toBytes s) 0 = s.ptype ∧ be16 (Sll.toBytes s) 2 = s.hrd ∧ be16 (Sll.toBytes s) 14 = s.proto.val := by
  obtain ⟨h1, h2, h3, h4, h5, _⟩ := wf
  unfold Sll.toBytes
  refine ⟨?_, ?_, ?_⟩
  · simp only [List.append_assoc]; exact be16_enc16 _ _ (by omega)
  · simp only [List.append_assoc]
    rw [be16_append_right _ _ _ (by simp)]
    exact be16_enc16 _ _ h2
  · rw [be16_append_right _ _ _ (by simp [h4])]
    simp only [List.length_append, enc16_length, h4]
    have := be16_enc16 s.proto.val [] h5
    simpa using this

theorem udp_len_field (u : Udp) (h : u.len < 65536) : be16 (Udp.toBytes u) 4 = u.len := by
  unfold Udp.toBytes
  simp only [List.append_assoc]
  rw [be16_append_right _ _ _ (by simp), be16_append_right _ _ _ (by simp)]
  exact be16_enc16 _ _ h

theorem tcp_b12_div : ∀ len, len < 41 → len % 4 = 0 → ∀ ns : Bool,
    let v := (((5 + (len >>> 2)) <<< 4) % 256) &&& 0xF0
    ((if ns then v ||| 1 else v) % 256) / 16 * 4 = 20 + len := by decide

theorem tcp_dataOffset (h : Tcp) (hl : h.opts.len ≤ 40) (h4 : h.opts.len % 4 = 0) :
    bAt (Tcp.toBytes h) 12 / 16 * 4 = 20 + h.opts.len := by
  unfold Tcp.toBytes Tcp.headerLen
  rw [bAt_take _ _ _ (by omega)]
  have := tcp_b12_div h.opts.len (by omega) h4 h.ns
  simpa [Tcp.fixed, enc16, enc32, Tcp.byte12, TcpOpts.dataOffset] using this

/-- ICMPv4 type and code byte as emitted -/
def icmp4TypeCode : Icmp4Type → Nat × Nat
  | .unknown t c _ => (t % 256, c % 256)
  | .echoReply _ _ => (0, 0)
  | .destUnreach code _ => (3, if code = 4 then 4 else code % 256)
  | .redirect code _ => (5, code % 256)
  | .echoRequest _ _ => (8, 0)
  | .timeExceeded code => (11, code % 256)
  | .paramProblem code _ => (12, if code = 0 then 0 else code % 256)
  | .tsRequest .. => (13, 0)
  | .tsReply .. => (14, 0)

theorem icmp4_fields (h : Icmp4) :
    bAt (Icmp4.toBytes h) 0 = (icmp4TypeCode h.ty).1 ∧ bAt (Icmp4.toBytes h) 1 = (icmp4TypeCode h.ty).2 := by
  obtain ⟨ty, ck⟩ := h
  cases ty <;> simp [Icmp4.toBytes, icmp4TypeCode, Icmp4.re4u8, Icmp4.re2u16, Icmp4.reZero, Icmp4.reTimestamp,
    bAt_take] <;> split <;> simp [Icmp4.re4u8, Icmp4.reZero, bAt_take, *]

theorem rawExt_fields (h : Ipv6RawExtHeader) (wf : h.WF) :
    bAt h.toBytes 0 = h.nextHeader ∧ (bAt h.toBytes 1 + 1) * 8 = h.headerLen := by
  have hl := CodecNet.RawExt.headerLen_eq h wf
  rw [CodecNet.RawExt.toBytes_eq h wf, hl]
  obtain ⟨h1, h2, h3, h4⟩ := wf
  simp
  omega

theorem frag_fields (h : Ipv6FragmentHeader) (wf : h.WF) :
    bAt h.toBytes 0 = h.nextHeader ∧
    be16 h.toBytes 2 = h.fragmentOffset * 8 + (if h.moreFragments then 1 else 0) := by
  have hw := CodecNet.Ipv6Frag.foWord_eq h wf.2.1
  obtain ⟨h1, h2, h3⟩ := wf
  unfold Ipv6FragmentHeader.toBytes
  rw [hw]
  refine ⟨by simp; omega, ?_⟩
  simp [be16]
  split <;> omega

theorem auth_fields (h : IpAuthHeader) (wf : h.WF) :
    bAt h.toBytes 0 = h.nextHeader ∧ bAt h.toBytes 1 ≠ 0 ∧ (bAt h.toBytes 1 + 2) * 4 = h.headerLen := by
  have hl := CodecNet.Auth.headerLen_eq h wf
  have hr := CodecNet.Auth.rawIcvLen_eq h wf
  rw [CodecNet.Auth.toBytes_eq h wf, hl]
  obtain ⟨h1, h2, h3, h4, h5⟩ := wf
  simp [IpAuthHeader.fixedPart, hr]
  omega

theorem arp_fields (a : Arp) (wf : a.WF) :
    8 + 2 * bAt a.toBytes 4 + 2 * bAt a.toBytes 5 = a.headerLen := by
  obtain ⟨_, _, _, h4, h5, h6, h7⟩ := wf
  simp [Arp.toBytes, Arp.headerLen, Arp.hwSize, Arp.protoSize, enc16]
  omega

/-! ### transport layer -/

/-- the transport layer strict decoding finds behind a header written for `t` at `o` with `n`
    payload bytes -/
def expTp (t : Option Tp) (o n : Nat) : Option TpR :=
  match t with
  | none => none
  | some (.udp _) => some (.udp ⟨o, 8 + n⟩)
  | some (.tcp h) => some (.tcp ⟨o, h.headerLen + n⟩ h.headerLen)
  | some (.icmp4 h) => some (.icmp4 ⟨o, h.headerLen + n⟩)
  | some (.icmp6 _) => some (.icmp6 ⟨o, 8 + n⟩)

/-- RFC 792 timestamp messages are exactly 20 bytes: the one transport configuration whose
    output strict decoding refuses is a (typed or raw) timestamp header with another size. -/
def Icmp4Ok (t : Icmp4) (n : Nat) : Prop :=
  ¬ (((icmp4TypeCode t.ty).1 = 13 ∨ (icmp4TypeCode t.ty).1 = 14) ∧ (icmp4TypeCode t.ty).2 = 0 ∧
      t.headerLen + n ≠ 20)
instance (t : Icmp4) (n : Nat) : Decidable (Icmp4Ok t n) := by unfold Icmp4Ok; infer_instance

def withTp (p : Packet) (t : Option TpR) : Packet := { p with tp := t }

theorem walk_udp (g : Mem) (k : Nat) (p : Packet) (o n : Nat) (lim : Dec.LenSource) (ne : Nat) (u : Udp)
    (hlen : u.len = 8 + n) (hn : 8 + n < 65536) (hh : Holds g o (Udp.toBytes u)) :
    walkN false g (k + 1) p (.tp 17) { off := o, stop := o + (8 + n), lim := lim, nExt := ne }
      = (setTp p (.udp ⟨o, 8 + n⟩), none) := by
  have hf : g16 g (o + 4) = 8 + n := by
    rw [hh.g16 4 (by simp [udp_len]), udp_len_field u (by omega), hlen]
  have hs : Spec.step false g p (.tp 17) { off := o, stop := o + (8 + n), lim := lim, nExt := ne } = ⟨setTp p (.udp ⟨o, 8 + n⟩), .done, { off := o, stop := o + (8 + n), lim := lim, nExt := ne }, none⟩ := by
    have h1 : ¬ (8 + n < 8) := by omega
    have h2 : ¬ (8 + n = 0) := by omega
    simp [Spec.step, Ctx.avail, hf, h1, h2]
  rw [walkN_next false g k p _ _ _ _ _ (by simp) hs, walkN_done]

theorem walk_tcp (g : Mem) (k : Nat) (p : Packet) (o n : Nat) (lim : Dec.LenSource) (ne : Nat) (h : Tcp)
    (wo : h.opts.WF) (hh : Holds g o (Tcp.toBytes h)) :
    walkN false g (k + 1) p (.tp 6) { off := o, stop := o + (h.headerLen + n), lim := lim, nExt := ne }
      = (setTp p (.tcp ⟨o, h.headerLen + n⟩ h.headerLen), none) := by
  obtain ⟨ho1, ho2, ho3, _⟩ := wo
  have hl := tcp_len h ho3 ho1
  have hf : g (o + 12) / 16 * 4 = h.headerLen := by
    rw [hh.at 12 (by omega), tcp_dataOffset h ho1 ho2, Tcp.headerLen]
  have hs : Spec.step false g p (.tp 6) { off := o, stop := o + (h.headerLen + n), lim := lim, nExt := ne } = ⟨setTp p (.tcp ⟨o, h.headerLen + n⟩ h.headerLen), .done, { off := o, stop := o + (h.headerLen + n), lim := lim, nExt := ne }, none⟩ := by
    have hl' : h.headerLen = 20 + h.opts.len := rfl
    have h1 : ¬ (h.headerLen + n < 20) := by omega
    have h2 : ¬ (g (o + 12) / 16 < 5) := by omega
    have h3 : ¬ (h.headerLen + n < h.headerLen) := by omega
    simp [Spec.step, Ctx.avail, hf, h1, h2, h3]
  rw [walkN_next false g k p _ _ _ _ _ (by simp) hs, walkN_done]

theorem walk_icmp4 (g : Mem) (k : Nat) (p : Packet) (o n : Nat) (lim : Dec.LenSource) (ne : Nat) (h : Icmp4)
    (wf : icmp4LenOk h.ty) (ok : Icmp4Ok h n) (hh : Holds g o (Icmp4.toBytes h)) :
    walkN false g (k + 1) p (.tp 1) { off := o, stop := o + (h.headerLen + n), lim := lim, nExt := ne }
      = (setTp p (.icmp4 ⟨o, h.headerLen + n⟩), none) := by
  have hl := icmp4_len h wf
  have h8 : 8 ≤ h.headerLen := by unfold Icmp4.headerLen; split <;> omega
  have hf0 : g o = (icmp4TypeCode h.ty).1 := by rw [hh.at0 (by omega), (icmp4_fields h).1]
  have hf1 : g (o + 1) = (icmp4TypeCode h.ty).2 := by rw [hh.at 1 (by omega), (icmp4_fields h).2]
  have hs : Spec.step false g p (.tp 1) { off := o, stop := o + (h.headerLen + n), lim := lim, nExt := ne } = ⟨setTp p (.icmp4 ⟨o, h.headerLen + n⟩), .done, { off := o, stop := o + (h.headerLen + n), lim := lim, nExt := ne }, none⟩ := by
    have h1 : ¬ (h.headerLen + n < 8) := by omega
    unfold Icmp4Ok at ok
    simp only [Spec.step, Ctx.avail, hf0, hf1, Nat.add_sub_cancel_left, h1, ok, if_false]
    simp
  rw [walkN_next false g k p _ _ _ _ _ (by simp) hs, walkN_done]

theorem walk_icmp6 (g : Mem) (k : Nat) (p : Packet) (o n : Nat) (lim : Dec.LenSource) (ne : Nat)
    (hn : 8 + n ≤ 65535) :
    walkN false g (k + 1) p (.tp 58) { off := o, stop := o + (8 + n), lim := lim, nExt := ne }
      = (setTp p (.icmp6 ⟨o, 8 + n⟩), none) := by
  have hs : Spec.step false g p (.tp 58) { off := o, stop := o + (8 + n), lim := lim, nExt := ne } = ⟨setTp p (.icmp6 ⟨o, 8 + n⟩), .done, { off := o, stop := o + (8 + n), lim := lim, nExt := ne }, none⟩ := by
    have h1 : ¬ (8 + n < 8) := by omega
    have h2 : ¬ (8 + n > 4294967295) := by omega
    simp [Spec.step, Ctx.avail, h1, h2]
  rw [walkN_next false g k p _ _ _ _ _ (by simp) hs, walkN_done]

theorem walk_other (g : Mem) (k : Nat) (p : Packet) (num : Nat) (c : Ctx)
    (h17 : num ≠ 17) (h6 : num ≠ 6) (h1 : num ≠ 1) (h58 : num ≠ 58) :
    walkN false g (k + 1) p (.tp num) c = (p, none) := by
  rw [walkN_next false g k p p (.tp num) .done c c (by simp) ?_, walkN_done]
  simp [Spec.step, h17, h6, h1, h58]

/-! ### IPv4 -/

theorem v4Fragmented_eq (g : Mem) (o : Nat) (h : Ipv4Header) (hfo : h.fragmentOffset < 8192)
    (hw : g16 g (o + 6) = (if h.dontFragment then 16384 else 0) + (if h.moreFragments then 8192 else 0)
        + h.fragmentOffset) :
    v4Fragmented g o = (h.moreFragments || decide (h.fragmentOffset ≠ 0)) := by
  have key : ((g16 g (o + 6) / 8192) % 2 = 1 ∨ g16 g (o + 6) % 8192 ≠ 0)
      ↔ (h.moreFragments = true ∨ h.fragmentOffset ≠ 0) := by
    rw [hw]; cases h.dontFragment <;> cases h.moreFragments <;> simp <;> omega
  simp only [v4Fragmented, key]
  simp

/-- the IPv4 layer of a packet whose header is `h` (at `o`), with `al` bytes of authentication
    header and `rest` bytes behind -/
def expIpv4 (o ol : Nat) (frag : Bool) (auth : Option Win) (num al rest : Nat) : IpR :=
  { v4 := true, hdr := ⟨o, 20 + ol⟩, auth := auth, exts := ⟨o, 0⟩, first := none,
    slots := ExtSlots.none,
    pl := { num := num, frag := frag, src := .ipv4HeaderTotalLen,
            w := ⟨o + (20 + ol) + al, rest⟩, inc := false } }

/-- RFC 791 fragmentation of a header value: more-fragments flag or a fragment offset -/
def v4Frag (h : Ipv4Header) : Bool := h.moreFragments || decide (h.fragmentOffset ≠ 0)

theorem step_ipv4_plain (g : Mem) (p : Packet) (o S : Nat) (lim : Dec.LenSource) (ne : Nat) (h : Ipv4Header)
    (rest : Nat) (ho : h.options.length ≤ 40) (ho4 : h.options.length % 4 = 0) (hfo : h.fragmentOffset < 8192)
    (hs : h.source.length = 4) (hd : h.destination.length = 4)
    (hp : h.protocol < 256) (hn51 : h.protocol ≠ 51)
    (htl : h.totalLen = 20 + h.options.length + rest) (hfit : h.totalLen < 65536)
    (hh : Holds g o h.toBytes) (hS : o + h.totalLen ≤ S) :
    Spec.step false g p .ipv4 { off := o, stop := S, lim := lim, nExt := ne }
      = ⟨setNet p (.ip (expIpv4 o h.options.length (v4Frag h) none h.protocol 0 rest)),
         if v4Frag h then .done else .tp h.protocol,
         { off := o + (20 + h.options.length), stop := o + h.totalLen, lim := .ipv4HeaderTotalLen, nExt := ne },
         none⟩ := by
  have hl := ipv4_len h hs hd ho
  obtain ⟨f0, f2, f6, f9⟩ := ipv4_fields h ho hfo hfit hp
  have g0 : g o = 64 + (h.options.length / 4 + 5) := by rw [hh.at0 (by omega), f0]
  have g0a : g o / 16 = 4 := by omega
  have g0b : g o % 16 * 4 = 20 + h.options.length := by omega
  have g0c : ¬ (g o % 16 < 5) := by omega
  have g2 : g16 g (o + 2) = h.totalLen := by rw [hh.g16 2 (by omega), f2]
  have g6 := v4Fragmented_eq g o h hfo (by rw [hh.g16 6 (by omega), f6])
  have g9 : g (o + 9) = h.protocol := by rw [hh.at 9 (by omega), f9]
  have a1 : ¬ (S - o < 20) := by omega
  have a2 : ¬ (S - o < 20 + h.options.length) := by omega
  have a3 : ¬ (h.totalLen < 20 + h.options.length) := by omega
  have a4 : ¬ (S - o < h.totalLen) := by omega
  simp only [Spec.step, Ctx.avail, bound, g0a, g0b, g0c, g2, g6, g9, a1, a2, a3, a4, hn51, if_false]
  have e : o + h.totalLen - (o + (20 + h.options.length)) = rest := by omega
  simp [expIpv4, v4Frag, inherit, e]


theorem step_ipv4_auth (g : Mem) (p : Packet) (o S : Nat) (lim : Dec.LenSource) (ne : Nat) (h : Ipv4Header)
    (a : IpAuthHeader) (rest : Nat) (ho : h.options.length ≤ 40) (ho4 : h.options.length % 4 = 0)
    (hfo : h.fragmentOffset < 8192) (hs : h.source.length = 4) (hd : h.destination.length = 4)
    (hp : h.protocol = 51) (wa : a.WF)
    (htl : h.totalLen = 20 + h.options.length + a.headerLen + rest) (hfit : h.totalLen < 65536)
    (hh : Holds g o (h.toBytes ++ a.toBytes)) (hS : o + h.totalLen ≤ S) :
    Spec.step false g p .ipv4 { off := o, stop := S, lim := lim, nExt := ne }
      = ⟨setNet p (.ip (expIpv4 o h.options.length (v4Frag h) (some ⟨o + (20 + h.options.length), a.headerLen⟩) a.nextHeader
            a.headerLen rest)),
         if v4Frag h then .done else .tp a.nextHeader,
         { off := o + (20 + h.options.length) + a.headerLen, stop := o + h.totalLen,
           lim := .ipv4HeaderTotalLen, nExt := ne },
         none⟩ := by
  have hl := ipv4_len h hs hd ho
  have hal := CodecNet.Auth.toBytes_length a wa
  have hal' := CodecNet.Auth.headerLen_eq a wa
  obtain ⟨f0, f2, f6, f9⟩ := ipv4_fields h ho hfo hfit (by omega)
  obtain ⟨b0, b1, b2⟩ := auth_fields a wa
  have hh1 := hh.left
  have hh2 := hh.right
  rw [hl] at hh2
  have g0 : g o = 64 + (h.options.length / 4 + 5) := by rw [hh1.at0 (by omega), f0]
  have g0a : g o / 16 = 4 := by omega
  have g0b : g o % 16 * 4 = 20 + h.options.length := by omega
  have g0c : ¬ (g o % 16 < 5) := by omega
  have g2 : g16 g (o + 2) = h.totalLen := by rw [hh1.g16 2 (by omega), f2]
  have g6 := v4Fragmented_eq g o h hfo (by rw [hh1.g16 6 (by omega), f6])
  have g9 : g (o + 9) = 51 := by rw [hh1.at 9 (by omega), f9, hp]
  have c0 : g (o + (20 + h.options.length)) = a.nextHeader := by rw [hh2.at0 (by omega), b0]
  have c1 : g (o + (20 + h.options.length) + 1) = bAt a.toBytes 1 := hh2.at 1 (by omega)
  have a1 : ¬ (S - o < 20) := by omega
  have a2 : ¬ (S - o < 20 + h.options.length) := by omega
  have a3 : ¬ (h.totalLen < 20 + h.options.length) := by omega
  have a4 : ¬ (S - o < h.totalLen) := by omega
  have a5 : ¬ (o + h.totalLen - (o + (20 + h.options.length)) < 12) := by omega
  have a6 : ¬ (o + h.totalLen - (o + (20 + h.options.length)) < a.headerLen) := by omega
  have e : o + h.totalLen - (o + (20 + h.options.length) + a.headerLen) = rest := by omega
  simp only [Spec.step, Ctx.avail, bound, g0a, g0b, g0c, g2, g6, g9, a1, a2, a3, a4, if_false, if_true,
    c0, c1, b1, b2, a5, a6]
  simp [expIpv4, v4Frag, inherit, e]

/-! ### IPv6 extension chain -/

theorem chain_end (g : Mem) (lim : Dec.LenSource) (first : Bool) (nh : Nat) (frag : Bool) (o stop : Nat)
    (h0 : nh ≠ 0) (h60 : nh ≠ 60) (h43 : nh ≠ 43) (h44 : nh ≠ 44) (h51 : nh ≠ 51) :
    Spec.chain g lim first nh frag o stop = (⟨nh, frag, o⟩, none) := by
  rw [Spec.chain]; simp [h0, h60, h43, h44, h51]

theorem chain_raw (g : Mem) (lim : Dec.LenSource) (first : Bool) (nh : Nat) (frag : Bool) (o stop : Nat)
    (h : Ipv6RawExtHeader) (wf : h.WF) (hnh : nh = 60 ∨ nh = 43 ∨ (nh = 0 ∧ first = true))
    (hh : Holds g o h.toBytes) (hfit : o + h.headerLen ≤ stop) :
    Spec.chain g lim first nh frag o stop = Spec.chain g lim false h.nextHeader frag (o + h.headerLen) stop := by
  have hl := CodecNet.RawExt.toBytes_length h wf
  have hl' := CodecNet.RawExt.headerLen_eq h wf
  obtain ⟨b0, b1⟩ := rawExt_fields h wf
  have w2 := wf.2.1
  have g0 : g o = h.nextHeader := by rw [hh.at0 (by omega), b0]
  have g1 : (g (o + 1) + 1) * 8 = h.headerLen := by rw [hh.at 1 (by omega), b1]
  have a1 : ¬ (stop - o < 8) := by omega
  have a2 : ¬ (stop - o < h.headerLen) := by omega
  rw [Spec.chain]
  rcases hnh with e | e | ⟨e, ef⟩
  · subst e; simp [g0, g1, a1, a2]
  · subst e; simp [g0, g1, a1, a2]
  · subst e; subst ef; simp [g0, g1, a1, a2]

theorem v6Fragmented_eq (g : Mem) (o : Nat) (h : Ipv6FragmentHeader)
    (hw : g16 g (o + 2) = h.fragmentOffset * 8 + (if h.moreFragments then 1 else 0)) :
    v6Fragmented g o = h.isFragmentingPayload := by
  have key : (g16 g (o + 2) % 2 = 1 ∨ g16 g (o + 2) / 8 ≠ 0)
      ↔ (h.moreFragments = true ∨ 0 ≠ h.fragmentOffset) := by
    rw [hw]; cases h.moreFragments <;> simp <;> omega
  simp only [v6Fragmented, key, Ipv6FragmentHeader.isFragmentingPayload]
  simp

theorem chain_frag (g : Mem) (lim : Dec.LenSource) (first : Bool) (frag : Bool) (o stop : Nat)
    (h : Ipv6FragmentHeader) (wf : h.WF) (hh : Holds g o h.toBytes) (hfit : o + 8 ≤ stop) :
    Spec.chain g lim first 44 frag o stop
      = Spec.chain g lim false h.nextHeader (frag || h.isFragmentingPayload) (o + 8) stop := by
  have hl := CodecNet.Ipv6Frag.toBytes_length h
  obtain ⟨b0, b2⟩ := frag_fields h wf
  have g0 : g o = h.nextHeader := by rw [hh.at0 (by omega), b0]
  have g2 := v6Fragmented_eq g o h (by rw [hh.g16 2 (by omega), b2])
  have a1 : ¬ (stop - o < 8) := by omega
  rw [Spec.chain]
  simp [g0, g2, a1]

theorem chain_auth (g : Mem) (lim : Dec.LenSource) (first : Bool) (frag : Bool) (o stop : Nat)
    (h : IpAuthHeader) (wf : h.WF) (hh : Holds g o h.toBytes) (hfit : o + h.headerLen ≤ stop) :
    Spec.chain g lim first 51 frag o stop
      = Spec.chain g lim false h.nextHeader frag (o + h.headerLen) stop := by
  have hl := CodecNet.Auth.toBytes_length h wf
  have hl' := CodecNet.Auth.headerLen_eq h wf
  obtain ⟨b0, b1, b2⟩ := auth_fields h wf
  have g0 : g o = h.nextHeader := by rw [hh.at0 (by omega), b0]
  have g1 : g (o + 1) = bAt h.toBytes 1 := hh.at 1 (by omega)
  have a1 : ¬ (stop - o < 12) := by omega
  have a2 : ¬ (stop - o < h.headerLen) := by omega
  rw [Spec.chain]
  simp [g0, g1, b1, b2, a1, a2]


/-- the chain walk over `bytes` (sitting anywhere in front of `stop`), entered with next header `nh`
    and fragmentation flag `fi`, ends behind them at the number `num` with the flag `fo` -/
def ChainRes (g : Mem) (lim : Dec.LenSource) (stop num : Nat) (first : Bool) (nh : Nat) (bytes : Bytes)
    (fi fo : Bool) : Prop :=
  ∀ o, Holds g o bytes → o + bytes.length ≤ stop →
    Spec.chain g lim first nh fi o stop = (⟨num, fo, o + bytes.length⟩, none)

theorem cr_nil {g : Mem} {lim : Dec.LenSource} {stop num : Nat} {first f : Bool}
    (h0 : num ≠ 0) (h60 : num ≠ 60) (h43 : num ≠ 43) (h44 : num ≠ 44) (h51 : num ≠ 51) :
    ChainRes g lim stop num first num [] f f := by
  intro o _ _
  simpa using chain_end g lim first num f o stop h0 h60 h43 h44 h51

theorem cr_raw {g : Mem} {lim : Dec.LenSource} {stop num : Nat} {first : Bool} {nh : Nat} {rest : Bytes}
    {fi fo : Bool} (h : Ipv6RawExtHeader) (wf : h.WF) (hnh : nh = 60 ∨ nh = 43 ∨ (nh = 0 ∧ first = true))
    (hr : ChainRes g lim stop num false h.nextHeader rest fi fo) :
    ChainRes g lim stop num first nh (h.toBytes ++ rest) fi fo := by
  intro o hh hfit
  have hl := CodecNet.RawExt.toBytes_length h wf
  have hl' := CodecNet.RawExt.headerLen_eq h wf
  simp only [List.length_append, hl] at hfit
  rw [chain_raw g lim first nh fi o stop h wf hnh hh.left (by omega)]
  have h2 := hh.right
  rw [hl, ← hl'] at h2
  rw [hr _ h2 (by omega)]
  simp only [List.length_append, hl, hl']
  congr 2; omega

theorem cr_frag {g : Mem} {lim : Dec.LenSource} {stop num : Nat} {first : Bool} {rest : Bytes}
    {fi fo : Bool} (h : Ipv6FragmentHeader) (wf : h.WF)
    (hr : ChainRes g lim stop num false h.nextHeader rest (fi || h.isFragmentingPayload) fo) :
    ChainRes g lim stop num first 44 (h.toBytes ++ rest) fi fo := by
  intro o hh hfit
  have hl := CodecNet.Ipv6Frag.toBytes_length h
  simp only [List.length_append, hl] at hfit
  rw [chain_frag g lim first fi o stop h wf hh.left (by omega)]
  have h2 := hh.right
  rw [hl] at h2
  rw [hr _ h2 (by omega)]
  simp only [List.length_append, hl]
  congr 2; omega

theorem cr_auth {g : Mem} {lim : Dec.LenSource} {stop num : Nat} {first : Bool} {rest : Bytes}
    {fi fo : Bool} (h : IpAuthHeader) (wf : h.WF)
    (hr : ChainRes g lim stop num false h.nextHeader rest fi fo) :
    ChainRes g lim stop num first 51 (h.toBytes ++ rest) fi fo := by
  intro o hh hfit
  have hl := CodecNet.Auth.toBytes_length h wf
  have hl' := CodecNet.Auth.headerLen_eq h wf
  simp only [List.length_append, hl] at hfit
  rw [chain_auth g lim first fi o stop h wf hh.left (by omega)]
  have h2 := hh.right
  rw [hl, ← hl'] at h2
  rw [hr _ h2 (by omega)]
  simp only [List.length_append, hl, hl']
  congr 2; omega


theorem chainRes_first {g : Mem} {lim : Dec.LenSource} {stop num : Nat} {first : Bool} {nh : Nat}
    {bytes : Bytes} {fi fo : Bool} (h0 : nh ≠ 0) (hr : ChainRes g lim stop num false nh bytes fi fo) :
    ChainRes g lim stop num first nh bytes fi fo := by
  cases first
  · exact hr
  · intro o hh hfit
    rw [chain_first_irrelevant g lim nh fi o stop h0]
    exact hr o hh hfit

open Ipv6Exts

def rawB (x : Option Ipv6RawExtHeader) (n : Nat) : Bytes :=
  match x with | some h => (rawWithNext h n).toBytes | none => []
def fragB (x : Option Ipv6FragmentHeader) (n : Nat) : Bytes :=
  match x with | some h => (fragWithNext h n).toBytes | none => []
def authB (x : Option IpAuthHeader) (n : Nat) : Bytes :=
  match x with | some h => (authWithNext h n).toBytes | none => []

theorem cr_optRaw {g : Mem} {lim : Dec.LenSource} {stop num : Nat} {first : Bool} {rest : Bytes}
    {fi fo : Bool} (x : Option Ipv6RawExtHeader) (tag nrest : Nat)
    (htag : tag = 60 ∨ tag = 43 ∨ (tag = 0 ∧ first = true)) (wf : optP Ipv6RawExtHeader.WF x)
    (hn : nrest < 256) (hn0 : nrest ≠ 0) (hr : ChainRes g lim stop num false nrest rest fi fo) :
    ChainRes g lim stop num first (if x.isSome then tag else nrest) (rawB x nrest ++ rest) fi fo := by
  cases x with
  | none => simpa [rawB] using chainRes_first hn0 hr
  | some h => simpa [rawB] using cr_raw (rawWithNext h nrest) (rawWithNext_wf h nrest wf hn) htag hr

def fragOf (x : Option Ipv6FragmentHeader) : Bool :=
  match x with | some f => f.isFragmentingPayload | none => false

theorem cr_optFrag {g : Mem} {lim : Dec.LenSource} {stop num : Nat} {first : Bool} {rest : Bytes}
    {fi fo : Bool} (x : Option Ipv6FragmentHeader) (nrest : Nat) (wf : optP Ipv6FragmentHeader.WF x)
    (hn : nrest < 256) (hn0 : nrest ≠ 0)
    (hr : ChainRes g lim stop num false nrest rest
            (fi || fragOf x) fo) :
    ChainRes g lim stop num first (if x.isSome then 44 else nrest) (fragB x nrest ++ rest) fi fo := by
  cases x with
  | none => simpa [fragB, fragOf] using chainRes_first hn0 hr
  | some h =>
    have := cr_frag (first := first) (fragWithNext h nrest) (fragWithNext_wf h nrest wf hn) (rest := rest)
      (fi := fi) (fo := fo) (g := g) (lim := lim) (stop := stop) (num := num) hr
    simpa [fragB] using this

theorem cr_optAuth {g : Mem} {lim : Dec.LenSource} {stop num : Nat} {first : Bool} {rest : Bytes}
    {fi fo : Bool} (x : Option IpAuthHeader) (nrest : Nat) (wf : optP IpAuthHeader.WF x)
    (hn : nrest < 256) (hn0 : nrest ≠ 0) (hr : ChainRes g lim stop num false nrest rest fi fo) :
    ChainRes g lim stop num first (if x.isSome then 51 else nrest) (authB x nrest ++ rest) fi fo := by
  cases x with
  | none => simpa [authB] using chainRes_first hn0 hr
  | some h => simpa [authB] using cr_auth (authWithNext h nrest) (authWithNext_wf h nrest wf hn) hr

/-- the protocol numbers `set_next_headers` hands backwards through the chain -/
def nFd (e : Ipv6Exts) (num : Nat) : Nat := if e.finalDest.isSome then 60 else num
def nAuth (e : Ipv6Exts) (num : Nat) : Nat := if e.auth.isSome then 51 else nFd e num
def nFrag (e : Ipv6Exts) (num : Nat) : Nat := if e.fragment.isSome then 44 else nAuth e num
def nRoute (e : Ipv6Exts) (num : Nat) : Nat := if e.routing.isSome then 43 else nFrag e num
def nDest (e : Ipv6Exts) (num : Nat) : Nat := if e.dest.isSome then 60 else nRoute e num
def nHbh (e : Ipv6Exts) (num : Nat) : Nat := if e.hbh.isSome then 0 else nDest e num

theorem setNextHeaders_num (e : Ipv6Exts) (num : Nat) : (e.setNextHeaders num).2 = nHbh e num := by
  obtain ⟨hbh, dest, routing, fragment, auth⟩ := e
  cases hbh <;> cases dest <;> cases fragment <;> cases auth <;>
    rcases routing with _ | ⟨r, _ | fd⟩ <;> rfl

theorem setNextHeaders_bytes (e : Ipv6Exts) (num : Nat) :
    stdBytes (e.setNextHeaders num).1
      = rawB e.hbh (nDest e num) ++ (rawB e.dest (nRoute e num) ++ (rawB (e.routing.map (·.routing)) (nFrag e num)
          ++ (fragB e.fragment (nAuth e num) ++ (authB e.auth (nFd e num) ++ (rawB e.finalDest num ++ []))))) := by
  obtain ⟨hbh, dest, routing, fragment, auth⟩ := e
  cases hbh <;> cases dest <;> cases fragment <;> cases auth <;>
    rcases routing with _ | ⟨r, _ | fd⟩ <;> simp [setNextHeaders, stdBytes, finalDest, rawB, fragB, authB,
      nDest, nRoute, nFrag, nAuth, nFd]


/-- the fragmentation flag the configured extension headers give the payload -/
def extsFrag (e : Ipv6Exts) : Bool := fragOf e.fragment

theorem nums_ok (e : Ipv6Exts) (num : Nat) (hnum : num < 256) (h0 : num ≠ 0) :
    (nFd e num < 256 ∧ nFd e num ≠ 0) ∧ (nAuth e num < 256 ∧ nAuth e num ≠ 0) ∧
    (nFrag e num < 256 ∧ nFrag e num ≠ 0) ∧ (nRoute e num < 256 ∧ nRoute e num ≠ 0) ∧
    (nDest e num < 256 ∧ nDest e num ≠ 0) := by
  unfold nDest nRoute nFrag nAuth nFd
  refine ⟨?_, ?_, ?_, ?_, ?_⟩ <;> (repeat' split) <;> omega

theorem chain_exts (g : Mem) (lim : Dec.LenSource) (stop num : Nat) (e : Ipv6Exts) (wf : e.WF)
    (hnum : num < 256) (h0 : num ≠ 0) (h60 : num ≠ 60) (h43 : num ≠ 43) (h44 : num ≠ 44) (h51 : num ≠ 51) :
    ChainRes g lim stop num true (e.setNextHeaders num).2 (stdBytes (e.setNextHeaders num).1)
      false (extsFrag e) := by
  obtain ⟨w1, w2, w3, w4, w5⟩ := wf
  obtain ⟨⟨a5, b5⟩, ⟨a4, b4⟩, ⟨a3, b3⟩, ⟨a2, b2⟩, ⟨a1, b1⟩⟩ := nums_ok e num hnum h0
  have wr : optP Ipv6RawExtHeader.WF (e.routing.map (·.routing)) := by
    rcases hr : e.routing with _ | r
    · trivial
    · rw [hr] at w3; exact w3.1
  have wfd : optP Ipv6RawExtHeader.WF e.finalDest := by
    unfold Ipv6Exts.finalDest
    rcases hr : e.routing with _ | r
    · trivial
    · rw [hr] at w3; exact w3.2
  rw [setNextHeaders_num, setNextHeaders_bytes]
  have s6 : ChainRes g lim stop num false num [] (extsFrag e) (extsFrag e) := cr_nil h0 h60 h43 h44 h51
  have s5 := cr_optRaw (first := false) e.finalDest 60 num (Or.inl rfl) wfd hnum h0 s6
  have s4 := cr_optAuth (first := false) e.auth (nFd e num) w5 a5 b5 s5
  have s3 := cr_optFrag (first := false) (fi := false) e.fragment (nAuth e num) w4 a4 b4
    (by rw [Bool.false_or]; exact s4)
  have s2 := cr_optRaw (first := false) (e.routing.map (·.routing)) 43 (nFrag e num) (Or.inr (Or.inl rfl)) wr a3 b3 s3
  have e2 : (if (e.routing.map (·.routing)).isSome then 43 else nFrag e num) = nRoute e num := by
    simp [nRoute]
  rw [e2] at s2
  have s1 := cr_optRaw (first := false) e.dest 60 (nRoute e num) (Or.inl rfl) w2 a2 b2 s2
  exact cr_optRaw (first := true) e.hbh 0 (nDest e num) (Or.inr (Or.inr ⟨rfl, rfl⟩)) w1 a1 b1 s1

/-! ### IPv6 -/

/-- the IPv6 layer of a packet whose header is `h` (at `o`), with `el` bytes of extension headers
    and `rest` bytes behind -/
def expIpv6 (o first num el rest : Nat) (frag : Bool) : IpR :=
  { v4 := false, hdr := ⟨o, 40⟩, auth := none, exts := ⟨o + 40, el⟩,
    first := if el = 0 then none else some first, slots := ExtSlots.none,
    pl := { num := num, frag := frag, src := .ipv6HeaderPayloadLen, w := ⟨o + 40 + el, rest⟩, inc := false } }

theorem step_ipv6 (g : Mem) (p : Packet) (o : Nat) (lim : Dec.LenSource) (ne : Nat) (h : Ipv6Header)
    (eb : Bytes) (num rest : Nat) (fo : Bool) (htc : h.trafficClass < 256) (hs : h.source.length = 16)
    (hd : h.destination.length = 16) (hn : h.nextHeader < 256)
    (hpl : h.payloadLength = eb.length + rest) (hfit : h.payloadLength < 65536)
    (hh : Holds g o (h.toBytes ++ eb))
    (hc : ChainRes g .ipv6HeaderPayloadLen (o + (40 + h.payloadLength)) num true h.nextHeader eb false fo) :
    Spec.step false g p .ipv6 { off := o, stop := o + (40 + h.payloadLength), lim := lim, nExt := ne }
      = ⟨setNet p (.ip (expIpv6 o h.nextHeader num eb.length rest fo)),
         if fo then .done else .tp num,
         { off := o + 40 + eb.length, stop := o + (40 + h.payloadLength), lim := .ipv6HeaderPayloadLen, nExt := ne },
         none⟩ := by
  have hl := ipv6_len h hs hd
  obtain ⟨f0, f4, f6⟩ := ipv6_fields h htc hfit hn
  have hh1 := hh.left
  have hh2 := hh.right
  rw [hl] at hh2
  have g0 : g o / 16 = 6 := by rw [hh1.at0 (by omega), f0]
  have g4 : g16 g (o + 4) = h.payloadLength := by rw [hh1.g16 4 (by omega), f4]
  have g6 : g (o + 6) = h.nextHeader := by rw [hh1.at 6 (by omega), f6]
  have hch := hc (o + 40) hh2 (by omega)
  have a1 : ¬ (o + (40 + h.payloadLength) - o < 40) := by omega
  have a2 : ¬ (h.payloadLength = 0 ∧ o + (40 + h.payloadLength) - o > 40) := by omega
  have a3 : ¬ (40 + h.payloadLength < 40) := by omega
  have a4 : ¬ (o + (40 + h.payloadLength) - o < 40 + h.payloadLength) := by omega
  have e1 : o + (40 + h.payloadLength) - (o + 40 + eb.length) = rest := by omega
  have e2 : o + 40 + eb.length - (o + 40) = eb.length := by omega
  have e3 : (o + 40 + eb.length = o + 40) ↔ eb.length = 0 := by omega
  simp only [Spec.step, Ctx.avail, bound, g0, g4, g6, a1, a2, a3, a4, if_false, inherit]
  simp [hch, expIpv6, e1, e2, e3]

/-! ### link layer and ether type dispatch -/

theorem step_eth (g : Mem) (p : Packet) (o S : Nat) (lim : Dec.LenSource) (ne : Nat) (hS : o + 14 ≤ S) :
    Spec.step false g p .eth { off := o, stop := S, lim := lim, nExt := ne }
      = ⟨setLink p (.eth2 ⟨o, S - o⟩), .ether (g16 g (o + 12)), { off := o + 14, stop := S, lim := lim, nExt := ne },
         none⟩ := by
  have a1 : ¬ (S - o < 14) := by omega
  simp [Spec.step, Ctx.avail, a1]

theorem step_sll (g : Mem) (p : Packet) (o S : Nat) (lim : Dec.LenSource) (ne : Nat) (et : Nat) (hS : o + 16 ≤ S)
    (h0 : g16 g o ≤ 7) (h2 : g16 g (o + 2) = 1) (h14 : g16 g (o + 14) = et) (hns : sllNonStandard et = false) :
    Spec.step false g p .sll { off := o, stop := S, lim := lim, nExt := ne }
      = ⟨setLink p (.sll ⟨o, S - o⟩), .ether et, { off := o + 16, stop := S, lim := lim, nExt := ne }, none⟩ := by
  have a1 : ¬ (S - o < 16) := by omega
  have a2 : ¬ (g16 g o > 7) := by omega
  simp [Spec.step, Ctx.avail, a1, a2, h2, h14, hns, sllSupportedHw]

theorem step_vlan (g : Mem) (p : Packet) (o S : Nat) (lim : Dec.LenSource) (ne : Nat) (et : Nat)
    (hv : isVlanType et = true) (hne : ne ≠ 3) (hS : o + 4 ≤ S) :
    Spec.step false g p (.ether et) { off := o, stop := S, lim := lim, nExt := ne }
      = ⟨addExt p (.vlan ⟨o, S - o⟩), .ether (g16 g (o + 2)),
         { off := o + 4, stop := S, lim := lim, nExt := ne + 1 }, none⟩ := by
  have a1 : ¬ (S - o < 4) := by omega
  simp [Spec.step, Ctx.avail, a1, hv, hne]

theorem step_ether_ipv4 (g : Mem) (p : Packet) (c : Ctx) :
    Spec.step false g p (.ether 0x0800) c = ⟨p, .ipv4, c, none⟩ := by
  simp [Spec.step, isVlanType]

theorem step_ether_ipv6 (g : Mem) (p : Packet) (c : Ctx) :
    Spec.step false g p (.ether 0x86dd) c = ⟨p, .ipv6, c, none⟩ := by
  simp [Spec.step, isVlanType]

theorem step_ether_arp (g : Mem) (p : Packet) (o S : Nat) (lim : Dec.LenSource) (ne : Nat) (a : Arp) (wf : a.WF)
    (hh : Holds g o a.toBytes) (hS : o + a.headerLen ≤ S) :
    Spec.step false g p (.ether 0x0806) { off := o, stop := S, lim := lim, nExt := ne }
      = ⟨setNet p (.arp ⟨o, a.headerLen⟩), .done, { off := o + a.headerLen, stop := S, lim := lim, nExt := ne },
         none⟩ := by
  have hl := arp_len a wf
  have h8 : 8 ≤ a.headerLen := by unfold Arp.headerLen; omega
  have hf := arp_fields a wf
  have g4 : g (o + 4) = bAt a.toBytes 4 := hh.at 4 (by omega)
  have g5 : g (o + 5) = bAt a.toBytes 5 := hh.at 5 (by omega)
  have a1 : ¬ (S - o < 8) := by omega
  have a2 : ¬ (S - o < a.headerLen) := by omega
  simp [Spec.step, Ctx.avail, isVlanType, a1, g4, g5, hf, a2]

theorem step_ipAny4 (g : Mem) (p : Packet) (o S : Nat) (lim : Dec.LenSource) (ne : Nat)
    (hS : o + 1 ≤ S) (h : g o / 16 = 4) :
    Spec.step false g p .ipAny { off := o, stop := S, lim := lim, nExt := ne }
      = ⟨p, .ipv4, { off := o, stop := S, lim := lim, nExt := ne }, none⟩ := by
  have a1 : ¬ (S - o < 1) := by omega
  simp [Spec.step, Ctx.avail, a1, h]

theorem step_ipAny6 (g : Mem) (p : Packet) (o S : Nat) (lim : Dec.LenSource) (ne : Nat)
    (hS : o + 1 ≤ S) (h : g o / 16 = 6) :
    Spec.step false g p .ipAny { off := o, stop := S, lim := lim, nExt := ne }
      = ⟨p, .ipv6, { off := o, stop := S, lim := lim, nExt := ne }, none⟩ := by
  have a1 : ¬ (S - o < 1) := by omega
  simp [Spec.step, Ctx.avail, a1, h]


/-! ### whole configurations -/

def setTpO (p : Packet) (t : Option TpR) : Packet :=
  match t with
  | none => p
  | some x => setTp p x

/-- what makes the transport part of the output decodable: a payload announced by a protocol number
    (no transport header) must not be announced as UDP / TCP / ICMP, and an ICMPv4 timestamp header
    must come with exactly 20 bytes. -/
def TpOk (c : Cfg) (n : Nat) : Prop :=
  match c.tp with
  | none => c.last ≠ 17 ∧ c.last ≠ 6 ∧ c.last ≠ 1 ∧ c.last ≠ 58
  | some (.icmp4 h) => Icmp4Ok h n
  | some _ => True
instance (c : Cfg) (n : Nat) : Decidable (TpOk c n) := by
  unfold TpOk; split <;> infer_instance

theorem outTp_some (c : Cfg) (pl : Bytes) (t : Tp) (htp : c.tp = some t) (hnet : ∀ a, c.net ≠ .arp a) :
    ∃ ck, outTpHeader c pl = some (withCk (setLenT t pl.length) ck) := by
  unfold outTpHeader
  rw [htp, setUdpLen_some]
  cases hn : c.net with
  | arp a => exact absurd hn (hnet a)
  | ipv4 ip e => exact ⟨_, rfl⟩
  | ipv6 ip e => exact ⟨_, rfl⟩

theorem walk_tp_cfg (c : Cfg) (pl : Bytes) (wt : optP Tp.WF c.tp) (hnet : ∀ a, c.net ≠ .arp a)
    (hfit : tpHeaderLen c.tp + pl.length ≤ 65535) (ok : TpOk c pl.length)
    (g : Mem) (k : Nat) (pk : Packet) (o : Nat) (lim : Dec.LenSource) (ne : Nat)
    (hh : Holds g o (tpBytes (outTpHeader c pl))) :
    walkN false g (k + 1) pk (.tp (endNum c))
        { off := o, stop := o + (tpHeaderLen c.tp + pl.length), lim := lim, nExt := ne }
      = (setTpO pk (expTp c.tp o pl.length), none) := by
  rcases htp : c.tp with _ | t
  · simp only [TpOk, htp] at ok
    simp only [endNum, htp, expTp, setTpO]
    exact walk_other g k pk c.last _ ok.1 ok.2.1 ok.2.2.1 ok.2.2.2
  · obtain ⟨ck, hck⟩ := outTp_some c pl t htp hnet
    rw [hck] at hh
    rw [htp] at wt hfit
    simp only [tpHeaderLen] at hfit
    simp only [endNum, htp, tpHeaderLen]
    cases t with
    | udp u =>
      simp only [Tp.headerLen, Udp.headerLen] at hfit
      simp only [Tp.ipNumber, Tp.headerLen, Udp.headerLen, expTp, setTpO]
      exact walk_udp g k pk o pl.length lim ne { sp := u.sp, dp := u.dp, len := (8 + pl.length) % 65536, ck := ck }
        (by show (8 + pl.length) % 65536 = 8 + pl.length; omega) (by omega)
        (by simpa [tpBytes, Tp.toBytes, setLenT, withCk] using hh)
    | tcp h =>
      simp only [Tp.ipNumber, Tp.headerLen, expTp, setTpO]
      have := walk_tcp g k pk o pl.length lim ne { h with ck := ck } wt.2.2.2.2.2.2.2
        (by simpa [tpBytes, Tp.toBytes, setLenT, withCk] using hh)
      simpa [Tcp.headerLen] using this
    | icmp4 h =>
      simp only [TpOk, htp] at ok
      simp only [Tp.ipNumber, Tp.headerLen, expTp, setTpO]
      have := walk_icmp4 g k pk o pl.length lim ne { ty := h.ty, ck := ck } wt
        (by simpa [Icmp4Ok, Icmp4.headerLen] using ok)
        (by simpa [tpBytes, Tp.toBytes, setLenT, withCk] using hh)
      simpa [Icmp4.headerLen] using this
    | icmp6 h =>
      simp only [Tp.headerLen, Icmp6.headerLen] at hfit
      simp only [Tp.ipNumber, Tp.headerLen, Icmp6.headerLen, expTp, setTpO]
      exact walk_icmp6 g k pk o pl.length lim ne hfit


def cfgFrag (c : Cfg) : Bool :=
  match c.net with
  | .ipv4 ip _ => v4Frag ip
  | .ipv6 _ e => extsFrag e
  | .arp _ => false

/-- a payload without transport header must not be announced by a number the IP layer itself
    reads as an extension header -/
def RawOk (c : Cfg) : Prop :=
  c.tp = none →
    match c.net with
    | .ipv4 _ _ => c.last ≠ 51
    | .ipv6 _ _ => c.last ≠ 0 ∧ c.last ≠ 43 ∧ c.last ≠ 44 ∧ c.last ≠ 51 ∧ c.last ≠ 60
    | .arp _ => True
instance (c : Cfg) : Decidable (RawOk c) := by
  unfold RawOk; cases c.net <;> infer_instance

/-- the net layer strict decoding finds at `o` -/
def expNetAt (c : Cfg) (o n : Nat) : NetR :=
  match c.net with
  | .arp a => .arp ⟨o, a.headerLen⟩
  | .ipv4 ip e =>
    .ip (expIpv4 o ip.options.length (v4Frag ip)
          (e.auth.map fun a => ⟨o + (20 + ip.options.length), a.headerLen⟩) (endNum c) e.headerLen
          (tpHeaderLen c.tp + n))
  | .ipv6 _ e =>
    .ip (expIpv6 o (e.setNextHeaders (endNum c)).2 (endNum c) e.headerLen (tpHeaderLen c.tp + n) (extsFrag e))

/-- the transport layer strict decoding finds at `o` (none behind ARP and in fragments) -/
def expTpAt (c : Cfg) (o n : Nat) : Option TpR :=
  match c.net with
  | .arp _ => none
  | _ => if cfgFrag c then none else expTp c.tp o n

theorem endNum_ne (c : Cfg) (x : Nat) (h17 : x ≠ 17) (h6 : x ≠ 6) (h1 : x ≠ 1) (h58 : x ≠ 58)
    (hl : c.tp = none → c.last ≠ x) : endNum c ≠ x := by
  unfold endNum
  rcases htp : c.tp with _ | ⟨h | h | h | h⟩ <;> simp [Tp.ipNumber] <;> first | exact hl htp | omega

theorem walk_ipv4_cfg (c : Cfg) (pl : Bytes) (ip : Ipv4Header) (e : Ipv4Extensions) (hnet : c.net = .ipv4 ip e)
    (wf : c.WF) (enc : Encodable c pl.length) (hraw : RawOk c) (htp : cfgFrag c = false → TpOk c pl.length)
    (g : Mem) (k : Nat) (pk : Packet) (o : Nat) (lim : Dec.LenSource) (ne : Nat)
    (hh : Holds g o (outNet c pl.length ++ tpBytes (outTpHeader c pl))) :
    walkN false g (k + 2) pk .ipv4
        { off := o, stop := o + (20 + ip.options.length + innerLen c pl.length), lim := lim, nExt := ne }
      = (setTpO (setNet pk (expNetAt c o pl.length))
          (expTpAt c (o + (20 + ip.options.length + e.headerLen)) pl.length), none) := by
  have hnum := endNum_lt c wf
  have hnotarp : ∀ a, c.net ≠ .arp a := by intro a; rw [hnet]; exact fun h => by cases h
  have hnl := outNet_len c pl.length wf
  rw [hnet] at hnl
  simp only [Ipv4Header.headerLen] at hnl
  obtain ⟨_, _, wn, wt, _⟩ := wf
  rw [hnet] at wn
  obtain ⟨wi, we⟩ := wn
  obtain ⟨_, _, _, _, hfo, _, _, _, hs, hd, ho, ho4⟩ := wi
  simp only [Encodable, hnet] at enc
  have hinner : innerLen c pl.length = e.headerLen + tpHeaderLen c.tp + pl.length := by
    simp [innerLen, hnet, Net.extsLen]
  have hn51 : endNum c ≠ 51 :=
    endNum_ne c 51 (by omega) (by omega) (by omega) (by omega) (by
      intro h; have := hraw h; rw [hnet] at this; exact this)
  have hfrag : cfgFrag c = v4Frag ip := by simp [cfgFrag, hnet]
  have hhN := hh.left
  have hhT := hh.right
  rw [hnl] at hhT
  have hout : outNet c pl.length
      = (ipv4Out ip e (endNum c) (innerLen c pl.length)).toBytes ++ ipv4ExtsOut e (endNum c) := by
    simp [outNet, hnet]
  rw [hout] at hhN
  have htl : (ipv4Out ip e (endNum c) (innerLen c pl.length)).totalLen
      = 20 + ip.options.length + innerLen c pl.length := by
    simp only [ipv4Out, Ipv4Header.headerLen]; omega
  have hfit2 : tpHeaderLen c.tp + pl.length ≤ 65535 := by omega
  -- what happens behind the IP layer
  have tail : ∀ (pk' : Packet),
      walkN false g (k + 1) pk' (if v4Frag ip then .done else .tp (endNum c))
          { off := o + (20 + ip.options.length + e.headerLen),
            stop := o + (20 + ip.options.length + e.headerLen) + (tpHeaderLen c.tp + pl.length),
            lim := .ipv4HeaderTotalLen, nExt := ne }
        = (setTpO pk' (expTpAt c (o + (20 + ip.options.length + e.headerLen)) pl.length), none) := by
    intro pk'
    have e1 : expTpAt c (o + (20 + ip.options.length + e.headerLen)) pl.length
        = if v4Frag ip then none else expTp c.tp (o + (20 + ip.options.length + e.headerLen)) pl.length := by
      simp [expTpAt, hnet, hfrag]
    rw [e1]
    by_cases hf : v4Frag ip = true
    · simp only [hf, if_true, walkN_done, setTpO]
    · simp only [hf, if_false]
      exact walk_tp_cfg c pl wt hnotarp hfit2 (htp (by rw [hfrag]; simpa using hf)) g k pk' _ _ ne hhT
  rcases hauth : e.auth with _ | a
  · have hp : (ipv4Out ip e (endNum c) (innerLen c pl.length)).protocol = endNum c := by
      simp [ipv4Out, ipv4ExtsSetNextHeaders, hauth]
    have hel : e.headerLen = 0 := by simp [Ipv4Extensions.headerLen, hauth]
    have hx : ipv4ExtsOut e (endNum c) = [] := by simp [ipv4ExtsOut, hauth]
    rw [hx] at hhN
    have st := step_ipv4_plain g pk o (o + (20 + ip.options.length + innerLen c pl.length)) lim ne
      (ipv4Out ip e (endNum c) (innerLen c pl.length)) (tpHeaderLen c.tp + pl.length) ho ho4 hfo hs hd
      (by rw [hp]; exact hnum) (by rw [hp]; exact hn51) (by rw [htl, hinner, hel]; simp [ipv4Out])
      (by rw [htl]; omega) hhN.left (by rw [htl]; omega)
    rw [walkN_next false g (k + 1) pk _ _ _ _ _ (by simp) st, hp]
    have := tail (setNet pk (NetR.ip (expIpv4 o ip.options.length (v4Frag ip) none (endNum c) 0
      (tpHeaderLen c.tp + pl.length))))
    simp only [hel, Nat.add_zero] at this ⊢
    have eo : (ipv4Out ip e (endNum c) (innerLen c pl.length)).options = ip.options := rfl
    have ef : v4Frag (ipv4Out ip e (endNum c) (innerLen c pl.length)) = v4Frag ip := rfl
    have en : expNetAt c o pl.length = .ip (expIpv4 o ip.options.length (v4Frag ip) none (endNum c) 0
        (tpHeaderLen c.tp + pl.length)) := by simp [expNetAt, hnet, hauth, hel]
    have es : o + (20 + ip.options.length + (0 + tpHeaderLen c.tp + pl.length))
        = o + (20 + ip.options.length) + (tpHeaderLen c.tp + pl.length) := by omega
    rw [eo, ef, htl, en, hinner, hel, es]
    exact this
  · rw [hauth] at we
    have wa := authWithNext_wf a (endNum c) we hnum
    have hp : (ipv4Out ip e (endNum c) (innerLen c pl.length)).protocol = 51 := by
      simp [ipv4Out, ipv4ExtsSetNextHeaders, hauth]
    have hel : e.headerLen = (Ipv6Exts.authWithNext a (endNum c)).headerLen := by
      simp [Ipv4Extensions.headerLen, hauth, Ipv6Exts.authWithNext, IpAuthHeader.headerLen, IpAuthHeader.rawIcvLen]
    have hx : ipv4ExtsOut e (endNum c) = (Ipv6Exts.authWithNext a (endNum c)).toBytes := by simp [ipv4ExtsOut, hauth]
    rw [hx] at hhN
    have st := step_ipv4_auth g pk o (o + (20 + ip.options.length + innerLen c pl.length)) lim ne
      (ipv4Out ip e (endNum c) (innerLen c pl.length)) (Ipv6Exts.authWithNext a (endNum c))
      (tpHeaderLen c.tp + pl.length) ho ho4 hfo hs hd hp wa
      (by rw [htl, hinner, hel]; simp [ipv4Out]; omega)
      (by rw [htl]; omega) hhN (by rw [htl]; omega)
    rw [walkN_next false g (k + 1) pk _ _ _ _ _ (by simp) st]
    have := tail (setNet pk (NetR.ip (expIpv4 o ip.options.length (v4Frag ip)
      (some ⟨o + (20 + ip.options.length), e.headerLen⟩) (endNum c) e.headerLen
      (tpHeaderLen c.tp + pl.length))))
    have eo : (ipv4Out ip e (endNum c) (innerLen c pl.length)).options = ip.options := rfl
    have ef : v4Frag (ipv4Out ip e (endNum c) (innerLen c pl.length)) = v4Frag ip := rfl
    have en : expNetAt c o pl.length = .ip (expIpv4 o ip.options.length (v4Frag ip)
        (some ⟨o + (20 + ip.options.length), e.headerLen⟩) (endNum c) e.headerLen
        (tpHeaderLen c.tp + pl.length)) := by
      simp [expNetAt, hnet, hauth, Ipv4Extensions.headerLen]
    have enh : (Ipv6Exts.authWithNext a (endNum c)).nextHeader = endNum c := rfl
    have es : o + (20 + ip.options.length + (e.headerLen + tpHeaderLen c.tp + pl.length))
        = o + (20 + ip.options.length + e.headerLen) + (tpHeaderLen c.tp + pl.length) := by omega
    have es2 : o + (20 + ip.options.length) + e.headerLen = o + (20 + ip.options.length + e.headerLen) := by omega
    rw [eo, ef, htl, en, hinner, ← hel, enh, es, es2]
    exact this


theorem walk_ipv6_cfg (c : Cfg) (pl : Bytes) (ip : Ipv6Header) (e : Ipv6Exts) (hnet : c.net = .ipv6 ip e)
    (wf : c.WF) (enc : Encodable c pl.length) (hraw : RawOk c) (htp : cfgFrag c = false → TpOk c pl.length)
    (g : Mem) (k : Nat) (pk : Packet) (o : Nat) (lim : Dec.LenSource) (ne : Nat)
    (hh : Holds g o (outNet c pl.length ++ tpBytes (outTpHeader c pl))) :
    walkN false g (k + 2) pk .ipv6
        { off := o, stop := o + (40 + innerLen c pl.length), lim := lim, nExt := ne }
      = (setTpO (setNet pk (expNetAt c o pl.length)) (expTpAt c (o + (40 + e.headerLen)) pl.length), none) := by
  have hnum := endNum_lt c wf
  have hnotarp : ∀ a, c.net ≠ .arp a := by intro a; rw [hnet]; exact fun h => by cases h
  have hnl := outNet_len c pl.length wf
  rw [hnet] at hnl
  simp only at hnl
  obtain ⟨_, _, wn, wt, _⟩ := wf
  rw [hnet] at wn
  obtain ⟨wi, we⟩ := wn
  obtain ⟨htc, _, _, _, _, hs, hd⟩ := wi
  simp only [Encodable, hnet] at enc
  have hinner : innerLen c pl.length = e.headerLen + tpHeaderLen c.tp + pl.length := by
    simp [innerLen, hnet, Net.extsLen]
  have hr : c.tp = none → c.last ≠ 0 ∧ c.last ≠ 43 ∧ c.last ≠ 44 ∧ c.last ≠ 51 ∧ c.last ≠ 60 := by
    intro h; have := hraw h; rw [hnet] at this; exact this
  have hn0 : endNum c ≠ 0 := endNum_ne c 0 (by omega) (by omega) (by omega) (by omega) (fun h => (hr h).1)
  have hn43 : endNum c ≠ 43 := endNum_ne c 43 (by omega) (by omega) (by omega) (by omega) (fun h => (hr h).2.1)
  have hn44 : endNum c ≠ 44 := endNum_ne c 44 (by omega) (by omega) (by omega) (by omega) (fun h => (hr h).2.2.1)
  have hn51 : endNum c ≠ 51 := endNum_ne c 51 (by omega) (by omega) (by omega) (by omega) (fun h => (hr h).2.2.2.1)
  have hn60 : endNum c ≠ 60 := endNum_ne c 60 (by omega) (by omega) (by omega) (by omega) (fun h => (hr h).2.2.2.2)
  have hfrag : cfgFrag c = extsFrag e := by simp [cfgFrag, hnet]
  have hhN := hh.left
  have hhT := hh.right
  rw [hnl] at hhT
  have hout : outNet c pl.length
      = (ipv6Out ip e (endNum c) (innerLen c pl.length)).toBytes ++ ipv6ExtsOut e (endNum c) := by
    simp [outNet, hnet]
  rw [hout] at hhN
  have hpl : (ipv6Out ip e (endNum c) (innerLen c pl.length)).payloadLength = innerLen c pl.length := by
    simp only [ipv6Out]; omega
  have hel : (ipv6ExtsOut e (endNum c)).length = e.headerLen := by
    rw [ipv6ExtsOut, stdBytes_length _ (setNextHeaders_wf e (endNum c) we hnum).1, setNextHeaders_headerLen]
  have hfit2 : tpHeaderLen c.tp + pl.length ≤ 65535 := by omega
  have st := step_ipv6 g pk o lim ne (ipv6Out ip e (endNum c) (innerLen c pl.length)) (ipv6ExtsOut e (endNum c))
    (endNum c) (tpHeaderLen c.tp + pl.length) (extsFrag e) htc hs hd
    (setNextHeaders_wf e (endNum c) we hnum).2 (by rw [hpl, hel, hinner]; omega) (by rw [hpl]; omega) hhN
    (chain_exts g _ _ (endNum c) e we hnum hn0 hn60 hn43 hn44 hn51)
  rw [hpl] at st
  rw [walkN_next false g (k + 1) pk _ _ _ _ _ (by simp) st, hel]
  have en : expNetAt c o pl.length = .ip (expIpv6 o (ipv6Out ip e (endNum c) (innerLen c pl.length)).nextHeader
      (endNum c) e.headerLen (tpHeaderLen c.tp + pl.length) (extsFrag e)) := by
    simp [expNetAt, hnet, ipv6Out]
  have e1 : expTpAt c (o + (40 + e.headerLen)) pl.length
      = if extsFrag e then none else expTp c.tp (o + (40 + e.headerLen)) pl.length := by
    simp [expTpAt, hnet, hfrag]
  have es : o + (40 + innerLen c pl.length) = o + (40 + e.headerLen) + (tpHeaderLen c.tp + pl.length) := by omega
  have es2 : o + 40 + e.headerLen = o + (40 + e.headerLen) := by omega
  rw [en, e1, es, es2]
  by_cases hf : extsFrag e = true
  · simp only [hf, if_true, walkN_done, setTpO]
  · simp only [hf, if_false]
    exact walk_tp_cfg c pl wt hnotarp hfit2 (htp (by rw [hfrag]; simpa using hf)) g k _ _ _ ne hhT

/-! ### the whole walk -/

/-- size of the net layer (header and extension headers) -/
def netLen (c : Cfg) : Nat :=
  match c.net with
  | .ipv4 h e => 20 + h.options.length + e.headerLen
  | .ipv6 _ e => 40 + e.headerLen
  | .arp a => a.headerLen

def vlanLen (c : Cfg) : Nat :=
  match c.vlan with
  | some (.single _) => 4
  | some (.double _ _) => 8
  | none => 0

def linkLen (c : Cfg) : Nat :=
  match c.link with
  | some (.eth2 _) => 14
  | some (.sll _) => 16
  | none => 0

/-- the side conditions under which strict decoding returns the configured layers (all decidable;
    each excluded case is a configuration whose output the wire formats read differently):
    ARP needs a link layer in front (there is no ether type otherwise); a payload without transport
    header must be announced by a protocol number that neither the IP layer (extension headers) nor
    the transport decoders (UDP, TCP, ICMP) interpret; ICMPv4 timestamp messages are 20 bytes. -/
def NetOk (c : Cfg) (n : Nat) : Prop :=
  match c.net with
  | .arp _ => c.link ≠ none
  | _ => RawOk c ∧ (cfgFrag c = false → TpOk c n)
instance (c : Cfg) (n : Nat) : Decidable (NetOk c n) := by
  unfold NetOk; split <;> infer_instance

theorem walk_net_cfg (c : Cfg) (pl : Bytes) (wf : c.WF) (enc : Encodable c pl.length) (ok : NetOk c pl.length)
    (g : Mem) (k : Nat) (pk : Packet) (o : Nat) (lim : Dec.LenSource) (ne : Nat)
    (hh : Holds g o (outNet c pl.length ++ tpBytes (outTpHeader c pl))) :
    walkN false g (k + 3) pk (.ether c.net.etherType)
        { off := o, stop := o + (netLen c + tpHeaderLen c.tp + pl.length), lim := lim, nExt := ne }
      = (setTpO (setNet pk (expNetAt c o pl.length)) (expTpAt c (o + netLen c) pl.length), none) := by
  cases hnet : c.net with
  | arp a =>
    have wa : a.WF := by have := wf.2.2.1; rw [hnet] at this; exact this
    have hout : outNet c pl.length = a.toBytes := by simp [outNet, hnet]
    rw [hout] at hh
    have st := step_ether_arp g pk o (o + (netLen c + tpHeaderLen c.tp + pl.length)) lim ne a wa hh.left
      (by simp [netLen, hnet]; omega)
    simp only [Net.etherType]
    rw [walkN_next false g (k + 2) pk _ _ _ _ _ (by simp) st, walkN_done]
    simp [expNetAt, expTpAt, hnet, setTpO]
  | ipv4 ip e =>
    simp only [NetOk, hnet] at ok
    simp only [Net.etherType]
    rw [walkN_next false g (k + 2) pk _ _ _ _ _ (by simp) (step_ether_ipv4 g pk _)]
    have := walk_ipv4_cfg c pl ip e hnet wf enc ok.1 ok.2 g k pk o lim ne hh
    have es : netLen c + tpHeaderLen c.tp + pl.length = 20 + ip.options.length + innerLen c pl.length := by
      simp [netLen, hnet, innerLen, Net.extsLen]; omega
    have es2 : netLen c = 20 + ip.options.length + e.headerLen := by simp [netLen, hnet]
    rw [es, es2]
    exact this
  | ipv6 ip e =>
    simp only [NetOk, hnet] at ok
    simp only [Net.etherType]
    rw [walkN_next false g (k + 2) pk _ _ _ _ _ (by simp) (step_ether_ipv6 g pk _)]
    have := walk_ipv6_cfg c pl ip e hnet wf enc ok.1 ok.2 g k pk o lim ne hh
    have es : netLen c + tpHeaderLen c.tp + pl.length = 40 + innerLen c pl.length := by
      simp [netLen, hnet, innerLen, Net.extsLen]; omega
    have es2 : netLen c = 40 + e.headerLen := by simp [netLen, hnet]
    rw [es, es2]
    exact this


/-- VLAN tags found at `o` when `r` bytes follow them -/
def expExtsAt (c : Cfg) (o r : Nat) : List ExtR :=
  match c.vlan with
  | none => []
  | some (.single _) => [.vlan ⟨o, 4 + r⟩]
  | some (.double _ _) => [.vlan ⟨o, 8 + r⟩, .vlan ⟨o + 4, 4 + r⟩]

def addExts (p : Packet) (xs : List ExtR) : Packet := { p with exts := p.exts ++ xs }

theorem netEt_lt (c : Cfg) : c.net.etherType < 65536 := by cases c.net <;> simp [Net.etherType]

theorem walk_vlan_cfg (c : Cfg) (pl : Bytes) (wf : c.WF) (enc : Encodable c pl.length) (ok : NetOk c pl.length)
    (g : Mem) (k : Nat) (pk : Packet) (o : Nat) (lim : Dec.LenSource)
    (hh : Holds g o (outVlan c ++ (outNet c pl.length ++ tpBytes (outTpHeader c pl)))) :
    walkN false g (k + 5) pk (.ether (firstEt c.vlan c.net.etherType))
        { off := o, stop := o + (vlanLen c + (netLen c + tpHeaderLen c.tp + pl.length)), lim := lim, nExt := 0 }
      = (setTpO (setNet (addExts pk (expExtsAt c o (netLen c + tpHeaderLen c.tp + pl.length)))
                  (expNetAt c (o + vlanLen c) pl.length))
          (expTpAt c (o + vlanLen c + netLen c) pl.length), none) := by
  have het := netEt_lt c
  rcases hv : c.vlan with _ | ⟨v | ⟨vo, vi⟩⟩
  · have hout : outVlan c = [] := by simp [outVlan, vlanBytes, hv]
    rw [hout] at hh
    have := walk_net_cfg c pl wf enc ok g (k + 2) pk o lim 0 hh.right
    simpa [firstEt, vlanLen, hv, expExtsAt, addExts] using this
  · have hout : outVlan c = (withEt v c.net.etherType).toBytes := by simp [outVlan, vlanBytes, hv]
    rw [hout] at hh
    have hl := vlan_len (withEt v c.net.etherType)
    have g2 : g16 g (o + 2) = c.net.etherType := by
      rw [hh.left.g16 2 (by omega), vlan_et _ (by simpa [withEt] using het)]; rfl
    have st := step_vlan g pk o (o + (4 + (netLen c + tpHeaderLen c.tp + pl.length))) lim 0 0x8100
      (by decide) (by decide) (by omega)
    simp only [firstEt, vlanLen, hv]
    rw [walkN_next false g (k + 4) pk _ _ _ _ _ (by simp) st, g2]
    have hr := hh.right
    rw [hl] at hr
    have es : o + (4 + (netLen c + tpHeaderLen c.tp + pl.length))
        = o + 4 + (netLen c + tpHeaderLen c.tp + pl.length) := by omega
    have es2 : o + (4 + (netLen c + tpHeaderLen c.tp + pl.length)) - o
        = 4 + (netLen c + tpHeaderLen c.tp + pl.length) := by omega
    rw [es2, es]
    have := walk_net_cfg c pl wf enc ok g (k + 1) (addExt pk (.vlan ⟨o, 4 + (netLen c + tpHeaderLen c.tp + pl.length)⟩))
      (o + 4) lim (0 + 1) hr
    simpa [expExtsAt, hv, addExts, addExt] using this
  · have hout : outVlan c = (withEt vo 0x8100).toBytes ++ (withEt vi c.net.etherType).toBytes := by
      simp [outVlan, vlanBytes, hv]
    rw [hout] at hh
    have hl1 := vlan_len (withEt vo 0x8100)
    have hl2 := vlan_len (withEt vi c.net.etherType)
    have h1 := hh.left.left
    have h2 := hh.left.right
    rw [hl1] at h2
    have g2 : g16 g (o + 2) = 0x8100 := by
      rw [h1.g16 2 (by omega), vlan_et _ (by simp [withEt])]; rfl
    have g6 : g16 g (o + 4 + 2) = c.net.etherType := by
      rw [h2.g16 2 (by omega), vlan_et _ (by simpa [withEt] using het)]; rfl
    have st1 := step_vlan g pk o (o + (8 + (netLen c + tpHeaderLen c.tp + pl.length))) lim 0 0x88a8
      (by decide) (by decide) (by omega)
    simp only [firstEt, vlanLen, hv]
    rw [walkN_next false g (k + 4) pk _ _ _ _ _ (by simp) st1, g2]
    have st2 := step_vlan g (addExt pk (.vlan ⟨o, o + (8 + (netLen c + tpHeaderLen c.tp + pl.length)) - o⟩)) (o + 4)
      (o + (8 + (netLen c + tpHeaderLen c.tp + pl.length))) lim (0 + 1) 0x8100
      (by decide) (by decide) (by omega)
    rw [walkN_next false g (k + 3) _ _ _ _ _ _ (by simp) st2, g6]
    have hr := hh.right
    simp only [List.length_append, hl1, hl2] at hr
    have es : o + (8 + (netLen c + tpHeaderLen c.tp + pl.length))
        = o + 4 + 4 + (netLen c + tpHeaderLen c.tp + pl.length) := by omega
    have es2 : o + (8 + (netLen c + tpHeaderLen c.tp + pl.length)) - o
        = 8 + (netLen c + tpHeaderLen c.tp + pl.length) := by omega
    have es3 : o + (8 + (netLen c + tpHeaderLen c.tp + pl.length)) - (o + 4)
        = 4 + (netLen c + tpHeaderLen c.tp + pl.length) := by omega
    have es4 : o + (4 + 4) = o + 4 + 4 := by omega
    rw [es2, es3, es]
    rw [es4] at hr
    have := walk_net_cfg c pl wf enc ok g k
      (addExt (addExt pk (.vlan ⟨o, 8 + (netLen c + tpHeaderLen c.tp + pl.length)⟩))
        (.vlan ⟨o + 4, 4 + (netLen c + tpHeaderLen c.tp + pl.length)⟩))
      (o + 4 + 4) lim (0 + 1 + 1) hr
    have es5 : o + 8 = o + 4 + 4 := by omega
    simpa [expExtsAt, hv, addExts, addExt, es5] using this



/-- `NetOk`, and VLAN tags only behind an Ethernet II header (the typed builder steps offer
    `vlan` only there; the model's `Cfg` is wider: behind an SLL header the builder would announce
    the net layer and emit the tags nevertheless) -/
def ParseOk (c : Cfg) (n : Nat) : Prop :=
  (match c.link with
   | some (.eth2 _) => True
   | _ => c.vlan = none) ∧ NetOk c n
instance (c : Cfg) (n : Nat) : Decidable (ParseOk c n) := by
  unfold ParseOk
  rcases c.link with _ | ⟨h | s⟩ <;> infer_instance

/-- the entry point that fits the configuration: `from_ethernet`, `from_linux_sll`, `from_ip` -/
def startOf (c : Cfg) : Start :=
  match c.link with
  | some (.eth2 _) => .eth
  | some (.sll _) => .sll
  | none => .ip

/-- the layers strict decoding returns for the output of configuration `c` with `n` payload bytes -/
def expPacket (c : Cfg) (n : Nat) : Packet :=
  { link := (match c.link with
      | some (.eth2 _) => some (.eth2 ⟨0, size c n⟩)
      | some (.sll _) => some (.sll ⟨0, size c n⟩)
      | none => none),
    exts := expExtsAt c (linkLen c) (netLen c + tpHeaderLen c.tp + n),
    net := some (expNetAt c (linkLen c + vlanLen c) n),
    tp := expTpAt c (linkLen c + vlanLen c + netLen c) n,
    stop := none }

theorem size_eq (c : Cfg) (n : Nat) :
    size c n = linkLen c + (vlanLen c + (netLen c + tpHeaderLen c.tp + n)) := by
  unfold size linkLen vlanLen netLen
  rcases c.link with _ | ⟨h | h⟩ <;> rcases c.vlan with _ | ⟨v | ⟨a, b⟩⟩ <;> cases c.net <;>
    rcases c.tp with _ | ⟨h | h | h | h⟩ <;>
    simp [Eth2.headerLen, Sll.headerLen, Ipv4Header.headerLen, tpHeaderLen, Tp.headerLen, Udp.headerLen] <;> omega

theorem setTpO_empty (l : Option LinkR) (xs : List ExtR) (n : NetR) (t : Option TpR) :
    setTpO (setNet (addExts { link := l, exts := [], net := none, tp := none, stop := none } xs) n) t
      = { link := l, exts := xs, net := some n, tp := t, stop := none } := by
  cases t <;> simp [setTpO, setNet, addExts, setTp]


theorem ipv4_byte0 (h : Ipv4Header) (ho : h.options.length ≤ 40) :
    bAt h.toBytes 0 = 64 + (h.options.length / 4 + 5) := by
  have e0 : 64 ||| h.ihl = 64 + (h.options.length / 4 + 5) := by
    rw [CodecNet.Ipv4.ihl_eq h ho]; exact CodecNet.or_eq_add 4 (by decide) (by omega)
  unfold Ipv4Header.toBytes Ipv4Header.headerLen
  rw [bAt_take _ _ _ (by omega)]
  simp [e0]; omega

theorem ipv6_byte0 (h : Ipv6Header) (htc : h.trafficClass < 256) : bAt h.toBytes 0 / 16 = 6 := by
  have e0 : 96 ||| (h.trafficClass >>> 4) = 96 + h.trafficClass / 16 := by
    rw [Nat.shiftRight_eq_div_pow]; exact CodecNet.or_eq_add 4 (by decide) (by omega)
  unfold Ipv6Header.toBytes
  simp [e0]; omega

theorem sll_not_nonstd (c : Cfg) : sllNonStandard c.net.etherType = false := by
  cases c.net <;> simp [Net.etherType, sllNonStandard]

theorem decode_buildOk (c : Cfg) (pl : Bytes) (wf : c.WF) (enc : Encodable c pl.length)
    (ok : ParseOk c pl.length) :
    Spec.decode (startOf c) (memOf (buildOk c pl)) (buildOk c pl).length = .ok (expPacket c pl.length) := by
  have hlen := buildOk_length c pl wf
  have hsz := size_eq c pl.length
  have hll := outLink_len c wf.1
  obtain ⟨g, hg⟩ : ∃ g, g = memOf (buildOk c pl) := ⟨_, rfl⟩
  have hh0 : Holds g 0 (buildOk c pl) := hg ▸ holds_memOf (buildOk c pl)
  rw [← hg]
  clear hg
  have hb : buildOk c pl = outLink c ++ ((outVlan c ++ (outNet c pl.length ++ tpBytes (outTpHeader c pl))) ++ pl) := by
    simp [buildOk, List.append_assoc]
  rw [hb] at hh0
  rw [hlen]
  have hL := hh0.left
  have hR := hh0.right.left
  rw [Nat.zero_add] at hR
  unfold Spec.decode
  have hnum : maxSteps = 12 := rfl
  rw [hnum]
  rcases hl : c.link with _ | ⟨h | s⟩
  · -- no link layer: `from_ip`
    have hv : c.vlan = none := by have := ok.1; rw [hl] at this; exact this
    have hll0 : (outLink c).length = 0 := by rw [hll, hl]
    have ho : outVlan c = [] := by simp [outVlan, vlanBytes, hv]
    rw [hll0, ho] at hR
    have hR' := hR.right
    simp only [List.length_nil, Nat.add_zero] at hR'
    have e0 : linkLen c = 0 := by simp [linkLen, hl]
    have e1 : vlanLen c = 0 := by simp [vlanLen, hv]
    have hx : expExtsAt c 0 (netLen c + tpHeaderLen c.tp + pl.length) = [] := by simp [expExtsAt, hv]
    simp only [startOf, hl, startTag, startPacket, if_true, ite_self, expPacket, e0, e1, hx, Nat.zero_add, hsz]
    have nok := ok.2
    cases hnet : c.net with
    | arp a => simp [NetOk, hnet, hl] at nok
    | ipv4 ip e =>
      simp only [NetOk, hnet] at nok
      have wi : ip.WF := by have := wf.2.2.1; rw [hnet] at this; exact this.1
      obtain ⟨_, _, _, _, hfo, _, _, _, hs, hd, hol, ho4⟩ := wi
      have hout : outNet c pl.length
          = (ipv4Out ip e (endNum c) (innerLen c pl.length)).toBytes ++ ipv4ExtsOut e (endNum c) := by
        simp [outNet, hnet]
      have hhd := hR'.left
      rw [hout] at hhd
      have hl4 := ipv4_len (ipv4Out ip e (endNum c) (innerLen c pl.length)) hs hd hol
      have f0 := ipv4_byte0 (ipv4Out ip e (endNum c) (innerLen c pl.length)) hol
      have eo : (ipv4Out ip e (endNum c) (innerLen c pl.length)).options = ip.options := rfl
      rw [eo] at f0 hl4
      have g0 : g 0 / 16 = 4 := by
        rw [hhd.left.at0 (by omega), f0]; omega
      have es : netLen c + tpHeaderLen c.tp + pl.length = 20 + ip.options.length + innerLen c pl.length := by
        simp [netLen, hnet, innerLen, Net.extsLen]; omega
      have es2 : netLen c = 20 + ip.options.length + e.headerLen := by simp [netLen, hnet]
      have st := step_ipAny4 g Packet.empty 0 (netLen c + tpHeaderLen c.tp + pl.length) .slice 0 (by omega) g0
      rw [walkN_next false g 11 _ _ _ _ _ _ (by simp) st]
      have := walk_ipv4_cfg c pl ip e hnet wf enc nok.1 nok.2 g 9 Packet.empty 0 .slice 0 hR'
      simp only [Nat.zero_add] at this
      rw [es, this, es2]
      simp only [verdict, Packet.empty]
      rw [← setTpO_empty none [] _ _]
      simp [addExts]
    | ipv6 ip e =>
      simp only [NetOk, hnet] at nok
      have wi : ip.WF := by have := wf.2.2.1; rw [hnet] at this; exact this.1
      obtain ⟨htc, _, _, _, _, hs, hd⟩ := wi
      have hout : outNet c pl.length
          = (ipv6Out ip e (endNum c) (innerLen c pl.length)).toBytes ++ ipv6ExtsOut e (endNum c) := by
        simp [outNet, hnet]
      have hhd := hR'.left
      rw [hout] at hhd
      have hl6 := ipv6_len (ipv6Out ip e (endNum c) (innerLen c pl.length)) hs hd
      have f0 := ipv6_byte0 (ipv6Out ip e (endNum c) (innerLen c pl.length)) htc
      have g0 : g 0 / 16 = 6 := by
        rw [hhd.left.at0 (by omega), f0]
      have es : netLen c + tpHeaderLen c.tp + pl.length = 40 + innerLen c pl.length := by
        simp [netLen, hnet, innerLen, Net.extsLen]; omega
      have es2 : netLen c = 40 + e.headerLen := by simp [netLen, hnet]
      have st := step_ipAny6 g Packet.empty 0 (netLen c + tpHeaderLen c.tp + pl.length) .slice 0 (by omega) g0
      rw [walkN_next false g 11 _ _ _ _ _ _ (by simp) st]
      have := walk_ipv6_cfg c pl ip e hnet wf enc nok.1 nok.2 g 9 Packet.empty 0 .slice 0 hR'
      simp only [Nat.zero_add] at this
      rw [es, this, es2]
      simp only [verdict, Packet.empty]
      rw [← setTpO_empty none [] _ _]
      simp [addExts]
  · -- Ethernet II: `from_ethernet`
    have wl : h.WF := by have := wf.1; rw [hl] at this; exact this
    have hll14 : (outLink c).length = 14 := by rw [hll, hl]; rfl
    rw [hll14] at hR
    have ho : outLink c = Eth2.toBytes { dst := h.dst, src := h.src, et := firstEt c.vlan c.net.etherType } := by
      simp [outLink, outLinkOf, hl]
    have het : firstEt c.vlan c.net.etherType < 65536 := by
      have := netEt_lt c
      unfold firstEt
      rcases c.vlan with _ | ⟨v | ⟨o, i⟩⟩ <;> simp <;> exact this
    have g12 : g16 g (0 + 12) = firstEt c.vlan c.net.etherType := by
      rw [hL.g16 12 (by omega), ho,
        eth2_et { dst := h.dst, src := h.src, et := firstEt c.vlan c.net.etherType } ⟨wl.1, wl.2.1, het⟩]
    have e0 : linkLen c = 14 := by simp [linkLen, hl]
    simp only [startOf, hl, startTag, startPacket, expPacket, e0, hsz]
    have st := step_eth g Packet.empty 0 (14 + (vlanLen c + (netLen c + tpHeaderLen c.tp + pl.length))) .slice 0
      (by omega)
    rw [walkN_next false g 11 _ _ _ _ _ _ (by simp) st, g12]
    have := walk_vlan_cfg c pl wf enc ok.2 g 6 (setLink Packet.empty (.eth2 ⟨0, 14 + (vlanLen c + (netLen c + tpHeaderLen c.tp + pl.length)) - 0⟩)) 14 .slice hR
    simp only [Nat.zero_add, Nat.sub_zero] at this ⊢
    rw [this]
    simp only [verdict, Packet.empty, setLink]
    rw [setTpO_empty]
  · -- Linux cooked capture: `from_linux_sll`
    have wl : s.WF ∧ s.hrd = 1 := by have := wf.1; rw [hl] at this; exact this
    have hll16 : (outLink c).length = 16 := by rw [hll, hl]; rfl
    rw [hll16] at hR
    have hpc : (sllChangeValue s.proto c.net.etherType).val = c.net.etherType := by
      have hns : isNonstdEtherType c.net.etherType = false := by cases c.net <;> simp [Net.etherType, isNonstdEtherType]
      cases s.proto <;> simp [sllChangeValue, hns, SllProto.val]
    have ws : (Sll.mk s.ptype s.hrd s.alen s.addr (sllChangeValue s.proto c.net.etherType)).WF := by
      obtain ⟨⟨a, b, c1, d, e1, f⟩, hh1⟩ := wl
      refine ⟨a, b, c1, d, ?_, ?_⟩
      · rw [hpc]; exact netEt_lt c
      · have hns : isNonstdEtherType c.net.etherType = false := by cases c.net <;> simp [Net.etherType, isNonstdEtherType]
        revert f
        cases s.proto <;> simp [sllChangeValue, hns, Sll.protoConsistent, hh1]
    have ho : outLink c = Sll.toBytes (Sll.mk s.ptype s.hrd s.alen s.addr (sllChangeValue s.proto c.net.etherType)) := by
      simp [outLink, outLinkOf, hl]
    obtain ⟨f0, f2, f14⟩ := sll_fields _ ws
    rw [← ho] at f0 f2 f14
    have g0 : g16 g 0 ≤ 7 := by
      have := hL.g16 0 (by omega)
      rw [Nat.zero_add] at this
      rw [this, f0]; exact wl.1.1
    have g2 : g16 g (0 + 2) = 1 := by rw [hL.g16 2 (by omega), f2]; exact wl.2
    have g14 : g16 g (0 + 14) = c.net.etherType := by rw [hL.g16 14 (by omega), f14, hpc]
    have e0 : linkLen c = 16 := by simp [linkLen, hl]
    simp only [startOf, hl, startTag, startPacket, expPacket, e0, hsz]
    have st := step_sll g Packet.empty 0 (16 + (vlanLen c + (netLen c + tpHeaderLen c.tp + pl.length))) .slice 0
      c.net.etherType (by omega) g0 g2 g14 (sll_not_nonstd c)
    rw [walkN_next false g 11 _ _ _ _ _ _ (by simp) st]
    have hv : c.vlan = none := by have := ok.1; rw [hl] at this; exact this
    have hfe : firstEt c.vlan c.net.etherType = c.net.etherType := by simp [firstEt, hv]
    have := walk_vlan_cfg c pl wf enc ok.2 g 6 (setLink Packet.empty (.sll ⟨0, 16 + (vlanLen c + (netLen c + tpHeaderLen c.tp + pl.length)) - 0⟩)) 16 .slice hR
    rw [hfe] at this
    simp only [Nat.zero_add, Nat.sub_zero] at this ⊢
    rw [this]
    simp only [verdict, Packet.empty, setLink]
    rw [setTpO_empty]

end EpModel.Lemmas.BuilderParse
