/-
  Reference semantics for the IPv6 extension header chain (RFC 8200 section 4 and 4.1).
  Shares no code with `EpModel.Model.*` beyond the byte type.

  * every extension header carries a "Next Header" field naming the header that follows it; the
    IPv6 header names the first one; the chain ends at the first number that is not consumed
    (`Walk`).
  * when more than one extension header is used the recommended order is `rfc8200Order`;
    the hop-by-hop options header must directly follow the IPv6 header.
-/
import EpModel.Model.Basic
namespace EpModel.Spec.Ext
open EpModel

/-- the extension headers of RFC 8200 section 4.1, the destination options header counted twice
    (note 1: before the routing header; note 3: final destination). -/
inductive Kind where
  | hopByHop | destOpts | routing | fragment | auth | esp | finalDestOpts
deriving DecidableEq, Repr

/-- IANA protocol number naming a header of this kind in a "Next Header" field. -/
def Kind.ipNumber : Kind → Nat
  | .hopByHop => 0
  | .destOpts => 60
  | .routing => 43
  | .fragment => 44
  | .auth => 51
  | .esp => 50
  | .finalDestOpts => 60

/-- RFC 8200 section 4.1: "it is recommended that those headers appear in the following order". -/
def rfc8200Order : List Kind :=
  [.hopByHop, .destOpts, .routing, .fragment, .auth, .esp, .finalDestOpts]

/-- one header of a chain: what it is, what it announces next, how it is serialised. -/
structure Hdr where
  kind : Kind
  next : Nat
  bytes : Bytes
deriving DecidableEq, Repr

/-- The declarative walk: `Walk first chain last` holds iff the IPv6 header's next header value
    `first` names the first header of `chain`, every header names its successor, and the last
    header names `last` (the empty chain walks from `n` to `n`). -/
def Walk (first : Nat) : List Hdr → Nat → Prop
  | [], last => first = last
  | h :: rest, last => first = h.kind.ipNumber ∧ Walk h.next rest last

def Walk.dec : (first : Nat) → (chain : List Hdr) → (last : Nat) → Decidable (Walk first chain last)
  | first, [], last => (inferInstance : Decidable (first = last))
  | first, h :: rest, last =>
    have := Walk.dec h.next rest last
    (inferInstance : Decidable (first = h.kind.ipNumber ∧ Walk h.next rest last))

instance (first : Nat) (chain : List Hdr) (last : Nat) : Decidable (Walk first chain last) :=
  Walk.dec first chain last

/-- the chain uses each kind at most once and in the recommended order. -/
def InRfcOrder (chain : List Hdr) : Prop := (chain.map (·.kind)).Sublist rfc8200Order

/-- the wire image of a chain: the headers one after the other. -/
def serialise (chain : List Hdr) : Bytes := chain.flatMap (·.bytes)

/-- RFC 8200 section 4.3: the hop-by-hop options header, if present, is the first one. -/
def HopByHopOnlyFirst : List Hdr → Prop
  | [] => True
  | _ :: rest => ∀ h ∈ rest, h.kind ≠ .hopByHop

/-- EtherType of an IP version (IEEE 802 numbers): IPv4 0x0800, IPv6 0x86DD. -/
def etherTypeOfVersion (v : Nat) : Option Nat :=
  if v = 4 then some 0x0800 else if v = 6 then some 0x86dd else none

end EpModel.Spec.Ext
