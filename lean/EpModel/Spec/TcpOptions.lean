import EpModel.Model.TcpOptions
/-
  Reference semantics for TCP options: the wire formats of
    RFC 9293 3.1  End of option list (kind 0, 1 byte), No-Operation (kind 1, 1 byte),
                  Maximum Segment Size (kind 2, length 4, 16 bit value)
    RFC 7323      Window Scale (kind 3, length 3, 8 bit shift), Timestamps (kind 8, length 10, TSval, TSecr)
    RFC 2018      SACK-Permitted (kind 4, length 2), SACK (kind 5, length 8n+2, n = 1..4 blocks of two
                  32 bit edges)
  Only the data types `Elem` / `ReadErr` (and the byte utilities) are shared with the model; nothing of
  the encoder or the iterator is used here.
-/
namespace EpModel.Spec.TcpOpt
open EpModel EpModel.TcpOptions

/-- the value ranges of the Rust element type (u16, u8, u32). -/
def PairWF (p : Pair) : Prop := p.1 < 4294967296 ∧ p.2 < 4294967296

instance (p : Pair) : Decidable (PairWF p) := by unfold PairWF; infer_instance

def SlotWF : Option Pair → Prop
  | none => True
  | some p => PairWF p

instance (s : Option Pair) : Decidable (SlotWF s) := by
  cases s <;> unfold SlotWF <;> infer_instance

def WF : Elem → Prop
  | .noop => True
  | .mss v => v < 65536
  | .ws v => v < 256
  | .sackPerm => True
  | .sack f r0 r1 r2 => PairWF f ∧ SlotWF r0 ∧ SlotWF r1 ∧ SlotWF r2
  | .ts a b => a < 4294967296 ∧ b < 4294967296

instance (e : Elem) : Decidable (WF e) := by
  cases e <;> unfold WF <;> infer_instance

/-- the SACK blocks of an element in wire order: the first block, then the present optional ones. -/
def present (r0 r1 r2 : Option Pair) : List Pair := [r0, r1, r2].filterMap id

def wirePair (p : Pair) : Bytes := enc32 p.1 ++ enc32 p.2

/-- the wire form of one option: kind, length, value. -/
def wire : Elem → Bytes
  | .noop => [1]
  | .mss v => 2 :: 4 :: enc16 v
  | .ws v => [3, 3, u8 v]
  | .sackPerm => [4, 2]
  | .sack f r0 r1 r2 =>
      5 :: u8 (2 + 8 * (1 + (present r0 r1 r2).length)) :: ((f :: present r0 r1 r2).map wirePair).flatten
  | .ts a b => 8 :: 10 :: (enc32 a ++ enc32 b)

/-- `None` holes among the optional SACK blocks are not representable on the wire: the present
    blocks are contiguous.  `normSack` is the element one gets back. -/
def normSack : Elem → Elem
  | .sack f r0 r1 r2 =>
      let p := present r0 r1 r2
      .sack f p[0]? p[1]? p[2]?
  | e => e

/-- wire form of a list of options. -/
def wireAll (es : List Elem) : Bytes := (es.map wire).flatten

/-- the length byte `len` is the one prescribed for kind `k`. -/
def ValidLen (k len : Nat) : Prop :=
  (k = 2 ∧ len = 4) ∨ (k = 3 ∧ len = 3) ∨ (k = 4 ∧ len = 2) ∨ (k = 8 ∧ len = 10) ∨
    (k = 5 ∧ (len = 10 ∨ len = 18 ∨ len = 26 ∨ len = 34))

instance (k len : Nat) : Decidable (ValidLen k len) := by unfold ValidLen; infer_instance

/-- kinds the crate knows. -/
def Known (k : Nat) : Prop := k = 0 ∨ k = 1 ∨ k = 2 ∨ k = 3 ∨ k = 4 ∨ k = 5 ∨ k = 8

instance (k : Nat) : Decidable (Known k) := by unfold Known; infer_instance

/-- "the error describes what really stands at the start of `b`":
    * `UnknownId(id)`: `id` is the kind byte and it is not a known kind;
    * `UnexpectedSize{id,size}`: kind byte and length byte are really these, the kind has a length
      byte, and that length is not one the kind allows;
    * `UnexpectedEndOfSlice{id,exp,act}`: `id` is the kind byte, `act` is the real remaining
      length, `act < exp`, and `exp` is the length the option really needs: the prescribed length of
      a fixed size kind, for SACK the (valid) length byte, or 2 if not even the length byte is there. -/
def ErrAt : ReadErr → Bytes → Prop
  | .unknown id, b => 0 < b.length ∧ id = bAt b 0 ∧ ¬ Known id
  | .size id sz, b =>
      2 ≤ b.length ∧ id = bAt b 0 ∧ sz = bAt b 1 ∧ Known id ∧ 2 ≤ id ∧ ¬ ValidLen id sz
  | .eos id exp act, b =>
      0 < b.length ∧ id = bAt b 0 ∧ act = b.length ∧ act < exp ∧
        ((id ≠ 5 ∧ ValidLen id exp) ∨ (id = 5 ∧ b.length < 2 ∧ exp = 2) ∨
          (id = 5 ∧ 2 ≤ b.length ∧ exp = bAt b 1 ∧ ValidLen 5 exp))

instance (e : ReadErr) (b : Bytes) : Decidable (ErrAt e b) := by
  cases e <;> unfold ErrAt <;> infer_instance

end EpModel.Spec.TcpOpt
