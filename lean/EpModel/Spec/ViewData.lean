import EpModel.Model.Basic
/-
  Data vocabulary of the control-message format tables (Spec side of C17):
  a decoded view is a kind name, an optional code name and a list of named field values; a format
  table says where each field sits in the message.  Only byte utilities of `Model/Basic` are used.
-/
namespace EpModel.Spec
open EpModel

/-- a field value: a number, a byte string, or a window `(offset,len)` into the input. -/
inductive Val | n (v : Nat) | b (bs : Bytes) | w (off len : Nat)
  deriving DecidableEq, Repr

/-- a decoded view: message kind, name of the code (empty when the kind has a single code), fields. -/
structure View where
  kind : String
  sub : String
  fields : List (String × Val)
  deriving DecidableEq, Repr

def Val.render : Val → String
  | .n v => toString v
  | .b bs => hexOfBytes bs
  | .w o l => s!"({o},{l})"

/-- canonical text of a view: `Kind.Sub(f=v,…)`, `Kind(f=v,…)` when there is no code name. -/
def View.render (v : View) : String :=
  v.kind ++ (if v.sub = "" then "" else "." ++ v.sub) ++ "(" ++
    ",".intercalate (v.fields.map fun p => p.1 ++ "=" ++ p.2.render) ++ ")"

/-- position and encoding of a field inside a message (offsets from the first byte of the message;
    all integers are big endian / network byte order). -/
inductive Fld
  | u8 (off : Nat) | u16 (off : Nat) | u32 (off : Nat)
  | bit (off mask : Nat)        -- one flag bit, `mask` a power of two; value 0 or 1
  | bits (off div mod : Nat)    -- a bit group of the byte at `off`: `byte / div % mod`
  | raw (off len : Nat)         -- `len` bytes copied out
  | win (off len : Nat)         -- `len` bytes referred to by position
  | tail (off : Nat)            -- everything from `off` to the end, referred to by position
  deriving DecidableEq, Repr

/-- read a field out of a message `m` that starts at absolute offset `base` of the input. -/
def Fld.read (f : Fld) (base : Nat) (m : Bytes) : Val :=
  match f with
  | .u8 o => .n (bAt m o)
  | .u16 o => .n (be16 m o)
  | .u32 o => .n (be32 m o)
  | .bit o mask => .n (bAt m o / mask % 2)
  | .bits o d md => .n (bAt m o / d % md)
  | .raw o l => .b (sub m o l)
  | .win o l => .w (base + o) l
  | .tail o => .w (base + o) (m.length - o)

def readFields (fs : List (String × Fld)) (base : Nat) (m : Bytes) : List (String × Val) :=
  fs.map fun p => (p.1, p.2.read base m)

end EpModel.Spec
