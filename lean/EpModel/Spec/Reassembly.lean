import EpModel.Model.Basic
/-
  Reference semantics of IP reassembly (RFC 791 section 3.2 "fragmentation and reassembly",
  RFC 8200 section 4.5), as an abstract "set of delivered facts" per stream.

  A stream (one datagram in flight) is the list of the fragments accepted so far, newest first.
  Nothing is copied into a buffer: which bytes have been delivered, the announced length and the
  value of each byte are *read off the facts*.  A stream emits its payload at the delivery after
  which every byte of `[0, end)` has been delivered and `end` is known; the stream is then forgotten.
  The key type is a parameter (streams with different keys share nothing by construction).

  Shares no code with EpModel.Model.Defrag.
-/
namespace EpModel.Spec.Reasm
open EpModel

/-- one delivered fragment: fragment offset field (units of 8 bytes), "this is the last fragment"
    (more-fragments flag clear) and the payload bytes. -/
structure Frag where
  fo : Nat
  last : Bool
  bytes : Bytes
deriving DecidableEq, Repr

/-- first byte position -/
def Frag.off (f : Frag) : Nat := 8 * f.fo
/-- position behind the last byte -/
def Frag.stop (f : Frag) : Nat := f.off + f.bytes.length

/-- byte position `i` has been delivered -/
def covered (fs : List Frag) (i : Nat) : Prop := ∃ f ∈ fs, f.off ≤ i ∧ i < f.stop

instance (fs : List Frag) (i : Nat) : Decidable (covered fs i) := by
  unfold covered; exact inferInstance

/-- the value delivered for byte position `i` (the most recent one, should fragments disagree) -/
def byteAt : List Frag → Nat → Option UInt8
  | [], _ => none
  | f :: fs, i => if f.off ≤ i ∧ i < f.stop then f.bytes[i - f.off]? else byteAt fs i

/-- the announced length of the datagram: the end of a last fragment, once one was accepted -/
def endOf : List Frag → Option Nat
  | [] => none
  | f :: fs => if f.last = true then some f.stop else endOf fs

/-- the farthest position delivered so far -/
def extent : List Frag → Nat
  | [] => 0
  | f :: fs => max f.stop (extent fs)

/-- the first `e` byte positions as delivered -/
def payload (fs : List Frag) (e : Nat) : Bytes := (List.range e).map (fun i => (byteAt fs i).getD 0)

/-- the datagram is complete: length known and every position below it delivered -/
def complete (fs : List Frag) (e : Nat) : Prop := endOf fs = some e ∧ ∀ i, i < e → covered fs i

/-- the payload, if complete -/
def emit (fs : List Frag) : Option Bytes :=
  match endOf fs with
  | some e => if ∀ i, i < e → covered fs i then some (payload fs e) else none
  | none => none

/-- why a fragment cannot belong to the datagram described by the facts so far -/
inductive Reject where
  /-- a non-last fragment whose length is not a multiple of 8 (the next one could not be addressed) -/
  | unaligned (fo len : Nat)
  /-- the fragment reaches beyond the largest datagram (65535) -/
  | tooBig (fo len : Nat)
  /-- it contradicts what is known about the end: it reaches beyond the announced end, announces a
      different end, or announces an end in front of bytes that were already delivered -/
  | endConflict (known new : Nat)
deriving DecidableEq, Repr

def check (fs : List Frag) (f : Frag) : Option Reject :=
  if f.stop > 65535 then some (.tooBig f.fo f.bytes.length)
  else if f.last = false ∧ f.bytes.length % 8 ≠ 0 then some (.unaligned f.fo f.bytes.length)
  else
    match endOf fs with
    | some e =>
      if e < f.stop ∨ (f.last = true ∧ f.stop ≠ e) then some (.endConflict e f.stop) else none
    | none =>
      if f.last = true ∧ f.stop < extent fs then some (.endConflict (extent fs) f.stop) else none

/-! ### pool of streams -/

/-- live streams: key, time of the last accepted fragment, accepted fragments (newest first) -/
abbrev Pool (κ : Type) := List (κ × Nat × List Frag)

inductive Out where
  | none
  | payload (b : Bytes)
  | rejected (r : Reject)
  | live (n : Nat)
deriving DecidableEq, Repr

section
variable {κ : Type} [DecidableEq κ]

def find (k : κ) : Pool κ → Option (List Frag)
  | [] => none
  | (k', _, fs) :: rest => if k' = k then some fs else find k rest

def remove (k : κ) : Pool κ → Pool κ
  | [] => []
  | (k', v) :: rest => if k' = k then rest else (k', v) :: remove k rest

def put (k : κ) (ts : Nat) (fs : List Frag) : Pool κ → Pool κ
  | [] => [(k, ts, fs)]
  | (k', v) :: rest => if k' = k then (k', ts, fs) :: rest else (k', v) :: put k ts fs rest

/-- delivery of a packet carrying fragmentation information -/
def deliver (p : Pool κ) (k : κ) (ts : Nat) (f : Frag) : Pool κ × Out :=
  if f.last = true ∧ f.fo = 0 then (p, .none)      -- a whole datagram: passes through
  else
    let fs := (find k p).getD []
    match check fs f with
    | some r => (p, .rejected r)
    | none =>
      match emit (f :: fs) with
      | some b => (remove k p, .payload b)
      | none => (put k ts (f :: fs) p, .none)

inductive Op (κ : Type) where
  | frag (k : κ) (ts : Nat) (f : Frag)
  /-- anything that is not a fragment (unfragmented IP, other protocols), or no packet at all -/
  | other
  /-- forget the streams that saw no fragment since `minTs` -/
  | expire (minTs : Nat)

def step (p : Pool κ) : Op κ → Pool κ × Out
  | .frag k ts f => deliver p k ts f
  | .other => (p, .none)
  | .expire minTs =>
    let p' : Pool κ := p.filter (fun e => decide (e.2.1 ≥ minTs))
    (p', .live p'.length)

def run (p : Pool κ) : List (Op κ) → Pool κ × List Out
  | [] => (p, [])
  | op :: rest =>
    let r := step p op
    let rr := run r.1 rest
    (rr.1, r.2 :: rr.2)

end

end EpModel.Spec.Reasm
