import EpModel.Spec.ViewData
/-
  IGMP (RFC 1112 v1, RFC 2236 v2, RFC 3376 / RFC 9776 v3) and the Ethernet/IPv4 form of ARP
  (RFC 826) as DATA.

  IGMP: every message starts with type @0, a type specific byte @1, checksum @2..4.
   * 0x11 Membership Query.  RFC 9776 §7.1 (= RFC 3376 §7.1): the version of a query is decided by
     its length: exactly 8 octets → v1/v2 query (max resp time @1, group @4..8); at least 12 octets →
     v3 query (max resp code @1, group @4..8, Resv|S|QRV @8, QQIC @9, number of sources @10..12, the
     source addresses follow); every other length "MUST be silently ignored".
   * 0x12 v1 report, 0x16 v2 report, 0x17 leave group: 8 octets, group @4..8.
   * 0x22 v3 report: reserved @1, flags @4..6 (RFC 9776; reserved in RFC 3376), number of group
     records @6..8; the group records follow at offset 8.
   * group record (RFC 9776 §4.2.x): record type @0, aux data len @1, number of sources @2..4,
     multicast address @4..8, then sources and auxiliary data.
   * any other type: raw form (type, byte 1, bytes 4..8), 8 octet header.
-/
namespace EpModel.Spec.Igmp
open EpModel EpModel.Spec

/-- which message lengths a format applies to. -/
inductive LenRule | exact (n : Nat) | atLeast (n : Nat)
  deriving DecidableEq, Repr

def LenRule.holds : LenRule → Nat → Bool
  | .exact n, l => l == n
  | .atLeast n, l => n ≤ l

def LenRule.bound : LenRule → Nat
  | .exact n => n
  | .atLeast n => n

structure Entry where
  type : Nat
  rule : LenRule
  kind : String
  hdrLen : Nat
  fields : List (String × Fld)
  deriving Repr

def group : (String × Fld) := ("group", .raw 4 4)

def table : List Entry := [
  { type := 0x11, rule := .exact 8, kind := "MembershipQuery", hdrLen := 8,
    fields := [("max_resp", .u8 1), group] },
  { type := 0x11, rule := .atLeast 12, kind := "MembershipQueryWithSources", hdrLen := 12,
    fields := [("max_resp_code", .u8 1), group, ("raw8", .u8 8), ("flags", .bits 8 16 16),
               ("s", .bit 8 8), ("qrv", .bits 8 1 8), ("qqic", .u8 9), ("nsrc", .u16 10)] },
  { type := 0x12, rule := .atLeast 8, kind := "MembershipReportV1", hdrLen := 8, fields := [group] },
  { type := 0x16, rule := .atLeast 8, kind := "MembershipReportV2", hdrLen := 8, fields := [group] },
  { type := 0x17, rule := .atLeast 8, kind := "LeaveGroup", hdrLen := 8, fields := [group] },
  { type := 0x22, rule := .atLeast 8, kind := "MembershipReportV3", hdrLen := 8,
    fields := [("flags", .raw 4 2), ("nrec", .u16 6)] }
]

/-- outcome for a byte string: too short (with the next length at which some format of that type
    applies), or a view with the header length. -/
inductive Outcome | tooShort (need len : Nat) | ok (v : View) (hdrLen : Nat)
  deriving DecidableEq, Repr

/-- smallest bound among `bs` that is greater than `l` (0 if there is none). -/
def nextBound (bs : List Nat) (l : Nat) : Nat :=
  (bs.filter (fun n => l < n)).foldl (fun acc n => if acc = 0 ∨ n < acc then n else acc) 0

def decode (m : Bytes) : Outcome :=
  if m.length < 8 then .tooShort 8 m.length
  else
    let cands := table.filter fun e => bAt m 0 = e.type
    match cands with
    | [] =>
      .ok { kind := "Unknown", sub := "",
            fields := [("type", .n (bAt m 0)), ("b1", .n (bAt m 1)), ("b47", .b (sub m 4 4))] } 8
    | _ =>
      match cands.find? fun e => e.rule.holds m.length with
      | some e => .ok { kind := e.kind, sub := "", fields := readFields e.fields 0 m } e.hdrLen
      | none => .tooShort (nextBound (cands.map fun e => e.rule.bound) m.length) m.length

/-- group record header: 8 fixed octets. -/
def recordFields : List (String × Fld) :=
  [("type", .u8 0), ("aux", .u8 1), ("nsrc", .u16 2), ("addr", .raw 4 4)]

def decodeRecord (m : Bytes) : Outcome :=
  if m.length < 8 then .tooShort 8 m.length
  else .ok { kind := "GroupRecord", sub := "", fields := readFields recordFields 0 m } 8

end EpModel.Spec.Igmp

/-
  ARP, RFC 826: hrd @0..2, pro @2..4, hln @4, pln @5, op @6..8, then sha (hln bytes), spa (pln bytes),
  tha (hln), tpa (pln).  The Ethernet/IPv4 form is hrd = 1 (Ethernet), pro = 0x0800, hln = 6, pln = 4:
  sha @8..14, spa @14..18, tha @18..24, tpa @24..28.
-/
namespace EpModel.Spec.Arp
open EpModel EpModel.Spec

/-- the four requirements of the Ethernet/IPv4 form: field, required value, name of the mismatch. -/
def requirements : List (Fld × Nat × String) := [
  (.u16 0, 1, "NonMatchingHwType"),
  (.u16 2, 0x0800, "NonMatchingProtocolType"),
  (.u8 4, 6, "NonMatchingHwAddrSize"),
  (.u8 5, 4, "NonMatchingProtoAddrSize")
]

def ethIpv4Fields : List (String × Fld) :=
  [("op", .u16 6), ("smac", .raw 8 6), ("sip", .raw 14 4), ("tmac", .raw 18 6), ("tip", .raw 24 4)]

inductive Outcome
  | tooShort (need len : Nat) (byAddrLengths : Bool)   -- shorter than 8, or than 8 + 2*hln + 2*pln
  | mismatch (name : String) (value : Nat)
  | ok (v : View) (packetLen : Nat)
  deriving DecidableEq, Repr

def numOf : Val → Nat
  | .n v => v
  | _ => 0

def decodeEthIpv4 (m : Bytes) : Outcome :=
  if m.length < 8 then .tooShort 8 m.length false
  else
    let need := 8 + 2 * bAt m 4 + 2 * bAt m 5
    if m.length < need then .tooShort need m.length true
    else
      match requirements.find? fun r => numOf (r.1.read 0 m) ≠ r.2.1 with
      | some r => .mismatch r.2.2 (numOf (r.1.read 0 m))
      | none => .ok { kind := "ArpEthIpv4", sub := "", fields := readFields ethIpv4Fields 0 m } need

end EpModel.Spec.Arp
