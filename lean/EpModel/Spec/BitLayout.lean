import EpModel.Model.Basic
/-
  Reference semantics for C15: header formats as layout tables, written from the format diagrams of
  IEEE 802.1Q (VLAN tag), RFC 791 (IPv4), RFC 8200 (IPv6 header, fragment header), IEEE 802.1AE
  (MACsec SecTAG) and RFC 3376 / RFC 9776 (IGMPv3 query).  A field is (name, byte offset, bit offset
  inside that byte counted from the most significant bit as in the RFC diagrams, width in bits).
  `extract` / `insert` are generic over the table.  Shares no code with `Model.BitFields`.
-/
namespace EpModel.Spec.BitLayout
open EpModel

structure Field where
  name : String
  byteOff : Nat
  bitOff : Nat
  width : Nat
deriving DecidableEq, Repr

/-- number of bytes the field touches. -/
def Field.nBytes (f : Field) : Nat := (f.bitOff + f.width + 7) / 8
/-- number of bits of the touched bytes that lie below (after) the field. -/
def Field.low (f : Field) : Nat := f.nBytes * 8 - f.bitOff - f.width
/-- first bit (counted from the start of the header, most significant bit of byte 0 is bit 0). -/
def Field.firstBit (f : Field) : Nat := f.byteOff * 8 + f.bitOff
/-- one past the last bit. -/
def Field.endBit (f : Field) : Nat := f.firstBit + f.width

/-- big endian value of the `n` bytes starting at `off` (bytes outside the string count as 0). -/
def spanVal (b : Bytes) (off : Nat) : Nat → Nat
  | 0 => 0
  | n + 1 => spanVal b off n * 256 + bAt b (off + n)

/-- the value of field `f` in the byte string `b`. -/
def extract (f : Field) (b : Bytes) : Nat :=
  spanVal b f.byteOff f.nBytes / 2 ^ f.low % 2 ^ f.width

/-- bit `i` of the byte string (bit 0 = most significant bit of byte 0). -/
def bitAt (b : Bytes) (i : Nat) : Nat := bAt b (i / 8) / 2 ^ (7 - i % 8) % 2

/-- `n` big endian bytes of `v`. -/
def encSpan (v : Nat) : Nat → Bytes
  | 0 => []
  | n + 1 => encSpan (v / 256) n ++ [u8 v]

/-- `b` with field `f` replaced by `v` (only the bits of `f` are rewritten). -/
def insert (f : Field) (b : Bytes) (v : Nat) : Bytes :=
  let s := spanVal b f.byteOff f.nBytes
  let s' := s / 2 ^ (f.low + f.width) * 2 ^ (f.low + f.width) + (v % 2 ^ f.width) * 2 ^ f.low
            + s % 2 ^ f.low
  b.take f.byteOff ++ encSpan s' f.nBytes ++ b.drop (f.byteOff + f.nBytes)

/-- the table covers bits `[start, total)` without gap or overlap, in order. -/
def tilesFrom : List Field → Nat → Nat → Bool
  | [], start, total => start == total
  | f :: fs, start, total => f.firstBit == start && f.bitOff < 8 && 0 < f.width && tilesFrom fs f.endBit total

/-- the table tiles a header of `nbytes` bytes exactly. -/
def tiles (fs : List Field) (nbytes : Nat) : Bool := tilesFrom fs 0 (nbytes * 8)

def lookup (fs : List Field) (name : String) : Option Field := fs.find? (fun f => f.name == name)

/-! ### the tables -/

/-- IEEE 802.1Q tag control information + the ether type that follows (`SingleVlanHeader`). -/
def vlan : List Field :=
  [ ⟨"pcp", 0, 0, 3⟩, ⟨"dei", 0, 3, 1⟩, ⟨"vid", 0, 4, 12⟩, ⟨"ether_type", 2, 0, 16⟩ ]

/-- RFC 791 section 3.1, the fixed 20 bytes (DSCP/ECN split of the TOS byte: RFC 2474 / RFC 3168). -/
def ipv4 : List Field :=
  [ ⟨"version", 0, 0, 4⟩, ⟨"ihl", 0, 4, 4⟩, ⟨"dscp", 1, 0, 6⟩, ⟨"ecn", 1, 6, 2⟩,
    ⟨"total_len", 2, 0, 16⟩, ⟨"identification", 4, 0, 16⟩,
    ⟨"reserved", 6, 0, 1⟩, ⟨"df", 6, 1, 1⟩, ⟨"mf", 6, 2, 1⟩, ⟨"frag_off", 6, 3, 13⟩,
    ⟨"ttl", 8, 0, 8⟩, ⟨"protocol", 9, 0, 8⟩, ⟨"checksum", 10, 0, 16⟩,
    ⟨"src", 12, 0, 32⟩, ⟨"dst", 16, 0, 32⟩ ]

/-- RFC 8200 section 3. -/
def ipv6 : List Field :=
  [ ⟨"version", 0, 0, 4⟩, ⟨"traffic_class", 0, 4, 8⟩, ⟨"flow_label", 1, 4, 20⟩,
    ⟨"payload_len", 4, 0, 16⟩, ⟨"next_header", 6, 0, 8⟩, ⟨"hop_limit", 7, 0, 8⟩,
    ⟨"src", 8, 0, 128⟩, ⟨"dst", 24, 0, 128⟩ ]

/-- the same with the traffic class split into DSCP and ECN (RFC 2474 / RFC 3168). -/
def ipv6Ds : List Field :=
  [ ⟨"version", 0, 0, 4⟩, ⟨"dscp", 0, 4, 6⟩, ⟨"ecn", 1, 2, 2⟩, ⟨"flow_label", 1, 4, 20⟩,
    ⟨"payload_len", 4, 0, 16⟩, ⟨"next_header", 6, 0, 8⟩, ⟨"hop_limit", 7, 0, 8⟩,
    ⟨"src", 8, 0, 128⟩, ⟨"dst", 24, 0, 128⟩ ]

/-- the traffic class byte on its own (for `Ipv6Header::set_dscp` / `set_ecn`). -/
def trafficClass : List Field := [ ⟨"dscp", 0, 0, 6⟩, ⟨"ecn", 0, 6, 2⟩ ]

/-- RFC 8200 section 4.5. -/
def ipv6Frag : List Field :=
  [ ⟨"next_header", 0, 0, 8⟩, ⟨"reserved", 1, 0, 8⟩, ⟨"frag_off", 2, 0, 13⟩, ⟨"res", 3, 5, 2⟩,
    ⟨"m", 3, 7, 1⟩, ⟨"identification", 4, 0, 32⟩ ]

/-- IEEE 802.1AE SecTAG behind the MACsec ether type: TCI/AN, SL, PN, optional SCI, and (crate
    convention) the ether type of an unmodified payload.  The arrangement depends on the SC bit and
    on whether E and C are both clear. -/
def macsec (sc unmodified : Bool) : List Field :=
  [ ⟨"v", 0, 0, 1⟩, ⟨"es", 0, 1, 1⟩, ⟨"sc", 0, 2, 1⟩, ⟨"scb", 0, 3, 1⟩, ⟨"e", 0, 4, 1⟩, ⟨"c", 0, 5, 1⟩,
    ⟨"an", 0, 6, 2⟩, ⟨"sl_reserved", 1, 0, 2⟩, ⟨"short_len", 1, 2, 6⟩, ⟨"pn", 2, 0, 32⟩ ]
  ++ (if sc then [⟨"sci", 6, 0, 64⟩] else [])
  ++ (if unmodified then [⟨"ether_type", if sc then 14 else 6, 0, 16⟩] else [])

def macsecLen (sc unmodified : Bool) : Nat :=
  6 + (if sc then 8 else 0) + (if unmodified then 2 else 0)

/-- RFC 3376 section 4.1 (RFC 9776: the four "Resv" bits are called Flags). -/
def igmpQuery : List Field :=
  [ ⟨"type", 0, 0, 8⟩, ⟨"max_resp_code", 1, 0, 8⟩, ⟨"checksum", 2, 0, 16⟩, ⟨"group", 4, 0, 32⟩,
    ⟨"flags", 8, 0, 4⟩, ⟨"s", 8, 4, 1⟩, ⟨"qrv", 8, 5, 3⟩, ⟨"qqic", 9, 0, 8⟩,
    ⟨"num_sources", 10, 0, 16⟩ ]

/-- byte 8 of the query on its own (for the `set_*` methods that work on `raw_byte_8`). -/
def igmpByte8 : List Field := [ ⟨"flags", 0, 0, 4⟩, ⟨"s", 0, 4, 1⟩, ⟨"qrv", 0, 5, 3⟩ ]

def table (header : String) : Option (List Field) :=
  match header with
  | "vlan" => some vlan
  | "ipv4" => some ipv4
  | "ipv6" => some ipv6
  | "ipv6ds" => some ipv6Ds
  | "tc" => some trafficClass
  | "frag" => some ipv6Frag
  | "macsec00" => some (macsec false false)
  | "macsec01" => some (macsec false true)
  | "macsec10" => some (macsec true false)
  | "macsec11" => some (macsec true true)
  | "igmp" => some igmpQuery
  | "igmp8" => some igmpByte8
  | _ => none

/-- every table tiles its header: no bit without a field, no bit in two fields. -/
theorem tables_tile :
    tiles vlan 4 = true ∧ tiles ipv4 20 = true ∧ tiles ipv6 40 = true ∧ tiles ipv6Ds 40 = true ∧
    tiles trafficClass 1 = true ∧ tiles ipv6Frag 8 = true ∧
    (∀ sc un, tiles (macsec sc un) (macsecLen sc un) = true) ∧
    tiles igmpQuery 12 = true ∧ tiles igmpByte8 1 = true := by decide

end EpModel.Spec.BitLayout
