import EpModel.Model.Basic
/-
  RFC 1071 Internet checksum, written from the RFC: the data is a sequence of big endian 16 bit
  words (an odd last byte is padded with a zero byte on the right), the words are added with
  one's complement (end-around carry) addition, and the checksum is the complement of that sum.
-/
namespace EpModel.Spec
open EpModel

/-- one's complement addition of two 16 bit values (end-around carry). -/
def ocAdd (a b : Nat) : Nat :=
  let t := a + b
  if t < 65536 then t else t - 65535

/-- one's complement sum of the big endian 16 bit words of the data. -/
def ocSum : Bytes → Nat
  | [] => 0
  | [a] => a.toNat * 256
  | a :: b :: rest => ocAdd (a.toNat * 256 + b.toNat) (ocSum rest)

/-- the Internet checksum of `b` (as a number 0..65535, transmitted big endian). -/
def checksum (b : Bytes) : Nat := 65535 - ocSum b

/-- plain (unbounded) sum of the big endian 16 bit words. -/
def beWords : Bytes → Nat
  | [] => 0
  | [a] => a.toNat * 256
  | a :: b :: rest => (a.toNat * 256 + b.toNat) + beWords rest

/-- representative in `0..65535` of a sum under end-around-carry folding: 0 only for 0. -/
def fold16 (x : Nat) : Nat := if x = 0 then 0 else (x - 1) % 65535 + 1

end EpModel.Spec
