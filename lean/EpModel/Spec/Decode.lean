import EpModel.Model.Dec.Types
/-
  Reference semantics of whole-packet decoding, written from the wire formats (RFC 791, 8200,
  4302, 768, 9293, 792, 4443, 826, IEEE 802.1Q / 802.1AE, LINKTYPE_LINUX_SLL) and the crate's
  documented conventions (at most three link extensions; MACsec short length counts the ether
  type; zero IPv6 payload length / UDP length = up to the end of the enclosing data; fragments
  stop the walk).

  One generic walk: a *tag* says what the next bytes are claimed to be, a *context* says where
  they start, where the data available to them ends and which length field put the end there.
  Each step decodes one header according to its format, records the layer, and yields the next
  tag.  The walk shares only the result types with the model (so that both can be rendered and
  compared); no decoding code is shared.

  `lax = true` gives the documented lax behaviour: a length field that promises more than is
  present (or less than its own header) does not fault, the data up to the end of the slice is
  handed out and marked incomplete where more was promised; the first fault ends the walk and is
  recorded as stop fault, the layers in front of it are kept.
-/
namespace EpModel.Spec
open EpModel EpModel.Dec

inductive FaultClass
  | cutShort          -- a header needs more bytes than are available
  | claimsMore        -- a length field promises more bytes than are available
  | claimsLess        -- a length field is smaller than the header that contains it
  | tooLong           -- more bytes than the format admits (ICMPv4 timestamp: exactly 20)
  | content           -- a documented content rule is violated
deriving DecidableEq, Repr, Inhabited

/-- which protocol unit faulted (coarser than the crate's `Layer`) -/
inductive Unit_
  | eth | sll | vlan | macsecHeader | macsecPacket | ipAny | ipv4Header | ipv4Packet | ipv6Header
  | ipv6Packet | auth | hopByHop | destOpts | route | fragHeader | arp | udpHeader | udpPayload
  | tcp | icmp4 | icmp6
deriving DecidableEq, Repr, Inhabited

structure Fault where
  cls : FaultClass
  unit : Unit_
  off : Nat            -- absolute offset of the faulting unit
  avail : Nat          -- bytes really available to it
  need : Nat           -- bytes it really needs (cutShort/claimsMore/claimsLess) or admits (tooLong)
  lim : LenSource      -- what put the end of the available data where it is
  value : Nat          -- content: the offending value present in the bytes
deriving DecidableEq, Repr, Inhabited

inductive Tag
  | eth | sll
  | ether (et : Nat)
  | ipAny | ipv4 | ipv6
  | tp (num : Nat)
  | done
deriving DecidableEq, Repr, Inhabited

structure Ctx where
  off : Nat            -- where the next unit starts
  stop : Nat           -- end (absolute) of the data available to it
  lim : LenSource      -- the length field (or the slice) that put `stop` there
  nExt : Nat           -- link extensions so far
deriving Repr, Inhabited

def Ctx.avail (c : Ctx) : Nat := c.stop - c.off

def mkFault (c : Ctx) (cls : FaultClass) (u : Unit_) (need : Nat) (value : Nat := 0) : Fault :=
  { cls := cls, unit := u, off := c.off, avail := c.avail, need := need, lim := c.lim, value := value }

/-! ### formats -/

def isVlanType (et : Nat) : Bool := et = 0x8100 ∨ et = 0x88a8 ∨ et = 0x9100

/-- Linux "non standard ether types" (if_ether.h, values below 0x600 that are no ether types) -/
def sllNonStandard (v : Nat) : Bool :=
  v ∈ [1, 2, 3, 4, 5, 6, 7, 8, 9, 0x0c, 0x0d, 0x0e, 0x10, 0x11, 0x15, 0x16, 0x17, 0x18, 0x19, 0x1a,
    0x1b, 0x1c, 0xf5, 0xf6, 0xf7, 0xf8, 0xf9, 0xfa]

/-- ARPHRD values whose SLL protocol field the crate interprets -/
def sllSupportedHw (hw : Nat) : Bool := hw ∈ [1, 770, 778, 803, 824]

/-- length of an 802.1AE SecTAG: 6 octets, + 8 with an SCI, + 2 for the ether type of an
    unmodified frame (which the crate counts as part of the header) -/
def secTagLen (sc unmod : Bool) : Nat := 6 + (if sc then 8 else 0) + (if unmod then 2 else 0)

/-- outcome of one step: the packet with everything decoded so far (also in front of a fault),
    the next tag and context, and the fault if this unit is faulty -/
structure StepR where
  p : Packet
  next : Tag
  c : Ctx
  fault : Option Fault
deriving Repr, Inhabited

/-- IPv4 fragmentation: more-fragments flag or a non-zero fragment offset (RFC 791) -/
def v4Fragmented (g : Mem) (o : Nat) : Bool :=
  let w := g16 g (o + 6)
  (w / 8192) % 2 = 1 ∨ w % 8192 ≠ 0

/-- IPv6 fragment header (RFC 8200 4.5): offset in the upper 13 bits, M flag in bit 0 -/
def v6Fragmented (g : Mem) (o : Nat) : Bool :=
  let w := g16 g (o + 2)
  w % 2 = 1 ∨ w / 8 ≠ 0

/-- result of walking an IPv6 extension chain inside `[o, stop)` -/
structure Chain where
  next : Nat
  frag : Bool
  off : Nat
deriving Repr, Inhabited

/-- The IPv6 extension headers the crate decodes: hop-by-hop (only directly behind the IPv6 header),
    destination options, routing, fragment, authentication.  `first`: at the start of the chain. -/
def chain (g : Mem) (lim : LenSource) (first : Bool) (nh : Nat) (frag : Bool) (o stop : Nat) :
    Chain × Option Fault :=
  let c : Ctx := { off := o, stop := stop, lim := lim, nExt := 0 }
  let here : Chain := { next := nh, frag := frag, off := o }
  let generic (u : Unit_) : Chain × Option Fault :=
    -- RFC 8200 4.x: Hdr Ext Len in 8-octet units, not including the first 8 octets
    if h : stop - o < 8 then (here, some (mkFault c .cutShort u 8))
    else
      let len := (g (o + 1) + 1) * 8
      if h' : stop - o < len then (here, some (mkFault c .cutShort u len))
      else chain g lim false (g o) frag (o + len) stop
  if nh = 0 then
    if first then generic .hopByHop else (here, some (mkFault c .content .hopByHop 0 0))
  else if nh = 60 then generic .destOpts
  else if nh = 43 then generic .route
  else if nh = 44 then
    if h : stop - o < 8 then (here, some (mkFault c .cutShort .fragHeader 8))
    else chain g lim false (g o) (frag || v6Fragmented g o) (o + 8) stop
  else if nh = 51 then
    -- RFC 4302: payload len in 32 bit words minus 2; 0 is not a valid value
    if h : stop - o < 12 then (here, some (mkFault c .cutShort .auth 12))
    else if g (o + 1) = 0 then (here, some (mkFault c .content .auth 0 0))
    else
      let len := (g (o + 1) + 2) * 4
      if h' : stop - o < len then (here, some (mkFault c .cutShort .auth len))
      else chain g lim false (g o) frag (o + len) stop
  else (here, none)
termination_by stop - o
decreasing_by all_goals omega

def setLink (p : Packet) (x : LinkR) : Packet := { p with link := some x }
def addExt (p : Packet) (x : ExtR) : Packet := { p with exts := p.exts ++ [x] }
def setNet (p : Packet) (x : NetR) : Packet := { p with net := some x }
def setTp (p : Packet) (x : TpR) : Packet := { p with tp := some x }

/-- the payload rule of a unit with a length field: `total` = what the field prescribes for the
    whole unit, `hl` = the unit's own header. strict: faults; lax: falls back to the end of the data.
    Returns (end of the unit's data, limiter, incomplete). -/
def bound (lax : Bool) (c : Ctx) (u : Unit_) (field : LenSource) (hl total : Nat) :
    Except Fault (Nat × LenSource × Bool) :=
  if total < hl then
    if lax then .ok (c.stop, .slice, false)
    else .error { cls := .claimsLess, unit := u, off := c.off, avail := total, need := hl,
                  lim := field, value := 0 }
  else if c.avail < total then
    if lax then .ok (c.stop, .slice, true) else .error (mkFault c .claimsMore u total)
  else .ok (c.off + total, field, false)

/-- the limiter that applies behind a unit: a unit that runs up to the end of its enclosing data
    inherits the enclosing limiter -/
def inherit (outer inner : LenSource) : LenSource := if inner = .slice then outer else inner

/-- one step of the walk -/
def step (lax : Bool) (g : Mem) (p : Packet) (t : Tag) (c : Ctx) : StepR :=
  let o := c.off
  let good (p' : Packet) (t' : Tag) (c' : Ctx) : StepR := { p := p', next := t', c := c', fault := none }
  let bad (f : Fault) : StepR := { p := p, next := .done, c := c, fault := some f }
  match t with
  | .done => good p .done c
  | .eth =>
    -- Ethernet II: destination, source, ether type
    if c.avail < 14 then bad (mkFault c .cutShort .eth 14)
    else good (setLink p (.eth2 ⟨o, c.avail⟩)) (.ether (g16 g (o + 12))) { c with off := o + 14 }
  | .sll =>
    -- LINKTYPE_LINUX_SLL: packet type, ARPHRD type, address length, address (8), protocol
    if c.avail < 16 then bad (mkFault c .cutShort .sll 16)
    else if g16 g o > 7 then bad (mkFault c .content .sll 0 (g16 g o))
    else if ¬ sllSupportedHw (g16 g (o + 2)) then bad (mkFault c .content .sll 0 (g16 g (o + 2)))
    else
      let proto := g16 g (o + 14)
      let next : Tag := if g16 g (o + 2) = 1 ∧ ¬ sllNonStandard proto then .ether proto else .done
      good (setLink p (.sll ⟨o, c.avail⟩)) next { c with off := o + 16 }
  | .ether et =>
    if isVlanType et then
      -- 802.1Q tag: PCP/DEI/VID, ether type
      if c.nExt = 3 then good p .done c
      else if c.avail < 4 then bad (mkFault c .cutShort .vlan 4)
      else
        good (addExt p (.vlan ⟨o, c.avail⟩)) (.ether (g16 g (o + 2)))
          { c with off := o + 4, nExt := c.nExt + 1 }
    else if et = 0x88e5 then
      -- 802.1AE SecTAG: TCI/AN, SL, PN, optional SCI; an unmodified frame carries the ether type
      if c.nExt = 3 then good p .done c
      else if c.avail < 6 then bad (mkFault c .cutShort .macsecHeader 6)
      else
        let tci := g o
        let sc := (tci / 32) % 2 = 1
        let unmod := (tci / 8) % 2 = 0 ∧ (tci / 4) % 2 = 0
        let sl := g (o + 1) % 64
        if tci / 128 = 1 then bad (mkFault c .content .macsecHeader 0 1)
        else if unmod ∧ sl = 1 then bad (mkFault c .content .macsecHeader 0 1)
        else
          let hl := secTagLen sc unmod
          if c.avail < hl then bad (mkFault c .cutShort .macsecHeader hl)
          else
            -- short length: number of octets behind the SecTAG (incl. the ether type), 0 = 48 or more
            let plen := if unmod then sl - 2 else sl
            let r : Except Fault (Nat × LenSource × Bool) :=
              if sl = 0 then .ok (c.stop, .slice, false)
              else if c.avail < hl + plen then
                if lax then .ok (c.stop, .slice, true)
                else .error (mkFault c .claimsMore .macsecPacket (hl + plen))
              else .ok (o + hl + plen, .macsecShortLength, false)
            match r with
            | .error f => bad f
            | .ok (stop', lim', inc) =>
              let p' := addExt p (.macsec ⟨o, hl⟩ ⟨o + hl, stop' - (o + hl)⟩ lim' inc)
              let c' : Ctx :=
                { off := o + hl, stop := stop', lim := inherit c.lim lim', nExt := c.nExt + 1 }
              if unmod then good p' (.ether (g16 g (o + hl - 2))) c' else good p' .done c'
    else if et = 0x0806 then
      -- RFC 826: hardware/protocol type, address lengths, operation, four addresses
      if c.avail < 8 then bad (mkFault c .cutShort .arp 8)
      else
        let total := 8 + 2 * g (o + 4) + 2 * g (o + 5)
        if c.avail < total then bad (mkFault c .cutShort .arp total)
        else good (setNet p (.arp ⟨o, total⟩)) .done { c with off := o + total }
    else if et = 0x0800 then good p (if lax then .ipAny else .ipv4) c
    else if et = 0x86dd then good p (if lax then .ipAny else .ipv6) c
    else good p .done c
  | .ipAny =>
    if c.avail < 1 then bad (mkFault c .cutShort .ipAny 1)
    else if g o / 16 = 4 then good p .ipv4 c
    else if g o / 16 = 6 then good p .ipv6 c
    else bad (mkFault c .content .ipAny 0 (g o / 16))
  | .ipv4 =>
    -- RFC 791
    if c.avail < 20 then bad (mkFault c .cutShort .ipv4Header 20)
    else if g o / 16 ≠ 4 then bad (mkFault c .content .ipv4Header 0 (g o / 16))
    else if g o % 16 < 5 then bad (mkFault c .content .ipv4Header 0 (g o % 16))
    else
      let hl := (g o % 16) * 4
      if c.avail < hl then bad (mkFault c .cutShort .ipv4Header hl)
      else
        match bound lax c .ipv4Packet .ipv4HeaderTotalLen hl (g16 g (o + 2)) with
        | .error f => bad f
        | .ok (stop', lim', inc) =>
          let frag := v4Fragmented g o
          let c' : Ctx := { off := o + hl, stop := stop', lim := inherit c.lim lim', nExt := c.nExt }
          let layer (auth : Option Win) (num po : Nat) : Packet :=
            setNet p (.ip
              { v4 := true, hdr := ⟨o, hl⟩, auth := auth, exts := ⟨o, 0⟩, first := none,
                slots := ExtSlots.none,
                pl := { num := num, frag := frag, src := lim', w := ⟨po, stop' - po⟩, inc := inc } })
          let authFault (f : Fault) : StepR :=
            { p := layer none 51 c'.off, next := .done, c := c', fault := some f }
          if g (o + 9) = 51 then
            -- RFC 4302 authentication header: payload len in 32 bit words minus 2, never 0
            if c'.avail < 12 then authFault (mkFault c' .cutShort .auth 12)
            else if g (c'.off + 1) = 0 then authFault (mkFault c' .content .auth 0 0)
            else
              let al := (g (c'.off + 1) + 2) * 4
              if c'.avail < al then authFault (mkFault c' .cutShort .auth al)
              else
                good (layer (some ⟨c'.off, al⟩) (g c'.off) (c'.off + al))
                  (if frag then .done else .tp (g c'.off)) { c' with off := c'.off + al }
          else good (layer none (g (o + 9)) c'.off) (if frag then .done else .tp (g (o + 9))) c'
  | .ipv6 =>
    -- RFC 8200
    if c.avail < 40 then bad (mkFault c .cutShort .ipv6Header 40)
    else if g o / 16 ≠ 6 then bad (mkFault c .content .ipv6Header 0 (g o / 16))
    else
      let plen := g16 g (o + 4)
      let r : Except Fault (Nat × LenSource × Bool) :=
        -- a zero payload length means: up to the end of the enclosing data (documented convention)
        if plen = 0 ∧ c.avail > 40 then .ok (c.stop, .slice, false)
        else bound lax c .ipv6Packet .ipv6HeaderPayloadLen 40 (40 + plen)
      match r with
      | .error f => bad f
      | .ok (stop', lim', inc) =>
        let lim'' := inherit c.lim lim'
        let (ch, f) := chain g lim'' true (g (o + 6)) false (o + 40) stop'
        let p' : Packet :=
          setNet p (.ip
            { v4 := false, hdr := ⟨o, 40⟩, auth := none, exts := ⟨o + 40, ch.off - (o + 40)⟩,
              first := if ch.off = o + 40 then none else some (g (o + 6)), slots := ExtSlots.none,
              pl := { num := ch.next, frag := ch.frag, src := lim', w := ⟨ch.off, stop' - ch.off⟩,
                      inc := inc } })
        let c' : Ctx := { off := ch.off, stop := stop', lim := lim'', nExt := c.nExt }
        match f with
        | some f => { p := p', next := .done, c := c', fault := some f }
        | none => good p' (if ch.frag then .done else .tp ch.next) c'
  | .tp num =>
    if num = 17 then
      -- RFC 768: length covers header and data; 0 = up to the end of the enclosing data
      if c.avail < 8 then bad (mkFault c .cutShort .udpHeader 8)
      else
        let len := g16 g (o + 4)
        if len = 0 then good (setTp p (.udp ⟨o, c.avail⟩)) .done c
        else if c.avail < len then
          if lax then good (setTp p (.udp ⟨o, c.avail⟩)) .done c
          else bad (mkFault c .claimsMore .udpPayload len)
        else if len < 8 then
          if lax then good (setTp p (.udp ⟨o, c.avail⟩)) .done c
          else bad { cls := .claimsLess, unit := .udpHeader, off := o, avail := len, need := 8,
                     lim := .udpHeaderLen, value := 0 }
        else good (setTp p (.udp ⟨o, len⟩)) .done c
    else if num = 6 then
      -- RFC 9293: data offset in 32 bit words, at least 5
      if c.avail < 20 then bad (mkFault c .cutShort .tcp 20)
      else if g (o + 12) / 16 < 5 then bad (mkFault c .content .tcp 0 (g (o + 12) / 16))
      else if c.avail < (g (o + 12) / 16) * 4 then bad (mkFault c .cutShort .tcp ((g (o + 12) / 16) * 4))
      else good (setTp p (.tcp ⟨o, c.avail⟩ ((g (o + 12) / 16) * 4))) .done c
    else if num = 1 then
      -- RFC 792: 8 byte header; timestamp / timestamp reply messages are exactly 20 bytes
      if c.avail < 8 then bad (mkFault c .cutShort .icmp4 8)
      else if (g o = 13 ∨ g o = 14) ∧ g (o + 1) = 0 ∧ c.avail ≠ 20 then
        bad (mkFault c (if c.avail < 20 then .cutShort else .tooLong) .icmp4 20)
      else good (setTp p (.icmp4 ⟨o, c.avail⟩)) .done c
    else if num = 58 then
      -- RFC 4443: 8 byte header
      if c.avail < 8 then bad (mkFault c .cutShort .icmp6 8)
      else if c.avail > 4294967295 then bad (mkFault c .tooLong .icmp6 4294967295)
      else good (setTp p (.icmp6 ⟨o, c.avail⟩)) .done c
    else good p .done c

/-- the walk: at most 3 link extensions + 8 other steps in front of the transport layer are
    possible, so a small structural counter suffices (`done` is absorbing). -/
def walkN (lax : Bool) (g : Mem) : Nat → Packet → Tag → Ctx → Packet × Option Fault
  | 0, p, t, c =>
    -- never reached with `maxSteps` (theorem `walk_never_out_of_steps`); made visible, not silent
    if t = .done then (p, none) else (p, some (mkFault c .content .eth 0 999999))
  | k + 1, p, t, c =>
    if t = .done then (p, none)
    else
      let r := step lax g p t c
      match r.fault with
      | some f => (r.p, some f)
      | none => walkN lax g k r.p r.next r.c

inductive Start
  | eth | sll | etherType (et : Nat) | ip
deriving DecidableEq, Repr, Inhabited

def startTag (lax : Bool) : Start → Tag
  | .eth => .eth
  | .sll => .sll
  | .etherType et => .ether et
  | .ip => if lax then .ipAny else .ipAny

def startPacket (n : Nat) : Start → Packet
  | .etherType et => setLink Packet.empty (.etherPayload et ⟨0, n⟩)
  | _ => Packet.empty

/-- number of steps that can happen: start header, 3 link extensions, the stop at a fourth one,
    ether type dispatch, IP dispatch, IP, transport, done. -/
def maxSteps : Nat := 12

/-- a strict decoder rejects at the first fault -/
def verdict : Packet × Option Fault → Except Fault Packet
  | (p, none) => .ok p
  | (_, some f) => .error f

/-- strict decoding: the layers, or the first fault -/
def decode (st : Start) (g : Mem) (n : Nat) : Except Fault Packet :=
  verdict (walkN false g maxSteps (startPacket n st) (startTag false st)
      { off := 0, stop := n, lim := .slice, nExt := 0 })

/-- lax decoding: every layer in front of the first fault, and the fault -/
def decodeLax (st : Start) (g : Mem) (n : Nat) : Packet × Option Fault :=
  walkN true g maxSteps (startPacket n st) (startTag true st)
    { off := 0, stop := n, lim := .slice, nExt := 0 }

end EpModel.Spec
