import EpModel.Spec.ViewData
/-
  ICMPv4 and ICMPv6 message formats as DATA, written from the RFCs.

  ICMPv4:  RFC 792 (types 0, 3, 5, 8, 11, 12, 13, 14; codes 0–5 of type 3), RFC 1122 §3.2.2.1
           (codes 6–12 of type 3, code 1 of type 12 from RFC 1108, code 2 bad length), RFC 1812 §5.2.7.1
           (codes 13–15 of type 3), RFC 1191 §4 (next-hop MTU in the low 16 bits of the unused word
           of type 3 code 4).
  ICMPv6:  RFC 4443 (types 1–4, 128, 129, codes), RFC 7112 / 8754 / 8883 (parameter problem codes
           3 / 4 / 5–10), RFC 4861 §4.1–4.5 (types 133–137, code 0).

  An entry assigns a typed view to one (type, code) pair.  Every pair without an entry — unassigned
  types, unassigned codes of assigned types, and assigned types for which no typed view exists
  (e.g. ICMPv4 4, 9, 10, 15–18, ICMPv6 130–132) — is viewed in the raw form
  `Unknown(type, code, bytes 5–8)`.

  Common header (RFC 792 / RFC 4443 §2.1): type @0, code @1, checksum @2..4, 4 message-specific
  bytes @4..8; the message body follows at offset 8, except where `exactLen` fixes the whole message
  size (ICMPv4 timestamp messages consist of the 20 byte header only).
-/
namespace EpModel.Spec.Icmp
open EpModel EpModel.Spec

structure Entry where
  type : Nat
  code : Nat
  kind : String
  sub : String
  fields : List (String × Fld)
  /-- `some n`: the message is exactly `n` bytes long and all of it is header. -/
  exactLen : Option Nat := none
  deriving Repr

def echo : List (String × Fld) := [("id", .u16 4), ("seq", .u16 6)]
def tstamp : List (String × Fld) :=
  [("id", .u16 4), ("seq", .u16 6), ("orig", .u32 8), ("recv", .u32 12), ("xmit", .u32 16)]

def icmp4Table : List Entry := [
  { type := 0, code := 0, kind := "EchoReply", sub := "", fields := echo },
  { type := 3, code := 0, kind := "DestinationUnreachable", sub := "Network", fields := [] },
  { type := 3, code := 1, kind := "DestinationUnreachable", sub := "Host", fields := [] },
  { type := 3, code := 2, kind := "DestinationUnreachable", sub := "Protocol", fields := [] },
  { type := 3, code := 3, kind := "DestinationUnreachable", sub := "Port", fields := [] },
  { type := 3, code := 4, kind := "DestinationUnreachable", sub := "FragmentationNeeded",
    fields := [("mtu", .u16 6)] },
  { type := 3, code := 5, kind := "DestinationUnreachable", sub := "SourceRouteFailed", fields := [] },
  { type := 3, code := 6, kind := "DestinationUnreachable", sub := "NetworkUnknown", fields := [] },
  { type := 3, code := 7, kind := "DestinationUnreachable", sub := "HostUnknown", fields := [] },
  { type := 3, code := 8, kind := "DestinationUnreachable", sub := "Isolated", fields := [] },
  { type := 3, code := 9, kind := "DestinationUnreachable", sub := "NetworkProhibited", fields := [] },
  { type := 3, code := 10, kind := "DestinationUnreachable", sub := "HostProhibited", fields := [] },
  { type := 3, code := 11, kind := "DestinationUnreachable", sub := "TosNetwork", fields := [] },
  { type := 3, code := 12, kind := "DestinationUnreachable", sub := "TosHost", fields := [] },
  { type := 3, code := 13, kind := "DestinationUnreachable", sub := "FilterProhibited", fields := [] },
  { type := 3, code := 14, kind := "DestinationUnreachable", sub := "HostPrecedenceViolation",
    fields := [] },
  { type := 3, code := 15, kind := "DestinationUnreachable", sub := "PrecedenceCutoff", fields := [] },
  { type := 5, code := 0, kind := "Redirect", sub := "RedirectForNetwork", fields := [("gw", .raw 4 4)] },
  { type := 5, code := 1, kind := "Redirect", sub := "RedirectForHost", fields := [("gw", .raw 4 4)] },
  { type := 5, code := 2, kind := "Redirect", sub := "RedirectForTypeOfServiceAndNetwork",
    fields := [("gw", .raw 4 4)] },
  { type := 5, code := 3, kind := "Redirect", sub := "RedirectForTypeOfServiceAndHost",
    fields := [("gw", .raw 4 4)] },
  { type := 8, code := 0, kind := "EchoRequest", sub := "", fields := echo },
  { type := 11, code := 0, kind := "TimeExceeded", sub := "TtlExceededInTransit", fields := [] },
  { type := 11, code := 1, kind := "TimeExceeded", sub := "FragmentReassemblyTimeExceeded",
    fields := [] },
  { type := 12, code := 0, kind := "ParameterProblem", sub := "PointerIndicatesError",
    fields := [("ptr", .u8 4)] },
  { type := 12, code := 1, kind := "ParameterProblem", sub := "MissingRequiredOption", fields := [] },
  { type := 12, code := 2, kind := "ParameterProblem", sub := "BadLength", fields := [] },
  { type := 13, code := 0, kind := "TimestampRequest", sub := "", fields := tstamp, exactLen := some 20 },
  { type := 14, code := 0, kind := "TimestampReply", sub := "", fields := tstamp, exactLen := some 20 }
]

def ptr32 : List (String × Fld) := [("ptr", .u32 4)]

def icmp6Table : List Entry := [
  { type := 1, code := 0, kind := "DestinationUnreachable", sub := "NoRoute", fields := [] },
  { type := 1, code := 1, kind := "DestinationUnreachable", sub := "Prohibited", fields := [] },
  { type := 1, code := 2, kind := "DestinationUnreachable", sub := "BeyondScope", fields := [] },
  { type := 1, code := 3, kind := "DestinationUnreachable", sub := "Address", fields := [] },
  { type := 1, code := 4, kind := "DestinationUnreachable", sub := "Port", fields := [] },
  { type := 1, code := 5, kind := "DestinationUnreachable", sub := "SourceAddressFailedPolicy",
    fields := [] },
  { type := 1, code := 6, kind := "DestinationUnreachable", sub := "RejectRoute", fields := [] },
  { type := 2, code := 0, kind := "PacketTooBig", sub := "", fields := [("mtu", .u32 4)] },
  { type := 3, code := 0, kind := "TimeExceeded", sub := "HopLimitExceeded", fields := [] },
  { type := 3, code := 1, kind := "TimeExceeded", sub := "FragmentReassemblyTimeExceeded", fields := [] },
  { type := 4, code := 0, kind := "ParameterProblem", sub := "ErroneousHeaderField", fields := ptr32 },
  { type := 4, code := 1, kind := "ParameterProblem", sub := "UnrecognizedNextHeader", fields := ptr32 },
  { type := 4, code := 2, kind := "ParameterProblem", sub := "UnrecognizedIpv6Option", fields := ptr32 },
  { type := 4, code := 3, kind := "ParameterProblem", sub := "Ipv6FirstFragmentIncompleteHeaderChain",
    fields := ptr32 },
  { type := 4, code := 4, kind := "ParameterProblem", sub := "SrUpperLayerHeaderError", fields := ptr32 },
  { type := 4, code := 5, kind := "ParameterProblem", sub := "UnrecognizedNextHeaderByIntermediateNode",
    fields := ptr32 },
  { type := 4, code := 6, kind := "ParameterProblem", sub := "ExtensionHeaderTooBig", fields := ptr32 },
  { type := 4, code := 7, kind := "ParameterProblem", sub := "ExtensionHeaderChainTooLong",
    fields := ptr32 },
  { type := 4, code := 8, kind := "ParameterProblem", sub := "TooManyExtensionHeaders", fields := ptr32 },
  { type := 4, code := 9, kind := "ParameterProblem", sub := "TooManyOptionsInExtensionHeader",
    fields := ptr32 },
  { type := 4, code := 10, kind := "ParameterProblem", sub := "OptionTooBig", fields := ptr32 },
  { type := 128, code := 0, kind := "EchoRequest", sub := "", fields := echo },
  { type := 129, code := 0, kind := "EchoReply", sub := "", fields := echo },
  { type := 133, code := 0, kind := "RouterSolicitation", sub := "", fields := [] },
  { type := 134, code := 0, kind := "RouterAdvertisement", sub := "",
    fields := [("hop", .u8 4), ("m", .bit 5 128), ("o", .bit 5 64), ("life", .u16 6)] },
  { type := 135, code := 0, kind := "NeighborSolicitation", sub := "", fields := [] },
  { type := 136, code := 0, kind := "NeighborAdvertisement", sub := "",
    fields := [("r", .bit 4 128), ("s", .bit 4 64), ("o", .bit 4 32)] },
  { type := 137, code := 0, kind := "Redirect", sub := "", fields := [] }
]

/-- the entry of a (type, code) pair, if the pair has a typed view. -/
def lookup (tbl : List Entry) (t c : Nat) : Option Entry :=
  tbl.find? fun e => t = e.type ∧ c = e.code

/-- the view a table prescribes for a message (of at least 8 bytes). -/
def view (tbl : List Entry) (m : Bytes) : View :=
  match lookup tbl (bAt m 0) (bAt m 1) with
  | some e => { kind := e.kind, sub := e.sub, fields := readFields e.fields 0 m }
  | none =>
    { kind := "Unknown", sub := "",
      fields := [("type", .n (bAt m 0)), ("code", .n (bAt m 1)), ("b58", .b (sub m 4 4))] }

/-- the exact message size prescribed for a (type, code) pair, if any. -/
def exactOf (tbl : List Entry) (t c : Nat) : Option Nat := (lookup tbl t c).bind (·.exactLen)

/-- header length: 8, or the whole fixed size for fixed-size messages. -/
def headerLen (tbl : List Entry) (m : Bytes) : Nat := (exactOf tbl (bAt m 0) (bAt m 1)).getD 8

/-- why a byte string is not a message of the table's protocol. -/
inductive Reject | tooShort (need len : Nat) | notExact (need len : Nat) | tooLong (max len : Nat)
  deriving DecidableEq, Repr

/-- a byte string is a message iff it has the 8 common bytes, respects the exact size of a
    fixed-size message, and (ICMPv6: RFC 8200 §8.1 upper-layer packet length is a 32 bit field)
    does not exceed `maxLen`. -/
def check (tbl : List Entry) (maxLen : Option Nat) (m : Bytes) : Option Reject :=
  if m.length < 8 then some (.tooShort 8 m.length)
  else
    match maxLen.filter (fun mx => mx < m.length) with
    | some mx => some (.tooLong mx m.length)
    | none =>
      match exactOf tbl (bAt m 0) (bAt m 1) with
      | some n => if m.length ≠ n then some (.notExact n m.length) else none
      | none => none

/-- the two numbers every reject carries: the length that was needed and the length found. -/
def Reject.needLen : Reject → Nat × Nat
  | .tooShort n l => (n, l)
  | .notExact n l => (n, l)
  | .tooLong n l => (n, l)

def icmp6MaxLen : Nat := 2 ^ 32 - 1

end EpModel.Spec.Icmp
