import EpModel.Spec.ViewData
/-
  Neighbor Discovery (RFC 4861) as DATA: message fixed parts (§4.1–4.5) and the option TLV rule
  (§4.6): every option is `Type (1 byte), Length (1 byte, in units of 8 octets, 0 is invalid),
  value`, so an option occupies `8 * Length` bytes; options follow each other without padding.
  Per-type sizes: Prefix Information (3) has Length 4, MTU (5) has Length 1, the link-layer address
  options (1, 2) and Redirected Header (4) are variable, unknown types are skipped by their length.
-/
namespace EpModel.Spec.Ndp
open EpModel EpModel.Spec

/-! ### message fixed parts (offsets from the start of the ICMPv6 message) -/

structure Msg where
  type : Nat            -- ICMPv6 type, code is always 0 (RFC 4861: "Code 0")
  kind : String
  /-- size of the fixed part of the whole message (8 byte ICMPv6 header included); the options
      start here. -/
  fixedLen : Nat
  /-- fields of the fixed part behind the ICMPv6 header. -/
  fields : List (String × Fld)
  deriving Repr

def msgTable : List Msg := [
  { type := 133, kind := "RouterSolicitation", fixedLen := 8, fields := [] },
  { type := 134, kind := "RouterAdvertisement", fixedLen := 16,
    fields := [("reachable", .u32 8), ("retrans", .u32 12)] },
  { type := 135, kind := "NeighborSolicitation", fixedLen := 24, fields := [("target", .raw 8 16)] },
  { type := 136, kind := "NeighborAdvertisement", fixedLen := 24, fields := [("target", .raw 8 16)] },
  { type := 137, kind := "Redirect", fixedLen := 40,
    fields := [("target", .raw 8 16), ("dest", .raw 24 16)] }
]

def lookupMsg (t c : Nat) : Option Msg := msgTable.find? fun m => t = m.type ∧ c = 0

/-- result of splitting an NDP message (`m` = whole ICMPv6 message, at least 8 bytes):
    too short for the fixed part, or fields + option area window. -/
inductive Split | tooShort (need len : Nat) | ok (v : View) (optOff optLen : Nat)
  deriving DecidableEq, Repr

def split (e : Msg) (m : Bytes) : Split :=
  if m.length < e.fixedLen then .tooShort e.fixedLen m.length
  else .ok { kind := e.kind, sub := "", fields := readFields e.fields 0 m } e.fixedLen
         (m.length - e.fixedLen)

/-! ### options -/

structure OptFmt where
  type : Nat
  kind : String
  /-- `some n`: the Length field must be `n`. -/
  units : Option Nat
  /-- fields, offsets from the first byte of the option. -/
  fields : List (String × Fld)
  deriving Repr

def optTable : List OptFmt := [
  { type := 1, kind := "SourceLinkLayerAddress", units := none, fields := [("addr", .tail 2)] },
  { type := 2, kind := "TargetLinkLayerAddress", units := none, fields := [("addr", .tail 2)] },
  { type := 3, kind := "PrefixInformation", units := some 4,
    fields := [("plen", .u8 2), ("l", .bit 3 128), ("a", .bit 3 64), ("valid", .u32 4),
               ("pref", .u32 8), ("prefix", .raw 16 16)] },
  { type := 4, kind := "RedirectedHeader", units := none, fields := [("pkt", .tail 8)] },
  { type := 5, kind := "Mtu", units := some 1, fields := [("mtu", .u32 4)] }
]

/-- format of an option type; unknown types are carried raw (type + data behind the 2 byte header). -/
def optFmt (t : Nat) : OptFmt :=
  match optTable.find? fun f => t = f.type with
  | some f => f
  | none => { type := t, kind := "Unknown", units := none, fields := [("type", .u8 0), ("data", .tail 2)] }

/-- why the option at the head of an area is rejected. -/
inductive Reject
  | truncatedHeader (type have_ : Nat)      -- fewer than 2 bytes left
  | zeroLength (type : Nat)                 -- Length = 0
  | truncated (type need have_ : Nat)       -- 8*Length bytes are not there
  | wrongSize (type need have_ : Nat)       -- type with a fixed Length and a different one given
  deriving DecidableEq, Repr

/-- one option of the area: its view (window first) and its length. -/
structure Opt where
  off : Nat
  len : Nat
  view : View
  deriving DecidableEq, Repr

/-- the option at the head of `rest` (which starts at offset `off` of the area), or the reason it is
    rejected. -/
def head (off : Nat) (rest : Bytes) : Except Reject Opt :=
  if rest.length < 2 then .error (.truncatedHeader (bAt rest 0) rest.length)
  else
    let t := bAt rest 0
    let u := bAt rest 1
    if u = 0 then .error (.zeroLength t)
    else if rest.length < 8 * u then .error (.truncated t (8 * u) rest.length)
    else
      let f := optFmt t
      match f.units.filter (fun n => n ≠ u) with
      | some n => .error (.wrongSize t (8 * n) (8 * u))
      | none =>
        let o := rest.take (8 * u)
        .ok { off := off, len := 8 * u,
              view := { kind := f.kind, sub := "",
                        fields := ("w", .w off (8 * u)) :: readFields f.fields off o } }

/-- the options of an area up to the first rejected one. -/
def parse (off : Nat) (rest : Bytes) : List Opt × Option Reject :=
  if rest = [] then ([], none)
  else
    match head off rest with
    | .error r => ([], some r)
    | .ok o =>
      if _hl : 0 < o.len ∧ o.len ≤ rest.length then
        let r := parse (off + o.len) (rest.drop o.len)
        (o :: r.1, r.2)
      else ([], none)  -- unreachable: `head` only returns options with 0 < len ≤ rest.length
termination_by rest.length
decreasing_by simp; omega

end EpModel.Spec.Ndp
