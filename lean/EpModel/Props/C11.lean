import EpModel.Lemmas.DefragPool
/-
  C11 — fragments reassemble to the original payload in any arrival order.

  Model: EpModel.Model.Defrag (etherparse/src/defrag/*.rs).  Spec: EpModel.Spec.Reassembly (per stream
  the set of delivered facts).  All statements quantify over every history (list of deliveries, of
  any length, in any order, with duplicates, conflicting and oversized fragments, buffer returns and
  evictions); proofs are by induction over the history with the refinement invariant
  `Lemmas.Defrag.Inv` (buffer level) and the simulation `Lemmas.Defrag.Rel` (pool level).
-/
namespace EpModel.Props.C11
open EpModel EpModel.Defrag EpModel.Spec.Reasm EpModel.Lemmas.Defrag

/-! ### histories of one reconstruction buffer -/

/-- a call `add(fo, mf, payload)` -/
abbrev Add := Nat × Bool × Bytes

/-- `IpDefragBuf`: apply a history of `add` calls (a failing call leaves the buffer as it is) -/
def bufRun (b : Buf) : List Add → Buf
  | [] => b
  | (fo, mf, p) :: rest =>
    match b.add fo mf p with
    | .ok b' => bufRun b' rest
    | .error _ => bufRun b rest

/-- Spec: the facts accepted from the same history (newest first) -/
def factsRun (fs : List Frag) : List Add → List Frag
  | [] => fs
  | (fo, mf, p) :: rest =>
    match check fs (factOf fo mf p) with
    | none => factsRun (factOf fo mf p :: fs) rest
    | some _ => factsRun fs rest

/-- **buf_refines**: after any history of `add` calls the buffer represents exactly the facts the
    abstract spec accepted from that history (`Inv`: sections = delivered positions, end = announced
    end, data = delivered bytes), and every single call answers as the abstract check does. -/
theorem buf_refines (h : List Add) : ∀ (b : Buf) (fs : List Frag), Inv b fs →
    Inv (bufRun b h) (factsRun fs h) := by
  induction h with
  | nil => intro b fs hi; exact hi
  | cons a rest ih =>
    intro b fs hi
    obtain ⟨fo, mf, p⟩ := a
    simp only [bufRun, factsRun]
    rw [add_eq hi fo mf p]
    cases hc : check fs (factOf fo mf p) with
    | some r => exact ih b fs hi
    | none => exact ih _ _ (addCore_inv hi fo mf p hc)

/-- each call of `add` on a buffer reached by any history: error iff the abstract check rejects the
    fragment, with the corresponding error value; otherwise the fact is added. -/
theorem add_refines (h : List Add) (ip fo : Nat) (mf : Bool) (p : Bytes) :
    (bufRun (Buf.new ip) h).add fo mf p =
      match check (factsRun [] h) (factOf fo mf p) with
      | some r => .error (errOf r)
      | none => .ok ((bufRun (Buf.new ip) h).addCore fo mf p) :=
  add_eq (buf_refines h _ _ (inv_new ip)) fo mf p

/-- **sections_inv**: after any history of `add` calls on a fresh (or recycled: `new` clears) buffer
    * every section has `start ≤ end`, and two different sections are not connected (a gap of at
      least one position lies between them),
    * a byte position lies in a section iff it was delivered by an accepted fragment,
    * every data cell inside a section holds `some` of the byte delivered for that position (the most
      recently delivered one), in particular never a stale cell. -/
theorem sections_inv (ip : Nat) (h : List Add) :
    let b := bufRun (Buf.new ip) h
    let fs := factsRun [] h
    (∀ r ∈ b.sections, r.start ≤ r.stop) ∧
    b.sections.Pairwise (fun a c => a.stop < c.start ∨ c.stop < a.start) ∧
    (∀ i, (∃ r ∈ b.sections, r.start ≤ i ∧ i < r.stop) ↔ (∃ f ∈ fs, f.off ≤ i ∧ i < f.stop)) ∧
    (∀ i, (∃ r ∈ b.sections, r.start ≤ i ∧ i < r.stop) →
      ∃ v, b.data[i]? = some (some v) ∧ byteAt fs i = some v) := by
  intro b fs
  have hi : Inv b fs := buf_refines h _ _ (inv_new ip)
  refine ⟨hi.valid, hi.pairwise, hi.cover, ?_⟩
  intro i hc
  have hcov : covered fs i := (hi.cover i).1 hc
  have hlt : i < b.data.length := by
    rw [hi.len, hi.extent]; exact covered_lt_extent fs i hcov
  have hs := (byteAt_isSome_iff fs i).2 hcov
  cases hb : byteAt fs i with
  | none => rw [hb] at hs; cases hs
  | some v => exact ⟨v, by rw [hi.bytes i hlt, hb], rfl⟩

/-- **complete_iff_covered**: after any history, `is_complete()` holds exactly when a last fragment
    was accepted (end known) and every position below that end was delivered. -/
theorem complete_iff_covered (ip : Nat) (h : List Add) :
    (bufRun (Buf.new ip) h).isComplete = true ↔
      ∃ e, endOf (factsRun [] h) = some e ∧ ∀ i, i < e → covered (factsRun [] h) i :=
  isComplete_iff (buf_refines h _ _ (inv_new ip))

/-- a complete buffer holds exactly the abstract payload: length = announced end, every cell
    written (buffer level form of `no_stale_bytes`). -/
theorem complete_payload (ip : Nat) (h : List Add) (bs : Bytes)
    (he : emit (factsRun [] h) = some bs) : (bufRun (Buf.new ip) h).data = bs.map some :=
  complete_data (buf_refines h _ _ (inv_new ip)) he

/-! ### rejection of inconsistent fragments -/

/-- **inconsistent_rejected** (buffer): `add` fails exactly when the fragment is an unaligned non-last
    fragment, reaches beyond 65535, reaches beyond a known end, announces another end than the known
    one, or announces an end in front of a received section.  (A failing `add` returns no new
    buffer: the caller's buffer is untouched.) -/
theorem inconsistent_rejected (b : Buf) (fo : Nat) (mf : Bool) (p : Bytes) :
    (∃ e, b.add fo mf p = .error e) ↔
      (fo * 8 + p.length > 65535 ∨ (mf = true ∧ p.length % 8 ≠ 0) ∨
       (∃ e, b.endKnown = some e ∧ (e < fo * 8 + p.length ∨ (mf = false ∧ fo * 8 + p.length ≠ e))) ∨
       (mf = false ∧ ∃ r ∈ b.sections, fo * 8 + p.length < r.stop)) := by
  have hmax : (∃ r ∈ b.sections, fo * 8 + p.length < r.stop) ↔
      ∃ m, maxStop b.sections = some m ∧ m > fo * 8 + p.length := by
    constructor
    · rintro ⟨r, hr, hlt⟩
      cases hm : maxStop b.sections with
      | none => rw [maxStop_none hm] at hr; cases hr
      | some m =>
        have := maxStop_some hm
        have := le_extentR hr
        exact ⟨m, rfl, by omega⟩
    · rintro ⟨m, hm, hgt⟩
      have hme := maxStop_some hm
      exact exists_gt_of_extentR _ _ (by omega)
  rw [hmax]
  unfold Buf.add Buf.addCheck maxLen
  simp only []
  by_cases h1 : p.length > 65535
  · simp [h1]; omega
  · by_cases h2 : fo * 8 + p.length > 65535
    · simp [h1, h2]
    · by_cases h3 : mf = true ∧ p.length % 8 ≠ 0
      · simp [h1, h2, h3]
      · simp only [h1, h2, h3, if_false, false_or]
        cases he : b.endKnown with
        | some e =>
          simp only []
          by_cases h4 : e < fo * 8 + p.length ∨ (mf = false ∧ fo * 8 + p.length ≠ e)
          · simp only [h4, if_true]
            constructor
            · intro _; exact Or.inl ⟨e, rfl, h4⟩
            · intro _; exact ⟨_, rfl⟩
          · simp only [h4, if_false]
            cases mf with
            | true => simp at h4 ⊢; omega
            | false =>
              simp only [if_true, true_and]
              cases hm : maxStop b.sections with
              | none => simp at h4 ⊢; omega
              | some m =>
                simp only []
                by_cases h5 : m > fo * 8 + p.length
                · simp [h5]
                · simp [h5] at h4 ⊢; omega
        | none =>
          simp only []
          cases mf with
          | true => simp
          | false =>
            simp only [if_true, true_and]
            cases hm : maxStop b.sections with
            | none => simp
            | some m =>
              simp only []
              by_cases h5 : m > fo * 8 + p.length
              · simp [h5]
              · simp [h5]

/-- **inconsistent_rejected** (pool): when `process_sliced_packet` returns an error, the set of
    streams under reconstruction and their buffers are exactly as before. -/
theorem error_state_unchanged (p : Pool) (pkt : Packet) (ts : Nat) (e : Err)
    (h : (p.process pkt ts).2 = .error e) : (p.process pkt ts).1.active = p.active := by
  cases pkt with
  | nonIp => rfl
  | plain k pl => rfl
  | frag k fo mf pl =>
    by_cases hf : mf = true ∨ fo ≠ 0
    · cases hl : lookup k p.active with
      | none =>
        cases ha : (Buf.new k.payloadIpNumber).add fo mf pl with
        | ok b' => rw [process_vacant_ok p k fo mf pl ts hf hl ha] at h; cases h
        | error e' => rw [process_vacant_err p k fo mf pl ts hf hl ha]
      | some v =>
        obtain ⟨b, t⟩ := v
        cases ha : b.add fo mf pl with
        | error e' => rw [process_occupied_err p k fo mf pl ts hf hl ha]
        | ok b' =>
          cases hc : b'.isComplete with
          | true => rw [process_occupied_complete p k fo mf pl ts hf hl ha hc] at h; cases h
          | false => rw [process_occupied_more p k fo mf pl ts hf hl ha hc] at h; cases h
    · rw [process_notfrag p k fo mf pl ts hf]

/-! ### unfragmented packets -/

/-- **unfragmented**: a packet that is not a fragment (IPv4 with MF clear and offset 0, IPv6 with
    such a fragment header or without one, ARP/other) gives `Ok(None)` and leaves the whole pool
    (streams and recycled vectors) untouched. -/
theorem unfragmented_passthrough (p : Pool) (k : Key) (pl : Bytes) (ts : Nat) :
    p.process (.frag k 0 false pl) ts = (p, .ok none) ∧
    p.process (.plain k pl) ts = (p, .ok none) ∧
    p.process .nonIp ts = (p, .ok none) :=
  ⟨process_notfrag p k 0 false pl ts (by simp), rfl, rfl⟩

/-! ### streams with different keys do not interact -/

theorem lookup_erase_ne (k k' : Key) (hne : k' ≠ k) : ∀ m : List (Key × Buf × Nat),
    lookup k' (erase k m) = lookup k' m
  | [] => rfl
  | (k1, v) :: m => by
    simp only [erase]
    by_cases h1 : k1 = k
    · simp only [h1, if_true, lookup]
      have : ¬ k = k' := fun hh => hne hh.symm
      simp [this]
    · simp only [h1, if_false, lookup]
      rw [lookup_erase_ne k k' hne m]

theorem lookup_replace_ne (k k' : Key) (v : Buf × Nat) (hne : k' ≠ k) :
    ∀ m : List (Key × Buf × Nat), lookup k' (replace k v m) = lookup k' m
  | [] => rfl
  | (k1, v1) :: m => by
    simp only [replace]
    by_cases h1 : k1 = k
    · simp only [h1, if_true, lookup]
      have : ¬ k = k' := fun hh => hne hh.symm
      simp [this]
    · simp only [h1, if_false, lookup]
      rw [lookup_replace_ne k k' v hne m]

theorem lookup_append_ne (k k' : Key) (v : Buf × Nat) (hne : k' ≠ k) :
    ∀ m : List (Key × Buf × Nat), lookup k' (m ++ [(k, v)]) = lookup k' m
  | [] => by
    have : ¬ k = k' := fun hh => hne hh.symm
    simp [lookup, this]
  | (k1, v1) :: m => by
    simp only [List.cons_append, lookup]
    rw [lookup_append_ne k k' v hne m]

/-- **key isolation**: processing a fragment of stream `k` leaves the buffer and time stamp of every
    other stream `k'` (any differing component: version, addresses, identification, protocol, VLAN
    ids, channel) exactly as they were. -/
theorem other_streams_untouched (p : Pool) (k k' : Key) (fo : Nat) (mf : Bool) (pl : Bytes)
    (ts : Nat) (hne : k' ≠ k) :
    lookup k' (p.process (.frag k fo mf pl) ts).1.active = lookup k' p.active := by
  by_cases hf : mf = true ∨ fo ≠ 0
  · cases hl : lookup k p.active with
    | none =>
      cases ha : (Buf.new k.payloadIpNumber).add fo mf pl with
      | ok b' =>
        rw [process_vacant_ok p k fo mf pl ts hf hl ha]
        exact lookup_append_ne k k' _ hne _
      | error e' => rw [process_vacant_err p k fo mf pl ts hf hl ha]
    | some v =>
      obtain ⟨b, t⟩ := v
      cases ha : b.add fo mf pl with
      | error e' => rw [process_occupied_err p k fo mf pl ts hf hl ha]
      | ok b' =>
        cases hc : b'.isComplete with
        | true =>
          rw [process_occupied_complete p k fo mf pl ts hf hl ha hc]
          exact lookup_erase_ne k k' hne _
        | false =>
          rw [process_occupied_more p k fo mf pl ts hf hl ha hc]
          exact lookup_replace_ne k k' _ hne _
  · rw [process_notfrag p k fo mf pl ts hf]

/-! ### the pool refines the abstract pool, over all histories -/

/-- outputs of a history agree, operation by operation -/
def AllMatch : List Defrag.Op → List Defrag.Out → List Spec.Reasm.Out → Prop
  | [], [], [] => True
  | op :: ops, o :: os, so :: sos => OutMatches op o so ∧ AllMatch ops os sos
  | _, _, _ => False

/-- **pool_refines**: from any pool state whose streams represent abstract streams (`Rel`; the
    recycled vectors and the outstanding results are arbitrary, i.e. may hold any stale bytes), every
    history of deliveries (fragments of any streams, unfragmented packets), buffer returns and
    `retain` calls produces, operation by operation, the outputs of the abstract pool:
    `Ok(None)` where the spec emits nothing, `Ok(Some(payload))` with protocol of the key and exactly
    the abstract payload (all cells written) where the spec emits, `Err(e)` with the corresponding
    error value where the spec rejects. -/
theorem pool_refines_from (ops : List Defrag.Op) : ∀ (s : Session) (sp : Spec.Reasm.Pool Key),
    Rel s.pool.active sp →
    AllMatch ops (s.run ops).2 (Spec.Reasm.run sp (ops.map specOp)).2 ∧
    Rel (s.run ops).1.pool.active (Spec.Reasm.run sp (ops.map specOp)).1 := by
  induction ops with
  | nil => intro s sp hr; exact ⟨trivial, hr⟩
  | cons op rest ih =>
    intro s sp hr
    have hs := step_refines hr op
    have := ih (s.step op).1 (Spec.Reasm.step sp (specOp op)).1 hs.1
    simp only [Session.run, List.map_cons, Spec.Reasm.run, AllMatch]
    exact ⟨⟨hs.2, this.1⟩, this.2⟩

/-- **pool_refines** for a new pool. -/
theorem pool_refines (ops : List Defrag.Op) :
    AllMatch ops (Session.new.run ops).2 (Spec.Reasm.run [] (ops.map specOp)).2 :=
  (pool_refines_from ops Session.new [] trivial).1

end EpModel.Props.C11
