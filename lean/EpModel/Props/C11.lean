import EpModel.Lemmas.DefragPool
import EpModel.Lemmas.DefragOrig
/-
  C11 — fragments reassemble to the original payload in any arrival order.

  Model: EpModel.Model.Defrag (etherparse/src/defrag/*.rs).  Spec: EpModel.Spec.Reassembly (per stream
  the set of delivered facts).  All statements quantify over every history (list of deliveries, of
  any length, in any order, with duplicates, conflicting and oversized fragments, buffer returns and
  evictions); proofs are by induction over the history with the refinement invariant
  `Lemmas.Defrag.Inv` (buffer level) and the simulation `Lemmas.Defrag.Rel` (pool level).
-/
namespace EpModel.Props.C11
open EpModel EpModel.Defrag EpModel.Spec.Reasm EpModel.Lemmas.Defrag

/-! ### histories of one reconstruction buffer -/

/-- a call `add(fo, mf, payload)` -/
abbrev Add := Nat × Bool × Bytes

/-- `IpDefragBuf`: apply a history of `add` calls (a failing call leaves the buffer as it is) -/
def bufRun (b : Buf) : List Add → Buf
  | [] => b
  | (fo, mf, p) :: rest =>
    match b.add fo mf p with
    | .ok b' => bufRun b' rest
    | .error _ => bufRun b rest

/-- Spec: the facts accepted from the same history (newest first) -/
def factsRun (fs : List Frag) : List Add → List Frag
  | [] => fs
  | (fo, mf, p) :: rest =>
    match check fs (factOf fo mf p) with
    | none => factsRun (factOf fo mf p :: fs) rest
    | some _ => factsRun fs rest

/-- **buf_refines**: after any history of `add` calls the buffer represents exactly the facts the
    abstract spec accepted from that history (`Inv`: sections = delivered positions, end = announced
    end, data = delivered bytes), and every single call answers as the abstract check does. -/
theorem buf_refines (h : List Add) : ∀ (b : Buf) (fs : List Frag), Inv b fs →
    Inv (bufRun b h) (factsRun fs h) := by
  induction h with
  | nil => intro b fs hi; exact hi
  | cons a rest ih =>
    intro b fs hi
    obtain ⟨fo, mf, p⟩ := a
    simp only [bufRun, factsRun]
    rw [add_eq hi fo mf p]
    cases hc : check fs (factOf fo mf p) with
    | some r => exact ih b fs hi
    | none => exact ih _ _ (addCore_inv hi fo mf p hc)

/-- each call of `add` on a buffer reached by any history: error iff the abstract check rejects the
    fragment, with the corresponding error value; otherwise the fact is added. -/
theorem add_refines (h : List Add) (ip fo : Nat) (mf : Bool) (p : Bytes) :
    (bufRun (Buf.new ip) h).add fo mf p =
      match check (factsRun [] h) (factOf fo mf p) with
      | some r => .error (errOf r)
      | none => .ok ((bufRun (Buf.new ip) h).addCore fo mf p) :=
  add_eq (buf_refines h _ _ (inv_new ip)) fo mf p

/-- **sections_inv**: after any history of `add` calls on a fresh (or recycled: `new` clears) buffer
    * every section has `start ≤ end`, and two different sections are not connected (a gap of at
      least one position lies between them),
    * a byte position lies in a section iff it was delivered by an accepted fragment,
    * every data cell inside a section holds `some` of the byte delivered for that position (the most
      recently delivered one), in particular never a stale cell. -/
theorem sections_inv (ip : Nat) (h : List Add) :
    let b := bufRun (Buf.new ip) h
    let fs := factsRun [] h
    (∀ r ∈ b.sections, r.start ≤ r.stop) ∧
    b.sections.Pairwise (fun a c => a.stop < c.start ∨ c.stop < a.start) ∧
    (∀ i, (∃ r ∈ b.sections, r.start ≤ i ∧ i < r.stop) ↔ (∃ f ∈ fs, f.off ≤ i ∧ i < f.stop)) ∧
    (∀ i, (∃ r ∈ b.sections, r.start ≤ i ∧ i < r.stop) →
      ∃ v, b.data[i]? = some (some v) ∧ byteAt fs i = some v) := by
  intro b fs
  have hi : Inv b fs := buf_refines h _ _ (inv_new ip)
  refine ⟨hi.valid, hi.pairwise, hi.cover, ?_⟩
  intro i hc
  have hcov : covered fs i := (hi.cover i).1 hc
  have hlt : i < b.data.length := by
    rw [hi.len, hi.extent]; exact covered_lt_extent fs i hcov
  have hs := (byteAt_isSome_iff fs i).2 hcov
  cases hb : byteAt fs i with
  | none => rw [hb] at hs; cases hs
  | some v => exact ⟨v, by rw [hi.bytes i hlt, hb], rfl⟩

/-- **complete_iff_covered**: after any history, `is_complete()` holds exactly when a last fragment
    was accepted (end known) and every position below that end was delivered. -/
theorem complete_iff_covered (ip : Nat) (h : List Add) :
    (bufRun (Buf.new ip) h).isComplete = true ↔
      ∃ e, endOf (factsRun [] h) = some e ∧ ∀ i, i < e → covered (factsRun [] h) i :=
  isComplete_iff (buf_refines h _ _ (inv_new ip))

/-- a complete buffer holds exactly the abstract payload: length = announced end, every cell
    written (buffer level form of `no_stale_bytes`). -/
theorem complete_payload (ip : Nat) (h : List Add) (bs : Bytes)
    (he : emit (factsRun [] h) = some bs) : (bufRun (Buf.new ip) h).data = bs.map some :=
  complete_data (buf_refines h _ _ (inv_new ip)) he

/-- sections are non-empty when no accepted fragment was empty (an empty fragment is legal and
    produces an empty section `(o,o)`, which is why the general invariant says `start ≤ end`). -/
theorem sections_nonempty (h : List Add) (hne : ∀ a ∈ h, a.2.2 ≠ []) : ∀ (b : Buf),
    (∀ r ∈ b.sections, Range.Valid r) → (∀ r ∈ b.sections, r.start < r.stop) →
    ∀ r ∈ (bufRun b h).sections, r.start < r.stop := by
  induction h with
  | nil => intro b _ hb; exact hb
  | cons a rest ih =>
    intro b hv hb
    obtain ⟨fo, mf, p⟩ := a
    have hp : p ≠ [] := hne (fo, mf, p) (by simp)
    have hrest : ∀ a ∈ rest, a.2.2 ≠ [] := fun a ha => hne a (by simp [ha])
    simp only [bufRun]
    cases ha : b.add fo mf p with
    | error e => exact ih hrest b hv hb
    | ok b' =>
      have hb' : b' = b.addCore fo mf p := by
        unfold Buf.add at ha; split at ha <;> cases ha; rfl
      have hlen : 0 < p.length := List.length_pos_iff.2 hp
      have hns : Range.Valid { start := fo * 8, stop := fo * 8 + p.length } := by
        unfold Range.Valid; simp
      have hsub := mergeLoop_sublist b.sections { start := fo * 8, stop := fo * 8 + p.length }
      have hbd := mergeLoop_bounds b.sections _ hns hv
      simp only [] at hbd
      apply ih hrest b'
      · intro r hr
        rw [hb'] at hr
        simp only [Buf.addCore, List.mem_append, List.mem_singleton] at hr
        rcases hr with hr | rfl
        · exact hv r (hsub.subset hr)
        · exact mergeLoop_valid _ _ hns hv
      · intro r hr
        rw [hb'] at hr
        simp only [Buf.addCore, List.mem_append, List.mem_singleton] at hr
        rcases hr with hr | rfl
        · exact hb r (hsub.subset hr)
        · omega

/-! ### pieces of one payload: original recovered, in any order, with duplicates -/

/-- the fact of an `add` call -/
def addFact (a : Add) : Frag := factOf a.1 a.2.1 a.2.2

theorem consistent_all_accepted (P : Bytes) (hP : P.length ≤ 65535) (h : List Add) :
    ∀ (fs : List Frag), (∀ g ∈ fs, Consistent P g) → (∀ a ∈ h, Consistent P (addFact a)) →
    factsRun fs h = (h.map addFact).reverse ++ fs := by
  induction h with
  | nil => intro fs _ _; rfl
  | cons a rest ih =>
    intro fs hfs hc
    obtain ⟨fo, mf, p⟩ := a
    have ha : Consistent P (factOf fo mf p) := hc (fo, mf, p) (by simp)
    simp only [factsRun, check_consistent hP hfs ha]
    rw [ih (factOf fo mf p :: fs)
      (by intro g hg; rcases List.mem_cons.1 hg with rfl | hg; exact ha; exact hfs g hg)
      (fun a ha => hc a (by simp [ha]))]
    simp [addFact]

/-- **reassembles_original** (order / duplication invariance): for every payload `P` (≤ 65535
    bytes) and every history of `add` calls whose fragments are pieces of `P` — any cut, any order,
    any number of repetitions, overlapping or not — no call fails, the buffer is complete exactly
    when a last fragment and every position of `P` have been delivered (a condition on the *set* of
    delivered fragments only), and then its data is `P`, every cell written. -/
theorem reassembles_original (ip : Nat) (P : Bytes) (hP : P.length ≤ 65535) (h : List Add)
    (hc : ∀ a ∈ h, Consistent P (addFact a)) :
    ((bufRun (Buf.new ip) h).isComplete = true ↔
      (∃ a ∈ h, (addFact a).last = true) ∧
      ∀ i, i < P.length → ∃ a ∈ h, (addFact a).off ≤ i ∧ i < (addFact a).stop) ∧
    ((bufRun (Buf.new ip) h).isComplete = true → (bufRun (Buf.new ip) h).data = P.map some) := by
  have hfs := consistent_all_accepted P hP h [] (by simp) hc
  rw [List.append_nil] at hfs
  have hmem : ∀ g, g ∈ factsRun [] h ↔ ∃ a ∈ h, addFact a = g := by
    intro g; rw [hfs]; simp
  have hall : ∀ g ∈ factsRun [] h, Consistent P g := by
    intro g hg
    obtain ⟨a, ha, rfl⟩ := (hmem g).1 hg
    exact hc a ha
  have hi := buf_refines h _ _ (inv_new ip)
  have hiff : (bufRun (Buf.new ip) h).isComplete = true ↔ (emit (factsRun [] h)).isSome := by
    rw [isComplete_iff hi, emit_isSome_iff]
  constructor
  · rw [hiff, emit_isSome_consistent hall]
    simp only [covered]
    constructor
    · rintro ⟨⟨g, hg, hl⟩, hcov⟩
      obtain ⟨a, ha, rfl⟩ := (hmem g).1 hg
      refine ⟨⟨a, ha, hl⟩, fun i hi => ?_⟩
      obtain ⟨f, hf, hh⟩ := hcov i hi
      obtain ⟨a', ha', rfl⟩ := (hmem f).1 hf
      exact ⟨a', ha', hh⟩
    · rintro ⟨⟨a, ha, hl⟩, hcov⟩
      refine ⟨⟨addFact a, (hmem _).2 ⟨a, ha, rfl⟩, hl⟩, fun i hi => ?_⟩
      obtain ⟨a', ha', hh⟩ := hcov i hi
      exact ⟨addFact a', (hmem _).2 ⟨a', ha', rfl⟩, hh⟩
  · intro hcomp
    have hs := hiff.1 hcomp
    cases he : emit (factsRun [] h) with
    | none => rw [he] at hs; cases hs
    | some bs =>
      rw [complete_data hi he, emit_consistent hall he]

/-- two histories that deliver the same fragments of one payload (any permutation, any duplication)
    agree on completeness and, when complete, on the data (which is the payload). -/
theorem order_duplication_invariant (ip : Nat) (P : Bytes) (hP : P.length ≤ 65535)
    (h1 h2 : List Add) (hc : ∀ a ∈ h1, Consistent P (addFact a)) (hm : ∀ a, a ∈ h1 ↔ a ∈ h2) :
    (bufRun (Buf.new ip) h1).isComplete = (bufRun (Buf.new ip) h2).isComplete ∧
    ((bufRun (Buf.new ip) h1).isComplete = true →
      (bufRun (Buf.new ip) h1).data = P.map some ∧ (bufRun (Buf.new ip) h2).data = P.map some) := by
  have hc2 : ∀ a ∈ h2, Consistent P (addFact a) := fun a ha => hc a ((hm a).2 ha)
  have r1 := reassembles_original ip P hP h1 hc
  have r2 := reassembles_original ip P hP h2 hc2
  have hiff : (bufRun (Buf.new ip) h1).isComplete = true ↔ (bufRun (Buf.new ip) h2).isComplete = true := by
    rw [r1.1, r2.1]
    constructor
    · rintro ⟨⟨a, ha, hl⟩, hcov⟩
      refine ⟨⟨a, (hm a).1 ha, hl⟩, fun i hi => ?_⟩
      obtain ⟨a', ha', hh⟩ := hcov i hi
      exact ⟨a', (hm a').1 ha', hh⟩
    · rintro ⟨⟨a, ha, hl⟩, hcov⟩
      refine ⟨⟨a, (hm a).2 ha, hl⟩, fun i hi => ?_⟩
      obtain ⟨a', ha', hh⟩ := hcov i hi
      exact ⟨a', (hm a').2 ha', hh⟩
  constructor
  · cases h1c : (bufRun (Buf.new ip) h1).isComplete <;> cases h2c : (bufRun (Buf.new ip) h2).isComplete <;>
      simp [h1c, h2c] at hiff ⊢
  · intro hcomp
    exact ⟨r1.2 hcomp, r2.2 (hiff.1 hcomp)⟩

/-! ### rejection of inconsistent fragments -/

/-- **inconsistent_rejected** (buffer): `add` fails exactly when the fragment is an unaligned non-last
    fragment, reaches beyond 65535, reaches beyond a known end, announces another end than the known
    one, or announces an end in front of a received section.  (A failing `add` returns no new
    buffer: the caller's buffer is untouched.) -/
theorem inconsistent_rejected (b : Buf) (fo : Nat) (mf : Bool) (p : Bytes) :
    (∃ e, b.add fo mf p = .error e) ↔
      (fo * 8 + p.length > 65535 ∨ (mf = true ∧ p.length % 8 ≠ 0) ∨
       (∃ e, b.endKnown = some e ∧ (e < fo * 8 + p.length ∨ (mf = false ∧ fo * 8 + p.length ≠ e))) ∨
       (mf = false ∧ ∃ r ∈ b.sections, fo * 8 + p.length < r.stop)) := by
  have hmax : (∃ r ∈ b.sections, fo * 8 + p.length < r.stop) ↔
      ∃ m, maxStop b.sections = some m ∧ m > fo * 8 + p.length := by
    constructor
    · rintro ⟨r, hr, hlt⟩
      cases hm : maxStop b.sections with
      | none => rw [maxStop_none hm] at hr; cases hr
      | some m =>
        have := maxStop_some hm
        have := le_extentR hr
        exact ⟨m, rfl, by omega⟩
    · rintro ⟨m, hm, hgt⟩
      have hme := maxStop_some hm
      exact exists_gt_of_extentR _ _ (by omega)
  rw [hmax]
  unfold Buf.add Buf.addCheck maxLen
  simp only []
  by_cases h1 : p.length > 65535
  · simp [h1]; omega
  · by_cases h2 : fo * 8 + p.length > 65535
    · simp [h1, h2]
    · by_cases h3 : mf = true ∧ p.length % 8 ≠ 0
      · simp [h1, h2, h3]
      · simp only [h1, h2, h3, if_false, false_or]
        cases he : b.endKnown with
        | some e =>
          simp only []
          by_cases h4 : e < fo * 8 + p.length ∨ (mf = false ∧ fo * 8 + p.length ≠ e)
          · simp only [h4, if_true]
            constructor
            · intro _; exact Or.inl ⟨e, rfl, h4⟩
            · intro _; exact ⟨_, rfl⟩
          · simp only [h4, if_false]
            cases mf with
            | true => simp at h4 ⊢; omega
            | false =>
              simp only [if_true, true_and]
              cases hm : maxStop b.sections with
              | none => simp at h4 ⊢; omega
              | some m =>
                simp only []
                by_cases h5 : m > fo * 8 + p.length
                · simp [h5]
                · simp [h5] at h4 ⊢; omega
        | none =>
          simp only []
          cases mf with
          | true => simp
          | false =>
            simp only [if_true, true_and]
            cases hm : maxStop b.sections with
            | none => simp
            | some m =>
              simp only []
              by_cases h5 : m > fo * 8 + p.length
              · simp [h5]
              · simp [h5]

/-- **inconsistent_rejected** (pool): when `process_sliced_packet` returns an error, the set of
    streams under reconstruction and their buffers are exactly as before. -/
theorem error_state_unchanged (p : Pool) (pkt : Packet) (ts : Nat) (e : Err)
    (h : (p.process pkt ts).2 = .error e) : (p.process pkt ts).1.active = p.active := by
  cases pkt with
  | nonIp => rfl
  | plain k pl => rfl
  | frag k fo mf pl =>
    by_cases hf : mf = true ∨ fo ≠ 0
    · cases hl : lookup k p.active with
      | none =>
        cases ha : (Buf.new k.payloadIpNumber).add fo mf pl with
        | ok b' => rw [process_vacant_ok p k fo mf pl ts hf hl ha] at h; cases h
        | error e' => rw [process_vacant_err p k fo mf pl ts hf hl ha]
      | some v =>
        obtain ⟨b, t⟩ := v
        cases ha : b.add fo mf pl with
        | error e' => rw [process_occupied_err p k fo mf pl ts hf hl ha]
        | ok b' =>
          cases hc : b'.isComplete with
          | true => rw [process_occupied_complete p k fo mf pl ts hf hl ha hc] at h; cases h
          | false => rw [process_occupied_more p k fo mf pl ts hf hl ha hc] at h; cases h
    · rw [process_notfrag p k fo mf pl ts hf]

/-! ### unfragmented packets -/

/-- **unfragmented**: a packet that is not a fragment (IPv4 with MF clear and offset 0, IPv6 with
    such a fragment header or without one, ARP/other) gives `Ok(None)` and leaves the whole pool
    (streams and recycled vectors) untouched. -/
theorem unfragmented_passthrough (p : Pool) (k : Key) (pl : Bytes) (ts : Nat) :
    p.process (.frag k 0 false pl) ts = (p, .ok none) ∧
    p.process (.plain k pl) ts = (p, .ok none) ∧
    p.process .nonIp ts = (p, .ok none) :=
  ⟨process_notfrag p k 0 false pl ts (by simp), rfl, rfl⟩

/-! ### streams with different keys do not interact -/

/-- **key isolation**: processing a fragment of stream `k` leaves the buffer and time stamp of every
    other stream `k'` (any differing component: version, addresses, identification, protocol, VLAN
    ids, channel) exactly as they were. -/
theorem other_streams_untouched (p : Pool) (k k' : Key) (fo : Nat) (mf : Bool) (pl : Bytes)
    (ts : Nat) (hne : k' ≠ k) :
    lookup k' (p.process (.frag k fo mf pl) ts).1.active = lookup k' p.active := by
  by_cases hf : mf = true ∨ fo ≠ 0
  · cases hl : lookup k p.active with
    | none =>
      cases ha : (Buf.new k.payloadIpNumber).add fo mf pl with
      | ok b' =>
        rw [process_vacant_ok p k fo mf pl ts hf hl ha]
        exact lookup_append_ne k k' _ hne _
      | error e' => rw [process_vacant_err p k fo mf pl ts hf hl ha]
    | some v =>
      obtain ⟨b, t⟩ := v
      cases ha : b.add fo mf pl with
      | error e' => rw [process_occupied_err p k fo mf pl ts hf hl ha]
      | ok b' =>
        cases hc : b'.isComplete with
        | true =>
          rw [process_occupied_complete p k fo mf pl ts hf hl ha hc]
          exact lookup_erase_ne k k' hne _
        | false =>
          rw [process_occupied_more p k fo mf pl ts hf hl ha hc]
          exact lookup_replace_ne k k' _ hne _
  · rw [process_notfrag p k fo mf pl ts hf]

/-- the stream an operation belongs to -/
def opKey : Defrag.Op → Option Key
  | .deliver (.frag k _ _ _) _ => some k
  | .deliver (.plain k _) _ => some k
  | _ => none

/-- the history as stream `k` alone sees it: its own packets and the `retain` calls; the packets of
    all other streams, ARP frames and buffer returns are removed -/
def project (k : Key) : List Defrag.Op → List Defrag.Op
  | [] => []
  | op :: ops =>
    match op with
    | .retain m => .retain m :: project k ops
    | op => if opKey op = some k then op :: project k ops else project k ops

/-- the outputs of the operations of stream `k` -/
def outputsFor (k : Key) : List Defrag.Op → List Defrag.Out → List Defrag.Out
  | op :: ops, o :: os => if opKey op = some k then o :: outputsFor k ops os else outputsFor k ops os
  | _, _ => []

/-- **streams never mix** (history level): in any history, what the pool answers to the packets of
    stream `k` is what it answers when the packets of all other streams (any other key: other
    version, addresses, identification, protocol, VLAN ids or channel), the ARP frames and the buffer
    returns are removed from the history. -/
theorem streams_never_mix_from (k : Key) (ops : List Defrag.Op) : ∀ (s s' : Session),
    lookup k s.pool.active = lookup k s'.pool.active →
    UniqueKeys s.pool.active → UniqueKeys s'.pool.active →
    outputsFor k ops (s.run ops).2 = outputsFor k (project k ops) (s'.run (project k ops)).2 := by
  induction ops with
  | nil => intro s s' _ _ _; rfl
  | cons op rest ih =>
    intro s s' h hu hu'
    cases op with
    | deliver pkt ts =>
      cases pkt with
      | frag k2 fo mf pl =>
        by_cases hk : k2 = k
        · subst hk
          have hs := step_same_key k2 fo mf pl ts h hu hu'
          have := ih (s.step (.deliver (.frag k2 fo mf pl) ts)).1
            (s'.step (.deliver (.frag k2 fo mf pl) ts)).1 hs.2 (unique_step _ _ hu) (unique_step _ _ hu')
          simp only [project, opKey, if_true, Session.run, outputsFor, hs.1, this]
        · have hl : lookup k (s.step (.deliver (.frag k2 fo mf pl) ts)).1.pool.active =
              lookup k s'.pool.active := by
            rw [step_pool, other_streams_untouched s.pool k2 k fo mf pl ts (fun hh => hk hh.symm)]
            exact h
          have := ih (s.step (.deliver (.frag k2 fo mf pl) ts)).1 s' hl (unique_step _ _ hu) hu'
          have hne : ¬ (some k2 = some k) := fun hh => hk (Option.some.inj hh)
          simp only [project, opKey, hne, if_false, Session.run, outputsFor, this]
      | plain k2 pl =>
        by_cases hk : k2 = k
        · subst hk
          have := ih (s.step (.deliver (.plain k2 pl) ts)).1 (s'.step (.deliver (.plain k2 pl) ts)).1
            h hu hu'
          simp only [project, opKey, if_true, Session.run, outputsFor, this]
          rfl
        · have := ih (s.step (.deliver (.plain k2 pl) ts)).1 s' h hu hu'
          have hne : ¬ (some k2 = some k) := fun hh => hk (Option.some.inj hh)
          simp only [project, opKey, hne, if_false, Session.run, outputsFor, this]
      | nonIp =>
        have := ih (s.step (.deliver .nonIp ts)).1 s' h hu hu'
        have hne : ¬ ((none : Option Key) = some k) := fun hh => by cases hh
        simp only [project, opKey, hne, if_false, Session.run, outputsFor, this]
    | ret =>
      have hl : lookup k (s.step .ret).1.pool.active = lookup k s'.pool.active := by
        simp only [Session.step]
        split
        · exact h
        · exact h
      have := ih (s.step .ret).1 s' hl (unique_step _ _ hu) hu'
      have hne : ¬ ((none : Option Key) = some k) := fun hh => by cases hh
      simp only [project, opKey, hne, if_false, Session.run, outputsFor, this]
    | retain m =>
      have hl : lookup k (s.step (.retain m)).1.pool.active =
          lookup k (s'.step (.retain m)).1.pool.active := by
        have e1 := lookup_filter (fun e => decide (e.2.2 ≥ m)) k _ hu
        have e2 := lookup_filter (fun e => decide (e.2.2 ≥ m)) k _ hu'
        simp only [Session.step, Pool.retain]
        rw [e1, e2, h]
      have := ih (s.step (.retain m)).1 (s'.step (.retain m)).1 hl (unique_step _ _ hu)
        (unique_step _ _ hu')
      have hne : ¬ ((none : Option Key) = some k) := fun hh => by cases hh
      simp only [project, opKey, hne, if_false, Session.run, outputsFor, this]

/-- **streams never mix**, for a new pool. -/
theorem streams_never_mix (k : Key) (ops : List Defrag.Op) :
    outputsFor k ops (Session.new.run ops).2 =
      outputsFor k (project k ops) (Session.new.run (project k ops)).2 :=
  streams_never_mix_from k ops Session.new Session.new rfl trivial trivial

/-! ### the pool refines the abstract pool, over all histories -/

/-- **pool_refines**: from any pool state whose streams represent abstract streams (`Rel`; the
    recycled vectors and the outstanding results are arbitrary, i.e. may hold any stale bytes), every
    history of deliveries (fragments of any streams, unfragmented packets), buffer returns and
    `retain` calls produces, operation by operation, the outputs of the abstract pool:
    `Ok(None)` where the spec emits nothing, `Ok(Some(payload))` with protocol of the key and exactly
    the abstract payload (all cells written) where the spec emits, `Err(e)` with the corresponding
    error value where the spec rejects. -/
theorem pool_refines_from (ops : List Defrag.Op) : ∀ (s : Session) (sp : Spec.Reasm.Pool Key),
    Rel s.pool.active sp →
    AllMatch ops (s.run ops).2 (Spec.Reasm.run sp (ops.map specOp)).2 ∧
    Rel (s.run ops).1.pool.active (Spec.Reasm.run sp (ops.map specOp)).1 := by
  induction ops with
  | nil => intro s sp hr; exact ⟨trivial, hr⟩
  | cons op rest ih =>
    intro s sp hr
    have hs := step_refines hr op
    have := ih (s.step op).1 (Spec.Reasm.step sp (specOp op)).1 hs.1
    simp only [Session.run, List.map_cons, Spec.Reasm.run, AllMatch]
    exact ⟨⟨hs.2, this.1⟩, this.2⟩

/-- **pool_refines** for a new pool. -/
theorem pool_refines (ops : List Defrag.Op) :
    AllMatch ops (Session.new.run ops).2 (Spec.Reasm.run [] (ops.map specOp)).2 :=
  (pool_refines_from ops Session.new [] trivial).1

/-! ### what comes out, when, and from which bytes -/

/-- **payload exactly at completion**: from any reachable pool state (`Rel`), a delivery for stream
    `k` returns `Ok(Some(p))` iff the packet is a fragment, it is consistent with the facts of
    stream `k`, and with it the facts of stream `k` (and of no other stream) are complete for the
    first time; `p` then carries the protocol of the key and exactly the abstract payload.
    In every other case nothing is returned (`Ok(None)` or `Err`). -/
theorem payload_exactly_at_completion {s : Session} {sp : Spec.Reasm.Pool Key}
    (hr : Rel s.pool.active sp) (k : Key) (fo : Nat) (mf : Bool) (pl : Bytes) (ts : Nat)
    (p : Payload) :
    (s.step (.deliver (.frag k fo mf pl) ts)).2 = .ok p ↔
      (mf = true ∨ fo ≠ 0) ∧ check ((find k sp).getD []) (factOf fo mf pl) = none ∧
      ∃ bs, emit (factOf fo mf pl :: (find k sp).getD []) = some bs ∧
        p = { ipNumber := k.payloadIpNumber, isIpv4 := k.ver = 4, payload := bs.map some } := by
  have hm := (step_refines_frag hr k fo mf pl ts).2
  by_cases hfrag : mf = true ∨ fo ≠ 0
  · have hspec : ¬ ((factOf fo mf pl).last = true ∧ (factOf fo mf pl).fo = 0) := by
      simp only [factOf]; cases mf <;> simp at hfrag ⊢ <;> omega
    simp only [deliver, hspec, if_false] at hm
    cases hc : check ((find k sp).getD []) (factOf fo mf pl) with
    | some r =>
      simp only [hc, OutMatches] at hm
      rw [hm]; simp
    | none =>
      cases he : emit (factOf fo mf pl :: (find k sp).getD []) with
      | none =>
        simp only [hc, he, OutMatches] at hm
        rw [hm]; simp
      | some bs =>
        simp only [hc, he, OutMatches] at hm
        rw [hm]
        simp only [hfrag, true_and, Option.some.injEq, exists_eq_left', Out.ok.injEq]
        exact eq_comm
  · have hspec : (factOf fo mf pl).last = true ∧ (factOf fo mf pl).fo = 0 := by
      simp only [factOf]; cases mf <;> simp at hfrag ⊢ <;> omega
    simp only [deliver, hspec, and_self, if_true, OutMatches] at hm
    rw [hm]; simp [hfrag]

/-- a returned payload whose stream consists of pieces of `P` is `P` (pool level). -/
theorem pool_returns_original {s : Session} {sp : Spec.Reasm.Pool Key}
    (hr : Rel s.pool.active sp) (k : Key) (fo : Nat) (mf : Bool) (pl : Bytes) (ts : Nat)
    (P : Bytes) (hall : ∀ g ∈ (find k sp).getD [], Consistent P g)
    (hf : Consistent P (factOf fo mf pl)) (p : Payload)
    (hok : (s.step (.deliver (.frag k fo mf pl) ts)).2 = .ok p) :
    p.payload = P.map some ∧ p.ipNumber = k.payloadIpNumber := by
  obtain ⟨_, _, bs, he, rfl⟩ := (payload_exactly_at_completion hr k fo mf pl ts p).1 hok
  have hall' : ∀ g ∈ factOf fo mf pl :: (find k sp).getD [], Consistent P g := by
    intro g hg
    rcases List.mem_cons.1 hg with rfl | hg
    · exact hf
    · exact hall g hg
  rw [emit_consistent hall' he]
  exact ⟨rfl, rfl⟩

/-- **no_stale_bytes**: in every history from any reachable pool state — whatever the recycled
    vectors hold (`s.pool.finishedDataBufs` is arbitrary) and whichever buffers are returned in
    between — every cell of every returned payload is `some`: it was written by `copy_from_slice`
    after the vector was handed to the stream, never merely exposed by `set_len`.
    (By `payload_exactly_at_completion` and `emit_bytes_delivered` the byte is the one an accepted
    fragment of the same stream key delivered for that position.) -/
theorem no_stale_bytes (ops : List Defrag.Op) (s : Session) (sp : Spec.Reasm.Pool Key)
    (hr : Rel s.pool.active sp) (p : Payload) (hp : Out.ok p ∈ (s.run ops).2) :
    ∀ c ∈ p.payload, c ≠ none := by
  obtain ⟨bs, hbs⟩ := allMatch_ok (pool_refines_from ops s sp hr).1 p hp
  intro c hc
  rw [hbs] at hc
  obtain ⟨v, _, rfl⟩ := List.mem_map.1 hc
  simp

/-- every byte of a returned payload was delivered, at its position, by an accepted fragment of the
    stream (or by the completing fragment itself). -/
theorem returned_bytes_delivered {s : Session} {sp : Spec.Reasm.Pool Key}
    (hr : Rel s.pool.active sp) (k : Key) (fo : Nat) (mf : Bool) (pl : Bytes) (ts : Nat)
    (p : Payload) (hok : (s.step (.deliver (.frag k fo mf pl) ts)).2 = .ok p) (i : Nat)
    (hi : i < p.payload.length) :
    ∃ f ∈ factOf fo mf pl :: (find k sp).getD [], f.off ≤ i ∧ i < f.stop ∧
      p.payload[i]? = (f.bytes[i - f.off]?).map some := by
  obtain ⟨_, _, bs, he, rfl⟩ := (payload_exactly_at_completion hr k fo mf pl ts p).1 hok
  simp only [List.length_map] at hi
  obtain ⟨f, hf, h1, h2, h3⟩ := emit_bytes_delivered he i hi
  exact ⟨f, hf, h1, h2, by simp only [List.getElem?_map, h3]⟩

/-! ### exactly once: a completed stream is forgotten -/

/-- key uniqueness holds after every history on a new pool -/
theorem unique_keys_invariant (ops : List Defrag.Op) : ∀ (s : Session), UniqueKeys s.pool.active →
    UniqueKeys (s.run ops).1.pool.active := by
  induction ops with
  | nil => intro s h; exact h
  | cons op rest ih =>
    intro s h
    simp only [Session.run]
    apply ih
    cases op with
    | deliver pkt ts =>
      have := unique_process s.pool pkt ts h
      simp only [Session.step]
      split <;> rename_i heq <;> rw [heq] at this <;> exact this
    | ret =>
      simp only [Session.step]
      split
      · exact h
      · exact h
    | retain m => exact unique_filter _ _ h

/-- **exactly once**: the delivery that returns a payload removes the stream; afterwards stream `k`
    is not under reconstruction any more (a further fragment with that key opens a new, empty
    stream on a cleared buffer), so the datagram cannot be returned a second time. -/
theorem stream_forgotten (p : Pool) (k : Key) (fo : Nat) (mf : Bool) (pl : Bytes) (ts : Nat)
    (hu : UniqueKeys p.active) (r : Payload)
    (h : (p.process (.frag k fo mf pl) ts).2 = .ok (some r)) :
    lookup k (p.process (.frag k fo mf pl) ts).1.active = none := by
  by_cases hf : mf = true ∨ fo ≠ 0
  · cases hl : lookup k p.active with
    | none =>
      cases ha : (Buf.new k.payloadIpNumber).add fo mf pl with
      | ok b' => rw [process_vacant_ok p k fo mf pl ts hf hl ha] at h; cases h
      | error e' => rw [process_vacant_err p k fo mf pl ts hf hl ha] at h; cases h
    | some v =>
      obtain ⟨b, t⟩ := v
      cases ha : b.add fo mf pl with
      | error e' => rw [process_occupied_err p k fo mf pl ts hf hl ha] at h; cases h
      | ok b' =>
        cases hc : b'.isComplete with
        | true =>
          rw [process_occupied_complete p k fo mf pl ts hf hl ha hc]
          exact lookup_erase_self k _ hu
        | false => rw [process_occupied_more p k fo mf pl ts hf hl ha hc] at h; cases h
  · rw [process_notfrag p k fo mf pl ts hf] at h; cases h

/-- **evicted streams leave `active`**: after `retain(f)` exactly the streams whose time stamp
    satisfies `f` are still under reconstruction, with unchanged buffers, in unchanged order. -/
theorem retain_evicts (p : Pool) (f : Nat → Bool) :
    (p.retain f).active = p.active.filter (fun e => f e.2.2) ∧
    ∀ e ∈ (p.retain f).active, f e.2.2 = true ∧ e ∈ p.active := by
  refine ⟨rfl, ?_⟩
  intro e he
  have := List.mem_filter.1 (show e ∈ p.active.filter (fun e => f e.2.2) from he)
  exact ⟨this.2, this.1⟩

/-! ### non-vacuity -/

/-- a concrete out-of-order history completes (the definitions compute) -/
example : (bufRun (Buf.new 17) [(1, false, [9, 10]), (0, true, [1, 2, 3, 4, 5, 6, 7, 8])]).isComplete = true := by
  decide
example : (bufRun (Buf.new 17) [(1, false, [9, 10]), (0, true, [1, 2, 3, 4, 5, 6, 7, 8])]).data =
    [1, 2, 3, 4, 5, 6, 7, 8, 9, 10].map some := by decide
/-- the hypothesis `Consistent` of `reassembles_original` is satisfiable by non-trivial fragments -/
example : ∀ a ∈ [((1 : Nat), false, ([9, 10] : Bytes)), (0, true, [1, 2, 3, 4, 5, 6, 7, 8]), (0, true, [1, 2, 3, 4, 5, 6, 7, 8])],
    Consistent [1, 2, 3, 4, 5, 6, 7, 8, 9, 10] (addFact a) := by decide
/-- the F10 history (fixed by a44b17c): the short last fragment is rejected, nothing is complete -/
example : (Buf.addCheck (bufRun (Buf.new 17) [(0, true, List.replicate 16 1), (2, true, List.replicate 16 2)]) 1 false
    (List.replicate 8 3)) = some (.conflictingEnd 32 16) := by decide
/-- stale cells are expressible: a buffer with a hole holds `none` there (and is not complete) -/
example : (bufRun (Buf.new 17) [(1, false, [9])]).data =
    [none, none, none, none, none, none, none, none, some 9] := by decide
/-- the hypothesis `Rel` of `pool_refines_from` / `no_stale_bytes` holds for a new pool whose
    recycled vectors hold arbitrary stale content, and (second part of `pool_refines_from`) for every
    state reached from it -/
example (junk : List (List Cell)) (secs : List (List Range)) :
    Rel ({ pool := { active := [], finishedDataBufs := junk, finishedSectionBufs := secs },
           outstanding := [] } : Session).pool.active [] := trivial
/-- `project` keeps the packets of the stream and the `retain` calls, drops the rest -/
example :
    let k1 : Key := { ver := 4, source := [10, 0, 0, 1], destination := [10, 0, 0, 2], identification := 7,
                      payloadIpNumber := 17, vlanIds := [], channelId := 0 }
    let k2 : Key := { k1 with channelId := 1 }
    project k1 [.deliver (.frag k1 0 true [1, 2, 3, 4, 5, 6, 7, 8]) 0, .deliver (.frag k2 0 true [9, 9, 9, 9, 9, 9, 9, 9]) 1,
                .ret, .retain 0, .deliver (.frag k1 1 false [9]) 2] =
      [.deliver (.frag k1 0 true [1, 2, 3, 4, 5, 6, 7, 8]) 0, .retain 0, .deliver (.frag k1 1 false [9]) 2] := by
  simp [project, opKey]
/-- `UniqueKeys` holds for a new pool -/
example : UniqueKeys Session.new.pool.active := trivial

end EpModel.Props.C11
