import EpModel.Model.Codec.LinkEth
import EpModel.Model.Codec.LinkArp
import EpModel.Model.Codec.TpUdpTcp
import EpModel.Model.Codec.TpIcmp
import EpModel.Model.Codec.TpIgmp
namespace EpModel.Props.C08Link
open EpModel EpModel.Codec

example : Eth2.sampleMax.WF := by decide

end EpModel.Props.C08Link
