import EpModel.Lemmas.CodecLinkBits
import EpModel.Model.Codec.LinkEth
import EpModel.Model.Codec.LinkArp
import EpModel.Model.Codec.TpUdpTcp
import EpModel.Model.Codec.TpIcmp
import EpModel.Model.Codec.TpIgmp
/-
  C08 (link layer, ARP and transport half) — every header value survives encode → decode
  unchanged.

  Per type `T` (model in EpModel/Model/Codec):
    `encoders_agree` : WF h → all serialisers of the crate produce the same bytes, of exactly
                       `headerLen h` bytes
    `decode_encode`  : WF h → fromSlice (toBytes h ++ tail) = ok (h, tail)
    `decode_wf`      : fromSlice b = ok (h, rest) → WF h ∧ rest = b.drop (headerLen h) ∧ headerLen h ≤ b.length
    `encode_decode`  : fromSlice b = ok (h, rest) →
                         toBytes h = maskReserved (b.take (headerLen h)) ∧
                         fromSlice (toBytes h ++ rest) = ok (h, rest)
  `maskReserved` is the explicit per-type table of the bits the format reserves or the type
  normalises.  Everything is universally quantified (all field values, all byte strings).
-/
namespace EpModel.Props.C08Link
open EpModel EpModel.Codec EpModel.Lemmas.Codec

/-! ## Ethernet II -/
namespace Eth2
open EpModel.Codec.Eth2

/-- Ethernet II has no reserved bits. -/
def maskReserved (b : Bytes) : Bytes := b

theorem toBytes_length (h : Eth2) (hw : h.WF) : (toBytes h).length = 14 := by
  obtain ⟨hd, hs, _⟩ := hw
  simp [toBytes, hd, hs]

theorem encoders_agree (h : Eth2) (hw : h.WF) :
    toBytes h = writeOut h ∧ writeToSlice h (headerLen h) = .ok (toBytes h, 0) ∧
      (toBytes h).length = headerLen h :=
  ⟨rfl, by simp [writeToSlice, headerLen], toBytes_length h hw⟩

theorem decode_encode (h : Eth2) (tail : Bytes) (hw : h.WF) :
    fromSlice (toBytes h ++ tail) = .ok (h, tail) := by
  have hl := toBytes_length h hw
  unfold fromSlice
  rw [if_neg (by simp [hl]), drop_append_exact _ _ _ hl]
  obtain ⟨hd, hs, he⟩ := hw
  obtain ⟨dst, src, et⟩ := h
  simp only at hd hs he
  simp [toBytes, hd, hs, he, sub_append_exact, sub_append_right, be16_append_right, be16_enc16]

theorem decode_wf (b rest : Bytes) (h : Eth2) (hd : fromSlice b = .ok (h, rest)) :
    h.WF ∧ rest = b.drop (headerLen h) ∧ headerLen h ≤ b.length := by
  unfold fromSlice at hd
  split at hd
  · cases hd
  · cases hd
    refine ⟨⟨?_, ?_, be16_lt _ _⟩, rfl, by simp only [headerLen]; omega⟩
    · exact sub_length _ _ _ (by omega)
    · exact sub_length _ _ _ (by omega)

theorem encode_decode (b rest : Bytes) (h : Eth2) (hd : fromSlice b = .ok (h, rest)) :
    toBytes h = maskReserved (b.take (headerLen h)) ∧ fromSlice (toBytes h ++ rest) = .ok (h, rest) := by
  refine ⟨?_, decode_encode h rest (decode_wf b rest h hd).1⟩
  unfold fromSlice at hd
  split at hd
  · cases hd
  · cases hd
    simp only [toBytes, maskReserved, headerLen]
    rw [enc16_be16 b 12 (by omega), sub_glue b 0 6 6 6 12 rfl rfl, sub_glue b 0 12 12 2 14 rfl rfl,
      sub_zero]

example : Eth2.sampleMax.WF := by decide

end Eth2

/-! ## UDP -/
namespace Udp
open EpModel.Codec.Udp

/-- UDP has no reserved bits. -/
def maskReserved (b : Bytes) : Bytes := b

theorem toBytes_length (h : Udp) : (toBytes h).length = 8 := by simp [toBytes]

theorem encoders_agree (h : Udp) (_hw : h.WF) :
    toBytes h = writeOut h ∧ (toBytes h).length = headerLen h :=
  ⟨rfl, toBytes_length h⟩

theorem decode_encode (h : Udp) (tail : Bytes) (hw : h.WF) :
    fromSlice (toBytes h ++ tail) = .ok (h, tail) := by
  have hl := toBytes_length h
  unfold fromSlice
  rw [if_neg (by simp [hl]), drop_append_exact _ _ _ hl]
  obtain ⟨h1, h2, h3, h4⟩ := hw
  obtain ⟨sp, dp, len, ck⟩ := h
  simp only at h1 h2 h3 h4
  simp [toBytes, h1, h2, h3, h4, be16_enc16]

theorem decode_wf (b rest : Bytes) (h : Udp) (hd : fromSlice b = .ok (h, rest)) :
    h.WF ∧ rest = b.drop (headerLen h) ∧ headerLen h ≤ b.length := by
  unfold fromSlice at hd
  split at hd
  · cases hd
  · cases hd
    exact ⟨⟨be16_lt _ _, be16_lt _ _, be16_lt _ _, be16_lt _ _⟩, rfl, by simp only [headerLen]; omega⟩

theorem encode_decode (b rest : Bytes) (h : Udp) (hd : fromSlice b = .ok (h, rest)) :
    toBytes h = maskReserved (b.take (headerLen h)) ∧ fromSlice (toBytes h ++ rest) = .ok (h, rest) := by
  refine ⟨?_, decode_encode h rest (decode_wf b rest h hd).1⟩
  unfold fromSlice at hd
  split at hd
  · cases hd
  · cases hd
    simp only [toBytes, maskReserved, headerLen]
    rw [enc16_be16 b 0 (by omega), enc16_be16 b 2 (by omega), enc16_be16 b 4 (by omega),
      enc16_be16 b 6 (by omega), sub_glue b 0 2 2 2 4 rfl rfl, sub_glue b 0 4 4 2 6 rfl rfl,
      sub_glue b 0 6 6 2 8 rfl rfl, sub_zero]

example : Udp.sampleMax.WF := by decide

end Udp

/-! ## IGMPv3 group record header -/
namespace IgmpRec
open EpModel.Codec.IgmpRec

/-- no reserved bits. -/
def maskReserved (b : Bytes) : Bytes := b

theorem toBytes_length (h : IgmpRec) (hw : h.WF) : (toBytes h).length = 8 := by
  simp [toBytes, hw.2.2.2]

theorem encoders_agree (h : IgmpRec) (hw : h.WF) : (toBytes h).length = headerLen h :=
  toBytes_length h hw

theorem decode_encode (h : IgmpRec) (tail : Bytes) (hw : h.WF) :
    fromSlice (toBytes h ++ tail) = .ok (h, tail) := by
  have hl := toBytes_length h hw
  unfold fromSlice
  rw [if_neg (by simp [hl]), drop_append_exact _ _ _ hl]
  obtain ⟨h1, h2, h3, h4⟩ := hw
  obtain ⟨rt, aux, n, addr⟩ := h
  simp only at h1 h2 h3 h4
  simp [toBytes, h3, h4, be16_enc16, sub_append_exact, Nat.mod_eq_of_lt h1, Nat.mod_eq_of_lt h2]

theorem decode_wf (b rest : Bytes) (h : IgmpRec) (hd : fromSlice b = .ok (h, rest)) :
    h.WF ∧ rest = b.drop (headerLen h) ∧ headerLen h ≤ b.length := by
  unfold fromSlice at hd
  split at hd
  · cases hd
  · cases hd
    exact ⟨⟨bAt_lt _ _, bAt_lt _ _, be16_lt _ _, sub_length _ _ _ (by omega)⟩, rfl,
      by simp only [headerLen]; omega⟩

theorem encode_decode (b rest : Bytes) (h : IgmpRec) (hd : fromSlice b = .ok (h, rest)) :
    toBytes h = maskReserved (b.take (headerLen h)) ∧ fromSlice (toBytes h ++ rest) = .ok (h, rest) := by
  refine ⟨?_, decode_encode h rest (decode_wf b rest h hd).1⟩
  unfold fromSlice at hd
  split at hd
  · cases hd
  · cases hd
    simp only [toBytes, maskReserved, headerLen]
    rw [enc16_be16 b 2 (by omega)]
    show [u8 (bAt b 0)] ++ [u8 (bAt b 1)] ++ sub b 2 2 ++ sub b 4 4 = _
    rw [sub_one b 0 (by omega), sub_one b 1 (by omega), sub_glue b 0 1 1 1 2 rfl rfl,
      sub_glue b 0 2 2 2 4 rfl rfl, sub_glue b 0 4 4 4 8 rfl rfl, sub_zero]

example : IgmpRec.sampleMax.WF := by decide

end IgmpRec

/-! ## 802.1Q single VLAN header -/
namespace Vlan
open EpModel.Codec.Vlan

/-- no reserved bits (pcp 3 + dei 1 + vid 12 + ether type 16). -/
def maskReserved (b : Bytes) : Bytes := b

theorem toBytes_length (h : Vlan) : (toBytes h).length = 4 := by simp [toBytes]

theorem encoders_agree (h : Vlan) (_hw : h.WF) :
    toBytes h = writeOut h ∧ (toBytes h).length = headerLen h :=
  ⟨rfl, toBytes_length h⟩

theorem decode_encode (h : Vlan) (tail : Bytes) (hw : h.WF) :
    fromSlice (toBytes h ++ tail) = .ok (h, tail) := by
  have hl := toBytes_length h
  unfold fromSlice
  rw [if_neg (by simp [hl]), drop_append_exact _ _ _ hl]
  obtain ⟨h1, h2, h3⟩ := hw
  obtain ⟨pcp, dei, vid, et⟩ := h
  simp only at h1 h2 h3
  have hb := vlan_b0_fwd pcp h1 (vid / 256) (by omega) dei
  have e : vid / 256 % 256 = vid / 256 := by omega
  simp only [toBytes, e, List.cons_append, List.nil_append, bAt_cons_zero, bAt_cons_succ, u8_toNat,
    be16_cons_succ]
  simp only at hb
  rw [hb.1, hb.2.1, hb.2.2, be16_enc16 _ _ h3]
  have : vid / 256 * 256 + vid % 256 = vid := by omega
  simp [this]

theorem decode_wf (b rest : Bytes) (h : Vlan) (hd : fromSlice b = .ok (h, rest)) :
    h.WF ∧ rest = b.drop (headerLen h) ∧ headerLen h ≤ b.length := by
  unfold fromSlice at hd
  split at hd
  · cases hd
  · cases hd
    have hb := vlan_b0_bwd (bAt b 0) (bAt_lt _ _)
    have := bAt_lt b 1
    refine ⟨⟨hb.2.1, ?_, be16_lt _ _⟩, rfl, by simp only [headerLen]; omega⟩
    have := hb.2.2
    simp only
    omega

theorem encode_decode (b rest : Bytes) (h : Vlan) (hd : fromSlice b = .ok (h, rest)) :
    toBytes h = maskReserved (b.take (headerLen h)) ∧ fromSlice (toBytes h ++ rest) = .ok (h, rest) := by
  refine ⟨?_, decode_encode h rest (decode_wf b rest h hd).1⟩
  unfold fromSlice at hd
  split at hd
  · cases hd
  · cases hd
    have hb := vlan_b0_bwd (bAt b 0) (bAt_lt _ _)
    have h1 := bAt_lt b 1
    have h16 := hb.2.2
    simp only [toBytes, maskReserved, headerLen]
    have e1 : ((bAt b 0 &&& 0b1111) * 256 + bAt b 1) / 256 % 256 = bAt b 0 &&& 0b1111 := by omega
    rw [e1, u8_congr _ (bAt b 0) (by rw [hb.1, Nat.mod_eq_of_lt (bAt_lt _ _)]), u8_congr ((bAt b 0 &&& 0b1111) * 256 + bAt b 1) (bAt b 1) (by omega),
      enc16_be16 b 2 (by omega)]
    show [u8 (bAt b 0)] ++ [u8 (bAt b 1)] ++ sub b 2 2 = _
    rw [sub_one b 0 (by omega), sub_one b 1 (by omega), sub_glue b 0 1 1 1 2 rfl rfl,
      sub_glue b 0 2 2 2 4 rfl rfl, sub_zero]

example : Vlan.sampleMax.WF := by decide

end Vlan

/-! ## Linux cooked capture v1 (SLL) -/
namespace Sll
open EpModel.Codec.Sll

/-- no reserved bits. -/
def maskReserved (b : Bytes) : Bytes := b

theorem tryFrom_of_consistent (hrd : Nat) (p : SllProto) (hc : protoConsistent hrd p = true) :
    sllProtoTryFrom hrd p.val = .ok p := by
  cases p <;> simp [protoConsistent] at hc <;> simp [sllProtoTryFrom, SllProto.val, hc]
  · rcases hc with hc | hc <;> simp [hc]

theorem consistent_of_tryFrom (hrd v : Nat) (p : SllProto) (h : sllProtoTryFrom hrd v = .ok p) :
    protoConsistent hrd p = true ∧ p.val = v := by
  unfold sllProtoTryFrom at h
  repeat' split at h
  all_goals first | cases h | skip
  all_goals simp_all [protoConsistent, SllProto.val]

theorem toBytes_length (h : Sll) (hw : h.WF) : (toBytes h).length = 16 := by
  simp [toBytes, hw.2.2.2.1]

theorem encoders_agree (h : Sll) (hw : h.WF) :
    toBytes h = writeOut h ∧ writeToSlice h (headerLen h) = .ok (toBytes h, 0) ∧
      (toBytes h).length = headerLen h :=
  ⟨rfl, by simp [writeToSlice, headerLen], toBytes_length h hw⟩

theorem decode_encode (h : Sll) (tail : Bytes) (hw : h.WF) :
    fromSlice (toBytes h ++ tail) = .ok (h, tail) := by
  have hl := toBytes_length h hw
  unfold fromSlice
  rw [if_neg (by simp [hl]), drop_append_exact _ _ _ hl]
  obtain ⟨h1, h2, h3, h4, h5, h6⟩ := hw
  obtain ⟨pt, hrd, alen, addr, proto⟩ := h
  simp only at h1 h2 h3 h4 h5 h6
  have e0 : be16 (toBytes ⟨pt, hrd, alen, addr, proto⟩ ++ tail) 0 = pt := by
    simp [toBytes, be16_enc16, show pt < 65536 by omega]
  have e2 : be16 (toBytes ⟨pt, hrd, alen, addr, proto⟩ ++ tail) 2 = hrd := by
    simp [toBytes, be16_enc16, h2]
  have e4 : be16 (toBytes ⟨pt, hrd, alen, addr, proto⟩ ++ tail) 4 = alen := by
    simp [toBytes, be16_enc16, h3]
  have e6 : sub (toBytes ⟨pt, hrd, alen, addr, proto⟩ ++ tail) 6 8 = addr := by
    simp [toBytes, sub_append_exact, h4]
  have e14 : be16 (toBytes ⟨pt, hrd, alen, addr, proto⟩ ++ tail) 14 = proto.val := by
    simp [toBytes, be16_enc16, h5, be16_append_right, h4]
  rw [e0, e2, e4, e6, e14, tryFrom_of_consistent hrd proto h6]
  simp [ptypeTryFrom, h1]

theorem decode_wf (b rest : Bytes) (h : Sll) (hd : fromSlice b = .ok (h, rest)) :
    h.WF ∧ rest = b.drop (headerLen h) ∧ headerLen h ≤ b.length := by
  unfold fromSlice at hd
  split at hd
  · cases hd
  · split at hd
    · cases hd
    · rename_i pt hpt
      split at hd
      · cases hd
      · rename_i proto hproto
        cases hd
        have hc := consistent_of_tryFrom _ _ _ hproto
        unfold ptypeTryFrom at hpt
        split at hpt
        · cases hpt
          refine ⟨⟨by assumption, be16_lt _ _, be16_lt _ _, sub_length _ _ _ (by omega), ?_, hc.1⟩, rfl,
            by simp only [headerLen]; omega⟩
          rw [hc.2]; exact be16_lt _ _
        · cases hpt

theorem encode_decode (b rest : Bytes) (h : Sll) (hd : fromSlice b = .ok (h, rest)) :
    toBytes h = maskReserved (b.take (headerLen h)) ∧ fromSlice (toBytes h ++ rest) = .ok (h, rest) := by
  refine ⟨?_, decode_encode h rest (decode_wf b rest h hd).1⟩
  unfold fromSlice at hd
  split at hd
  · cases hd
  · split at hd
    · cases hd
    · rename_i pt hpt
      split at hd
      · cases hd
      · rename_i proto hproto
        cases hd
        have hc := consistent_of_tryFrom _ _ _ hproto
        unfold ptypeTryFrom at hpt
        split at hpt
        · cases hpt
          simp only [toBytes, maskReserved, headerLen, hc.2]
          rw [enc16_be16 b 0 (by omega), enc16_be16 b 2 (by omega), enc16_be16 b 4 (by omega),
            enc16_be16 b 14 (by omega), sub_glue b 0 2 2 2 4 rfl rfl, sub_glue b 0 4 4 2 6 rfl rfl,
            sub_glue b 0 6 6 8 14 rfl rfl, sub_glue b 0 14 14 2 16 rfl rfl, sub_zero]
        · cases hpt

example : Sll.sampleMax.WF := by decide
example : Sll.sampleEth.WF := by decide

end Sll

end EpModel.Props.C08Link
