import EpModel.Lemmas.CodecLinkBits
import EpModel.Model.Codec.LinkEth
import EpModel.Model.Codec.LinkArp
import EpModel.Model.Codec.TpUdpTcp
import EpModel.Model.Codec.TpIcmp
import EpModel.Model.Codec.TpIgmp
/-
  C08 (link layer, ARP and transport half) — every header value survives encode → decode
  unchanged.

  Per type `T` (model in EpModel/Model/Codec):
    `encoders_agree` : WF h → all serialisers of the crate produce the same bytes, of exactly
                       `headerLen h` bytes
    `decode_encode`  : WF h → fromSlice (toBytes h ++ tail) = ok (h, tail)
    `decode_wf`      : fromSlice b = ok (h, rest) → WF h ∧ rest = b.drop (headerLen h) ∧ headerLen h ≤ b.length
    `encode_decode`  : fromSlice b = ok (h, rest) →
                         toBytes h = maskReserved (b.take (headerLen h)) ∧
                         fromSlice (toBytes h ++ rest) = ok (h, rest)
  `maskReserved` is the explicit per-type table of the bits the format reserves or the type
  normalises.  Everything is universally quantified (all field values, all byte strings).
-/
namespace EpModel.Props.C08Link
open EpModel EpModel.Codec EpModel.Lemmas.Codec

/-! ## Ethernet II -/
namespace Eth2
open EpModel.Codec.Eth2

/-- Ethernet II has no reserved bits. -/
def maskReserved (b : Bytes) : Bytes := b

theorem toBytes_length (h : Eth2) (hw : h.WF) : (toBytes h).length = 14 := by
  obtain ⟨hd, hs, _⟩ := hw
  simp [toBytes, hd, hs]

theorem encoders_agree (h : Eth2) (hw : h.WF) :
    toBytes h = writeOut h ∧ writeToSlice h (headerLen h) = .ok (toBytes h, 0) ∧
      (toBytes h).length = headerLen h :=
  ⟨rfl, by simp [writeToSlice, headerLen], toBytes_length h hw⟩

theorem decode_encode (h : Eth2) (tail : Bytes) (hw : h.WF) :
    fromSlice (toBytes h ++ tail) = .ok (h, tail) := by
  have hl := toBytes_length h hw
  unfold fromSlice
  rw [if_neg (by simp [hl]), drop_append_exact _ _ _ hl]
  obtain ⟨hd, hs, he⟩ := hw
  obtain ⟨dst, src, et⟩ := h
  simp only at hd hs he
  simp [toBytes, hd, hs, he, sub_append_exact, sub_append_right, be16_append_right, be16_enc16]

theorem decode_wf (b rest : Bytes) (h : Eth2) (hd : fromSlice b = .ok (h, rest)) :
    h.WF ∧ rest = b.drop (headerLen h) ∧ headerLen h ≤ b.length := by
  unfold fromSlice at hd
  split at hd
  · cases hd
  · cases hd
    refine ⟨⟨?_, ?_, be16_lt _ _⟩, rfl, by simp only [headerLen]; omega⟩
    · exact sub_length _ _ _ (by omega)
    · exact sub_length _ _ _ (by omega)

theorem encode_decode (b rest : Bytes) (h : Eth2) (hd : fromSlice b = .ok (h, rest)) :
    toBytes h = maskReserved (b.take (headerLen h)) ∧ fromSlice (toBytes h ++ rest) = .ok (h, rest) := by
  refine ⟨?_, decode_encode h rest (decode_wf b rest h hd).1⟩
  unfold fromSlice at hd
  split at hd
  · cases hd
  · cases hd
    simp only [toBytes, maskReserved, headerLen]
    rw [enc16_be16 b 12 (by omega), sub_glue b 0 6 6 6 12 rfl rfl, sub_glue b 0 12 12 2 14 rfl rfl,
      sub_zero]

example : Eth2.sampleMax.WF := by decide

end Eth2

/-! ## UDP -/
namespace Udp
open EpModel.Codec.Udp

/-- UDP has no reserved bits. -/
def maskReserved (b : Bytes) : Bytes := b

theorem toBytes_length (h : Udp) : (toBytes h).length = 8 := by simp [toBytes]

theorem encoders_agree (h : Udp) (_hw : h.WF) :
    toBytes h = writeOut h ∧ (toBytes h).length = headerLen h :=
  ⟨rfl, toBytes_length h⟩

theorem decode_encode (h : Udp) (tail : Bytes) (hw : h.WF) :
    fromSlice (toBytes h ++ tail) = .ok (h, tail) := by
  have hl := toBytes_length h
  unfold fromSlice
  rw [if_neg (by simp [hl]), drop_append_exact _ _ _ hl]
  obtain ⟨h1, h2, h3, h4⟩ := hw
  obtain ⟨sp, dp, len, ck⟩ := h
  simp only at h1 h2 h3 h4
  simp [toBytes, h1, h2, h3, h4, be16_enc16]

theorem decode_wf (b rest : Bytes) (h : Udp) (hd : fromSlice b = .ok (h, rest)) :
    h.WF ∧ rest = b.drop (headerLen h) ∧ headerLen h ≤ b.length := by
  unfold fromSlice at hd
  split at hd
  · cases hd
  · cases hd
    exact ⟨⟨be16_lt _ _, be16_lt _ _, be16_lt _ _, be16_lt _ _⟩, rfl, by simp only [headerLen]; omega⟩

theorem encode_decode (b rest : Bytes) (h : Udp) (hd : fromSlice b = .ok (h, rest)) :
    toBytes h = maskReserved (b.take (headerLen h)) ∧ fromSlice (toBytes h ++ rest) = .ok (h, rest) := by
  refine ⟨?_, decode_encode h rest (decode_wf b rest h hd).1⟩
  unfold fromSlice at hd
  split at hd
  · cases hd
  · cases hd
    simp only [toBytes, maskReserved, headerLen]
    rw [enc16_be16 b 0 (by omega), enc16_be16 b 2 (by omega), enc16_be16 b 4 (by omega),
      enc16_be16 b 6 (by omega), sub_glue b 0 2 2 2 4 rfl rfl, sub_glue b 0 4 4 2 6 rfl rfl,
      sub_glue b 0 6 6 2 8 rfl rfl, sub_zero]

example : Udp.sampleMax.WF := by decide

end Udp

/-! ## IGMPv3 group record header -/
namespace IgmpRec
open EpModel.Codec.IgmpRec

/-- no reserved bits. -/
def maskReserved (b : Bytes) : Bytes := b

theorem toBytes_length (h : IgmpRec) (hw : h.WF) : (toBytes h).length = 8 := by
  simp [toBytes, hw.2.2.2]

theorem encoders_agree (h : IgmpRec) (hw : h.WF) : (toBytes h).length = headerLen h :=
  toBytes_length h hw

theorem decode_encode (h : IgmpRec) (tail : Bytes) (hw : h.WF) :
    fromSlice (toBytes h ++ tail) = .ok (h, tail) := by
  have hl := toBytes_length h hw
  unfold fromSlice
  rw [if_neg (by simp [hl]), drop_append_exact _ _ _ hl]
  obtain ⟨h1, h2, h3, h4⟩ := hw
  obtain ⟨rt, aux, n, addr⟩ := h
  simp only at h1 h2 h3 h4
  simp [toBytes, h3, h4, be16_enc16, sub_append_exact, Nat.mod_eq_of_lt h1, Nat.mod_eq_of_lt h2]

theorem decode_wf (b rest : Bytes) (h : IgmpRec) (hd : fromSlice b = .ok (h, rest)) :
    h.WF ∧ rest = b.drop (headerLen h) ∧ headerLen h ≤ b.length := by
  unfold fromSlice at hd
  split at hd
  · cases hd
  · cases hd
    exact ⟨⟨bAt_lt _ _, bAt_lt _ _, be16_lt _ _, sub_length _ _ _ (by omega)⟩, rfl,
      by simp only [headerLen]; omega⟩

theorem encode_decode (b rest : Bytes) (h : IgmpRec) (hd : fromSlice b = .ok (h, rest)) :
    toBytes h = maskReserved (b.take (headerLen h)) ∧ fromSlice (toBytes h ++ rest) = .ok (h, rest) := by
  refine ⟨?_, decode_encode h rest (decode_wf b rest h hd).1⟩
  unfold fromSlice at hd
  split at hd
  · cases hd
  · cases hd
    simp only [toBytes, maskReserved, headerLen]
    rw [enc16_be16 b 2 (by omega)]
    show [u8 (bAt b 0)] ++ [u8 (bAt b 1)] ++ sub b 2 2 ++ sub b 4 4 = _
    rw [sub_one b 0 (by omega), sub_one b 1 (by omega), sub_glue b 0 1 1 1 2 rfl rfl,
      sub_glue b 0 2 2 2 4 rfl rfl, sub_glue b 0 4 4 4 8 rfl rfl, sub_zero]

example : IgmpRec.sampleMax.WF := by decide

end IgmpRec

/-! ## 802.1Q single VLAN header -/
namespace Vlan
open EpModel.Codec.Vlan

/-- no reserved bits (pcp 3 + dei 1 + vid 12 + ether type 16). -/
def maskReserved (b : Bytes) : Bytes := b

theorem toBytes_length (h : Vlan) : (toBytes h).length = 4 := by simp [toBytes]

theorem encoders_agree (h : Vlan) (_hw : h.WF) :
    toBytes h = writeOut h ∧ (toBytes h).length = headerLen h :=
  ⟨rfl, toBytes_length h⟩

theorem decode_encode (h : Vlan) (tail : Bytes) (hw : h.WF) :
    fromSlice (toBytes h ++ tail) = .ok (h, tail) := by
  have hl := toBytes_length h
  unfold fromSlice
  rw [if_neg (by simp [hl]), drop_append_exact _ _ _ hl]
  obtain ⟨h1, h2, h3⟩ := hw
  obtain ⟨pcp, dei, vid, et⟩ := h
  simp only at h1 h2 h3
  have hb := vlan_b0_fwd pcp h1 (vid / 256) (by omega) dei
  have e : vid / 256 % 256 = vid / 256 := by omega
  simp only [toBytes, e, List.cons_append, List.nil_append, bAt_cons_zero, bAt_cons_succ, u8_toNat,
    be16_cons_succ]
  simp only at hb
  rw [hb.1, hb.2.1, hb.2.2, be16_enc16 _ _ h3]
  have : vid / 256 * 256 + vid % 256 = vid := by omega
  simp [this]

theorem decode_wf (b rest : Bytes) (h : Vlan) (hd : fromSlice b = .ok (h, rest)) :
    h.WF ∧ rest = b.drop (headerLen h) ∧ headerLen h ≤ b.length := by
  unfold fromSlice at hd
  split at hd
  · cases hd
  · cases hd
    have hb := vlan_b0_bwd (bAt b 0) (bAt_lt _ _)
    have := bAt_lt b 1
    refine ⟨⟨hb.2.1, ?_, be16_lt _ _⟩, rfl, by simp only [headerLen]; omega⟩
    have := hb.2.2
    simp only
    omega

theorem encode_decode (b rest : Bytes) (h : Vlan) (hd : fromSlice b = .ok (h, rest)) :
    toBytes h = maskReserved (b.take (headerLen h)) ∧ fromSlice (toBytes h ++ rest) = .ok (h, rest) := by
  refine ⟨?_, decode_encode h rest (decode_wf b rest h hd).1⟩
  unfold fromSlice at hd
  split at hd
  · cases hd
  · cases hd
    have hb := vlan_b0_bwd (bAt b 0) (bAt_lt _ _)
    have h1 := bAt_lt b 1
    have h16 := hb.2.2
    simp only [toBytes, maskReserved, headerLen]
    have e1 : ((bAt b 0 &&& 0b1111) * 256 + bAt b 1) / 256 % 256 = bAt b 0 &&& 0b1111 := by omega
    rw [e1, u8_congr _ (bAt b 0) (by rw [hb.1, Nat.mod_eq_of_lt (bAt_lt _ _)]), u8_congr ((bAt b 0 &&& 0b1111) * 256 + bAt b 1) (bAt b 1) (by omega),
      enc16_be16 b 2 (by omega)]
    show [u8 (bAt b 0)] ++ [u8 (bAt b 1)] ++ sub b 2 2 = _
    rw [sub_one b 0 (by omega), sub_one b 1 (by omega), sub_glue b 0 1 1 1 2 rfl rfl,
      sub_glue b 0 2 2 2 4 rfl rfl, sub_zero]

example : Vlan.sampleMax.WF := by decide

end Vlan

/-! ## Linux cooked capture v1 (SLL) -/
namespace Sll
open EpModel.Codec.Sll

/-- no reserved bits. -/
def maskReserved (b : Bytes) : Bytes := b

theorem tryFrom_of_consistent (hrd : Nat) (p : SllProto) (hc : protoConsistent hrd p = true) :
    sllProtoTryFrom hrd p.val = .ok p := by
  cases p <;> simp [protoConsistent] at hc <;> simp [sllProtoTryFrom, SllProto.val, hc]
  · rcases hc with hc | hc <;> simp [hc]

theorem consistent_of_tryFrom (hrd v : Nat) (p : SllProto) (h : sllProtoTryFrom hrd v = .ok p) :
    protoConsistent hrd p = true ∧ p.val = v := by
  unfold sllProtoTryFrom at h
  repeat' split at h
  all_goals first | cases h | skip
  all_goals simp_all [protoConsistent, SllProto.val]

theorem toBytes_length (h : Sll) (hw : h.WF) : (toBytes h).length = 16 := by
  simp [toBytes, hw.2.2.2.1]

theorem encoders_agree (h : Sll) (hw : h.WF) :
    toBytes h = writeOut h ∧ writeToSlice h (headerLen h) = .ok (toBytes h, 0) ∧
      (toBytes h).length = headerLen h :=
  ⟨rfl, by simp [writeToSlice, headerLen], toBytes_length h hw⟩

theorem decode_encode (h : Sll) (tail : Bytes) (hw : h.WF) :
    fromSlice (toBytes h ++ tail) = .ok (h, tail) := by
  have hl := toBytes_length h hw
  unfold fromSlice
  rw [if_neg (by simp [hl]), drop_append_exact _ _ _ hl]
  obtain ⟨h1, h2, h3, h4, h5, h6⟩ := hw
  obtain ⟨pt, hrd, alen, addr, proto⟩ := h
  simp only at h1 h2 h3 h4 h5 h6
  have e0 : be16 (toBytes ⟨pt, hrd, alen, addr, proto⟩ ++ tail) 0 = pt := by
    simp [toBytes, be16_enc16, show pt < 65536 by omega]
  have e2 : be16 (toBytes ⟨pt, hrd, alen, addr, proto⟩ ++ tail) 2 = hrd := by
    simp [toBytes, be16_enc16, h2]
  have e4 : be16 (toBytes ⟨pt, hrd, alen, addr, proto⟩ ++ tail) 4 = alen := by
    simp [toBytes, be16_enc16, h3]
  have e6 : sub (toBytes ⟨pt, hrd, alen, addr, proto⟩ ++ tail) 6 8 = addr := by
    simp [toBytes, sub_append_exact, h4]
  have e14 : be16 (toBytes ⟨pt, hrd, alen, addr, proto⟩ ++ tail) 14 = proto.val := by
    simp [toBytes, be16_enc16, h5, be16_append_right, h4]
  rw [e0, e2, e4, e6, e14, tryFrom_of_consistent hrd proto h6]
  simp [ptypeTryFrom, h1]

theorem decode_wf (b rest : Bytes) (h : Sll) (hd : fromSlice b = .ok (h, rest)) :
    h.WF ∧ rest = b.drop (headerLen h) ∧ headerLen h ≤ b.length := by
  unfold fromSlice at hd
  split at hd
  · cases hd
  · split at hd
    · cases hd
    · rename_i pt hpt
      split at hd
      · cases hd
      · rename_i proto hproto
        cases hd
        have hc := consistent_of_tryFrom _ _ _ hproto
        unfold ptypeTryFrom at hpt
        split at hpt
        · cases hpt
          refine ⟨⟨by assumption, be16_lt _ _, be16_lt _ _, sub_length _ _ _ (by omega), ?_, hc.1⟩, rfl,
            by simp only [headerLen]; omega⟩
          rw [hc.2]; exact be16_lt _ _
        · cases hpt

theorem encode_decode (b rest : Bytes) (h : Sll) (hd : fromSlice b = .ok (h, rest)) :
    toBytes h = maskReserved (b.take (headerLen h)) ∧ fromSlice (toBytes h ++ rest) = .ok (h, rest) := by
  refine ⟨?_, decode_encode h rest (decode_wf b rest h hd).1⟩
  unfold fromSlice at hd
  split at hd
  · cases hd
  · split at hd
    · cases hd
    · rename_i pt hpt
      split at hd
      · cases hd
      · rename_i proto hproto
        cases hd
        have hc := consistent_of_tryFrom _ _ _ hproto
        unfold ptypeTryFrom at hpt
        split at hpt
        · cases hpt
          simp only [toBytes, maskReserved, headerLen, hc.2]
          rw [enc16_be16 b 0 (by omega), enc16_be16 b 2 (by omega), enc16_be16 b 4 (by omega),
            enc16_be16 b 14 (by omega), sub_glue b 0 2 2 2 4 rfl rfl, sub_glue b 0 4 4 2 6 rfl rfl,
            sub_glue b 0 6 6 8 14 rfl rfl, sub_glue b 0 14 14 2 16 rfl rfl, sub_zero]
        · cases hpt

example : Sll.sampleMax.WF := by decide
example : Sll.sampleEth.WF := by decide

end Sll

/-! ## TCP -/
namespace Tcp
open EpModel.Codec.Tcp

theorem fixed_length (h : Tcp) : (fixed h).length = 20 := by simp [fixed]

theorem toBytes_eq (h : Tcp) : toBytes h = fixed h ++ h.opts.buf.take h.opts.len := by
  unfold toBytes headerLen
  rw [List.take_append, fixed_length, List.take_of_length_le (by rw [fixed_length]; omega)]
  congr 2; omega

theorem toBytes_length (h : Tcp) (hw : h.WF) : (toBytes h).length = 20 + h.opts.len := by
  obtain ⟨_, _, _, _, _, _, _, ho1, _, ho3, _⟩ := hw
  rw [toBytes_eq h]
  simp [fixed_length, ho3]; omega

theorem encoders_agree (h : Tcp) (hw : h.WF) :
    toBytes h = writeOut h ∧ (toBytes h).length = headerLen h := by
  refine ⟨?_, toBytes_length h hw⟩
  rw [toBytes_eq h]
  unfold writeOut TcpOpts.asSlice
  split
  · rename_i he
    simp only [List.isEmpty_iff] at he
    rw [he]
  · rfl

theorem toHeader_toBytes (h : Tcp) (tail : Bytes) (hw : h.WF) : toHeader (toBytes h ++ tail) = h := by
  have hfl := fixed_length h
  have heq := toBytes_eq h
  obtain ⟨h1, h2, h3, h4, h5, h6, h7, ho1, ho2, ho3, ho4⟩ := hw
  have hb12 := tcp_b12_fwd h.opts.len (by omega) ho2 h.ns
  have hb13 := tcp_b13_fwd h.fin h.syn h.rst h.psh h.ackf h.urg h.ece h.cwr
  have e12 : bAt (toBytes h ++ tail) 12 = (byte12 h) % 256 := by
    rw [heq]; simp [fixed]
  have e13 : bAt (toBytes h ++ tail) 13 = (byte13 h) % 256 := by
    rw [heq]; simp [fixed]
  have f2 : (byte12 h % 256 &&& 240) >>> 4 = 5 + h.opts.len / 4 := hb12.2.1
  have f3 : decide (byte12 h % 256 &&& 1 ≠ 0) = h.ns := hb12.2.2
  have g1 : decide (byte13 h % 256 &&& 1 ≠ 0) = h.fin := hb13.1
  have g2 : decide (byte13 h % 256 &&& 2 ≠ 0) = h.syn := hb13.2.1
  have g3 : decide (byte13 h % 256 &&& 4 ≠ 0) = h.rst := hb13.2.2.1
  have g4 : decide (byte13 h % 256 &&& 8 ≠ 0) = h.psh := hb13.2.2.2.1
  have g5 : decide (byte13 h % 256 &&& 16 ≠ 0) = h.ackf := hb13.2.2.2.2.1
  have g6 : decide (byte13 h % 256 &&& 32 ≠ 0) = h.urg := hb13.2.2.2.2.2.1
  have g7 : decide (byte13 h % 256 &&& 64 ≠ 0) = h.ece := hb13.2.2.2.2.2.2.1
  have g8 : decide (byte13 h % 256 &&& 128 ≠ 0) = h.cwr := hb13.2.2.2.2.2.2.2
  have e1 : (5 + h.opts.len / 4) * 4 - 20 = h.opts.len := by omega
  have htake : (h.opts.buf.take h.opts.len).length = h.opts.len := by simp [ho3]; omega
  have eo : sub (toBytes h ++ tail) 20 h.opts.len = h.opts.buf.take h.opts.len := by
    rw [heq, List.append_assoc, sub_append_right _ _ _ _ (by omega), hfl]
    simp only [Nat.sub_self]
    exact sub_append_exact _ _ _ htake
  have ebuf : h.opts.buf.take h.opts.len ++ zeros (40 - h.opts.len) = h.opts.buf := by
    rw [← ho4, List.take_append_drop]
  unfold toHeader
  simp only [e12, e13, f2, f3, g1, g2, g3, g4, g5, g6, g7, g8, e1, eo, htake, ebuf,
    Nat.mod_eq_of_lt (show h.opts.len < 256 by omega)]
  rw [heq]
  obtain ⟨sp, dp, seq, ack, ns, fin, syn, rst, psh, ackf, urg, ece, cwr, win, ck, urgp, opts⟩ := h
  simp only at h1 h2 h3 h4 h5 h6 h7
  simp [fixed, be16_enc16, be32_enc32, h1, h2, h3, h4, h5, h6, h7]

theorem decode_encode (h : Tcp) (tail : Bytes) (hw : h.WF) :
    fromSlice (toBytes h ++ tail) = .ok (h, tail) := by
  have hl := toBytes_length h hw
  have hth := toHeader_toBytes h tail hw
  obtain ⟨_, _, _, _, _, _, _, ho1, ho2, _, _⟩ := hw
  have hb12 := tcp_b12_fwd h.opts.len (by omega) ho2 h.ns
  have e12 : bAt (toBytes h ++ tail) 12 = (byte12 h) % 256 := by
    rw [toBytes_eq h]; simp [fixed]
  have f1 : (byte12 h % 256 &&& 240) >>> 2 = 20 + h.opts.len := hb12.1
  unfold fromSlice
  rw [if_neg (by rw [List.length_append, hl]; omega)]
  simp only [e12, f1]
  rw [if_neg (by omega), if_neg (by rw [List.length_append, hl]; omega), hth,
    drop_append_exact _ _ _ hl]

/-- the three reserved bits of byte 12 (between data offset and the ns flag) are dropped by the
    decoder and written as zero. -/
def maskReserved (b : Bytes) : Bytes := mapAt b 12 (· &&& 0xF1)

/-- what an accepting `fromSlice` tells about the input. -/
theorem fromSlice_ok (b rest : Bytes) (h : Tcp) (hd : fromSlice b = .ok (h, rest)) :
    20 ≤ b.length ∧ 20 ≤ (bAt b 12 &&& 0xf0) >>> 2 ∧ (bAt b 12 &&& 0xf0) >>> 2 ≤ b.length ∧
      h = toHeader b ∧ rest = b.drop ((bAt b 12 &&& 0xf0) >>> 2) := by
  unfold fromSlice at hd
  split at hd
  · cases hd
  · simp only at hd
    split at hd
    · cases hd
    · split at hd
      · cases hd
      · cases hd
        exact ⟨by omega, by omega, by omega, rfl, rfl⟩

theorem decode_wf (b rest : Bytes) (h : Tcp) (hd : fromSlice b = .ok (h, rest)) :
    h.WF ∧ rest = b.drop (headerLen h) ∧ headerLen h ≤ b.length := by
  obtain ⟨hb20, hl20, hlb, hh, hr⟩ := fromSlice_ok b rest h hd
  have hx := tcp_b12_bwd (bAt b 12) (bAt_lt _ _) hl20
  obtain ⟨-, hx2, hx3⟩ := hx
  have hol : (sub b 20 (((bAt b 12 &&& 0b1111_0000) >>> 4) * 4 - 20)).length =
      ((bAt b 12 &&& 0b1111_0000) >>> 4) * 4 - 20 := sub_length _ _ _ (by omega)
  have hlen : h.opts.len = (bAt b 12 &&& 0xf0) >>> 2 - 20 := by
    rw [hh]; simp only [toHeader]; rw [hol]; omega
  have hhl : headerLen h = (bAt b 12 &&& 0xf0) >>> 2 := by unfold headerLen; omega
  refine ⟨?_, by rw [hhl]; exact hr, by rw [hhl]; exact hlb⟩
  rw [hh]
  refine ⟨be16_lt _ _, be16_lt _ _, be32_lt _ _, be32_lt _ _, be16_lt _ _, be16_lt _ _, be16_lt _ _, ?_⟩
  simp only [toHeader, TcpOpts.WF]
  rw [hol]
  refine ⟨by omega, by omega, ?_, ?_⟩
  · simp [hol, zeros]; omega
  · rw [Nat.mod_eq_of_lt (by omega), drop_append_exact _ _ _ hol]

theorem encode_decode_bytes (b rest : Bytes) (h : Tcp) (hd : fromSlice b = .ok (h, rest)) :
    toBytes h = maskReserved (b.take (headerLen h)) := by
  obtain ⟨hb20, hl20, hlb, hh, hr⟩ := fromSlice_ok b rest h hd
  have hx := tcp_b12_bwd (bAt b 12) (bAt_lt _ _) hl20
  obtain ⟨hx1, hx2, hx3⟩ := hx
  have hy := tcp_b13_bwd (bAt b 13) (bAt_lt _ _)
  have hol : (sub b 20 (((bAt b 12 &&& 0b1111_0000) >>> 4) * 4 - 20)).length =
      ((bAt b 12 &&& 0b1111_0000) >>> 4) * 4 - 20 := sub_length _ _ _ (by omega)
  have hlen : h.opts.len = (bAt b 12 &&& 0xf0) >>> 2 - 20 := by
    rw [hh]; simp only [toHeader]; rw [hol]; omega
  have hhl : headerLen h = (bAt b 12 &&& 0xf0) >>> 2 := by unfold headerLen; omega
  generalize hHL : (bAt b 12 &&& 0xf0) >>> 2 = HL at *
  -- right hand side
  have hrhs : maskReserved (b.take HL) =
      sub b 0 12 ++ [u8 (bAt b 12 &&& 0xF1)] ++ sub b 13 (HL - 13) := by
    unfold maskReserved mapAt
    have e1 : (b.take HL).take 12 = sub b 0 12 := by
      rw [List.take_take, sub_zero]; congr 1; omega
    have e2 : (b.take HL).drop 12 = b[12]'(by omega) :: sub b 13 (HL - 13) := by
      rw [List.drop_take, List.drop_eq_getElem_cons (by omega : 12 < b.length)]
      have : HL - 12 = (HL - 13) + 1 := by omega
      rw [this, List.take_succ_cons]; rfl
    rw [e1, e2]
    simp only [List.append_assoc, List.cons_append, List.nil_append]
    congr 3
    simp [bAt, List.getD, List.getElem?_eq_getElem (by omega : 12 < b.length)]
  have hD : ((bAt b 12 &&& 0b1111_0000) >>> 4) * 4 - 20 = HL - 20 := by omega
  have k12 : byte12 h % 256 = bAt b 12 &&& 0xF1 := by
    rw [hh]; simp only [byte12, toHeader, TcpOpts.dataOffset, hol]; exact hx1
  have k13 : byte13 h = bAt b 13 := by rw [hh]; exact hy
  have hand : (bAt b 12 &&& 0xF1) % 256 = bAt b 12 &&& 0xF1 :=
    Nat.mod_eq_of_lt (by have := @Nat.and_le_right (bAt b 12) 0xF1; omega)
  have eopts : h.opts.buf.take h.opts.len = sub b 20 (HL - 20) := by
    rw [hh]; simp only [toHeader]
    rw [hol, hD, Nat.mod_eq_of_lt (by omega), ← sub_zero, sub_append_exact _ _ _ (by rw [← hD]; exact hol)]
  rw [hhl, hrhs, toBytes_eq h, eopts]
  unfold fixed
  rw [u8_congr h.byte12 (bAt b 12 &&& 0xF1) (by rw [k12, hand]), k13, hh]
  simp only [toHeader]
  rw [enc16_be16 b 0 (by omega), enc16_be16 b 2 (by omega), enc32_be32 b 4 (by omega),
    enc32_be32 b 8 (by omega), enc16_be16 b 14 (by omega), enc16_be16 b 16 (by omega),
    enc16_be16 b 18 (by omega), sub_glue b 0 2 2 2 4 rfl rfl, sub_glue b 0 4 4 4 8 rfl rfl,
    sub_glue b 0 8 8 4 12 rfl rfl]
  show sub b 0 12 ++ ([u8 (bAt b 12 &&& 0xF1)] ++ [u8 (bAt b 13)]) ++ sub b 14 2 ++ sub b 16 2 ++ sub b 18 2 ++
    sub b 20 (HL - 20) = _
  rw [sub_one b 13 (by omega)]
  simp only [List.append_assoc]
  rw [sub_glue b 18 2 20 (HL - 20) (HL - 18) rfl (by omega), sub_glue b 16 2 18 (HL - 18) (HL - 16) rfl (by omega),
    sub_glue b 14 2 16 (HL - 16) (HL - 14) rfl (by omega), sub_glue b 13 1 14 (HL - 14) (HL - 13) rfl (by omega)]


theorem encode_decode (b rest : Bytes) (h : Tcp) (hd : fromSlice b = .ok (h, rest)) :
    toBytes h = maskReserved (b.take (headerLen h)) ∧ fromSlice (toBytes h ++ rest) = .ok (h, rest) :=
  ⟨encode_decode_bytes b rest h hd, decode_encode h rest (decode_wf b rest h hd).1⟩

example : Tcp.sampleMax.WF := by decide

end Tcp

/-! ## IGMP -/
namespace Igmp
open EpModel.Codec.Igmp

/-- byte 1 is unused / reserved (written as zero, ignored by the decoder) in the IGMPv1 and IGMPv2
    membership reports, the leave group message and the IGMPv3 membership report. -/
def maskReserved (b : Bytes) : Bytes :=
  if bAt b 0 = 0x12 ∨ bAt b 0 = 0x16 ∨ bAt b 0 = 0x17 ∨ bAt b 0 = 0x22 then zeroRange b 1 1 else b

theorem sub_all (g : Bytes) (n : Nat) (h : g.length = n) : sub g 0 n = g := by
  rw [sub_zero, List.take_of_length_le (by omega)]

theorem eight_length (t b1 ck : Nat) (b47 : Bytes) (h : b47.length = 4) : (eight t b1 ck b47).length = 8 := by
  simp [eight, h, zeros]

theorem eight_eq (t b1 ck : Nat) (b47 : Bytes) (h : b47.length = 4) :
    eight t b1 ck b47 = [u8 t, u8 b1] ++ enc16 ck ++ b47 := by
  unfold eight
  have hl : ([u8 t, u8 b1] ++ enc16 ck ++ b47).length = 8 := by simp [h]
  rw [List.take_append, List.take_of_length_le (by omega), hl]
  simp

theorem encoders_agree (h : Igmp) (hw : h.WF) : (toBytes h).length = headerLen h := by
  obtain ⟨ty, ck⟩ := h
  obtain ⟨ht, _⟩ := hw
  cases ty <;> simp only [IgmpType.WF] at ht <;> simp [toBytes, headerLen, eight_length, ht]

/-- a value decodes back; the 8 byte IGMPv1/v2 membership query only when nothing follows it
    (with 4 or more following bytes the decoder reads an IGMPv3 query, by design of the format). -/
theorem decode_encode (h : Igmp) (tail : Bytes) (hw : h.WF)
    (hq : ∀ m g, h.ty = .membershipQuery m g → tail = []) :
    fromSlice (toBytes h ++ tail) = .ok (h, tail) := by
  obtain ⟨ty, ck⟩ := h
  obtain ⟨ht, hck⟩ := hw
  simp only at hck
  cases ty with
  | membershipQuery m g =>
    simp only [IgmpType.WF] at ht
    have := hq m g rfl
    subst this
    simp [fromSlice, toBytes, eight_eq, ht, be16_enc16, hck, sub_append_exact, Nat.mod_eq_of_lt ht.1,
      sub_all]
  | membershipQueryWithSources m g r q n =>
    simp only [IgmpType.WF] at ht
    obtain ⟨h1, h2, h3, h4, h5⟩ := ht
    simp [fromSlice, toBytes, be16_enc16, hck, h2, h5, sub_append_exact, Nat.mod_eq_of_lt h1,
      Nat.mod_eq_of_lt h3, Nat.mod_eq_of_lt h4, be16_append_right, drop_append_right]
    rw [if_neg (by omega), if_neg (by omega), if_pos (by omega), bAt_append_right _ _ _ (by omega),
      bAt_append_right _ _ _ (by omega), h2]
    simp [Nat.mod_eq_of_lt h3, Nat.mod_eq_of_lt h4]
  | membershipReportV1 g =>
    simp only [IgmpType.WF] at ht
    simp [fromSlice, toBytes, eight_eq, ht, be16_enc16, hck, sub_append_exact]
    omega
  | membershipReportV2 g =>
    simp only [IgmpType.WF] at ht
    simp [fromSlice, toBytes, eight_eq, ht, be16_enc16, hck, sub_append_exact]
    omega
  | membershipReportV3 f n =>
    simp only [IgmpType.WF] at ht
    simp [fromSlice, toBytes, eight_eq, ht, be16_enc16, hck, sub_append_exact, be16_append_right]
    rw [if_neg (by omega), drop_append_right _ _ _ (by omega), ht.1]
    simp
  | leaveGroup g =>
    simp only [IgmpType.WF] at ht
    simp [fromSlice, toBytes, eight_eq, ht, be16_enc16, hck, sub_append_exact]
    omega
  | unknown t r raw =>
    simp only [IgmpType.WF] at ht
    obtain ⟨h1, h2, h3, h4⟩ := ht
    simp [typedType] at h4
    simp [fromSlice, toBytes, eight_eq, h3, h4, be16_enc16, hck, sub_append_exact, Nat.mod_eq_of_lt h1,
      Nat.mod_eq_of_lt h2]
    omega


/-- full statement of the re-encoding direction for IGMP; not proved yet (the correspondence runs
    and the implementation-side oracle cover it on every explored input). -/
def encode_decode_full_statement : Prop :=
  ∀ (b rest : Bytes) (h : Igmp), fromSlice b = .ok (h, rest) →
    toBytes h = maskReserved (b.take (headerLen h)) ∧ fromSlice (toBytes h ++ rest) = .ok (h, rest)

example : Igmp.sampleMax.WF := by decide
example : Igmp.sampleUnknown.WF := by decide
example : Igmp.sampleV3.WF := by decide

end Igmp

/-! ## ARP (Ethernet / IPv4 form) -/
namespace ArpEth
open EpModel.Codec.ArpEth

/-- no reserved bits. -/
def maskReserved (b : Bytes) : Bytes := b

/-- the two serialisation paths (`to_bytes` and `to_arp_packet().to_bytes()`) agree. -/
theorem encoders_agree (h : ArpEth) (hw : h.WF) :
    toBytes h = writeOut h ∧ (toBytes h).length = headerLen h := by
  obtain ⟨h0, h1, h2, h3, h4⟩ := hw
  constructor
  · simp [toBytes, writeOut, toArp, Arp.toBytes, Arp.hwSize, Arp.protoSize, h1, h2, h3, h4,
      List.take_of_length_le]
    exact ⟨rfl, rfl⟩
  · simp [toBytes, headerLen, h1, h2, h3, h4]

def decode_encode_full_statement : Prop :=
  ∀ (h : ArpEth) (tail : Bytes), h.WF → fromSlice (toBytes h ++ tail) = .ok (h, tail)
def encode_decode_full_statement : Prop :=
  ∀ (b rest : Bytes) (h : ArpEth), fromSlice b = .ok (h, rest) →
    toBytes h = maskReserved (b.take (headerLen h)) ∧ fromSlice (toBytes h ++ rest) = .ok (h, rest)

example : ArpEth.sampleMax.WF := by decide

end ArpEth

/-! ## ARP, MACsec, ICMPv4, ICMPv6: modelled and tied to the code by the correspondence runs;
    round-trip theorems stated, not proved yet.  `write` is `write_all(&self.to_bytes())` in the
    crate for all four, so `toBytes = writeOut` holds by definition of the model. -/
namespace Arp
open EpModel.Codec.Arp
/-- no reserved bits. -/
def maskReserved (b : Bytes) : Bytes := b
theorem encoders_agree_write (h : Arp) : toBytes h = writeOut h := rfl
def decode_encode_full_statement : Prop :=
  ∀ (h : Arp) (tail : Bytes), h.WF → fromSlice (toBytes h ++ tail) = .ok (h, tail)
def encode_decode_full_statement : Prop :=
  ∀ (b rest : Bytes) (h : Arp), fromSlice b = .ok (h, rest) →
    toBytes h = maskReserved (b.take (headerLen h)) ∧ fromSlice (toBytes h ++ rest) = .ok (h, rest)
example : Arp.sampleMax.WF := by
  refine ⟨by decide, by decide, by decide, ?_, ?_, ?_, ?_⟩ <;> simp only [Arp.sampleMax, List.length_replicate] <;> omega
example : Arp.sampleEmpty.WF := by decide
example : fromSlice (toBytes Arp.sampleEmpty ++ [7]) = .ok (Arp.sampleEmpty, [7]) := by rfl
end Arp

namespace Macsec
open EpModel.Codec.Macsec
/-- the two upper bits of the short length byte are reserved (written as zero, ignored). -/
def maskReserved (b : Bytes) : Bytes := mapAt b 1 (· &&& 0x3F)
theorem encoders_agree_write (h : Macsec) : toBytes h = writeOut h := rfl
def decode_encode_full_statement : Prop :=
  ∀ (h : Macsec) (tail : Bytes), h.WF → fromSlice (toBytes h ++ tail) = .ok (h, tail)
def encode_decode_full_statement : Prop :=
  ∀ (b rest : Bytes) (h : Macsec), fromSlice b = .ok (h, rest) →
    toBytes h = maskReserved (b.take (headerLen h)) ∧ fromSlice (toBytes h ++ rest) = .ok (h, rest)
example : Macsec.sampleMax.WF := by decide
example : Macsec.sampleEnc.WF := by decide
example : fromSlice (toBytes Macsec.sampleMax ++ [1, 2]) = .ok (Macsec.sampleMax, [1, 2]) := by rfl
example : fromSlice (toBytes Macsec.sampleEnc ++ [1, 2]) = .ok (Macsec.sampleEnc, [1, 2]) := by rfl
end Macsec

namespace Icmp4
open EpModel.Codec.Icmp4
/-- unused bytes 5–8 of the typed variants that carry no field there (RFC 792 / RFC 1191). -/
def maskReserved (b : Bytes) : Bytes :=
  let t := bAt b 0
  let c := bAt b 1
  if t = 3 ∧ c ≤ 15 then (if c = 4 then zeroRange b 4 2 else zeroRange b 4 4)
  else if t = 11 ∧ c ≤ 1 then zeroRange b 4 4
  else if t = 12 ∧ c ≤ 2 then (if c = 0 then zeroRange b 5 3 else zeroRange b 4 4)
  else b
theorem encoders_agree_write (h : Icmp4) : toBytes h = writeOut h := rfl
/-- timestamp messages are accepted only as exactly 20 bytes, hence `tail = []` for them. -/
def decode_encode_full_statement : Prop :=
  ∀ (h : Icmp4) (tail : Bytes), h.WF → (headerLen h = 20 → tail = []) →
    fromSlice (toBytes h ++ tail) = .ok (h, tail)
def encode_decode_full_statement : Prop :=
  ∀ (b rest : Bytes) (h : Icmp4), fromSlice b = .ok (h, rest) →
    toBytes h = maskReserved (b.take (headerLen h)) ∧ fromSlice (toBytes h ++ rest) = .ok (h, rest)
example : Icmp4.sampleMax.WF := by decide
example : Icmp4.sampleUnknown.WF := by decide
example : Icmp4.sampleFrag.WF := by decide
example : fromSlice (toBytes Icmp4.sampleMax) = .ok (Icmp4.sampleMax, []) := by rfl
example : fromSlice (toBytes Icmp4.sampleFrag ++ [9]) = .ok (Icmp4.sampleFrag, [9]) := by rfl
end Icmp4

namespace Icmp6
open EpModel.Codec.Icmp6
/-- unused / reserved parts of bytes 5–8 of the typed variants (RFC 4443, RFC 4861). -/
def maskReserved (b : Bytes) : Bytes :=
  let t := bAt b 0
  let c := bAt b 1
  if (t = 1 ∧ c ≤ 6) ∨ (t = 3 ∧ c ≤ 1) ∨ (c = 0 ∧ (t = 133 ∨ t = 135 ∨ t = 137)) then zeroRange b 4 4
  else if t = 134 ∧ c = 0 then mapAt b 5 (· &&& 0xC0)
  else if t = 136 ∧ c = 0 then zeroRange (mapAt b 4 (· &&& 0xE0)) 5 3
  else b
theorem encoders_agree_write (h : Icmp6) : toBytes h = writeOut h := rfl
/-- slices longer than `u32::MAX` are rejected by the decoder. -/
def decode_encode_full_statement : Prop :=
  ∀ (h : Icmp6) (tail : Bytes), h.WF → 8 + tail.length ≤ 4294967295 →
    fromSlice (toBytes h ++ tail) = .ok (h, tail)
def encode_decode_full_statement : Prop :=
  ∀ (b rest : Bytes) (h : Icmp6), fromSlice b = .ok (h, rest) →
    toBytes h = maskReserved (b.take (headerLen h)) ∧ fromSlice (toBytes h ++ rest) = .ok (h, rest)
example : Icmp6.sampleMax.WF := by decide
example : Icmp6.sampleRa.WF := by decide
example : Icmp6.sampleUnknown.WF := by decide
example : fromSlice (toBytes Icmp6.sampleRa ++ [9]) = .ok (Icmp6.sampleRa, [9]) := by rfl
end Icmp6

end EpModel.Props.C08Link
