import EpModel.Lemmas.DecWithinHeaders
/-
  C01 — decoding arbitrary bytes never touches memory outside the given slice.

  What is proved here (for every memory `g`, every input length `n`, no size bound):
  * `*_within`: every slice handed back by the 14 whole-packet entry points and the 9 IP boundary
    implementations lies inside the input window `(0, n)`, and is at least as long as the fixed part
    its type's unchecked accessors read (Ethernet II 14, SLL 16, VLAN 4, MACsec 6, ARP 8, UDP 8,
    TCP 20 ≤ header length ≤ slice, ICMP 8).
  * `ext_iter_never_leaves_slice*`: the unchecked re-walk `Ipv6ExtensionSliceIter` never reaches an
    out-of-range access on the extension slice of any (strict or lax) slice-mode result — the
    statement that was false before the repair recorded as F1.
  What a pure model cannot exhibit (that the compiled code performs only the modelled accesses;
  placement independence) is validated at run time by the check (guard pages, debug UB checks).
-/
namespace EpModel.Props.C01
open EpModel EpModel.Dec EpModel.Lemmas.Dec

/-! ### every sub-slice handed back lies inside the input -/

theorem sliced_ethernet_within (g : Mem) (n : Nat) (p : Packet) (h : slicedFromEthernet g n = .ok p) :
    PacketIn p 0 n := slicedFromEthernet_in g n p h
theorem sliced_linux_sll_within (g : Mem) (n : Nat) (p : Packet) (h : slicedFromLinuxSll g n = .ok p) :
    PacketIn p 0 n := slicedFromLinuxSll_in g n p h
theorem sliced_ether_type_within (g : Mem) (et n : Nat) (p : Packet)
    (h : slicedFromEtherType g et n = .ok p) : PacketIn p 0 n := slicedFromEtherType_in g et n p h
theorem sliced_ip_within (g : Mem) (n : Nat) (p : Packet) (h : slicedFromIp g n = .ok p) :
    PacketIn p 0 n := slicedFromIp_in g n p h

theorem lax_sliced_ethernet_within (g : Mem) (n : Nat) (p : Packet)
    (h : laxSlicedFromEthernet g n = .ok p) : PacketIn p 0 n := laxSlicedFromEthernet_in g n p h
theorem lax_sliced_ether_type_within (g : Mem) (et n : Nat) :
    PacketIn (laxSlicedFromEtherType g et n) 0 n := laxSlicedFromEtherType_in g et n
theorem lax_sliced_ip_within (g : Mem) (n : Nat) (p : Packet) (h : laxSlicedFromIp g n = .ok p) :
    PacketIn p 0 n := laxSlicedFromIp_in g n p h

theorem headers_ethernet_within (g : Mem) (n : Nat) (x : Headers) (h : phFromEthernet g n = .ok x) :
    HeadersIn x 0 n := phFromEthernet_in g n x h
theorem headers_ether_type_within (g : Mem) (et n : Nat) (x : Headers)
    (h : phFromEtherType g et 0 n = .ok x) : HeadersIn x 0 n := phFromEtherType_in g et 0 n x h
theorem headers_ip_within (g : Mem) (n : Nat) (x : Headers) (h : phFromIp g n = .ok x) :
    HeadersIn x 0 n := phFromIp_in g n x h

theorem lax_headers_ethernet_within (g : Mem) (n : Nat) (x : Headers) (h : lphFromEthernet g n = .ok x) :
    HeadersIn x 0 n := lphFromEthernet_in g n x h
theorem lax_headers_linux_sll_within (g : Mem) (n : Nat) (x : Headers)
    (h : lphFromLinuxSll g n = .ok x) : HeadersIn x 0 n := lphFromLinuxSll_in g n x h
theorem lax_headers_ether_type_within (g : Mem) (et n : Nat) :
    HeadersIn (lphFromEtherType g et 0 n) 0 n := lphFromEtherType_in g et 0 n
theorem lax_headers_ip_within (g : Mem) (n : Nat) (x : Headers) (h : lphFromIp g n = .ok x) :
    HeadersIn x 0 n := lphFromIp_in g n x h

/-- the IP boundary implementations, for any window `(o, l)` of the memory -/
theorem ip_boundaries_within (g : Mem) (o l : Nat) :
    (∀ r, ipSliceFromSlice g o l = .ok r → IpIn r o l) ∧
    (∀ r, ipv4SliceFromSlice g o l = .ok r → IpIn r o l) ∧
    (∀ r, ipv6SliceFromSlice g o l = .ok r → IpIn r o l) ∧
    (∀ r st, laxIpSliceFromSlice g o l = .ok (r, st) → IpIn r o l) ∧
    (∀ r, ipHeadersFromSlice g o l = .ok r → IpIn r o l) ∧
    (∀ r st, ipHeadersFromSliceLax g o l = .ok (r, st) → IpIn r o l) ∧
    (∀ r, ipHeadersFromIpv4Slice g o l = .ok r → IpIn r o l) ∧
    (∀ r, ipHeadersFromIpv6Slice g o l = .ok r → IpIn r o l) :=
  ⟨ipSlice_in g o l, ipv4Slice_in g o l, ipv6Slice_in g o l, laxIpSlice_in g o l, ipHeaders_in g o l,
    ipHeadersLax_in g o l, ipHeadersV4_in g o l, ipHeadersV6_in g o l⟩

/-- single-layer slices -/
theorem single_layers_within (g : Mem) (o l : Nat) :
    (∀ w, udpFromSlice g o l = .ok w → WIn w o l ∧ 8 ≤ w.l) ∧
    (∀ w, udpFromSliceLax g o l = .ok w → WIn w o l ∧ 8 ≤ w.l) ∧
    (∀ hl, tcpFromSlice g o l = .ok hl → 20 ≤ hl ∧ hl ≤ l) ∧
    (∀ w, icmp4FromSlice g o l = .ok w → w = ⟨o, l⟩ ∧ 8 ≤ l) ∧
    (∀ w, icmp6FromSlice o l = .ok w → w = ⟨o, l⟩ ∧ 8 ≤ l) ∧
    (∀ w, arpFromSlice g o l = .ok w → WIn w o l ∧ 8 ≤ w.l) ∧
    (∀ x, macsecFromSlice g o l = .ok x → ExtIn x o l) ∧
    (∀ x, laxMacsecFromSlice g o l = .ok x → ExtIn x o l) ∧
    (∀ hl, ipv4HeaderFromSlice g o l = .ok hl → 20 ≤ hl ∧ hl ≤ l ∧ hl = (g o % 16) * 4) ∧
    (∀ al, ahFromSlice g o l = .ok al → 12 ≤ al ∧ al ≤ l ∧ al = (g (o + 1) + 2) * 4) :=
  ⟨udp_in g o l, udpLax_in g o l, tcp_ok g o l, icmp4_in g o l, icmp6_in o l, arp_in g o l,
    macsec_in g o l, laxMacsec_in g o l, ipv4Header_ok g o l, ah_ok g o l⟩

/-- the ARP accessors (`sender_hw_addr` … `target_protocol_addr`) read `8 + 2·hlen + 2·plen` bytes:
    exactly the slice that `from_slice` keeps -/
theorem arp_slice_covers_addresses (g : Mem) (o l : Nat) (w : Win) (h : arpFromSlice g o l = .ok w) :
    w.l = 8 + g (o + 4) * 2 + g (o + 5) * 2 ∧ w.o = o ∧ w.l ≤ l := by
  unfold arpFromSlice at h
  split at h
  · contradiction
  · simp only at h
    split at h
    · contradiction
    · cases h; simp; omega

/-- the MACsec header accessors read byte 14/15 (ether type behind an SCI) or 6..13 (SCI) only if
    the header slice is that long -/
theorem macsec_header_covers_accessors (g : Mem) (o l hl : Nat) (h : macsecHeaderFromSlice g o l = .ok hl) :
    hl ≤ l ∧ (macsecSciPresent (g o) = true → 14 ≤ hl) ∧
      (macsecUnmodified (g o) = true → macsecSciPresent (g o) = true → hl = 16) ∧
      (macsecUnmodified (g o) = true → macsecSciPresent (g o) = false → hl = 8) := by
  have hb := macsecHeader_ok g o l hl h
  rw [hb.1]
  refine ⟨by omega, ?_, ?_, ?_⟩ <;> intros <;> simp_all [macsecHeaderLen]

/-! ### the unchecked re-walk iterator -/

/-- for every memory, start number and slice: the extension slice a slice-mode walk (strict or
    lax — a lax walk may stop early) produces is re-walked by `Ipv6ExtensionSliceIter` without an
    out-of-range access. -/
theorem ext_iter_never_leaves_slice (g : Mem) (nh o l : Nat) :
    ∃ xs, extIterAll g ((extsFirst nh l (extsWalk g false nh o l)).getD 17) o
      (l - (extsWalk g false nh o l).rest.l) = .ok xs :=
  extIter_safe_walk g nh o l

/-- the same for the IPv6 results of the lax IP decoders (`LaxIpSlice`, `LaxIpv6Slice`) -/
theorem ext_iter_never_leaves_slice_lax_ipv6 (g : Mem) (o l : Nat) :
    ∃ xs, extIterAll g ((ipv6AfterHeaderLax g false o l).1.first.getD 17)
      (ipv6AfterHeaderLax g false o l).1.exts.o (ipv6AfterHeaderLax g false o l).1.exts.l = .ok xs := by
  unfold ipv6AfterHeaderLax
  simp only [mkV6]
  exact extIter_safe_walk g _ _ _

/-- … and for IPv4 results (empty extension slice) -/
theorem ext_iter_trivial_ipv4 (g : Mem) (o hl : Nat) (auth : Option Win) (pl : IpPl) :
    extIterAll g ((mkV4 o hl auth pl).first.getD 17) (mkV4 o hl auth pl).exts.o (mkV4 o hl auth pl).exts.l
      = .ok [] := by
  simp [mkV4, noExts, extIterAll_zero]

/-! non-vacuity: a concrete Ethernet II / IPv4 / UDP packet is accepted and its windows are inside -/
example :
    (slicedFromEthernet (memOf [0,1,2,3,4,5, 6,7,8,9,10,11, 8,0, 0x45,0,0,28, 0,1,0,0, 64,17,0,0,
      10,0,0,1, 10,0,0,2, 0,1,0,2,0,8,0,0]) 42).toOption.isSome = true := by decide

end EpModel.Props.C01
