import EpModel.Lemmas.TcpOptions
/-
  C13 — TCP options encode and decode faithfully; iteration is bounded.

  Model: EpModel.Model.TcpOptions (tcp_options.rs `try_from_elements` / `try_from_slice`,
  tcp_options_iterator.rs `next`).  Spec: EpModel.Spec.TcpOptions (wire formats of RFC 9293 / 7323 /
  2018, `normSack`, value ranges `WF`, truthful errors `ErrAt`).
  All statements quantify over every element list / every byte string; no size bound.
  `iterate b` are the items a loop over the iterator sees until the first `None`, `endState b` is
  the iterator state after that `None`, `next` is one call.
-/
namespace EpModel.Props.C13
open EpModel EpModel.TcpOptions EpModel.Spec.TcpOpt EpModel.Lemmas.TcpOptions

/-- lists that do not fit are rejected with the required size (no range hypothesis needed). -/
theorem too_big (es : List Elem) (h : 40 < size es) :
    encode es = .err (.notEnoughSpace (size es)) := by
  unfold encode
  simp [h]

/-- `required_len` is the sum of the wire lengths. -/
theorem size_is_wire_length (es : List Elem) : size es = (wireAll es).length := size_eq es

/-- lists that fit are encoded (no slice-index panic), the result is the concatenated wire forms
    followed by fewer than four END bytes; its length is a multiple of four, at most 40, and is
    the required size rounded up. -/
theorem encode_len (es : List Elem) (h : size es ≤ 40) :
    ∃ pad, pad < 4 ∧ encode es = .ok (wireAll es ++ List.replicate pad 0) ∧
      (wireAll es ++ List.replicate pad 0).length % 4 = 0 ∧
      (wireAll es ++ List.replicate pad 0).length ≤ 40 ∧
      (wireAll es ++ List.replicate pad 0).length = (size es + 3) / 4 * 4 := by
  have hp := padLen_spec (size es)
  refine ⟨padLen (size es) - size es, by omega, encode_fits es h, ?_, ?_, ?_⟩ <;>
    (simp only [List.length_append, List.length_replicate, ← size_eq]; omega)

/-- the encoder never takes the panic branch. -/
theorem encode_total (es : List Elem) : encode es ≠ .panic := by
  by_cases h : size es ≤ 40
  · rw [encode_fits es h]; intro hc; cases hc
  · rw [too_big es (by omega)]; intro hc; cases hc

/-- encode then iterate: for every list of in-range elements that fits, iterating the encoding
    yields exactly the elements with the `None` holes of SACK compacted (`normSack`), all `Ok`, and
    then nothing: what follows the elements is only END padding (`pad < 4` zero bytes), on which
    the iterator stops.  `normSack` does not change the wire form. -/
theorem encode_iter (es : List Elem) (hwf : ∀ e ∈ es, WF e) (h : size es ≤ 40) :
    ∃ pad, pad < 4 ∧ encode es = .ok (wireAll es ++ List.replicate pad 0) ∧
      iterate (wireAll es ++ List.replicate pad 0) = (es.map normSack).map .ok ∧
      endState (wireAll es ++ List.replicate pad 0) = [] ∧
      wireAll (es.map normSack) = wireAll es := by
  have hp := padLen_spec (size es)
  refine ⟨padLen (size es) - size es, by omega, encode_fits es h, ?_, ?_, ?_⟩
  · rw [iterate_wireAll es _ hwf, iterate_zeros]; simp
  · obtain ⟨_, _, _, _, hend, _⟩ := run_spec (wireAll es ++ List.replicate (padLen (size es) - size es) 0)
    exact hend
  · unfold wireAll
    rw [List.map_map]
    congr 1
    apply List.map_congr_left
    intro e _
    exact wire_normSack e

/-- elements without holes come back unchanged. -/
theorem normSack_fixed (e : Elem) :
    (∀ f r0 r1 r2, e = .sack f r0 r1 r2 → (r0 = none → r1 = none) ∧ (r1 = none → r2 = none)) →
      normSack e = e := by
  intro h
  cases e with
  | sack f r0 r1 r2 =>
    have := h f r0 r1 r2 rfl
    cases r0 <;> cases r1 <;> cases r2 <;> simp_all [normSack, present]
  | _ => rfl

/-- one call of `next` on an arbitrary byte string `b`:
    * `None` only on the empty slice or on an END byte, and the state is exhausted afterwards;
    * an `Ok` element is in range, has no holes, and its wire form followed by the new state is `b`;
    * an error describes the real kind byte / length byte / remaining length (`ErrAt`), and the
      state is exhausted afterwards. -/
theorem step_spec (b : Bytes) :
    match next b with
    | (none, s) => s = [] ∧ (b = [] ∨ (0 < b.length ∧ bAt b 0 = 0))
    | (some (.ok e), rest) => b = wire e ++ rest ∧ WF e ∧ normSack e = e
    | (some (.error err), s) => s = [] ∧ ErrAt err b :=
  next_spec b

/-- completeness of one call: whenever the slice starts with the wire form of an in-range element,
    `next` yields that element (holes compacted) and the state is what follows it — a well-formed
    option is never reported as an error, whatever comes behind it. -/
theorem step_complete (e : Elem) (t : Bytes) (h : WF e) :
    next (wire e ++ t) = (some (.ok (normSack e)), t) :=
  next_wire e t h

/-- the tiling is unique: a byte string starts with the wire form of at most one in-range element
    without holes, so "the elements that tile a prefix" are determined by the bytes. -/
theorem wire_unique (e e' : Elem) (t t' : Bytes) (h : WF e) (h' : WF e')
    (hn : normSack e = e) (hn' : normSack e' = e') (heq : wire e ++ t = wire e' ++ t') :
    e = e' ∧ t = t' := by
  have h1 := next_wire e t h
  have h2 := next_wire e' t' h'
  rw [heq, h2, hn, hn'] at h1
  injection h1 with ha hb
  injection ha with ha
  injection ha with ha
  exact ⟨ha.symm, hb.symm⟩

/-- tiling: for EVERY byte string `b` there are elements `els` and a rest such that
    `b = wire(els) ++ rest`; the iterator yields exactly `els` (all `Ok`, in range, without holes) and
    then either stops because the rest is empty or starts with END, or yields one error — as its
    last item — that truthfully describes the start of the rest (kind byte, length byte, remaining
    length); afterwards the state is the empty slice. -/
theorem iter_tiles (b : Bytes) :
    ∃ (els : List Elem) (rest : Bytes),
      b = wireAll els ++ rest ∧ (∀ e ∈ els, WF e ∧ normSack e = e) ∧ endState b = [] ∧
        ((iterate b = els.map .ok ∧ (rest = [] ∨ (0 < rest.length ∧ bAt rest 0 = 0))) ∨
          (∃ err, iterate b = els.map .ok ++ [.error err] ∧ ErrAt err rest)) :=
  run_spec b

/-- exhaustion: after END / the end of the slice / an error the state is the empty slice, and
    on the empty slice `next` returns `None` and stays there, any number of times. -/
theorem iter_exhausted (b : Bytes) :
    endState b = [] ∧
      (∀ s, next b = (none, s) → s = []) ∧
      (∀ e s, next b = (some (.error e), s) → s = []) ∧
      (∀ n : Nat, Nat.repeat (fun st => (next st).2) n [] = [] ∧ (next []).1 = none) := by
  have hs := next_spec b
  refine ⟨?_, ?_, ?_, ?_⟩
  · obtain ⟨_, _, _, _, hend, _⟩ := run_spec b; exact hend
  · intro s h; rw [h] at hs; exact hs.1
  · intro e s h; rw [h] at hs; exact hs.1
  · intro n
    refine ⟨?_, by simp [next_nil]⟩
    induction n with
    | zero => rfl
    | succ n ih => simp [Nat.repeat, ih, next_nil]

/-- bound: every `Some` step strictly shrinks the remaining slice, hence the number of yielded
    items is at most the length of the area. -/
theorem iter_bound (b : Bytes) :
    (iterate b).length ≤ b.length ∧
      (∀ r s, next b = (some r, s) → s.length < b.length) :=
  ⟨iterate_length_aux b.length b rfl, fun r s h => next_shrinks b r s h⟩

/-- `try_from_slice` (`set_options_raw`): areas longer than 40 bytes are rejected with their
    length. -/
theorem raw_too_big (s : Bytes) (h : 40 < s.length) :
    fromSlice s = .err (.notEnoughSpace s.length) := by
  unfold fromSlice; simp [h]

/-- areas that fit are stored unchanged, followed by fewer than four zero (END) bytes up to the
    next multiple of four. -/
theorem raw_pad (s : Bytes) (h : s.length ≤ 40) :
    ∃ pad, pad < 4 ∧ fromSlice s = .ok (s ++ List.replicate pad 0) ∧ (s.length + pad) % 4 = 0 ∧
      s.length + pad ≤ 40 :=
  ⟨(s.length + 3) / 4 * 4 - s.length, by omega, fromSlice_fits s h, by omega, by omega⟩

/-! non-vacuity: the hypotheses are the value ranges of the Rust types and the 40 byte limit. -/
example : (∀ e ∈ [Elem.mss 1400, .noop, .ws 7, .sackPerm, .sack (1, 2) none (some (3, 4)) none, .ts 1 4294967295],
    WF e) := by decide
example : size [Elem.mss 1400, .noop, .ws 7, .sackPerm, .sack (1, 2) none (some (3, 4)) none, .ts 1 2] = 38 := by
  decide
example : 40 < size [Elem.ts 1 2, .ts 1 2, .ts 1 2, .ts 1 2, .noop] := by decide
example : normSack (.sack (1, 2) none (some (3, 4)) none) = .sack (1, 2) (some (3, 4)) none none := by
  decide
example : encode [Elem.mss 1400, .noop, .sack (1, 2) none (some (3, 4)) none] =
    .ok [2, 4, 5, 120, 1, 5, 18, 0, 0, 0, 1, 0, 0, 0, 2, 0, 0, 0, 3, 0, 0, 0, 4, 0] := by decide
example : next [2, 4, 5, 120, 1] = (some (.ok (.mss 1400)), [1]) := by rfl
example : next [2, 4, 5] = (some (.error (.eos 2 4 3)), []) := by rfl
example : ErrAt (.eos 2 4 3) [2, 4, 5] := by decide

end EpModel.Props.C13
