import EpModel.Lemmas.Checksum
import EpModel.Lemmas.ChecksumWire
/-
  C09 — checksums equal the RFC 1071 Internet checksum.

  Model: EpModel.Model.Checksum (checksum.rs).  Spec: EpModel.Spec.Rfc1071.
  All statements quantify over every byte string / accumulator state; no size bound.
-/
namespace EpModel.Props.C09
open EpModel EpModel.Spec EpModel.Checksum EpModel.Lemmas.Checksum

/-- 64 bit accumulator: adding a slice to any state keeps the state below 2^64 (no lost carry) and
    adds exactly the little endian words of the slice modulo 65535; the state is zero only if
    nothing non-zero was ever added. -/
theorem acc64_invariant (s : Nat) (b : Bytes) (hs : s < 2 ^ 64) :
    addSlice64 s b < 2 ^ 64 ∧ addSlice64 s b % 65535 = (s + leWords b) % 65535 ∧
      (addSlice64 s b = 0 ↔ s + leWords b = 0) :=
  let h := addSlice64_cls s b hs
  ⟨h.2, h.1.1, h.1.2⟩

/-- the same for the 32 bit accumulator. -/
theorem acc32_invariant (s : Nat) (b : Bytes) (hs : s < 2 ^ 32) :
    addSlice32 s b < 2 ^ 32 ∧ addSlice32 s b % 65535 = (s + leWords b) % 65535 ∧
      (addSlice32 s b = 0 ↔ s + leWords b = 0) :=
  let h := addSlice32_cls s b hs
  ⟨h.2, h.1.1, h.1.2⟩

/-- the fixed-size adders (add_2bytes / add_4bytes / add_8bytes) are end-around-carry additions. -/
theorem adders64 (s : Nat) (v : Bytes) (hs : s < 2 ^ 64) (hv : v.length ≤ 8) :
    addCarry 64 s (leVal v) < 2 ^ 64 ∧ addCarry 64 s (leVal v) % 65535 = (s + leVal v) % 65535 := by
  have hl := leVal_lt v
  have : (256:Nat) ^ v.length ≤ 256 ^ 8 := Nat.pow_le_pow_right (by omega) hv
  have h := addCarry64_cls s (leVal v) hs (by omega)
  exact ⟨h.2, h.1.1⟩

/-- ones_complement of the 64 bit accumulator folds the sum correctly for every state. -/
theorem fold64 (s : Nat) (hs : s < 2 ^ 64) : onesComplement64 s = 65535 - fold16 s :=
  onesComplement64_eq s hs

theorem fold32 (s : Nat) (hs : s < 2 ^ 32) : onesComplement32 s = 65535 - fold16 s :=
  onesComplement32_eq s hs

/-- main statement: for every byte string, the value the crate transmits
    (`ones_complement().to_be()` of the accumulated slice) is the RFC 1071 checksum. -/
theorem checksum_eq_rfc (b : Bytes) :
    swap16 (onesComplement64 (addSlice64 0 b)) = Spec.checksum b := by
  have h := addSlice64_cls 0 b (by omega)
  rw [onesComplement64_eq _ h.2, swap16_compl _ (fold16_le _), swap16_fold]
  unfold Spec.checksum
  rw [ocSum_eq_fold]
  congr 1
  apply fold16_congr
  have h1 : Cls (addSlice64 0 b) (leWords b) := by simpa using h.1
  exact (Cls.mul256 h1).trans (leWords_beWords b)

/-- 32 bit and 64 bit accumulators give the same result. -/
theorem acc32_eq_acc64 (b : Bytes) :
    onesComplement32 (addSlice32 0 b) = onesComplement64 (addSlice64 0 b) := by
  have h := addSlice64_cls 0 b (by omega)
  have h' := addSlice32_cls 0 b (by omega)
  rw [onesComplement64_eq _ h.2, onesComplement32_eq _ h'.2]
  congr 1
  exact fold16_congr (h'.1.trans h.1.symm)

/-- splitting the data at any even offset into two successive additions changes nothing,
    from any accumulator state. -/
theorem split_even (s : Nat) (b : Bytes) (k : Nat) (hs : s < 2 ^ 64) (hk : k % 2 = 0) :
    onesComplement64 (addSlice64 (addSlice64 s (b.take k)) (b.drop k)) =
      onesComplement64 (addSlice64 s b) := by
  have h1 := addSlice64_cls s (b.take k) hs
  have h2 := addSlice64_cls (addSlice64 s (b.take k)) (b.drop k) h1.2
  have h := addSlice64_cls s b hs
  rw [onesComplement64_eq _ h2.2, onesComplement64_eq _ h.2]
  congr 1
  apply fold16_congr
  by_cases hkl : k ≤ b.length
  · have hl : (b.take k).length % 2 = 0 := by simp; omega
    have hsplit : leWords b = leWords (b.take k) + leWords (b.drop k) := by
      rw [← leWords_append_even _ _ hl, List.take_append_drop]
    refine (h2.1.trans ?_).trans h.1.symm
    rw [hsplit, ← Nat.add_assoc]
    exact Cls.add h1.1 (Cls.refl _)
  · have e1 : b.take k = b := List.take_of_length_le (by omega)
    have e2 : b.drop k = [] := List.drop_of_length_le (by omega)
    rw [e1, e2, addSlice64_nil]
    exact Cls.refl _

/-- the same for any number of successive parts of even length (`Sum16BitWords::add_slice` chain). -/
theorem parts_even (parts : List Bytes) (last : Bytes) (h : ∀ p ∈ parts, p.length % 2 = 0) :
    swap16 (onesComplement64 ((parts ++ [last]).foldl addSlice64 0)) =
      Spec.checksum (parts.flatten ++ last) := by
  suffices hgen : ∀ (ps : List Bytes) (s acc : Nat), s < 2 ^ 64 → (∀ p ∈ ps, p.length % 2 = 0) →
      Cls s acc → Cls ((ps ++ [last]).foldl addSlice64 s) (acc + leWords (ps.flatten ++ last)) ∧
        (ps ++ [last]).foldl addSlice64 s < 2 ^ 64 by
    have hg := hgen parts 0 0 (by omega) h (Cls.refl 0)
    rw [onesComplement64_eq _ hg.2, swap16_compl _ (fold16_le _), swap16_fold]
    unfold Spec.checksum
    rw [ocSum_eq_fold]
    congr 1
    apply fold16_congr
    have h1 : Cls ((parts ++ [last]).foldl addSlice64 0) (leWords (parts.flatten ++ last)) := by
      simpa using hg.1
    exact (Cls.mul256 h1).trans (leWords_beWords _)
  intro ps
  induction ps with
  | nil =>
    intro s acc hs _ hc
    have := addSlice64_cls s last hs
    simp only [List.nil_append, List.foldl_cons, List.foldl_nil, List.flatten_nil]
    exact ⟨this.1.trans (Cls.add hc (Cls.refl _)), this.2⟩
  | cons p ps ih =>
    intro s acc hs hev hc
    have hp := addSlice64_cls s p hs
    have hpe : p.length % 2 = 0 := hev p (by simp)
    have := ih (addSlice64 s p) (acc + leWords p) hp.2 (fun q hq => hev q (by simp [hq]))
      (hp.1.trans (Cls.add hc (Cls.refl _)))
    simp only [List.cons_append, List.foldl_cons, List.flatten_cons, List.append_assoc]
    rw [leWords_append_even _ _ hpe, ← Nat.add_assoc]
    exact this

/-- the "no zero" variant (used for UDP) never yields 0 and otherwise equals the checksum. -/
theorem no_zero (s : Nat) :
    onesComplementNoZero64 s ≠ 0 ∧
      (onesComplement64 s ≠ 0 → onesComplementNoZero64 s = onesComplement64 s) ∧
      (onesComplement64 s = 0 → onesComplementNoZero64 s = 65535) := by
  unfold onesComplementNoZero64 noZero
  split <;> simp_all

/-- a message whose checksum field holds the RFC checksum of the rest sums to 0xffff, i.e. the
    checksum recomputed over the complete message is 0; stated on the folded sums. -/
theorem valid_sum (x c : Nat) (hc : c = 65535 - fold16 x) : fold16 (x + c) = 65535 := by
  subst hc
  unfold fold16
  by_cases hx : x = 0
  · subst hx; simp
  · simp only [hx, if_false]
    split <;> omega

/-! non-vacuity: the only hypotheses used above are range facts of machine integers, e.g. -/
example : (0 : Nat) < 2 ^ 64 ∧ (2 ^ 64 - 1 : Nat) < 2 ^ 64 ∧ (4 : Nat) % 2 = 0 := by omega


/-! ### `Sum16BitWords` methods, stored checksums, validation -/

/-- every `Sum16BitWords` method (`add_2bytes`, `add_4bytes`, `add_8bytes`, `add_16bytes`) is `add_slice`
    of the same bytes, from every accumulator state (including a saturated 64 bit accumulator) -/
theorem sum16_methods_are_add_slice (s : Nat) (v : Bytes) : s16Method s v = addSlice64 s v :=
  s16Method_eq s v

theorem s16_chain_rfc (parts : List Bytes) (last : Bytes) (h : ∀ p ∈ parts, p.length % 2 = 0) :
    swap16 (onesComplement64 ((parts ++ [last]).foldl s16Method 0)) = Spec.checksum (parts.flatten ++ last) := by
  have : s16Method = addSlice64 := by funext s v; exact s16Method_eq s v
  rw [this]
  exact parts_even parts last h

/-- a message whose checksum field (at an even offset) holds the RFC checksum of the message with a
    zeroed field verifies: the checksum over everything is 0 -/
theorem stored_checksum_verifies (pre post : Bytes) (hi lo : UInt8) (hpre : pre.length % 2 = 0)
    (h : hi.toNat * 256 + lo.toNat = Spec.checksum (pre ++ [0, 0] ++ post)) :
    Spec.checksum (pre ++ [hi, lo] ++ post) = 0 := by
  rw [checksum_zero_iff]
  have e1 : beWords (pre ++ [hi, lo] ++ post) = beWords pre + (hi.toNat * 256 + lo.toNat) + beWords post := by
    rw [List.append_assoc, beWords_append_even _ _ hpre]
    simp only [List.cons_append, List.nil_append, beWords]
    omega
  have e0 : beWords (pre ++ [0, 0] ++ post) = beWords pre + beWords post := by
    rw [List.append_assoc, beWords_append_even _ _ hpre]
    simp [beWords]
  rw [e1, h]
  unfold Spec.checksum
  rw [ocSum_eq_fold, e0]
  have := valid_sum (beWords pre + beWords post) (65535 - fold16 (beWords pre + beWords post)) rfl
  rw [← this]
  congr 1
  omega

/-- `Icmpv6Slice::is_checksum_valid` (as modelled by `validIcmp6`) accepts exactly the messages whose
    complete sum, pseudo header included, folds to 0xffff -/
theorem icmp6_valid_iff (src dst m : Bytes) :
    validIcmp6 src dst m = true ↔ fold16 (beWords (pseudo6 src dst 58 m.length ++ m)) = 65535 := by
  unfold validIcmp6
  simp only [decide_eq_true_eq]
  exact checksum_zero_iff _

end EpModel.Props.C09
