import EpModel.Lemmas.HeadersShift
import EpModel.Lemmas.SpecShiftEntry
/-
  C06, struct decoders: starting at an Ethernet II header equals starting at its ether type on the bytes
  behind the header, shifted by 14 - for `PacketHeaders` and `LaxPacketHeaders`.

  There is no wire-format refinement for the struct-decoding model (Model/Dec/Headers.lean), so this is
  proved directly on the model (Lemmas/HeadersShift.lean): every function the two struct decoders call
  (`vlanFromSlice`, `macsecFromSlice` / `laxMacsecFromSlice`, `macsecNextEtherType`, `arpFromSlice`,
  `ipHeadersFromIpv4Slice` / `ipHeadersFromIpv6Slice` / `ipHeadersFromSliceLax` with the IPv4 boundary + AH
  and the IPv6 boundary + the extension walk `extsLoop` in struct mode, `readTransport`, `lphTransport`, the
  UDP / TCP / ICMP slices) commutes with moving the memory and the start offset by `k`: windows in the
  result move by `k`, errors do not change (each error offset of these decoders is a difference of two
  positions inside the slice handed in).  Hence `phFromEtherType_sh`, `lphFromEtherType_sh`, and since the
  model of `from_ethernet_slice` / `from_ethernet` is "14-byte check, then the ether-type start at offset
  14 of the same memory, `+ 14` on length-error offsets, link := Ethernet II header", the results below
  are EQUATIONS between the two doors (stronger than the slicing theorems of Props/C06.lean, which go
  through a relational refinement): the same verdict, the same error value up to `+ 14` on the offset
  of a length error, the same headers and payload with every window moved by 14.

  `ethOfEtherTypeHeaders r`  = `.error (lenAddOff 14 e)` for `r = .error e`,
                               `.ok { p := (shPacket 14 h.p).setLink (.eth2 ⟨0, 14⟩), pay := shPay 14 h.pay }` for `r = .ok h`;
  `laxEthOfEtherTypeHeaders h` = `{ p := (stopAddOff 14 (shPacket 14 h.p)).setLink (.eth2 ⟨0, 14⟩), pay := shPay 14 h.pay }`
  (Lemmas/HeadersShift.lean; `shPacket`, `shExt`, `shNet`, `shTp` of Lemmas/SpecShift.lean move every window).
-/
namespace EpModel.Props.C06
open EpModel EpModel.Dec EpModel.Spec EpModel.Lemmas.HeadersShift

section HeadersEthernetVsEtherType
open EpModel.Lemmas.ShiftEntry

/-! ### placement independence of the ether-type start (any offset) -/

/-- `PacketHeaders::from_ether_type` on the bytes from position `k` on (`b[k..]`) is
    `PacketHeaders::from_ether_type` at offset `k` of `b`, every window moved by `k`; errors are equal
    (their offsets count from the start of the slice handed in). -/
theorem headers_ether_type_start_placement_independent (b : Bytes) (et k l : Nat) :
    phFromEtherType (memOf b) et k l = exMap (shHeaders k) (phFromEtherType (memOf (b.drop k)) et 0 l) := by
  rw [memOf_drop_eq]
  exact phFromEtherType_sh k (memOf b) (shM k (memOf b)) (fun _ => rfl) et 0 l

/-- … and `LaxPacketHeaders::from_ether_type` (stop error included) -/
theorem lax_headers_ether_type_start_placement_independent (b : Bytes) (et k l : Nat) :
    lphFromEtherType (memOf b) et k l = shHeaders k (lphFromEtherType (memOf (b.drop k)) et 0 l) := by
  rw [memOf_drop_eq]
  exact lphFromEtherType_sh k (memOf b) (shM k (memOf b)) (fun _ => rfl) et 0 l

/-! ### PacketHeaders -/

/-- **`PacketHeaders::from_ethernet_slice(b)` against `PacketHeaders::from_ether_type(ether type of b, b[14..])`**,
    for every byte string of at least 14 bytes, as one equation: the Ethernet II door returns what the
    ether-type door returns on the bytes behind the header, with every window (headers and payload)
    moved by 14, the offset of a length error moved by exactly 14 (content errors unchanged) and the
    link set to the Ethernet II header. -/
theorem headers_ethernet_start_equals_ether_type_start (b : Bytes) (h14 : 14 ≤ b.length) :
    phFromEthernet (memOf b) b.length =
      ethOfEtherTypeHeaders (phFromEtherType (memOf (b.drop 14)) (g16 (memOf b) 12) 0 (b.drop 14).length) := by
  rw [memOf_drop_eq, List.length_drop]
  exact phFromEthernet_eq (memOf b) b.length h14

/-- (i) the two doors accept the same byte strings -/
theorem headers_ethernet_start_ok_iff_ether_type_start_ok (b : Bytes) (h14 : 14 ≤ b.length) :
    (phFromEthernet (memOf b) b.length).isOk =
      (phFromEtherType (memOf (b.drop 14)) (g16 (memOf b) 12) 0 (b.drop 14).length).isOk := by
  rw [headers_ethernet_start_equals_ether_type_start b h14]
  cases phFromEtherType (memOf (b.drop 14)) (g16 (memOf b) 12) 0 (b.drop 14).length <;> rfl

/-- (ii) on success: the Ethernet II header as link, the same link extensions, network and transport
    headers and the same payload with every window moved by 14 -/
theorem headers_ethernet_start_packet_is_ether_type_start_packet_shifted (b : Bytes) (h14 : 14 ≤ b.length)
    (q : Headers)
    (hq : phFromEtherType (memOf (b.drop 14)) (g16 (memOf b) 12) 0 (b.drop 14).length = .ok q) :
    phFromEthernet (memOf b) b.length =
      .ok { p := { link := some (.eth2 ⟨0, 14⟩), exts := q.p.exts.map (shExt 14), net := q.p.net.map (shNet 14),
                   tp := q.p.tp.map (shTp 14), stop := q.p.stop },
            pay := shPay 14 q.pay } := by
  rw [headers_ethernet_start_equals_ether_type_start b h14, hq]
  rfl

/-- … and every success of the Ethernet II door arises that way -/
theorem headers_ethernet_start_packet_from_ether_type_start_packet (b : Bytes) (h14 : 14 ≤ b.length)
    (p : Headers) (hp : phFromEthernet (memOf b) b.length = .ok p) :
    ∃ q, phFromEtherType (memOf (b.drop 14)) (g16 (memOf b) 12) 0 (b.drop 14).length = .ok q ∧
      p.p.link = some (.eth2 ⟨0, 14⟩) ∧ p.p.exts = q.p.exts.map (shExt 14) ∧ p.p.net = q.p.net.map (shNet 14) ∧
      p.p.tp = q.p.tp.map (shTp 14) ∧ p.p.stop = q.p.stop ∧ p.pay = shPay 14 q.pay := by
  rw [headers_ethernet_start_equals_ether_type_start b h14] at hp
  cases hq : phFromEtherType (memOf (b.drop 14)) (g16 (memOf b) 12) 0 (b.drop 14).length with
  | error e => rw [hq] at hp; cases hp
  | ok q =>
    rw [hq] at hp
    cases hp
    exact ⟨q, rfl, rfl, rfl, rfl, rfl, rfl, rfl⟩

/-- (iii) length errors: the Ethernet II door fails with the length error `le` exactly when the
    ether-type door fails with the same length error 14 bytes earlier (same `required_len`, `len`,
    `len_source`, `layer`; `layer_start_offset` larger by exactly 14) -/
theorem headers_ethernet_start_len_error_is_ether_type_start_len_error_shifted (b : Bytes) (h14 : 14 ≤ b.length)
    (le : LenError) :
    phFromEthernet (memOf b) b.length = .error (.len le) ↔
      ∃ le', phFromEtherType (memOf (b.drop 14)) (g16 (memOf b) 12) 0 (b.drop 14).length = .error (.len le') ∧
        le = { req := le'.req, len := le'.len, src := le'.src, layer := le'.layer, off := le'.off + 14 } := by
  rw [headers_ethernet_start_equals_ether_type_start b h14]
  cases phFromEtherType (memOf (b.drop 14)) (g16 (memOf b) 12) 0 (b.drop 14).length with
  | ok q => simp [ethOfEtherTypeHeaders]
  | error e =>
    cases e <;> simp [ethOfEtherTypeHeaders, lenAddOff, LenError.addOffset]
    exact eq_comm

/-- (iv) content errors: the Ethernet II door fails with a content error exactly when the ether-type
    door fails with the same content error -/
theorem headers_ethernet_start_content_error_is_ether_type_start_content_error (b : Bytes) (h14 : 14 ≤ b.length)
    (e : PErr) (hne : ∀ le, e ≠ .len le) :
    phFromEthernet (memOf b) b.length = .error e ↔
      phFromEtherType (memOf (b.drop 14)) (g16 (memOf b) 12) 0 (b.drop 14).length = .error e := by
  rw [headers_ethernet_start_equals_ether_type_start b h14]
  cases phFromEtherType (memOf (b.drop 14)) (g16 (memOf b) 12) 0 (b.drop 14).length with
  | ok q => simp [ethOfEtherTypeHeaders]
  | error e' =>
    cases e' with
    | len le' =>
      simp only [ethOfEtherTypeHeaders, lenAddOff]
      constructor
      · intro h; cases h; exact absurd rfl (hne _)
      · intro h; cases h; exact absurd rfl (hne _)
    | _ => simp [ethOfEtherTypeHeaders, lenAddOff]

/-- `PacketHeaders::from_ether_type` itself reports no link layer -/
theorem headers_ether_type_start_has_no_link (b : Bytes) (et : Nat) (q : Headers)
    (hq : phFromEtherType (memOf b) et 0 b.length = .ok q) : q.p.link = none :=
  phFromEtherType_link (memOf b) et 0 b.length q hq

/-! ### LaxPacketHeaders -/

/-- **`LaxPacketHeaders::from_ethernet(b)` against `LaxPacketHeaders::from_ether_type(ether type of b, b[14..])`**,
    for every byte string of at least 14 bytes, as one equation: `from_ethernet` returns a value, namely
    what the ether-type door returns on the bytes behind the header with every window (headers and
    payload) moved by 14, the offset of a length stop error moved by exactly 14 (content stop errors and
    the stop layer unchanged) and the link set to the Ethernet II header. -/
theorem lax_headers_ethernet_start_equals_ether_type_start (b : Bytes) (h14 : 14 ≤ b.length) :
    lphFromEthernet (memOf b) b.length =
      .ok (laxEthOfEtherTypeHeaders
        (lphFromEtherType (memOf (b.drop 14)) (g16 (memOf b) 12) 0 (b.drop 14).length)) := by
  rw [memOf_drop_eq, List.length_drop]
  exact lphFromEthernet_eq (memOf b) b.length h14

/-- the layers and the payload: the same with every window moved by 14 -/
theorem lax_headers_ethernet_start_packet_is_ether_type_start_packet_shifted (b : Bytes) (h14 : 14 ≤ b.length) :
    ∃ m, lphFromEthernet (memOf b) b.length = .ok m ∧
      m.p.link = some (.eth2 ⟨0, 14⟩) ∧
      m.p.exts = (lphFromEtherType (memOf (b.drop 14)) (g16 (memOf b) 12) 0 (b.drop 14).length).p.exts.map (shExt 14) ∧
      m.p.net = (lphFromEtherType (memOf (b.drop 14)) (g16 (memOf b) 12) 0 (b.drop 14).length).p.net.map (shNet 14) ∧
      m.p.tp = (lphFromEtherType (memOf (b.drop 14)) (g16 (memOf b) 12) 0 (b.drop 14).length).p.tp.map (shTp 14) ∧
      m.pay = shPay 14 (lphFromEtherType (memOf (b.drop 14)) (g16 (memOf b) 12) 0 (b.drop 14).length).pay := by
  refine ⟨_, lax_headers_ethernet_start_equals_ether_type_start b h14, ?_⟩
  generalize lphFromEtherType (memOf (b.drop 14)) (g16 (memOf b) 12) 0 (b.drop 14).length = q
  unfold laxEthOfEtherTypeHeaders stopAddOff
  split <;> exact ⟨rfl, rfl, rfl, rfl, rfl⟩

/-- the stop error: none iff none; a length stop error is the same error with its offset moved by
    exactly 14, at the same layer; a content stop error is the same error at the same layer -/
theorem lax_headers_ethernet_start_stop_is_ether_type_start_stop_shifted (b : Bytes) (h14 : 14 ≤ b.length)
    (m : Headers) (hm : lphFromEthernet (memOf b) b.length = .ok m) :
    m.p.stop =
      match (lphFromEtherType (memOf (b.drop 14)) (g16 (memOf b) 12) 0 (b.drop 14).length).p.stop with
      | none => none
      | some (.len le', ly) =>
        some (.len { req := le'.req, len := le'.len, src := le'.src, layer := le'.layer, off := le'.off + 14 }, ly)
      | some (e, ly) => some (e, ly) := by
  rw [lax_headers_ethernet_start_equals_ether_type_start b h14] at hm
  cases hm
  generalize lphFromEtherType (memOf (b.drop 14)) (g16 (memOf b) 12) 0 (b.drop 14).length = q
  unfold laxEthOfEtherTypeHeaders stopAddOff
  rw [show (shPacket 14 q.p).stop = q.p.stop from rfl]
  rcases hs : q.p.stop with _ | ⟨e, ly⟩
  · simp [Packet.setLink, shPacket, hs]
  · cases e <;> simp [Packet.setLink, shPacket, hs, LenError.addOffset]

/-- `LaxPacketHeaders::from_ether_type` itself reports no link layer -/
theorem lax_headers_ether_type_start_has_no_link (b : Bytes) (et : Nat) :
    (lphFromEtherType (memOf b) et 0 b.length).p.link = none :=
  lphFromEtherType_link (memOf b) et 0 b.length

/-! ### fewer than 14 bytes -/

/-- fewer than 14 bytes: both Ethernet II doors fail at the Ethernet II header (there is no ether type
    to start from) -/
theorem headers_ethernet_start_short (b : Bytes) (h : b.length < 14) :
    phFromEthernet (memOf b) b.length =
        .error (.len { req := 14, len := b.length, src := .slice, layer := .ethernet2Header, off := 0 }) ∧
      lphFromEthernet (memOf b) b.length =
        .error { req := 14, len := b.length, src := .slice, layer := .ethernet2Header, off := 0 } :=
  ⟨phFromEthernet_short (memOf b) b.length h, lphFromEthernet_short (memOf b) b.length h⟩

/-! ### the hypotheses are satisfiable, the success and the failure cases are inhabited

  An Ethernet II frame with one VLAN tag, an IPv4 header and a UDP datagram of 4 payload bytes (50 bytes);
  the same frame cut after 40 bytes (IPv4 total length no longer fits: strict length error at offset 18
  resp. 4, lax stop error in the UDP header at offset 38 resp. 24); an IPv6 frame with a fragment header
  (the extension walk in struct mode). -/

def vlanUdpFrame : Bytes :=
  [1,2,3,4,5,6, 7,8,9,10,11,12, 0x81,0x00,
   0x00,0x2a, 0x08,0x00,
   0x45,0,0,32, 0,0,0,0, 64,17,0,0, 10,0,0,1, 10,0,0,2,
   0x30,0x39, 0,53, 0,12, 0,0, 0xde,0xad,0xbe,0xef]

def v6FragUdpFrame : Bytes :=
  [1,2,3,4,5,6, 7,8,9,10,11,12, 0x86,0xdd,
   0x60,0,0,0, 0,20, 44, 64,
   0,0,0,0,0,0,0,0,0,0,0,0,0,0,0,1,  0,0,0,0,0,0,0,0,0,0,0,0,0,0,0,2,
   17,0,0,0, 0,0,0,1,
   0x30,0x39, 0,53, 0,12, 0,0, 0xde,0xad,0xbe,0xef]

example : 14 ≤ vlanUdpFrame.length := by decide
example : 14 ≤ (vlanUdpFrame.take 40).length := by decide
example : 14 ≤ v6FragUdpFrame.length := by decide
example : ([1,2,3] : Bytes).length < 14 := by decide

set_option maxRecDepth 8000 in
example : phFromEthernet (memOf vlanUdpFrame) vlanUdpFrame.length =
    .ok { p := { link := some (.eth2 ⟨0, 14⟩), exts := [.vlan ⟨14, 4⟩],
                 net := some (.ip { v4 := true, hdr := ⟨18, 20⟩, auth := none, exts := ⟨18, 0⟩, first := none,
                                    slots := ExtSlots.none,
                                    pl := { num := 17, frag := false, src := .ipv4HeaderTotalLen, w := ⟨38, 12⟩,
                                            inc := false } }),
                 tp := some (.udp ⟨38, 12⟩), stop := none },
          pay := .udp ⟨46, 4⟩ false } := by
  rfl

set_option maxRecDepth 8000 in
example : phFromEtherType (memOf (vlanUdpFrame.drop 14)) (g16 (memOf vlanUdpFrame) 12) 0 (vlanUdpFrame.drop 14).length =
    .ok { p := { link := none, exts := [.vlan ⟨0, 4⟩],
                 net := some (.ip { v4 := true, hdr := ⟨4, 20⟩, auth := none, exts := ⟨4, 0⟩, first := none,
                                    slots := ExtSlots.none,
                                    pl := { num := 17, frag := false, src := .ipv4HeaderTotalLen, w := ⟨24, 12⟩,
                                            inc := false } }),
                 tp := some (.udp ⟨24, 12⟩), stop := none },
          pay := .udp ⟨32, 4⟩ false } := by
  rfl

set_option maxRecDepth 8000 in
example : lphFromEthernet (memOf vlanUdpFrame) vlanUdpFrame.length =
    .ok { p := { link := some (.eth2 ⟨0, 14⟩), exts := [.vlan ⟨14, 4⟩],
                 net := some (.ip { v4 := true, hdr := ⟨18, 20⟩, auth := none, exts := ⟨18, 0⟩, first := none,
                                    slots := ExtSlots.none,
                                    pl := { num := 17, frag := false, src := .ipv4HeaderTotalLen, w := ⟨38, 12⟩,
                                            inc := false } }),
                 tp := some (.udp ⟨38, 12⟩), stop := none },
          pay := .udp ⟨46, 4⟩ false } := by
  rfl

set_option maxRecDepth 8000 in
example : lphFromEtherType (memOf (vlanUdpFrame.drop 14)) (g16 (memOf vlanUdpFrame) 12) 0 (vlanUdpFrame.drop 14).length =
    { p := { link := none, exts := [.vlan ⟨0, 4⟩],
             net := some (.ip { v4 := true, hdr := ⟨4, 20⟩, auth := none, exts := ⟨4, 0⟩, first := none,
                                slots := ExtSlots.none,
                                pl := { num := 17, frag := false, src := .ipv4HeaderTotalLen, w := ⟨24, 12⟩,
                                        inc := false } }),
             tp := some (.udp ⟨24, 12⟩), stop := none },
      pay := .udp ⟨32, 4⟩ false } := by
  rfl

/-! the cut frame: the length error of the strict doors 14 bytes apart, the stop error of the lax doors 14 bytes apart -/

set_option maxRecDepth 8000 in
example : phFromEthernet (memOf (vlanUdpFrame.take 40)) (vlanUdpFrame.take 40).length =
    .error (.len { req := 32, len := 22, src := .slice, layer := .ipv4Packet, off := 18 }) := by
  rfl

set_option maxRecDepth 8000 in
example : phFromEtherType (memOf ((vlanUdpFrame.take 40).drop 14)) (g16 (memOf (vlanUdpFrame.take 40)) 12) 0
      ((vlanUdpFrame.take 40).drop 14).length =
    .error (.len { req := 32, len := 22, src := .slice, layer := .ipv4Packet, off := 4 }) := by
  rfl

set_option maxRecDepth 8000 in
example : (lphFromEthernet (memOf (vlanUdpFrame.take 40)) (vlanUdpFrame.take 40).length).map (·.p.stop) =
    .ok (some (.len { req := 8, len := 2, src := .slice, layer := .udpHeader, off := 38 }, .udpHeader)) := by
  rfl

set_option maxRecDepth 8000 in
example : (lphFromEtherType (memOf ((vlanUdpFrame.take 40).drop 14)) (g16 (memOf (vlanUdpFrame.take 40)) 12) 0
      ((vlanUdpFrame.take 40).drop 14).length).p.stop =
    some (.len { req := 8, len := 2, src := .slice, layer := .udpHeader, off := 24 }, .udpHeader) := by
  rfl

/-! IPv6 with a fragment header (stored in the `frag` slot of `Ipv6Extensions`), then UDP -/

unseal extsLoop in
set_option maxRecDepth 8000 in
example : phFromEthernet (memOf v6FragUdpFrame) v6FragUdpFrame.length =
    .ok { p := { link := some (.eth2 ⟨0, 14⟩), exts := [],
                 net := some (.ip { v4 := false, hdr := ⟨14, 40⟩, auth := none, exts := ⟨54, 8⟩, first := some 44,
                                    slots := { hbh := none, dest := none, routing := none, finalDest := none,
                                               frag := some ⟨54, 8⟩, auth := none },
                                    pl := { num := 17, frag := false, src := .ipv6HeaderPayloadLen, w := ⟨62, 12⟩,
                                            inc := false } }),
                 tp := some (.udp ⟨62, 12⟩), stop := none },
          pay := .udp ⟨70, 4⟩ false } := by
  rfl

unseal extsLoop in
set_option maxRecDepth 8000 in
example : (phFromEtherType (memOf (v6FragUdpFrame.drop 14)) (g16 (memOf v6FragUdpFrame) 12) 0
      (v6FragUdpFrame.drop 14).length).map (·.pay) = .ok (.udp ⟨56, 4⟩ false) := by
  rfl

set_option maxRecDepth 8000 in
example : phFromEthernet (memOf [1,2,3]) ([1,2,3] : Bytes).length =
    .error (.len { req := 14, len := 3, src := .slice, layer := .ethernet2Header, off := 0 }) := by
  rfl

end HeadersEthernetVsEtherType

/-! ### the Linux SLL door of `LaxPacketHeaders` (the only struct door with an SLL start) -/

/-- what `LaxPacketHeaders::from_linux_sll` makes of the result of `LaxPacketHeaders::from_ether_type` on the
    bytes behind the 16 byte SLL header: every window moved by 16, the offset of a length stop error
    moved by 16, the link is the SLL header -/
def laxSllOfEtherTypeHeaders (h : Headers) : Headers :=
  { p := (stopAddOff 16 (shPacket 16 h.p)).setLink (.sll ⟨0, 16⟩), pay := shPay 16 h.pay }

/-- **`LaxPacketHeaders::from_linux_sll` = `LaxPacketHeaders::from_ether_type` on the bytes behind the SLL
    header, shifted by 16**, whenever the SLL header is accepted and its protocol field is an ether type
    (ARP hardware type Ethernet, protocol not one of the Linux non-standard numbers) -/
theorem lax_headers_linux_sll_start_equals_ether_type_start (b : Bytes) (et : Nat) (w : Win)
    (hs : sllFromSlice (memOf b) 0 b.length = .ok w)
    (hp : sllProtoOf (g16 (memOf b) 2) (g16 (memOf b) 14) = .ok (.etherType et)) :
    lphFromLinuxSll (memOf b) b.length =
      .ok (laxSllOfEtherTypeHeaders (lphFromEtherType (memOf (b.drop 16)) et 0 (b.drop 16).length)) := by
  rw [EpModel.Lemmas.ShiftEntry.memOf_drop_eq, List.length_drop]
  unfold lphFromLinuxSll
  rw [hs]
  simp only [hp]
  rw [show (16 : Nat) = 16 + 0 from rfl, lphFromEtherType_sh 16 (memOf b) (shM 16 (memOf b)) (fun _ => rfl)]
  simp only [laxSllOfEtherTypeHeaders, shHeaders]

/-- any other accepted protocol field (netlink, GRE, radiotap / FRAD, a Linux non-standard number): nothing
    behind the header is decoded, the payload is everything behind the 16 bytes -/
theorem lax_headers_linux_sll_start_other_protocol (b : Bytes) (w : Win)
    (hs : sllFromSlice (memOf b) 0 b.length = .ok w)
    (hp : ∀ et, sllProtoOf (g16 (memOf b) 2) (g16 (memOf b) 14) ≠ .ok (.etherType et)) :
    lphFromLinuxSll (memOf b) b.length =
      .ok { p := Packet.empty.setLink (.sll ⟨0, 16⟩), pay := .linuxSll ⟨16, b.length - 16⟩ } := by
  unfold lphFromLinuxSll
  rw [hs]
  cases hx : sllProtoOf (g16 (memOf b) 2) (g16 (memOf b) 14) with
  | error e => rfl
  | ok pr =>
    cases pr with
    | etherType et => exact absurd hx (hp et)
    | _ => rfl

/-- a rejected SLL header is the door's error, unchanged -/
theorem lax_headers_linux_sll_start_rejected (b : Bytes) (e : PErr)
    (hs : sllFromSlice (memOf b) 0 b.length = .error e) : lphFromLinuxSll (memOf b) b.length = .error e := by
  unfold lphFromLinuxSll
  rw [hs]

set_option maxRecDepth 8000 in
/-- the hypotheses are met by a real header: SLL (outgoing, ARP hardware type Ethernet, protocol 0x0800) -/
example :
    sllFromSlice (memOf [0, 4, 0, 1, 0, 6, 1, 2, 3, 4, 5, 6, 0, 0, 8, 0, 0x45, 0]) 0 18 = .ok ⟨0, 18⟩ ∧
    sllProtoOf (g16 (memOf [0, 4, 0, 1, 0, 6, 1, 2, 3, 4, 5, 6, 0, 0, 8, 0, 0x45, 0]) 2)
      (g16 (memOf [0, 4, 0, 1, 0, 6, 1, 2, 3, 4, 5, 6, 0, 0, 8, 0, 0x45, 0]) 14) = .ok (.etherType 0x0800) := by
  exact ⟨rfl, rfl⟩

end EpModel.Props.C06
