import EpModel.Lemmas.DecRefineEntry
import EpModel.Lemmas.DecWithin
/-
  C03 — strict packet slicing matches the wire formats for every byte string.

  `Spec.decode` (Spec/Decode.lean) is the wire-format reading of a byte string: a generic walk that
  knows, per layer, only the header layout, which field bounds the data behind it and the documented
  content rules.  It shares no code with the model of the crate's cursor (Model/Dec/*), which mirrors
  the Rust call structure (per-type `from_slice`, relative offsets fixed up by `add_offset`, `len_source`
  overrides, struct-free extension walk, three hand-copied IP boundary computations).

  The theorems below say: for EVERY byte string and EVERY start, the cursor model returns exactly the
  packet (layer sequence, windows, fragmentation flag, length source, …) that `Spec.decode` returns, and
  fails exactly when `Spec.decode` reports a fault – with an error that describes that fault (this half
  is C07's subject and re-exported there).

  The tie of `Model/Dec` to the Rust code is the correspondence check (tools/epcheck/props/c03.py), which
  also runs `spec.dec.decode` on every generated input, so that the statement "impl = spec" is tested
  directly in addition to "impl = model" + this proof.
-/
namespace EpModel.Props.C03
open EpModel EpModel.Dec EpModel.Spec EpModel.Lemmas.Refine EpModel.Lemmas.Dec

/-- The model's answer against the wire-format decoding: the same packet, or an error describing the
    spec's fault (`ErrMatch`: layer, absolute offset, available and required bytes, limiting length
    field; or the offending value of a content rule). -/
def Refines (m : Except PErr Packet) (s : Except Fault Packet) : Prop :=
  match m, s with
  | .ok p, .ok p' => p = p'
  | .error e, .error f => ErrMatch e f
  | _, _ => False

theorem refines_of_rel {m : Except PErr Packet} {s : Packet × Option Fault} (h : Rel m s) :
    Refines m (verdict s) := by
  obtain ⟨p, f⟩ := s
  cases m <;> cases f <;> simp only [Rel] at h <;> simp only [Refines, verdict] <;> first | exact h | exact h.elim

theorem byteMem_memOf (b : Bytes) : ByteMem (memOf b) := fun i => bAt_lt b i

/-- `SlicedPacket::from_ethernet` = wire formats, for every byte string. -/
theorem strict_from_ethernet_matches_wire_formats (b : Bytes) :
    Refines (slicedFromEthernet (memOf b) b.length) (Spec.decode .eth (memOf b) b.length) :=
  refines_of_rel (from_ethernet_refines (memOf b) (byteMem_memOf b) b.length)

/-- `SlicedPacket::from_linux_sll` = wire formats, for every byte string. -/
theorem strict_from_linux_sll_matches_wire_formats (b : Bytes) :
    Refines (slicedFromLinuxSll (memOf b) b.length) (Spec.decode .sll (memOf b) b.length) :=
  refines_of_rel (from_linux_sll_refines (memOf b) (byteMem_memOf b) b.length)

/-- `SlicedPacket::from_ether_type` = wire formats, for every ether type and byte string. -/
theorem strict_from_ether_type_matches_wire_formats (et : Nat) (b : Bytes) :
    Refines (slicedFromEtherType (memOf b) et b.length) (Spec.decode (.etherType et) (memOf b) b.length) :=
  refines_of_rel (from_ether_type_refines (memOf b) (byteMem_memOf b) et b.length)

/-- `SlicedPacket::from_ip` = wire formats.  The one input class on which the error *value* may differ
    is an IPv4 header in 1..19 bytes: `IpSlice::from_slice` looks at the IHL before the length, so it
    names the bad IHL, or requires `ihl*4` bytes, where the wire-format reading says "20 bytes needed".
    Both reject, and both statements are true of the bytes (`ShortV4`). -/
theorem strict_from_ip_matches_wire_formats (b : Bytes) :
    if memOf b 0 / 16 = 4 ∧ 0 < b.length ∧ b.length < 20 then
      (∃ e, slicedFromIp (memOf b) b.length = .error e ∧ ShortV4 (memOf b) 0 b.length Cur.new e) ∧
        Spec.decode .ip (memOf b) b.length =
          .error (mkFault (ctx0 b.length) .cutShort .ipv4Header 20)
    else Refines (slicedFromIp (memOf b) b.length) (Spec.decode .ip (memOf b) b.length) := by
  have h := from_ip_refines (memOf b) (byteMem_memOf b) b.length
  split
  · rename_i hc
    simp only [hc, and_self, if_true] at h
    refine ⟨h.1, ?_⟩
    have h2 := h.2
    show verdict (walkN false (memOf b) maxSteps Packet.empty Tag.ipAny (ctx0 b.length)) = _
    revert h2
    generalize walkN false (memOf b) maxSteps Packet.empty Tag.ipAny (ctx0 b.length) = r
    intro h2
    obtain ⟨p, f⟩ := r
    simp only at h2
    subst h2
    rfl
  · rename_i hc
    simp only [hc, if_false] at h
    exact refines_of_rel h

/-- Slicing fails exactly when the wire formats say the bytes are faulty: all four starts. -/
theorem strict_rejects_iff_fault (b : Bytes) :
    ((slicedFromEthernet (memOf b) b.length).isOk = (Spec.decode .eth (memOf b) b.length).isOk) ∧
    ((slicedFromLinuxSll (memOf b) b.length).isOk = (Spec.decode .sll (memOf b) b.length).isOk) ∧
    (∀ et, (slicedFromEtherType (memOf b) et b.length).isOk =
      (Spec.decode (.etherType et) (memOf b) b.length).isOk) ∧
    ((slicedFromIp (memOf b) b.length).isOk = (Spec.decode .ip (memOf b) b.length).isOk) := by
  have key : ∀ (m : Except PErr Packet) (s : Except Fault Packet), Refines m s → m.isOk = s.isOk := by
    intro m s h
    cases m <;> cases s <;> simp_all [Refines, Except.isOk, Except.toBool]
  refine ⟨key _ _ (strict_from_ethernet_matches_wire_formats b),
    key _ _ (strict_from_linux_sll_matches_wire_formats b),
    fun et => key _ _ (strict_from_ether_type_matches_wire_formats et b), ?_⟩
  have h := strict_from_ip_matches_wire_formats b
  split at h
  · obtain ⟨⟨e, he, _⟩, hd⟩ := h
    rw [he, hd]; rfl
  · exact key _ _ h

/-- Consequence for the spec itself: every window of a wire-format decoding lies inside the input
    (so `Spec.decode` is not a vacuous oracle that could hand out ranges the input does not have). -/
theorem spec_decode_within (b : Bytes) (p : Packet) (h : Spec.decode .eth (memOf b) b.length = .ok p) :
    PacketIn p 0 b.length := by
  have hr := strict_from_ethernet_matches_wire_formats b
  rw [h] at hr
  cases hm : slicedFromEthernet (memOf b) b.length with
  | error e => rw [hm] at hr; simp [Refines] at hr
  | ok p' =>
    rw [hm] at hr
    simp only [Refines] at hr
    subst hr
    exact slicedFromEthernet_in (memOf b) b.length p' hm

/-- UDP: the slice handed out never extends past the UDP length field nor past the data. -/
theorem udp_bounded (g : Mem) (o l : Nat) (w : Win) (h : udpFromSlice g o l = .ok w) :
    w.o = o ∧ w.l ≤ l ∧ 8 ≤ w.l ∧ (g16 g (o + 4) ≠ 0 → w.l = g16 g (o + 4)) ∧
      (g16 g (o + 4) = 0 → w.l = l) := by
  unfold udpFromSlice at h
  split at h
  · contradiction
  · simp only at h
    split at h
    · contradiction
    · split at h
      · cases h; simp; omega
      · split at h
        · contradiction
        · cases h; simp; omega

end EpModel.Props.C03
