import EpModel.Model.Dec.Sliced
import EpModel.Spec.Decode
/-
  C03 — strict packet slicing matches the wire formats for every byte string.
  (first theorems; the refinement to Spec.decode is added below as it is proved)
-/
namespace EpModel.Props.C03
open EpModel EpModel.Dec

/-- UDP: the slice handed out never extends past the UDP length field nor past the data. -/
theorem udp_bounded (g : Mem) (o l : Nat) (w : Win) (h : udpFromSlice g o l = .ok w) :
    w.o = o ∧ w.l ≤ l ∧ 8 ≤ w.l ∧ (g16 g (o + 4) ≠ 0 → w.l = g16 g (o + 4)) ∧
      (g16 g (o + 4) = 0 → w.l = l) := by
  unfold udpFromSlice at h
  split at h
  · contradiction
  · simp only at h
    split at h
    · contradiction
    · split at h
      · cases h; simp; omega
      · split at h
        · contradiction
        · cases h; simp; omega

end EpModel.Props.C03
