import EpModel.Props.C03
import EpModel.Lemmas.SpecSane
import EpModel.Lemmas.StructSlice
import EpModel.Props.C05
import EpModel.Props.C07Limited
/-
  C07 — length and content errors describe the real fault.

  The "real fault" of a byte string is what the wire-format reading (`Spec.decode`, Spec/Decode.lean)
  reports: class, unit, absolute offset, bytes available, bytes needed, and the limiter that put the end
  of the available data where it is.  `Describes e f` is C07's statement about a reported `LenError e`.

  Proved for every byte string and all four strict whole-packet starts: `…_partial`, i.e. `Describes`
  except that the length source may be one of the two `KnownSrcException`s (ARP address lengths,
  MACsec short length – known findings F9/F12, pinned by the crate's own tests).  The full statement is
  `FullStatement`; `full_statement_false_*` prove, with concrete packets, that it does not hold of the
  model (the checker replays these packets against the crate and prints them as KNOWN-FINDING).
  The strict struct-decoding doors (PacketHeaders::from_ethernet_slice / from_ether_type / from_ip_slice) are
  covered through C04 (`headers_len_error_describes_fault_partial`).  Lax stop errors of LaxSlicedPacket::from_ether_type are
  covered through the lax refinement of C05 (`lax_stop_error_describes_fault_partial`; the Ethernet and IP doors
  have the same statement in Props/C05: `lax_ethernet_stop_iff_fault`, `lax_ip_stop_iff_fault`).  `IpHeaders::from_slice` is covered by
  `ip_headers_len_error_describes_fault_partial`.  The other IP boundary copies and LaxPacketHeaders are covered by the correspondence + oracle (tools/epcheck/props/c07.py) and,
  up to the wording differences listed there, by C04's lax agreement.
-/
namespace EpModel.Props.C07
open EpModel EpModel.Dec EpModel.Spec EpModel.Lemmas.Refine EpModel.Props.C03 EpModel.Lemmas.StructSlice
open EpModel.Lemmas.RefineLax

/-- C07 for one reported length error `e`, where `f` is the fault the bytes really have. -/
structure Describes (e : LenError) (f : Fault) : Prop where
  /-- the layer that actually failed -/
  layer : LayerUnit e.layer f.unit
  /-- its true offset from the start of the caller's buffer -/
  off : e.off = f.off
  /-- the bytes really available to it -/
  len : e.len = f.avail
  /-- the bytes it really requires -/
  req : e.req = f.need
  /-- `required_len > len` for missing data -/
  missing : f.cls ≠ .tooLong → e.len < e.req
  /-- `required_len < len` for oversized data -/
  oversized : f.cls = .tooLong → e.req < e.len
  /-- a length source other than the slice only if that field is what limited the data -/
  src : e.src = .slice ∨ e.src = f.lim

/-- the same with the two known exceptions on the length source admitted -/
structure DescribesPartial (e : LenError) (f : Fault) : Prop where
  layer : LayerUnit e.layer f.unit
  off : e.off = f.off
  len : e.len = f.avail
  req : e.req = f.need
  missing : f.cls ≠ .tooLong → e.len < e.req
  oversized : f.cls = .tooLong → e.req < e.len
  src : e.src = .slice ∨ e.src = f.lim ∨ KnownSrcException e

/-- the four strict whole-packet decoders and the wire-format reading they are compared with -/
inductive Entry
  | eth | sll | etherType (et : Nat) | ip

def Entry.run (b : Bytes) : Entry → Except PErr Packet
  | .eth => slicedFromEthernet (memOf b) b.length
  | .sll => slicedFromLinuxSll (memOf b) b.length
  | .etherType et => slicedFromEtherType (memOf b) et b.length
  | .ip => slicedFromIp (memOf b) b.length

def Entry.start : Entry → Start
  | .eth => .eth
  | .sll => .sll
  | .etherType et => .etherType et
  | .ip => .ip

/-- `IpSlice::from_slice` on an IPv4 header in 1..19 bytes reports the IHL it finds (see C03) -/
def Entry.shortV4 (b : Bytes) : Entry → Prop
  | .ip => memOf b 0 / 16 = 4 ∧ 0 < b.length ∧ b.length < 20
  | _ => False

theorem entry_refines (x : Entry) (b : Bytes) (h : ¬ x.shortV4 b) :
    Refines (x.run b) (Spec.decode x.start (memOf b) b.length) := by
  cases x with
  | eth => exact strict_from_ethernet_matches_wire_formats b
  | sll => exact strict_from_linux_sll_matches_wire_formats b
  | etherType et => exact strict_from_ether_type_matches_wire_formats et b
  | ip =>
    have := strict_from_ip_matches_wire_formats b
    simp only [Entry.shortV4] at h
    simp only [h, if_false] at this
    exact this

/-- C07, full strength, for the strict whole-packet decoders (see `full_statement_false_*`). -/
def FullStatement : Prop :=
  ∀ (x : Entry) (b : Bytes) (e : LenError), ¬ x.shortV4 b → x.run b = .error (.len e) →
    ∃ f, Spec.decode x.start (memOf b) b.length = .error f ∧ Describes e f

/-- Every length error of a strict whole-packet decoder names the layer that failed, its true offset,
    the bytes really available and really required, with the right inequality, and a length source
    that is the slice, the field that limited the data, or one of the two known exceptions. -/
theorem len_error_describes_fault_partial (x : Entry) (b : Bytes) (e : LenError) (hs : ¬ x.shortV4 b)
    (h : x.run b = .error (.len e)) :
    ∃ f, Spec.decode x.start (memOf b) b.length = .error f ∧ DescribesPartial e f := by
  have hr := entry_refines x b hs
  rw [h] at hr
  cases hd : Spec.decode x.start (memOf b) b.length with
  | ok p => rw [hd] at hr; simp [Refines] at hr
  | error f =>
    rw [hd] at hr
    simp only [Refines, ErrMatch] at hr
    obtain ⟨hcls, hlayer, hoff, hlen, hreq, hsrc⟩ := hr
    have hsane := decode_sane _ _ _ _ hd
    refine ⟨f, rfl, hlayer, hoff, hlen, hreq, ?_, ?_, hsrc⟩
    · intro hnt
      rw [hlen, hreq]
      apply hsane.2
      cases hc : f.cls <;> simp_all
    · intro ht
      rw [hlen, hreq]
      exact hsane.1 ht

/-- Outside the two exceptions the full statement holds. -/
theorem len_error_describes_fault_unless_known (x : Entry) (b : Bytes) (e : LenError) (hs : ¬ x.shortV4 b)
    (h : x.run b = .error (.len e)) (hk : ¬ KnownSrcException e) :
    ∃ f, Spec.decode x.start (memOf b) b.length = .error f ∧ Describes e f := by
  obtain ⟨f, hf, hd⟩ := len_error_describes_fault_partial x b e hs h
  refine ⟨f, hf, hd.layer, hd.off, hd.len, hd.req, hd.missing, hd.oversized, ?_⟩
  rcases hd.src with h1 | h1 | h1
  · exact Or.inl h1
  · exact Or.inr h1
  · exact absurd h1 hk

/-- Content errors carry the value that is present in the bytes: the spec's fault is a content fault of
    the unit the error names, with the same value (the spec computes it from the bytes: version nibble
    `g o / 16`, IHL `g o % 16`, data offset `g (o+12) / 16`, packet type `g16 g o`, ARPHRD `g16 g (o+2)`). -/
theorem content_error_carries_value (x : Entry) (b : Bytes) (e : PErr) (hs : ¬ x.shortV4 b)
    (hne : ∀ le, e ≠ .len le) (h : x.run b = .error e) :
    ∃ f, Spec.decode x.start (memOf b) b.length = .error f ∧ ContentMatch e f := by
  have hr := entry_refines x b hs
  rw [h] at hr
  cases hd : Spec.decode x.start (memOf b) b.length with
  | ok p => rw [hd] at hr; simp [Refines] at hr
  | error f =>
    rw [hd] at hr
    refine ⟨f, rfl, ?_⟩
    cases e with
    | len le => exact absurd rfl (hne le)
    | _ => simpa only [Refines, ErrMatch] using hr

/-- The short IPv4 header through `from_ip`: the error is a true statement about the bytes too. -/
theorem short_ipv4_error_is_true (b : Bytes) (h : Entry.shortV4 b .ip) :
    ∃ e, Entry.run b .ip = .error e ∧
      ((memOf b 0 % 16 < 5 ∧ e = .ipIhl (memOf b 0 % 16)) ∨
       (∃ le, e = .len le ∧ le.layer = .ipv4Header ∧ le.off = 0 ∧ le.len = b.length ∧
          le.req = memOf b 0 % 16 * 4 ∧ le.len < le.req ∧ le.src = .slice)) := by
  have := strict_from_ip_matches_wire_formats b
  simp only [Entry.shortV4] at h
  simp only [h, and_self, if_true] at this
  obtain ⟨⟨e, he, hsv⟩, _⟩ := this
  refine ⟨e, he, ?_⟩
  rcases hsv with ⟨h5, rfl⟩ | ⟨h5, rfl⟩
  · exact Or.inl ⟨h5, rfl⟩
  · exact Or.inr ⟨_, rfl, rfl, rfl, rfl, rfl, by simp only; omega, rfl⟩

/-- every fault of the wire-format reading is a genuine shortage (or excess) -/
theorem fault_is_genuine (st : Start) (b : Bytes) (f : Fault)
    (h : Spec.decode st (memOf b) b.length = .error f) : FaultSane f := decode_sane _ _ _ _ h

/-! ### the full statement is false of the model (and of the crate): known findings F9 and F12 -/

/-- F9: an ARP packet cut inside its addresses: the error says `ArpAddrLengths`, but what limited
    the available 8 bytes is the slice. -/
def arpWitness : Bytes := [0, 1, 8, 0, 6, 4, 0, 1]

theorem full_statement_false_arp :
    ∃ e f, Entry.run arpWitness (.etherType 0x0806) = .error (.len e) ∧
      Spec.decode (.etherType 0x0806) (memOf arpWitness) arpWitness.length = .error f ∧
      e.src = .arpAddrLengths ∧ f.lim = .slice ∧ ¬ Describes e f := by
  refine ⟨{ req := 28, len := 8, src := .arpAddrLengths, layer := .arp, off := 0 },
    mkFault (ctx0 8) .cutShort .arp 28, by rfl, by rfl, rfl, rfl, ?_⟩
  intro h
  have := h.src
  simp [mkFault, ctx0] at this

/-- F12: a MACsec frame whose short length (40) promises more than the 10 bytes behind the SecTAG:
    the error says `MacsecShortLength`, but what limited the available data is the slice. -/
def macsecWitness : Bytes := [0x20, 40, 0, 0, 0, 1, 1, 2, 3, 4, 5, 6, 7, 8, 0, 1, 2, 3, 4, 5, 6, 7, 8, 9]

theorem full_statement_false_macsec :
    ∃ e f, Entry.run macsecWitness (.etherType 0x88e5) = .error (.len e) ∧
      Spec.decode (.etherType 0x88e5) (memOf macsecWitness) macsecWitness.length = .error f ∧
      e.src = .macsecShortLength ∧ f.lim = .slice ∧ ¬ Describes e f := by
  refine ⟨{ req := 54, len := 24, src := .macsecShortLength, layer := .macsecPacket, off := 0 },
    mkFault (ctx0 24) .claimsMore .macsecPacket 54, by rfl, by rfl, rfl, rfl, ?_⟩
  intro h
  have := h.src
  simp [mkFault, ctx0] at this

theorem full_statement_is_false : ¬ FullStatement := by
  intro hfull
  obtain ⟨e, f, hrun, hdec, _, _, hnd⟩ := full_statement_false_arp
  obtain ⟨f', hf', hd⟩ := hfull (.etherType 0x0806) arpWitness e (by simp [Entry.shortV4]) hrun
  have hf'' : Spec.decode (.etherType 0x0806) (memOf arpWitness) arpWitness.length = .error f' := hf'
  rw [hdec] at hf''
  cases hf''
  exact hnd hd

/-! ### the struct-decoding family (through C04: its rejections are the slicing family's, error included) -/

/-- the struct-decoding doors that correspond to the strict slicing doors -/
def Entry.runHeaders (b : Bytes) : Entry → Option (Except PErr Headers)
  | .eth => some (phFromEthernet (memOf b) b.length)
  | .sll => none
  | .etherType et => some (phFromEtherType (memOf b) et 0 b.length)
  | .ip => some (phFromIp (memOf b) b.length)

/-- a rejection by PacketHeaders is the rejection SlicedPacket gives, error included (C04) -/
theorem headers_error_is_slicing_error (x : Entry) (b : Bytes) (e : PErr) (hs : ¬ x.shortV4 b)
    (h : x.runHeaders b = some (.error e)) : x.run b = .error e := by
  cases x with
  | sll => simp [Entry.runHeaders] at h
  | eth =>
    simp only [Entry.runHeaders, Option.some.injEq] at h
    have hv := from_ethernet_agree (memOf b) b.length
    rw [h] at hv
    simp only [Entry.run]
    cases hsl : slicedFromEthernet (memOf b) b.length with
    | ok p => rw [hsl] at hv; simp at hv
    | error e' => rw [hsl] at hv; simp only at hv; rw [hv]
  | etherType et =>
    simp only [Entry.runHeaders, Option.some.injEq] at h
    have hv := from_ether_type_agree (memOf b) et b.length
    rw [h] at hv
    simp only [Entry.run]
    cases hsl : slicedFromEtherType (memOf b) et b.length with
    | ok p => rw [hsl] at hv; simp [Verdict] at hv
    | error e' => rw [hsl] at hv; simp only [Verdict] at hv; rw [hv, lenAddOff_zero]
  | ip =>
    simp only [Entry.runHeaders, Option.some.injEq] at h
    simp only [Entry.shortV4] at hs
    simp only [Entry.run]
    rcases from_ip_agree (memOf b) b.length with ⟨h4, h20, _, _⟩ | hv
    · -- fewer than 20 bytes with an IPv4 nibble: excluded unless the input is empty
      have : b.length = 0 := by
        by_cases h0 : 0 < b.length
        · exact absurd ⟨h4, h0, h20⟩ hs
        · omega
      -- the empty input: both doors report the same error
      have hn : phFromIp (memOf b) b.length = .error e := h
      rw [this] at hn ⊢
      unfold phFromIp ipHeadersFromSlice ipDispatchHeader at hn
      simp at hn
      unfold slicedFromIp Cur.sliceIp ipSliceFromSlice ipDispatchHeader
      simp [← hn, lenAddOff, LenError.addOffset, Cur.new]
    · rw [h] at hv
      cases hsl : slicedFromIp (memOf b) b.length with
      | ok p => rw [hsl] at hv; simp [Verdict] at hv
      | error e' => rw [hsl] at hv; simp only [Verdict] at hv; rw [hv, lenAddOff_zero]

/-- C07 for the struct-decoding family (PacketHeaders::from_ethernet_slice / from_ether_type /
    from_ip_slice): its length errors describe the real fault, with the same two exceptions -/
theorem headers_len_error_describes_fault_partial (x : Entry) (b : Bytes) (e : LenError) (hs : ¬ x.shortV4 b)
    (h : x.runHeaders b = some (.error (.len e))) :
    ∃ f, Spec.decode x.start (memOf b) b.length = .error f ∧ DescribesPartial e f :=
  len_error_describes_fault_partial x b e hs (headers_error_is_slicing_error x b (.len e) hs h)

/-- C07 for `IpHeaders::from_slice` (the struct door of the IP layer alone): its length errors describe
    the fault of the bytes read from the IP start, with the same two known exceptions -/
theorem ip_headers_len_error_describes_fault_partial (b : Bytes) (e : LenError)
    (hs : ¬ Entry.shortV4 b .ip) (h : ipHeadersFromSlice (memOf b) 0 b.length = .error (.len e)) :
    ∃ f, Spec.decode .ip (memOf b) b.length = .error f ∧ DescribesPartial e f := by
  apply len_error_describes_fault_partial .ip b e hs
  simp only [Entry.run]
  rcases ipHeaders_vs_ipSlice (memOf b) 0 b.length with ⟨h4, h20, _, _⟩ | hv
  · -- fewer than 20 bytes with an IPv4 nibble: excluded, unless the input is empty
    have hz : b.length = 0 := by
      by_cases h0 : 0 < b.length
      · exact absurd (show Entry.shortV4 b .ip from ⟨h4, h0, h20⟩) hs
      · omega
    rw [hz] at h ⊢
    unfold ipHeadersFromSlice ipDispatchHeader at h
    simp at h
    unfold slicedFromIp Cur.sliceIp ipSliceFromSlice ipDispatchHeader
    simp [← h, lenAddOff, LenError.addOffset, Cur.new]
  · rw [h] at hv
    cases hf : ipSliceFromSlice (memOf b) 0 b.length with
    | ok x => rw [hf] at hv; simp [IpVerdict] at hv
    | error e' =>
      rw [hf] at hv
      simp only [IpVerdict] at hv
      unfold slicedFromIp Cur.sliceIp
      rw [hf, ← hv]
      simp [lenAddOff, LenError.addOffset, Cur.new]

/-! ### lax stop errors (through the lax refinement of C05) -/

/-- a matching length error describes the fault (the inequality comes from `FaultSane`) -/
theorem describesPartial_of_lenMatch {e : LenError} {f : Fault} (h : LenMatch e f) (hs : FaultSane f) :
    DescribesPartial e f := by
  obtain ⟨hcls, hlayer, hoff, hlen, hreq, hsrc⟩ := h
  refine ⟨hlayer, hoff, hlen, hreq, ?_, ?_, hsrc⟩
  · intro hnt
    rw [hlen, hreq]
    apply hs.2
    cases hc : f.cls <;> simp_all
  · intro ht
    rw [hlen, hreq]
    exact hs.1 ht

/-- C07 for lax stop errors, LaxSlicedPacket::from_ether_type: the stop error of every lax result describes
    the fault the lax wire-format walk reports (same two known exceptions on the length source), or it is
    the differently worded - and equally true - error for an IPv4 header in fewer than 20 bytes -/
theorem lax_stop_error_describes_fault_partial (et : Nat) (b : Bytes) (e : LenError) (ly : Layer)
    (h : (laxSlicedFromEtherType (memOf b) et b.length).stop = some (.len e, ly)) :
    ∃ f, (Spec.decodeLax (.etherType et) (memOf b) b.length).2 = some f ∧
      (DescribesPartial e f ∨ ShortV4Stop (memOf b) (.len e) ly f) := by
  have hr := EpModel.Props.C05.lax_from_ether_type_matches_wire_formats et b
  unfold RelLaxW at hr
  rw [h] at hr
  cases hf : (Spec.decodeLax (.etherType et) (memOf b) b.length).2 with
  | none => rw [hf] at hr; exact hr.2.elim
  | some f =>
    rw [hf] at hr
    refine ⟨f, rfl, ?_⟩
    have hsane : FaultSane f := by
      unfold Spec.decodeLax at hf
      exact walkN_sane _ _ _ _ _ _ _ hf
    rcases hr.2 with hm | hw
    · left
      exact describesPartial_of_lenMatch (by simpa [StopMatch, ErrMatch] using hm.2) hsane
    · right; exact hw

/-- every strict UDP slice lies inside the slice it was cut from. -/
theorem udp_within (g : Mem) (o l : Nat) (w : Win) (h : udpFromSlice g o l = .ok w) :
    o ≤ w.o ∧ w.o + w.l ≤ o + l := by
  unfold udpFromSlice at h
  split at h
  · contradiction
  · simp only at h
    split at h
    · contradiction
    · split at h
      · cases h; simp
      · split at h
        · contradiction
        · cases h; simp; omega

end EpModel.Props.C07
