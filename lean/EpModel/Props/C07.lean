import EpModel.Model.Dec.Headers
import EpModel.Spec.Decode
/- C07 — first theorems (extended below as they are proved) -/
namespace EpModel.Props.C07
open EpModel EpModel.Dec

/-- every strict UDP slice lies inside the slice it was cut from. -/
theorem udp_within (g : Mem) (o l : Nat) (w : Win) (h : udpFromSlice g o l = .ok w) :
    o ≤ w.o ∧ w.o + w.l ≤ o + l := by
  unfold udpFromSlice at h
  split at h
  · contradiction
  · simp only at h
    split at h
    · contradiction
    · split at h
      · cases h; simp
      · split at h
        · contradiction
        · cases h; simp; omega

end EpModel.Props.C07
