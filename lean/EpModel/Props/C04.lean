import EpModel.Lemmas.StructSlice
import EpModel.Lemmas.StructSliceLax
/-
  C04 — decoding into header structs agrees with slicing.

  `PacketHeaders` is modelled by its own hand-rolled loop (`phLoop`, `phNet`, `readTransport`,
  Model/Dec/Headers.lean: offsets are pointer differences to the slice given to from_ether_type, the
  Ethernet door adds 14 afterwards, errors get their length source in `read_transport`), the slicing family
  by the cursor (`Cur.sliceEtherType`, `afterIp`, `sliceTransport`, Model/Dec/Sliced.lean: a running
  offset and length source).  The IPv6 extension chain is walked by one function in two modes
  (`extsLoop sm`): struct mode stores into the fixed slots of `Ipv6Extensions` and ends the walk, without
  an error, at a header that no longer fits.

  Proved, for every memory / byte string and all three doors of the strict family:
    * both accept or both reject - unless struct decoding ended early at an extension header of kind
      43/44/51/60, which it then reports as the payload's protocol (`Early`): the documented exception,
      and the only way the slicing door can fail while the struct door succeeds;
    * when both reject, the errors are identical (layer, offsets, lengths, length source);
    * when both accept, the struct holds exactly the headers the slices convert to: same link, the header
      windows of the same link extensions in the same order, the same IP header / AH / extension area /
      fragmentation flag / payload protocol and window (`IpAgree`), the same transport header, and the
      payload covers the same byte range (`PayAgree`);
    * `from_ip`: the struct door checks `len < 20` before the IHL and the slice door does not - on an
      IPv4 nibble in fewer than 20 bytes both reject with different (both true, see C03 `ShortV4`) errors.
    * the lax pair (LaxPacketHeaders vs LaxSlicedPacket, three doors): the same Err verdict on the first
      header, and otherwise the same headers, payload range and `incomplete` flag and the same stop error
      on the same layer (`LaxAgree`) - up to two documented differences in the wording of a stop error:
      the struct family keeps `Slice` as length source where the cursor propagates an outer limiter
      (`StopAgree`), and an IPv4 nibble in fewer than 20 bytes is named differently by the two IP doors
      (`ShortV4Stops`) - or the same documented exception (`EarlyLax`).
  Not proved (correspondence + oracle only): link-level payloads (`PayAgree` says nothing when neither a
  network nor a transport layer was decoded), the Linux SLL door of LaxPacketHeaders, and that the header
  *values* extracted from equal windows are equal (that is C08 / C15).
-/
namespace EpModel.Props.C04
open EpModel EpModel.Dec EpModel.Lemmas.StructSlice

/-- struct-mode and slice-mode walks of every IPv6 extension chain: same next header, fragmentation
    flag, rest and stop reason - or the struct walk ended, without an error, at a header of kind
    43 / 44 / 51 / 60 that no longer fits `Ipv6Extensions` -/
theorem ext_walks_agree_or_struct_is_full (g : Mem) (l0 nh : Nat) (frag : Bool) (slots slotsF : ExtSlots)
    (o l : Nat) :
    ExtsAgree (extsLoop g true l0 nh frag slots o l) (extsLoop g false l0 nh frag slotsF o l) :=
  extsLoop_struct_slice g l0 nh frag slots slotsF o l

/-- `read_transport` = the cursor's transport step: same transport header and payload range, or the same
    error (up to the cursor's running offset) -/
theorem read_transport_agrees (c : Cur) (g : Mem) (pl : IpPl) (hsrc : c.src = pl.src) (hnf : pl.frag = false)
    (htp : c.r.tp = none) :
    match c.sliceTransport g pl.num pl.w.o pl.w.l, readTransport g pl with
    | .ok p, .ok (tp, pay) =>
      p.link = c.r.link ∧ p.exts = c.r.exts ∧ p.net = c.r.net ∧ p.stop = c.r.stop ∧ p.tp = tp ∧
        (match tp with
         | some (.udp w) => pay = .udp ⟨w.o + 8, w.l - 8⟩ false
         | some (.tcp w hl) => pay = .tcp ⟨w.o + hl, w.l - hl⟩ false
         | some (.icmp4 w) => pay = .icmp4 ⟨w.o + icmp4HeaderLen g w.o, w.l - icmp4HeaderLen g w.o⟩ false
         | some (.icmp6 w) => pay = .icmp6 ⟨w.o + 8, w.l - 8⟩ false
         | none => pay = .ip pl)
    | .error e, .error e' => e = lenAddOff c.off e'
    | _, _ => False :=
  transport_agree c g pl hsrc hnf htp

/-- PacketHeaders::from_ether_type vs SlicedPacket::from_ether_type, every ether type and byte string -/
theorem headers_from_ether_type_agree_with_slicing (et : Nat) (b : Bytes) :
    Verdict (memOf b) 0 Packet.empty (Packet.empty.setLink (.etherPayload et ⟨0, b.length⟩))
      (slicedFromEtherType (memOf b) et b.length) (phFromEtherType (memOf b) et 0 b.length) :=
  from_ether_type_agree (memOf b) et b.length

/-- PacketHeaders::from_ethernet_slice vs SlicedPacket::from_ethernet -/
theorem headers_from_ethernet_agree_with_slicing (b : Bytes) :
    match slicedFromEthernet (memOf b) b.length, phFromEthernet (memOf b) b.length with
    | .ok p, .ok x =>
      (x.p.link = some (.eth2 ⟨0, 14⟩) ∧ p.link = some (.eth2 ⟨0, b.length⟩) ∧ x.p.exts = p.exts.map hdrExt ∧
        NetAgree x.p.net p.net ∧ x.p.tp = p.tp ∧ PayAgree (memOf b) x.pay p) ∨ Early x
    | .error e, .error e' => e = e'
    | .error _, .ok x => Early x
    | .ok _, .error _ => False :=
  from_ethernet_agree (memOf b) b.length

/-- PacketHeaders::from_ip_slice vs SlicedPacket::from_ip -/
theorem headers_from_ip_agree_with_slicing (b : Bytes) :
    (memOf b 0 / 16 = 4 ∧ b.length < 20 ∧ (∃ e, phFromIp (memOf b) b.length = .error e) ∧
        ∃ e, slicedFromIp (memOf b) b.length = .error e) ∨
      Verdict (memOf b) 0 Packet.empty Packet.empty (slicedFromIp (memOf b) b.length)
        (phFromIp (memOf b) b.length) :=
  from_ip_agree (memOf b) b.length

/-! ### the lax pair -/

/-- LaxPacketHeaders::from_ether_type vs LaxSlicedPacket::from_ether_type -/
theorem lax_headers_from_ether_type_agree_with_slicing (et : Nat) (b : Bytes) :
    LaxAgree (memOf b) 0 (lphFromEtherType (memOf b) et 0 b.length) (laxSlicedFromEtherType (memOf b) et b.length)
        Packet.empty (Packet.empty.setLink (.etherPayload et ⟨0, b.length⟩)) ∨
      EarlyLax (lphFromEtherType (memOf b) et 0 b.length) :=
  lax_from_ether_type_agree (memOf b) et b.length

/-- LaxPacketHeaders::from_ethernet vs LaxSlicedPacket::from_ethernet -/
theorem lax_headers_from_ethernet_agree_with_slicing (b : Bytes) :
    match laxSlicedFromEthernet (memOf b) b.length, lphFromEthernet (memOf b) b.length with
    | .ok p, .ok x =>
      (x.p.link = some (.eth2 ⟨0, 14⟩) ∧ p.link = some (.eth2 ⟨0, b.length⟩) ∧ x.p.exts = p.exts.map hdrExt ∧
        NetAgree x.p.net p.net ∧ x.p.tp = p.tp ∧
        (StopAgree 0 x.p.stop p.stop ∨ ShortV4Stops (memOf b) x.p.stop p.stop) ∧
        PayAgreeLax (memOf b) x.pay p) ∨ EarlyLax x
    | .error e, .error e' => e = e'
    | _, _ => False :=
  lax_from_ethernet_agree (memOf b) b.length

/-- LaxPacketHeaders::from_ip vs LaxSlicedPacket::from_ip -/
theorem lax_headers_from_ip_agree_with_slicing (b : Bytes) :
    match laxSlicedFromIp (memOf b) b.length, lphFromIp (memOf b) b.length with
    | .ok p, .ok x => LaxAgree (memOf b) 0 x p Packet.empty Packet.empty ∨ EarlyLax x
    | .error e, .error e' => e = e' ∨ (memOf b 0 / 16 = 4 ∧ b.length < 20)
    | _, _ => False :=
  lax_from_ip_agree (memOf b) b.length

/-- consequence: slicing never accepts what struct decoding rejects -/
theorem struct_rejects_implies_slicing_rejects (et : Nat) (b : Bytes) (e : PErr)
    (h : phFromEtherType (memOf b) et 0 b.length = .error e) :
    slicedFromEtherType (memOf b) et b.length = .error e := by
  have hv := headers_from_ether_type_agree_with_slicing et b
  rw [h] at hv
  cases hs : slicedFromEtherType (memOf b) et b.length with
  | ok p => rw [hs] at hv; simp [Verdict] at hv
  | error e' =>
    rw [hs] at hv
    simp only [Verdict] at hv
    rw [hv, lenAddOff_zero]

/-- UDP: the slice handed out never extends past the UDP length field nor past the data. -/
theorem udp_within (g : Mem) (o l : Nat) (w : Win) (h : udpFromSlice g o l = .ok w) :
    o ≤ w.o ∧ w.o + w.l ≤ o + l := by
  unfold udpFromSlice at h
  split at h
  · contradiction
  · simp only at h
    split at h
    · contradiction
    · split at h
      · cases h; simp
      · split at h
        · contradiction
        · cases h; simp; omega

end EpModel.Props.C04
