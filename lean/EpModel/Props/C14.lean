import EpModel.Model.Setters
import EpModel.Props.C08Net
import EpModel.Props.C08Link
/-
  C14 — out-of-range lengths and values are rejected, never truncated.

  Model: EpModel.Model.Setters (the length taking constructors / setters / checksum entry points)
  over the C08 codec models (EpModel.Model.Codec.*: header structures, `toBytes`, `fromSlice`).
  Per API (one namespace each), for every header state and every length `n` (no bound on `n`):
    accepts_iff       the call succeeds ↔ n + c ≤ 2^w − 1 (∧ alignment rule), where c is the overhead
                      the code adds (header / extension header length) and w the width of the wire
                      field: the stated maximum is the true maximum
    rejects_with      otherwise the result is exactly the error value with `actual` = the offending
                      and `max_allowed` = the allowed value (MACsec: short length 0), and the header
                      comes back unchanged (`&mut` setters return the header as second component)
    encodes_exactly   an accepted value is stored without reduction and the serialised header
                      decodes to it: `fromSlice (toBytes h' ++ tail) = ok (h', tail)` by the C08
                      theorems for the new header, plus a direct big endian read of the field from
                      `toBytes h'` (`be16 … = n + c`, `(byte + 2) * 4 = 12 + n`, …); for the
                      checksum entry points: the length summed into the pseudo header is n + c
    wraps_without_check  the cast / fixed width addition behind the check (`% 2^k` in the model) is
                      not the identity just above the limit: the check is what protects
  One statement is false for the code as it is and kept visible as a `_full_statement` with its
  negation proved on the model: `UdpCalcChecksum.v6_pseudo_length_full_statement` (known finding
  F14).  Hypotheses are the decidable `WF` predicates of the C08 models (field ranges of the Rust
  types); the section `Examples` shows they are satisfiable and exercises every limit.
-/
namespace EpModel.Props.C14
open EpModel EpModel.Setters EpModel.CodecNet

theorem ipv4_totalLen_field (h : Ipv4Header) (wf : h.WF) : be16 h.toBytes 2 = h.totalLen := by
  rw [Lemmas.CodecNet.Ipv4.toBytes_eq h wf, Lemmas.CodecNet.Ipv4.fixedPart_eq h _ wf]
  have := wf.2.2.1
  simp [be16, bAt]
  omega

namespace Ipv4New

theorem accepts_iff (n ttl proto : Nat) (src dst : Bytes) :
    isOk (ipv4New n ttl proto src dst) = true ↔ n + 20 ≤ 65535 := by
  unfold ipv4New; split <;> simp [isOk] <;> omega

theorem rejects_with (n ttl proto : Nat) (src dst : Bytes) (h : ¬ n + 20 ≤ 65535) :
    ipv4New n ttl proto src dst =
      .error { actual := n, maxAllowed := 65535 - 20, vt := .ipv4PayloadLength } := by
  unfold ipv4New; rw [if_pos (by omega)]

theorem encodes_exactly (n ttl proto : Nat) (src dst tail : Bytes) (h : Ipv4Header)
    (httl : ttl < 256) (hproto : proto < 256) (hsrc : src.length = 4) (hdst : dst.length = 4)
    (hok : ipv4New n ttl proto src dst = .ok h) :
    h.WF ∧ Ipv4Header.fromSlice (h.toBytes ++ tail) = .ok (h, tail) ∧ h.totalLen = n + 20 ∧
      be16 h.toBytes 2 = n + 20 := by
  unfold ipv4New at hok
  split at hok
  · cases hok
  · injection hok with hok
    have wf : h.WF := by
      subst hok; unfold Ipv4Header.WF; simp [hsrc, hdst, httl, hproto]; omega
    have ht : h.totalLen = n + 20 := by subst hok; simp; omega
    exact ⟨wf, C08Net.Ipv4.decode_encode h tail wf, ht, by rw [ipv4_totalLen_field h wf, ht]⟩

end Ipv4New

/-! ## `Ipv4Header::set_payload_len` / `max_payload_len` -/
namespace Ipv4SetPayloadLen

/-- the stated maximum is the true maximum: `max_payload_len() + header_len() = 65535`. -/
theorem max_is_true_max (h : Ipv4Header) (wf : h.WF) : ipv4MaxPayloadLen h + h.headerLen = 65535 := by
  have := wf.2.2.2.2.2.2.2.2.2.2.1
  unfold ipv4MaxPayloadLen Ipv4Header.optLenU8 Ipv4Header.headerLen; omega

theorem accepts_iff (h : Ipv4Header) (wf : h.WF) (n : Nat) :
    isOk (ipv4SetPayloadLen h n).1 = true ↔ n + h.headerLen ≤ 65535 := by
  have := max_is_true_max h wf
  unfold ipv4SetPayloadLen
  simp only
  split <;> simp [isOk] <;> omega

theorem rejects_with (h : Ipv4Header) (wf : h.WF) (n : Nat) (hn : ¬ n + h.headerLen ≤ 65535) :
    ipv4SetPayloadLen h n =
      (.error { actual := n, maxAllowed := 65535 - h.headerLen, vt := .ipv4PayloadLength }, h) := by
  have := max_is_true_max h wf
  unfold ipv4SetPayloadLen
  simp only
  rw [if_pos (by omega)]
  congr 3; omega

/-- the header comes back untouched from every rejected call (no hypothesis on the header). -/
theorem unchanged_on_error (h : Ipv4Header) (n : Nat) (hn : isOk (ipv4SetPayloadLen h n).1 = false) :
    (ipv4SetPayloadLen h n).2 = h := by
  unfold ipv4SetPayloadLen at hn ⊢
  simp only at hn ⊢
  split <;> simp_all [isOk]

theorem encodes_exactly (h : Ipv4Header) (wf : h.WF) (n : Nat) (tail : Bytes)
    (hok : isOk (ipv4SetPayloadLen h n).1 = true) :
    let h' := (ipv4SetPayloadLen h n).2
    h'.WF ∧ Ipv4Header.fromSlice (h'.toBytes ++ tail) = .ok (h', tail) ∧
      h'.totalLen = n + h.headerLen ∧ be16 h'.toBytes 2 = n + h.headerLen ∧
      h' = { h with totalLen := n + h.headerLen } := by
  have hfit := (accepts_iff h wf n).1 hok
  have hmax := max_is_true_max h wf
  unfold ipv4SetPayloadLen
  simp only
  rw [if_neg (by omega)]
  simp only
  have e : (h.headerLen + n) % 65536 = n + h.headerLen := by omega
  rw [e]
  have wf' : Ipv4Header.WF { h with totalLen := n + h.headerLen } := by
    obtain ⟨a, b, _, d⟩ := wf
    exact ⟨a, b, by show n + h.headerLen < 65536; omega, d⟩
  exact ⟨wf', C08Net.Ipv4.decode_encode _ tail wf', rfl, ipv4_totalLen_field _ wf', rfl⟩

/-- without the check the `as u16` cast truncates: the length just above the maximum would be
    stored as 0. -/
theorem wraps_without_check (h : Ipv4Header) (wf : h.WF) :
    (h.headerLen + (ipv4MaxPayloadLen h + 1)) % 65536 = 0 := by
  have := max_is_true_max h wf; omega

end Ipv4SetPayloadLen

/-! ## `Ipv6Header::set_payload_length` -/

theorem ipv6_payloadLength_field (h : Ipv6Header) (wf : h.WF) : be16 h.toBytes 4 = h.payloadLength := by
  have := wf.2.2.1
  simp [Ipv6Header.toBytes, be16, bAt]
  omega

namespace Ipv6SetPayloadLength

theorem accepts_iff (h : Ipv6Header) (n : Nat) :
    isOk (ipv6SetPayloadLength h n).1 = true ↔ n ≤ 65535 := by
  unfold ipv6SetPayloadLength
  split <;> simp [isOk] <;> omega

theorem rejects_with (h : Ipv6Header) (n : Nat) (hn : ¬ n ≤ 65535) :
    ipv6SetPayloadLength h n =
      (.error { actual := n, maxAllowed := 65535, vt := .ipv6PayloadLength }, h) := by
  unfold ipv6SetPayloadLength
  rw [if_pos (by omega)]

theorem encodes_exactly (h : Ipv6Header) (wf : h.WF) (n : Nat) (tail : Bytes) (hn : n ≤ 65535) :
    let h' := (ipv6SetPayloadLength h n).2
    (ipv6SetPayloadLength h n).1 = .ok () ∧
    h'.WF ∧ Ipv6Header.fromSlice (h'.toBytes ++ tail) = .ok (h', tail) ∧
      h'.payloadLength = n ∧ be16 h'.toBytes 4 = n ∧ h' = { h with payloadLength := n } := by
  unfold ipv6SetPayloadLength
  rw [if_neg (by omega)]
  simp only
  have e : n % 65536 = n := by omega
  rw [e]
  have wf' : Ipv6Header.WF { h with payloadLength := n } := by
    obtain ⟨a, b, _, d⟩ := wf
    exact ⟨a, b, by show n < 65536; omega, d⟩
  exact ⟨trivial, wf', C08Net.Ipv6.decode_encode _ tail wf', rfl, ipv6_payloadLength_field _ wf', rfl⟩

theorem wraps_without_check : (65535 + 1) % 65536 = 0 ∧ (65536 + 1500) % 65536 = 1500 := by decide

end Ipv6SetPayloadLength


/-! ## `IpHeaders::set_payload_len` -/
namespace IpHeadersSetPayloadLen

/-- IPv4 (+ authentication header): the overhead is the IPv4 header plus the extension headers. -/
theorem v4_accepts_iff (h : Ipv4Header) (wf : h.WF) (e : Ipv4Extensions) (n : Nat) :
    isOk (ipHeadersSetPayloadLen (.v4 h e) n).1 = true ↔ n + e.headerLen + h.headerLen ≤ 65535 := by
  unfold ipHeadersSetPayloadLen
  simp only
  split
  · exact Ipv4SetPayloadLen.accepts_iff h wf (n + e.headerLen)
  · simp [isOk, usizeMax] at *; omega

/-- rejected, sum representable in `usize`: the error is the one of the IPv4 header, about the
    payload of the IPv4 header (extension headers + n); header and extensions unchanged. -/
theorem v4_rejects_with (h : Ipv4Header) (wf : h.WF) (e : Ipv4Extensions) (n : Nat)
    (hn : ¬ n + e.headerLen + h.headerLen ≤ 65535) (hu : n + e.headerLen ≤ usizeMax) :
    ipHeadersSetPayloadLen (.v4 h e) n =
      (.error { actual := n + e.headerLen, maxAllowed := 65535 - h.headerLen,
                vt := .ipv4PayloadLength }, .v4 h e) := by
  unfold ipHeadersSetPayloadLen
  simp only
  rw [if_pos hu, Ipv4SetPayloadLen.rejects_with h wf _ hn]

/-- rejected because `len + ext_len` overflows `usize`: error about `len` itself with the maximum
    for `len`; unchanged. -/
theorem v4_rejects_with_overflow (h : Ipv4Header) (e : Ipv4Extensions) (n : Nat)
    (hu : ¬ n + e.headerLen ≤ usizeMax) :
    ipHeadersSetPayloadLen (.v4 h e) n =
      (.error { actual := n, maxAllowed := 65535 - h.headerLen - e.headerLen,
                vt := .ipv4PayloadLength }, .v4 h e) := by
  unfold ipHeadersSetPayloadLen
  simp only
  rw [if_neg hu]

/-- in both rejection frames the reported pair describes the same excess:
    `actual - max_allowed = (n + c) - 65535` -/
theorem v4_error_consistent (h : Ipv4Header) (wf : h.WF) (e : Ipv4Extensions) (n : Nat) (err : TooBig)
    (he : e.headerLen + h.headerLen ≤ 65535)
    (hr : (ipHeadersSetPayloadLen (.v4 h e) n).1 = .error err) :
    err.actual + 65535 = err.maxAllowed + (n + e.headerLen + h.headerLen) ∧
      err.maxAllowed < err.actual ∧ err.vt = .ipv4PayloadLength ∧
      (ipHeadersSetPayloadLen (.v4 h e) n).2 = .v4 h e := by
  have hn : ¬ n + e.headerLen + h.headerLen ≤ 65535 := by
    intro hc
    have := (v4_accepts_iff h wf e n).2 hc
    rw [hr] at this; simp [isOk] at this
  by_cases hu : n + e.headerLen ≤ usizeMax
  · rw [v4_rejects_with h wf e n hn hu] at hr ⊢
    injection hr with hr; subst hr
    exact ⟨by simp only; omega, by simp only; omega, rfl, rfl⟩
  · rw [v4_rejects_with_overflow h e n hu] at hr ⊢
    injection hr with hr; subst hr
    exact ⟨by simp only; omega, by simp only; omega, rfl, rfl⟩

theorem v4_encodes_exactly (h : Ipv4Header) (wf : h.WF) (e : Ipv4Extensions) (n : Nat) (tail : Bytes)
    (hn : n + e.headerLen + h.headerLen ≤ 65535) :
    ∃ h' : Ipv4Header, ipHeadersSetPayloadLen (.v4 h e) n = (.ok (), .v4 h' e) ∧
      h'.WF ∧ Ipv4Header.fromSlice (h'.toBytes ++ tail) = .ok (h', tail) ∧
      be16 h'.toBytes 2 = n + e.headerLen + h.headerLen ∧
      h' = { h with totalLen := n + e.headerLen + h.headerLen } := by
  have hok := (Ipv4SetPayloadLen.accepts_iff h wf (n + e.headerLen)).2 hn
  obtain ⟨w, d, _, f, g⟩ := Ipv4SetPayloadLen.encodes_exactly h wf (n + e.headerLen) tail hok
  refine ⟨(ipv4SetPayloadLen h (n + e.headerLen)).2, ?_, w, d, f, g⟩
  unfold ipHeadersSetPayloadLen
  simp only
  rw [if_pos (by unfold usizeMax; omega)]
  generalize hr : ipv4SetPayloadLen h (n + e.headerLen) = r at hok
  obtain ⟨r1, r2⟩ := r
  cases r1 with
  | ok u => rfl
  | error _ => simp [isOk] at hok

/-- IPv6 (+ extension headers) -/
theorem v6_accepts_iff (h : Ipv6Header) (e : Ipv6Exts) (n : Nat) :
    isOk (ipHeadersSetPayloadLen (.v6 h e) n).1 = true ↔ n + e.headerLen ≤ 65535 := by
  unfold ipHeadersSetPayloadLen
  simp only
  split
  · exact Ipv6SetPayloadLength.accepts_iff h (n + e.headerLen)
  · simp [isOk, usizeMax] at *; omega

theorem v6_rejects_with (h : Ipv6Header) (e : Ipv6Exts) (n : Nat)
    (hn : ¬ n + e.headerLen ≤ 65535) (hu : n + e.headerLen ≤ usizeMax) :
    ipHeadersSetPayloadLen (.v6 h e) n =
      (.error { actual := n + e.headerLen, maxAllowed := 65535, vt := .ipv6PayloadLength },
       .v6 h e) := by
  unfold ipHeadersSetPayloadLen
  simp only
  rw [if_pos hu, Ipv6SetPayloadLength.rejects_with h _ hn]

/-- the `usize` overflow branch of the IPv6 arm (only reachable with `len > 2^64 - 1 - ext_len`,
    outside the property's quantifier 0..2^32): the maximum is the right one for `len`, but the
    value type names the IPv4 field — the code says `ValueType::Ipv4PayloadLength` here. -/
theorem v6_rejects_with_overflow (h : Ipv6Header) (e : Ipv6Exts) (n : Nat)
    (hu : ¬ n + e.headerLen ≤ usizeMax) :
    ipHeadersSetPayloadLen (.v6 h e) n =
      (.error { actual := n, maxAllowed := 65535 - e.headerLen, vt := .ipv4PayloadLength },
       .v6 h e) := by
  unfold ipHeadersSetPayloadLen
  simp only
  rw [if_neg hu]

/-- inside the quantified domain the overflow branch is not taken, so the value type is right. -/
theorem v6_value_type_in_domain (h : Ipv6Header) (e : Ipv6Exts) (n : Nat) (err : TooBig)
    (hn : n ≤ 2 ^ 32) (he : e.headerLen ≤ 65535)
    (hr : (ipHeadersSetPayloadLen (.v6 h e) n).1 = .error err) :
    err = { actual := n + e.headerLen, maxAllowed := 65535, vt := .ipv6PayloadLength } ∧
      (ipHeadersSetPayloadLen (.v6 h e) n).2 = .v6 h e := by
  have hu : n + e.headerLen ≤ usizeMax := by unfold usizeMax; omega
  have hnn : ¬ n + e.headerLen ≤ 65535 := by
    intro hc
    have := (v6_accepts_iff h e n).2 hc
    rw [hr] at this; simp [isOk] at this
  rw [v6_rejects_with h e n hnn hu] at hr ⊢
  injection hr with hr
  exact ⟨hr.symm, rfl⟩

theorem v6_encodes_exactly (h : Ipv6Header) (wf : h.WF) (e : Ipv6Exts) (n : Nat) (tail : Bytes)
    (hn : n + e.headerLen ≤ 65535) :
    ∃ h' : Ipv6Header, ipHeadersSetPayloadLen (.v6 h e) n = (.ok (), .v6 h' e) ∧
      h'.WF ∧ Ipv6Header.fromSlice (h'.toBytes ++ tail) = .ok (h', tail) ∧
      be16 h'.toBytes 4 = n + e.headerLen ∧ h' = { h with payloadLength := n + e.headerLen } := by
  obtain ⟨ok, w, d, _, f, g⟩ := Ipv6SetPayloadLength.encodes_exactly h wf (n + e.headerLen) tail hn
  refine ⟨(ipv6SetPayloadLength h (n + e.headerLen)).2, ?_, w, d, f, g⟩
  unfold ipHeadersSetPayloadLen
  simp only
  rw [if_pos (by unfold usizeMax; omega), ok]

end IpHeadersSetPayloadLen


/-! ## UDP -/

theorem swap16_lt (v : Nat) : Checksum.swap16 v < 65536 := by
  unfold Checksum.swap16; omega

theorem udp_length_field (h : Codec.Udp) (wf : h.WF) : be16 h.toBytes 4 = h.len := by
  obtain ⟨_, _, hl, _⟩ := wf
  simp [Codec.Udp.toBytes, enc16, be16, bAt]
  omega

namespace UdpWithoutIpv4Checksum

theorem accepts_iff (sp dp n : Nat) :
    isOk (udpWithoutIpv4Checksum sp dp n) = true ↔ n + 8 ≤ 65535 := by
  unfold udpWithoutIpv4Checksum; split <;> simp [isOk] <;> omega

theorem rejects_with (sp dp n : Nat) (hn : ¬ n + 8 ≤ 65535) :
    udpWithoutIpv4Checksum sp dp n =
      .error { actual := n, maxAllowed := 65535 - 8, vt := .udpPayloadLengthIpv4 } := by
  unfold udpWithoutIpv4Checksum; rw [if_pos (by omega)]

theorem encodes_exactly (sp dp n : Nat) (tail : Bytes) (h : Codec.Udp) (hsp : sp < 65536)
    (hdp : dp < 65536) (hok : udpWithoutIpv4Checksum sp dp n = .ok h) :
    h = { sp := sp, dp := dp, len := n + 8, ck := 0 } ∧ h.WF ∧
      Codec.Udp.fromSlice (h.toBytes ++ tail) = .ok (h, tail) ∧ be16 h.toBytes 4 = n + 8 := by
  unfold udpWithoutIpv4Checksum at hok
  split at hok
  · cases hok
  · injection hok with hok
    have e : (8 + n) % 65536 = n + 8 := by omega
    rw [e] at hok
    subst hok
    have wf : Codec.Udp.WF { sp := sp, dp := dp, len := n + 8, ck := 0 } :=
      ⟨hsp, hdp, by show n + 8 < 65536; omega, by show (0 : Nat) < 65536; omega⟩
    exact ⟨rfl, wf, C08Link.Udp.decode_encode _ tail wf, udp_length_field _ wf⟩

/-- without the check `(8 + n) as u16` truncates: 65528 payload bytes would be stored as length 0. -/
theorem wraps_without_check : (8 + 65528) % 65536 = 0 := by decide

end UdpWithoutIpv4Checksum

namespace UdpWithChecksum

theorem v4_accepts_iff (sp dp : Nat) (src dst payload : Bytes) :
    isOk (udpWithIpv4Checksum sp dp src dst payload) = true ↔ payload.length + 8 ≤ 65535 := by
  unfold udpWithIpv4Checksum; split <;> simp [isOk] <;> omega

theorem v4_rejects_with (sp dp : Nat) (src dst payload : Bytes) (hn : ¬ payload.length + 8 ≤ 65535) :
    udpWithIpv4Checksum sp dp src dst payload =
      .error { actual := payload.length, maxAllowed := 65535 - 8, vt := .udpPayloadLengthIpv4 } := by
  unfold udpWithIpv4Checksum; rw [if_pos (by omega)]

/-- accepted: the length field is `payload.len() + 8` exactly and the checksum is the one of the
    header carrying that length (so the pseudo header carries it too). -/
theorem v4_encodes_exactly (sp dp : Nat) (src dst payload tail : Bytes) (h : Codec.Udp)
    (hsp : sp < 65536) (hdp : dp < 65536) (hok : udpWithIpv4Checksum sp dp src dst payload = .ok h) :
    h.len = payload.length + 8 ∧
      h.ck = udpCkIpv4Internal { sp := sp, dp := dp, len := payload.length + 8, ck := 0 } src dst payload ∧
      h.sp = sp ∧ h.dp = dp ∧ h.WF ∧
      Codec.Udp.fromSlice (h.toBytes ++ tail) = .ok (h, tail) ∧
      be16 h.toBytes 4 = payload.length + 8 := by
  unfold udpWithIpv4Checksum at hok
  split at hok
  · cases hok
  · injection hok with hok
    have e : (8 + payload.length) % 65536 = payload.length + 8 := by omega
    rw [e] at hok
    have hl : h.len = payload.length + 8 := by subst hok; rfl
    have wf : h.WF := by
      subst hok; exact ⟨hsp, hdp, by show payload.length + 8 < 65536; omega, swap16_lt _⟩
    exact ⟨hl, by subst hok; rfl, by subst hok; rfl, by subst hok; rfl, wf,
      C08Link.Udp.decode_encode h tail wf, by rw [udp_length_field h wf, hl]⟩

theorem v6_accepts_iff (sp dp : Nat) (src dst payload : Bytes) :
    isOk (udpWithIpv6Checksum sp dp src dst payload) = true ↔ payload.length + 8 ≤ 65535 := by
  unfold udpWithIpv6Checksum; split <;> simp [isOk] <;> omega

theorem v6_rejects_with (sp dp : Nat) (src dst payload : Bytes) (hn : ¬ payload.length + 8 ≤ 65535) :
    udpWithIpv6Checksum sp dp src dst payload =
      .error { actual := payload.length, maxAllowed := 65535 - 8, vt := .udpPayloadLengthIpv6 } := by
  unfold udpWithIpv6Checksum; rw [if_pos (by omega)]

theorem v6_encodes_exactly (sp dp : Nat) (src dst payload tail : Bytes) (h : Codec.Udp)
    (hsp : sp < 65536) (hdp : dp < 65536) (hok : udpWithIpv6Checksum sp dp src dst payload = .ok h) :
    h.len = payload.length + 8 ∧
      h.ck = udpCkIpv6Internal { sp := sp, dp := dp, len := payload.length + 8, ck := 0 } src dst payload ∧
      h.sp = sp ∧ h.dp = dp ∧ h.WF ∧
      Codec.Udp.fromSlice (h.toBytes ++ tail) = .ok (h, tail) ∧
      be16 h.toBytes 4 = payload.length + 8 := by
  unfold udpWithIpv6Checksum at hok
  split at hok
  · cases hok
  · injection hok with hok
    have e : (8 + payload.length) % 65536 = payload.length + 8 := by omega
    rw [e] at hok
    have hl : h.len = payload.length + 8 := by subst hok; rfl
    have wf : h.WF := by
      subst hok; exact ⟨hsp, hdp, by show payload.length + 8 < 65536; omega, swap16_lt _⟩
    exact ⟨hl, by subst hok; rfl, by subst hok; rfl, by subst hok; rfl, wf,
      C08Link.Udp.decode_encode h tail wf, by rw [udp_length_field h wf, hl]⟩

end UdpWithChecksum

namespace UdpCalcChecksum

theorem v4_accepts_iff (h : Codec.Udp) (src dst payload : Bytes) :
    isOk (udpCalcChecksumIpv4Raw h src dst payload) = true ↔ payload.length + 8 ≤ 65535 := by
  unfold udpCalcChecksumIpv4Raw; split <;> simp [isOk] <;> omega

theorem v4_rejects_with (h : Codec.Udp) (src dst payload : Bytes) (hn : ¬ payload.length + 8 ≤ 65535) :
    udpCalcChecksumIpv4Raw h src dst payload =
      .error { actual := payload.length, maxAllowed := 65535 - 8, vt := .udpPayloadLengthIpv4 } := by
  unfold udpCalcChecksumIpv4Raw; rw [if_pos (by omega)]

/-- the length summed into the pseudo header is the header's own 16 bit length field (RFC 768);
    for every accepted payload there is a header value for which this is the true length. -/
theorem v4_encodes_exactly (h : Codec.Udp) (src dst payload : Bytes) (hn : payload.length + 8 ≤ 65535) :
    udpCalcChecksumIpv4Raw h src dst payload = .ok (udpCkIpv4Internal h src dst payload) ∧
      be16 (udpPseudoLen { h with len := payload.length + 8 }) 0 = payload.length + 8 := by
  unfold udpCalcChecksumIpv4Raw
  rw [if_neg (by omega)]
  refine ⟨rfl, ?_⟩
  simp [udpPseudoLen, enc16, be16, bAt]; omega

theorem v6_accepts_iff (h : Codec.Udp) (src dst payload : Bytes) :
    isOk (udpCalcChecksumIpv6Raw h src dst payload) = true ↔ payload.length + 8 ≤ 4294967295 := by
  unfold udpCalcChecksumIpv6Raw; split <;> simp [isOk] <;> omega

theorem v6_rejects_with (h : Codec.Udp) (src dst payload : Bytes)
    (hn : ¬ payload.length + 8 ≤ 4294967295) :
    udpCalcChecksumIpv6Raw h src dst payload =
      .error { actual := payload.length, maxAllowed := 4294967295 - 8, vt := .udpPayloadLengthIpv6 } := by
  unfold udpCalcChecksumIpv6Raw; rw [if_pos (by omega)]

/-- FULL STATEMENT (false for the code as it is, see `v6_pseudo_length_full_statement_false`;
    known finding F14): every payload length `calc_checksum_ipv6_raw` accepts can be put into the
    pseudo header, i.e. there is a header value whose pseudo header length is `payload.len() + 8`.
    The IPv6 pseudo header has a 32 bit upper-layer length (RFC 8200 §8.1, RFC 2675 §4 for UDP
    beyond 65535), the code sums the 16 bit `self.length`. -/
def v6_pseudo_length_full_statement : Prop :=
  ∀ (h : Codec.Udp) (src dst payload : Bytes),
    isOk (udpCalcChecksumIpv6Raw h src dst payload) = true →
      ∃ len : Nat, be16 (udpPseudoLen { h with len := len } ++ []) 0 = payload.length + 8

/-- what holds: the statement restricted to payloads the 16 bit length field can describe
    (exactly the payloads `with_ipv6_checksum` accepts). -/
theorem v6_pseudo_length_partial (h : Codec.Udp) (src dst payload : Bytes)
    (hn : payload.length + 8 ≤ 65535) :
    udpCalcChecksumIpv6Raw h src dst payload = .ok (udpCkIpv6Internal h src dst payload) ∧
      be16 (udpPseudoLen { h with len := payload.length + 8 } ++ []) 0 = payload.length + 8 := by
  unfold udpCalcChecksumIpv6Raw
  rw [if_neg (by omega)]
  refine ⟨rfl, ?_⟩
  simp [udpPseudoLen, enc16, be16, bAt]; omega

/-- the negation on the model: 65528 payload bytes are accepted, and no header value makes the
    pseudo header carry the length 65536. -/
theorem v6_pseudo_length_full_statement_false : ¬ v6_pseudo_length_full_statement := by
  intro hfull
  have hacc : isOk (udpCalcChecksumIpv6Raw ⟨0, 0, 0, 0⟩ [] [] (List.replicate 65528 0)) = true := by
    rw [v6_accepts_iff, List.length_replicate]; omega
  obtain ⟨len, hlen⟩ := hfull ⟨0, 0, 0, 0⟩ [] [] (List.replicate 65528 0) hacc
  have hlt : be16 (udpPseudoLen { (⟨0, 0, 0, 0⟩ : Codec.Udp) with len := len } ++ []) 0 < 65536 :=
    be16_lt _ _
  rw [hlen, List.length_replicate] at hlt
  omega

end UdpCalcChecksum


/-! ## TCP: `TcpHeader::calc_checksum_ipv4(_raw)` / `calc_checksum_ipv6(_raw)`,
    `TcpSlice::calc_checksum_ipv4` / `calc_checksum_ipv6` -/
namespace TcpCalcChecksum

theorem v4_accepts_iff (h : Codec.Tcp) (src dst payload : Bytes) (hl : h.opts.len ≤ 40) :
    isOk (tcpCalcChecksumIpv4Raw h src dst payload) = true ↔ payload.length + h.headerLen ≤ 65535 := by
  unfold tcpCalcChecksumIpv4Raw Codec.Tcp.headerLen
  simp only
  split <;> simp [isOk] <;> omega

theorem v4_rejects_with (h : Codec.Tcp) (src dst payload : Bytes) (hl : h.opts.len ≤ 40)
    (hn : ¬ payload.length + h.headerLen ≤ 65535) :
    tcpCalcChecksumIpv4Raw h src dst payload =
      .error { actual := payload.length, maxAllowed := 65535 - h.headerLen,
               vt := .tcpPayloadLengthIpv4 } := by
  unfold tcpCalcChecksumIpv4Raw
  simp only
  rw [if_pos (by unfold Codec.Tcp.headerLen at *; omega)]

/-- accepted: the TCP length summed into the pseudo header is `header_len + payload.len()`
    exactly (neither the `as u16` cast nor the `u16` addition wraps). -/
theorem v4_encodes_exactly (h : Codec.Tcp) (src dst payload : Bytes)
    (hn : payload.length + h.headerLen ≤ 65535) :
    tcpLenIpv4 h payload.length = h.headerLen + payload.length ∧
    tcpCalcChecksumIpv4Raw h src dst payload =
      .ok (tcpCkPostIp h (tcpPseudoIpv4 src dst (h.headerLen + payload.length)) payload) ∧
    be16 (enc16 (h.headerLen + payload.length) ++ []) 0 = h.headerLen + payload.length := by
  have e : tcpLenIpv4 h payload.length = h.headerLen + payload.length := by
    unfold tcpLenIpv4 tcpHeaderLenU16 Codec.Tcp.headerLen at *; omega
  refine ⟨e, ?_, Lemmas.Codec.be16_enc16 _ _ (by omega)⟩
  unfold tcpCalcChecksumIpv4Raw
  simp only
  rw [if_neg (by omega), e]

/-- without the check the 16 bit length wraps: one byte above the maximum gives TCP length 0. -/
theorem v4_wraps_without_check (h : Codec.Tcp) (hl : h.opts.len ≤ 40) :
    tcpLenIpv4 h (65535 - h.headerLen + 1) = 0 := by
  unfold tcpLenIpv4 tcpHeaderLenU16 Codec.Tcp.headerLen; omega

theorem v6_accepts_iff (h : Codec.Tcp) (src dst payload : Bytes) (hl : h.opts.len ≤ 40) :
    isOk (tcpCalcChecksumIpv6Raw h src dst payload) = true ↔
      payload.length + h.headerLen ≤ 4294967295 := by
  unfold tcpCalcChecksumIpv6Raw Codec.Tcp.headerLen
  simp only
  split <;> simp [isOk] <;> omega

theorem v6_rejects_with (h : Codec.Tcp) (src dst payload : Bytes) (hl : h.opts.len ≤ 40)
    (hn : ¬ payload.length + h.headerLen ≤ 4294967295) :
    tcpCalcChecksumIpv6Raw h src dst payload =
      .error { actual := payload.length, maxAllowed := 4294967295 - h.headerLen,
               vt := .tcpPayloadLengthIpv6 } := by
  unfold tcpCalcChecksumIpv6Raw
  simp only
  rw [if_pos (by unfold Codec.Tcp.headerLen at *; omega)]

theorem v6_encodes_exactly (h : Codec.Tcp) (src dst payload : Bytes)
    (hn : payload.length + h.headerLen ≤ 4294967295) :
    tcpLenIpv6 h payload.length = h.headerLen + payload.length ∧
    tcpCalcChecksumIpv6Raw h src dst payload =
      .ok (tcpCkPostIp h (tcpPseudoIpv6 src dst (h.headerLen + payload.length)) payload) ∧
    be32 (enc32 (h.headerLen + payload.length) ++ []) 0 = h.headerLen + payload.length := by
  have e : tcpLenIpv6 h payload.length = h.headerLen + payload.length := by
    unfold tcpLenIpv6 tcpHeaderLenU16 Codec.Tcp.headerLen at *; omega
  refine ⟨e, ?_, Lemmas.Codec.be32_enc32 _ _ (by omega)⟩
  unfold tcpCalcChecksumIpv6Raw
  simp only
  rw [if_neg (by omega), e]

theorem v6_wraps_without_check (h : Codec.Tcp) (hl : h.opts.len ≤ 40) :
    tcpLenIpv6 h (4294967295 - h.headerLen + 1) = 0 := by
  unfold tcpLenIpv6 tcpHeaderLenU16 Codec.Tcp.headerLen; omega

/-- `TcpSlice`: the slice is header ++ payload, the checked value is its whole length. -/
theorem slice_v4_accepts_iff (hdr payload src dst : Bytes) :
    isOk (tcpSliceCalcChecksumIpv4 (hdr ++ payload) src dst) = true ↔
      payload.length + hdr.length ≤ 65535 := by
  unfold tcpSliceCalcChecksumIpv4
  simp only [List.length_append]
  split <;> simp [isOk] <;> omega

theorem slice_v4_rejects_with (slice src dst : Bytes) (hn : ¬ slice.length ≤ 65535) :
    tcpSliceCalcChecksumIpv4 slice src dst =
      .error { actual := slice.length, maxAllowed := 65535, vt := .tcpPayloadLengthIpv4 } := by
  unfold tcpSliceCalcChecksumIpv4
  rw [if_pos (by omega)]

theorem slice_v4_encodes_exactly (slice src dst : Bytes) (hn : slice.length ≤ 65535) :
    tcpSliceCalcChecksumIpv4 slice src dst =
      .ok (tcpSliceCkPostIp slice (tcpPseudoIpv4 src dst slice.length)) ∧
    be16 (enc16 slice.length ++ []) 0 = slice.length := by
  unfold tcpSliceCalcChecksumIpv4
  rw [if_neg (by omega)]
  have e : slice.length % 65536 = slice.length := by omega
  rw [e]
  exact ⟨rfl, Lemmas.Codec.be16_enc16 _ _ (by omega)⟩

theorem slice_v6_accepts_iff (hdr payload src dst : Bytes) :
    isOk (tcpSliceCalcChecksumIpv6 (hdr ++ payload) src dst) = true ↔
      payload.length + hdr.length ≤ 4294967295 := by
  unfold tcpSliceCalcChecksumIpv6
  simp only [List.length_append]
  split <;> simp [isOk] <;> omega

theorem slice_v6_rejects_with (slice src dst : Bytes) (hn : ¬ slice.length ≤ 4294967295) :
    tcpSliceCalcChecksumIpv6 slice src dst =
      .error { actual := slice.length, maxAllowed := 4294967295, vt := .tcpPayloadLengthIpv6 } := by
  unfold tcpSliceCalcChecksumIpv6
  rw [if_pos (by omega)]

theorem slice_v6_encodes_exactly (slice src dst : Bytes) (hn : slice.length ≤ 4294967295) :
    tcpSliceCalcChecksumIpv6 slice src dst =
      .ok (tcpSliceCkPostIp slice (tcpSlicePseudoIpv6 src dst slice.length)) ∧
    be32 (enc32 slice.length ++ []) 0 = slice.length := by
  unfold tcpSliceCalcChecksumIpv6
  rw [if_neg (by omega)]
  have e : slice.length % 4294967296 = slice.length := by omega
  rw [e]
  exact ⟨rfl, Lemmas.Codec.be32_enc32 _ _ (by omega)⟩

theorem slice_wraps_without_check : 65536 % 65536 = 0 ∧ 4294967296 % 4294967296 = 0 := by decide

end TcpCalcChecksum

/-! ## ICMPv6: `Icmpv6Type::calc_checksum`, `Icmpv6Header::with_checksum` / `update_checksum` -/
namespace Icmp6CalcChecksum

theorem accepts_iff (t : Codec.Icmp6Type) (src dst payload : Bytes) :
    isOk (icmp6CalcChecksum t src dst payload) = true ↔ payload.length + 8 ≤ 4294967295 := by
  unfold icmp6CalcChecksum
  simp only
  split <;> simp [isOk] <;> omega

theorem rejects_with (t : Codec.Icmp6Type) (src dst payload : Bytes)
    (hn : ¬ payload.length + 8 ≤ 4294967295) :
    icmp6CalcChecksum t src dst payload =
      .error { actual := payload.length, maxAllowed := 4294967295 - 8,
               vt := .icmpv6PayloadLength } := by
  unfold icmp6CalcChecksum
  simp only
  rw [if_pos (by omega)]

/-- accepted: the upper-layer length in the pseudo header is `payload.len() + 8` exactly. -/
theorem encodes_exactly (t : Codec.Icmp6Type) (src dst payload : Bytes)
    (hn : payload.length + 8 ≤ 4294967295) :
    icmp6MsgLenU32 payload.length = payload.length + 8 ∧
    icmp6CalcChecksum t src dst payload =
      .ok (Checksum.swap16 (Checksum.onesComplement64 (Checksum.addSlice64
        (icmp6TypeSum t (icmp6Pseudo src dst (payload.length + 8))) payload))) ∧
    be32 (enc32 (payload.length + 8) ++ []) 0 = payload.length + 8 := by
  have e : icmp6MsgLenU32 payload.length = payload.length + 8 := by unfold icmp6MsgLenU32; omega
  refine ⟨e, ?_, Lemmas.Codec.be32_enc32 _ _ (by omega)⟩
  unfold icmp6CalcChecksum
  simp only
  rw [if_neg (by omega), e]

theorem wraps_without_check : icmp6MsgLenU32 (4294967295 - 8 + 1) = 0 := by decide

/-- `with_checksum`: same acceptance, the type is kept, the checksum is `calc_checksum`'s. -/
theorem with_checksum_iff (t : Codec.Icmp6Type) (src dst payload : Bytes) :
    isOk (icmp6WithChecksum t src dst payload) = isOk (icmp6CalcChecksum t src dst payload) ∧
    ∀ h, icmp6WithChecksum t src dst payload = .ok h →
      h.ty = t ∧ icmp6CalcChecksum t src dst payload = .ok h.ck := by
  unfold icmp6WithChecksum
  cases icmp6CalcChecksum t src dst payload with
  | error e => simp [isOk]
  | ok ck => simp [isOk]

/-- `update_checksum`: the header is unchanged when the payload is rejected. -/
theorem update_unchanged_on_error (h : Codec.Icmp6) (src dst payload : Bytes)
    (hn : ¬ payload.length + 8 ≤ 4294967295) :
    icmp6UpdateChecksum h src dst payload =
      (.error { actual := payload.length, maxAllowed := 4294967295 - 8,
                vt := .icmpv6PayloadLength }, h) := by
  unfold icmp6UpdateChecksum
  rw [rejects_with h.ty src dst payload hn]

end Icmp6CalcChecksum


/-! ## MACsec: `MacsecShortLen::from_len` / `try_from`, `MacsecHeader::set_payload_len` -/
namespace MacsecShortLen

theorem from_len_accepts_iff (n : Nat) : (macsecFromLen n = n) ↔ n ≤ 63 := by
  unfold macsecFromLen; split <;> omega

/-- a length that does not fit is stored as the documented "unknown" short length 0. -/
theorem from_len_rejects_with (n : Nat) (hn : ¬ n ≤ 63) : macsecFromLen n = 0 := by
  unfold macsecFromLen; rw [if_pos (by omega)]

theorem from_len_in_range (n : Nat) : macsecFromLen n ≤ 63 := by
  unfold macsecFromLen; split <;> omega

/-- without the check `len as u8` truncates: 256 + 5 would be stored as 5. -/
theorem from_len_wraps_without_check : (256 + 5) % 256 = 5 := by decide

theorem try_from_accepts_iff (n : Nat) : isOk (macsecTryFromU8 n) = true ↔ n ≤ 63 := by
  unfold macsecTryFromU8; split <;> simp [isOk] <;> omega

theorem try_from_rejects_with (n : Nat) (hn : ¬ n ≤ 63) :
    macsecTryFromU8 n = .error { actual := n, maxAllowed := 63, vt := .macsecShortLen } := by
  unfold macsecTryFromU8; rw [if_neg hn]

theorem try_from_encodes_exactly (n : Nat) (hn : n ≤ 63) : macsecTryFromU8 n = .ok n := by
  unfold macsecTryFromU8; rw [if_pos hn]

end MacsecShortLen

namespace MacsecSetPayloadLen

/-- overhead counted by the short length: the ether type of an unmodified packet -/
def overhead (h : Codec.Macsec) : Nat := if h.isUnmodified then 2 else 0

/-- the short length byte of the serialised header is the stored short length -/
theorem short_len_field (h : Codec.Macsec) (hsl : h.sl ≤ 63) : bAt h.toBytes 1 = h.sl := by
  have e : h.sl &&& 63 = h.sl := by
    rw [Lemmas.CodecNet.and63]; omega
  unfold Codec.Macsec.toBytes
  cases h.sci.isSome <;> cases h.isUnmodified <;> simp [bAt, e] <;> omega

theorem accepts_iff (h : Codec.Macsec) (n : Nat) :
    (macsecSetPayloadLen h n).sl = n + overhead h ↔ n + overhead h ≤ 63 := by
  unfold macsecSetPayloadLen overhead macsecShortLenMax
  cases h.isUnmodified <;> simp <;> split <;> simp <;> omega

/-- a payload length that does not fit sets the "unknown" short length 0; every other field of
    the header is left as it was (in both cases). -/
theorem rejects_with (h : Codec.Macsec) (n : Nat) (hn : ¬ n + overhead h ≤ 63) :
    macsecSetPayloadLen h n = { h with sl := 0 } := by
  unfold macsecSetPayloadLen overhead macsecShortLenMax at *
  cases hu : h.isUnmodified <;> simp [hu] at hn ⊢ <;> omega

theorem encodes_exactly (h : Codec.Macsec) (n : Nat) (hn : n + overhead h ≤ 63) :
    macsecSetPayloadLen h n = { h with sl := n + overhead h } ∧
      bAt (macsecSetPayloadLen h n).toBytes 1 = n + overhead h ∧
      (1 ≤ n + overhead h → macsecExpectedPayloadLen (macsecSetPayloadLen h n) = some n) := by
  have e : macsecSetPayloadLen h n = { h with sl := n + overhead h } := by
    unfold macsecSetPayloadLen overhead macsecShortLenMax at *
    cases hu : h.isUnmodified <;> simp [hu] at hn ⊢
    · rw [if_neg (by omega)]; congr 1; omega
    · rw [if_neg (by omega)]; congr 1; omega
  refine ⟨e, ?_, ?_⟩
  · rw [e, short_len_field _ (by simpa using hn)]
  · intro h1
    rw [e]
    unfold macsecExpectedPayloadLen overhead at *
    have hu' : Codec.Macsec.isUnmodified { h with sl := n + (if h.isUnmodified then 2 else 0) }
        = h.isUnmodified := rfl
    simp only [hu']
    cases hu : h.isUnmodified <;> simp [hu] at h1 ⊢ <;> omega

/-- without the check `payload_len as u8 + 2` wraps: 254 would give short length 0, 260 gives 6. -/
theorem wraps_without_check : (254 % 256 + 2) % 256 = 0 ∧ (260 % 256 + 2) % 256 = 6 := by decide

end MacsecSetPayloadLen


/-! ## IP authentication header: `IpAuthHeader::new` / `set_raw_icv` -/
namespace AuthIcv

/-- the payload length byte of the serialised header: `(byte + 2) * 4 = 12 + ICV length` -/
theorem payload_len_field (h : IpAuthHeader) (wf : h.WF) :
    (bAt h.toBytes 1 + 2) * 4 = 12 + h.rawIcv.length := by
  rw [Lemmas.CodecNet.Auth.toBytes_eq h wf]
  have hl := Lemmas.CodecNet.Auth.rawIcvLen_eq h wf
  obtain ⟨_, _, _, h4, h5⟩ := wf
  simp [IpAuthHeader.fixedPart, bAt, hl]
  omega

theorem new_accepts_iff (nh spi seq : Nat) (icv : Bytes) :
    isOk (IpAuthHeader.new nh spi seq icv) = true ↔ icv.length ≤ 1016 ∧ icv.length % 4 = 0 := by
  unfold IpAuthHeader.new
  split
  · simp [isOk]; omega
  · split <;> simp [isOk] <;> omega

theorem new_rejects_with (nh spi seq : Nat) (icv : Bytes)
    (hn : ¬ (icv.length ≤ 1016 ∧ icv.length % 4 = 0)) :
    IpAuthHeader.new nh spi seq icv =
      .error (if icv.length > 1016 then .tooBig icv.length else .unaligned icv.length) := by
  unfold IpAuthHeader.new
  split
  · rfl
  · rw [if_pos (by omega)]

theorem new_encodes_exactly (nh spi seq : Nat) (icv tail : Bytes) (h : IpAuthHeader)
    (hnh : nh < 256) (hspi : spi < 4294967296) (hseq : seq < 4294967296)
    (hok : IpAuthHeader.new nh spi seq icv = .ok h) :
    h = { nextHeader := nh, spi := spi, sequenceNumber := seq, rawIcv := icv } ∧ h.WF ∧
      IpAuthHeader.fromSlice (h.toBytes ++ tail) = .ok (h, tail) ∧
      h.headerLen = 12 + icv.length ∧ (bAt h.toBytes 1 + 2) * 4 = 12 + icv.length := by
  have hacc := (new_accepts_iff nh spi seq icv).1 (by rw [hok]; rfl)
  unfold IpAuthHeader.new at hok
  rw [if_neg (by omega), if_neg (by omega)] at hok
  injection hok with hok
  have wf : h.WF := by subst hok; exact ⟨hnh, hspi, hseq, hacc.1, hacc.2⟩
  have hi : h.rawIcv = icv := by subst hok; rfl
  exact ⟨hok.symm, wf, C08Net.Auth.decode_encode h tail wf,
    by rw [Lemmas.CodecNet.Auth.headerLen_eq h wf, hi], by rw [payload_len_field h wf, hi]⟩

theorem set_accepts_iff (h : IpAuthHeader) (icv : Bytes) :
    isOk (authSetRawIcv h icv).1 = true ↔ icv.length ≤ 1016 ∧ icv.length % 4 = 0 := by
  unfold authSetRawIcv
  split
  · simp [isOk]; omega
  · split <;> simp [isOk] <;> omega

/-- rejected: the error names the length and the rule it breaks; the header is unchanged. -/
theorem set_rejects_with (h : IpAuthHeader) (icv : Bytes)
    (hn : ¬ (icv.length ≤ 1016 ∧ icv.length % 4 = 0)) :
    authSetRawIcv h icv =
      (.error (if icv.length > 1016 then .tooBig icv.length else .unaligned icv.length), h) := by
  unfold authSetRawIcv
  split
  · rfl
  · rw [if_pos (by omega)]

theorem set_encodes_exactly (h : IpAuthHeader) (wf : h.WF) (icv tail : Bytes)
    (hn : icv.length ≤ 1016 ∧ icv.length % 4 = 0) :
    authSetRawIcv h icv = (.ok (), { h with rawIcv := icv }) ∧
      let h' : IpAuthHeader := { h with rawIcv := icv }
      h'.WF ∧ IpAuthHeader.fromSlice (h'.toBytes ++ tail) = .ok (h', tail) ∧
        h'.headerLen = 12 + icv.length ∧ (bAt h'.toBytes 1 + 2) * 4 = 12 + icv.length := by
  have wf' : IpAuthHeader.WF { h with rawIcv := icv } := by
    obtain ⟨a, b, c, _, _⟩ := wf
    exact ⟨a, b, c, hn.1, hn.2⟩
  refine ⟨?_, wf', C08Net.Auth.decode_encode _ tail wf', Lemmas.CodecNet.Auth.headerLen_eq _ wf',
    payload_len_field _ wf'⟩
  unfold authSetRawIcv
  rw [if_neg (by omega), if_neg (by omega)]

/-- without the checks `(len / 4) as u8` truncates: a 1024 byte ICV would be stored as length 0,
    and `len / 4` drops the remainder of an unaligned length (1015 → 1012 bytes). -/
theorem wraps_without_check : (1024 / 4) % 256 = 0 ∧ (1015 / 4) % 256 * 4 = 1012 := by decide

end AuthIcv

/-! ## IPv6 raw extension header: `Ipv6RawExtHeader::new_raw` / `set_payload` -/
namespace RawExtPayload

/-- acceptance condition: 6 ≤ len ≤ 2046 and len ≡ 6 (mod 8) -/
def Fits (len : Nat) : Prop := 6 ≤ len ∧ len ≤ 2046 ∧ (len + 2) % 8 = 0
instance (len : Nat) : Decidable (Fits len) := by unfold Fits; infer_instance

/-- the `Hdr Ext Len` byte of the serialised header: `(byte + 1) * 8 = 2 + payload length` -/
theorem hdr_ext_len_field (h : Ipv6RawExtHeader) (wf : h.WF) :
    (bAt h.toBytes 1 + 1) * 8 = 2 + h.payload.length := by
  have hl := Lemmas.CodecNet.RawExt.headerLength_eq h wf
  obtain ⟨_, h2, h3, h4⟩ := wf
  simp [Ipv6RawExtHeader.toBytes, bAt, hl]
  omega

def rejection (len : Nat) : ExtPayloadLenError :=
  if len < 6 then .tooSmall len else if len > 2046 then .tooBig len else .unaligned len

theorem new_accepts_iff (nh : Nat) (p : Bytes) :
    isOk (Ipv6RawExtHeader.newRaw nh p) = true ↔ Fits p.length := by
  unfold Ipv6RawExtHeader.newRaw Fits
  split
  · simp [isOk]; omega
  · split
    · simp [isOk]; omega
    · split <;> simp [isOk] <;> omega

theorem new_rejects_with (nh : Nat) (p : Bytes) (hn : ¬ Fits p.length) :
    Ipv6RawExtHeader.newRaw nh p = .error (rejection p.length) := by
  unfold Ipv6RawExtHeader.newRaw rejection Fits at *
  split
  · rfl
  · split
    · rfl
    · rw [if_pos (by omega)]

theorem new_encodes_exactly (nh : Nat) (p tail : Bytes) (h : Ipv6RawExtHeader) (hnh : nh < 256)
    (hok : Ipv6RawExtHeader.newRaw nh p = .ok h) :
    h = { nextHeader := nh, payload := p } ∧ h.WF ∧
      Ipv6RawExtHeader.fromSlice (h.toBytes ++ tail) = .ok (h, tail) ∧
      h.headerLen = 2 + p.length ∧ (bAt h.toBytes 1 + 1) * 8 = 2 + p.length := by
  have hacc := (new_accepts_iff nh p).1 (by rw [hok]; rfl)
  unfold Fits at hacc
  unfold Ipv6RawExtHeader.newRaw at hok
  rw [if_neg (by omega), if_neg (by omega), if_neg (by omega)] at hok
  injection hok with hok
  have wf : h.WF := by subst hok; exact ⟨hnh, hacc.1, hacc.2.1, hacc.2.2⟩
  have hi : h.payload = p := by subst hok; rfl
  exact ⟨hok.symm, wf, C08Net.RawExt.decode_encode h tail wf,
    by rw [Lemmas.CodecNet.RawExt.headerLen_eq h wf, hi], by rw [hdr_ext_len_field h wf, hi]⟩

theorem set_accepts_iff (h : Ipv6RawExtHeader) (p : Bytes) :
    isOk (rawExtSetPayload h p).1 = true ↔ Fits p.length := by
  unfold rawExtSetPayload Fits
  split
  · simp [isOk]; omega
  · split
    · simp [isOk]; omega
    · split <;> simp [isOk] <;> omega

theorem set_rejects_with (h : Ipv6RawExtHeader) (p : Bytes) (hn : ¬ Fits p.length) :
    rawExtSetPayload h p = (.error (rejection p.length), h) := by
  unfold rawExtSetPayload rejection Fits at *
  split
  · rfl
  · split
    · rfl
    · rw [if_pos (by omega)]

theorem set_encodes_exactly (h : Ipv6RawExtHeader) (wf : h.WF) (p tail : Bytes) (hn : Fits p.length) :
    rawExtSetPayload h p = (.ok (), { h with payload := p }) ∧
      let h' : Ipv6RawExtHeader := { h with payload := p }
      h'.WF ∧ Ipv6RawExtHeader.fromSlice (h'.toBytes ++ tail) = .ok (h', tail) ∧
        h'.headerLen = 2 + p.length ∧ (bAt h'.toBytes 1 + 1) * 8 = 2 + p.length := by
  unfold Fits at hn
  have wf' : Ipv6RawExtHeader.WF { h with payload := p } := ⟨wf.1, hn.1, hn.2.1, hn.2.2⟩
  refine ⟨?_, wf', C08Net.RawExt.decode_encode _ tail wf',
    Lemmas.CodecNet.RawExt.headerLen_eq _ wf', hdr_ext_len_field _ wf'⟩
  unfold rawExtSetPayload
  rw [if_neg (by omega), if_neg (by omega), if_neg (by omega)]

/-- without the checks `((len - 6) / 8) as u8` truncates: 2054 payload bytes would be stored as
    length byte 0 (= 6 bytes), and 5 bytes (`5 - 6` underflows in `usize`) cannot be represented. -/
theorem wraps_without_check : ((2054 - 6) / 8) % 256 = 0 ∧ ((13 - 6) / 8) % 256 * 8 + 6 = 6 := by
  decide

end RawExtPayload


/-! ## IPv4 options: `Ipv4Options::try_from` / `Ipv4Header::set_options` -/
namespace Ipv4OptionsLen

/-- the IHL nibble of the serialised header: `(byte0 mod 16) * 4 = 20 + options length` -/
theorem ihl_field (h : Ipv4Header) (wf : h.WF) : (bAt h.toBytes 0 % 16) * 4 = 20 + h.options.length := by
  rw [Lemmas.CodecNet.Ipv4.toBytes_eq h wf, Lemmas.CodecNet.Ipv4.fixedPart_eq h _ wf]
  obtain ⟨_, _, _, _, _, _, _, _, _, _, h11, h12⟩ := wf
  simp [bAt]
  omega

theorem try_from_accepts_iff (d : Bytes) :
    isOk (Ipv4Options.tryFrom d) = true ↔ d.length ≤ 40 ∧ d.length % 4 = 0 := by
  unfold Ipv4Options.tryFrom; split <;> simp_all [isOk]

theorem try_from_rejects_with (d : Bytes) (hn : ¬ (d.length ≤ 40 ∧ d.length % 4 = 0)) :
    Ipv4Options.tryFrom d = .error d.length := by
  unfold Ipv4Options.tryFrom; rw [if_neg hn]

theorem try_from_encodes_exactly (d : Bytes) (hn : d.length ≤ 40 ∧ d.length % 4 = 0) :
    Ipv4Options.tryFrom d = .ok d := by
  unfold Ipv4Options.tryFrom; rw [if_pos hn]

theorem set_accepts_iff (h : Ipv4Header) (d : Bytes) :
    isOk (ipv4SetOptions h d).1 = true ↔ d.length ≤ 40 ∧ d.length % 4 = 0 := by
  unfold ipv4SetOptions
  by_cases hc : d.length ≤ 40 ∧ d.length % 4 = 0
  · rw [try_from_encodes_exactly d hc]; simp [isOk, hc]
  · rw [try_from_rejects_with d hc]; simp [isOk, hc]

theorem set_rejects_with (h : Ipv4Header) (d : Bytes) (hn : ¬ (d.length ≤ 40 ∧ d.length % 4 = 0)) :
    ipv4SetOptions h d = (.error d.length, h) := by
  unfold ipv4SetOptions; rw [try_from_rejects_with d hn]

theorem set_encodes_exactly (h : Ipv4Header) (wf : h.WF) (d tail : Bytes)
    (hn : d.length ≤ 40 ∧ d.length % 4 = 0) :
    ipv4SetOptions h d = (.ok (), { h with options := d }) ∧
      let h' : Ipv4Header := { h with options := d }
      h'.WF ∧ Ipv4Header.fromSlice (h'.toBytes ++ tail) = .ok (h', tail) ∧
        h'.headerLen = 20 + d.length ∧ (bAt h'.toBytes 0 % 16) * 4 = 20 + d.length := by
  have wf' : Ipv4Header.WF { h with options := d } := by
    obtain ⟨a1, a2, a3, a4, a5, a6, a7, a8, a9, a10, _, _⟩ := wf
    exact ⟨a1, a2, a3, a4, a5, a6, a7, a8, a9, a10, hn.1, hn.2⟩
  refine ⟨?_, wf', C08Net.Ipv4.decode_encode _ tail wf', rfl, ihl_field _ wf'⟩
  unfold ipv4SetOptions; rw [try_from_encodes_exactly d hn]

/-- without the check `len as u8 / 4 + 5` does not fit the 4 bit IHL: 44 option bytes would give
    IHL 16, which the `| (4 << 4)` turns into version 5, IHL 0. -/
theorem wraps_without_check : ((4 <<< 4) ||| (44 / 4 + 5)) % 16 = 0 ∧ ((4 <<< 4) ||| (44 / 4 + 5)) / 16 = 5 := by
  decide

end Ipv4OptionsLen

/-! ## TCP options: `TcpOptions::try_from_slice` / `TcpHeader::set_options_raw` -/
namespace TcpOptionsLen

/-- the stored length is the slice length rounded up to a multiple of 4 -/
theorem padded_len : ∀ l : Nat, l < 41 →
    (((l % 256) >>> 2) <<< 2) % 256 + (if ((l % 256) &&& 0b11) ≠ 0 then 4 else 0) = (l + 3) / 4 * 4 := by
  decide

theorem try_from_accepts_iff (d : Bytes) :
    isOk (Codec.TcpOpts.tryFromSlice d) = true ↔ d.length ≤ 40 := by
  unfold Codec.TcpOpts.tryFromSlice; split <;> simp [isOk] <;> omega

theorem try_from_rejects_with (d : Bytes) (hn : ¬ d.length ≤ 40) :
    Codec.TcpOpts.tryFromSlice d = .error (.other s!"NotEnoughSpace({d.length})") := by
  unfold Codec.TcpOpts.tryFromSlice; rw [if_pos (by omega)]

theorem try_from_encodes_exactly (d : Bytes) (hn : d.length ≤ 40) :
    ∃ o : Codec.TcpOpts, Codec.TcpOpts.tryFromSlice d = .ok o ∧ o.len = (d.length + 3) / 4 * 4 ∧
      o.WF ∧ o.asSlice = d ++ Codec.zeros (o.len - d.length) ∧ o.dataOffset * 4 = 20 + o.len := by
  refine ⟨{ len := (d.length + 3) / 4 * 4, buf := d ++ Codec.zeros (40 - d.length) }, ?_, rfl, ?_, ?_, ?_⟩
  · unfold Codec.TcpOpts.tryFromSlice
    rw [if_neg (by omega)]
    simp only
    rw [padded_len d.length (by omega)]
  · have h1 : d.length ≤ (d.length + 3) / 4 * 4 := by omega
    refine ⟨by show (d.length + 3) / 4 * 4 ≤ 40; omega, by show (d.length + 3) / 4 * 4 % 4 = 0; omega,
      by simp [Codec.zeros]; omega, ?_⟩
    show (d ++ Codec.zeros (40 - d.length)).drop ((d.length + 3) / 4 * 4) = _
    rw [List.drop_append, List.drop_of_length_le h1]
    simp only [Codec.zeros, List.drop_replicate, List.nil_append]
    congr 1; omega
  · have h1 : d.length ≤ (d.length + 3) / 4 * 4 := by omega
    show (d ++ Codec.zeros (40 - d.length)).take ((d.length + 3) / 4 * 4) = _
    rw [List.take_append, List.take_of_length_le h1]
    simp only [Codec.zeros, List.take_replicate]
    congr 2; omega
  · unfold Codec.TcpOpts.dataOffset
    simp only [Nat.shiftRight_eq_div_pow]; omega

theorem byte12_val : ∀ l : Nat, l < 41 → l % 4 = 0 → ∀ ns : Bool,
    ((let value := (((5 + (l >>> 2)) <<< 4) % 256) &&& 0xF0
      if ns then value ||| 1 else value) % 256 / 16) * 4 = 20 + l := by
  decide

/-- the data offset nibble of the serialised header: `(byte12 / 16) * 4 = 20 + options length` -/
theorem data_offset_field (h : Codec.Tcp) (wf : h.WF) : (bAt h.toBytes 12 / 16) * 4 = 20 + h.opts.len := by
  rw [C08Link.Tcp.toBytes_eq h]
  have hb : bAt (Codec.Tcp.fixed h ++ h.opts.buf.take h.opts.len) 12 = h.byte12 % 256 := by
    simp [Codec.Tcp.fixed, enc16, enc32, bAt]
  rw [hb]
  obtain ⟨_, _, _, _, _, _, _, ho1, ho2, _, _⟩ := wf
  have := byte12_val h.opts.len (by omega) ho2 h.ns
  unfold Codec.Tcp.byte12 Codec.TcpOpts.dataOffset
  exact this

theorem set_accepts_iff (h : Codec.Tcp) (d : Bytes) :
    isOk (tcpSetOptionsRaw h d).1 = true ↔ d.length ≤ 40 := by
  unfold tcpSetOptionsRaw
  by_cases hc : d.length ≤ 40
  · obtain ⟨o, ho, _⟩ := try_from_encodes_exactly d hc
    rw [ho]; simp [isOk, hc]
  · rw [try_from_rejects_with d hc]; simp [isOk, hc]

/-- rejected: `NotEnoughSpace(len)`, header unchanged -/
theorem set_rejects_with (h : Codec.Tcp) (d : Bytes) (hn : ¬ d.length ≤ 40) :
    tcpSetOptionsRaw h d = (.error (.other s!"NotEnoughSpace({d.length})"), h) := by
  unfold tcpSetOptionsRaw; rw [try_from_rejects_with d hn]

theorem set_encodes_exactly (h : Codec.Tcp) (wf : h.WF) (d tail : Bytes) (hn : d.length ≤ 40) :
    ∃ o : Codec.TcpOpts, tcpSetOptionsRaw h d = (.ok (), { h with opts := o }) ∧
      let h' : Codec.Tcp := { h with opts := o }
      o.len = (d.length + 3) / 4 * 4 ∧ o.asSlice = d ++ Codec.zeros (o.len - d.length) ∧ h'.WF ∧
        Codec.Tcp.fromSlice (h'.toBytes ++ tail) = .ok (h', tail) ∧
        h'.headerLen = 20 + (d.length + 3) / 4 * 4 ∧
        (bAt h'.toBytes 12 / 16) * 4 = 20 + (d.length + 3) / 4 * 4 := by
  obtain ⟨o, ho, hl, hw, hs, _⟩ := try_from_encodes_exactly d hn
  have wf' : Codec.Tcp.WF { h with opts := o } := by
    obtain ⟨a1, a2, a3, a4, a5, a6, a7, _⟩ := wf
    exact ⟨a1, a2, a3, a4, a5, a6, a7, hw⟩
  refine ⟨o, ?_, hl, hs, wf', C08Link.Tcp.decode_encode _ tail wf', ?_, ?_⟩
  · unfold tcpSetOptionsRaw; rw [ho]
  · show 20 + o.len = _; rw [hl]
  · rw [data_offset_field _ wf']; show 20 + o.len = _; rw [hl]

/-- without the check the rounded-up length does not fit the 4 bit data offset: 41..44 bytes would
    give data offset 16, which `<< 4` on a `u8` turns into 0. -/
theorem wraps_without_check : (((5 + (44 >>> 2)) <<< 4) % 256) &&& 0xF0 = 0 := by decide

end TcpOptionsLen


/-! ## ARP: `ArpPacket::new` / `set_hw_addrs` / `set_protocol_addrs` -/
namespace ArpAddrs

/-- the two address size bytes of the serialised packet -/
theorem size_fields (h : Codec.Arp) (wf : h.WF) :
    bAt h.toBytes 4 = h.shw.length ∧ bAt h.toBytes 5 = h.sp.length := by
  obtain ⟨_, _, _, h4, _, h6, _⟩ := wf
  simp [Codec.Arp.toBytes, Codec.Arp.hwSize, Codec.Arp.protoSize, enc16, bAt]
  omega

theorem packet_len (h : Codec.Arp) (wf : h.WF) : h.headerLen = 8 + 2 * h.shw.length + 2 * h.sp.length := by
  obtain ⟨_, _, _, h4, _, h6, _⟩ := wf
  unfold Codec.Arp.headerLen Codec.Arp.hwSize Codec.Arp.protoSize; omega

/-- acceptance condition of `ArpPacket::new` -/
def Fits (shw sp thw tp : Bytes) : Prop :=
  shw.length = thw.length ∧ sp.length = tp.length ∧ shw.length ≤ 255 ∧ sp.length ≤ 255
instance (shw sp thw tp : Bytes) : Decidable (Fits shw sp thw tp) := by unfold Fits; infer_instance

theorem new_accepts_iff (hw proto op : Nat) (shw sp thw tp : Bytes) :
    isOk (Codec.Arp.new hw proto op shw sp thw tp) = true ↔ Fits shw sp thw tp := by
  unfold Codec.Arp.new Fits
  split
  · simp [isOk]; omega
  · split
    · simp [isOk]; omega
    · split
      · simp [isOk]; omega
      · split <;> simp [isOk] <;> omega

/-- rejected: the error names the first violated rule with the offending length(s) -/
theorem new_rejects_with (hw proto op : Nat) (shw sp thw tp : Bytes) (hn : ¬ Fits shw sp thw tp) :
    Codec.Arp.new hw proto op shw sp thw tp = .error (.other (
      if shw.length ≠ thw.length then s!"arpnew(HwAddr(LenNonMatching({shw.length},{thw.length})))"
      else if sp.length ≠ tp.length then s!"arpnew(ProtoAddr(LenNonMatching({sp.length},{tp.length})))"
      else if shw.length > 255 then s!"arpnew(HwAddr(LenTooBig({shw.length})))"
      else s!"arpnew(ProtoAddr(LenTooBig({sp.length})))")) := by
  unfold Codec.Arp.new Fits at *
  split
  · rfl
  · split
    · rfl
    · split
      · rfl
      · rw [if_pos (by omega)]

theorem new_encodes_exactly (hw proto op : Nat) (shw sp thw tp : Bytes) (h : Codec.Arp)
    (hhw : hw < 65536) (hproto : proto < 65536) (hop : op < 65536)
    (hok : Codec.Arp.new hw proto op shw sp thw tp = .ok h) :
    h = { hw := hw, proto := proto, op := op, shw := shw, sp := sp, thw := thw, tp := tp } ∧ h.WF ∧
      bAt h.toBytes 4 = shw.length ∧ bAt h.toBytes 5 = sp.length ∧
      h.headerLen = 8 + 2 * shw.length + 2 * sp.length := by
  have hacc := (new_accepts_iff hw proto op shw sp thw tp).1 (by rw [hok]; rfl)
  unfold Fits at hacc
  unfold Codec.Arp.new at hok
  rw [if_neg (by omega), if_neg (by omega), if_neg (by omega), if_neg (by omega)] at hok
  injection hok with hok
  have wf : h.WF := by
    subst hok; exact ⟨hhw, hproto, hop, hacc.2.2.1, hacc.1.symm, hacc.2.2.2, hacc.2.1.symm⟩
  have e1 : h.shw = shw := by subst hok; rfl
  have e2 : h.sp = sp := by subst hok; rfl
  have hs := size_fields h wf
  exact ⟨hok.symm, wf, by rw [hs.1, e1], by rw [hs.2, e2], by rw [packet_len h wf, e1, e2]⟩

theorem set_hw_accepts_iff (h : Codec.Arp) (s t : Bytes) :
    isOk (arpSetHwAddrs h s t).1 = true ↔ s.length = t.length ∧ s.length ≤ 255 := by
  unfold arpSetHwAddrs
  split
  · simp [isOk]; omega
  · split <;> simp [isOk] <;> omega

theorem set_hw_rejects_with (h : Codec.Arp) (s t : Bytes) (hn : ¬ (s.length = t.length ∧ s.length ≤ 255)) :
    arpSetHwAddrs h s t =
      (.error (if s.length ≠ t.length then .lenNonMatching s.length t.length else .lenTooBig s.length), h) := by
  unfold arpSetHwAddrs
  split
  · rfl
  · rw [if_pos (by omega)]

theorem set_hw_encodes_exactly (h : Codec.Arp) (wf : h.WF) (s t : Bytes)
    (hn : s.length = t.length ∧ s.length ≤ 255) :
    arpSetHwAddrs h s t = (.ok (), { h with shw := s, thw := t }) ∧
      let h' : Codec.Arp := { h with shw := s, thw := t }
      h'.WF ∧ bAt h'.toBytes 4 = s.length ∧ bAt h'.toBytes 5 = h.sp.length ∧
        h'.headerLen = 8 + 2 * s.length + 2 * h.sp.length := by
  have wf' : Codec.Arp.WF { h with shw := s, thw := t } := by
    obtain ⟨a1, a2, a3, _, _, a6, a7⟩ := wf
    exact ⟨a1, a2, a3, hn.2, hn.1.symm, a6, a7⟩
  have hs := size_fields _ wf'
  refine ⟨?_, wf', hs.1, hs.2, packet_len _ wf'⟩
  unfold arpSetHwAddrs
  rw [if_neg (by omega), if_neg (by omega)]

theorem set_proto_accepts_iff (h : Codec.Arp) (s t : Bytes) :
    isOk (arpSetProtocolAddrs h s t).1 = true ↔ s.length = t.length ∧ s.length ≤ 255 := by
  unfold arpSetProtocolAddrs
  split
  · simp [isOk]; omega
  · split <;> simp [isOk] <;> omega

theorem set_proto_rejects_with (h : Codec.Arp) (s t : Bytes)
    (hn : ¬ (s.length = t.length ∧ s.length ≤ 255)) :
    arpSetProtocolAddrs h s t =
      (.error (if s.length ≠ t.length then .lenNonMatching s.length t.length else .lenTooBig s.length), h) := by
  unfold arpSetProtocolAddrs
  split
  · rfl
  · rw [if_pos (by omega)]

theorem set_proto_encodes_exactly (h : Codec.Arp) (wf : h.WF) (s t : Bytes)
    (hn : s.length = t.length ∧ s.length ≤ 255) :
    arpSetProtocolAddrs h s t = (.ok (), { h with sp := s, tp := t }) ∧
      let h' : Codec.Arp := { h with sp := s, tp := t }
      h'.WF ∧ bAt h'.toBytes 4 = h.shw.length ∧ bAt h'.toBytes 5 = s.length ∧
        h'.headerLen = 8 + 2 * h.shw.length + 2 * s.length := by
  have wf' : Codec.Arp.WF { h with sp := s, tp := t } := by
    obtain ⟨a1, a2, a3, a4, a5, _, _⟩ := wf
    exact ⟨a1, a2, a3, a4, a5, hn.2, hn.1.symm⟩
  have hs := size_fields _ wf'
  refine ⟨?_, wf', hs.1, hs.2, packet_len _ wf'⟩
  unfold arpSetProtocolAddrs
  rw [if_neg (by omega), if_neg (by omega)]

/-- without the check `len as u8` truncates: 256 address bytes would be stored as size 0. -/
theorem wraps_without_check : 256 % 256 = 0 ∧ 261 % 256 = 5 := by decide

end ArpAddrs


/-! ## the overhead of an IPv6 extension chain built from in-range headers is at most 9228 bytes,
    so `e.headerLen ≤ 65535` (hypothesis of `v6_value_type_in_domain`) holds for every chain the
    public API can build -/
namespace Ipv6ExtsLen

def optWF {α : Type} (p : α → Prop) : Option α → Prop
  | none => True
  | some a => p a

/-- every present header is in range -/
def WF (e : Ipv6Exts) : Prop :=
  optWF Ipv6RawExtHeader.WF e.hopByHop ∧ optWF Ipv6RawExtHeader.WF e.destOpts ∧
  optWF (fun rf : Ipv6RawExtHeader × Option Ipv6RawExtHeader => rf.1.WF ∧ optWF Ipv6RawExtHeader.WF rf.2) e.routing ∧
  optWF IpAuthHeader.WF e.auth

theorem rawExt_headerLen_le (h : Ipv6RawExtHeader) (wf : h.WF) : h.headerLen ≤ 2048 := by
  rw [Lemmas.CodecNet.RawExt.headerLen_eq h wf]; have := wf.2.2.1; omega

theorem auth_headerLen_le (h : IpAuthHeader) (wf : h.WF) : h.headerLen ≤ 1028 := by
  rw [Lemmas.CodecNet.Auth.headerLen_eq h wf]; have := wf.2.2.2.1; omega

theorem headerLen_le (e : Ipv6Exts) (wf : WF e) : e.headerLen ≤ 9228 := by
  obtain ⟨hbh, dst, rt, frag, auth⟩ := e
  obtain ⟨w1, w2, w3, w4⟩ := wf
  have b1 : (match hbh with | some h => h.headerLen | none => 0) ≤ 2048 := by
    cases hbh with
    | none => simp
    | some h => exact rawExt_headerLen_le h w1
  have b2 : (match dst with | some h => h.headerLen | none => 0) ≤ 2048 := by
    cases dst with
    | none => simp
    | some h => exact rawExt_headerLen_le h w2
  have b3 : (match rt with
      | some (r, f) => r.headerLen + (match f with | some h => h.headerLen | none => 0)
      | none => 0) ≤ 4096 := by
    cases rt with
    | none => simp
    | some rf =>
      obtain ⟨r, f⟩ := rf
      have := rawExt_headerLen_le r w3.1
      cases f with
      | none => simp; omega
      | some h => have := rawExt_headerLen_le h w3.2; simp; omega
  have b4 : (match frag with | some h => h.headerLen | none => 0) ≤ 8 := by
    cases frag with
    | none => simp
    | some h => simp [Ipv6FragmentHeader.headerLen]
  have b5 : (match auth with | some h => h.headerLen | none => 0) ≤ 1028 := by
    cases auth with
    | none => simp
    | some h => exact auth_headerLen_le h w4
  unfold Ipv6Exts.headerLen
  rcases rt with _ | ⟨r, _ | f⟩ <;> cases hbh <;> cases dst <;> cases frag <;> cases auth <;> simp_all <;> omega

end Ipv6ExtsLen

/-- `v6_value_type_in_domain` for every chain of in-range extension headers -/
theorem IpHeadersSetPayloadLen.v6_value_type_in_domain_wf (h : Ipv6Header) (e : Ipv6Exts) (n : Nat)
    (err : TooBig) (hn : n ≤ 2 ^ 32) (we : Ipv6ExtsLen.WF e)
    (hr : (ipHeadersSetPayloadLen (.v6 h e) n).1 = .error err) :
    err = { actual := n + e.headerLen, maxAllowed := 65535, vt := .ipv6PayloadLength } ∧
      (ipHeadersSetPayloadLen (.v6 h e) n).2 = .v6 h e :=
  IpHeadersSetPayloadLen.v6_value_type_in_domain h e n err hn
    (by have := Ipv6ExtsLen.headerLen_le e we; omega) hr

/-! ## ICMPv6 checksum field -/

/-- the checksum field of the serialised ICMPv6 header is the stored checksum -/
theorem icmp6_checksum_field (h : Codec.Icmp6) (hck : h.ck < 65536) : be16 h.toBytes 2 = h.ck := by
  unfold Codec.Icmp6.toBytes
  cases h.ty <;> simp [Codec.Icmp6.returnTrivial, Codec.Icmp6.return4u8, enc16, be16, bAt] <;> omega

theorem icmp6_with_checksum_field (t : Codec.Icmp6Type) (src dst payload : Bytes) (h : Codec.Icmp6)
    (hok : icmp6WithChecksum t src dst payload = .ok h) :
    icmp6CalcChecksum t src dst payload = .ok (be16 h.toBytes 2) := by
  have hh := (Icmp6CalcChecksum.with_checksum_iff t src dst payload).2 h hok
  have hlt : h.ck < 65536 := by
    have := hh.2
    unfold icmp6CalcChecksum at this
    simp only at this
    split at this
    · cases this
    · injection this with this; rw [← this]; exact swap16_lt _
  rw [icmp6_checksum_field h hlt]; exact hh.2

/-! ## Non-vacuity: concrete values at the limit (accepted, encoded exactly) and one above
    (rejected with the stated values), and the hypotheses of the theorems are satisfiable. -/
section Examples
open EpModel.Codec

-- Ipv4Header::new: 65515 accepted, 65516 rejected
example : (ipv4New 65515 64 17 [1, 2, 3, 4] [5, 6, 7, 8]).map (·.totalLen) = .ok 65535 := by rfl
example : ipv4New 65516 64 17 [1, 2, 3, 4] [5, 6, 7, 8] =
    .error { actual := 65516, maxAllowed := 65515, vt := .ipv4PayloadLength } := by rfl
-- Ipv4Header::set_payload_len on a header with 40 option bytes (header_len 60): limit 65475
example : Ipv4Header.sampleMax.WF := by decide
example : ipv4MaxPayloadLen Ipv4Header.sampleMax = 65475 := by rfl
example : (ipv4SetPayloadLen { Ipv4Header.sampleMax with totalLen := 7 } 65475).2.totalLen = 65535 := by rfl
example : be16 (ipv4SetPayloadLen { Ipv4Header.sampleMax with totalLen := 7 } 65475).2.toBytes 2 = 65535 := by
  rfl
example : ipv4SetPayloadLen Ipv4Header.sampleMax 65476 =
    (.error { actual := 65476, maxAllowed := 65475, vt := .ipv4PayloadLength }, Ipv4Header.sampleMax) := by rfl
-- Ipv6Header::set_payload_length
example : Ipv6Header.sampleMax.WF := by decide
example : (ipv6SetPayloadLength { Ipv6Header.sampleMax with payloadLength := 0 } 65535).2.payloadLength = 65535 := by
  rfl
example : (ipv6SetPayloadLength Ipv6Header.sampleMax 65536).1 =
    .error { actual := 65536, maxAllowed := 65535, vt := .ipv6PayloadLength } := by rfl
-- IpHeaders::set_payload_len with an authentication header of 12 + 8 bytes behind a 20 byte IPv4 header
def exAuth : IpAuthHeader := { nextHeader := 6, spi := 1, sequenceNumber := 2, rawIcv := [1, 2, 3, 4, 5, 6, 7, 8] }
def exV4 : Ipv4Header := { Ipv4Header.sampleMax with options := [], protocol := 51, totalLen := 0 }
example : exV4.WF ∧ exAuth.WF := by decide
example : (ipHeadersSetPayloadLen (.v4 exV4 { auth := some exAuth }) 65495).1 = .ok () := by rfl
example : (ipHeadersSetPayloadLen (.v4 exV4 { auth := some exAuth }) 65496).1 =
    .error { actual := 65516, maxAllowed := 65515, vt := .ipv4PayloadLength } := by rfl
def exExts : Ipv6Exts :=
  { hopByHop := some { nextHeader := 60, payload := [1, 2, 3, 4, 5, 6] }, destOpts := none, routing := none,
    fragment := none, auth := some exAuth }
example : exExts.headerLen = 28 := by rfl
example : Ipv6ExtsLen.WF exExts :=
  ⟨by show Ipv6RawExtHeader.WF _; decide, trivial, trivial, by show IpAuthHeader.WF _; decide⟩
example : (ipHeadersSetPayloadLen (.v6 Ipv6Header.sampleMax exExts) 65507).1 = .ok () := by rfl
example : (ipHeadersSetPayloadLen (.v6 Ipv6Header.sampleMax exExts) 65508).1 =
    .error { actual := 65536, maxAllowed := 65535, vt := .ipv6PayloadLength } := by rfl
-- the `usize` overflow branch of the IPv6 arm names the IPv4 value type (outside the quantified domain)
example : (ipHeadersSetPayloadLen (.v6 Ipv6Header.sampleMax exExts) usizeMax).1 =
    .error { actual := usizeMax, maxAllowed := 65507, vt := .ipv4PayloadLength } := by rfl
-- UDP
example : udpWithoutIpv4Checksum 1 2 65527 = .ok { sp := 1, dp := 2, len := 65535, ck := 0 } := by rfl
example : udpWithoutIpv4Checksum 1 2 65528 =
    .error { actual := 65528, maxAllowed := 65527, vt := .udpPayloadLengthIpv4 } := by rfl
-- MACsec
example : macsecFromLen 63 = 63 ∧ macsecFromLen 64 = 0 := by decide
example : (macsecSetPayloadLen Macsec.sampleMax 61).sl = 63 ∧ (macsecSetPayloadLen Macsec.sampleMax 62).sl = 0 := by
  decide
example : (macsecSetPayloadLen Macsec.sampleEnc 63).sl = 63 ∧ (macsecSetPayloadLen Macsec.sampleEnc 64).sl = 0 := by
  decide
example : macsecExpectedPayloadLen (macsecSetPayloadLen Macsec.sampleMax 61) = some 61 := by decide
-- AH: 1016 accepted, 1020 too big, 1014 unaligned
example : isOk (IpAuthHeader.new 6 1 2 (List.replicate 1016 7)) = true := by
  rw [AuthIcv.new_accepts_iff, List.length_replicate]; omega
example : IpAuthHeader.new 6 1 2 (List.replicate 1020 7) = .error (.tooBig 1020) := by
  rw [AuthIcv.new_rejects_with _ _ _ _ (by rw [List.length_replicate]; omega), List.length_replicate]; rfl
example : IpAuthHeader.new 6 1 2 (List.replicate 1014 7) = .error (.unaligned 1014) := by
  rw [AuthIcv.new_rejects_with _ _ _ _ (by rw [List.length_replicate]; omega), List.length_replicate]; rfl
-- raw extension header: 2046 accepted, 2054 too big, 2047 unaligned, 5 too small
example : RawExtPayload.Fits 2046 ∧ ¬ RawExtPayload.Fits 2054 ∧ ¬ RawExtPayload.Fits 2047 ∧
    ¬ RawExtPayload.Fits 5 ∧ RawExtPayload.Fits 6 := by decide
example : RawExtPayload.rejection 2054 = .tooBig 2054 ∧ RawExtPayload.rejection 2045 = .unaligned 2045 ∧
    RawExtPayload.rejection 5 = .tooSmall 5 := by decide
-- options
example : isOk (Ipv4Options.tryFrom (List.replicate 40 1)) = true ∧
    Ipv4Options.tryFrom (List.replicate 44 1) = .error 44 ∧
    Ipv4Options.tryFrom (List.replicate 38 1) = .error 38 := ⟨rfl, rfl, rfl⟩
example : (TcpOpts.tryFromSlice (List.replicate 40 1)).map (·.len) = .ok 40 ∧
    (TcpOpts.tryFromSlice (List.replicate 37 1)).map (·.len) = .ok 40 ∧
    isOk (TcpOpts.tryFromSlice (List.replicate 41 1)) = false := ⟨rfl, rfl, rfl⟩
example : Tcp.sampleMax.WF := by decide
-- ARP
example : isOk (Arp.new 1 2048 1 (List.replicate 255 1) [1] (List.replicate 255 2) [2]) = true := by
  rw [ArpAddrs.new_accepts_iff]; unfold ArpAddrs.Fits
  simp only [List.length_replicate, List.length_cons, List.length_nil]; decide
example : isOk (Arp.new 1 2048 1 (List.replicate 256 1) [1] (List.replicate 256 2) [2]) = false := by
  have h := ArpAddrs.new_accepts_iff 1 2048 1 (List.replicate 256 1) [1] (List.replicate 256 2) [2]
  unfold ArpAddrs.Fits at h
  simp only [List.length_replicate, List.length_cons, List.length_nil] at h
  cases hr : isOk (Arp.new 1 2048 1 (List.replicate 256 1) [1] (List.replicate 256 2) [2])
  · rfl
  · have := h.1 hr; omega

end Examples

end EpModel.Props.C14
