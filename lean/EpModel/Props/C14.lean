import EpModel.Model.Setters
import EpModel.Props.C08Net
import EpModel.Props.C08Link
namespace EpModel.Props.C14
open EpModel EpModel.Setters EpModel.CodecNet

theorem ipv4_totalLen_field (h : Ipv4Header) (wf : h.WF) : be16 h.toBytes 2 = h.totalLen := by
  rw [Lemmas.CodecNet.Ipv4.toBytes_eq h wf, Lemmas.CodecNet.Ipv4.fixedPart_eq h _ wf]
  have := wf.2.2.1
  simp [be16, bAt]
  omega

namespace Ipv4New

theorem accepts_iff (n ttl proto : Nat) (src dst : Bytes) :
    isOk (ipv4New n ttl proto src dst) = true ↔ n + 20 ≤ 65535 := by
  unfold ipv4New; split <;> simp [isOk] <;> omega

theorem rejects_with (n ttl proto : Nat) (src dst : Bytes) (h : ¬ n + 20 ≤ 65535) :
    ipv4New n ttl proto src dst =
      .error { actual := n, maxAllowed := 65535 - 20, vt := .ipv4PayloadLength } := by
  unfold ipv4New; rw [if_pos (by omega)]

theorem encodes_exactly (n ttl proto : Nat) (src dst tail : Bytes) (h : Ipv4Header)
    (httl : ttl < 256) (hproto : proto < 256) (hsrc : src.length = 4) (hdst : dst.length = 4)
    (hok : ipv4New n ttl proto src dst = .ok h) :
    h.WF ∧ Ipv4Header.fromSlice (h.toBytes ++ tail) = .ok (h, tail) ∧ h.totalLen = n + 20 ∧
      be16 h.toBytes 2 = n + 20 := by
  unfold ipv4New at hok
  split at hok
  · cases hok
  · injection hok with hok
    have wf : h.WF := by
      subst hok; unfold Ipv4Header.WF; simp [hsrc, hdst, httl, hproto]; omega
    have ht : h.totalLen = n + 20 := by subst hok; simp; omega
    exact ⟨wf, C08Net.Ipv4.decode_encode h tail wf, ht, by rw [ipv4_totalLen_field h wf, ht]⟩

end Ipv4New

/-! ## `Ipv4Header::set_payload_len` / `max_payload_len` -/
namespace Ipv4SetPayloadLen

/-- the stated maximum is the true maximum: `max_payload_len() + header_len() = 65535`. -/
theorem max_is_true_max (h : Ipv4Header) (wf : h.WF) : ipv4MaxPayloadLen h + h.headerLen = 65535 := by
  have := wf.2.2.2.2.2.2.2.2.2.2.1
  unfold ipv4MaxPayloadLen Ipv4Header.optLenU8 Ipv4Header.headerLen; omega

theorem accepts_iff (h : Ipv4Header) (wf : h.WF) (n : Nat) :
    isOk (ipv4SetPayloadLen h n).1 = true ↔ n + h.headerLen ≤ 65535 := by
  have := max_is_true_max h wf
  unfold ipv4SetPayloadLen
  simp only
  split <;> simp [isOk] <;> omega

theorem rejects_with (h : Ipv4Header) (wf : h.WF) (n : Nat) (hn : ¬ n + h.headerLen ≤ 65535) :
    ipv4SetPayloadLen h n =
      (.error { actual := n, maxAllowed := 65535 - h.headerLen, vt := .ipv4PayloadLength }, h) := by
  have := max_is_true_max h wf
  unfold ipv4SetPayloadLen
  simp only
  rw [if_pos (by omega)]
  congr 3; omega

/-- the header comes back untouched from every rejected call (no hypothesis on the header). -/
theorem unchanged_on_error (h : Ipv4Header) (n : Nat) (hn : isOk (ipv4SetPayloadLen h n).1 = false) :
    (ipv4SetPayloadLen h n).2 = h := by
  unfold ipv4SetPayloadLen at hn ⊢
  simp only at hn ⊢
  split <;> simp_all [isOk]

theorem encodes_exactly (h : Ipv4Header) (wf : h.WF) (n : Nat) (tail : Bytes)
    (hok : isOk (ipv4SetPayloadLen h n).1 = true) :
    let h' := (ipv4SetPayloadLen h n).2
    h'.WF ∧ Ipv4Header.fromSlice (h'.toBytes ++ tail) = .ok (h', tail) ∧
      h'.totalLen = n + h.headerLen ∧ be16 h'.toBytes 2 = n + h.headerLen ∧
      h' = { h with totalLen := n + h.headerLen } := by
  have hfit := (accepts_iff h wf n).1 hok
  have hmax := max_is_true_max h wf
  unfold ipv4SetPayloadLen
  simp only
  rw [if_neg (by omega)]
  simp only
  have e : (h.headerLen + n) % 65536 = n + h.headerLen := by omega
  rw [e]
  have wf' : Ipv4Header.WF { h with totalLen := n + h.headerLen } := by
    obtain ⟨a, b, _, d⟩ := wf
    exact ⟨a, b, by show n + h.headerLen < 65536; omega, d⟩
  exact ⟨wf', C08Net.Ipv4.decode_encode _ tail wf', rfl, ipv4_totalLen_field _ wf', rfl⟩

/-- without the check the `as u16` cast truncates: the length just above the maximum would be
    stored as 0. -/
theorem wraps_without_check (h : Ipv4Header) (wf : h.WF) :
    (h.headerLen + (ipv4MaxPayloadLen h + 1)) % 65536 = 0 := by
  have := max_is_true_max h wf; omega

end Ipv4SetPayloadLen

/-! ## `Ipv6Header::set_payload_length` -/

theorem ipv6_payloadLength_field (h : Ipv6Header) (wf : h.WF) : be16 h.toBytes 4 = h.payloadLength := by
  have := wf.2.2.1
  simp [Ipv6Header.toBytes, be16, bAt]
  omega

namespace Ipv6SetPayloadLength

theorem accepts_iff (h : Ipv6Header) (n : Nat) :
    isOk (ipv6SetPayloadLength h n).1 = true ↔ n ≤ 65535 := by
  unfold ipv6SetPayloadLength
  split <;> simp [isOk] <;> omega

theorem rejects_with (h : Ipv6Header) (n : Nat) (hn : ¬ n ≤ 65535) :
    ipv6SetPayloadLength h n =
      (.error { actual := n, maxAllowed := 65535, vt := .ipv6PayloadLength }, h) := by
  unfold ipv6SetPayloadLength
  rw [if_pos (by omega)]

theorem encodes_exactly (h : Ipv6Header) (wf : h.WF) (n : Nat) (tail : Bytes) (hn : n ≤ 65535) :
    let h' := (ipv6SetPayloadLength h n).2
    (ipv6SetPayloadLength h n).1 = .ok () ∧
    h'.WF ∧ Ipv6Header.fromSlice (h'.toBytes ++ tail) = .ok (h', tail) ∧
      h'.payloadLength = n ∧ be16 h'.toBytes 4 = n ∧ h' = { h with payloadLength := n } := by
  unfold ipv6SetPayloadLength
  rw [if_neg (by omega)]
  simp only
  have e : n % 65536 = n := by omega
  rw [e]
  have wf' : Ipv6Header.WF { h with payloadLength := n } := by
    obtain ⟨a, b, _, d⟩ := wf
    exact ⟨a, b, by show n < 65536; omega, d⟩
  exact ⟨trivial, wf', C08Net.Ipv6.decode_encode _ tail wf', rfl, ipv6_payloadLength_field _ wf', rfl⟩

theorem wraps_without_check : (65535 + 1) % 65536 = 0 ∧ (65536 + 1500) % 65536 = 1500 := by decide

end Ipv6SetPayloadLength


/-! ## `IpHeaders::set_payload_len` -/
namespace IpHeadersSetPayloadLen

/-- IPv4 (+ authentication header): the overhead is the IPv4 header plus the extension headers. -/
theorem v4_accepts_iff (h : Ipv4Header) (wf : h.WF) (e : Ipv4Extensions) (n : Nat) :
    isOk (ipHeadersSetPayloadLen (.v4 h e) n).1 = true ↔ n + e.headerLen + h.headerLen ≤ 65535 := by
  unfold ipHeadersSetPayloadLen
  simp only
  split
  · exact Ipv4SetPayloadLen.accepts_iff h wf (n + e.headerLen)
  · simp [isOk, usizeMax] at *; omega

/-- rejected, sum representable in `usize`: the error is the one of the IPv4 header, about the
    payload of the IPv4 header (extension headers + n); header and extensions unchanged. -/
theorem v4_rejects_with (h : Ipv4Header) (wf : h.WF) (e : Ipv4Extensions) (n : Nat)
    (hn : ¬ n + e.headerLen + h.headerLen ≤ 65535) (hu : n + e.headerLen ≤ usizeMax) :
    ipHeadersSetPayloadLen (.v4 h e) n =
      (.error { actual := n + e.headerLen, maxAllowed := 65535 - h.headerLen,
                vt := .ipv4PayloadLength }, .v4 h e) := by
  unfold ipHeadersSetPayloadLen
  simp only
  rw [if_pos hu, Ipv4SetPayloadLen.rejects_with h wf _ hn]

/-- rejected because `len + ext_len` overflows `usize`: error about `len` itself with the maximum
    for `len`; unchanged. -/
theorem v4_rejects_with_overflow (h : Ipv4Header) (e : Ipv4Extensions) (n : Nat)
    (hu : ¬ n + e.headerLen ≤ usizeMax) :
    ipHeadersSetPayloadLen (.v4 h e) n =
      (.error { actual := n, maxAllowed := 65535 - h.headerLen - e.headerLen,
                vt := .ipv4PayloadLength }, .v4 h e) := by
  unfold ipHeadersSetPayloadLen
  simp only
  rw [if_neg hu]

/-- in both rejection frames the reported pair describes the same excess:
    `actual - max_allowed = (n + c) - 65535` -/
theorem v4_error_consistent (h : Ipv4Header) (wf : h.WF) (e : Ipv4Extensions) (n : Nat) (err : TooBig)
    (he : e.headerLen + h.headerLen ≤ 65535)
    (hr : (ipHeadersSetPayloadLen (.v4 h e) n).1 = .error err) :
    err.actual + 65535 = err.maxAllowed + (n + e.headerLen + h.headerLen) ∧
      err.maxAllowed < err.actual ∧ err.vt = .ipv4PayloadLength ∧
      (ipHeadersSetPayloadLen (.v4 h e) n).2 = .v4 h e := by
  have hn : ¬ n + e.headerLen + h.headerLen ≤ 65535 := by
    intro hc
    have := (v4_accepts_iff h wf e n).2 hc
    rw [hr] at this; simp [isOk] at this
  by_cases hu : n + e.headerLen ≤ usizeMax
  · rw [v4_rejects_with h wf e n hn hu] at hr ⊢
    injection hr with hr; subst hr
    exact ⟨by simp only; omega, by simp only; omega, rfl, rfl⟩
  · rw [v4_rejects_with_overflow h e n hu] at hr ⊢
    injection hr with hr; subst hr
    exact ⟨by simp only; omega, by simp only; omega, rfl, rfl⟩

theorem v4_encodes_exactly (h : Ipv4Header) (wf : h.WF) (e : Ipv4Extensions) (n : Nat) (tail : Bytes)
    (hn : n + e.headerLen + h.headerLen ≤ 65535) :
    ∃ h' : Ipv4Header, ipHeadersSetPayloadLen (.v4 h e) n = (.ok (), .v4 h' e) ∧
      h'.WF ∧ Ipv4Header.fromSlice (h'.toBytes ++ tail) = .ok (h', tail) ∧
      be16 h'.toBytes 2 = n + e.headerLen + h.headerLen ∧
      h' = { h with totalLen := n + e.headerLen + h.headerLen } := by
  have hok := (Ipv4SetPayloadLen.accepts_iff h wf (n + e.headerLen)).2 hn
  obtain ⟨w, d, _, f, g⟩ := Ipv4SetPayloadLen.encodes_exactly h wf (n + e.headerLen) tail hok
  refine ⟨(ipv4SetPayloadLen h (n + e.headerLen)).2, ?_, w, d, f, g⟩
  unfold ipHeadersSetPayloadLen
  simp only
  rw [if_pos (by unfold usizeMax; omega)]
  generalize hr : ipv4SetPayloadLen h (n + e.headerLen) = r at hok
  obtain ⟨r1, r2⟩ := r
  cases r1 with
  | ok u => rfl
  | error _ => simp [isOk] at hok

/-- IPv6 (+ extension headers) -/
theorem v6_accepts_iff (h : Ipv6Header) (e : Ipv6Exts) (n : Nat) :
    isOk (ipHeadersSetPayloadLen (.v6 h e) n).1 = true ↔ n + e.headerLen ≤ 65535 := by
  unfold ipHeadersSetPayloadLen
  simp only
  split
  · exact Ipv6SetPayloadLength.accepts_iff h (n + e.headerLen)
  · simp [isOk, usizeMax] at *; omega

theorem v6_rejects_with (h : Ipv6Header) (e : Ipv6Exts) (n : Nat)
    (hn : ¬ n + e.headerLen ≤ 65535) (hu : n + e.headerLen ≤ usizeMax) :
    ipHeadersSetPayloadLen (.v6 h e) n =
      (.error { actual := n + e.headerLen, maxAllowed := 65535, vt := .ipv6PayloadLength },
       .v6 h e) := by
  unfold ipHeadersSetPayloadLen
  simp only
  rw [if_pos hu, Ipv6SetPayloadLength.rejects_with h _ hn]

/-- the `usize` overflow branch of the IPv6 arm (only reachable with `len > 2^64 - 1 - ext_len`,
    outside the property's quantifier 0..2^32): the maximum is the right one for `len`, but the
    value type names the IPv4 field — the code says `ValueType::Ipv4PayloadLength` here. -/
theorem v6_rejects_with_overflow (h : Ipv6Header) (e : Ipv6Exts) (n : Nat)
    (hu : ¬ n + e.headerLen ≤ usizeMax) :
    ipHeadersSetPayloadLen (.v6 h e) n =
      (.error { actual := n, maxAllowed := 65535 - e.headerLen, vt := .ipv4PayloadLength },
       .v6 h e) := by
  unfold ipHeadersSetPayloadLen
  simp only
  rw [if_neg hu]

/-- inside the quantified domain the overflow branch is not taken, so the value type is right. -/
theorem v6_value_type_in_domain (h : Ipv6Header) (e : Ipv6Exts) (n : Nat) (err : TooBig)
    (hn : n ≤ 2 ^ 32) (he : e.headerLen ≤ 65535)
    (hr : (ipHeadersSetPayloadLen (.v6 h e) n).1 = .error err) :
    err = { actual := n + e.headerLen, maxAllowed := 65535, vt := .ipv6PayloadLength } ∧
      (ipHeadersSetPayloadLen (.v6 h e) n).2 = .v6 h e := by
  have hu : n + e.headerLen ≤ usizeMax := by unfold usizeMax; omega
  have hnn : ¬ n + e.headerLen ≤ 65535 := by
    intro hc
    have := (v6_accepts_iff h e n).2 hc
    rw [hr] at this; simp [isOk] at this
  rw [v6_rejects_with h e n hnn hu] at hr ⊢
  injection hr with hr
  exact ⟨hr.symm, rfl⟩

theorem v6_encodes_exactly (h : Ipv6Header) (wf : h.WF) (e : Ipv6Exts) (n : Nat) (tail : Bytes)
    (hn : n + e.headerLen ≤ 65535) :
    ∃ h' : Ipv6Header, ipHeadersSetPayloadLen (.v6 h e) n = (.ok (), .v6 h' e) ∧
      h'.WF ∧ Ipv6Header.fromSlice (h'.toBytes ++ tail) = .ok (h', tail) ∧
      be16 h'.toBytes 4 = n + e.headerLen ∧ h' = { h with payloadLength := n + e.headerLen } := by
  obtain ⟨ok, w, d, _, f, g⟩ := Ipv6SetPayloadLength.encodes_exactly h wf (n + e.headerLen) tail hn
  refine ⟨(ipv6SetPayloadLength h (n + e.headerLen)).2, ?_, w, d, f, g⟩
  unfold ipHeadersSetPayloadLen
  simp only
  rw [if_pos (by unfold usizeMax; omega), ok]

end IpHeadersSetPayloadLen


/-! ## UDP -/

theorem swap16_lt (v : Nat) : Checksum.swap16 v < 65536 := by
  unfold Checksum.swap16; omega

theorem udp_length_field (h : Codec.Udp) (wf : h.WF) : be16 h.toBytes 4 = h.len := by
  obtain ⟨_, _, hl, _⟩ := wf
  simp [Codec.Udp.toBytes, enc16, be16, bAt]
  omega

namespace UdpWithoutIpv4Checksum

theorem accepts_iff (sp dp n : Nat) :
    isOk (udpWithoutIpv4Checksum sp dp n) = true ↔ n + 8 ≤ 65535 := by
  unfold udpWithoutIpv4Checksum; split <;> simp [isOk] <;> omega

theorem rejects_with (sp dp n : Nat) (hn : ¬ n + 8 ≤ 65535) :
    udpWithoutIpv4Checksum sp dp n =
      .error { actual := n, maxAllowed := 65535 - 8, vt := .udpPayloadLengthIpv4 } := by
  unfold udpWithoutIpv4Checksum; rw [if_pos (by omega)]

theorem encodes_exactly (sp dp n : Nat) (tail : Bytes) (h : Codec.Udp) (hsp : sp < 65536)
    (hdp : dp < 65536) (hok : udpWithoutIpv4Checksum sp dp n = .ok h) :
    h = { sp := sp, dp := dp, len := n + 8, ck := 0 } ∧ h.WF ∧
      Codec.Udp.fromSlice (h.toBytes ++ tail) = .ok (h, tail) ∧ be16 h.toBytes 4 = n + 8 := by
  unfold udpWithoutIpv4Checksum at hok
  split at hok
  · cases hok
  · injection hok with hok
    have e : (8 + n) % 65536 = n + 8 := by omega
    rw [e] at hok
    subst hok
    have wf : Codec.Udp.WF { sp := sp, dp := dp, len := n + 8, ck := 0 } :=
      ⟨hsp, hdp, by show n + 8 < 65536; omega, by show (0 : Nat) < 65536; omega⟩
    exact ⟨rfl, wf, C08Link.Udp.decode_encode _ tail wf, udp_length_field _ wf⟩

/-- without the check `(8 + n) as u16` truncates: 65528 payload bytes would be stored as length 0. -/
theorem wraps_without_check : (8 + 65528) % 65536 = 0 := by decide

end UdpWithoutIpv4Checksum

namespace UdpWithChecksum

theorem v4_accepts_iff (sp dp : Nat) (src dst payload : Bytes) :
    isOk (udpWithIpv4Checksum sp dp src dst payload) = true ↔ payload.length + 8 ≤ 65535 := by
  unfold udpWithIpv4Checksum; split <;> simp [isOk] <;> omega

theorem v4_rejects_with (sp dp : Nat) (src dst payload : Bytes) (hn : ¬ payload.length + 8 ≤ 65535) :
    udpWithIpv4Checksum sp dp src dst payload =
      .error { actual := payload.length, maxAllowed := 65535 - 8, vt := .udpPayloadLengthIpv4 } := by
  unfold udpWithIpv4Checksum; rw [if_pos (by omega)]

/-- accepted: the length field is `payload.len() + 8` exactly and the checksum is the one of the
    header carrying that length (so the pseudo header carries it too). -/
theorem v4_encodes_exactly (sp dp : Nat) (src dst payload tail : Bytes) (h : Codec.Udp)
    (hsp : sp < 65536) (hdp : dp < 65536) (hok : udpWithIpv4Checksum sp dp src dst payload = .ok h) :
    h.len = payload.length + 8 ∧
      h.ck = udpCkIpv4Internal { sp := sp, dp := dp, len := payload.length + 8, ck := 0 } src dst payload ∧
      h.sp = sp ∧ h.dp = dp ∧ h.WF ∧
      Codec.Udp.fromSlice (h.toBytes ++ tail) = .ok (h, tail) ∧
      be16 h.toBytes 4 = payload.length + 8 := by
  unfold udpWithIpv4Checksum at hok
  split at hok
  · cases hok
  · injection hok with hok
    have e : (8 + payload.length) % 65536 = payload.length + 8 := by omega
    rw [e] at hok
    have hl : h.len = payload.length + 8 := by subst hok; rfl
    have wf : h.WF := by
      subst hok; exact ⟨hsp, hdp, by show payload.length + 8 < 65536; omega, swap16_lt _⟩
    exact ⟨hl, by subst hok; rfl, by subst hok; rfl, by subst hok; rfl, wf,
      C08Link.Udp.decode_encode h tail wf, by rw [udp_length_field h wf, hl]⟩

theorem v6_accepts_iff (sp dp : Nat) (src dst payload : Bytes) :
    isOk (udpWithIpv6Checksum sp dp src dst payload) = true ↔ payload.length + 8 ≤ 65535 := by
  unfold udpWithIpv6Checksum; split <;> simp [isOk] <;> omega

theorem v6_rejects_with (sp dp : Nat) (src dst payload : Bytes) (hn : ¬ payload.length + 8 ≤ 65535) :
    udpWithIpv6Checksum sp dp src dst payload =
      .error { actual := payload.length, maxAllowed := 65535 - 8, vt := .udpPayloadLengthIpv6 } := by
  unfold udpWithIpv6Checksum; rw [if_pos (by omega)]

theorem v6_encodes_exactly (sp dp : Nat) (src dst payload tail : Bytes) (h : Codec.Udp)
    (hsp : sp < 65536) (hdp : dp < 65536) (hok : udpWithIpv6Checksum sp dp src dst payload = .ok h) :
    h.len = payload.length + 8 ∧
      h.ck = udpCkIpv6Internal { sp := sp, dp := dp, len := payload.length + 8, ck := 0 } src dst payload ∧
      h.sp = sp ∧ h.dp = dp ∧ h.WF ∧
      Codec.Udp.fromSlice (h.toBytes ++ tail) = .ok (h, tail) ∧
      be16 h.toBytes 4 = payload.length + 8 := by
  unfold udpWithIpv6Checksum at hok
  split at hok
  · cases hok
  · injection hok with hok
    have e : (8 + payload.length) % 65536 = payload.length + 8 := by omega
    rw [e] at hok
    have hl : h.len = payload.length + 8 := by subst hok; rfl
    have wf : h.WF := by
      subst hok; exact ⟨hsp, hdp, by show payload.length + 8 < 65536; omega, swap16_lt _⟩
    exact ⟨hl, by subst hok; rfl, by subst hok; rfl, by subst hok; rfl, wf,
      C08Link.Udp.decode_encode h tail wf, by rw [udp_length_field h wf, hl]⟩

end UdpWithChecksum

namespace UdpCalcChecksum

theorem v4_accepts_iff (h : Codec.Udp) (src dst payload : Bytes) :
    isOk (udpCalcChecksumIpv4Raw h src dst payload) = true ↔ payload.length + 8 ≤ 65535 := by
  unfold udpCalcChecksumIpv4Raw; split <;> simp [isOk] <;> omega

theorem v4_rejects_with (h : Codec.Udp) (src dst payload : Bytes) (hn : ¬ payload.length + 8 ≤ 65535) :
    udpCalcChecksumIpv4Raw h src dst payload =
      .error { actual := payload.length, maxAllowed := 65535 - 8, vt := .udpPayloadLengthIpv4 } := by
  unfold udpCalcChecksumIpv4Raw; rw [if_pos (by omega)]

/-- the length summed into the pseudo header is the header's own 16 bit length field (RFC 768);
    for every accepted payload there is a header value for which this is the true length. -/
theorem v4_encodes_exactly (h : Codec.Udp) (src dst payload : Bytes) (hn : payload.length + 8 ≤ 65535) :
    udpCalcChecksumIpv4Raw h src dst payload = .ok (udpCkIpv4Internal h src dst payload) ∧
      be16 (udpPseudoLen { h with len := payload.length + 8 }) 0 = payload.length + 8 := by
  unfold udpCalcChecksumIpv4Raw
  rw [if_neg (by omega)]
  refine ⟨rfl, ?_⟩
  simp [udpPseudoLen, enc16, be16, bAt]; omega

theorem v6_accepts_iff (h : Codec.Udp) (src dst payload : Bytes) :
    isOk (udpCalcChecksumIpv6Raw h src dst payload) = true ↔ payload.length + 8 ≤ 4294967295 := by
  unfold udpCalcChecksumIpv6Raw; split <;> simp [isOk] <;> omega

theorem v6_rejects_with (h : Codec.Udp) (src dst payload : Bytes)
    (hn : ¬ payload.length + 8 ≤ 4294967295) :
    udpCalcChecksumIpv6Raw h src dst payload =
      .error { actual := payload.length, maxAllowed := 4294967295 - 8, vt := .udpPayloadLengthIpv6 } := by
  unfold udpCalcChecksumIpv6Raw; rw [if_pos (by omega)]

/-- FULL STATEMENT (false for the code as it is, see `v6_pseudo_length_full_statement_false`;
    known finding F14): every payload length `calc_checksum_ipv6_raw` accepts can be put into the
    pseudo header, i.e. there is a header value whose pseudo header length is `payload.len() + 8`.
    The IPv6 pseudo header has a 32 bit upper-layer length (RFC 8200 §8.1, RFC 2675 §4 for UDP
    beyond 65535), the code sums the 16 bit `self.length`. -/
def v6_pseudo_length_full_statement : Prop :=
  ∀ (h : Codec.Udp) (src dst payload : Bytes),
    isOk (udpCalcChecksumIpv6Raw h src dst payload) = true →
      ∃ len : Nat, be16 (udpPseudoLen { h with len := len } ++ []) 0 = payload.length + 8

/-- what holds: the statement restricted to payloads the 16 bit length field can describe
    (exactly the payloads `with_ipv6_checksum` accepts). -/
theorem v6_pseudo_length_partial (h : Codec.Udp) (src dst payload : Bytes)
    (hn : payload.length + 8 ≤ 65535) :
    udpCalcChecksumIpv6Raw h src dst payload = .ok (udpCkIpv6Internal h src dst payload) ∧
      be16 (udpPseudoLen { h with len := payload.length + 8 } ++ []) 0 = payload.length + 8 := by
  unfold udpCalcChecksumIpv6Raw
  rw [if_neg (by omega)]
  refine ⟨rfl, ?_⟩
  simp [udpPseudoLen, enc16, be16, bAt]; omega

/-- the negation on the model: 65528 payload bytes are accepted, and no header value makes the
    pseudo header carry the length 65536. -/
theorem v6_pseudo_length_full_statement_false : ¬ v6_pseudo_length_full_statement := by
  intro hfull
  have hacc : isOk (udpCalcChecksumIpv6Raw ⟨0, 0, 0, 0⟩ [] [] (List.replicate 65528 0)) = true := by
    rw [v6_accepts_iff, List.length_replicate]; omega
  obtain ⟨len, hlen⟩ := hfull ⟨0, 0, 0, 0⟩ [] [] (List.replicate 65528 0) hacc
  have hlt : be16 (udpPseudoLen { (⟨0, 0, 0, 0⟩ : Codec.Udp) with len := len } ++ []) 0 < 65536 :=
    be16_lt _ _
  rw [hlen, List.length_replicate] at hlt
  omega

end UdpCalcChecksum

end EpModel.Props.C14
