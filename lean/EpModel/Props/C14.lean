import EpModel.Model.Setters
/-
  C14 — out-of-range lengths and values are rejected, never truncated.  (skeleton)
-/
namespace EpModel.Props.C14
open EpModel EpModel.Setters

theorem placeholder : True := trivial

end EpModel.Props.C14
