import EpModel.Model.Io
/-
  C16 — I/O faults and short buffers surface as errors without partial garbage.
-/
namespace EpModel.Props.C16
open EpModel EpModel.Io

theorem writeAll_fit (pre b : Bytes) (k : Nat) (h : b.length ≤ k) :
    ({ budget := some k, out := pre } : Writer).writeAll b =
      ({ budget := some (k - b.length), out := pre ++ b }, .ok ()) := by
  simp [Writer.writeAll, h]

theorem writeAll_nofit (pre b : Bytes) (k : Nat) (h : k < b.length) :
    ({ budget := some k, out := pre } : Writer).writeAll b =
      ({ budget := some 0, out := pre ++ b.take k }, .error .injected) := by
  have : ¬ b.length ≤ k := by omega
  simp [Writer.writeAll, this]

/-- complete description of a `write_all` sequence against a writer that fails at byte `k`. -/
theorem writeParts_failing (parts : List Bytes) (k : Nat) (pre : Bytes) :
    writeParts parts { budget := some k, out := pre } =
      if parts.flatten.length ≤ k then
        ({ budget := some (k - parts.flatten.length), out := pre ++ parts.flatten }, .ok ())
      else ({ budget := some 0, out := pre ++ parts.flatten.take k }, .error .injected) := by
  induction parts generalizing k pre with
  | nil => simp [writeParts]
  | cons p ps ih =>
    by_cases h : p.length ≤ k
    · simp only [writeParts, writeAll_fit pre p k h, ih]
      simp only [List.flatten_cons, List.length_append]
      by_cases h2 : ps.flatten.length ≤ k - p.length
      · have h3 : p.length + ps.flatten.length ≤ k := by omega
        simp only [h2, h3, if_true, List.append_assoc]
        congr 3; omega
      · have h3 : ¬ p.length + ps.flatten.length ≤ k := by omega
        simp only [h2, h3, if_false, List.append_assoc, List.take_append,
          List.take_of_length_le h]
    · have h' : k < p.length := by omega
      simp only [writeParts, writeAll_nofit pre p k h']
      have h3 : ¬ (p :: ps).flatten.length ≤ k := by
        simp only [List.flatten_cons, List.length_append]; omega
      rw [if_neg h3]
      simp only [List.flatten_cons, List.take_append]
      have : k - p.length = 0 := by omega
      simp [this]

end EpModel.Props.C16
