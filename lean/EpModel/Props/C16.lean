import EpModel.Lemmas.Io
import EpModel.Lemmas.IoSkip
import EpModel.Lemmas.IoSkipSeek
import EpModel.Model.IoBuild
import EpModel.Model.BuilderIo
import EpModel.Props.C08Link
import EpModel.Props.C08Net
import EpModel.Props.C10
/-
  C16 — I/O faults and short buffers surface as errors without partial garbage.

  Models: EpModel/Model/Io.lean (failing writer, serialisers as sequences of `write_all` calls,
  slice writers, failing reader, `read` functions as read programs, `LimitedReader`),
  the complete encodings `toBytes` are those of the C08 codec models.

    failing_writer      for every part sequence and every k: the writer that fails at byte k has
                        received exactly the first k bytes of the complete output, the result is Ok
                        iff the complete output fits, and the error is the injected I/O error
    failing_writer_ser  the same for serialisers that can return a content error behind the last
                        write (Ipv4Extensions, Ipv6Extensions, IpHeaders, PacketBuilder)
    parts_flatten_*     WF h → the parts of T, concatenated, are C08's `toBytes h`
    slice_writer_*      cap < required → Space(required) with required = the true total, buffer
                        untouched; otherwise the encoding is in front and the rest untouched
    slice_core_writer   SliceCoreWrite: length never changes (nothing outside the slice), what is
                        written is a prefix of the complete output, a reported required length is
                        beyond the slice and never more than the true total
    builder_slice       final_write_to_slice with required = total length of the parts
    failing_reader      for every read program: never more than k bytes consumed, k < bytes needed →
                        the injected I/O error (never Ok, never a content error), otherwise the
                        result of the complete read
    limited_reader      for EVERY adaptive sequence of read_exact / start_layer calls: no arithmetic
                        underflow, read_len ≤ max_len, bytes pulled ≤ the initial max_len
    skip_header_extension / skip_all_*   (EpModel/Model/IoSkip.lean: `Ipv6Header::skip_header_extension`,
                        `skip_all_header_extensions` on a Read + Seek reader)  Ok iff every byte of the
                        skipped header(s) lies in front of the failure position / end of the data; then the
                        reader stands exactly behind them; otherwise the reader's own error
    skip_ext_sf_* / skip_all_sf_*   the same two functions over a reader whose j-th `seek` call fails
                        (`SReader`, `skipExtSf`, `skipAllSf`): a seek failure that is not in reach changes
                        nothing (the old theorems carry over); a seek failure in reach is returned as the seek
                        error, with the reader where it stood before that seek and no call behind it; `Ok` only
                        if every read and every seek of the whole chain succeeded; the first failing call in
                        program order decides which error is returned
    gbuilder_*          over the GENERAL builder model EpModel/Model/Builder.lean (every builder path,
                        C10): Space(required) exactly for cap < size with required = size = length of the
                        complete packet; `write` against a writer failing at byte k, for every way of
                        cutting the output into write_all calls
-/
namespace EpModel.Props.C16
open EpModel EpModel.Io EpModel.Lemmas.Io

/-! ## failing writer -/

theorem writeAll_fit (pre b : Bytes) (k : Nat) (h : b.length ≤ k) :
    ({ budget := some k, out := pre } : Writer).writeAll b =
      ({ budget := some (k - b.length), out := pre ++ b }, .ok ()) := by
  simp [Writer.writeAll, h]

theorem writeAll_nofit (pre b : Bytes) (k : Nat) (h : k < b.length) :
    ({ budget := some k, out := pre } : Writer).writeAll b =
      ({ budget := some 0, out := pre ++ b.take k }, .error .injected) := by
  have : ¬ b.length ≤ k := by omega
  simp [Writer.writeAll, this]

/-- complete description of a `write_all` sequence against a writer that fails at byte `k`. -/
theorem writeParts_failing (parts : List Bytes) (k : Nat) (pre : Bytes) :
    writeParts parts { budget := some k, out := pre } =
      if parts.flatten.length ≤ k then
        ({ budget := some (k - parts.flatten.length), out := pre ++ parts.flatten }, .ok ())
      else ({ budget := some 0, out := pre ++ parts.flatten.take k }, .error .injected) := by
  induction parts generalizing k pre with
  | nil => simp [writeParts]
  | cons p ps ih =>
    by_cases h : p.length ≤ k
    · simp only [writeParts, writeAll_fit pre p k h, ih]
      simp only [List.flatten_cons, List.length_append]
      by_cases h2 : ps.flatten.length ≤ k - p.length
      · have h3 : p.length + ps.flatten.length ≤ k := by omega
        simp only [h2, h3, if_true, List.append_assoc]
        congr 3; omega
      · have h3 : ¬ p.length + ps.flatten.length ≤ k := by omega
        simp only [h2, h3, if_false, List.append_assoc, List.take_append,
          List.take_of_length_le h]
    · have h' : k < p.length := by omega
      simp only [writeParts, writeAll_nofit pre p k h']
      have h3 : ¬ (p :: ps).flatten.length ≤ k := by
        simp only [List.flatten_cons, List.length_append]; omega
      rw [if_neg h3]
      simp only [List.flatten_cons, List.take_append]
      have : k - p.length = 0 := by omega
      simp [this]

/-- **failing writer.**  For every sequence of `write_all` calls and every failure position `k`:
    what the writer received is exactly the first `k` bytes of the complete output (a prefix; all
    of it when it fits), the result is `Ok` iff the complete output fits, and otherwise it is the
    injected I/O error. -/
theorem failing_writer (parts : List Bytes) (k : Nat) :
    (writeParts parts (Writer.failingAt k)).1.out = parts.flatten.take k ∧
    ((writeParts parts (Writer.failingAt k)).2 = .ok () ↔ parts.flatten.length ≤ k) ∧
    (k < parts.flatten.length →
      (writeParts parts (Writer.failingAt k)).2 = .error .injected) := by
  unfold Writer.failingAt
  rw [writeParts_failing]
  generalize parts.flatten = f
  by_cases h : f.length ≤ k
  · rw [if_pos h]; simp [List.take_of_length_le h, h]
  · rw [if_neg h]; simp [h]

/-- the same for a serialiser with a final content error: below the complete length the result is
    the injected I/O error (never `Ok`, never the content error), from the complete length on it
    is the serialiser's own result; the bytes received are always the first `k` of the complete
    output. -/
theorem failing_writer_ser {ε : Type} (s : Ser ε) (k : Nat) :
    (s.run (Writer.failingAt k)).1.out = s.full.take k ∧
    (k < s.full.length → (s.run (Writer.failingAt k)).2 = .error (.io .injected)) ∧
    (s.full.length ≤ k →
      (s.run (Writer.failingAt k)).2 =
        (match s.fin with
         | .ok () => .ok ()
         | .error c => .error (.content c))) := by
  unfold Ser.run Ser.full Writer.failingAt
  rw [writeParts_failing]
  generalize s.parts.flatten = f
  by_cases h : f.length ≤ k
  · rw [if_pos h]
    exact ⟨by simp [List.take_of_length_le h], fun hc => absurd hc (by omega), fun _ => rfl⟩
  · rw [if_neg h]
    exact ⟨by simp, fun _ => rfl, fun hc => absurd hc h⟩

/-- an unlimited writer receives the complete output and never fails. -/
theorem unlimited_writer (parts : List Bytes) (pre : Bytes) :
    writeParts parts { budget := none, out := pre } =
      ({ budget := none, out := pre ++ parts.flatten }, .ok ()) := by
  induction parts generalizing pre with
  | nil => simp [writeParts]
  | cons p ps ih => simp [writeParts, Writer.writeAll, ih]

/-! ## the parts of every serialiser are the complete encoding -/

section parts_flatten
open EpModel.Codec EpModel.CodecNet

theorem parts_flatten_eth2 (h : Eth2) : (Parts.eth2 h).flatten = h.toBytes := by simp [Parts.eth2]
theorem parts_flatten_vlan (h : Vlan) : (Parts.vlan h).flatten = h.toBytes := by simp [Parts.vlan]
theorem parts_flatten_sll (h : Sll) : (Parts.sll h).flatten = h.toBytes := by simp [Parts.sll]
theorem parts_flatten_macsec (h : Macsec) : (Parts.macsec h).flatten = h.toBytes := by
  simp [Parts.macsec]
theorem parts_flatten_arp (h : Arp) : (Parts.arp h).flatten = h.toBytes := by simp [Parts.arp]
theorem parts_flatten_ipv6 (h : Ipv6Header) : (Parts.ipv6 h).flatten = h.toBytes := by
  simp [Parts.ipv6]
theorem parts_flatten_ipv6frag (h : Ipv6FragmentHeader) :
    (Parts.ipv6frag h).flatten = h.toBytes := by simp [Parts.ipv6frag]
theorem parts_flatten_udp (h : Udp) : (Parts.udp h).flatten = h.toBytes := by simp [Parts.udp]
theorem parts_flatten_icmpv4 (h : Icmp4) : (Parts.icmpv4 h).flatten = h.toBytes := by
  simp [Parts.icmpv4]
theorem parts_flatten_icmpv6 (h : Icmp6) : (Parts.icmpv6 h).flatten = h.toBytes := by
  simp [Parts.icmpv6]

/-- `Ipv4Header::write_raw`: 20 fixed bytes + options = `to_bytes()`. -/
theorem parts_flatten_ipv4raw (h : Ipv4Header) (wf : h.WF) :
    (Parts.ipv4raw h).flatten = h.toBytes := by
  rw [(C08Net.Ipv4.encoders_agree h wf).1]
  simp [Parts.ipv4raw, Parts.ipv4Internal, Ipv4Header.writeRaw, Ipv4Header.writeInternal]

/-- `Ipv4Header::write`: `to_bytes()` of the header with the checksum field recomputed. -/
theorem parts_flatten_ipv4 (h : Ipv4Header) (wf : h.WF) :
    (Parts.ipv4 h).flatten =
      ({ h with headerChecksum := h.calcHeaderChecksum } : Ipv4Header).toBytes ∧
    (h.ChecksumOk → (Parts.ipv4 h).flatten = h.toBytes) := by
  have e : (Parts.ipv4 h).flatten = h.writeOut := by
    simp [Parts.ipv4, Parts.ipv4Internal, Ipv4Header.writeOut, Ipv4Header.writeInternal]
  have ck : h.calcHeaderChecksum < 65536 := by
    unfold Ipv4Header.calcHeaderChecksum Checksum.swap16
    have : ∀ v : Nat, (v % 256) * 256 + (v / 256) % 256 < 65536 := by intro v; omega
    exact this _
  have wf' : ({ h with headerChecksum := h.calcHeaderChecksum } : Ipv4Header).WF := by
    obtain ⟨a1, a2, a3, a4, a5, a6, a7, _, a9, a10, a11, a12⟩ := wf
    exact ⟨a1, a2, a3, a4, a5, a6, a7, ck, a9, a10, a11, a12⟩
  refine ⟨?_, fun hc => ?_⟩
  · rw [e, (C08Net.Ipv4.encoders_agree h wf).2.2.1, (C08Net.Ipv4.encoders_agree _ wf').1]
  · rw [e]; exact ((C08Net.Ipv4.encoders_agree h wf).2.2.2 hc).symm

/-- `IpAuthHeader::write`: 12 fixed bytes + ICV = `to_bytes()`. -/
theorem parts_flatten_auth (h : IpAuthHeader) (wf : h.WF) : (Parts.auth h).flatten = h.toBytes := by
  rw [(C08Net.Auth.encoders_agree h wf).1]
  simp [Parts.auth, IpAuthHeader.writeOut]

/-- `Ipv6RawExtHeader::write`: 2 bytes + payload = `to_bytes()`. -/
theorem parts_flatten_rawext (h : Ipv6RawExtHeader) : (Parts.rawext h).flatten = h.toBytes := by
  simp [Parts.rawext, Ipv6RawExtHeader.toBytes]

/-- `TcpHeader::write`: 20 fixed bytes + options (if any) = `to_bytes()`. -/
theorem parts_flatten_tcp (h : Tcp) (wf : h.WF) : (Parts.tcp h).flatten = h.toBytes := by
  rw [(C08Link.Tcp.encoders_agree h wf).1]
  unfold Parts.tcp Tcp.writeOut
  split <;> simp

/-- `Ipv4Extensions::write` for a consistent value: the parts are what C08's `writeOut` gives,
    and there is no content error. -/
theorem parts_flatten_ipv4exts (e : Ipv4Extensions) (start : Nat) (wf : e.WF start) :
    e.writeOut start = .ok (Parts.ipv4exts e start).full ∧ (Parts.ipv4exts e start).fin = .ok () := by
  obtain ⟨auth⟩ := e
  cases auth with
  | none => simp [Parts.ipv4exts, Ipv4Extensions.writeOut, Ser.full]
  | some h =>
    obtain ⟨hs, _⟩ := wf
    simp [Parts.ipv4exts, Ipv4Extensions.writeOut, Ser.full, hs]

/-- in general (consistent or not) `Ipv4Extensions::write` agrees with C08's `writeOut`. -/
theorem ipv4exts_ser_eq (e : Ipv4Extensions) (start : Nat) :
    (match (Parts.ipv4exts e start).fin with
     | .ok () => Except.ok (Parts.ipv4exts e start).full
     | .error c => .error c) = e.writeOut start := by
  obtain ⟨auth⟩ := e
  cases auth with
  | none => simp [Parts.ipv4exts, Ipv4Extensions.writeOut, Ser.full]
  | some h =>
    by_cases hs : ipNumberAuth = start <;>
      simp [Parts.ipv4exts, Ipv4Extensions.writeOut, Ser.full, hs]

/-- `IpHeaders::write` (IPv4): header with recomputed checksum, then the extension bytes. -/
theorem parts_flatten_ipheaders_v4 (h : Ipv4Header) (e : Ipv4Extensions) (wf : h.WF)
    (wfe : e.WF h.protocol) :
    e.writeOut h.protocol = .ok ((IpHdrs.v4 h e).ser.full.drop h.headerLen) ∧
    (IpHdrs.v4 h e).ser.full.take h.headerLen =
      ({ h with headerChecksum := h.calcHeaderChecksum } : Ipv4Header).toBytes ∧
    (match (IpHdrs.v4 h e).ser.fin with | .ok () => True | .error _ => False) := by
  have hp := (parts_flatten_ipv4 h wf).1
  have hx := parts_flatten_ipv4exts e h.protocol wfe
  have hl : (Parts.ipv4 h).flatten.length = h.headerLen := by
    rw [hp]
    have ck : h.calcHeaderChecksum < 65536 := by
      unfold Ipv4Header.calcHeaderChecksum Checksum.swap16
      have : ∀ v : Nat, (v % 256) * 256 + (v / 256) % 256 < 65536 := by intro v; omega
      exact this _
    obtain ⟨a1, a2, a3, a4, a5, a6, a7, _, a9, a10, a11, a12⟩ := wf
    exact (C08Net.Ipv4.encoders_agree
      ({ h with headerChecksum := h.calcHeaderChecksum } : Ipv4Header)
      ⟨a1, a2, a3, a4, a5, a6, a7, ck, a9, a10, a11, a12⟩).2.1
  simp only [IpHdrs.ser, Ser.full, List.flatten_append]
  refine ⟨?_, ?_, ?_⟩
  · rw [← hl, List.drop_left]; exact hx.1
  · rw [← hl, List.take_left, hp]
  · rw [hx.2]; simp [Except.mapError]

end parts_flatten

/-! ## slice writers -/

/-- **slice writer** (`write_to_slice` of a fixed-length header whose encoding has the announced
    length): a slice shorter than the encoding gives `Space` with exactly the length of the
    complete encoding and leaves the slice untouched; otherwise the complete encoding is in front,
    every byte behind it is untouched and the slice keeps its length (nothing is written outside
    it). -/
theorem slice_writer (len : Nat) (layer : String) (bytes buf : Bytes) (hb : bytes.length = len) :
    (buf.length < len →
      headerWriteToSlice len layer bytes buf =
        (buf, .error { required := bytes.length, len := buf.length, layer := layer, off := 0 })) ∧
    (len ≤ buf.length →
      (headerWriteToSlice len layer bytes buf).2 = .ok (buf.length - bytes.length) ∧
      (headerWriteToSlice len layer bytes buf).1.take len = bytes ∧
      (headerWriteToSlice len layer bytes buf).1.drop len = buf.drop len ∧
      (headerWriteToSlice len layer bytes buf).1.length = buf.length) := by
  unfold headerWriteToSlice
  refine ⟨fun h => by simp [h, hb], fun h => ?_⟩
  have h' : ¬ buf.length < len := by omega
  simp only [h', if_false]
  refine ⟨by rw [hb], ?_, ?_, ?_⟩
  · rw [← hb]; simp
  · rw [← hb]; simp
  · simp [hb]; omega

theorem slice_writer_eth2 (h : Codec.Eth2) (wf : h.WF) (buf : Bytes) :
    (buf.length < 14 →
      eth2WriteToSlice h buf =
        (buf, .error { required := h.toBytes.length, len := buf.length,
                       layer := "Ethernet2Header", off := 0 })) ∧
    (14 ≤ buf.length →
      (eth2WriteToSlice h buf).1 = h.toBytes ++ buf.drop 14 ∧
      (eth2WriteToSlice h buf).1.length = buf.length ∧
      (eth2WriteToSlice h buf).2 = .ok (buf.length - 14)) := by
  have hl := C08Link.Eth2.toBytes_length h wf
  have := slice_writer 14 "Ethernet2Header" h.toBytes buf hl
  refine ⟨this.1, fun hc => ?_⟩
  obtain ⟨a, _, _, d⟩ := this.2 hc
  have hn : ¬ buf.length < 14 := by omega
  refine ⟨by simp [eth2WriteToSlice, headerWriteToSlice, hn], d, by rw [hl] at a; exact a⟩

theorem slice_writer_sll (h : Codec.Sll) (wf : h.WF) (buf : Bytes) :
    (buf.length < 16 →
      sllWriteToSlice h buf =
        (buf, .error { required := h.toBytes.length, len := buf.length,
                       layer := "LinuxSllHeader", off := 0 })) ∧
    (16 ≤ buf.length →
      (sllWriteToSlice h buf).1 = h.toBytes ++ buf.drop 16 ∧
      (sllWriteToSlice h buf).1.length = buf.length ∧
      (sllWriteToSlice h buf).2 = .ok (buf.length - 16)) := by
  have hl := C08Link.Sll.toBytes_length h wf
  have := slice_writer 16 "LinuxSllHeader" h.toBytes buf hl
  refine ⟨this.1, fun hc => ?_⟩
  obtain ⟨a, _, _, d⟩ := this.2 hc
  have hn : ¬ buf.length < 16 := by omega
  refine ⟨by simp [sllWriteToSlice, headerWriteToSlice, hn], d, by rw [hl] at a; exact a⟩

/-- **`SliceCoreWrite`** under any sequence of `write_all` calls: the slice keeps its length
    (nothing outside it is written), the bytes in front of the start position and behind what was
    written are untouched, what was written is a prefix of the complete output; `Ok` means all of
    it was written; an error reports the slice length and a required length that is beyond the
    slice and not more than what would really be required. -/
theorem slice_core_writer (parts : List Bytes) (s : SliceWriter) (hp : s.pos ≤ s.buf.length) :
    ∃ m, m ≤ parts.flatten.length ∧
      (sliceParts parts s).1.buf =
        s.buf.take s.pos ++ parts.flatten.take m ++ s.buf.drop (s.pos + m) ∧
      (sliceParts parts s).1.buf.length = s.buf.length ∧
      (match (sliceParts parts s).2 with
       | .ok () => m = parts.flatten.length
       | .error e => e.len = s.buf.length ∧ s.buf.length < e.required ∧
                     e.required ≤ s.pos + parts.flatten.length) := by
  obtain ⟨m, h1, h2, h3, _, h5⟩ := sliceParts_spec parts s hp
  refine ⟨m, h1, h3, ?_, h5⟩
  rw [h3, List.length_append, List.length_append, List.length_take, List.length_take,
    List.length_drop]
  omega

/-- enough room ⇒ every part is written and the call sequence succeeds. -/
theorem slice_core_writer_fits (parts : List Bytes) (buf : Bytes)
    (h : parts.flatten.length ≤ buf.length) :
    sliceParts parts { buf := buf, pos := 0 } =
      ({ buf := parts.flatten ++ buf.drop parts.flatten.length, pos := parts.flatten.length },
       .ok ()) := by
  obtain ⟨m, _, _, h3, h4, h5⟩ := sliceParts_spec parts { buf := buf, pos := 0 } (Nat.zero_le _)
  cases hr : (sliceParts parts { buf := buf, pos := 0 }).2 with
  | error e =>
    rw [hr] at h5; simp only at h5; omega
  | ok u =>
    rw [hr] at h5; simp only at h5; subst h5
    have : sliceParts parts { buf := buf, pos := 0 } =
        ((sliceParts parts { buf := buf, pos := 0 }).1, (sliceParts parts { buf := buf, pos := 0 }).2) := rfl
    rw [this, hr]
    congr 1
    cases hw : (sliceParts parts { buf := buf, pos := 0 }).1 with
    | mk b p =>
      rw [hw] at h3 h4
      dsimp only at h3 h4
      rw [h3, h4, List.take_zero, List.take_length, Nat.zero_add, List.nil_append]

/-- **builder, slice path** (`final_write_to_slice`), for a serialiser whose announced size is
    the true total of its parts: a buffer shorter than that gives `Space(required)` with
    `required` = the length of the complete packet and leaves the buffer untouched; otherwise the
    complete packet is in front, nothing behind `required` is touched, the buffer keeps its
    length, and the call returns `required` (or the serialiser's content error). -/
theorem builder_slice {ε : Type} (s : Ser ε) (required : Nat) (buf : Bytes)
    (hreq : s.full.length = required) :
    (buf.length < required →
      buildWriteToSlice s required buf = (buf, .error (.space s.full.length))) ∧
    (required ≤ buf.length →
      (buildWriteToSlice s required buf).1 = s.full ++ buf.drop required ∧
      (buildWriteToSlice s required buf).1.length = buf.length ∧
      (buildWriteToSlice s required buf).2 =
        (match s.fin with
         | .ok () => .ok required
         | .error c => .error (.content c))) := by
  unfold buildWriteToSlice
  refine ⟨fun h => by simp [h, hreq], fun h => ?_⟩
  have hn : ¬ buf.length < required := by omega
  have hfit : s.parts.flatten.length ≤ (buf.take required).length := by
    unfold Ser.full at hreq
    rw [List.length_take]; omega
  simp only [hn, if_false, slice_core_writer_fits s.parts (buf.take required) hfit]
  unfold Ser.full at hreq ⊢
  have hd : (buf.take required).drop s.parts.flatten.length = [] := by
    rw [hreq]; simp
  refine ⟨by rw [hd, List.append_nil], ?_, rfl⟩
  rw [hd, List.append_nil, List.length_append, List.length_drop]; omega

/-! ## PacketBuilder: the announced size is the true total -/

section builder
open EpModel.Io.Build

/-- address lengths of the builder's arguments (`[u8;6]`, `[u8;4]`, `[u8;16]`); IPv4 / IPv6 paths. -/
def PacketWF (p : Packet) : Prop :=
  (match p.link with | .none => True | .eth2 s d => s.length = 6 ∧ d.length = 6) ∧
  (match p.net with
   | .v4 s d _ => s.length = 4 ∧ d.length = 4
   | .v6 s d _ => s.length = 16 ∧ d.length = 16
   | .arp _ => False)

theorem linkParts_len (p : Packet) (wf : PacketWF p) :
    (linkParts p).flatten.length = linkLen p.link := by
  obtain ⟨h1, _⟩ := wf
  unfold linkParts
  cases hl : p.link with
  | none => simp [linkLen]
  | eth2 s d =>
    rw [hl] at h1
    simp [Codec.Eth2.toBytes, h1.1, h1.2, linkLen]

theorem vlanParts_len (p : Packet) :
    (vlanParts p).flatten.length = vlanLen p.vlan := by
  unfold vlanParts
  cases p.vlan <;> simp [C08Link.Vlan.toBytes_length, vlanLen]


theorem tpBytes_len (tp : Tp) (v6 : Bool) (s d pl t : Bytes) (h : tpBytes tp v6 s d pl = some t) :
    t.length = tpHeaderLen tp := by
  cases tp with
  | none => simp [tpBytes] at h; subst h; rfl
  | udp sp dp => simp [tpBytes] at h; subst h; simp [C08Link.Udp.toBytes_length, tpHeaderLen]
  | tcp sp dp seq win =>
    simp only [tpBytes, Option.some.injEq] at h; subst h
    rw [C08Link.Tcp.toBytes_eq]
    simp [C08Link.Tcp.fixed_length, tcpDefault, tpHeaderLen]
  | icmp4echo id seq => simp [tpBytes] at h; subst h; simp [tpHeaderLen]
  | icmp6echo id seq =>
    cases v6 with
    | false => simp [tpBytes] at h
    | true => simp [tpBytes] at h; subst h; simp [tpHeaderLen]

theorem tpPart_len (tp : Tp) (t : Bytes) (h : t.length = tpHeaderLen tp) :
    (tpParts tp t).flatten.length = tpHeaderLen tp := by
  cases tp <;> simp [tpParts, h] <;> rfl

theorem ipv4_len (h : CodecNet.Ipv4Header) (hs : h.source.length = 4) (hd : h.destination.length = 4)
    (ho : h.options = []) : h.toBytes.length = 20 := by
  simp [CodecNet.Ipv4Header.toBytes, CodecNet.Ipv4Header.headerLen, CodecNet.Ipv4Header.optBuf, CodecNet.zeros, hs, hd, ho]

theorem ipv6_len (h : CodecNet.Ipv6Header) (hs : h.source.length = 16) (hd : h.destination.length = 16) :
    h.toBytes.length = 40 := by
  simp [CodecNet.Ipv6Header.toBytes, hs, hd]

/-- the size `final_size` announces is the true total of the parts, for every IPv4 / IPv6 packet
    the builder serialises without a content error. -/
theorem builder_final_size (p : Packet) (wf : PacketWF p) (hok : (ser p).fin = .ok ()) :
    (ser p).full.length = finalSize p := by
  have hl := linkParts_len p wf
  have hv := vlanParts_len p
  obtain ⟨_, wn⟩ := wf
  obtain ⟨link, vlan, net, tp, payload⟩ := p
  cases net with
  | arp a => exact absurd wn id
  | v4 s d ttl =>
    simp only [ser, Ser.full, finalSize, netLen] at hok hl hv ⊢
    split at hok
    · simp at hok
    · rename_i hval
      rw [if_neg hval]
      cases ht : tpBytes tp false s d payload with
      | none => rw [ht] at hok; simp at hok
      | some t =>
        simp only [List.flatten_append, List.length_append, hl, hv, List.flatten_cons,
          List.flatten_nil, List.append_nil]
        have h3 := tpPart_len tp t (tpBytes_len _ _ _ _ _ _ ht)
        rw [ipv4_len _ wn.1 wn.2 rfl]
        omega
  | v6 s d hop =>
    simp only [ser, Ser.full, finalSize, netLen] at hok hl hv ⊢
    split at hok
    · simp at hok
    · rename_i hval
      rw [if_neg hval]
      cases ht : tpBytes tp true s d payload with
      | none => rw [ht] at hok; simp at hok
      | some t =>
        simp only [List.flatten_append, List.length_append, hl, hv, List.flatten_cons,
          List.flatten_nil, List.append_nil]
        have h3 := tpPart_len tp t (tpBytes_len _ _ _ _ _ _ ht)
        rw [ipv6_len _ wn.1 wn.2]
        omega


/-- **builder, slice path**, for the modelled IPv4 / IPv6 packets: a buffer shorter than the
    complete packet gives `Space(required)` with `required` = the length of the complete packet and
    is left untouched; otherwise the complete packet is in front, the rest untouched, and the call
    returns the length of the complete packet. -/
theorem builder_slice_packet (p : Packet) (wf : PacketWF p) (hok : (ser p).fin = .ok ()) (buf : Bytes) :
    (buf.length < (ser p).full.length →
      Build.writeToSlice p buf = (buf, .error (.space (ser p).full.length))) ∧
    ((ser p).full.length ≤ buf.length →
      (Build.writeToSlice p buf).1 = (ser p).full ++ buf.drop (ser p).full.length ∧
      (Build.writeToSlice p buf).1.length = buf.length ∧
      (Build.writeToSlice p buf).2 = .ok (ser p).full.length) := by
  have hs := builder_final_size p wf hok
  have := builder_slice (ser p) (finalSize p) buf hs
  unfold Build.writeToSlice
  rw [hok] at this
  rw [← hs] at this
  rw [← hs]
  exact this

end builder

/-! ## failing reader -/

/-- **failing reader.**  For every read program `p` (every `read` function is one), every data
    and every failure position `k`, compared with the same read over a reader that never fails:
    * never more than `k` bytes are consumed, and the reader never moves backwards;
    * if the complete read consumes more than `k` bytes, the result is the injected I/O error —
      never `Ok`, never a content error — and exactly `k` bytes were consumed;
    * otherwise the result (value or content error) and the consumption are those of the complete
      read. -/
theorem failing_reader {α : Type} (p : RProg α) (data : Bytes) (k : Nat) :
    (p.run { data := data, pos := 0, failAt := some k }).1.pos ≤ k ∧
    (k < (p.run { data := data, pos := 0, failAt := none }).1.pos →
      (p.run { data := data, pos := 0, failAt := some k }).2 = .error (.io .injected) ∧
      (p.run { data := data, pos := 0, failAt := some k }).1.pos = k) ∧
    ((p.run { data := data, pos := 0, failAt := none }).1.pos ≤ k →
      (∀ e, (p.run { data := data, pos := 0, failAt := none }).2 ≠ .error (.io e)) →
      (p.run { data := data, pos := 0, failAt := some k }).2 =
        (p.run { data := data, pos := 0, failAt := none }).2 ∧
      (p.run { data := data, pos := 0, failAt := some k }).1.pos =
        (p.run { data := data, pos := 0, failAt := none }).1.pos) := by
  refine ⟨?_, run_compare p data k 0 (Nat.zero_le _) (Nat.zero_le _)⟩
  have := (run_same p { data := data, pos := 0, failAt := some k }).2.2.2
  simp only [Reader.limit] at this
  have := this (Nat.zero_le _)
  omega

/-- an `Ok` from a failing reader means that everything the read needed lay in front of the
    failure position (contrapositive of the above: `k <` bytes needed ⇒ never `Ok`). -/
theorem failing_reader_ok {α : Type} (p : RProg α) (data : Bytes) (k : Nat) (a : α)
    (h : (p.run { data := data, pos := 0, failAt := some k }).2 = .ok a) :
    (p.run { data := data, pos := 0, failAt := none }).1.pos ≤ k := by
  by_cases hc : k < (p.run { data := data, pos := 0, failAt := none }).1.pos
  · have := ((failing_reader p data k).2.1 hc).1
    rw [this] at h; cases h
  · omega

/-! ## LimitedReader -/

/-- **limited reader.**  For every limited read program — every adaptive sequence of
    `read_exact` and `start_layer` calls, hence every `read_limited` function — run on a fresh
    `LimitedReader::new(inner, max_len, …)`: no subtraction underflows (`panicked = false`, the
    result is not a panic), `read_len ≤ max_len` holds afterwards, and the number of bytes pulled
    from the inner reader is at most the initial `max_len`. -/
theorem limited_reader {α : Type} (p : LProg α) (inner : Reader) (hin : inner.pos ≤ inner.limit)
    (maxLen : Nat) (src : String) (off : Nat) (layer : String) :
    (p.run (Limited.new inner maxLen src off layer)).1.panicked = false ∧
    (p.run (Limited.new inner maxLen src off layer)).2 ≠ .error .panic ∧
    (p.run (Limited.new inner maxLen src off layer)).1.readLen ≤
      (p.run (Limited.new inner maxLen src off layer)).1.maxLen ∧
    (p.run (Limited.new inner maxLen src off layer)).1.inner.pos - inner.pos ≤ maxLen := by
  have h := lrun_inv p (LInv.new inner hin maxLen src off layer)
  exact ⟨h.1.noPanic, h.2, h.1.readLe, h.1.pulled⟩

/-- a whole session: any list of limited read programs run one after the other on the same
    `LimitedReader` (what `io.limited` runs). -/
def runAll {α : Type} : List (LProg α) → Limited → Limited
  | [], l => l
  | p :: ps, l => runAll ps (p.run l).1

theorem limited_reader_session {α : Type} (ps : List (LProg α)) (inner : Reader)
    (hin : inner.pos ≤ inner.limit) (maxLen : Nat) (src : String) (off : Nat) (layer : String) :
    (runAll ps (Limited.new inner maxLen src off layer)).panicked = false ∧
    (runAll ps (Limited.new inner maxLen src off layer)).readLen ≤
      (runAll ps (Limited.new inner maxLen src off layer)).maxLen ∧
    (runAll ps (Limited.new inner maxLen src off layer)).inner.pos - inner.pos ≤ maxLen := by
  have key : ∀ (ps : List (LProg α)) (l : Limited), LInv maxLen inner.pos l →
      LInv maxLen inner.pos (runAll ps l) := by
    intro ps
    induction ps with
    | nil => intro l h; exact h
    | cons p ps ih => intro l h; exact ih _ (lrun_inv p h).1
  have h := key ps _ (LInv.new inner hin maxLen src off layer)
  exact ⟨h.noPanic, h.readLe, h.pulled⟩

/-- the length error of a limited `read_exact` states the real numbers: it is raised exactly when
    the request does not fit into what the layer has left, `required_len` is what the layer would
    have to hold, `len` what it holds. -/
theorem limited_len_error (l : Limited) (n : Nat) (hr : l.readLen ≤ l.maxLen) (e : LenErr)
    (h : (l.readExact n).2 = .error (.len e)) :
    l.maxLen < l.readLen + n ∧ e.required = l.readLen + n ∧ e.len = l.maxLen ∧
    e.src = l.lenSource ∧ e.layer = l.layer ∧ e.off = l.layerOffset ∧ (l.readExact n).1 = l := by
  unfold Limited.readExact at h ⊢
  rw [if_neg (by omega)] at h ⊢
  by_cases hn : l.maxLen - l.readLen < n
  · rw [if_pos hn] at h ⊢
    simp only [Except.error.injEq, LErr.len.injEq] at h
    subst h
    exact ⟨by omega, rfl, rfl, rfl, rfl, rfl, rfl⟩
  · rw [if_neg hn] at h
    rcases readExact_cases l.inner n with ⟨he, _⟩ | ⟨_, _, he⟩ | ⟨_, _, he⟩ <;>
      rw [he] at h <;> simp at h

/-! ## Read + Seek skipping of IPv6 extension headers -/

section skip
open EpModel.Io.Skip EpModel.Lemmas.IoSkip

/-- **`Ipv6Header::skip_header_extension`** on a reader that fails at byte `k` (any data, any
    start position, any next header):
    * a next header that is no skippable extension header: `Ok(next_header)`, nothing is read;
    * a skippable one (`kindOf nh = some kind`): if the complete header — 8 bytes for a fragment
      header, `(len + 2) * 4` for an authentication header, `(len + 1) * 8` otherwise, `len` the
      second byte — lies inside the bytes the reader can hand out, the result is `Ok(first byte)`
      and the reader stands exactly behind the header; if ANY byte of it is missing, the result is
      the reader's error (the injected one when the reader fails inside the data, `UnexpectedEof`
      when the data ends) — never `Ok`. -/
theorem skip_header_extension (r : Reader) (nh : Nat) :
    (¬ isSkippable nh → skipHeaderExtension r nh = (r, .ok nh)) ∧
    (∀ kind, kindOf nh = some kind →
      (r.pos + hdrLen kind r.data r.pos ≤ r.limit →
        skipHeaderExtension r nh =
          ({ data := r.data, pos := r.pos + hdrLen kind r.data r.pos, failAt := r.failAt },
           .ok (bAt r.data r.pos))) ∧
      (r.limit < r.pos + hdrLen kind r.data r.pos →
        (skipHeaderExtension r nh).2 = .error r.dryError)) := by
  refine ⟨not_skippable r nh, fun kind hk => ⟨skip_ok r nh kind hk, fun h => ?_⟩⟩
  exact (skip_err r nh kind hk (by omega)).1

/-- the same as an equivalence, for the reader of the property (start of the data, fails at byte
    `k`): `Ok` ⇔ the whole header lies in front of both the failure position and the end of the
    data. -/
theorem skip_header_extension_ok_iff (data : Bytes) (k nh : Nat) (kind : Kind)
    (hk : kindOf nh = some kind) :
    (∃ n, (skipHeaderExtension { data := data, pos := 0, failAt := some k } nh).2 = .ok n) ↔
      hdrLen kind data 0 ≤ k ∧ hdrLen kind data 0 ≤ data.length := by
  have hl : Reader.limit { data := data, pos := 0, failAt := some k } = min k data.length := rfl
  constructor
  · rintro ⟨n, hn⟩
    by_cases hfit : 0 + hdrLen kind data 0 ≤ min k data.length
    · omega
    · have := (skip_err { data := data, pos := 0, failAt := some k } nh kind hk
        (by rw [hl]; exact hfit)).1
      rw [this] at hn; cases hn
  · intro h
    have := skip_ok { data := data, pos := 0, failAt := some k } nh kind hk
      (by rw [hl]; show 0 + hdrLen kind data 0 ≤ min k data.length; omega)
    exact ⟨_, by rw [this]⟩

/-- `is_skippable_header_extension` and the arms of `skip_header_extension` name the same ip
    numbers (otherwise the loop of `skip_all_header_extensions` would spin on a header it
    considers skippable but does not skip). -/
theorem skippable_arms_agree (nh : Nat) : isSkippable nh ↔ ∃ kind, kindOf nh = some kind :=
  isSkippable_iff nh

/-- **`Ipv6Header::skip_all_header_extensions`**: the loop terminates for every input (`skipAll` is
    a total function: every successful skip moves the reader forward inside the available bytes),
    and `Ok(f)` means: a chain of skippable extension headers, every one completely inside the
    bytes the reader can hand out, leads from the start position to a header `f` that is not a
    skippable extension header; the reader then stands exactly behind the last of them (start +
    the sum of the header lengths), never behind the available bytes. -/
theorem skip_all_ok (r : Reader) (nh f : Nat) (h : (skipAll r nh).2 = .ok f) :
    Chain r.data r.limit nh r.pos f (skipAll r nh).1.pos ∧ ¬ isSkippable f ∧
    r.pos ≤ (skipAll r nh).1.pos ∧ (r.pos ≤ r.limit → (skipAll r nh).1.pos ≤ r.limit) ∧
    (skipAll r nh).1.data = r.data ∧ (skipAll r nh).1.failAt = r.failAt := by
  obtain ⟨hc, hd, hf⟩ := (skipAll_spec r nh).1 f h
  exact ⟨hc, hc.bounds.2.2, hc.bounds.1, hc.bounds.2.1, hd, hf⟩

/-- conversely, every such chain is skipped completely, with exactly this result. -/
theorem skip_all_complete (data : Bytes) (failAt : Option Nat) (nh pos f p : Nat)
    (h : Chain data (Reader.limit { data := data, pos := pos, failAt := failAt }) nh pos f p) :
    skipAll { data := data, pos := pos, failAt := failAt } nh =
      ({ data := data, pos := p, failAt := failAt }, .ok f) :=
  skipAll_of_chain data failAt nh pos f p h

/-- an error of the loop is the error of the reader: injected when the reader fails inside the
    data, `UnexpectedEof` when the data ends; and it is returned exactly when no chain of complete
    headers exists (some header of the chain is cut). -/
theorem skip_all_error (r : Reader) (nh : Nat) :
    (∀ e, (skipAll r nh).2 = .error e → e = r.dryError) ∧
    ((∃ e, (skipAll r nh).2 = .error e) ↔ ¬ ∃ f p, Chain r.data r.limit nh r.pos f p) := by
  refine ⟨(skipAll_spec r nh).2, ?_⟩
  constructor
  · rintro ⟨e, he⟩ ⟨f, p, hc⟩
    have := skipAll_of_chain r.data r.failAt nh r.pos f p hc
    have hr : ({ data := r.data, pos := r.pos, failAt := r.failAt } : Reader) = r := rfl
    rw [hr] at this
    rw [this] at he; cases he
  · intro hno
    cases hres : (skipAll r nh).2 with
    | error e => exact ⟨e, rfl⟩
    | ok f => exact absurd ⟨f, _, (skip_all_ok r nh f hres).1⟩ hno

end skip

/-! ## Read + Seek skipping over a reader whose `seek` fails -/

section skip_seek
open EpModel.Io.Skip EpModel.Lemmas.IoSkip EpModel.Lemmas.IoSkipSeek

/-- **`skip_header_extension`, the failing seek is not this call** (no seek fails at all:
    `sf = none`, or the failing index is another one: `sf ≠ some c` with `c` the number of seek
    calls made before): reader and result are those of the function whose seek never fails, so
    `skip_header_extension` / `skip_header_extension_ok_iff` describe them; the counter grows by one
    exactly when the first read succeeded (that is when `seek` is called). -/
theorem skip_ext_sf_unreached (rd : Reader) (c : Nat) (sf : Option Nat) (nh : Nat)
    (hsf : sf ≠ some c) :
    (skipExtSf { rd := rd, seeks := c, seekFail := sf } nh).1.rd = (skipHeaderExtension rd nh).1 ∧
    (skipExtSf { rd := rd, seeks := c, seekFail := sf } nh).2 = liftRes (skipHeaderExtension rd nh).2 ∧
    (skipExtSf { rd := rd, seeks := c, seekFail := sf } nh).1.seekFail = sf ∧
    (skipExtSf { rd := rd, seeks := c, seekFail := sf } nh).1.seeks =
      c + (match kindOf nh with
           | none => 0
           | some kind => if rd.pos + kind.firstRead ≤ rd.limit then 1 else 0) := by
  cases hk : kindOf nh with
  | none =>
    rw [skipExtSf_not_skippable _ nh hk]
    have : ¬ isSkippable nh := fun h => by
      obtain ⟨k, hk'⟩ := (isSkippable_iff nh).1 h
      rw [hk] at hk'; cases hk'
    rw [not_skippable rd nh this]
    exact ⟨rfl, rfl, rfl, rfl⟩
  | some kind =>
    by_cases h1 : rd.pos + kind.firstRead ≤ rd.limit
    · rw [skipExtSf_seek_ok rd c sf nh kind hk h1 hsf]
      exact ⟨rfl, rfl, rfl, by simp [h1]⟩
    · rw [skipExtSf_first_read_fails rd c sf nh kind hk h1]
      exact ⟨rfl, rfl, rfl, by simp [h1]⟩

/-- **`skip_header_extension`, this seek call is the failing one** (`c` seek calls were made
    before, the call with index `c` fails), for a skippable next header:
    * if the first read (1 byte of a fragment header, 2 bytes otherwise) succeeds, the seek is
      reached: the result is the seek error — never `Ok`, never a read error —, the reader stands
      exactly behind the bytes of the first read (the failed seek did not move it, and no read
      followed), and exactly one more seek call was made;
    * if the first read fails, the seek is not reached: the reader's own error, as before. -/
theorem skip_ext_sf_reached (rd : Reader) (c : Nat) (nh : Nat) (kind : Kind)
    (hk : kindOf nh = some kind) :
    (rd.pos + kind.firstRead ≤ rd.limit →
      skipExtSf { rd := rd, seeks := c, seekFail := some c } nh =
        ({ rd := { data := rd.data, pos := rd.pos + kind.firstRead, failAt := rd.failAt },
           seeks := c + 1, seekFail := some c }, .error .seek)) ∧
    (¬ rd.pos + kind.firstRead ≤ rd.limit →
      skipExtSf { rd := rd, seeks := c, seekFail := some c } nh =
        ({ rd := (skipHeaderExtension rd nh).1, seeks := c, seekFail := some c },
         .error (.io rd.dryError))) := by
  refine ⟨skipExtSf_seek_fails rd c nh kind hk, fun h1 => ?_⟩
  rw [skipExtSf_first_read_fails rd c (some c) nh kind hk h1]
  have hcut : ¬ rd.pos + hdrLen kind rd.data rd.pos ≤ rd.limit := by
    have := firstRead_le_hdrLen kind rd.data rd.pos
    omega
  rw [(skip_err rd nh kind hk hcut).1]
  rfl

/-- the reader of the property (start of the data, read failure at byte `k`, the `j`-th seek
    fails): `Ok` ⇔ the whole header lies in front of the failure position and the end of the
    data AND the one seek call of the function is not the failing one. -/
theorem skip_ext_sf_ok_iff (data : Bytes) (k j nh : Nat) (kind : Kind) (hk : kindOf nh = some kind) :
    (∃ n, (skipExtSf { rd := { data := data, pos := 0, failAt := some k }, seeks := 0,
                       seekFail := some j } nh).2 = .ok n) ↔
      hdrLen kind data 0 ≤ k ∧ hdrLen kind data 0 ≤ data.length ∧ j ≠ 0 := by
  have hl : Reader.limit { data := data, pos := 0, failAt := some k } = min k data.length := rfl
  have hfl := firstRead_le_hdrLen kind data 0
  by_cases hj : j = 0
  · subst hj
    constructor
    · rintro ⟨n, hn⟩
      by_cases h1 : (0 : Nat) + kind.firstRead ≤ min k data.length
      · rw [(skip_ext_sf_reached _ 0 nh kind hk).1 (by rw [hl]; exact h1)] at hn; cases hn
      · rw [(skip_ext_sf_reached _ 0 nh kind hk).2 (by rw [hl]; exact h1)] at hn; cases hn
    · intro h; exact absurd rfl h.2.2
  · have hsf : (some j : Option Nat) ≠ some 0 := by
      intro h; cases h; exact hj rfl
    rw [(skip_ext_sf_unreached _ 0 (some j) nh hsf).2.1]
    have hiff := skip_header_extension_ok_iff data k nh kind hk
    constructor
    · rintro ⟨n, hn⟩
      cases hr : (skipHeaderExtension { data := data, pos := 0, failAt := some k } nh).2 with
      | error e => rw [hr] at hn; cases hn
      | ok m =>
        obtain ⟨a, b⟩ := hiff.1 ⟨m, hr⟩
        exact ⟨a, b, hj⟩
    · rintro ⟨a, b, _⟩
      obtain ⟨n, hn⟩ := hiff.2 ⟨a, b⟩
      exact ⟨n, by rw [hn]; rfl⟩

/-- **`skip_all_header_extensions`, no seek failure**: with `seekFail = none` the new function is
    the old one (same reader, same result), so `skip_all_ok` / `skip_all_complete` /
    `skip_all_error` describe it. -/
theorem skip_all_sf_free (rd : Reader) (c nh : Nat) :
    (skipAllSf { rd := rd, seeks := c, seekFail := none } nh).1.rd = (skipAll rd nh).1 ∧
    (skipAllSf { rd := rd, seeks := c, seekFail := none } nh).2 = liftRes (skipAll rd nh).2 ∧
    (skipAllSf { rd := rd, seeks := c, seekFail := none } nh).1.seekFail = none ∧
    c ≤ (skipAllSf { rd := rd, seeks := c, seekFail := none } nh).1.seeks := by
  obtain ⟨⟨h1, h2, h3, _, _⟩, hun, _⟩ := skipAllSf_spec rd nh c none
  refine ⟨h1, h2, ?_, h3⟩
  rw [hun (fun j hj => by cases hj)]

/-- how many seek calls the loop makes when no seek fails (`n` below; the calls have the indices
    `c … n - 1`), in terms of the data: a run that ends `Ok` made one call per skipped header; a run
    that ends in a read error inside header number `m` made `m` calls for the complete headers
    in front of it, plus one if the first read of the cut header still succeeded (the error then
    comes from the read behind that seek). -/
theorem skip_all_sf_seek_calls (rd : Reader) (c nh : Nat) :
    (∀ f, (skipAll rd nh).2 = .ok f →
      ∃ m, Steps rd.data rd.limit nh rd.pos m f (skipAll rd nh).1.pos ∧
        (skipAllSf { rd := rd, seeks := c, seekFail := none } nh).1.seeks = c + m) ∧
    (∀ e, (skipAll rd nh).2 = .error e →
      ∃ m nh' pos' kind, Steps rd.data rd.limit nh rd.pos m nh' pos' ∧ kindOf nh' = some kind ∧
        ¬ pos' + hdrLen kind rd.data pos' ≤ rd.limit ∧
        (skipAllSf { rd := rd, seeks := c, seekFail := none } nh).1.seeks =
          c + m + (if pos' + kind.firstRead ≤ rd.limit then 1 else 0)) := by
  obtain ⟨⟨_, _, h3, h4, h5⟩, _, _⟩ := skipAllSf_spec rd nh c none
  refine ⟨fun f hf => ⟨_, h4 f hf, ?_⟩, h5⟩
  show (freeRun rd c nh).1.seeks = c + ((freeRun rd c nh).1.seeks - c)
  omega

/-- **the failing seek is not in reach** — its index `j` lies in front of the calls of this run
    (`j < c`) or the run in which no seek fails ends (with `Ok` or with a read error) before its
    `j`-th seek call: reader, counter and result are those of the run in which no seek fails, i.e.
    those of the old function.  So every existing theorem carries over, and a read error that comes
    first in program order is the error that is returned. -/
theorem skip_all_sf_unreached (rd : Reader) (c nh j : Nat)
    (h : j < c ∨ (skipAllSf { rd := rd, seeks := c, seekFail := none } nh).1.seeks ≤ j) :
    (skipAllSf { rd := rd, seeks := c, seekFail := some j } nh).1.rd = (skipAll rd nh).1 ∧
    (skipAllSf { rd := rd, seeks := c, seekFail := some j } nh).2 = liftRes (skipAll rd nh).2 ∧
    (skipAllSf { rd := rd, seeks := c, seekFail := some j } nh).1.seeks =
      (skipAllSf { rd := rd, seeks := c, seekFail := none } nh).1.seeks ∧
    (skipAllSf { rd := rd, seeks := c, seekFail := some j } nh).1.seekFail = some j := by
  obtain ⟨⟨h1, h2, _, _, _⟩, hun, _⟩ := skipAllSf_spec rd nh c (some j)
  rw [hun (fun j' hj' => by cases hj'; exact h)]
  exact ⟨h1, h2, rfl, rfl⟩

/-- **the failing seek is in reach** — the run in which no seek fails makes a seek call with
    index `j` (`c ≤ j <` its final counter; every read in front of that call succeeds, because that
    run got there): the result is the seek error — never `Ok`, never a read error, although a read
    behind it might fail as well —; exactly `j + 1 - c` seek calls were made, the failing one being
    the last; and the reader is in the state of the failing call: `j - c` complete headers were
    skipped, the first read of the next header (`kind.firstRead` bytes at `pos'`) was made, the seek
    did not move the reader and nothing was read behind it. -/
theorem skip_all_sf_reached (rd : Reader) (c nh j : Nat) (hcj : c ≤ j)
    (hjn : j < (skipAllSf { rd := rd, seeks := c, seekFail := none } nh).1.seeks) :
    ∃ nh' pos' kind, Steps rd.data rd.limit nh rd.pos (j - c) nh' pos' ∧
      kindOf nh' = some kind ∧ pos' + kind.firstRead ≤ rd.limit ∧
      skipAllSf { rd := rd, seeks := c, seekFail := some j } nh =
        ({ rd := { data := rd.data, pos := pos' + kind.firstRead, failAt := rd.failAt },
           seeks := j + 1, seekFail := some j }, .error .seek) :=
  (skipAllSf_spec rd nh c (some j)).2.2 j rfl hcj hjn

/-- **`Ok` only if every read and every seek of the whole chain succeeded** (strengthening of
    `skip_all_ok`): an `Ok(f)` means that `m` skippable extension headers, every one completely
    inside the bytes the reader can hand out, lead from the start to the header `f`, which is not
    skippable (a `Chain`, so every read succeeded); that exactly `m` seek calls were made — the
    calls `c … c + m - 1` — and that the failing seek call, if there is one, is none of them; the
    reader stands behind the last header and the old function returns the same. -/
theorem skip_all_sf_ok (rd : Reader) (c : Nat) (sf : Option Nat) (nh f : Nat)
    (h : (skipAllSf { rd := rd, seeks := c, seekFail := sf } nh).2 = .ok f) :
    ∃ m, Steps rd.data rd.limit nh rd.pos m f
        (skipAllSf { rd := rd, seeks := c, seekFail := sf } nh).1.rd.pos ∧
      ¬ isSkippable f ∧
      Chain rd.data rd.limit nh rd.pos f (skipAllSf { rd := rd, seeks := c, seekFail := sf } nh).1.rd.pos ∧
      (skipAllSf { rd := rd, seeks := c, seekFail := sf } nh).1.seeks = c + m ∧
      (∀ j, sf = some j → j < c ∨ c + m ≤ j) ∧
      skipAll rd nh = ((skipAllSf { rd := rd, seeks := c, seekFail := sf } nh).1.rd, .ok f) := by
  obtain ⟨⟨h1, h2, h3, h4, _⟩, hun, hre⟩ := skipAllSf_spec rd nh c sf
  have hfree : ∀ j, sf = some j → j < c ∨ (freeRun rd c nh).1.seeks ≤ j := by
    intro j hj
    by_cases hc : j < c
    · exact Or.inl hc
    · by_cases hn : (freeRun rd c nh).1.seeks ≤ j
      · exact Or.inr hn
      · obtain ⟨_, _, _, _, _, _, hres⟩ := hre j hj (by omega) (by omega)
        rw [hres] at h; cases h
  rw [hun hfree] at h ⊢
  dsimp only at h ⊢
  have hold : (skipAll rd nh).2 = .ok f := by
    rw [h2] at h
    cases hr : (skipAll rd nh).2 with
    | error e => rw [hr] at h; cases h
    | ok g => rw [hr] at h; cases h; rfl
  have hst := h4 f hold
  rw [h1]
  refine ⟨_, hst, ?_, ?_, by omega, fun j hj => ?_, ?_⟩
  · exact (skip_all_ok rd nh f hold).2.1
  · exact (skip_all_ok rd nh f hold).1
  · rcases hfree j hj with hc | hc
    · exact Or.inl hc
    · right; omega
  · rw [← hold]

/-- **which error, decided by the first failing call in program order.**  The run in which no
    seek fails is the program order of the calls: it makes the seek calls `c … n - 1` and then ends,
    with `Ok` or with the first read that fails.  An error of the new function is
    * the seek error exactly when the failing index `j` is one of `c … n - 1` — that seek call
      comes before the read that fails (if any read fails at all);
    * otherwise the read error of the old function (the reader's own error: injected when it
      fails inside the data, `UnexpectedEof` when the data ends), returned with the reader of the
      old function — that read comes before the `j`-th seek call, which is never made.
    There is no other error and no way to get `Ok` out of a run in which a call failed. -/
theorem skip_all_sf_error (rd : Reader) (c : Nat) (sf : Option Nat) (nh : Nat) :
    ((skipAllSf { rd := rd, seeks := c, seekFail := sf } nh).2 = .error .seek ↔
      ∃ j, sf = some j ∧ c ≤ j ∧ j < (skipAllSf { rd := rd, seeks := c, seekFail := none } nh).1.seeks) ∧
    (∀ e, (skipAllSf { rd := rd, seeks := c, seekFail := sf } nh).2 = .error (.io e) →
      e = rd.dryError ∧
      skipAll rd nh = ((skipAllSf { rd := rd, seeks := c, seekFail := sf } nh).1.rd, .error e) ∧
      (∀ j, sf = some j → j < c ∨ (skipAllSf { rd := rd, seeks := c, seekFail := sf } nh).1.seeks ≤ j)) := by
  obtain ⟨⟨h1, h2, h3, _, _⟩, hun, hre⟩ := skipAllSf_spec rd nh c sf
  by_cases hin : ∃ j, sf = some j ∧ c ≤ j ∧ j < (freeRun rd c nh).1.seeks
  · obtain ⟨j, hj, hcj, hjn⟩ := hin
    obtain ⟨_, _, _, _, _, _, hres⟩ := hre j hj hcj hjn
    rw [hres]
    exact ⟨⟨fun _ => ⟨j, hj, hcj, hjn⟩, fun _ => rfl⟩, fun e he => by cases he⟩
  · have hfree : ∀ j, sf = some j → j < c ∨ (freeRun rd c nh).1.seeks ≤ j := by
      intro j hj
      by_cases hc : j < c
      · exact Or.inl hc
      · by_cases hn : (freeRun rd c nh).1.seeks ≤ j
        · exact Or.inr hn
        · exact absurd ⟨j, hj, by omega, by omega⟩ hin
    rw [hun hfree]
    dsimp only
    rw [h1, h2]
    refine ⟨⟨fun h => ?_, fun h => absurd h hin⟩, fun e he => ?_⟩
    · cases hr : (skipAll rd nh).2 with
      | error e => rw [hr] at h; cases h
      | ok g => rw [hr] at h; cases h
    · have hold : (skipAll rd nh).2 = .error e := by
        cases hr : (skipAll rd nh).2 with
        | error e' => rw [hr] at he; cases he; rfl
        | ok g => rw [hr] at he; cases he
      exact ⟨(skip_all_error rd nh).1 e hold, by rw [← hold], hfree⟩

end skip_seek

/-! ## PacketBuilder, every path (general builder model of C10) -/

section gbuilder
open EpModel.Builder

/-- **space errors state the length really required — for every builder configuration.**
    `write_to_slice` returns `Space(r)` exactly when the slice is shorter than `size`, `r` is then
    `size`, and `size` is the number of bytes a successful `write` produces; a slice of at least
    `size` bytes never gives a space error, and `Ok(n)` means `n = size` bytes, the same as
    `write` emits, were written and fit the slice. -/
theorem gbuilder_space_required (c : Cfg) (p : Bytes) (cap : Nat) (wf : c.WF) :
    (cap < size c p.length → writeToSlice c cap p = .space (size c p.length)) ∧
    (∀ r, writeToSlice c cap p = .space r → cap < size c p.length ∧ r = size c p.length) ∧
    (∀ out, build c p = .ok out → out.length = size c p.length) ∧
    (∀ n out, writeToSlice c cap p = .ok n out →
      n = size c p.length ∧ out.length = n ∧ n ≤ cap ∧ build c p = .ok out) := by
  have hs := C10.slice_agrees c p cap wf
  refine ⟨fun h => by rw [hs, if_pos h], fun r hr => ?_, fun out h => C10.build_size c p out wf h,
    fun n out hn => ?_⟩
  · rw [hs] at hr
    split at hr
    · rename_i hlt
      simp only [SliceRes.space.injEq] at hr
      exact ⟨hlt, hr.symm⟩
    · split at hr <;> cases hr
  · rw [hs] at hn
    split at hn
    · cases hn
    · rename_i hge
      split at hn
      · rename_i out' hb
        simp only [SliceRes.ok.injEq] at hn
        obtain ⟨h1, h2⟩ := hn
        subst h1; subst h2
        exact ⟨rfl, C10.build_size c p _ wf hb, by omega, hb⟩
      · cases hn

/-- the buffer after `write_to_slice` (`sliceBuffer`): a slice that is too short is left
    untouched; otherwise the complete packet is in front, everything behind it is untouched and
    the buffer keeps its length. -/
theorem gbuilder_slice_buffer (c : Cfg) (p : Bytes) (cap : Nat) (fill : UInt8) (wf : c.WF) :
    (cap < size c p.length → sliceBuffer c cap p fill = List.replicate cap fill) ∧
    (∀ out, size c p.length ≤ cap → build c p = .ok out →
      sliceBuffer c cap p fill = out ++ List.replicate (cap - size c p.length) fill ∧
      (sliceBuffer c cap p fill).length = cap) := by
  have hs := C10.slice_agrees c p cap wf
  refine ⟨fun h => ?_, fun out hge hb => ?_⟩
  · unfold sliceBuffer; rw [hs, if_pos h]
  · have hl := C10.build_size c p out wf hb
    have hc : complete c p = out := by unfold complete; rw [hb]
    unfold sliceBuffer
    rw [hs, if_neg (by omega), hb]
    simp only [hc, hl, List.length_append, List.length_replicate, true_and]
    omega

/-- **`write` of every builder path against a writer that fails at byte `k`**, for EVERY way the
    code may cut its output into `write_all` calls (`parts.flatten = complete c p`): the writer has
    received exactly the first `k` bytes of the complete output; below the complete length the
    result is the injected I/O error — never `Ok`, never one of the builder's own errors — and
    from the complete length on it is the builder's own result. -/
theorem gbuilder_failing_writer (c : Cfg) (p : Bytes) (k : Nat) (parts : List Bytes)
    (hp : parts.flatten = complete c p) :
    ((serOf c p parts).run (Writer.failingAt k)).1.out = (complete c p).take k ∧
    (k < (complete c p).length →
      ((serOf c p parts).run (Writer.failingAt k)).2 = .error (.io .injected)) ∧
    ((complete c p).length ≤ k →
      ((serOf c p parts).run (Writer.failingAt k)).2 =
        (match build c p with
         | .ok _ => .ok ()
         | .error f => .error (.content f.err))) := by
  have h := failing_writer_ser (serOf c p parts) k
  have hf : (serOf c p parts).full = complete c p := hp
  rw [hf] at h
  refine ⟨h.1, h.2.1, fun hk => ?_⟩
  rw [h.2.2 hk]
  simp only [serOf, ownResult]
  cases build c p <;> rfl

/-- what the driver runs (`writeFailing`, the one-part cut) is an instance of it. -/
theorem gbuilder_write_failing (c : Cfg) (p : Bytes) (k : Nat) :
    (writeFailing c p k).1.out = (complete c p).take k ∧
    (k < (complete c p).length → (writeFailing c p k).2 = .error (.io .injected)) ∧
    ((complete c p).length ≤ k →
      (writeFailing c p k).2 =
        (match build c p with
         | .ok _ => .ok ()
         | .error f => .error (.content f.err))) :=
  gbuilder_failing_writer c p k [complete c p] (by simp)

/-- for an encodable configuration the failing-writer run succeeds exactly when the writer accepts
    `size` bytes: `Ok` ⇔ `size ≤ k`, and what arrived is the first `min k size` bytes of the
    packet. -/
theorem gbuilder_write_failing_ok_iff (c : Cfg) (p : Bytes) (k : Nat) (wf : c.WF)
    (enc : Encodable c p.length) :
    ((writeFailing c p k).2 = .ok () ↔ size c p.length ≤ k) ∧
    (writeFailing c p k).1.out.length = min k (size c p.length) := by
  have hb := C10.build_accepts c p wf enc
  have hl := C10.build_size c p _ wf hb
  have hc : complete c p = Lemmas.Builder.buildOk c p := by unfold complete; rw [hb]
  obtain ⟨h1, h2, h3⟩ := gbuilder_write_failing c p k
  rw [hc] at h1 h2 h3
  rw [hl] at h2 h3
  refine ⟨⟨fun h => ?_, fun h => ?_⟩, ?_⟩
  · by_cases hk : k < size c p.length
    · rw [h2 hk] at h; cases h
    · omega
  · rw [h3 h, hb]
  · rw [h1, List.length_take, hl]

end gbuilder

/-! ## non-vacuity -/

open EpModel.CodecNet in
/-- an IPv4 header with one option word -/
def sampleIpv4 : Ipv4Header :=
  { dscp := 63, ecn := 3, totalLen := 65535, identification := 65535, dontFragment := true,
    moreFragments := true, fragmentOffset := 8191, timeToLive := 255, protocol := 51,
    headerChecksum := 4660, source := [10, 0, 0, 1], destination := [10, 0, 0, 2],
    options := [1, 2, 3, 4] }

open EpModel.CodecNet in
/-- an authentication header with a 4 byte ICV -/
def sampleAuth : IpAuthHeader := { nextHeader := 6, spi := 1, sequenceNumber := 2, rawIcv := [9, 8, 7, 6] }

example : sampleIpv4.WF ∧ sampleAuth.WF ∧ (Parts.ipv4raw sampleIpv4).length = 2 ∧
    (Parts.ipv4raw sampleIpv4).flatten.length = 24 ∧ (Parts.auth sampleAuth).flatten.length = 16 := by
  decide

example : Codec.Eth2.sampleMax.WF ∧ Codec.Sll.sampleMax.WF := by decide

example : PacketWF { link := .eth2 [1, 2, 3, 4, 5, 6] [7, 8, 9, 10, 11, 12], vlan := .single 5,
                     net := .v4 [10, 0, 0, 1] [10, 0, 0, 2] 64, tp := .udp 1 2, payload := [1, 2, 3] } := by
  simp [PacketWF]

example : (CodecNet.Ipv4Extensions.WF { auth := some sampleAuth } sampleIpv4.protocol) := by decide

-- a writer failing at byte 21 of an IPv4 header with options: 21 bytes arrive (20 of the fixed
-- part, one of the options), the injected error is returned
example : (writeParts (Parts.ipv4raw sampleIpv4) (Writer.failingAt 21)).1.out.length = 21 := by decide
example : (writeParts (Parts.ipv4raw sampleIpv4) (Writer.failingAt 21)).2 = .error .injected := rfl
example : (writeParts (Parts.ipv4raw sampleIpv4) (Writer.failingAt 24)).2 = .ok () := rfl

-- IpHeaders::write of header + authentication header: three write_all calls, 40 bytes
example : (IpHdrs.v4 sampleIpv4 { auth := some sampleAuth }).ser.parts.length = 3 ∧
    (IpHdrs.v4 sampleIpv4 { auth := some sampleAuth }).ser.full.length = 40 := by decide

-- an extension chain hop-by-hop → routing → (upper layer 17) is written in chain order; without
-- the reference from the first header the routing header is reported as not referenced
def sampleExts : Ipv6Exts :=
  { hbh := some { nextHeader := 43, payload := [1, 2, 3, 4, 5, 6] }, dst := none,
    rt := some ({ nextHeader := 17, payload := [6, 5, 4, 3, 2, 1] }, none), frag := none, auth := none }

example : (sampleExts.ser 0).parts.length = 2 ∧ (sampleExts.ser 0).fin = .ok () := by
  unfold Ipv6Exts.ser; simp [sampleExts]; unfold Ipv6Exts.walkLoop
  simp [Ipv6Exts.pick, Ipv6Exts.present, Ipv6Exts.get]
  unfold Ipv6Exts.walkLoop; simp [Ipv6Exts.pick, Ipv6Exts.notReferenced]
example : (sampleExts.ser 43).fin = .error (.extNotReferenced 0) := by
  unfold Ipv6Exts.ser; simp [sampleExts]; unfold Ipv6Exts.walkLoop
  simp [Ipv6Exts.pick, Ipv6Exts.present, Ipv6Exts.get]
  unfold Ipv6Exts.walkLoop; simp [Ipv6Exts.pick, Ipv6Exts.notReferenced]

-- the authentication header read fails with the injected error when the reader fails inside the
-- ICV, and with the content error when the payload length is zero and the 12 fixed bytes are there
example :
    (Reads.auth.run { data := [4, 2, 0, 0, 0, 0, 0, 1, 0, 0, 0, 2, 1, 2, 3, 4], pos := 0,
                      failAt := some 14 }).2 = .error (.io .injected) := rfl
example :
    (Reads.auth.run { data := [4, 0, 0, 0, 0, 0, 0, 1, 0, 0, 0, 2, 1, 2, 3, 4], pos := 0,
                      failAt := some 12 }).2 = .error (.other "err(zeropayloadlen)") := rfl
example :
    (Reads.auth.run { data := [4, 2, 0, 0, 0, 0, 0, 1, 0, 0, 0, 2, 1, 2, 3, 4], pos := 0,
                      failAt := none }).1.pos = 16 := by decide

-- a limited reader session that hits the limit: the length error, and nothing more is pulled
def sampleSession : Limited × Except LErr Bytes :=
  (LProg.read 2 fun _ => LProg.start "IpAuthHeader"
      (LProg.read 5 fun b => LProg.done (Except.ok b))).run
    (Limited.new { data := [1, 2, 3, 4, 5, 6, 7, 8], pos := 0, failAt := none } 6 "Slice" 3
      "Ipv4Header")

example : sampleSession.1.inner.pos = 2 ∧ sampleSession.1.maxLen = 4 := by decide
example : sampleSession.2 =
    .error (.len { required := 5, len := 4, src := "Slice", layer := "IpAuthHeader", off := 5 }) := rfl

-- skipping extension headers: the arms, the header lengths, a chain hop-by-hop → fragment → UDP
-- that is skipped completely, and a fragment header that is cut by the failure position / by the
-- end of the data (the error is returned although every seek "succeeds")
section
open EpModel.Io.Skip EpModel.Lemmas.IoSkip

def sampleChain : Bytes := [44, 0, 1, 2, 3, 4, 5, 6, 17, 9, 0, 0, 0, 0, 0, 1, 0xde, 0xad]

example : kindOf 0 = some .generic ∧ kindOf 44 = some .frag ∧ kindOf 51 = some .auth ∧
    kindOf 17 = none := by decide
example : isSkippable 140 ∧ ¬ isSkippable 50 ∧ ¬ isSkippable 59 := by decide
example : hdrLen .generic sampleChain 0 = 8 ∧ hdrLen .auth [6, 3] 0 = 20 ∧
    hdrLen .generic [6, 255] 0 = 2048 := by decide

theorem sampleChain_chain : Chain sampleChain 16 0 0 17 16 :=
  Chain.step (kind := .generic) rfl (by decide)
    (Chain.step (kind := .frag) rfl (by decide) (Chain.stop (by decide)))

example : skipAll { data := sampleChain, pos := 0, failAt := some 16 } 0 =
    ({ data := sampleChain, pos := 16, failAt := some 16 }, .ok 17) :=
  skip_all_complete sampleChain (some 16) 0 0 17 16 sampleChain_chain

example : (skipHeaderExtension { data := sampleChain, pos := 8, failAt := some 15 } 44).2 =
    .error .injected := rfl
example : (skipHeaderExtension { data := sampleChain.take 15, pos := 8, failAt := some 16 } 44).2 =
    .error .unexpectedEof := rfl
example : (skipHeaderExtension { data := sampleChain, pos := 8, failAt := some 16 } 44) =
    ({ data := sampleChain, pos := 16, failAt := some 16 }, .ok 17) := rfl
end

-- a reader whose seek fails, on the same chain hop-by-hop (8 bytes) → fragment (8 bytes) → UDP:
-- the 0-th seek (inside the hop-by-hop header) fails, the 1-st seek (inside the fragment header)
-- fails, the 2-nd seek is never called; a read failure that comes before the failing seek wins
section
open EpModel.Io.Skip EpModel.Lemmas.IoSkip EpModel.Lemmas.IoSkipSeek

/-- the reader of `io.skip.*.sf`: `sampleChain`, read failure at byte `k`, the `j`-th seek fails -/
def sampleSf (k : Nat) (j : Option Nat) : SReader :=
  { rd := { data := sampleChain, pos := 0, failAt := some k }, seeks := 0, seekFail := j }

-- one header: the seek call of `skip_header_extension` fails / is not the failing one
example : skipExtSf { rd := { data := sampleChain, pos := 8, failAt := some 16 }, seeks := 0,
                      seekFail := some 0 } 44 =
    ({ rd := { data := sampleChain, pos := 9, failAt := some 16 }, seeks := 1, seekFail := some 0 },
     .error .seek) := rfl
example : skipExtSf { rd := { data := sampleChain, pos := 8, failAt := some 16 }, seeks := 0,
                      seekFail := some 1 } 44 =
    ({ rd := { data := sampleChain, pos := 16, failAt := some 16 }, seeks := 1, seekFail := some 1 },
     .ok 17) := rfl
-- the first read fails: the failing seek is not reached, the read error is returned
example : skipExtSf { rd := { data := sampleChain, pos := 8, failAt := some 8 }, seeks := 0,
                      seekFail := some 0 } 44 =
    ({ rd := { data := sampleChain, pos := 8, failAt := some 8 }, seeks := 0, seekFail := some 0 },
     .error (.io .injected)) := rfl
example : (∃ n, (skipExtSf { rd := { data := sampleChain, pos := 0, failAt := some 8 }, seeks := 0,
                             seekFail := some 1 } 0).2 = .ok n) :=
  (skip_ext_sf_ok_iff sampleChain 8 1 0 .generic rfl).2 (by decide)

-- the run in which no seek fails makes two seek calls (hypotheses of skip_all_sf_reached /
-- skip_all_sf_unreached are satisfiable: 0 ≤ 0 < 2, 0 ≤ 1 < 2, 2 ≤ 2)
theorem sampleSf_free : skipAllSf (sampleSf 16 none) 0 =
    ({ rd := { data := sampleChain, pos := 16, failAt := some 16 }, seeks := 2, seekFail := none },
     .ok 17) := by
  rw [skipAllSf_step (sampleSf 16 none) 0 (by decide)
    { rd := { data := sampleChain, pos := 8, failAt := some 16 }, seeks := 1, seekFail := none } 44 rfl]
  rw [skipAllSf_step _ 44 (by decide)
    { rd := { data := sampleChain, pos := 16, failAt := some 16 }, seeks := 2, seekFail := none } 17 rfl]
  exact skipAllSf_stop _ 17 (by decide)

-- the 0-th seek fails: behind the two bytes of the first read, one seek call, nothing else
example : skipAllSf (sampleSf 16 (some 0)) 0 =
    ({ rd := { data := sampleChain, pos := 2, failAt := some 16 }, seeks := 1, seekFail := some 0 },
     .error .seek) :=
  skipAllSf_err (sampleSf 16 (some 0)) 0 (by decide) _ _ rfl

-- the 1-st seek fails: the hop-by-hop header is skipped, one byte of the fragment header is read
example : skipAllSf (sampleSf 16 (some 1)) 0 =
    ({ rd := { data := sampleChain, pos := 9, failAt := some 16 }, seeks := 2, seekFail := some 1 },
     .error .seek) := by
  rw [skipAllSf_step (sampleSf 16 (some 1)) 0 (by decide)
    { rd := { data := sampleChain, pos := 8, failAt := some 16 }, seeks := 1, seekFail := some 1 } 44 rfl]
  exact skipAllSf_err _ 44 (by decide) _ _ rfl

-- … which is what skip_all_sf_reached says (its hypotheses hold: 0 ≤ 1 < 2)
example : ∃ nh' pos' kind, Steps sampleChain 16 0 0 1 nh' pos' ∧ kindOf nh' = some kind ∧
    pos' + kind.firstRead ≤ 16 ∧
    skipAllSf (sampleSf 16 (some 1)) 0 =
      ({ rd := { data := sampleChain, pos := pos' + kind.firstRead, failAt := some 16 },
         seeks := 2, seekFail := some 1 }, .error .seek) :=
  skip_all_sf_reached { data := sampleChain, pos := 0, failAt := some 16 } 0 0 1 (by decide)
    (by have := sampleSf_free; unfold sampleSf at this; rw [this]; decide)

-- the 2-nd seek would fail, but the chain has only two headers: not in reach, `Ok` as before
example : (skipAllSf (sampleSf 16 (some 2)) 0).2 = .ok 17 := by
  have h := (skip_all_sf_unreached { data := sampleChain, pos := 0, failAt := some 16 } 0 0 2
    (by right; have := sampleSf_free; unfold sampleSf at this; rw [this]; decide)).2.1
  have hold : skipAll { data := sampleChain, pos := 0, failAt := some 16 } 0 =
      ({ data := sampleChain, pos := 16, failAt := some 16 }, .ok 17) :=
    skip_all_complete sampleChain (some 16) 0 0 17 16 sampleChain_chain
  unfold sampleSf
  rw [h, hold]; rfl

-- program order: the reader fails at byte 8 (the first read of the fragment header) and the 1-st
-- seek would fail: the read comes first, its error is returned and only one seek call was made;
-- with the reader failing at byte 15 (the read behind the 1-st seek) the seek comes first
example : skipAllSf (sampleSf 8 (some 1)) 0 =
    ({ rd := { data := sampleChain, pos := 8, failAt := some 8 }, seeks := 1, seekFail := some 1 },
     .error (.io .injected)) := by
  rw [skipAllSf_step (sampleSf 8 (some 1)) 0 (by decide)
    { rd := { data := sampleChain, pos := 8, failAt := some 8 }, seeks := 1, seekFail := some 1 } 44 rfl]
  exact skipAllSf_err _ 44 (by decide) _ _ rfl
example : skipAllSf (sampleSf 15 (some 1)) 0 =
    ({ rd := { data := sampleChain, pos := 9, failAt := some 15 }, seeks := 2, seekFail := some 1 },
     .error .seek) := by
  rw [skipAllSf_step (sampleSf 15 (some 1)) 0 (by decide)
    { rd := { data := sampleChain, pos := 8, failAt := some 15 }, seeks := 1, seekFail := some 1 } 44 rfl]
  exact skipAllSf_err _ 44 (by decide) _ _ rfl
example : skipAllSf (sampleSf 15 (some 2)) 0 =
    ({ rd := { data := sampleChain, pos := 15, failAt := some 15 }, seeks := 2, seekFail := some 2 },
     .error (.io .injected)) := by
  rw [skipAllSf_step (sampleSf 15 (some 2)) 0 (by decide)
    { rd := { data := sampleChain, pos := 8, failAt := some 15 }, seeks := 1, seekFail := some 2 } 44 rfl]
  exact skipAllSf_err _ 44 (by decide) _ _ rfl
end

-- the general builder: configurations of C10 satisfy the hypotheses (`ip(..)` with IPv4 options and
-- an authentication header, raw final step), the announced size counts the options
section
open EpModel.Builder

def sampleCfg : Cfg :=
  { link := Step.ethernet2 [1, 2, 3, 4, 5, 6] [7, 8, 9, 10, 11, 12], vlan := Step.singleVlan 5,
    net := .ipv4 sampleIpv4 { auth := some sampleAuth }, tp := none, last := 253 }

example : sampleCfg.WF ∧ Encodable sampleCfg 6 ∧ size sampleCfg 6 = 14 + 4 + 24 + 16 + 6 := by decide
example : C10.exCfg.WF ∧ Encodable C10.exCfg 8 ∧ C10.exCfg6.WF ∧ Encodable C10.exCfg6 8 := by decide
end

end EpModel.Props.C16
