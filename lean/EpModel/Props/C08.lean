import EpModel.Props.C08Link
import EpModel.Props.C08Net
/- C08 — every header value survives encode → decode unchanged.
   Aggregator: the theorems live in `Props/C08Link.lean` (link layer, ARP, transport) and
   `Props/C08Net.lean` (network layer). -/
