import EpModel.Model.Builder
/- C10 — placeholder, filled in below. -/
namespace EpModel.Props.C10
open EpModel EpModel.Builder

theorem size_def (cfg : Cfg) (n : Nat) : size cfg (n + 0) = size cfg n := rfl

end EpModel.Props.C10
