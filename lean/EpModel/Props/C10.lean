import EpModel.Lemmas.Builder
import EpModel.Lemmas.BuilderChecksum
import EpModel.Spec.Decode
import EpModel.Lemmas.BuilderParse
import EpModel.Props.C03
import EpModel.Props.C04
import EpModel.Props.C05
/-
  C10 — PacketBuilder emits consistent, parseable packets of the announced size.

  Model: EpModel.Model.Builder (`build` = `final_write_with_net` behind the typed steps,
  `size` = `final_size`, `writeToSlice` = `final_write_to_slice`).  Closed forms of what is emitted
  (`outLink`, `outVlan`, `outNet`, `outTpHeader`, `buildOk`, `buildFail`) are defined in
  EpModel.Lemmas.Builder.  Hypotheses: `Cfg.WF` (the field ranges / array sizes every value of the
  Rust types has) and `Encodable` (the real size fits the IPv4 / IPv6 length field, no ICMPv6 in
  IPv4), both decidable.  No bound on the payload or on any field.

  Parsing (section "parsing the output"): `build_parses` — strict wire-format decoding (`Spec.decode`,
  which by C03 is what the model of `SlicedPacket::from_*` returns) accepts every built packet and returns
  exactly the configured layers (`expPacket`), uniformly over `Cfg` under the decidable side conditions
  `ParseOk`; lemmas in EpModel.Lemmas.BuilderParse.
-/
namespace EpModel.Props.C10
open EpModel EpModel.Codec EpModel.CodecNet EpModel.Builder EpModel.Checksum EpModel.Lemmas.Builder
open EpModel.Lemmas.BuilderParse

/-- accept ⇔ encodable, and the result is the closed form. -/
theorem build_accepts (c : Cfg) (p : Bytes) (wf : c.WF) (enc : Encodable c p.length) :
    build c p = .ok (buildOk c p) := build_ok c p wf enc

/-- a successful write produces exactly `size(payload.len())` bytes. -/
theorem build_size (c : Cfg) (p out : Bytes) (wf : c.WF) (h : build c p = .ok out) :
    out.length = size c p.length := by
  by_cases enc : Encodable c p.length
  · rw [build_ok c p wf enc] at h
    cases h
    exact buildOk_length c p wf
  · rw [build_err c p wf enc] at h
    cases h

/-- layout of a successful write: link header, VLAN tags, net header (+ extension headers),
    transport header, payload — nothing else, in this order; each part has the length `size`
    counts for it. -/
theorem build_layout (c : Cfg) (p out : Bytes) (wf : c.WF) (h : build c p = .ok out) :
    Encodable c p.length ∧
    out = outLink c ++ outVlan c ++ outNet c p.length ++ tpBytes (outTpHeader c p) ++ p ∧
    (tpBytes (outTpHeader c p)).length = tpHeaderLen c.tp ∧
    (outLink c ++ outVlan c ++ outNet c p.length ++ tpBytes (outTpHeader c p)).length + p.length
      = size c p.length := by
  by_cases enc : Encodable c p.length
  · rw [build_ok c p wf enc] at h
    cases h
    refine ⟨enc, rfl, outTp_len c p wf.2.2.2.1, ?_⟩
    rw [← buildOk_length c p wf, buildOk]; simp only [List.length_append]
  · rw [build_err c p wf enc] at h
    cases h

/-- ether types name the layer that follows: the Ethernet II type is 0x8100 / 0x88a8 in front of a
    single / double tag and the net type otherwise; the outer tag of a double tag says 0x8100, the
    innermost tag and the SLL protocol field carry the net type (0x0800 / 0x86dd / 0x0806). -/
theorem ether_types (c : Cfg) :
    (∀ h, c.link = some (.eth2 h) →
      outLink c = Eth2.toBytes { dst := h.dst, src := h.src, et := firstEt c.vlan c.net.etherType }) ∧
    (firstEt c.vlan c.net.etherType = (match c.vlan with
        | some (.single _) => 0x8100 | some (.double _ _) => 0x88a8 | none => c.net.etherType)) ∧
    (∀ s, c.link = some (.sll s) → s.proto = .etherType 0 →
      outLink c = Sll.toBytes (Sll.mk s.ptype s.hrd s.alen s.addr (.etherType c.net.etherType))) ∧
    (∀ v, c.vlan = some (.single v) → outVlan c = (withEt v c.net.etherType).toBytes) ∧
    (∀ o i, c.vlan = some (.double o i) →
      outVlan c = (withEt o 0x8100).toBytes ++ (withEt i c.net.etherType).toBytes) ∧
    (c.net.etherType = 0x0800 ∨ c.net.etherType = 0x86dd ∨ c.net.etherType = 0x0806) := by
  refine ⟨?_, ?_, ?_, ?_, ?_, ?_⟩
  · intro h hl; simp [outLink, outLinkOf, hl]
  · rfl
  · intro s hl hp
    have : sllChangeValue (.etherType 0) c.net.etherType = .etherType c.net.etherType := by
      cases c.net <;> simp [sllChangeValue, Net.etherType, isNonstdEtherType]
    simp [outLink, outLinkOf, hl, hp, this]
  · intro v hv; simp [outVlan, vlanBytes, hv]
  · intro o i hv; simp [outVlan, vlanBytes, hv]
  · cases c.net <;> simp [Net.etherType]

/-- length fields equal the actual sizes — as equations on natural numbers (no `% 65536` left):
    IPv4 total length = header + extension headers + transport header + payload, IPv6 payload
    length = extension headers + transport header + payload, UDP length = 8 + payload; and the
    protocol / next header fields start the chain that ends with the transport protocol. -/
theorem derived_fields (c : Cfg) (p : Bytes) (wf : c.WF) (enc : Encodable c p.length) :
    (∀ ip e, c.net = .ipv4 ip e →
      (ipv4Out ip e (endNum c) (innerLen c p.length)).totalLen
        = 20 + ip.options.length + e.headerLen + tpHeaderLen c.tp + p.length ∧
      (ipv4Out ip e (endNum c) (innerLen c p.length)).protocol
        = (match e.auth with | some _ => 51 | none => endNum c)) ∧
    (∀ ip e, c.net = .ipv6 ip e →
      (ipv6Out ip e (endNum c) (innerLen c p.length)).payloadLength
        = e.headerLen + tpHeaderLen c.tp + p.length ∧
      (ipv6Out ip e (endNum c) (innerLen c p.length)).nextHeader
        = (if e.hbh.isSome then 0 else if e.dest.isSome then 60 else if e.routing.isSome then 43
           else if e.fragment.isSome then 44 else if e.auth.isSome then 51 else endNum c)) ∧
    (∀ u, c.tp = some (.udp u) → (∀ a, c.net ≠ .arp a) →
      ∃ ck, outTpHeader c p = some (.udp { sp := u.sp, dp := u.dp, len := 8 + p.length, ck := ck })) := by
  refine ⟨?_, ?_, ?_⟩
  · intro ip e hnet
    simp only [Encodable, hnet, innerLen, Net.extsLen] at enc
    refine ⟨?_, ?_⟩
    · simp only [ipv4Out, innerLen, hnet, Net.extsLen, Ipv4Header.headerLen]
      omega
    · rcases e with ⟨_ | a⟩ <;> simp [ipv4Out, ipv4ExtsSetNextHeaders]
  · intro ip e hnet
    simp only [Encodable, hnet, innerLen, Net.extsLen] at enc
    refine ⟨?_, ?_⟩
    · simp only [ipv6Out, innerLen, hnet, Net.extsLen]
      omega
    · obtain ⟨hbh, dest, routing, fragment, auth⟩ := e
      have wn := wf.2.2.1
      rw [hnet] at wn
      cases hbh <;> cases dest <;> cases fragment <;> cases auth <;>
        rcases routing with _ | ⟨r, _ | fd⟩ <;>
        simp [ipv6Out, Ipv6Exts.setNextHeaders, Ipv6Exts.finalDest]
  · intro u htp hnet
    unfold Encodable at enc
    cases hn : c.net with
    | arp a => exact absurd hn (hnet a)
    | ipv4 ip e =>
      simp only [hn, innerLen, Net.extsLen, htp, tpHeaderLen, Tp.headerLen, Udp.headerLen] at enc
      have hlen : (8 + p.length) % 65536 = 8 + p.length := by omega
      simp only [outTpHeader, htp, setUdpLen, hn, withCk, hlen]
      exact ⟨_, rfl⟩
    | ipv6 ip e =>
      simp only [hn, innerLen, Net.extsLen, htp, tpHeaderLen, Tp.headerLen, Udp.headerLen] at enc
      have hlen : (8 + p.length) % 65536 = 8 + p.length := by omega
      simp only [outTpHeader, htp, setUdpLen, hn, withCk, hlen]
      exact ⟨_, rfl⟩

/-- a configuration that cannot be encoded is refused: the exact error value (variant, `actual`,
    `max_allowed`, value type) and exactly what had been handed to the writer before it. -/
theorem build_rejects (c : Cfg) (p : Bytes) (wf : c.WF) (nenc : ¬ Encodable c p.length) :
    build c p = .error (buildFail c p) ∧
    (∀ ip e, c.net = .ipv4 ip e → 65535 < 20 + ip.options.length + innerLen c p.length →
      buildFail c p = { err := .payloadLen { actual := innerLen c p.length,
                                              maxAllowed := 65535 - ip.options.length - 20,
                                              ty := "Ipv4PayloadLength" },
                        written := outLink c ++ outVlan c }) ∧
    (∀ ip e, c.net = .ipv4 ip e → 20 + ip.options.length + innerLen c p.length ≤ 65535 →
      isIcmp6 c.tp = true ∧
      buildFail c p = { err := .icmpv6InIpv4, written := outLink c ++ outVlan c ++ outNet c p.length }) ∧
    (∀ ip e, c.net = .ipv6 ip e →
      65535 < innerLen c p.length ∧
      buildFail c p = { err := .payloadLen { actual := innerLen c p.length, maxAllowed := 65535,
                                              ty := "Ipv6PayloadLength" },
                        written := outLink c ++ outVlan c }) ∧
    (∀ a, c.net ≠ .arp a) := by
  refine ⟨build_err c p wf nenc, ?_, ?_, ?_, ?_⟩
  · intro ip e hnet hbig
    have : ¬ (20 + ip.options.length + innerLen c p.length ≤ 65535) := by omega
    simp [buildFail, hnet, this]
  · intro ip e hnet hfit
    refine ⟨?_, by simp [buildFail, hnet, hfit]⟩
    cases hh : isIcmp6 c.tp
    · exact absurd (by simp [Encodable, hnet, hfit, hh]) nenc
    · rfl
  · intro ip e hnet
    refine ⟨?_, by simp [buildFail, hnet]⟩
    simp only [Encodable, hnet] at nenc
    omega
  · intro a hnet
    exact nenc (by simp [Encodable, hnet])

/-- `build` is total and two-valued: success exactly for encodable configurations; every failure
    is `PayloadLen` or `Icmpv6InIpv4` — never a panic of the modelled panic sites (SLL hardware
    type assertion, checked `u16`/`u32` additions), and never `Ipv4Exts` / `Ipv6Exts`: because
    `set_next_headers` always runs first, the "extension header not referenced" errors cannot be
    produced through the builder. -/
theorem build_total (c : Cfg) (p : Bytes) (wf : c.WF) :
    (Encodable c p.length ∧ build c p = .ok (buildOk c p)) ∨
    (¬ Encodable c p.length ∧ ∃ f, build c p = .error f ∧
      (f.err = .icmpv6InIpv4 ∨ ∃ e, f.err = .payloadLen e)) := by
  by_cases enc : Encodable c p.length
  · exact .inl ⟨enc, build_ok c p wf enc⟩
  · refine .inr ⟨enc, buildFail c p, build_err c p wf enc, ?_⟩
    unfold buildFail
    cases hnet : c.net with
    | arp a => exact absurd (by simp [Encodable, hnet]) enc
    | ipv4 ip e => simp only; split <;> simp
    | ipv6 ip e => simp

theorem build_never_panics (c : Cfg) (p : Bytes) (wf : c.WF) (f : BuildFail) (h : build c p = .error f) :
    (∀ s, f.err ≠ .panic s) ∧ (∀ e, f.err ≠ .ipv4Exts e) ∧ (∀ e, f.err ≠ .ipv6Exts e) := by
  rcases build_total c p wf with ⟨_, hok⟩ | ⟨_, f', hf, hv⟩
  · rw [hok] at h; cases h
  · rw [hf] at h; cases h
    rcases hv with hv | ⟨e, hv⟩ <;> rw [hv] <;> refine ⟨?_, ?_, ?_⟩ <;> intro _ hc <;> cases hc

/-- `write_to_slice`: `Space(size)` exactly for buffers shorter than `size`, otherwise the same
    bytes / the same error as `write`, and the returned length is `size` (the slice writer never
    runs out of room: the `overflow` value is not reachable). -/
theorem slice_agrees (c : Cfg) (p : Bytes) (cap : Nat) (wf : c.WF) :
    writeToSlice c cap p =
      if cap < size c p.length then .space (size c p.length)
      else match build c p with
        | .ok out => .ok (size c p.length) out
        | .error f => .fail f.err := by
  unfold writeToSlice
  simp only
  split
  · rfl
  · cases hb : build c p with
    | error f => rfl
    | ok out =>
      have := build_size c p out wf hb
      simp [this]

/-! ### checksums -/

/-- the checksum field of the emitted transport header holds `ck4` / `ck6` computed over the
    *emitted* IP header (derived lengths and protocol numbers already in place) and the payload. -/
theorem build_checksums (c : Cfg) (p : Bytes) (t : Tp) (ht : setUdpLen c.tp p.length = some t) :
    (∀ ip e, c.net = .ipv4 ip e →
      outTpHeader c p = some (withCk t (ck4 t (ipv4Out ip e (endNum c) (innerLen c p.length)) p))) ∧
    (∀ ip e, c.net = .ipv6 ip e →
      outTpHeader c p = some (withCk t (ck6 t (ipv6Out ip e (endNum c) (innerLen c p.length)) p))) := by
  constructor <;> intro ip e hnet <;> simp [outTpHeader, ht, hnet]

/-- IPv4 header checksum = RFC 1071 checksum of the header words other than the checksum field
    (for the emitted header: with the derived total length and protocol). -/
theorem checksum_ipv4_header (ip : Ipv4Header) (e : Ipv4Extensions) (num inner : Nat)
    (hs : ip.source.length = 4) (hd : ip.destination.length = 4) :
    let h := ipv4Out ip e num inner
    h.headerChecksum
      = Spec.checksum ([u8 ((4 <<< 4) ||| h.ihl), u8 (shl8 h.dscp 2 ||| h.ecn)] ++ enc16 h.totalLen
          ++ enc16 h.identification ++ [u8 h.fragAndFlags.1, u8 h.fragAndFlags.2]
          ++ [u8 h.timeToLive, u8 h.protocol] ++ h.source ++ h.destination ++ h.options) := by
  intro h
  exact ipv4_header_words
    { ip with totalLen := (ip.headerLen + inner) % 65536, protocol := (ipv4ExtsSetNextHeaders e num).2 } hs hd

/-- UDP over IPv4: RFC 768 checksum over pseudo header, UDP header with zero checksum field and
    payload; a computed 0 is transmitted as 0xffff. -/
theorem checksum_udp_ipv4 (h : Udp) (ip : Ipv4Header) (p : Bytes) (hs : ip.source.length = 4)
    (hd : ip.destination.length = 4) :
    ck4 (.udp h) ip p
      = noZero (Spec.checksum (ip.source ++ ip.destination ++ [0, 17] ++ enc16 h.len
                                ++ Udp.toBytes { sp := h.sp, dp := h.dp, len := h.len, ck := 0 } ++ p)) :=
  udp4_bytes h ip p hs hd

/-- UDP over IPv6 (same 16 bit words as the RFC 8200 pseudo header), header words except the
    checksum field, payload. -/
theorem checksum_udp_ipv6 (h : Udp) (ip : Ipv6Header) (p : Bytes) (hs : ip.source.length = 16)
    (hd : ip.destination.length = 16) :
    ck6 (.udp h) ip p
      = noZero (Spec.checksum (ip.source ++ ip.destination ++ [0, 17] ++ enc16 h.len
                                ++ (enc16 h.sp ++ enc16 h.dp ++ enc16 h.len) ++ p)) :=
  udp6_words h ip p hs hd

/-- TCP over IPv4 / IPv6: the pseudo header length is header + payload (exact), then the header
    words except the checksum field, the options, the payload. -/
theorem checksum_tcp_ipv4 (h : Tcp) (ip : Ipv4Header) (p : Bytes) (hs : ip.source.length = 4)
    (hd : ip.destination.length = 4) (ho : h.opts.asSlice.length % 2 = 0) :
    ck4 (.tcp h) ip p
      = Spec.checksum (ip.source ++ ip.destination ++ [0, 6] ++ enc16 (h.headerLen + p.length)
          ++ (enc16 h.sp ++ enc16 h.dp ++ enc32 h.seq ++ enc32 h.ack ++ [u8 h.byte12, u8 h.byte13]
              ++ enc16 h.win ++ enc16 h.urgp) ++ h.opts.asSlice ++ p) :=
  tcp4_words h ip p hs hd ho

theorem checksum_tcp_ipv6 (h : Tcp) (ip : Ipv6Header) (p : Bytes) (hs : ip.source.length = 16)
    (hd : ip.destination.length = 16) (ho : h.opts.asSlice.length % 2 = 0) :
    ck6 (.tcp h) ip p
      = Spec.checksum (ip.source ++ ip.destination ++ enc32 (h.headerLen + p.length) ++ [0, 6]
          ++ (enc16 h.sp ++ enc16 h.dp ++ enc32 h.seq ++ enc32 h.ack ++ [u8 h.byte12, u8 h.byte13]
              ++ enc16 h.win ++ enc16 h.urgp) ++ h.opts.asSlice ++ p) :=
  tcp6_words h ip p hs hd ho

/-- ICMPv4 (also when carried in IPv6): header words except the checksum field, payload. -/
theorem checksum_icmpv4 (t : Icmp4Type) (p : Bytes) (ok : icmp4LenOk t) :
    icmp4Checksum t p = Spec.checksum ((icmp4Parts t).flatten ++ p) := icmp4_words t p ok

/-- ICMPv6: pseudo header with next header 58 and the exact 32 bit message length. -/
theorem checksum_icmpv6 (h : Icmp6) (ip : Ipv6Header) (p : Bytes) (hs : ip.source.length = 16)
    (hd : ip.destination.length = 16) (ok : icmp6LenOk h.ty) :
    ck6 (.icmp6 h) ip p
      = Spec.checksum (ip.source ++ ip.destination ++ [0, 58] ++ enc32 (p.length + 8)
                        ++ (icmp6Parts h.ty).flatten ++ p) :=
  icmp6_words h ip p hs hd ok

/-! ### parsing the output

`build_parses`: for every well-formed configuration whose build succeeds, strict wire-format decoding
(`Spec.decode`, started where the configuration starts: Ethernet II, Linux SLL or IP) accepts the
output and returns exactly the configured layers `expPacket c p.length` (EpModel.Lemmas.BuilderParse):
the link window over the whole output, one `.vlan` extension per tag, the net layer (ARP; IPv4 with
options and authentication header; IPv6 with every subset of hop-by-hop / destination options / routing /
fragment / authentication / final destination options headers, walked in the order `set_next_headers`
chains them) with its payload window, protocol number, length source and fragmentation flag, and the
transport window (UDP by its length field, TCP with the header length from the data offset, ICMPv4,
ICMPv6) - no transport layer behind ARP and in fragments.  Side conditions `ParseOk` (decidable;
sufficient, and each of them excludes configurations for which the statement is false):
  * VLAN tags only behind Ethernet II, ARP only behind a link layer (all the typed steps offer);
  * a payload written without transport header (`write` of the IP step with an ip number) must not be
    announced by a number the decoder itself interprets (51 in IPv4; 0, 43, 44, 51, 60 in IPv6; 1, 6, 17,
    58 unless the packet is a fragment) - what such a payload parses as is up to the payload;
  * an ICMPv4 header with type 13 / 14 and code 0 (typed timestamp header or raw) must make a 20 byte
    message: RFC 792 timestamp messages have a fixed size and strict slicing refuses any other, so
    `.icmpv4(TimestampRequest(..))` with a non-empty payload builds a packet the crate's own
    `SlicedPacket::from_*` / `PacketHeaders::from_*` reject (`icmpv4_timestamp_with_payload_is_built_and_rejected`
    below; reproduced against the crate: `Len{required_len: 20, len: 21, layer: Icmpv4Timestamp, offset 34}`).
Through C03 (`SlicedPacket` model = `Spec.decode` on every byte string) the same packets are what the
model of the crate's strict slicing returns (`strict_slicing_accepts_*`).  The special cases below
spell the returned `Packet` out.  Not covered: nothing of `Cfg` is left out; outside the statement are
only the configurations excluded by `ParseOk`, and the lax / `PacketHeaders` decoders (C04, C05). -/

/-- the statement asked for in DESIGN.md; proved below as `build_parses_full` (with `ParseOk`, without
    which it is false: see the doc comment above). -/
def build_parses_full_statement : Prop :=
  ∀ (c : Cfg) (p out : Bytes), c.WF → build c p = .ok out → ParseOk c p.length →
    (∀ h, c.link = some (.eth2 h) → ∃ pkt, Spec.decode .eth (Dec.memOf out) out.length = .ok pkt ∧
      pkt.link = some (Dec.LinkR.eth2 ⟨0, out.length⟩)) ∧
    (∀ s, c.link = some (.sll s) → ∃ pkt, Spec.decode .sll (Dec.memOf out) out.length = .ok pkt) ∧
    (c.link = none → (∀ a, c.net ≠ .arp a) → ∃ pkt, Spec.decode .ip (Dec.memOf out) out.length = .ok pkt)

/-- strict decoding accepts every built packet and recovers the configured layers. -/
theorem build_parses (c : Cfg) (p out : Bytes) (wf : c.WF) (hb : build c p = .ok out)
    (ok : ParseOk c p.length) :
    Spec.decode (startOf c) (Dec.memOf out) out.length = .ok (expPacket c p.length) := by
  obtain ⟨enc, _, _, _⟩ := build_layout c p out wf hb
  rw [build_ok c p wf enc] at hb
  cases hb
  exact decode_buildOk c p wf enc ok

theorem build_parses_full : build_parses_full_statement := by
  intro c p out wf hb ok
  have h := build_parses c p out wf hb ok
  have hs := build_size c p out wf hb
  refine ⟨?_, ?_, ?_⟩
  · intro e hl
    simp only [startOf, hl] at h
    exact ⟨_, h, by simp [expPacket, hl, hs]⟩
  · intro s hl
    simp only [startOf, hl] at h
    exact ⟨_, h⟩
  · intro hl _
    simp only [startOf, hl] at h
    exact ⟨_, h⟩

theorem build_parses_partial (c : Cfg) (p out : Bytes) (h : Eth2) (wf : c.WF)
    (hl : c.link = some (.eth2 h)) (hb : build c p = .ok out) :
    Eth2.fromSlice out
      = .ok ({ dst := h.dst, src := h.src, et := firstEt c.vlan c.net.etherType },
             outVlan c ++ outNet c p.length ++ tpBytes (outTpHeader c p) ++ p) := by
  obtain ⟨_, hout, _, _⟩ := build_layout c p out wf hb
  have wl := wf.1
  rw [hl] at wl
  have het : firstEt c.vlan c.net.etherType < 65536 := by
    unfold firstEt
    rcases c.vlan with _ | ⟨v | ⟨o, i⟩⟩ <;> cases c.net <;> simp [Net.etherType]
  have hw : Eth2.WF { dst := h.dst, src := h.src, et := firstEt c.vlan c.net.etherType } :=
    ⟨wl.1, wl.2.1, het⟩
  have := EpModel.Props.C08Link.Eth2.decode_encode _
    (outVlan c ++ outNet c p.length ++ tpBytes (outTpHeader c p) ++ p) hw
  rw [hout]
  simpa [outLink, outLinkOf, hl, List.append_assoc] using this


/-! #### what the crate's strict slicing (model of C03) returns for built packets -/

theorem refines_ok {m : Except Dec.PErr Dec.Packet} {pkt : Dec.Packet}
    (h : EpModel.Props.C03.Refines m (.ok pkt)) : m = .ok pkt := by
  cases m with
  | error e => exact h.elim
  | ok q => simp only [EpModel.Props.C03.Refines] at h; rw [h]

/-- `SlicedPacket::from_ethernet` (model) accepts every packet built behind `ethernet2` and returns
    the configured layers. -/
theorem strict_slicing_accepts_ethernet (c : Cfg) (p out : Bytes) (h : Eth2) (wf : c.WF)
    (hl : c.link = some (.eth2 h)) (hb : build c p = .ok out) (ok : ParseOk c p.length) :
    Dec.slicedFromEthernet (Dec.memOf out) out.length = .ok (expPacket c p.length) := by
  have hd := build_parses c p out wf hb ok
  simp only [startOf, hl] at hd
  have r := EpModel.Props.C03.strict_from_ethernet_matches_wire_formats out
  rw [hd] at r
  exact refines_ok r

/-- `SlicedPacket::from_linux_sll` (model) accepts every packet built behind `linux_sll`. -/
theorem strict_slicing_accepts_linux_sll (c : Cfg) (p out : Bytes) (s : Sll) (wf : c.WF)
    (hl : c.link = some (.sll s)) (hb : build c p = .ok out) (ok : ParseOk c p.length) :
    Dec.slicedFromLinuxSll (Dec.memOf out) out.length = .ok (expPacket c p.length) := by
  have hd := build_parses c p out wf hb ok
  simp only [startOf, hl] at hd
  have r := EpModel.Props.C03.strict_from_linux_sll_matches_wire_formats out
  rw [hd] at r
  exact refines_ok r

/-- `SlicedPacket::from_ip` (model) accepts every packet built without link layer. -/
theorem strict_slicing_accepts_ip (c : Cfg) (p out : Bytes) (wf : c.WF)
    (hl : c.link = none) (hb : build c p = .ok out) (ok : ParseOk c p.length) :
    Dec.slicedFromIp (Dec.memOf out) out.length = .ok (expPacket c p.length) := by
  have hd := build_parses c p out wf hb ok
  simp only [startOf, hl] at hd
  have r := EpModel.Props.C03.strict_from_ip_matches_wire_formats out
  have hs := build_size c p out wf hb
  have hnc : ¬ (Dec.memOf out 0 / 16 = 4 ∧ 0 < out.length ∧ out.length < 20) := by
    intro ⟨h4, _, h20⟩
    -- an IPv4 packet has at least 20 bytes, and an IPv6 packet does not start with the nibble 4
    rw [hs, size_eq] at h20
    cases hnet : c.net with
    | arp a => have := ok.2; simp [NetOk, hnet, hl] at this
    | ipv4 ip e => simp [netLen, hnet] at h20; omega
    | ipv6 ip e => simp [netLen, hnet] at h20; omega
  simp only [hnc, if_false] at r
  rw [hd] at r
  exact refines_ok r

/-! #### the other decoder families on builder output (corollaries through C05 and C04) -/

/-- `LaxSlicedPacket::from_ethernet` (model) returns for every packet built behind `ethernet2` exactly the
    configured layers, with no stop error and nothing marked incomplete. -/
theorem lax_slicing_accepts_ethernet (c : Cfg) (p out : Bytes) (h : Eth2) (wf : c.WF)
    (hl : c.link = some (.eth2 h)) (hb : build c p = .ok out) (ok : ParseOk c p.length) :
    Dec.laxSlicedFromEthernet (Dec.memOf out) out.length = .ok (expPacket c p.length) ∧
      (expPacket c p.length).stop = none ∧ EpModel.Lemmas.Dec.NoInc (expPacket c p.length) :=
  EpModel.Props.C05.strict_ok_lax_same_ethernet _ _ _ (strict_slicing_accepts_ethernet c p out h wf hl hb ok)

/-- `LaxSlicedPacket::from_ip` (model) on every packet built without link layer. -/
theorem lax_slicing_accepts_ip (c : Cfg) (p out : Bytes) (wf : c.WF)
    (hl : c.link = none) (hb : build c p = .ok out) (ok : ParseOk c p.length) :
    Dec.laxSlicedFromIp (Dec.memOf out) out.length = .ok (expPacket c p.length) ∧
      (expPacket c p.length).stop = none ∧ EpModel.Lemmas.Dec.NoInc (expPacket c p.length) :=
  EpModel.Props.C05.strict_ok_lax_same_ip _ _ _ (strict_slicing_accepts_ip c p out wf hl hb ok)

/-- `PacketHeaders::from_ethernet_slice` (model) never rejects a packet built behind `ethernet2`, and
    returns the configured layers as header structs (`NetAgree`, `PayAgree`: the same network layer and
    payload range as the slices of `expPacket`) - or stops in front of an IPv6 extension header that the
    struct cannot hold a second time (`Early`: the documented limitation of `Ipv6Extensions`, reachable
    from the builder only when the configured final next-header number itself is 43/44/51/60). -/
theorem headers_accept_ethernet (c : Cfg) (p out : Bytes) (h : Eth2) (wf : c.WF)
    (hl : c.link = some (.eth2 h)) (hb : build c p = .ok out) (ok : ParseOk c p.length) :
    ∃ x, Dec.phFromEthernet (Dec.memOf out) out.length = .ok x ∧
      ((x.p.link = some (.eth2 ⟨0, 14⟩) ∧ x.p.exts = (expPacket c p.length).exts.map EpModel.Lemmas.StructSlice.hdrExt ∧
          EpModel.Lemmas.StructSlice.NetAgree x.p.net (expPacket c p.length).net ∧ x.p.tp = (expPacket c p.length).tp ∧
          EpModel.Lemmas.StructSlice.PayAgree (Dec.memOf out) x.pay (expPacket c p.length)) ∨
        EpModel.Lemmas.StructSlice.Early x) := by
  have hs := strict_slicing_accepts_ethernet c p out h wf hl hb ok
  have hv := EpModel.Props.C04.headers_from_ethernet_agree_with_slicing out
  rw [hs] at hv
  cases hp : Dec.phFromEthernet (Dec.memOf out) out.length with
  | error e => rw [hp] at hv; exact absurd hv (by simp)
  | ok x =>
    rw [hp] at hv
    refine ⟨x, rfl, ?_⟩
    rcases hv with ⟨h1, _, h3, h4, h5, h6⟩ | he
    · exact Or.inl ⟨h1, h3, h4, h5, h6⟩
    · exact Or.inr he

/-! #### special cases with the returned packet spelled out -/

section special
open EpModel.Dec (memOf ExtSlots)

/-- Ethernet II / IPv4 (`.ipv4(src, dst, ttl)`: no options, no extension) / UDP -/
theorem build_parses_eth_ipv4_udp (c : Cfg) (p out : Bytes) (h : Eth2) (src dst : Bytes) (ttl : Nat) (u : Udp)
    (wf : c.WF) (hl : c.link = some (.eth2 h)) (hv : c.vlan = none) (hn : c.net = Step.ipv4 src dst ttl)
    (ht : c.tp = some (.udp u)) (hb : build c p = .ok out) :
    Spec.decode .eth (memOf out) out.length = .ok
      { link := some (.eth2 ⟨0, out.length⟩), exts := [],
        net := some (.ip { v4 := true, hdr := ⟨14, 20⟩, auth := none, exts := ⟨14, 0⟩, first := none,
                           slots := ExtSlots.none,
                           pl := { num := 17, frag := false, src := .ipv4HeaderTotalLen,
                                   w := ⟨34, 8 + p.length⟩, inc := false } }),
        tp := some (.udp ⟨34, 8 + p.length⟩), stop := none } ∧
    out.length = 42 + p.length := by
  have ok : ParseOk c p.length := by
    simp [ParseOk, NetOk, RawOk, TpOk, hl, hn, ht, Step.ipv4]
  have hd := build_parses c p out wf hb ok
  have hs := build_size c p out wf hb
  simp only [startOf, hl] at hd
  rw [hd]
  simp [expPacket, expExtsAt, expNetAt, expTpAt, expTp, expIpv4, v4Frag, cfgFrag, linkLen, vlanLen, netLen,
    endNum, tpHeaderLen, Tp.headerLen, Tp.ipNumber, Udp.headerLen, Ipv4Extensions.headerLen, hl, hv, hn, ht, Step.ipv4, hs,
    size, Eth2.headerLen, Ipv4Header.headerLen]



/-- Ethernet II / IPv6 (`.ipv6(src, dst, hop_limit)`: no extension headers) / UDP.  The payload length
    field is `8 + p.length`, never 0, so the "zero = up to the end of the slice" convention does not
    apply and the length source is the IPv6 header. -/
theorem build_parses_eth_ipv6_udp (c : Cfg) (p out : Bytes) (h : Eth2) (src dst : Bytes) (hop : Nat) (u : Udp)
    (wf : c.WF) (hl : c.link = some (.eth2 h)) (hv : c.vlan = none) (hn : c.net = Step.ipv6 src dst hop)
    (ht : c.tp = some (.udp u)) (hb : build c p = .ok out) :
    Spec.decode .eth (memOf out) out.length = .ok
      { link := some (.eth2 ⟨0, out.length⟩), exts := [],
        net := some (.ip { v4 := false, hdr := ⟨14, 40⟩, auth := none, exts := ⟨54, 0⟩, first := none,
                           slots := ExtSlots.none,
                           pl := { num := 17, frag := false, src := .ipv6HeaderPayloadLen,
                                   w := ⟨54, 8 + p.length⟩, inc := false } }),
        tp := some (.udp ⟨54, 8 + p.length⟩), stop := none } ∧
    out.length = 62 + p.length := by
  have ok : ParseOk c p.length := by
    simp [ParseOk, NetOk, RawOk, TpOk, hl, hn, ht, Step.ipv6]
  have hd := build_parses c p out wf hb ok
  have hs := build_size c p out wf hb
  simp only [startOf, hl] at hd
  rw [hd]
  simp [expPacket, expExtsAt, expNetAt, expTpAt, expTp, expIpv6, extsFrag, fragOf, cfgFrag, linkLen, vlanLen, netLen,
    endNum, tpHeaderLen, Tp.headerLen, Tp.ipNumber, Udp.headerLen, Ipv6Exts.headerLen, Ipv6Exts.empty, optLen,
    hl, hv, hn, ht, Step.ipv6, hs, size, Eth2.headerLen]

/-- a single VLAN tag in front, TCP (any flags, any option area): one `.vlan` extension over everything
    behind the Ethernet header; the TCP header length is the one the data offset announces. -/
theorem build_parses_eth_vlan_ipv4_tcp (c : Cfg) (p out : Bytes) (h : Eth2) (v : Vlan) (src dst : Bytes)
    (ttl : Nat) (t : Tcp) (wf : c.WF) (hl : c.link = some (.eth2 h)) (hv : c.vlan = some (.single v))
    (hn : c.net = Step.ipv4 src dst ttl) (ht : c.tp = some (.tcp t)) (hb : build c p = .ok out) :
    Spec.decode .eth (memOf out) out.length = .ok
      { link := some (.eth2 ⟨0, out.length⟩), exts := [.vlan ⟨14, 44 + t.opts.len + p.length⟩],
        net := some (.ip { v4 := true, hdr := ⟨18, 20⟩, auth := none, exts := ⟨18, 0⟩, first := none,
                           slots := ExtSlots.none,
                           pl := { num := 6, frag := false, src := .ipv4HeaderTotalLen,
                                   w := ⟨38, 20 + t.opts.len + p.length⟩, inc := false } }),
        tp := some (.tcp ⟨38, 20 + t.opts.len + p.length⟩ (20 + t.opts.len)), stop := none } ∧
    out.length = 58 + t.opts.len + p.length := by
  have ok : ParseOk c p.length := by
    simp [ParseOk, NetOk, RawOk, TpOk, hl, hn, ht, Step.ipv4]
  have hd := build_parses c p out wf hb ok
  have hs := build_size c p out wf hb
  simp only [startOf, hl] at hd
  rw [hd]
  simp [expPacket, expExtsAt, expNetAt, expTpAt, expTp, expIpv4, v4Frag, cfgFrag, linkLen, vlanLen, netLen,
    endNum, tpHeaderLen, Tp.headerLen, Tp.ipNumber, Tcp.headerLen, Ipv4Extensions.headerLen, hl, hv, hn, ht, Step.ipv4, hs,
    size, Eth2.headerLen, Ipv4Header.headerLen]
  omega

/-- two VLAN tags in front (0x88a8, then 0x8100), ICMPv6 in IPv6: two `.vlan` extensions, the outer one
    covering the inner. -/
theorem build_parses_eth_qinq_ipv6_icmpv6 (c : Cfg) (p out : Bytes) (h : Eth2) (vo vi : Vlan) (src dst : Bytes)
    (hop : Nat) (i : Icmp6) (wf : c.WF) (hl : c.link = some (.eth2 h)) (hv : c.vlan = some (.double vo vi))
    (hn : c.net = Step.ipv6 src dst hop) (ht : c.tp = some (.icmp6 i)) (hb : build c p = .ok out) :
    Spec.decode .eth (memOf out) out.length = .ok
      { link := some (.eth2 ⟨0, out.length⟩),
        exts := [.vlan ⟨14, 56 + p.length⟩, .vlan ⟨18, 52 + p.length⟩],
        net := some (.ip { v4 := false, hdr := ⟨22, 40⟩, auth := none, exts := ⟨62, 0⟩, first := none,
                           slots := ExtSlots.none,
                           pl := { num := 58, frag := false, src := .ipv6HeaderPayloadLen,
                                   w := ⟨62, 8 + p.length⟩, inc := false } }),
        tp := some (.icmp6 ⟨62, 8 + p.length⟩), stop := none } ∧
    out.length = 70 + p.length := by
  have ok : ParseOk c p.length := by
    simp [ParseOk, NetOk, RawOk, TpOk, hl, hn, ht, Step.ipv6]
  have hd := build_parses c p out wf hb ok
  have hs := build_size c p out wf hb
  simp only [startOf, hl] at hd
  rw [hd]
  simp [expPacket, expExtsAt, expNetAt, expTpAt, expTp, expIpv6, extsFrag, fragOf, cfgFrag, linkLen, vlanLen, netLen,
    endNum, tpHeaderLen, Tp.headerLen, Tp.ipNumber, Icmp6.headerLen, Ipv6Exts.headerLen, Ipv6Exts.empty, optLen,
    hl, hv, hn, ht, Step.ipv6, hs, size, Eth2.headerLen]
  omega

/-- ICMPv4 echo request / reply (`.icmpv4_echo_request`, `.icmpv4_echo_reply`) in IPv4 -/
theorem build_parses_eth_ipv4_icmpv4_echo (c : Cfg) (p out : Bytes) (h : Eth2) (src dst : Bytes) (ttl id seq : Nat)
    (wf : c.WF) (hl : c.link = some (.eth2 h)) (hv : c.vlan = none) (hn : c.net = Step.ipv4 src dst ttl)
    (ht : c.tp = some (Step.icmpv4EchoRequest id seq) ∨ c.tp = some (Step.icmpv4EchoReply id seq))
    (hb : build c p = .ok out) :
    Spec.decode .eth (memOf out) out.length = .ok
      { link := some (.eth2 ⟨0, out.length⟩), exts := [],
        net := some (.ip { v4 := true, hdr := ⟨14, 20⟩, auth := none, exts := ⟨14, 0⟩, first := none,
                           slots := ExtSlots.none,
                           pl := { num := 1, frag := false, src := .ipv4HeaderTotalLen,
                                   w := ⟨34, 8 + p.length⟩, inc := false } }),
        tp := some (.icmp4 ⟨34, 8 + p.length⟩), stop := none } := by
  have hs := build_size c p out wf hb
  rcases ht with ht | ht
  all_goals
    have ok : ParseOk c p.length := by
      simp [ParseOk, NetOk, RawOk, TpOk, Icmp4Ok, icmp4TypeCode, hl, hn, ht, Step.ipv4, Step.icmpv4EchoRequest,
        Step.icmpv4EchoReply]
    have hd := build_parses c p out wf hb ok
    simp only [startOf, hl] at hd
    rw [hd]
    simp [expPacket, expExtsAt, expNetAt, expTpAt, expTp, expIpv4, v4Frag, cfgFrag, linkLen, vlanLen, netLen,
      endNum, tpHeaderLen, Tp.headerLen, Tp.ipNumber, Icmp4.headerLen, Ipv4Extensions.headerLen, hl, hv, hn, ht,
      Step.ipv4, Step.icmpv4EchoRequest, Step.icmpv4EchoReply, hs, size, Eth2.headerLen, Ipv4Header.headerLen]

/-- no link layer, IPv4 payload announced by an ip number the decoder does not interpret
    (`PacketBuilder::ipv4(..).write(&mut w, number, payload)`): `from_ip` returns the IPv4 layer with the
    payload window and the number, and no transport layer. -/
theorem build_parses_ip_raw_ipv4 (c : Cfg) (p out : Bytes) (src dst : Bytes) (ttl : Nat)
    (wf : c.WF) (hl : c.link = none) (hv : c.vlan = none) (hn : c.net = Step.ipv4 src dst ttl) (ht : c.tp = none)
    (hnum : c.last ≠ 1 ∧ c.last ≠ 6 ∧ c.last ≠ 17 ∧ c.last ≠ 51 ∧ c.last ≠ 58) (hb : build c p = .ok out) :
    Spec.decode .ip (memOf out) out.length = .ok
      { link := none, exts := [],
        net := some (.ip { v4 := true, hdr := ⟨0, 20⟩, auth := none, exts := ⟨0, 0⟩, first := none,
                           slots := ExtSlots.none,
                           pl := { num := c.last, frag := false, src := .ipv4HeaderTotalLen,
                                   w := ⟨20, p.length⟩, inc := false } }),
        tp := none, stop := none } ∧
    out.length = 20 + p.length := by
  have ok : ParseOk c p.length := by
    simp [ParseOk, NetOk, RawOk, TpOk, hl, hv, hn, ht, Step.ipv4, hnum]
  have hd := build_parses c p out wf hb ok
  have hs := build_size c p out wf hb
  simp only [startOf, hl] at hd
  rw [hd]
  simp [expPacket, expExtsAt, expNetAt, expTpAt, expTp, expIpv4, v4Frag, cfgFrag, linkLen, vlanLen, 
    endNum, tpHeaderLen, Ipv4Extensions.headerLen, hl, hv, hn, ht, Step.ipv4, hs, size, Ipv4Header.headerLen]

/-- the same over IPv6 (numbers of the extension headers excluded as well) -/
theorem build_parses_ip_raw_ipv6 (c : Cfg) (p out : Bytes) (src dst : Bytes) (hop : Nat)
    (wf : c.WF) (hl : c.link = none) (hv : c.vlan = none) (hn : c.net = Step.ipv6 src dst hop) (ht : c.tp = none)
    (hnum : c.last ≠ 0 ∧ c.last ≠ 1 ∧ c.last ≠ 6 ∧ c.last ≠ 17 ∧ c.last ≠ 43 ∧ c.last ≠ 44 ∧ c.last ≠ 51 ∧
      c.last ≠ 58 ∧ c.last ≠ 60) (hb : build c p = .ok out) :
    Spec.decode .ip (memOf out) out.length = .ok
      { link := none, exts := [],
        net := some (.ip { v4 := false, hdr := ⟨0, 40⟩, auth := none, exts := ⟨40, 0⟩, first := none,
                           slots := ExtSlots.none,
                           pl := { num := c.last, frag := false, src := .ipv6HeaderPayloadLen,
                                   w := ⟨40, p.length⟩, inc := false } }),
        tp := none, stop := none } ∧
    out.length = 40 + p.length := by
  have ok : ParseOk c p.length := by
    simp [ParseOk, NetOk, RawOk, TpOk, hl, hv, hn, ht, Step.ipv6, hnum]
  have hd := build_parses c p out wf hb ok
  have hs := build_size c p out wf hb
  simp only [startOf, hl] at hd
  rw [hd]
  simp [expPacket, expExtsAt, expNetAt, expTpAt, expTp, expIpv6, extsFrag, fragOf, cfgFrag, linkLen, vlanLen, 
    endNum, tpHeaderLen, Ipv6Exts.headerLen, Ipv6Exts.empty, optLen, hl, hv, hn, ht, Step.ipv6, hs, size]

/-- ARP behind Ethernet II: the ARP window is `packet_len()`, there is no transport layer. -/
theorem build_parses_eth_arp (c : Cfg) (p out : Bytes) (h : Eth2) (a : Arp)
    (wf : c.WF) (hl : c.link = some (.eth2 h)) (hv : c.vlan = none) (hn : c.net = .arp a)
    (hb : build c p = .ok out) :
    Spec.decode .eth (memOf out) out.length = .ok
      { link := some (.eth2 ⟨0, out.length⟩), exts := [], net := some (.arp ⟨14, a.headerLen⟩), tp := none,
        stop := none } := by
  have ok : ParseOk c p.length := by simp [ParseOk, NetOk, hl, hn]
  have hd := build_parses c p out wf hb ok
  have hs := build_size c p out wf hb
  simp only [startOf, hl] at hd
  rw [hd]
  simp [expPacket, expExtsAt, expNetAt, expTpAt, linkLen, vlanLen, hl, hv, hn, hs]

end special

/-! ### non-vacuity: concrete configurations satisfy the hypotheses (and the negations) -/

def exCfg : Cfg :=
  { link := Step.ethernet2 [1, 2, 3, 4, 5, 6] [7, 8, 9, 10, 11, 12],
    vlan := Step.singleVlan 5,
    net := Step.ipv4 [192, 168, 1, 1] [192, 168, 1, 2] 20,
    tp := some (Step.udp 21 1234), last := 0 }

def exCfg6 : Cfg :=
  { exCfg with net := .ipv6 { trafficClass := 0, flowLabel := 0, payloadLength := 0, nextHeader := 255,
                              hopLimit := 3, source := List.replicate 16 1, destination := List.replicate 16 2 }
                            { Ipv6Exts.empty with
                              fragment := some { nextHeader := 0, fragmentOffset := 0, moreFragments := false,
                                                 identification := 7 } },
                tp := some (Step.icmpv6EchoRequest 1 2) }

example : exCfg.WF ∧ Encodable exCfg 8 ∧ ¬ Encodable exCfg 65508 := by decide
example : exCfg6.WF ∧ Encodable exCfg6 65519 ∧ ¬ Encodable exCfg6 65520 := by decide
example : ¬ Encodable { exCfg with tp := some (Step.icmpv6EchoRequest 1 2) } 0 := by decide


/-! parsing: the side conditions hold for the sample configurations; the expected packet of a
    configuration with an IPv6 fragment header, evaluated; and the ICMPv4 timestamp case: a 21 byte
    timestamp request is built without error and refused by strict decoding ("too long for a
    timestamp message"), so `ParseOk` cannot be dropped from `build_parses`. -/

example : ParseOk exCfg 8 ∧ ParseOk exCfg6 3 := by decide

example : expPacket exCfg6 3 =
    { link := some (.eth2 ⟨0, 77⟩), exts := [.vlan ⟨14, 63⟩],
      net := some (.ip { v4 := false, hdr := ⟨18, 40⟩, auth := none, exts := ⟨58, 8⟩, first := some 44,
                         slots := Dec.ExtSlots.none,
                         pl := { num := 58, frag := false, src := .ipv6HeaderPayloadLen, w := ⟨66, 11⟩,
                                 inc := false } }),
      tp := some (.icmp6 ⟨66, 11⟩), stop := none } := by decide

def exCfgTs : Cfg := { exCfg with vlan := none, tp := some (Step.icmpv4 (.tsRequest 1 2 3 4 5)) }

def faultOf : Except Spec.Fault Dec.Packet → Option Spec.Fault
  | .error f => some f
  | .ok _ => none

example : exCfgTs.WF ∧ Encodable exCfgTs 1 ∧ ParseOk exCfgTs 0 ∧ ¬ ParseOk exCfgTs 1 := by decide

theorem icmpv4_timestamp_with_payload_is_built_and_rejected :
    build exCfgTs [7] = .ok (buildOk exCfgTs [7]) ∧
    faultOf (Spec.decode .eth (Dec.memOf (buildOk exCfgTs [7])) (buildOk exCfgTs [7]).length)
      = some { cls := .tooLong, unit := .icmp4, off := 34, avail := 21, need := 20,
               lim := .ipv4HeaderTotalLen, value := 0 } :=
  ⟨build_accepts exCfgTs [7] (by decide) (by decide), by decide⟩

end EpModel.Props.C10
