import EpModel.Model.ViewAbs
import EpModel.Spec.IcmpTables
import EpModel.Spec.NdpFormat
import EpModel.Spec.IgmpArpFormat
namespace EpModel.Props.C17
open EpModel EpModel.View

theorem icmp6_header_len_const (b : Bytes) : (icmp6Type b).headerLen = 8 := rfl

end EpModel.Props.C17
