import EpModel.Lemmas.View
/-
  C17 — typed control-message views follow their formats.

  Model:  EpModel.Model.{Icmp, Ndp, Igmp, ArpView} (the Rust decoders as written) and
          EpModel.Model.ViewAbs (renaming of the typed values to kind / code name / named fields).
  Spec:   EpModel.Spec.{IcmpTables, NdpFormat, IgmpArpFormat}: the RFC formats as data tables.
  Every statement quantifies over all byte strings; the finite (type, code) dispatch is proved by
  case analysis over the table with the remaining bytes universally quantified.
-/
namespace EpModel.Props.C17
open EpModel EpModel.View EpModel.Spec EpModel.Lemmas.View
set_option linter.unusedSimpArgs false
set_option linter.unusedVariables false

/-! ## ICMPv4 / ICMPv6: kind and fields = table lookup, Unknown for everything without an entry -/

set_option maxRecDepth 4000 in
/-- ICMPv4: for every message (at least the 8 common bytes) the decoded `Icmpv4Type` — kind, code
    name and every field value — is what the RFC 792/1122/1812/1191 table prescribes for its
    (type, code) pair, and the raw `Unknown(type, code, bytes 5–8)` form for every pair without an
    entry. -/
theorem icmp4_view (b : Bytes) (h : 8 ≤ b.length) :
    (icmp4Type b).view = Icmp.view Icmp.icmp4Table b := by
  have h58 := bytes5to8_eq_sub b h
  unfold Icmp.view Icmp.lookup icmp4Type destUnreachable4
  generalize bAt b 0 = t
  generalize bAt b 1 = c
  have ht : t = 0 ∨ t = 3 ∨ t = 5 ∨ t = 8 ∨ t = 11 ∨ t = 12 ∨ t = 13 ∨ t = 14 ∨
      (t ≠ 0 ∧ t ≠ 3 ∧ t ≠ 5 ∧ t ≠ 8 ∧ t ≠ 11 ∧ t ≠ 12 ∧ t ≠ 13 ∧ t ≠ 14) := by omega
  have hc : c = 0 ∨ c = 1 ∨ c = 2 ∨ c = 3 ∨ c = 4 ∨ c = 5 ∨ c = 6 ∨ c = 7 ∨ c = 8 ∨ c = 9 ∨ c = 10 ∨
      c = 11 ∨ c = 12 ∨ c = 13 ∨ c = 14 ∨ c = 15 ∨
      (c ≠ 0 ∧ c ≠ 1 ∧ c ≠ 2 ∧ c ≠ 3 ∧ c ≠ 4 ∧ c ≠ 5 ∧ c ≠ 6 ∧ c ≠ 7 ∧ c ≠ 8 ∧ c ≠ 9 ∧ c ≠ 10 ∧
       c ≠ 11 ∧ c ≠ 12 ∧ c ≠ 13 ∧ c ≠ 14 ∧ c ≠ 15) := by omega
  rcases ht with rfl | rfl | rfl | rfl | rfl | rfl | rfl | rfl | ⟨h0, h3, h5, h8, h11, h12, h13, h14⟩ <;>
  rcases hc with rfl | rfl | rfl | rfl | rfl | rfl | rfl | rfl | rfl | rfl | rfl | rfl | rfl | rfl | rfl | rfl |
      ⟨c0, c1, c2, c3, c4, c5, c6, c7, c8, c9, c10, c11, c12, c13, c14, c15⟩ <;>
  simp [*, Icmp.icmp4Table, redirectCode4, Icmpv4Type.view, DestUnreachableHeader.view, RedirectCode.name,
    TimeExceededCode4.name, EchoHeader.fields, TimestampMessage.fields, echoFromBytes, timestampMessage,
    readFields, Fld.read, h58, Icmp.echo, Icmp.tstamp, List.find?]

set_option maxRecDepth 4000 in
/-- ICMPv6: the same against the RFC 4443 / 4861 (+ 7112, 8754, 8883 codes) table. -/
theorem icmp6_view (b : Bytes) (h : 8 ≤ b.length) :
    (icmp6Type b).view = Icmp.view Icmp.icmp6Table b := by
  have h58 := bytes5to8_eq_sub b h
  unfold Icmp.view Icmp.lookup icmp6Type
  generalize bAt b 0 = t
  generalize bAt b 1 = c
  have ht : t = 1 ∨ t = 2 ∨ t = 3 ∨ t = 4 ∨ t = 128 ∨ t = 129 ∨ t = 133 ∨ t = 134 ∨ t = 135 ∨ t = 136 ∨
      t = 137 ∨ (t ≠ 1 ∧ t ≠ 2 ∧ t ≠ 3 ∧ t ≠ 4 ∧ t ≠ 128 ∧ t ≠ 129 ∧ t ≠ 133 ∧ t ≠ 134 ∧ t ≠ 135 ∧
        t ≠ 136 ∧ t ≠ 137) := by omega
  have hc : c = 0 ∨ c = 1 ∨ c = 2 ∨ c = 3 ∨ c = 4 ∨ c = 5 ∨ c = 6 ∨ c = 7 ∨ c = 8 ∨ c = 9 ∨ c = 10 ∨
      (c ≠ 0 ∧ c ≠ 1 ∧ c ≠ 2 ∧ c ≠ 3 ∧ c ≠ 4 ∧ c ≠ 5 ∧ c ≠ 6 ∧ c ≠ 7 ∧ c ≠ 8 ∧ c ≠ 9 ∧ c ≠ 10) := by omega
  rcases ht with rfl | rfl | rfl | rfl | rfl | rfl | rfl | rfl | rfl | rfl | rfl |
      ⟨h1, h2, h3, h4, h128, h129, h133, h134, h135, h136, h137⟩ <;>
  rcases hc with rfl | rfl | rfl | rfl | rfl | rfl | rfl | rfl | rfl | rfl | rfl |
      ⟨c0, c1, c2, c3, c4, c5, c6, c7, c8, c9, c10⟩ <;>
  simp [*, Icmp.icmp6Table, Icmpv6Type.view, DestUnreachableCode6.fromU8, TimeExceededCode6.fromU8,
    ParameterProblemCode6.fromU8, DestUnreachableCode6.name, TimeExceededCode6.name,
    ParameterProblemCode6.name, EchoHeader.fields, echoFromBytes, routerAdvertisementHeader,
    neighborAdvertisementHeader, ofBool, bitSet_eq,
    readFields, Fld.read, Icmp.echo, Icmp.ptr32, List.find?]

/-- explicit fallback: a (type, code) pair without a table entry decodes to the raw form carrying
    exactly the type, code and bytes 5–8 of the message (ICMPv4). -/
theorem icmp4_unknown_fallback (b : Bytes) (h8 : 8 ≤ b.length)
    (h : Icmp.lookup Icmp.icmp4Table (bAt b 0) (bAt b 1) = none) :
    (icmp4Type b).view = ⟨"Unknown", "", [("type", .n (bAt b 0)), ("code", .n (bAt b 1)),
      ("b58", .b (sub b 4 4))]⟩ := by
  rw [icmp4_view b h8]; unfold Icmp.view; rw [h]

/-- the same for ICMPv6. -/
theorem icmp6_unknown_fallback (b : Bytes) (h8 : 8 ≤ b.length)
    (h : Icmp.lookup Icmp.icmp6Table (bAt b 0) (bAt b 1) = none) :
    (icmp6Type b).view = ⟨"Unknown", "", [("type", .n (bAt b 0)), ("code", .n (bAt b 1)),
      ("b58", .b (sub b 4 4))]⟩ := by
  rw [icmp6_view b h8]; unfold Icmp.view; rw [h]

/-! ## ICMP: rejects exactly too short / exact-size rule violated; header / payload split -/

/-- `Icmpv4Slice::from_slice` rejects exactly the byte strings the format rejects (shorter than 8
    bytes, or a timestamp / timestamp reply with code 0 that is not exactly 20 bytes), the error
    carries the needed and the actual length, and an accepted slice is the whole input. -/
theorem icmp4_rejects_iff (b : Bytes) :
    match icmp4FromSlice b, Icmp.check Icmp.icmp4Table none b with
    | .ok s, none => s = b
    | .error e, some r => r.needLen = (e.req, e.len) ∧ e.len = b.length ∧ e.src = .slice ∧ e.off = 0
    | _, _ => False := by
  unfold icmp4FromSlice Icmp.check
  rw [exactOf_icmp4]
  by_cases h8 : b.length < 8
  · simp [h8, Icmp.Reject.needLen]
  · by_cases h20 : b.length = 20
    · have : ¬ 20 = b.length → False := fun h => h h20.symm
      simp [h8, h20, Option.filter]
      by_cases hh : (bAt b 0 = 13 ∨ bAt b 0 = 14) ∧ bAt b 1 = 0 <;> simp [hh]
    · have h20' : ¬ 20 = b.length := fun h => h20 h.symm
      by_cases h13 : bAt b 0 = 13 ∧ bAt b 1 = 0
      · simp [h8, h20, h20', h13, Option.filter, Icmp.Reject.needLen]
      · by_cases h14 : bAt b 0 = 14 ∧ bAt b 1 = 0
        · simp [h8, h20, h20', h14, Option.filter, Icmp.Reject.needLen]
        · have : ¬ ((bAt b 0 = 13 ∨ bAt b 0 = 14) ∧ bAt b 1 = 0) := by
            intro h; rcases h with ⟨h | h, hc⟩
            · exact h13 ⟨h, hc⟩
            · exact h14 ⟨h, hc⟩
          have a : ¬ (bAt b 0 = 13 ∧ bAt b 1 = 0 ∧ ¬ 20 = b.length) := fun h => h13 ⟨h.1, h.2.1⟩
          have a' : ¬ (bAt b 0 = 14 ∧ bAt b 1 = 0 ∧ ¬ 20 = b.length) := fun h => h14 ⟨h.1, h.2.1⟩
          simp only [h8, if_false, ne_eq, a, a', this, Option.filter]

/-- the same for `Icmpv6Slice::from_slice` (shorter than 8 bytes or longer than 2^32 - 1). -/
theorem icmp6_rejects_iff (b : Bytes) :
    match icmp6FromSlice b, Icmp.check Icmp.icmp6Table (some Icmp.icmp6MaxLen) b with
    | .ok s, none => s = b
    | .error e, some r => r.needLen = (e.req, e.len) ∧ e.len = b.length ∧ e.src = .slice ∧ e.off = 0
    | _, _ => False := by
  unfold icmp6FromSlice Icmp.check
  rw [exactOf_icmp6]
  have hm : Icmp.icmp6MaxLen = maxIcmpv6ByteLen := by decide
  by_cases h8 : b.length < 8
  · simp [h8, Icmp.Reject.needLen]
  · by_cases hx : b.length > maxIcmpv6ByteLen
    · have : maxIcmpv6ByteLen < b.length := hx
      simp [h8, hx, hm, this, Option.filter, Icmp.Reject.needLen]
    · have : ¬ maxIcmpv6ByteLen < b.length := hx
      simp [h8, hx, hm, this, Option.filter]

/-- what the format's reject rule means in plain terms (ICMPv4). -/
theorem icmp4_spec_rejects_char (b : Bytes) :
    Icmp.check Icmp.icmp4Table none b = none ↔
      8 ≤ b.length ∧ (((bAt b 0 = 13 ∨ bAt b 0 = 14) ∧ bAt b 1 = 0) → b.length = 20) := by
  unfold Icmp.check
  rw [exactOf_icmp4]
  by_cases h8 : b.length < 8
  · simp [h8]; omega
  · by_cases hh : (bAt b 0 = 13 ∨ bAt b 0 = 14) ∧ bAt b 1 = 0
    · by_cases h20 : b.length = 20
      · simp [h8, hh, h20, Option.filter]
      · simp [h8, hh, h20, Option.filter]
    · simp [h8, hh, Option.filter]; omega

/-- the three copies of the ICMPv4 header-length rule agree with the table, the payload window is
    the rest behind the header and lies inside the message, `Icmpv4Header::from_slice` never panics
    and returns the same type, the checksum field and the same rest. -/
theorem icmp4_header_split (b s : Bytes) (h : icmp4FromSlice b = .ok s) :
    icmp4SliceHeaderLen b = Icmp.headerLen Icmp.icmp4Table b ∧
    (icmp4Type b).headerLen = Icmp.headerLen Icmp.icmp4Table b ∧
    Icmp.headerLen Icmp.icmp4Table b ≤ b.length ∧
    icmp4Payload b = ⟨Icmp.headerLen Icmp.icmp4Table b, b.length - Icmp.headerLen Icmp.icmp4Table b⟩ ∧
    icmp4HeaderFromSlice b = .ok ⟨icmp4Type b, be16 b 2,
      ⟨Icmp.headerLen Icmp.icmp4Table b, b.length - Icmp.headerLen Icmp.icmp4Table b⟩⟩ := by
  obtain ⟨rfl, h8, h20⟩ := icmp4_accept_len h
  have hl : Icmp.headerLen Icmp.icmp4Table s =
      if (bAt s 0 = 13 ∨ bAt s 0 = 14) ∧ bAt s 1 = 0 then 20 else 8 := by
    unfold Icmp.headerLen; rw [exactOf_icmp4]; split <;> rfl
  have ht := icmp4Type_headerLen s
  have hle : Icmp.headerLen Icmp.icmp4Table s ≤ s.length := by
    rw [hl]; split
    · rename_i hc; have := h20 hc; omega
    · omega
  refine ⟨by rw [hl]; rfl, by rw [hl, ht], hle, by rw [hl]; rfl, ?_⟩
  unfold icmp4HeaderFromSlice
  rw [h]
  simp only [ht, ← hl, hle, if_true]

/-- ICMPv6: the header is always 8 bytes, the payload everything behind it. -/
theorem icmp6_header_split (b s : Bytes) (h : icmp6FromSlice b = .ok s) :
    Icmp.headerLen Icmp.icmp6Table b = 8 ∧ (icmp6Type b).headerLen = 8 ∧ 8 ≤ b.length ∧
    icmp6Payload b = ⟨8, b.length - 8⟩ ∧
    icmp6HeaderFromSlice b = .ok ⟨icmp6Type b, be16 b 2, ⟨8, b.length - 8⟩⟩ := by
  obtain ⟨rfl, h8⟩ := icmp6_accept_len h
  refine ⟨by unfold Icmp.headerLen; rw [exactOf_icmp6]; rfl, rfl, h8, rfl, ?_⟩
  unfold icmp6HeaderFromSlice
  rw [h]
  simp [Icmpv6Type.headerLen, h8]

/-! ## NDP options: tiling, refinement of the RFC 4861 §4.6 TLV rule, bounds -/

/-- one iterator step is exactly the TLV rule: fewer than 2 bytes / length unit 0 / 8·unit bytes not
    present / Prefix Information with unit ≠ 4 / MTU with unit ≠ 1 are errors (after which the
    iterator is empty); otherwise the option is the next `8 * unit` bytes and the iterator advances
    by exactly that much. -/
theorem ndp_step_rule (off : Nat) (s : Bytes) (hs : s ≠ []) :
    ndpNext ⟨off, s⟩ =
      if s.length < 2 then
        some (.error (.unexpectedSize (bAt s 0) 2 s.length), ⟨off + s.length, []⟩)
      else if bAt s 1 = 0 then some (.error (.zeroLength (bAt s 0)), ⟨off + s.length, []⟩)
      else if bAt s 1 * 8 > s.length then
        some (.error (.unexpectedEndOfSlice (bAt s 0) (bAt s 1 * 8) s.length), ⟨off + s.length, []⟩)
      else if bAt s 0 = 3 ∧ bAt s 1 ≠ 4 then
        some (.error (.unexpectedSize 3 32 (bAt s 1 * 8)), ⟨off + s.length, []⟩)
      else if bAt s 0 = 5 ∧ bAt s 1 ≠ 1 then
        some (.error (.unexpectedSize 5 8 (bAt s 1 * 8)), ⟨off + s.length, []⟩)
      else
        some (.ok ⟨ndpKindOfType (bAt s 0), off, s.take (bAt s 1 * 8)⟩,
              ⟨off + bAt s 1 * 8, s.drop (bAt s 1 * 8)⟩) :=
  ndpNext_eval off s hs

/-- tiling: the options handed out for an option area are contiguous from offset 0, each is
    `8 * unit` bytes long (unit = the non-zero length byte found in the area at that offset), lies
    inside the area and consists of the area's bytes — no gap, no overlap.  Without an error they
    cover the whole area; with an error they cover it up to the first option the RFC 4861 rule
    rejects, and the error is the one that corresponds to the rule's reject reason.  The number of
    options is at most `length / 8`. -/
theorem ndp_tiles (area : Bytes) :
    TilesFrom area 0 (ndpRun ⟨0, area⟩).1 ∧
    ((ndpRun ⟨0, area⟩).2 = none → coveredEnd 0 (ndpRun ⟨0, area⟩).1 = area.length) ∧
    (∀ e, (ndpRun ⟨0, area⟩).2 = some e →
        coveredEnd 0 (ndpRun ⟨0, area⟩).1 < area.length ∧
        ∃ rj, Ndp.head (coveredEnd 0 (ndpRun ⟨0, area⟩).1)
                (area.drop (coveredEnd 0 (ndpRun ⟨0, area⟩).1)) = .error rj ∧ e = rejectToErr rj) ∧
    (ndpRun ⟨0, area⟩).1.length ≤ area.length / 8 :=
  ndp_tiles_gen area area 0 (by simp) (by omega)

/-- no gap, no overlap: the bytes of the options handed out, concatenated, are exactly the prefix
    of the area that ends behind the last option. -/
theorem ndp_no_gap_no_overlap (area : Bytes) :
    ((ndpRun ⟨0, area⟩).1.map (·.bytes)).flatten = area.take (coveredEnd 0 (ndpRun ⟨0, area⟩).1) := by
  have h := tiles_concat area _ 0 (ndp_tiles area).1
  simpa [sub] using h

/-- refinement: the sequence of option views (kind, window, typed fields) and the error are exactly
    what the format rule `Spec.Ndp.parse` prescribes: rejects ↔ spec rejects, with the same reason. -/
theorem ndp_refines_spec (area : Bytes) :
    (ndpRun ⟨0, area⟩).1.map NdpOpt.view = (Ndp.parse 0 area).1.map (·.view) ∧
    (ndpRun ⟨0, area⟩).2 = (Ndp.parse 0 area).2.map rejectToErr :=
  ndp_refines area 0

/-- after an error the iterator is exhausted: the next call returns `None`. -/
theorem ndp_exhausted_after_error (it it' : NdpIter) (e : NdpErr)
    (h : ndpNext it = some (.error e, it')) : ndpNext it' = none := by
  unfold ndpNext at h
  split at h
  · contradiction
  · split at h
    · simp only [Option.some.injEq, Prod.mk.injEq] at h
      rw [← h.2]; simp [ndpNext]
    · simp at h

/-- every successful step consumes at least 8 bytes, so iteration is bounded by `length / 8` steps
    (plus the final `None` or error). -/
theorem ndp_step_consumes (it it' : NdpIter) (o : NdpOpt) (h : ndpNext it = some (.ok o, it')) :
    it'.options.length + 8 ≤ it.options.length ∧ o.bytes.length + it'.options.length = it.options.length := by
  unfold ndpNext at h
  split at h
  · contradiction
  · split at h
    · simp at h
    · rename_i o2 it2 hp
      simp only [Option.some.injEq, Prod.mk.injEq, Except.ok.injEq] at h
      obtain ⟨rfl, rfl⟩ := h
      obtain ⟨_, hu, hl, rfl, rfl, _⟩ := ndpParseNext_ok hp
      simp only [List.length_drop, List.length_take]
      omega

/-! ## NDP messages: fixed part / option area split -/

/-- the NDP messages: `Icmpv6Slice::payload_slice` accepts iff the message has its whole fixed
    part; the fixed-part fields are the ones RFC 4861 lays out and the option area is everything
    behind the fixed part. -/
theorem ndp_payload_split (b : Bytes) (h8 : 8 ≤ b.length) (e : Ndp.Msg)
    (he : Ndp.lookupMsg (bAt b 0) (bAt b 1) = some e) :
    match icmp6PayloadSlice b, Ndp.split e b with
    | .error er, .tooShort need len =>
        er.req + 8 = need ∧ er.len + 8 = len ∧ er.src = .slice ∧ er.layer = .icmpv6 ∧ er.off = 0
    | .ok k, .ok v optOff optLen =>
        k.name = v.kind ∧ k.fixedFields (b.drop 8) = v.fields ∧ optOff = 8 + k.fixedPartLen ∧
        k.options (b.length - 8) = some ⟨k.fixedPartLen, optLen⟩ ∧ optOff + optLen = b.length
    | _, _ => False := by
  unfold Ndp.lookupMsg at he
  have hp := List.find?_some he
  have hm := List.mem_of_find?_eq_some he
  simp only [decide_eq_true_eq] at hp
  obtain ⟨ht, hc⟩ := hp
  simp only [Ndp.msgTable, List.mem_cons, List.mem_nil_iff, or_false] at hm
  unfold icmp6PayloadSlice payload6FromTypeU8 Ndp.split
  rw [hc, ht]
  have hd : (b.drop 8).length = b.length - 8 := by simp
  have h8' : ¬ b.length < 8 := by omega
  rcases hm with rfl | rfl | rfl | rfl | rfl
  · simp [payload6SliceFromSlice, Payload6Kind.fixedPartLen, Payload6Kind.name, Payload6Kind.fixedFields,
      Payload6Kind.options, readFields, h8']
    omega
  · by_cases hl : b.length < 16
    · have : b.length - 8 < 8 := by omega
      simp [payload6SliceFromSlice, Payload6Kind.fixedPartLen, hl, this]; omega
    · have : ¬ b.length - 8 < 8 := by omega
      simp [payload6SliceFromSlice, Payload6Kind.fixedPartLen, Payload6Kind.name,
        Payload6Kind.fixedFields, Payload6Kind.options, readFields, Fld.read, hl, this, be32_drop]
      omega
  · by_cases hl : b.length < 24
    · have : b.length - 8 < 16 := by omega
      simp [payload6SliceFromSlice, Payload6Kind.fixedPartLen, hl, this]; omega
    · have : ¬ b.length - 8 < 16 := by omega
      simp [payload6SliceFromSlice, Payload6Kind.fixedPartLen, Payload6Kind.name,
        Payload6Kind.fixedFields, Payload6Kind.options, readFields, Fld.read, hl, this, sub_drop]
      omega
  · by_cases hl : b.length < 24
    · have : b.length - 8 < 16 := by omega
      simp [payload6SliceFromSlice, Payload6Kind.fixedPartLen, hl, this]; omega
    · have : ¬ b.length - 8 < 16 := by omega
      simp [payload6SliceFromSlice, Payload6Kind.fixedPartLen, Payload6Kind.name,
        Payload6Kind.fixedFields, Payload6Kind.options, readFields, Fld.read, hl, this, sub_drop]
      omega
  · by_cases hl : b.length < 40
    · have : b.length - 8 < 32 := by omega
      simp [payload6SliceFromSlice, Payload6Kind.fixedPartLen, hl, this]; omega
    · have : ¬ b.length - 8 < 32 := by omega
      simp [payload6SliceFromSlice, Payload6Kind.fixedPartLen, Payload6Kind.name,
        Payload6Kind.fixedFields, Payload6Kind.options, readFields, Fld.read, hl, this, sub_drop]
      omega

/-- everything that is not an NDP message has no option area. -/
theorem non_ndp_no_options (b : Bytes) (he : Ndp.lookupMsg (bAt b 0) (bAt b 1) = none) :
    ∀ k, icmp6PayloadSlice b = .ok k → k.options (b.length - 8) = none := by
  unfold Ndp.lookupMsg at he
  rw [List.find?_eq_none] at he
  simp only [Ndp.msgTable, List.mem_cons, List.mem_nil_iff, or_false, decide_eq_true_eq,
    forall_eq_or_imp, forall_eq] at he
  obtain ⟨a1, a2, a3, a4, a5⟩ := he
  intro k hk
  unfold icmp6PayloadSlice payload6FromTypeU8 at hk
  repeat' split at hk
  all_goals simp_all [payload6SliceFromSlice, Payload6Kind.options]
  all_goals (try subst hk); simp_all [Payload6Kind.options]

/-- the two copies of the payload dispatch (on the decoded `Icmpv6Type` and on the raw type/code
    bytes) agree for every message and payload. -/
theorem icmp6_payload_dispatch_copies_agree (b p : Bytes) :
    payload6FromType (icmp6Type b) p = payload6FromTypeU8 (bAt b 0) (bAt b 1) p := by
  unfold icmp6Type payload6FromTypeU8
  generalize bAt b 0 = t
  generalize bAt b 1 = c
  have ht : t = 1 ∨ t = 2 ∨ t = 3 ∨ t = 4 ∨ t = 128 ∨ t = 129 ∨ t = 133 ∨ t = 134 ∨ t = 135 ∨ t = 136 ∨
      t = 137 ∨ (t ≠ 1 ∧ t ≠ 2 ∧ t ≠ 3 ∧ t ≠ 4 ∧ t ≠ 128 ∧ t ≠ 129 ∧ t ≠ 133 ∧ t ≠ 134 ∧ t ≠ 135 ∧
        t ≠ 136 ∧ t ≠ 137) := by omega
  have hc : c = 0 ∨ c = 1 ∨ c = 2 ∨ c = 3 ∨ c = 4 ∨ c = 5 ∨ c = 6 ∨ c = 7 ∨ c = 8 ∨ c = 9 ∨ c = 10 ∨
      (c ≠ 0 ∧ c ≠ 1 ∧ c ≠ 2 ∧ c ≠ 3 ∧ c ≠ 4 ∧ c ≠ 5 ∧ c ≠ 6 ∧ c ≠ 7 ∧ c ≠ 8 ∧ c ≠ 9 ∧ c ≠ 10) := by omega
  rcases ht with rfl | rfl | rfl | rfl | rfl | rfl | rfl | rfl | rfl | rfl | rfl |
      ⟨h1, h2, h3, h4, h128, h129, h133, h134, h135, h136, h137⟩ <;>
  rcases hc with rfl | rfl | rfl | rfl | rfl | rfl | rfl | rfl | rfl | rfl | rfl |
      ⟨c0, c1, c2, c3, c4, c5, c6, c7, c8, c9, c10⟩ <;>
  simp [*, payload6FromType, DestUnreachableCode6.fromU8, TimeExceededCode6.fromU8,
    ParameterProblemCode6.fromU8]

/-! ## IGMP -/

/-- abstraction of the result of `IgmpHeader::from_slice` to the Spec outcome. -/
def igmpOutcome : Except LenError IgmpHeaderRest → Igmp.Outcome
  | .error e => .tooShort e.req e.len
  | .ok h => .ok h.igmpType.view h.igmpType.headerLen

/-- `IgmpHeader::from_slice` = the RFC 2236 / 3376 / 9776 rules: type byte and length decide the
    kind (query of 8 bytes → v1/v2 form, of at least 12 bytes → v3 form, 9–11 bytes rejected with the
    needed length 12), all field values are the prescribed ones, unassigned types give the raw
    form, everything shorter than 8 bytes is rejected. -/
theorem igmp_view (b : Bytes) : igmpOutcome (igmpFromSlice b) = Igmp.decode b := by
  unfold igmpFromSlice Igmp.decode
  by_cases h8 : b.length < 8
  · simp [h8, igmpOutcome]
  · have h58 := bytes5to8_eq_sub b (by omega)
    have h46 := bytes4to6_eq_sub b (by omega)
    have h46' : [b[4]?.getD 0, b[5]?.getD 0] = sub b 4 2 := by simpa using h46
    simp only [h8, if_false]
    generalize ht : bAt b 0 = t
    have hc : t = 0x11 ∨ t = 0x12 ∨ t = 0x16 ∨ t = 0x17 ∨ t = 0x22 ∨
        (t ≠ 0x11 ∧ t ≠ 0x12 ∧ t ≠ 0x16 ∧ t ≠ 0x17 ∧ t ≠ 0x22) := by omega
    rcases hc with rfl | rfl | rfl | rfl | rfl | ⟨t1, t2, t3, t4, t5⟩
    · by_cases hl8 : 8 = b.length
      · have : b.length = 8 := hl8.symm
        simp [this, Igmp.table, List.filter, List.find?, Igmp.LenRule.holds, igmpOutcome,
          IgmpType.view, IgmpType.headerLen, readFields, Fld.read, h58, Igmp.group]
      · by_cases hl12 : b.length ≥ 12
        · have h1 : ¬ b.length = 8 := fun h => hl8 h.symm
          simp [hl8, hl12, h1, Igmp.table, List.filter, List.find?, Igmp.LenRule.holds, igmpOutcome,
            IgmpType.view, IgmpType.headerLen, readFields, Fld.read, h58, Igmp.group, queryFlags,
            querySFlag, queryQrv, ofBool, bitSet_eq]
          exact bitSet_eq _ _
        · have h1 : ¬ b.length = 8 := fun h => hl8 h.symm
          have h2 : ¬ 12 ≤ b.length := by omega
          have h3 : ¬ b.length < 8 := h8
          have h4 : b.length < 12 := by omega
          simp [hl8, hl12, h1, h2, h3, h4, Igmp.table, List.filter, List.find?, Igmp.LenRule.holds,
            igmpOutcome, Igmp.nextBound, Igmp.LenRule.bound]
    all_goals
      have h3 : 8 ≤ b.length := by omega
      simp [*, Igmp.table, List.filter, List.find?, Igmp.LenRule.holds, igmpOutcome,
        IgmpType.view, IgmpType.headerLen, readFields, Fld.read, h58, h46', Igmp.group]

/-- shape of every result of `IgmpHeader::from_slice`: errors are exactly "shorter than 8" and
    "membership query of 9–11 bytes"; the rest starts behind the header. -/
theorem igmp_rejects_iff (b : Bytes) :
    match igmpFromSlice b with
    | .error e => e.len = b.length ∧ e.src = .slice ∧ e.layer = .igmp ∧ e.off = 0 ∧
        ((b.length < 8 ∧ e.req = 8) ∨ (bAt b 0 = 0x11 ∧ 8 < b.length ∧ b.length < 12 ∧ e.req = 12))
    | .ok h => h.igmpType.headerLen ≤ b.length ∧
        h.rest = ⟨h.igmpType.headerLen, b.length - h.igmpType.headerLen⟩ ∧ h.checksum = be16 b 2 := by
  unfold igmpFromSlice
  by_cases h8 : b.length < 8
  · simp [h8]
  · simp only [h8, if_false]
    by_cases h11 : bAt b 0 = 0x11
    · by_cases hl8 : 8 = b.length
      · simp [h11, ← hl8, IgmpType.headerLen]
      · by_cases h12 : b.length ≥ 12
        · simp [h11, hl8, h12, IgmpType.headerLen]
        · simp [h11, hl8, h12]; omega
    · simp only [h11, if_false]
      by_cases h1 : bAt b 0 = 0x12
      · simp [h1, IgmpType.headerLen]; omega
      · by_cases h2 : bAt b 0 = 0x16
        · simp [h2, IgmpType.headerLen]; omega
        · by_cases h3 : bAt b 0 = 0x17
          · simp [h3, IgmpType.headerLen]; omega
          · by_cases h4 : bAt b 0 = 0x22
            · simp [h4, IgmpType.headerLen]; omega
            · simp [h1, h2, h3, h4, IgmpType.headerLen]; omega

def recordOutcome : Except LenError GroupRecordHeader → Igmp.Outcome
  | .error e => .tooShort e.req e.len
  | .ok h => .ok h.view 8

/-- `ReportGroupRecordV3Header::from_slice` = the 8 byte group record header of RFC 9776 §4.2. -/
theorem group_records_view (b : Bytes) :
    recordOutcome (groupRecordFromSlice b) = Igmp.decodeRecord b ∧
    match groupRecordFromSlice b with
    | .error e => e.len = b.length ∧ b.length < 8 ∧ e.src = .slice ∧ e.layer = .igmp ∧ e.off = 0
    | .ok h => 8 ≤ b.length ∧ h.rest = ⟨8, b.length - 8⟩ := by
  unfold groupRecordFromSlice Igmp.decodeRecord
  by_cases h8 : b.length < 8
  · simp [h8, recordOutcome]
  · have h58 := bytes5to8_eq_sub b (by omega)
    simp [h8, recordOutcome, GroupRecordHeader.view, Igmp.recordFields, readFields, Fld.read, h58]
    omega

/-! ## ARP: Ethernet / IPv4 view -/

/-- abstraction of the ARP route `ArpPacketSlice::from_slice → to_packet → try_eth_ipv4`. -/
def arpOutcome (b : Bytes) : Arp.Outcome :=
  match arpSliceFromSlice b with
  | .error e => .tooShort e.req e.len (decide (e.src = .arpAddrLengths))
  | .ok s =>
    match tryEthIpv4 (arpToPacket s) with
    | .error e => .mismatch e.view.1 e.view.2
    | .ok v => .ok v.view s.length

/-- `ArpPacket::from_slice` followed by `try_eth_ipv4` (= `ArpEthIpv4Packet::try_from`) = RFC 826 for
    hrd = 1, pro = 0x0800, hln = 6, pln = 4: too short (8 bytes, then 8 + 2·hln + 2·pln) is rejected,
    the first non-matching of the four fields is reported with its value, otherwise operation and
    the four addresses are the bytes at their RFC positions. -/
theorem arp_eth_ipv4_view (b : Bytes) : arpOutcome b = Arp.decodeEthIpv4 b := by
  unfold arpOutcome arpSliceFromSlice Arp.decodeEthIpv4
  by_cases h8 : b.length < 8
  · simp [h8]
  · have hm : 8 + bAt b 4 * 2 + bAt b 5 * 2 = 8 + 2 * bAt b 4 + 2 * bAt b 5 := by omega
    by_cases hn : b.length < 8 + bAt b 4 * 2 + bAt b 5 * 2
    · have hn' : b.length < 8 + 2 * bAt b 4 + 2 * bAt b 5 := by omega
      simp [h8, hn, hn', hm]
    · have hn' : ¬ b.length < 8 + 2 * bAt b 4 + 2 * bAt b 5 := by omega
      simp only [h8, hn, hn', if_false]
      generalize hs : b.take (8 + bAt b 4 * 2 + bAt b 5 * 2) = s
      have hsl : s.length = 8 + bAt b 4 * 2 + bAt b 5 * 2 := by rw [← hs]; simp; omega
      have h4 : bAt s 4 = bAt b 4 := by rw [← hs]; exact bAt_take _ _ _ (by omega)
      have h5 : bAt s 5 = bAt b 5 := by rw [← hs]; exact bAt_take _ _ _ (by omega)
      have e0 : be16 s 0 = be16 b 0 := by rw [← hs]; exact be16_take _ _ _ (by omega)
      have e2 : be16 s 2 = be16 b 2 := by rw [← hs]; exact be16_take _ _ _ (by omega)
      have e6 : be16 s 6 = be16 b 6 := by rw [← hs]; exact be16_take _ _ _ (by omega)
      have l4 := bAt_lt b 4
      have l5 := bAt_lt b 5
      have hh : (sub s 8 (bAt b 4)).length = bAt b 4 := sub_length _ _ _ (by omega)
      have hp : (sub s (8 + bAt b 4) (bAt b 5)).length = bAt b 5 := sub_length _ _ _ (by omega)
      unfold tryEthIpv4 arpToPacket
      simp only [h4, h5, e0, e2, e6, hh, hp, Nat.mod_eq_of_lt l4, Nat.mod_eq_of_lt l5]
      by_cases c1 : be16 b 0 = 1
      · by_cases c2 : be16 b 2 = 0x0800
        · by_cases c3 : bAt b 4 = 6
          · by_cases c4 : bAt b 5 = 4
            · have hl28 : 28 ≤ b.length := by omega
              have t1 : sub s 8 6 = sub b 8 6 := by rw [← hs]; exact sub_take _ _ _ _ (by omega)
              have t2 : sub s 14 4 = sub b 14 4 := by rw [← hs]; exact sub_take _ _ _ _ (by omega)
              have t3 : sub s 18 6 = sub b 18 6 := by rw [← hs]; exact sub_take _ _ _ _ (by omega)
              have t4 : sub s 24 4 = sub b 24 4 := by rw [← hs]; exact sub_take _ _ _ _ (by omega)
              have k1 : (sub b 8 6).take 6 = sub b 8 6 := by simp [sub, List.take_take]
              have k2 : (sub b 14 4).take 4 = sub b 14 4 := by simp [sub, List.take_take]
              have k3 : (sub b 18 6).take 6 = sub b 18 6 := by simp [sub, List.take_take]
              have k4 : (sub b 24 4).take 4 = sub b 24 4 := by simp [sub, List.take_take]
              simp [c1, c2, c3, c4, Arp.requirements, List.find?, Arp.numOf, Fld.read, t1, t2, t3, t4,
                k1, k2, k3, k4, ArpEthIpv4Packet.view, Arp.ethIpv4Fields, readFields, hsl]
            · simp [c1, c2, c3, c4, Arp.requirements, List.find?, Arp.numOf, Fld.read,
                ArpEthIpv4FromError.view]
          · simp [c1, c2, c3, Arp.requirements, List.find?, Arp.numOf, Fld.read,
              ArpEthIpv4FromError.view]
        · simp [c1, c2, Arp.requirements, List.find?, Arp.numOf, Fld.read, ArpEthIpv4FromError.view]
      · simp [c1, Arp.requirements, List.find?, Arp.numOf, Fld.read, ArpEthIpv4FromError.view]

/-! ## non-vacuity: concrete inputs on which the definitions compute non-trivial values and the
    hypotheses of the theorems above hold -/

example : icmp4Type [3, 4, 0, 0, 0, 0, 5, 120, 0xaa] = .destinationUnreachable (.fragmentationNeeded 1400) := by
  decide
example : icmp4Type [3, 16, 0, 0, 1, 2, 3, 4] = .unknown 3 16 [1, 2, 3, 4] := by decide
example : Icmp.lookup Icmp.icmp4Table 4 0 = none := by decide
example : icmp4FromSlice [13, 0, 0, 0, 0, 0, 0, 0, 0] = .error ⟨20, 9, .slice, .icmpv4Timestamp, 0⟩ := by
  rfl
example : (Ndp.lookupMsg 134 0).map (·.fixedLen) = some 16 := by decide
example : ndpNext ⟨0, [1, 1, 2, 3, 4, 5, 6, 7, 5, 1, 0, 0, 0, 0, 5, 0]⟩ =
    some (.ok ⟨.sourceLinkLayerAddress, 0, [1, 1, 2, 3, 4, 5, 6, 7]⟩, ⟨8, [5, 1, 0, 0, 0, 0, 5, 0]⟩) := by
  rfl
example : ndpNext ⟨0, [1, 0, 2, 3]⟩ = some (.error (.zeroLength 1), ⟨4, []⟩) := by rfl
example : TilesFrom [1, 1, 2, 3, 4, 5, 6, 7] 0 [⟨.sourceLinkLayerAddress, 0, [1, 1, 2, 3, 4, 5, 6, 7]⟩] := by
  simp [TilesFrom, bAt, sub]
example : igmpOutcome (igmpFromSlice [0x11, 100, 0, 0, 1, 2, 3, 4, 5]) = .tooShort 12 9 := by rfl
example : arpOutcome [0, 1, 8, 0, 6, 3, 0, 1, 1, 2, 3, 4, 5, 6, 7, 8, 9, 1, 2, 3, 4, 5, 6, 7, 8, 9] =
    .mismatch "NonMatchingProtoAddrSize" 3 := by rfl
example : (8 : Nat) ≤ ([3, 4, 0, 0, 0, 0, 5, 120, 0xaa] : Bytes).length := by decide

end EpModel.Props.C17
