import EpModel.Lemmas.WireChains
/-
  C09, closing the loop between the code and the RFC forms for the PROTOCOL checksums.

  The `ck.w.*` operations compare, on every run, every route the crate offers to a protocol checksum with
  `wireIpv4 / wireUdp4 / wireUdp6 / wireTcp4 / wireTcp6 / wireIcmp4 / wireIcmp6` (Model/ChecksumWire.lean): the
  RFC 1071 checksum `Spec.checksum` over (pseudo header ++) header bytes with a zeroed checksum field ++
  payload.  The theorems below prove, for all inputs, that the MODEL of the crate's own chains of
  `Sum16BitWords` calls (`udpPostIp`, `tcpPostIp`, `icmp4Checksum`, `ck6 (.icmp6 _)`,
  `Ipv4Header.calcHeaderChecksum` - Model/Builder.lean, Model/Codec/NetIpv4.lean; tied to the code by the
  builder and codec correspondence of C10 / C08) equals those same functions.  So the value the code model
  computes is the RFC value for every header, address pair and payload, not only for the sampled ones.

  Hypotheses: address lengths (4 / 16 bytes), well-formed headers (`WF`: the field ranges of the Rust types),
  and for UDP that the length field of the header is the real length (`calc_checksum_*` sums the field, the
  RFC form the real length; over IPv6 additionally `< 65536`, see the known finding on C14).
-/
namespace EpModel.Props.C09
open EpModel EpModel.Codec EpModel.CodecNet EpModel.Builder EpModel.Checksum EpModel.Lemmas.Builder
open EpModel.Lemmas.WireChains

/-- **UDP over IPv4**: the chain of `UdpHeader::calc_checksum_ipv4_raw` (model `udpPostIp`) is the RFC 768
    checksum over pseudo header, the header bytes with a zeroed checksum field, and the payload - the
    function `wireUdp4` that the `ck.w.udp4` operations compare the implementation with - whenever the
    length field of the header is the real length -/
theorem udp4_chain_is_wire (h : Udp) (src dst p : Bytes) (hs : src.length = 4) (hd : dst.length = 4)
    (hl : h.len = 8 + p.length) :
    udpPostIp h [src, dst, [0, 17], enc16 h.len] p = wireUdp4 src dst (Udp.toBytes h) p := by
  rw [udp_words_gen h src dst p hs hd]
  unfold wireUdp4 Checksum.pseudo4
  rw [noZeroW_eq]
  congr 1
  have hlen : (Udp.toBytes h).length = 8 := by simp [Udp.toBytes, enc16_len]
  rw [hlen, ← hl]
  have hz : zeroAt (Udp.toBytes h) 6 2 = enc16 h.sp ++ enc16 h.dp ++ enc16 h.len ++ [0, 0] := by
    have := zeroAt_append (enc16 h.sp ++ enc16 h.dp ++ enc16 h.len) (enc16 h.ck) [] (enc16_len _)
    simp only [List.append_nil, List.length_append, enc16_len] at this
    exact this
  rw [hz]
  have := checksum_insert_zero (src ++ dst ++ [0, 17] ++ enc16 h.len ++ (enc16 h.sp ++ enc16 h.dp ++ enc16 h.len)) p
    (by simp only [List.length_append, enc16_len, hs, hd, List.length_cons, List.length_nil])
  rw [← this]
  simp [u8, List.append_assoc]

/-- **UDP over IPv6** (`UdpHeader::calc_checksum_ipv6_raw`): equal to the RFC 8200 8.1 form `wireUdp6` whenever
    the length field of the header is the real length (so below 65 536: the crate sums the 16 bit field, see
    the known finding on C14 for longer payloads) -/
theorem udp6_chain_is_wire (h : Udp) (src dst p : Bytes) (hs : src.length = 16) (hd : dst.length = 16)
    (hl : h.len = 8 + p.length) (hlt : h.len < 65536) :
    udpPostIp h (split16 src ++ split16 dst ++ [[0, 17], enc16 h.len]) p = wireUdp6 src dst (Udp.toBytes h) p := by
  rw [udp6_words_gen h src dst p hs hd]
  unfold wireUdp6 Checksum.pseudo6
  rw [noZeroW_eq]
  congr 1
  have hlen : (Udp.toBytes h).length = 8 := by simp [Udp.toBytes]
  rw [hlen, ← hl]
  have hz : zeroAt (Udp.toBytes h) 6 2 = enc16 h.sp ++ enc16 h.dp ++ enc16 h.len ++ [0, 0] := by
    have := zeroAt_append (enc16 h.sp ++ enc16 h.dp ++ enc16 h.len) (enc16 h.ck) [] (enc16_len _)
    simp only [List.append_nil, List.length_append, enc16_len] at this
    exact this
  rw [hz]
  have h1 := checksum_insert_zero (src ++ dst ++ [0, 17] ++ enc16 h.len ++ (enc16 h.sp ++ enc16 h.dp ++ enc16 h.len)) p
    (by simp only [List.length_append, enc16_len, hs, hd, List.length_cons, List.length_nil])
  rw [← h1]
  have h2 := checksum_swap_mid (src ++ dst) ([0, 17] ++ enc16 h.len) (enc32 h.len ++ [0, 0, 0, u8 17])
    (enc16 h.sp ++ enc16 h.dp ++ enc16 h.len ++ [0, 0] ++ p)
    (by simp [hs, hd]) (by simp [enc16_len]) (by simp [enc32_len])
    (by rw [enc32_small _ hlt]; simp [Spec.beWords, enc16, u8]; omega)
  simp only [List.append_assoc] at h2 ⊢
  exact h2

/-- **TCP over IPv4** (`TcpHeader::calc_checksum_ipv4_raw`, model `tcpPostIp` with the IPv4 pseudo header
    words): the RFC 9293 checksum over pseudo header, header bytes with a zeroed checksum field, payload -/
theorem tcp4_chain_is_wire (h : Tcp) (src dst p : Bytes) (hw : h.WF) (hs : src.length = 4) (hd : dst.length = 4) :
    tcpPostIp h [src, dst, [0, 6], enc16 (h.headerLen + p.length)] p = wireTcp4 src dst (Tcp.toBytes h) p := by
  have ho : h.opts.asSlice.length % 2 = 0 := by
    obtain ⟨_, _, _, _, _, _, _, ho1, ho2, ho3, _⟩ := hw
    simp only [TcpOpts.asSlice, List.length_take, ho3]; omega
  have hlen := EpModel.Props.C08Link.Tcp.toBytes_length h hw
  simp only [tcpPostIp]
  rw [chain_eq2 _ _ _ (by simp [PartOk, hs, hd]) ho]
  unfold wireTcp4 Checksum.pseudo4
  rw [tcp_zeroAt h, hlen]
  have h1 := checksum_insert_zero
    (src ++ dst ++ [0, 6] ++ enc16 (h.headerLen + p.length) ++
      (enc16 h.sp ++ enc16 h.dp ++ enc32 h.seq ++ enc32 h.ack ++ [u8 h.byte12, u8 h.byte13] ++ enc16 h.win))
    (enc16 h.urgp ++ h.opts.asSlice ++ p)
    (by simp only [List.length_append, enc16_len, enc32_len, hs, hd, List.length_cons, List.length_nil])
  simp only [List.cons_append, List.nil_append, List.flatten_cons, List.flatten_nil, List.append_nil,
    List.append_assoc, Tcp.headerLen, u8] at h1 ⊢
  exact h1.symm

/-- **TCP over IPv6** (`TcpHeader::calc_checksum_ipv6_raw`: 32 bit length, then `[0, 6]`): the RFC 8200 8.1
    pseudo header form `wireTcp6`, for every segment length -/
theorem tcp6_chain_is_wire (h : Tcp) (src dst p : Bytes) (hw : h.WF) (hs : src.length = 16) (hd : dst.length = 16) :
    tcpPostIp h (split16 src ++ split16 dst ++ [enc32 (h.headerLen + p.length), [0, 6]]) p
      = wireTcp6 src dst (Tcp.toBytes h) p := by
  have ho : h.opts.asSlice.length % 2 = 0 := by
    obtain ⟨_, _, _, _, _, _, _, ho1, ho2, ho3, _⟩ := hw
    simp only [TcpOpts.asSlice, List.length_take, ho3]; omega
  have hlen := EpModel.Props.C08Link.Tcp.toBytes_length h hw
  simp only [tcpPostIp]
  rw [chain_eq2 _ _ _ (by simp [PartOk, split16, hs, hd]) ho]
  unfold wireTcp6 Checksum.pseudo6
  rw [tcp_zeroAt h, hlen]
  -- the crate's words [0, 6] against the RFC's [0, 0, 0, 6]
  have h2 := checksum_swap_mid (src ++ dst ++ enc32 (h.headerLen + p.length)) [0, 6] [0, 0, 0, u8 6]
    (enc16 h.sp ++ enc16 h.dp ++ enc32 h.seq ++ enc32 h.ack ++ [u8 h.byte12, u8 h.byte13] ++ enc16 h.win
      ++ (enc16 h.urgp ++ h.opts.asSlice ++ p))
    (by simp [hs, hd, enc32_len]) (by simp) (by simp) (by simp [Spec.beWords, u8])
  have h1 := checksum_insert_zero
    (src ++ dst ++ enc32 (h.headerLen + p.length) ++ [0, 0, 0, u8 6] ++
      (enc16 h.sp ++ enc16 h.dp ++ enc32 h.seq ++ enc32 h.ack ++ [u8 h.byte12, u8 h.byte13] ++ enc16 h.win))
    (enc16 h.urgp ++ h.opts.asSlice ++ p)
    (by simp only [List.length_append, enc16_len, enc32_len, hs, hd, List.length_cons, List.length_nil])
  simp only [List.flatten_append, List.append_assoc] at h1 h2 ⊢
  rw [split16_flatten, split16_flatten]
  simp only [List.cons_append, List.nil_append, List.flatten_cons, List.flatten_nil, List.append_nil,
    List.append_assoc, Tcp.headerLen, u8] at h1 h2 ⊢
  rw [h2, ← h1]

/-- **IPv4 header checksum** (`Ipv4Header::calc_header_checksum`): RFC 791 over the header bytes with a zeroed
    checksum field, for every well-formed header (options included, whatever checksum is stored) -/
theorem ipv4_chain_is_wire (h : Ipv4Header) (wf : h.WF) : h.calcHeaderChecksum = wireIpv4 h.toBytes := by
  have hs := wf.2.2.2.2.2.2.2.2.1
  have hd := wf.2.2.2.2.2.2.2.2.2.1
  rw [ipv4_header_words h hs hd, EpModel.Lemmas.CodecNet.Ipv4.toBytes_eq h wf]
  unfold wireIpv4
  have hz := zeroAt_append
    [u8 ((4 <<< 4) ||| h.ihl), u8 (shl8 h.dscp 2 ||| h.ecn), u8 (h.totalLen / 256), u8 h.totalLen,
     u8 (h.identification / 256), u8 h.identification, u8 h.fragAndFlags.1, u8 h.fragAndFlags.2,
     u8 h.timeToLive, u8 h.protocol]
    [u8 (h.headerChecksum / 256), u8 h.headerChecksum] (h.source ++ h.destination ++ h.options) rfl
  have e : h.fixedPart h.headerChecksum ++ h.options =
      [u8 ((4 <<< 4) ||| h.ihl), u8 (shl8 h.dscp 2 ||| h.ecn), u8 (h.totalLen / 256), u8 h.totalLen,
       u8 (h.identification / 256), u8 h.identification, u8 h.fragAndFlags.1, u8 h.fragAndFlags.2,
       u8 h.timeToLive, u8 h.protocol] ++ [u8 (h.headerChecksum / 256), u8 h.headerChecksum]
        ++ (h.source ++ h.destination ++ h.options) := by
    simp [Ipv4Header.fixedPart, List.append_assoc]
  rw [e]
  simp only [List.length_cons, List.length_nil] at hz
  rw [hz]
  have h1 := checksum_insert_zero
    [u8 ((4 <<< 4) ||| h.ihl), u8 (shl8 h.dscp 2 ||| h.ecn), u8 (h.totalLen / 256), u8 h.totalLen,
     u8 (h.identification / 256), u8 h.identification, u8 h.fragAndFlags.1, u8 h.fragAndFlags.2,
     u8 h.timeToLive, u8 h.protocol] (h.source ++ h.destination ++ h.options) (by simp)
  rw [h1]
  simp [enc16, List.append_assoc]

/-- **ICMPv4** (`Icmpv4Type::calc_checksum`, per variant the `add_2bytes` / `add_4bytes` calls of `icmp4Parts`):
    RFC 792 over the whole message - header bytes with a zeroed checksum field, then the payload -/
theorem icmp4_chain_is_wire (t : Icmp4Type) (ck : Nat) (p : Bytes) (ok : icmp4LenOk t) :
    icmp4Checksum t p = wireIcmp4 (Icmp4.toBytes ⟨t, ck⟩ ++ p) := by
  obtain ⟨hw, he1, he2⟩ := icmp4_parts_words t ck ok
  rw [icmp4_words t p ok]
  unfold wireIcmp4
  have h4 : 2 + 2 ≤ (Icmp4.toBytes ⟨t, ck⟩).length := by
    have := he2
    cases t <;> simp [Icmp4.toBytes, Icmp4.re4u8, Icmp4.re2u16, Icmp4.reZero, Icmp4.reTimestamp, Codec.zeros] <;>
      (try split) <;> (try simp) <;> omega
  rw [zeroAt_append_right _ _ _ _ h4]
  apply checksum_congr
  rw [Lemmas.Builder.beWords_append_even _ _ he1, Lemmas.Builder.beWords_append_even _ _ he2, hw]

/-- **ICMPv6** (`Icmpv6Type::calc_checksum`; the chain of `ck6 (.icmp6 h)`): RFC 4443 2.3 - the RFC 8200
    pseudo header with the 32 bit message length and next header 58, the header bytes with a zeroed checksum
    field, the payload; for every message length -/
theorem icmp6_chain_is_wire (h : Icmp6) (ip : Ipv6Header) (p : Bytes) (hs : ip.source.length = 16)
    (hd : ip.destination.length = 16) (ok : icmp6LenOk h.ty) :
    ck6 (.icmp6 h) ip p = wireIcmp6 ip.source ip.destination (Icmp6.toBytes h ++ p) := by
  obtain ⟨hw, he1, he2⟩ := icmp6_parts_words h.ty h.ck ok
  have hh : (⟨h.ty, h.ck⟩ : Icmp6) = h := by cases h; rfl
  rw [hh] at hw he2
  rw [icmp6_words h ip p hs hd ok]
  unfold wireIcmp6 Checksum.pseudo6
  have hlen : (Icmp6.toBytes h).length = 8 := by
    have := zeroAt_length (Icmp6.toBytes h) 2 2
    by_cases hx : 2 + 2 ≤ (Icmp6.toBytes h).length
    · rw [← this hx]; exact he2
    · exfalso
      unfold zeroAt at he2
      simp at he2
      omega
  rw [zeroAt_append_right _ _ _ _ (by omega), List.length_append, hlen]
  apply checksum_congr
  have e8 : (8 + p.length) = (p.length + 8) := by omega
  rw [e8]
  have ea : (ip.source ++ ip.destination ++ [0, 58] ++ enc32 (p.length + 8)).length % 2 = 0 := by
    simp [hs, hd, enc32_len]
  have eb : (ip.source ++ ip.destination ++ enc32 (p.length + 8) ++ [0, 0, 0, u8 58]).length % 2 = 0 := by
    simp [hs, hd, enc32_len]
  have esd : (ip.source ++ ip.destination).length % 2 = 0 := by simp [hs, hd]
  have hAB : Spec.beWords (ip.source ++ ip.destination ++ [0, 58] ++ enc32 (p.length + 8)) =
      Spec.beWords (ip.source ++ ip.destination ++ enc32 (p.length + 8) ++ [0, 0, 0, u8 58]) := by
    rw [List.append_assoc _ [0, 58], List.append_assoc _ (enc32 _),
      Lemmas.Builder.beWords_append_even _ _ esd, Lemmas.Builder.beWords_append_even _ _ esd]
    simp [Spec.beWords, enc32, u8]
    omega
  rw [List.append_assoc _ _ p,
    Lemmas.Builder.beWords_append_even _ _ ea, Lemmas.Builder.beWords_append_even _ _ eb,
    Lemmas.Builder.beWords_append_even _ _ he1, Lemmas.Builder.beWords_append_even _ _ (by omega : (zeroAt (Icmp6.toBytes h) 2 2).length % 2 = 0), hw, hAB]

/-- **IGMP** (`IgmpHeader::calc_checksum`, all seven message kinds): RFC 1071 over the whole message - header bytes
    with a zeroed checksum field, then the payload (RFC 2236 / 9776) -/
theorem igmp_chain_is_wire (t : IgmpType) (ck : Nat) (p : Bytes) (wf : Igmp.IgmpType.WF t) :
    igmpChecksum t p = wireIgmp (Igmp.toBytes ⟨t, ck⟩ ++ p) := by
  obtain ⟨hw, he1, he2, h4⟩ := igmp_parts_words t ck wf
  unfold igmpChecksum wireIgmp
  rw [chain_eq _ _ (igmp_parts_ok t wf), zeroAt_append_right _ _ _ _ h4]
  apply checksum_congr
  rw [Lemmas.Builder.beWords_append_even _ _ he1, Lemmas.Builder.beWords_append_even _ _ he2, hw]

/-- the hypotheses are met by real values: a UDP header with ports 1 / 2, length field 10 and two payload
    bytes over 10.0.0.1 → 10.0.0.2 (both sides evaluate to 0x4007 with `#eval`; the kernel does not unfold the
    well-founded recursion of the accumulators, so the number is not part of the example) -/
example : ({ sp := 1, dp := 2, len := 10, ck := 0 } : Udp).len = 8 + ([0xab, 0xcd] : Bytes).length ∧
    ([10, 0, 0, 1] : Bytes).length = 4 ∧ ([10, 0, 0, 2] : Bytes).length = 4 := by decide

example : udpPostIp { sp := 1, dp := 2, len := 10, ck := 0 } [[10, 0, 0, 1], [10, 0, 0, 2], [0, 17], enc16 10] [0xab, 0xcd]
    = wireUdp4 [10, 0, 0, 1] [10, 0, 0, 2] (Udp.toBytes { sp := 1, dp := 2, len := 10, ck := 0 }) [0xab, 0xcd] :=
  udp4_chain_is_wire _ _ _ _ rfl rfl rfl

end EpModel.Props.C09
