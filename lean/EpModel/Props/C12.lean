import EpModel.Model.Ipv6Exts
import EpModel.Model.Ipv4Exts
import EpModel.Spec.Rfc8200Order
namespace EpModel.C12
open EpModel EpModel.Ext

theorem placeholder : True := trivial

end EpModel.C12
