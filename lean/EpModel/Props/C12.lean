/-
  Property C12 — extension-header chain bookkeeping is self-consistent.

  Model: EpModel/Model/Ipv6Exts.lean, Ipv4Exts.lean (the five walkers of `Ipv6Extensions` /
  `Ipv4Extensions`, each following its Rust function); Spec: EpModel/Spec/Rfc8200Order.lean
  (declarative walk, RFC 8200 order); helper lemmas: EpModel/Lemmas/Ext.lean.

  The presence pattern of a struct is finite, the `next_header` values, payloads and fields are
  universally quantified in every theorem below.
-/
import EpModel.Lemmas.Ext
namespace EpModel.Props.C12
open EpModel EpModel.Ext EpModel.Spec.Ext

/-! ## Ipv6Extensions -/

/-- `write` and `next_header` agree on EVERY struct (consistent or not) and every first header:
    `write` returns exactly the verdict of `next_header` (same error value), in particular it
    succeeds exactly when the walk succeeds. -/
theorem write_iff_walk (e : Exts) (first : Nat) :
    (e.write first).2 = (e.nextHeader first).map (fun _ => ()) ∧
    ((e.write first).2.isOk = (e.nextHeader first).isOk) :=
  ⟨write_snd_eq e first, write_isOk_eq e first⟩

/-- no `unwrap()` of the two walkers can fail: neither `next_header` nor `write` panics, for any
    struct and any first header (the no-panic half of "reported as errors, never by panicking"). -/
theorem walkers_never_panic (e : Exts) (first : Nat) :
    e.nextHeader first ≠ .error .panic ∧ (e.write first).2 ≠ .error .panic := by
  have h := nextHeader_no_panic e first
  refine ⟨h, ?_⟩
  rw [write_snd_eq]
  cases hh : e.nextHeader first with
  | ok n => simp [Except.map]
  | error f => simp [Except.map]; intro hf; exact h (by rw [hh, hf])

/-- a successful `write` emits exactly `header_len()` bytes (type invariants of the stored headers
    assumed: payload length 6 + 8k ≤ 2046, ICV length 4k ≤ 1016). -/
theorem write_len (e : Exts) (hwf : e.WF) (first : Nat) (out : Bytes)
    (h : e.write first = (out, .ok ())) : out.length = e.headerLen :=
  write_len' e hwf first out h

/-- Linking with `set_next_headers(n)` and walking from the returned first number gives `n`,
    `write` succeeds and emits the present headers in the RFC 8200 order, and that chain is a
    declarative walk (Spec) from the returned first number to `n`.
    Holds for every `n` (in particular for every `n` that is not an extension header number). -/
theorem link_then_walk (e e' : Exts) (n first' : Nat) (h : e.setNextHeaders n = (e', first')) :
    e'.nextHeader first' = .ok n ∧
    e'.write first' = (serialise e'.rfcChain, .ok ()) ∧
    Walk first' e'.rfcChain n ∧ InRfcOrder e'.rfcChain :=
  ⟨link_walk_all e e' n first' h, (link_write_order e e' n first' h).1, (link_write_order e e' n first' h).2,
   rfcChain_inOrder e'⟩

/-- the statement in the shape of the property text. -/
theorem link_then_walk_non_ext (e : Exts) (n : Nat) (_hn : isIpv6ExtHeaderValue n = false) :
    (e.setNextHeaders n).1.nextHeader (e.setNextHeaders n).2 = .ok n :=
  link_walk_all e _ n _ rfl

/-- Decoding what `write` emitted (followed by any `tail`) gives back the same struct, the number
    the walk ends in, and the untouched tail -- for EVERY chain order `write` accepts, under the
    type invariants of the stored headers, when the final number is not one of the five numbers
    the decoder itself consumes (otherwise it would go on decoding `tail`). -/
theorem write_decode (e : Exts) (hwf : e.WF) (first : Nat) (out : Bytes) (last : Nat) (tail : Bytes)
    (hw : e.write first = (out, .ok ()))
    (hn : e.nextHeader first = .ok last)
    (hl : isWalked last = false) :
    Exts.fromSlice first (out ++ tail) = .ok (e, last, tail) :=
  write_decode' e hwf first out last tail hw hn hl

/-- the same for a final number that is not an IPv6 extension header number (property text). -/
theorem write_decode_non_ext (e : Exts) (hwf : e.WF) (first : Nat) (out : Bytes) (last : Nat) (tail : Bytes)
    (hw : e.write first = (out, .ok ()))
    (hn : e.nextHeader first = .ok last)
    (hl : isIpv6ExtHeaderValue last = false) :
    Exts.fromSlice first (out ++ tail) = .ok (e, last, tail) := by
  apply write_decode' e hwf first out last tail hw hn
  simp [isIpv6ExtHeaderValue, isWalked] at hl ⊢
  omega

/-- No header is silently dropped: if the walk succeeds with `n`, the present headers can be
    arranged (each exactly once: a permutation of the present headers) into a chain that is a
    declarative walk (Spec) from `first` to `n`, and `write` emits exactly that chain. -/
theorem walk_ok_is_linked_permutation (e : Exts) (first n : Nat) (h : e.nextHeader first = .ok n) :
    ∃ chain, chain.Perm e.rfcChain ∧ Walk first chain n ∧ e.write first = (serialise chain, .ok ()) :=
  walk_ok_chain e first n h

/-- Inconsistent chains are errors of both walkers:
    (1) a present hop-by-hop header with a first number other than 0 gives `HopByHopNotAtStart`
        or `ExtNotReferenced(0)`;
    (2) a present header of kind `k` whose number is neither the first number nor the
        `next_header` of any present header makes `next_header` and `write` return the same
        error value. -/
theorem inconsistent_is_error (e : Exts) (first : Nat) :
    (∀ hd, e.hopByHopOptions = some hd → first ≠ 0 →
      e.nextHeader first = .error (.err .hopByHopNotAtStart) ∨
      e.nextHeader first = .error (.err (.extNotReferenced 0))) ∧
    (∀ k hd, e.hdr k = some hd → first ≠ k.ipNumber →
      (∀ k' hd', e.hdr k' = some hd' → hd'.next ≠ k.ipNumber) →
      ∃ w, e.nextHeader first = .error (.err w) ∧ (e.write first).2 = .error (.err w)) := by
  refine ⟨fun hd hh hf => hop_not_first_is_error e first hd hh hf, fun k hd hk h1 h2 => ?_⟩
  obtain ⟨w, hw⟩ := unreferenced_is_error' e first k hd hk h1 h2
  exact ⟨w, hw, by rw [write_snd_eq, hw]; rfl⟩

/-- an error names a header that is present: `ExtNotReferenced(m)` only if a header with number `m`
    is stored in the struct, `HopByHopNotAtStart` only if a hop-by-hop header is stored and the
    first number is not 0. -/
theorem error_names_present_header (e : Exts) (first : Nat) :
    (∀ m, e.nextHeader first = .error (.err (.extNotReferenced m)) →
      ∃ k hd, e.hdr k = some hd ∧ k.ipNumber = m) ∧
    (e.nextHeader first = .error (.err .hopByHopNotAtStart) →
      e.hopByHopOptions.isSome = true ∧ first ≠ 0) :=
  ⟨fun m h => error_names_present' e first m h, fun h => hopByHopNotAtStart_means' e first h⟩

/-- `from_slice` never panics: neither the `unwrap()` in `to_header` nor the `usize` subtraction
    `slice.len() - rest.len()` of the error offsets can fail (any first number, any bytes). -/
theorem from_slice_never_panics (first : Nat) (slice : Bytes) :
    Exts.fromSlice first slice ≠ .error .panic :=
  fromSlice_no_panic first slice

/-- whatever `from_slice` accepts: the returned rest is the input behind exactly `header_len()` of
    the decoded struct (nothing skipped, nothing read twice). -/
theorem from_slice_window (first : Nat) (slice : Bytes) (e : Exts) (n : Nat) (rest : Bytes)
    (h : Exts.fromSlice first slice = .ok (e, n, rest)) :
    ∃ pre, slice = pre ++ rest ∧ pre.length = e.headerLen :=
  fromSlice_window first slice e n rest h

/-- The lax copy of the decoder (`from_slice_lax`) agrees with the strict one on every input: the
    same struct, number and rest when the strict one succeeds; when it fails, the strict error value
    is the one reported (next to what was decoded so far and the layer); and it never panics. -/
theorem lax_extends_strict (first : Nat) (slice : Bytes) :
    (∀ e n rest, Exts.fromSlice first slice = .ok (e, n, rest) →
      Exts.fromSliceLax first slice = .ok (e, n, rest, none)) ∧
    (∀ er, Exts.fromSlice first slice = .error (.err er) →
      ∃ e n rest layer, Exts.fromSliceLax first slice = .ok (e, n, rest, some (er, layer))) ∧
    (∃ r, Exts.fromSliceLax first slice = .ok r) := by
  have h := lax_agrees first slice
  refine ⟨fun e n rest hs => ?_, fun er hs => ?_, fromSliceLax_no_panic first slice⟩
  · rw [hs] at h; exact h
  · rw [hs] at h; exact h

/-- The property's first two sentences in one statement: link any well-formed struct to a number
    `n` that is not an extension header number, serialise it from the returned first number, append
    any tail and decode: the RFC 8200 ordered bytes decode to the same struct, `n` and the tail. -/
theorem link_write_decode (e e' : Exts) (n first' : Nat) (tail : Bytes) (hwf : e.WF) (hn : n < 256)
    (hne : isIpv6ExtHeaderValue n = false) (h : e.setNextHeaders n = (e', first')) :
    Exts.fromSlice first' (serialise e'.rfcChain ++ tail) = .ok (e', n, tail) ∧
    (serialise e'.rfcChain).length = e'.headerLen ∧ e'.headerLen = e.headerLen := by
  obtain ⟨h1, h2, _, _⟩ := link_then_walk e e' n first' h
  have hwf' := setNextHeaders_WF e e' n first' hn hwf h
  refine ⟨write_decode_non_ext e' hwf' first' _ n tail h2 h1 hne, write_len e' hwf' first' _ h2, ?_⟩
  clear h1 h2 hwf' hwf
  rcases e with ⟨_ | a, _ | b, _ | ⟨c, _ | d⟩, _ | f, _ | g⟩ <;>
    simp [Exts.setNextHeaders] at h <;> obtain ⟨rfl, rfl⟩ := h <;>
    simp [Exts.headerLen, Raw.headerLen, Raw.headerLength, Frag.headerLen, Auth.headerLen, Auth.rawIcvLen]

/-- `set_next_headers` does not change whether the payload is fragmented. -/
theorem link_keeps_is_fragmenting_payload (e : Exts) (n : Nat) :
    (e.setNextHeaders n).1.isFragmentingPayload = e.isFragmentingPayload :=
  setNextHeaders_isFrag e n

/-! ## Ipv4Extensions (single authentication header) -/

theorem v4_write_iff_walk (e : Exts4) (first : Nat) :
    (e.write first).2 = (e.nextHeader first).map (fun _ => ()) := by
  rcases e with ⟨_ | a⟩ <;> simp [Exts4.write, Exts4.nextHeader, Except.map]
  split <;> rename_i h
  · simp [h]
  · have : ¬ first = 51 := fun h' => h h'.symm
    simp [this]

theorem v4_walkers_never_panic (e : Exts4) (first : Nat) :
    e.nextHeader first ≠ .error .panic ∧ (e.write first).2 ≠ .error .panic := by
  rcases e with ⟨_ | a⟩ <;> simp [Exts4.write, Exts4.nextHeader] <;> constructor <;> split <;> simp

theorem v4_write_len (e : Exts4) (hwf : e.WF) (first : Nat) (out : Bytes)
    (h : e.write first = (out, .ok ())) : out.length = e.headerLen := by
  rcases e with ⟨_ | a⟩ <;> simp [Exts4.write, Exts4.headerLen] at *
  · simp [← h]
  · split at h <;> simp at h
    rw [← h]; exact Auth.toBytes_length a hwf

theorem v4_link_then_walk (e e' : Exts4) (n first' : Nat) (h : e.setNextHeaders n = (e', first')) :
    e'.nextHeader first' = .ok n ∧
    e'.write first' = ((match e'.auth with | some a => a.toBytes | none => []), .ok ()) := by
  rcases e with ⟨_ | a⟩ <;> simp [Exts4.setNextHeaders] at h <;> obtain ⟨rfl, rfl⟩ := h <;>
    simp [Exts4.nextHeader, Exts4.write]

/-- v4: decoding what `write` emitted returns the struct, the walk result and the tail (an absent
    auth header with first number 51 is excluded: the decoder would parse `tail` as a header). -/
theorem v4_write_decode (e : Exts4) (hwf : e.WF) (first : Nat) (out : Bytes) (last : Nat) (tail : Bytes)
    (hw : e.write first = (out, .ok ()))
    (hn : e.nextHeader first = .ok last)
    (hc : e.auth.isSome = true ∨ first ≠ AUTH) :
    Exts4.fromSlice first (out ++ tail) = .ok (e, last, tail) := by
  rcases e with ⟨_ | a⟩
  · simp [Exts4.write] at hw
    simp [Exts4.nextHeader] at hn
    subst hw hn
    simp at hc
    simp [Exts4.fromSlice, Ne.symm hc]
  · simp only [Exts4.write] at hw
    split at hw
    · rename_i h51
      simp at hw
      subst hw
      simp [Exts4.nextHeader, h51.symm] at hn
      obtain ⟨h1, h2, h3, h4⟩ := auth_roundtrip (ε := AuthSliceErr) a hwf tail
      simp [Exts4.fromSlice, h51, h1, h2, h3, h4, hn]
    · simp at hw

/-- v4: a present auth header that is not referenced is the error `ExtNotReferenced(51)` of both
    walkers, and that is the only error. -/
theorem v4_inconsistent_is_error (e : Exts4) (first : Nat) :
    (∀ a, e.auth = some a → first ≠ AUTH →
      e.nextHeader first = .error (.err (.extNotReferenced AUTH)) ∧
      e.write first = ([], .error (.err (.extNotReferenced AUTH)))) ∧
    (∀ f, e.nextHeader first = .error f → f = .err (.extNotReferenced AUTH) ∧ e.auth.isSome = true ∧ first ≠ AUTH) := by
  rcases e with ⟨_ | a⟩
  · simp [Exts4.nextHeader]
  · refine ⟨fun a' ha hf => ?_, fun f hf => ?_⟩
    · simp [Exts4.nextHeader, Exts4.write, hf, Ne.symm hf]
    · simp only [Exts4.nextHeader] at hf
      split at hf
      · simp at hf
      · rename_i h; simp at hf; exact ⟨hf.symm, rfl, h⟩

/-- v4: `from_slice` never reaches the `unwrap()` in `to_header`. -/
theorem v4_from_slice_never_panics (first : Nat) (slice : Bytes) :
    Exts4.fromSlice first slice ≠ .error .panic := by
  unfold Exts4.fromSlice
  split
  · split
    · simp
    · rename_i len hl
      obtain ⟨a, ha⟩ := authToHeader_ok (ε := AuthSliceErr) _ _ hl
      simp [ha]
  · simp

/-! ## ether type of the IP version -/

/-- `IpHeaders::set_next_headers` and `NetHeaders::try_set_next_headers` report the ether type of
    the header's IP version (0x0800 / 0x86DD), store the first number of the chain in the IP
    header, and keep the version. -/
theorem ether_type_of_version (h : IpHdrs) (n : Nat) :
    some (h.setNextHeaders n).2 = etherTypeOfVersion h.version ∧
    (h.setNextHeaders n).1.version = h.version ∧
    (NetHdrs.ip h).trySetNextHeaders n = .ok (.ip (h.setNextHeaders n).1, (h.setNextHeaders n).2) := by
  cases h <;> simp [IpHdrs.setNextHeaders, NetHdrs.trySetNextHeaders, IpHdrs.version, etherTypeOfVersion]

/-- the chain stored by `IpHeaders::set_next_headers` walks to `n` (`IpHeaders::next_header`). -/
theorem ip_link_then_walk (h : IpHdrs) (n : Nat) : (h.setNextHeaders n).1.nextHeader = .ok n := by
  cases h with
  | ipv4 p x =>
    simp only [IpHdrs.setNextHeaders]
    generalize hx : x.setNextHeaders n = r
    obtain ⟨x', f'⟩ := r
    have := (v4_link_then_walk x x' n f' hx).1
    simp [IpHdrs.nextHeader, this]
  | ipv6 p x =>
    simp only [IpHdrs.setNextHeaders]
    generalize hx : x.setNextHeaders n = r
    obtain ⟨x', f'⟩ := r
    have := link_walk_all x x' n f' hx
    simp [IpHdrs.nextHeader, this]

/-! ## non-vacuity -/

/-- a struct with all six headers satisfying the type invariants. -/
def sample : Exts :=
  { hopByHopOptions := some ⟨60, [1, 2, 3, 4, 5, 6]⟩
    destinationOptions := some ⟨43, [0, 0, 0, 0, 0, 0, 0, 0, 0, 0, 0, 0, 0, 9]⟩
    routing := some ⟨⟨44, [7, 7, 7, 7, 7, 7]⟩, some ⟨17, [8, 8, 8, 8, 8, 8]⟩⟩
    fragment := some ⟨51, 5, true, 99⟩
    auth := some ⟨60, 1, 2, [0xaa, 0xbb, 0xcc, 0xdd]⟩ }

example : sample.WF := by decide
example : isIpv6ExtHeaderValue 17 = false := by decide
example : (sample.setNextHeaders 17).2 = 0 := by decide
example : isWalked 17 = false := by decide
/-- the hypotheses of `write_decode` / `write_len` are satisfiable: the linked sample is written. -/
example : ∃ out, (sample.setNextHeaders 17).1.write (sample.setNextHeaders 17).2 = (out, .ok ()) ∧
    (sample.setNextHeaders 17).1.nextHeader (sample.setNextHeaders 17).2 = .ok 17 :=
  ⟨_, (link_then_walk sample _ 17 _ rfl).2.1, (link_then_walk sample _ 17 _ rfl).1⟩
/-- an inconsistent struct (fragment header never referenced) for `inconsistent_is_error` (2). -/
example : ({ Exts.empty with fragment := some ⟨17, 0, false, 1⟩ } : Exts).hdr .fragment = some ⟨.fragment, 17, [17, 0, 0, 0, 0, 0, 0, 1]⟩ := by
  decide
/-- … and the hypotheses of `inconsistent_is_error` (2) hold for it with first number 17: the
    fragment header's number 44 is neither the first number nor any stored `next_header`. -/
def fragOnly : Exts := { Exts.empty with fragment := some ⟨17, 0, false, 1⟩ }
example : ∀ k' hd', fragOnly.hdr k' = some hd' → hd'.next ≠ Kind.fragment.ipNumber := by
  intro k' hd' h
  cases k' <;> simp [fragOnly, Exts.hdr, Exts.empty, Exts.finalDest] at h
  subst h; decide
example : ∃ w, fragOnly.nextHeader 17 = .error (.err w) ∧ (fragOnly.write 17).2 = .error (.err w) := by
  refine (inconsistent_is_error fragOnly 17).2 .fragment ⟨.fragment, 17, [17, 0, 0, 0, 0, 0, 0, 1]⟩ (by decide) (by decide) ?_
  intro k' hd' h
  cases k' <;> simp [fragOnly, Exts.hdr, Exts.empty, Exts.finalDest] at h
  subst h; decide
example : (Exts4.mk (some ⟨6, 1, 2, []⟩)).WF := by decide

end EpModel.Props.C12
