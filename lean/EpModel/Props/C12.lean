/-
  Property C12 — extension-header chain bookkeeping is self-consistent.

  Model: EpModel/Model/Ipv6Exts.lean, Ipv4Exts.lean (the five walkers of `Ipv6Extensions` /
  `Ipv4Extensions`, each following its Rust function); Spec: EpModel/Spec/Rfc8200Order.lean
  (declarative walk, RFC 8200 order); helper lemmas: EpModel/Lemmas/Ext.lean.

  The presence pattern of a struct is finite, the `next_header` values, payloads and fields are
  universally quantified in every theorem below.
-/
import EpModel.Lemmas.Ext
namespace EpModel.C12
open EpModel EpModel.Ext EpModel.Spec.Ext

/-! ## Ipv6Extensions -/

/-- `write` and `next_header` agree on EVERY struct (consistent or not) and every first header:
    `write` returns exactly the verdict of `next_header` (same error value), in particular it
    succeeds exactly when the walk succeeds. -/
theorem write_iff_walk (e : Exts) (first : Nat) :
    (e.write first).2 = (e.nextHeader first).map (fun _ => ()) ∧
    ((e.write first).2.isOk = (e.nextHeader first).isOk) :=
  ⟨write_snd_eq e first, write_isOk_eq e first⟩

/-- no `unwrap()` of the two walkers can fail: neither `next_header` nor `write` panics, for any
    struct and any first header (the no-panic half of "reported as errors, never by panicking"). -/
theorem walkers_never_panic (e : Exts) (first : Nat) :
    e.nextHeader first ≠ .error .panic ∧ (e.write first).2 ≠ .error .panic := by
  have h := nextHeader_no_panic e first
  refine ⟨h, ?_⟩
  rw [write_snd_eq]
  cases hh : e.nextHeader first with
  | ok n => simp [Except.map]
  | error f => simp [Except.map]; intro hf; exact h (by rw [hh, hf])

/-- a successful `write` emits exactly `header_len()` bytes (type invariants of the stored headers
    assumed: payload length 6 + 8k ≤ 2046, ICV length 4k ≤ 1016). -/
theorem write_len (e : Exts) (hwf : e.WF) (first : Nat) (out : Bytes)
    (h : e.write first = (out, .ok ())) : out.length = e.headerLen :=
  write_len' e hwf first out h

/-- Linking with `set_next_headers(n)` and walking from the returned first number gives `n`,
    `write` succeeds and emits the present headers in the RFC 8200 order, and that chain is a
    declarative walk (Spec) from the returned first number to `n`.
    Holds for every `n` (in particular for every `n` that is not an extension header number). -/
theorem link_then_walk (e e' : Exts) (n first' : Nat) (h : e.setNextHeaders n = (e', first')) :
    e'.nextHeader first' = .ok n ∧
    e'.write first' = (serialise e'.rfcChain, .ok ()) ∧
    Walk first' e'.rfcChain n ∧ InRfcOrder e'.rfcChain :=
  ⟨link_walk_all e e' n first' h, (link_write_order e e' n first' h).1, (link_write_order e e' n first' h).2,
   rfcChain_inOrder e'⟩

/-- the statement in the shape of the property text. -/
theorem link_then_walk_non_ext (e : Exts) (n : Nat) (_hn : isIpv6ExtHeaderValue n = false) :
    (e.setNextHeaders n).1.nextHeader (e.setNextHeaders n).2 = .ok n :=
  link_walk_all e _ n _ rfl

/-! ## Ipv4Extensions (single authentication header) -/

theorem v4_write_iff_walk (e : Exts4) (first : Nat) :
    (e.write first).2 = (e.nextHeader first).map (fun _ => ()) := by
  rcases e with ⟨_ | a⟩ <;> simp [Exts4.write, Exts4.nextHeader, Except.map]
  split <;> rename_i h
  · simp [h]
  · have : ¬ first = 51 := fun h' => h h'.symm
    simp [this]

theorem v4_walkers_never_panic (e : Exts4) (first : Nat) :
    e.nextHeader first ≠ .error .panic ∧ (e.write first).2 ≠ .error .panic := by
  rcases e with ⟨_ | a⟩ <;> simp [Exts4.write, Exts4.nextHeader] <;> constructor <;> split <;> simp

theorem v4_write_len (e : Exts4) (hwf : e.WF) (first : Nat) (out : Bytes)
    (h : e.write first = (out, .ok ())) : out.length = e.headerLen := by
  rcases e with ⟨_ | a⟩ <;> simp [Exts4.write, Exts4.headerLen] at *
  · simp [← h]
  · split at h <;> simp at h
    rw [← h]; exact Auth.toBytes_length a hwf

theorem v4_link_then_walk (e e' : Exts4) (n first' : Nat) (h : e.setNextHeaders n = (e', first')) :
    e'.nextHeader first' = .ok n ∧
    e'.write first' = ((match e'.auth with | some a => a.toBytes | none => []), .ok ()) := by
  rcases e with ⟨_ | a⟩ <;> simp [Exts4.setNextHeaders] at h <;> obtain ⟨rfl, rfl⟩ := h <;>
    simp [Exts4.nextHeader, Exts4.write]

/-! ## ether type of the IP version -/

/-- version of an IP header set. -/
def version : IpHdrs → Nat
  | .ipv4 _ _ => 4
  | .ipv6 _ _ => 6

/-- `IpHeaders::set_next_headers` and `NetHeaders::try_set_next_headers` report the ether type of
    the header's IP version (0x0800 / 0x86DD), store the first number of the chain in the IP
    header, and keep the version. -/
theorem ether_type_of_version (h : IpHdrs) (n : Nat) :
    some (h.setNextHeaders n).2 = etherTypeOfVersion (version h) ∧
    version (h.setNextHeaders n).1 = version h ∧
    (NetHdrs.ip h).trySetNextHeaders n = .ok (.ip (h.setNextHeaders n).1, (h.setNextHeaders n).2) := by
  cases h <;> simp [IpHdrs.setNextHeaders, NetHdrs.trySetNextHeaders, version, etherTypeOfVersion]

/-- the chain stored by `IpHeaders::set_next_headers` walks to `n` (`IpHeaders::next_header`). -/
theorem ip_link_then_walk (h : IpHdrs) (n : Nat) : (h.setNextHeaders n).1.nextHeader = .ok n := by
  cases h with
  | ipv4 p x =>
    simp only [IpHdrs.setNextHeaders]
    generalize hx : x.setNextHeaders n = r
    obtain ⟨x', f'⟩ := r
    have := (v4_link_then_walk x x' n f' hx).1
    simp [IpHdrs.nextHeader, this]
  | ipv6 p x =>
    simp only [IpHdrs.setNextHeaders]
    generalize hx : x.setNextHeaders n = r
    obtain ⟨x', f'⟩ := r
    have := link_walk_all x x' n f' hx
    simp [IpHdrs.nextHeader, this]

/-! ## non-vacuity -/

/-- a struct with all six headers satisfying the type invariants. -/
def sample : Exts :=
  { hopByHopOptions := some ⟨60, [1, 2, 3, 4, 5, 6]⟩
    destinationOptions := some ⟨43, [0, 0, 0, 0, 0, 0, 0, 0, 0, 0, 0, 0, 0, 9]⟩
    routing := some ⟨⟨44, [7, 7, 7, 7, 7, 7]⟩, some ⟨17, [8, 8, 8, 8, 8, 8]⟩⟩
    fragment := some ⟨51, 5, true, 99⟩
    auth := some ⟨60, 1, 2, [0xaa, 0xbb, 0xcc, 0xdd]⟩ }

example : sample.WF := by decide
example : isIpv6ExtHeaderValue 17 = false := by decide
example : (sample.setNextHeaders 17).2 = 0 := by decide

end EpModel.C12
