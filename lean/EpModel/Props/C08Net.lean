import EpModel.Lemmas.CodecNetIpv6
import EpModel.Lemmas.CodecNetIpv6Frag
import EpModel.Lemmas.CodecNetIpv4
import EpModel.Lemmas.CodecNetAuth
import EpModel.Lemmas.CodecNetRawExt
import EpModel.Model.Codec.NetIpv4Exts
/-
  C08 (network-layer half) — every header value survives encode → decode unchanged.

  Models: EpModel.Model.Codec.Net{Ipv6,Ipv6Frag,Ipv4,Auth,RawExt} (net/*.rs, struct and slice
  types).  Per type T:
    encoders_agree  WF h → all serialisers the type has (to_bytes, write into a Vec, for IPv4 also
                    write_raw) give the same bytes, of length header_len()        [none of these five
                    types has a write_to_slice]
    decode_encode   WF h → from_slice (to_bytes h ++ tail) = Ok (h, tail)
    encode_decode   from_slice b = Ok (h, rest) → to_bytes h = maskReserved T (first header_len bytes
                    of b) ∧ from_slice (to_bytes h ++ rest) = Ok (h, rest)
    slice_eq_struct THeaderSlice::from_slice(b).to_header() = THeader::from_slice(b).0, and the
                    slice covers exactly the consumed bytes
  All statements are over every value / every byte string; no size bounds.
-/
namespace EpModel.Props.C08Net
open EpModel EpModel.CodecNet EpModel.Lemmas.CodecNet

/-! ## Ipv6Header -/
namespace Ipv6
open EpModel.Lemmas.CodecNet.Ipv6

/-- `to_bytes` and `write` produce the same 40 = `header_len()` bytes. -/
theorem encoders_agree (h : Ipv6Header) (wf : h.WF) :
    h.toBytes = h.writeOut ∧ h.toBytes.length = h.headerLen :=
  ⟨rfl, toBytes_length h wf⟩

/-- decoding the serialised header (followed by anything) returns the value and the untouched
    remainder. -/
theorem decode_encode (h : Ipv6Header) (tail : Bytes) (wf : h.WF) :
    Ipv6Header.fromSlice (h.toBytes ++ tail) = .ok (h, tail) := by
  unfold Ipv6Header.fromSlice
  rw [slice_of_toBytes h tail wf]
  simp only [toHeader_toBytes h wf]
  rw [List.drop_left' (toBytes_length h wf)]

/-- the IPv6 header has no reserved bits. -/
theorem maskReserved_id (b : Bytes) : maskReserved .ipv6 b = b := rfl

/-- re-encoding an accepted byte string reproduces its first 40 bytes exactly, and decoding the
    re-encoded bytes yields the same value and remainder again. -/
theorem encode_decode (b : Bytes) (h : Ipv6Header) (rest : Bytes)
    (hd : Ipv6Header.fromSlice b = .ok (h, rest)) :
    h.toBytes = maskReserved .ipv6 (b.take h.headerLen) ∧
      Ipv6Header.fromSlice (h.toBytes ++ rest) = .ok (h, rest) := by
  obtain ⟨hlen, hver, rfl, rfl⟩ := fromSlice_ok b h rest hd
  obtain ⟨b0, b, rfl⟩ := exists_cons b (by omega)
  obtain ⟨b1, b, rfl⟩ := exists_cons b (by simp at hlen; omega)
  obtain ⟨b2, b, rfl⟩ := exists_cons b (by simp at hlen; omega)
  obtain ⟨b3, b, rfl⟩ := exists_cons b (by simp at hlen; omega)
  obtain ⟨b4, b, rfl⟩ := exists_cons b (by simp at hlen; omega)
  obtain ⟨b5, b, rfl⟩ := exists_cons b (by simp at hlen; omega)
  obtain ⟨b6, b, rfl⟩ := exists_cons b (by simp at hlen; omega)
  obtain ⟨b7, b, rfl⟩ := exists_cons b (by simp at hlen; omega)
  simp at hlen hver
  have hr : (b.take 32).length = 32 := by simp; omega
  have key := toBytes_toHeader b0 b1 b2 b3 b4 b5 b6 b7 (b.take 32) hr hver
  simp only [maskReserved_id, Ipv6Header.headerLen, List.take_succ_cons, List.drop_succ_cons]
  refine ⟨key, ?_⟩
  exact decode_encode _ _ (toHeader_wf _ (by simp; omega))

/-- everything `from_slice` accepts decodes to an in-range value. -/
theorem decoded_wf (b : Bytes) (h : Ipv6Header) (rest : Bytes)
    (hd : Ipv6Header.fromSlice b = .ok (h, rest)) : h.WF := by
  obtain ⟨hlen, _, rfl, _⟩ := fromSlice_ok b h rest hd
  exact toHeader_wf _ (by simp; omega)

/-- the slice type and the struct decoder agree: same errors, `to_header()` is the decoded struct,
    the slice is exactly the consumed prefix and the rest starts behind it. -/
theorem slice_eq_struct (b : Bytes) :
    Ipv6Header.fromSlice b =
      (Ipv6HeaderSlice.fromSlice b).map (fun s => (s.toHeader, b.drop s.slice.length)) := by
  unfold Ipv6Header.fromSlice Ipv6HeaderSlice.fromSlice
  by_cases hlen : b.length < 40
  · simp [hlen, Except.map]
  · by_cases hver : 6 = bAt b 0 >>> 4
    · have : min 40 b.length = 40 := by omega
      simp [hlen, ← hver, Except.map, this]
    · simp [hlen, hver, Except.map]

/-- the slice accessors that are not struct fields are functions of the struct fields. -/
theorem slice_accessors (s : Ipv6HeaderSlice) :
    s.ecn = s.toHeader.trafficClass % 4 ∧ s.dscp = s.toHeader.trafficClass / 4 % 64 ∧
      s.headerLen = s.toHeader.headerLen := by
  simp [Ipv6HeaderSlice.ecn, Ipv6HeaderSlice.dscp, Ipv6HeaderSlice.toHeader,
    Ipv6HeaderSlice.headerLen, Ipv6Header.headerLen, and3, and63, Nat.shiftRight_eq_div_pow]

example : Ipv6Header.WF Ipv6Header.sampleMax := by decide
example : Ipv6Header.fromSlice (Ipv6Header.sampleMax.toBytes ++ [1, 2, 3]) =
    .ok (Ipv6Header.sampleMax, [1, 2, 3]) := by rfl

end Ipv6

/-! ## Ipv6FragmentHeader -/
namespace Ipv6Frag
open EpModel.Lemmas.CodecNet.Ipv6Frag

/-- `to_bytes` and `write` produce the same 8 = `header_len()` bytes. -/
theorem encoders_agree (h : Ipv6FragmentHeader) :
    h.toBytes = h.writeOut ∧ h.toBytes.length = h.headerLen :=
  ⟨rfl, rfl⟩

theorem decode_encode (h : Ipv6FragmentHeader) (tail : Bytes) (wf : h.WF) :
    Ipv6FragmentHeader.fromSlice (h.toBytes ++ tail) = .ok (h, tail) := by
  unfold Ipv6FragmentHeader.fromSlice
  rw [slice_of_toBytes h tail]
  simp only [toHeader_toBytes h wf]
  rw [List.drop_left' (toBytes_length h)]

/-- the reserved bits written out: byte 1 and bits 1–2 of byte 3 are cleared, nothing else. -/
theorem maskReserved_spec (b0 b1 b2 b3 b4 b5 b6 b7 : UInt8) :
    maskReserved .ipv6Frag [b0, b1, b2, b3, b4, b5, b6, b7]
      = [b0, 0, b2, u8 (b3.toNat &&& 0xf9), b4, b5, b6, b7] :=
  maskReserved_eq b0 b1 b2 b3 b4 b5 b6 b7

/-- re-encoding an accepted byte string reproduces its first 8 bytes except for the reserved
    byte/bits (which `to_bytes` writes as zero), and decoding again gives the same value. -/
theorem encode_decode (b : Bytes) (h : Ipv6FragmentHeader) (rest : Bytes)
    (hd : Ipv6FragmentHeader.fromSlice b = .ok (h, rest)) :
    h.toBytes = maskReserved .ipv6Frag (b.take h.headerLen) ∧
      Ipv6FragmentHeader.fromSlice (h.toBytes ++ rest) = .ok (h, rest) := by
  obtain ⟨hlen, rfl, rfl⟩ := fromSlice_ok b h rest hd
  refine ⟨?_, decode_encode _ _ (toHeader_wf _)⟩
  obtain ⟨b0, b, rfl⟩ := exists_cons b (by omega)
  obtain ⟨b1, b, rfl⟩ := exists_cons b (by simp at hlen; omega)
  obtain ⟨b2, b, rfl⟩ := exists_cons b (by simp at hlen; omega)
  obtain ⟨b3, b, rfl⟩ := exists_cons b (by simp at hlen; omega)
  obtain ⟨b4, b, rfl⟩ := exists_cons b (by simp at hlen; omega)
  obtain ⟨b5, b, rfl⟩ := exists_cons b (by simp at hlen; omega)
  obtain ⟨b6, b, rfl⟩ := exists_cons b (by simp at hlen; omega)
  obtain ⟨b7, b, rfl⟩ := exists_cons b (by simp at hlen; omega)
  simp only [Ipv6FragmentHeader.headerLen, List.take_succ_cons, List.take_zero]
  rw [toBytes_toHeader, maskReserved_eq]

theorem decoded_wf (b : Bytes) (h : Ipv6FragmentHeader) (rest : Bytes)
    (hd : Ipv6FragmentHeader.fromSlice b = .ok (h, rest)) : h.WF := by
  obtain ⟨_, rfl, _⟩ := fromSlice_ok b h rest hd
  exact toHeader_wf _

theorem slice_eq_struct (b : Bytes) :
    Ipv6FragmentHeader.fromSlice b =
      (Ipv6FragmentHeaderSlice.fromSlice b).map (fun s => (s.toHeader, b.drop s.slice.length)) := by
  unfold Ipv6FragmentHeader.fromSlice Ipv6FragmentHeaderSlice.fromSlice
  by_cases hlen : b.length < 8
  · simp [hlen, Except.map]
  · have : min 8 b.length = 8 := by omega
    simp [hlen, Except.map, this]

/-- `is_fragmenting_payload` of slice and struct agree. -/
theorem slice_accessors (s : Ipv6FragmentHeaderSlice) :
    s.isFragmentingPayload = s.toHeader.isFragmentingPayload := rfl

example : Ipv6FragmentHeader.WF Ipv6FragmentHeader.sampleMax := by decide
example : Ipv6FragmentHeader.sampleMax.toBytes = [255, 0, 0xff, 0xf9, 255, 255, 255, 255] := by rfl
/-- a byte string with all reserved bits set is accepted and re-encoded with them cleared. -/
example : (Ipv6FragmentHeader.fromSlice [6, 0xff, 0xff, 0xff, 1, 2, 3, 4, 9]).map
    (fun r => (r.1.toBytes, r.2)) = .ok ([6, 0, 0xff, 0xf9, 1, 2, 3, 4], [9]) := by rfl

end Ipv6Frag

/-! ## Ipv4Header (with options) -/
namespace Ipv4
open EpModel.Lemmas.CodecNet.Ipv4

/-- `to_bytes` (60 byte array cut by `set_len`) and `write_raw` produce the same
    `header_len()` = 20 + options bytes; `write` produces them with the checksum field replaced by
    `calc_header_checksum()` — hence the same bytes exactly when the stored checksum is the
    computed one (`ChecksumOk`). -/
theorem encoders_agree (h : Ipv4Header) (wf : h.WF) :
    h.toBytes = h.writeRaw ∧ h.toBytes.length = h.headerLen ∧
      h.writeOut = ({ h with headerChecksum := h.calcHeaderChecksum } : Ipv4Header).writeRaw ∧
      (h.ChecksumOk → h.toBytes = h.writeOut) := by
  refine ⟨toBytes_eq h wf, toBytes_length h wf, rfl, ?_⟩
  intro hc
  rw [toBytes_eq h wf]
  unfold Ipv4Header.writeOut Ipv4Header.writeInternal
  rw [← hc]

/-- `write` and `to_bytes` can only differ in the checksum bytes 10–11. -/
theorem write_differs_only_in_checksum (h : Ipv4Header) (wf : h.WF) :
    h.writeOut.take 10 = h.toBytes.take 10 ∧ h.writeOut.drop 12 = h.toBytes.drop 12 := by
  rw [toBytes_eq h wf]
  unfold Ipv4Header.writeOut Ipv4Header.writeInternal
  rw [fixedPart_eq h _ wf, fixedPart_eq h _ wf]
  simp

theorem decode_encode (h : Ipv4Header) (tail : Bytes) (wf : h.WF) :
    Ipv4Header.fromSlice (h.toBytes ++ tail) = .ok (h, tail) := by
  unfold Ipv4Header.fromSlice
  rw [slice_of_toBytes h tail wf]
  simp only [toHeader_toBytes h wf, Ipv4Header.headerLen]
  rw [List.drop_left' (toBytes_length h wf)]

/-- the reserved bit written out: bit 7 of byte 6 (flags bit 0) is cleared, nothing else. -/
theorem maskReserved_spec (b0 b1 b2 b3 b4 b5 b6 : UInt8) (r : Bytes) :
    maskReserved .ipv4 (b0 :: b1 :: b2 :: b3 :: b4 :: b5 :: b6 :: r)
      = b0 :: b1 :: b2 :: b3 :: b4 :: b5 :: u8 (b6.toNat &&& 0x7f) :: r :=
  maskReserved_eq b0 b1 b2 b3 b4 b5 b6 r

/-- re-encoding an accepted byte string reproduces its first `ihl*4` bytes (fixed part and
    options) except for the reserved flag bit, and decoding again gives the same value. -/
theorem encode_decode (b : Bytes) (h : Ipv4Header) (rest : Bytes)
    (hd : Ipv4Header.fromSlice b = .ok (h, rest)) :
    h.toBytes = maskReserved .ipv4 (b.take h.headerLen) ∧
      Ipv4Header.fromSlice (h.toBytes ++ rest) = .ok (h, rest) := by
  obtain ⟨hlen, hver, hihl, hfull, rfl, rfl⟩ := fromSlice_ok b h rest hd
  have htl : (b.take (bAt b 0 % 16 * 4)).length = bAt b 0 % 16 * 4 := by simp; omega
  have hwf := toHeader_wf { slice := b.take (bAt b 0 % 16 * 4) } (by rw [htl]; omega)
    (by rw [htl]; omega) (by rw [htl]; omega)
  refine ⟨?_, decode_encode _ _ hwf⟩
  have hhl : (Ipv4HeaderSlice.toHeader { slice := b.take (bAt b 0 % 16 * 4) }).headerLen
      = bAt b 0 % 16 * 4 := by
    show 20 + (sub (b.take (bAt b 0 % 16 * 4)) 20
      ((b.take (bAt b 0 % 16 * 4)).length - 20)).length = _
    rw [sub_length _ _ _ (by omega)]; omega
  rw [hhl]
  generalize hn : bAt b 0 % 16 * 4 = n at *
  obtain ⟨b0, b, rfl⟩ := exists_cons b (by omega)
  obtain ⟨b1, b, rfl⟩ := exists_cons b (by simp at hlen; omega)
  obtain ⟨b2, b, rfl⟩ := exists_cons b (by simp at hlen; omega)
  obtain ⟨b3, b, rfl⟩ := exists_cons b (by simp at hlen; omega)
  obtain ⟨b4, b, rfl⟩ := exists_cons b (by simp at hlen; omega)
  obtain ⟨b5, b, rfl⟩ := exists_cons b (by simp at hlen; omega)
  obtain ⟨b6, b, rfl⟩ := exists_cons b (by simp at hlen; omega)
  obtain ⟨b7, b, rfl⟩ := exists_cons b (by simp at hlen; omega)
  obtain ⟨b8, b, rfl⟩ := exists_cons b (by simp at hlen; omega)
  obtain ⟨b9, b, rfl⟩ := exists_cons b (by simp at hlen; omega)
  obtain ⟨b10, b, rfl⟩ := exists_cons b (by simp at hlen; omega)
  obtain ⟨b11, b, rfl⟩ := exists_cons b (by simp at hlen; omega)
  obtain ⟨b12, b, rfl⟩ := exists_cons b (by simp at hlen; omega)
  obtain ⟨b13, b, rfl⟩ := exists_cons b (by simp at hlen; omega)
  obtain ⟨b14, b, rfl⟩ := exists_cons b (by simp at hlen; omega)
  obtain ⟨b15, b, rfl⟩ := exists_cons b (by simp at hlen; omega)
  obtain ⟨b16, b, rfl⟩ := exists_cons b (by simp at hlen; omega)
  obtain ⟨b17, b, rfl⟩ := exists_cons b (by simp at hlen; omega)
  obtain ⟨b18, b, rfl⟩ := exists_cons b (by simp at hlen; omega)
  obtain ⟨b19, b, rfl⟩ := exists_cons b (by simp at hlen; omega)
  simp only [bAt_cons_zero] at hver hihl hn
  simp only [List.length_cons] at hfull
  obtain ⟨m, rfl⟩ : ∃ m, n = m + 20 := ⟨n - 20, by omega⟩
  simp only [List.take_succ_cons]
  have hm : (b.take m).length = m := by simp; omega
  rw [maskReserved_eq]
  exact toBytes_toHeader _ _ _ _ _ _ _ _ _ _ _ _ _ _ _ _ _ _ _ _ _ (by omega) (by omega)
    (by have := b0.toNat_lt; omega)

theorem decoded_wf (b : Bytes) (h : Ipv4Header) (rest : Bytes)
    (hd : Ipv4Header.fromSlice b = .ok (h, rest)) : h.WF := by
  obtain ⟨hlen, hver, hihl, hfull, rfl, rfl⟩ := fromSlice_ok b h rest hd
  have htl : (b.take (bAt b 0 % 16 * 4)).length = bAt b 0 % 16 * 4 := by simp; omega
  exact toHeader_wf _ (by rw [htl]; omega) (by rw [htl]; omega) (by rw [htl]; omega)

theorem slice_eq_struct (b : Bytes) :
    Ipv4Header.fromSlice b =
      (Ipv4HeaderSlice.fromSlice b).map (fun s => (s.toHeader, b.drop s.slice.length)) := by
  cases hs : Ipv4HeaderSlice.fromSlice b with
  | error e => simp [Ipv4Header.fromSlice, hs, Except.map]
  | ok s =>
    have hd : Ipv4Header.fromSlice b = .ok (s.toHeader, b.drop s.toHeader.headerLen) := by
      simp [Ipv4Header.fromSlice, hs]
    obtain ⟨hlen, hver, hihl, hfull, hh, hrest⟩ := fromSlice_ok b _ _ hd
    have hsl : s.slice = b.take (bAt b 0 % 16 * 4) := by
      unfold Ipv4HeaderSlice.fromSlice at hs
      simp only [Nat.shiftRight_eq_div_pow, and15] at hs
      have c1 : ¬ b.length < 20 := by omega
      have c2 : ¬ (4 ≠ bAt b 0 / 2 ^ 4) := by omega
      have c3 : ¬ (bAt b 0 % 16 < 5) := by omega
      have c4 : ¬ (b.length < bAt b 0 % 16 * 4) := by omega
      simp only [c1, c2, c3, c4, if_false, Except.ok.injEq] at hs
      rw [← hs]
    rw [hd, hrest]
    simp only [Except.map, hsl, List.length_take]
    have : min (bAt b 0 % 16 * 4) b.length = bAt b 0 % 16 * 4 := by omega
    rw [this]

/-- slice accessors that are not struct fields, as functions of the slice / the struct. -/
theorem slice_accessors (s : Ipv4HeaderSlice) :
    s.isFragmentingPayload = (s.toHeader.moreFragments || decide (0 ≠ s.toHeader.fragmentOffset)) ∧
      s.ihl = bAt s.slice 0 % 16 ∧ s.version = bAt s.slice 0 / 16 :=
  ⟨rfl, and15 _, Nat.shiftRight_eq_div_pow _ _⟩

example : Ipv4Header.WF Ipv4Header.sampleMax := by decide
example : Ipv4Header.sampleMax.options.length = 40 := by rfl
/-- the extreme sample (40 option bytes) also carries the checksum `write` computes. -/
example : Ipv4Header.ChecksumOk Ipv4Header.sampleMax := by
  unfold Ipv4Header.ChecksumOk Ipv4Header.calcHeaderChecksum Ipv4Header.sampleMax
  simp only []
  rw [addSlice64_step _ _ (by decide), addSlice64_step _ _ (by decide),
    addSlice64_step _ _ (by decide), addSlice64_step _ _ (by decide),
    addSlice64_step _ _ (by decide)]
  have : List.drop 8 (List.drop 8 (List.drop 8 (List.drop 8 (List.drop 8
      (List.replicate 40 (255 : UInt8)))))) = [] := by decide
  rw [this, EpModel.Lemmas.Checksum.addSlice64_nil]
  decide

end Ipv4

/-! ## IpAuthHeader -/
namespace Auth
open EpModel.Lemmas.CodecNet.Auth

/-- `to_bytes` (whole 1016 byte buffer appended, then `set_len`) and `write` (fixed part, then
    `raw_icv()`) produce the same `header_len()` = 12 + ICV bytes; `raw_icv()` is the ICV. -/
theorem encoders_agree (h : IpAuthHeader) (wf : h.WF) :
    h.toBytes = h.writeOut ∧ h.toBytes.length = h.headerLen ∧ h.rawIcvAcc = h.rawIcv := by
  refine ⟨?_, ?_, rawIcvAcc_eq h wf⟩
  · rw [toBytes_eq h wf]; unfold IpAuthHeader.writeOut; rw [rawIcvAcc_eq h wf]
  · rw [toBytes_length h wf, headerLen_eq h wf]

theorem decode_encode (h : IpAuthHeader) (tail : Bytes) (wf : h.WF) :
    IpAuthHeader.fromSlice (h.toBytes ++ tail) = .ok (h, tail) := by
  unfold IpAuthHeader.fromSlice
  rw [slice_of_toBytes h tail wf]
  simp only [toHeader_toBytes h wf]
  rw [List.drop_left' rfl]

/-- the reserved bytes written out: bytes 2 and 3 are zeroed, nothing else. -/
theorem maskReserved_spec (b0 b1 b2 b3 : UInt8) (r : Bytes) :
    maskReserved .ipAuth (b0 :: b1 :: b2 :: b3 :: r) = b0 :: b1 :: 0 :: 0 :: r :=
  maskReserved_eq b0 b1 b2 b3 r

theorem decoded_wf (b : Bytes) (h : IpAuthHeader) (rest : Bytes)
    (hd : IpAuthHeader.fromSlice b = .ok (h, rest)) : h.WF := by
  obtain ⟨hlen, hp, hfull, rfl, rfl⟩ := fromSlice_ok b h rest hd
  have := bAt_lt b 1
  refine ⟨bAt_lt _ _, be32_lt _ _, be32_lt _ _, ?_, ?_⟩ <;> simp <;> omega

/-- re-encoding an accepted byte string reproduces its first `(payload_len+2)*4` bytes except for
    the two reserved bytes, and decoding again gives the same value. -/
theorem encode_decode (b : Bytes) (h : IpAuthHeader) (rest : Bytes)
    (hd : IpAuthHeader.fromSlice b = .ok (h, rest)) :
    h.toBytes = maskReserved .ipAuth (b.take h.headerLen) ∧
      IpAuthHeader.fromSlice (h.toBytes ++ rest) = .ok (h, rest) := by
  have hwf := decoded_wf b h rest hd
  refine ⟨?_, decode_encode _ _ hwf⟩
  rw [headerLen_eq h hwf]
  obtain ⟨hlen, hp, hfull, rfl, rfl⟩ := fromSlice_ok b h rest hd
  have hlt := bAt_lt b 1
  have hL : 12 + ((b.take ((bAt b 1 + 2) * 4)).drop 12).length = (bAt b 1 + 2) * 4 := by
    simp; omega
  simp only [hL]
  obtain ⟨b0, b, rfl⟩ := exists_cons b (by omega)
  obtain ⟨b1, b, rfl⟩ := exists_cons b (by simp at hlen; omega)
  obtain ⟨b2, b, rfl⟩ := exists_cons b (by simp at hlen; omega)
  obtain ⟨b3, b, rfl⟩ := exists_cons b (by simp at hlen; omega)
  obtain ⟨b4, b, rfl⟩ := exists_cons b (by simp at hlen; omega)
  obtain ⟨b5, b, rfl⟩ := exists_cons b (by simp at hlen; omega)
  obtain ⟨b6, b, rfl⟩ := exists_cons b (by simp at hlen; omega)
  obtain ⟨b7, b, rfl⟩ := exists_cons b (by simp at hlen; omega)
  obtain ⟨b8, b, rfl⟩ := exists_cons b (by simp at hlen; omega)
  obtain ⟨b9, b, rfl⟩ := exists_cons b (by simp at hlen; omega)
  obtain ⟨b10, b, rfl⟩ := exists_cons b (by simp at hlen; omega)
  obtain ⟨b11, b, rfl⟩ := exists_cons b (by simp at hlen; omega)
  simp only [bAt_cons_zero, bAt_cons_succ, be32] at hp hfull hlt ⊢
  simp only [List.length_cons] at hfull
  obtain ⟨m, hm⟩ : ∃ m, (b1.toNat + 2) * 4 = m + 12 := ⟨(b1.toNat + 2) * 4 - 12, by omega⟩
  simp only [hm, List.take_succ_cons, List.drop_succ_cons, List.drop_zero]
  rw [maskReserved_eq]
  exact toBytes_decoded _ _ _ _ _ _ _ _ _ _ _ hp (by simp; omega)

/-- the `unwrap()` inside `to_header` cannot fail for any input of `from_slice`. -/
theorem no_unwrap_panic (b : Bytes) : IpAuthHeader.fromSlice b ≠ .error .panicUnwrap :=
  fromSlice_no_panic b

/-- slice type and struct decoder agree: same errors, `to_header()` succeeds (no `unwrap` panic)
    and is the decoded struct, the slice is the consumed prefix. -/
theorem slice_eq_struct (b : Bytes) :
    (IpAuthHeader.fromSlice b).map (fun r => (some r.1, r.2)) =
      (IpAuthHeaderSlice.fromSlice b).map (fun s => (s.toHeader, b.drop s.slice.length)) := by
  unfold IpAuthHeader.fromSlice
  cases hs : IpAuthHeaderSlice.fromSlice b with
  | error e => rfl
  | ok s =>
    obtain ⟨h1, h2, h3⟩ := sliceFromSlice_ok b s hs
    simp only [toHeader_eq s h1 h2 h3, Except.map]

/-- the slice accessors are the fields of `to_header()`. -/
theorem slice_accessors (s : IpAuthHeaderSlice) (h : IpAuthHeader) (hh : s.toHeader = some h) :
    h.nextHeader = s.nextHeader ∧ h.spi = s.spi ∧ h.sequenceNumber = s.sequenceNumber ∧
      h.rawIcv = s.rawIcv := by
  unfold IpAuthHeaderSlice.toHeader IpAuthHeader.new at hh
  split at hh
  · rename_i h' heq
    split at heq
    · simp at heq
    · split at heq
      · simp at heq
      · simp only [Except.ok.injEq] at heq
        simp only [Option.some.injEq] at hh
        subst hh; subst heq
        exact ⟨rfl, rfl, rfl, rfl⟩
  · simp at hh

example : IpAuthHeader.sampleMax.rawIcv.length = 1016 := List.length_replicate
example : IpAuthHeader.WF IpAuthHeader.sampleMax := by
  have hl : IpAuthHeader.sampleMax.rawIcv.length = 1016 := List.length_replicate
  refine ⟨by decide, by decide, by decide, ?_, ?_⟩ <;> rw [hl] <;> decide

end Auth

/-! ## Ipv6RawExtHeader -/
namespace RawExt
open EpModel.Lemmas.CodecNet.RawExt

/-- `to_bytes` and `write` produce the same `header_len()` = 2 + payload bytes; `payload()` is
    the payload. -/
theorem encoders_agree (h : Ipv6RawExtHeader) (wf : h.WF) :
    h.toBytes = h.writeOut ∧ h.toBytes.length = h.headerLen ∧ h.payloadAcc = h.payload := by
  refine ⟨rfl, ?_, payloadAcc_eq h wf⟩
  rw [toBytes_length h wf, headerLen_eq h wf]

theorem decode_encode (h : Ipv6RawExtHeader) (tail : Bytes) (wf : h.WF) :
    Ipv6RawExtHeader.fromSlice (h.toBytes ++ tail) = .ok (h, tail) := by
  unfold Ipv6RawExtHeader.fromSlice
  rw [slice_of_toBytes h tail wf]
  simp only [toHeader_toBytes h wf]
  rw [List.drop_left' rfl]

/-- the raw extension header has no reserved bits (the header_ext_len byte is regenerated from
    the payload length). -/
theorem maskReserved_id (b : Bytes) : maskReserved .ipv6RawExt b = b := rfl

theorem decoded_wf (b : Bytes) (h : Ipv6RawExtHeader) (rest : Bytes)
    (hd : Ipv6RawExtHeader.fromSlice b = .ok (h, rest)) : h.WF := by
  obtain ⟨hlen, hfull, rfl, rfl⟩ := fromSlice_ok b h rest hd
  have := bAt_lt b 1
  refine ⟨bAt_lt _ _, ?_, ?_, ?_⟩ <;> simp <;> omega

/-- re-encoding an accepted byte string reproduces its first `(hdr_ext_len+1)*8` bytes exactly,
    and decoding again gives the same value. -/
theorem encode_decode (b : Bytes) (h : Ipv6RawExtHeader) (rest : Bytes)
    (hd : Ipv6RawExtHeader.fromSlice b = .ok (h, rest)) :
    h.toBytes = maskReserved .ipv6RawExt (b.take h.headerLen) ∧
      Ipv6RawExtHeader.fromSlice (h.toBytes ++ rest) = .ok (h, rest) := by
  have hwf := decoded_wf b h rest hd
  refine ⟨?_, decode_encode _ _ hwf⟩
  rw [headerLen_eq h hwf, maskReserved_id]
  obtain ⟨hlen, hfull, rfl, rfl⟩ := fromSlice_ok b h rest hd
  have hlt := bAt_lt b 1
  have hL : 2 + ((b.take ((bAt b 1 + 1) * 8)).drop 2).length = (bAt b 1 + 1) * 8 := by
    simp; omega
  simp only [hL]
  obtain ⟨b0, b, rfl⟩ := exists_cons b (by omega)
  obtain ⟨b1, b, rfl⟩ := exists_cons b (by simp at hlen; omega)
  simp only [bAt_cons_zero, bAt_cons_succ] at hfull hlt ⊢
  simp only [List.length_cons] at hfull
  obtain ⟨m, hm⟩ : ∃ m, (b1.toNat + 1) * 8 = m + 2 := ⟨(b1.toNat + 1) * 8 - 2, by omega⟩
  simp only [hm, List.take_succ_cons, List.drop_succ_cons, List.drop_zero]
  exact toBytes_decoded _ _ _ (by simp; omega)

/-- the `unwrap()` inside `to_header` cannot fail for any input of `from_slice`. -/
theorem no_unwrap_panic (b : Bytes) : Ipv6RawExtHeader.fromSlice b ≠ .error .panicUnwrap :=
  fromSlice_no_panic b

/-- slice type and struct decoder agree: same errors, `to_header()` succeeds and is the decoded
    struct, the slice is the consumed prefix. -/
theorem slice_eq_struct (b : Bytes) :
    (Ipv6RawExtHeader.fromSlice b).map (fun r => (some r.1, r.2)) =
      (Ipv6RawExtHeaderSlice.fromSlice b).map (fun s => (s.toHeader, b.drop s.slice.length)) := by
  unfold Ipv6RawExtHeader.fromSlice
  cases hs : Ipv6RawExtHeaderSlice.fromSlice b with
  | error e => rfl
  | ok s =>
    obtain ⟨h8, hfull, hsl⟩ := sliceFromSlice_ok b s hs
    have hlt := bAt_lt b 1
    have hl : s.slice.length = (bAt b 1 + 1) * 8 := by rw [hsl]; simp; omega
    simp only [toHeader_eq s (by omega) (by omega) (by omega), Except.map]

example : Ipv6RawExtHeader.sampleMax.payload.length = 2046 := List.length_replicate
example : Ipv6RawExtHeader.WF Ipv6RawExtHeader.sampleMax := by
  have hl : Ipv6RawExtHeader.sampleMax.payload.length = 2046 := List.length_replicate
  refine ⟨by decide, ?_, ?_, ?_⟩ <;> rw [hl] <;> decide

end RawExt

/-! ## Ipv4Extensions (composite: optional authentication header behind an IPv4 header) -/
namespace Ipv4Exts
open EpModel.Lemmas.CodecNet.Auth

/-- for a consistent value `write` succeeds with exactly `header_len()` bytes, and
    `next_header` reports what the decoder will report. -/
theorem encoders_agree (e : Ipv4Extensions) (start : Nat) (wf : e.WF start) :
    ∃ bytes, e.writeOut start = .ok bytes ∧ bytes.length = e.headerLen := by
  obtain ⟨auth⟩ := e
  cases auth with
  | none => exact ⟨[], rfl, rfl⟩
  | some h =>
    obtain ⟨hs, hwf⟩ := wf
    refine ⟨h.toBytes, by simp [Ipv4Extensions.writeOut, hs], ?_⟩
    show h.toBytes.length = h.headerLen
    rw [toBytes_length h hwf, headerLen_eq h hwf]

/-- decoding the written bytes (followed by anything) with the same start protocol number returns
    the value, the next protocol number `next_header` announces and the untouched remainder. -/
theorem decode_encode (e : Ipv4Extensions) (start : Nat) (tail : Bytes) (wf : e.WF start) :
    ∃ bytes next, e.writeOut start = .ok bytes ∧ e.nextHeader start = .ok next ∧
      Ipv4Extensions.fromSlice start (bytes ++ tail) = .ok (e, next, tail) := by
  obtain ⟨auth⟩ := e
  cases auth with
  | none =>
    have hs : ipNumberAuth ≠ start := wf
    refine ⟨[], start, rfl, rfl, ?_⟩
    simp [Ipv4Extensions.fromSlice, Ipv4ExtensionsSlice.fromSlice, hs,
      Ipv4ExtensionsSlice.toHeader]
  | some h =>
    obtain ⟨hs, hwf⟩ := wf
    refine ⟨h.toBytes, h.nextHeader, by simp [Ipv4Extensions.writeOut, hs],
      by simp [Ipv4Extensions.nextHeader, hs], ?_⟩
    have hnh : IpAuthHeaderSlice.nextHeader { slice := h.toBytes } = h.nextHeader := by
      have := toHeader_toBytes h hwf
      rw [toHeader_eq _ (by rw [toBytes_length h hwf]; omega)
        (by rw [toBytes_length h hwf]; have := hwf.2.2.2.1; omega)
        (by rw [toBytes_length h hwf]; have := hwf.2.2.2.2; omega)] at this
      simp only [Option.some.injEq] at this
      exact congrArg IpAuthHeader.nextHeader this
    simp only [Ipv4Extensions.fromSlice, Ipv4ExtensionsSlice.fromSlice, hs, if_true,
      slice_of_toBytes h tail hwf, Ipv4ExtensionsSlice.toHeader, toHeader_toBytes h hwf, hnh]
    rw [List.drop_left' rfl]

/-- everything the decoder accepts is a consistent value, and writing it back with the same start
    number reproduces the consumed bytes up to the AH reserved bytes and decodes to the same
    result again. -/
theorem encode_decode (start : Nat) (b : Bytes) (e : Ipv4Extensions) (next : Nat) (rest : Bytes)
    (hd : Ipv4Extensions.fromSlice start b = .ok (e, next, rest)) :
    e.WF start ∧ e.nextHeader start = .ok next ∧
      e.writeOut start = .ok (maskReserved .ipAuth (b.take e.headerLen)) ∧
      Ipv4Extensions.fromSlice start (maskReserved .ipAuth (b.take e.headerLen) ++ rest)
        = .ok (e, next, rest) := by
  unfold Ipv4Extensions.fromSlice Ipv4ExtensionsSlice.fromSlice at hd
  by_cases hs : ipNumberAuth = start
  · simp only [hs, if_true] at hd
    cases hsl : IpAuthHeaderSlice.fromSlice b with
    | error err => simp [hsl] at hd
    | ok s =>
      obtain ⟨h1, h2, h3⟩ := sliceFromSlice_ok b s hsl
      simp only [hsl, Ipv4ExtensionsSlice.toHeader, toHeader_eq s h1 h2 h3, Except.ok.injEq,
        Prod.mk.injEq] at hd
      obtain ⟨rfl, rfl, rfl⟩ := hd
      -- the struct decoder on the same bytes
      have hstruct : IpAuthHeader.fromSlice b = .ok
          ({ nextHeader := bAt s.slice 0, spi := be32 s.slice 4, sequenceNumber := be32 s.slice 8,
             rawIcv := s.slice.drop 12 }, b.drop s.slice.length) := by
        simp [IpAuthHeader.fromSlice, hsl, toHeader_eq s h1 h2 h3]
      have hwf := Auth.decoded_wf _ _ _ hstruct
      have hed := Auth.encode_decode _ _ _ hstruct
      have hde := decode_encode { auth := some _ } start (b.drop s.slice.length) ⟨hs, hwf⟩
      obtain ⟨bytes, nx, hw, hn, hfs⟩ := hde
      simp only [Ipv4Extensions.writeOut, hs, if_true, Except.ok.injEq] at hw
      simp only [Ipv4Extensions.nextHeader, hs, if_true, Except.ok.injEq] at hn
      subst hw; subst hn
      refine ⟨⟨hs, hwf⟩, by simp [Ipv4Extensions.nextHeader, hs]; rfl, ?_, ?_⟩
      · simp only [Ipv4Extensions.writeOut, hs, if_true, Ipv4Extensions.headerLen]
        rw [hed.1]
      · simp only [Ipv4Extensions.headerLen]
        rw [← hed.1]; exact hfs
  · simp only [hs, if_false, Ipv4ExtensionsSlice.toHeader, Except.ok.injEq, Prod.mk.injEq] at hd
    obtain ⟨rfl, rfl, rfl⟩ := hd
    refine ⟨hs, rfl, rfl, ?_⟩
    simp [Ipv4Extensions.headerLen, maskReserved, reservedTable, clearBits,
      Ipv4Extensions.fromSlice, Ipv4ExtensionsSlice.fromSlice, hs, Ipv4ExtensionsSlice.toHeader]

example : Ipv4Extensions.WF Ipv4Extensions.sampleMax 51 :=
  ⟨rfl, by
    have hl : IpAuthHeader.sampleMax.rawIcv.length = 1016 := List.length_replicate
    refine ⟨by decide, by decide, by decide, ?_, ?_⟩ <;> rw [hl] <;> decide⟩
example : Ipv4Extensions.WF { auth := none } 17 := by decide

end Ipv4Exts

end EpModel.Props.C08Net
