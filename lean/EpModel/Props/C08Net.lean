import EpModel.Model.Codec.NetIpv6
import EpModel.Model.Codec.NetIpv6Frag
import EpModel.Model.Codec.NetIpv4
import EpModel.Model.Codec.NetAuth
import EpModel.Model.Codec.NetRawExt
/-
  C08 (network-layer half) — every header value survives encode → decode unchanged.
-/
namespace EpModel.Props.C08Net
open EpModel EpModel.CodecNet

example : Ipv6Header.WF Ipv6Header.sampleMax := by decide

end EpModel.Props.C08Net
