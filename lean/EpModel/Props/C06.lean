import EpModel.Lemmas.DecCopies
import EpModel.Lemmas.DecLax
import EpModel.Props.C15
import EpModel.Lemmas.SpecShift
import EpModel.Lemmas.SpecShiftEntry
import EpModel.Props.C06Headers
import EpModel.Lemmas.ReadVsSlice
/-
  C06 — equivalent entry points give equivalent answers.

  The crate implements the IP boundary logic in twelve hand-copied variants and offers several doors to the
  same bytes.  In the model (Model/Dec/Ip.lean) every copy is its own definition that follows the Rust
  control flow of that copy (which checks come first, which error type is used, whether `len < 20` is
  tested before the IHL); what the copies share is factored into `ipv4AfterHeaderStrict/Lax`,
  `ipv6AfterHeaderStrict/Lax` - and that sharing is exactly what the correspondence check
  (tools/epcheck/props/c06.py) validates against the twelve Rust functions on every run.

  Proved here, for every memory and window:
    * the dispatching decoders equal the version-specific ones (strict, lax; slice family, struct family),
      up to the *names* of the header content errors, which are different Rust types; the one length
      class where the answers differ in more than the name (IPv4 nibble, fewer than 20 bytes through
      IpSlice/LaxIpSlice, which look at the IHL first) is excluded by hypothesis and characterised in
      C03 (`ShortV4`) - both answers reject and both are true of the bytes;
    * starting at the IPv4 / IPv6 ether type equals starting at IP (same packet with the link set);
    * header readers vs `from_slice` for the IPv4 and IPv6 headers (re-exported from C15's bit-level model), and -
      section "every header reader against the `from_slice` of the same header type" - for ALL 17 header types
      (Ethernet II, VLAN, Linux SLL, MACsec, ARP, IPv4, IPv6, IPv6 raw extension / fragment, IP authentication,
      UDP, TCP, ICMPv4, ICMPv6, Ipv4Extensions, Ipv6Extensions, IpHeaders) over every byte string: read = from_slice
      on success (same header, exactly the header's bytes gathered and consumed), the same content rejections,
      length error = end of data; the rules that need the end of the slice are explicit exceptions;
    * starting at an Ethernet II header equals starting at its ether type on the bytes behind it, offsets
      moved by 14 (last section).  The wire-format walk is proved placement independent
      (Lemmas/SpecShift.lean: `step_shift` for every branch of `Spec.step`, `chain_shift`, `walkN_shift`;
      the link field is not touched behind the link layer, `walkN_link`; 7 steps suffice from an ether
      type, `walkN_fuel`), which gives `Spec.decode .eth` = `Spec.decode (.etherType _)` on the shifted
      memory for strict and lax decoding as an EQUATION; the refinements of C03 / C05 carry it to
      `SlicedPacket` / `LaxSlicedPacket`: `from_ethernet(b)` and `from_ether_type(et(b), b[14..])` accept
      the same byte strings, on success return the same packet with every window moved by 14 (link: Ethernet II frame / ether
      payload), on failure return errors that describe one and the same wire-format fault, seen 14
      bytes apart (so `layer_start_offset` differs by exactly 14, `len` / `required_len` agree); lax: the
      same layers in front of the stop, a stop error in one iff in the other, at the same layer,
      describing the same fault.  What the transfer through the (relational) refinement does not
      give: that the two errors are the *same value* up to the offset where `ErrMatch` leaves a choice
      (e.g. which of two crate layers names an ICMPv4 fault, the `len_source` where it may be the slice
      or the limiting field); that part stays with the correspondence check, which runs both doors.
  Ethernet II start vs ether-type start for the struct families `PacketHeaders` / `LaxPacketHeaders` is
  proved directly on the model in Props/C06Headers.lean (Lemmas/HeadersShift.lean); the oracle still compares
  all four families after shifting by 14.
-/
namespace EpModel.Props.C06
open EpModel EpModel.Dec EpModel.Lemmas.Refine EpModel.Lemmas.Copies

/-! ### the twelve IP boundary implementations -/

/-- strict slice family: IpSlice::from_slice vs Ipv4Slice::from_slice / Ipv6Slice::from_slice -/
theorem ip_slice_dispatch_equals_specific (g : Mem) (o l : Nat) :
    (g o / 16 = 4 → 20 ≤ l → ipSliceFromSlice g o l = renameErr (ipv4SliceFromSlice g o l)) ∧
    (g o / 16 = 6 → 0 < l → ipSliceFromSlice g o l = ipv6SliceFromSlice g o l) ∧
    (g o / 16 ≠ 4 → g o / 16 ≠ 6 → 0 < l → ipSliceFromSlice g o l = .error (.ipVersion (g o / 16))) :=
  ⟨ipSlice_eq_ipv4Slice g o l, ipSlice_eq_ipv6Slice g o l, ipSlice_other g o l⟩

/-- strict struct family: IpHeaders::from_slice vs from_ipv4_slice / from_ipv6_slice (all lengths) -/
theorem ip_headers_dispatch_equals_specific (g : Mem) (o l : Nat) (h0 : 0 < l) :
    (g o / 16 = 4 → ipHeadersFromSlice g o l = renameErr (ipHeadersFromIpv4Slice g o l)) ∧
    (g o / 16 = 6 → ipHeadersFromSlice g o l = ipHeadersFromIpv6Slice g o l) :=
  ⟨fun h => ipHeaders_eq_ipv4 g o l h h0, fun h => ipHeaders_eq_ipv6 g o l h h0⟩

/-- struct vs slice, IPv4: IpHeaders::from_ipv4_slice is Ipv4Slice::from_slice -/
theorem ip_headers_ipv4_equals_slice (g : Mem) (o l : Nat) :
    ipHeadersFromIpv4Slice g o l = ipv4SliceFromSlice g o l := ipHeaders_ipv4_eq_ipv4Slice g o l

/-- lax slice family -/
theorem lax_ip_slice_dispatch_equals_specific (g : Mem) (o l : Nat) :
    (g o / 16 = 4 → 20 ≤ l → laxIpSliceFromSlice g o l = renameErr (laxIpv4SliceFromSlice g o l)) ∧
    (g o / 16 = 6 → 0 < l → laxIpSliceFromSlice g o l = laxIpv6SliceFromSlice g o l) :=
  ⟨laxIpSlice_eq_laxIpv4Slice g o l, laxIpSlice_eq_laxIpv6Slice g o l⟩

/-- lax struct family (this pair agrees on the error names as well) -/
theorem lax_ip_headers_dispatch_equals_specific (g : Mem) (o l : Nat) (h0 : 0 < l) :
    (g o / 16 = 4 → ipHeadersFromSliceLax g o l = ipHeadersFromIpv4SliceLax g o l) ∧
    (g o / 16 = 6 → ipHeadersFromSliceLax g o l = ipHeadersFromIpv6SliceLax g o l) :=
  ⟨fun h => ipHeadersLax_eq_ipv4Lax g o l h h0, fun h => ipHeadersLax_eq_ipv6Lax g o l h h0⟩

/-! ### starting at the IP ether types = starting at IP -/

theorem from_ipv4_ether_type_equals_from_ip (g : Mem) (n : Nat) (h4 : g 0 / 16 = 4) (h20 : 20 ≤ n) :
    slicedFromEtherType g 0x0800 n =
        mapOk (Packet.withLink · (some (.etherPayload 0x0800 ⟨0, n⟩))) (ipv4Path id Cur.new g 0 n) ∧
      slicedFromIp g n = ipv4Path renameIp Cur.new g 0 n :=
  from_ether_type_ipv4_vs_from_ip g n h4 h20

theorem from_ipv6_ether_type_equals_from_ip (g : Mem) (n : Nat) (h6 : g 0 / 16 = 6) (h0 : 0 < n) :
    slicedFromEtherType g 0x86dd n =
      mapOk (Packet.withLink · (some (.etherPayload 0x86dd ⟨0, n⟩))) (slicedFromIp g n) :=
  from_ether_type_ipv6_vs_from_ip g n h6 h0

/-- hypotheses of the above are satisfiable and the conclusion is not about errors only -/
example : (fun i => if i = 0 then 0x45 else 0 : Mem) 0 / 16 = 4 := by decide

/-! ### readers vs slices (bit-level model of C15; the byte-level theorems for every header type are in the
  section "every header reader against the `from_slice` of the same header type" below) -/

theorem ipv4_read_equals_from_slice (b : Bytes) (h : EpModel.BitFields.Ip4) (r : Bytes)
    (hd : EpModel.BitFields.Ip4.fromSlice b = .ok (h, r)) : EpModel.BitFields.Ip4.read b = some (.ok h) :=
  EpModel.Props.C15.ip4_read_eq_from_slice b h r hd

theorem ipv6_read_equals_from_slice (b : Bytes) (h : EpModel.BitFields.Ip6) (r : Bytes)
    (hd : EpModel.BitFields.Ip6.fromSlice b = .ok (h, r)) : EpModel.BitFields.Ip6.read b = some (.ok h) :=
  EpModel.Props.C15.ip6_read_eq_from_slice b h r hd

/-- every strict UDP slice lies inside the slice it was cut from. -/
theorem udp_within (g : Mem) (o l : Nat) (w : Win) (h : udpFromSlice g o l = .ok w) :
    o ≤ w.o ∧ w.o + w.l ≤ o + l := by
  unfold udpFromSlice at h
  split at h
  · contradiction
  · simp only at h
    split at h
    · contradiction
    · split at h
      · cases h; simp
      · split at h
        · contradiction
        · cases h; simp; omega

/-! ### starting at an Ethernet II header = starting at its ether type on the bytes behind it

  Proved at the level of the wire-format walk (Lemmas/SpecShift.lean: every step of `Spec.step`, the IPv6
  extension chain and the whole walk commute with moving the memory, i.e. the walk is placement
  independent) and transferred to the models of the four doors through the refinements of C03 / C05. -/

section EthernetVsEtherType
open EpModel.Spec EpModel.Lemmas.ShiftEntry EpModel.Lemmas.RefineLax

/-- Wire-format reading, strict: decoding `n ≥ 14` bytes from the Ethernet II header gives the verdict
    of decoding the bytes behind the header (the memory seen from offset 14) from the header's ether
    type; the packet is the same with every window moved by 14 and the Ethernet II frame as link, the
    fault is the same with its offset moved by 14. -/
theorem spec_ethernet_start_equals_ether_type_start (g : Mem) (n : Nat) (h : 14 ≤ n) :
    Spec.decode .eth g n =
      match Spec.decode (.etherType (g16 g 12)) (shM 14 g) (n - 14) with
      | .ok p => .ok (setLk (some (.eth2 ⟨0, n⟩)) (shPacket 14 p))
      | .error f => .error (shFault 14 f) :=
  decode_eth_eq_ether_type g n h

/-- … and lax: the same layers in front of the fault (moved by 14), the same fault (moved by 14). -/
theorem spec_lax_ethernet_start_equals_ether_type_start (g : Mem) (n : Nat) (h : 14 ≤ n) :
    Spec.decodeLax .eth g n =
      (setLk (some (.eth2 ⟨0, n⟩)) (shPacket 14 (Spec.decodeLax (.etherType (g16 g 12)) (shM 14 g) (n - 14)).1),
        (Spec.decodeLax (.etherType (g16 g 12)) (shM 14 g) (n - 14)).2.map (shFault 14)) :=
  decodeLax_eth_eq_ether_type g n h

/-- the memory of the bytes behind the first `k` is the memory seen from offset `k` -/
theorem memOf_drop (b : Bytes) (k i : Nat) : memOf (b.drop k) i = memOf b (k + i) :=
  EpModel.Lemmas.ShiftEntry.memOf_drop b k i

/-- **`SlicedPacket::from_ethernet(b)` against `SlicedPacket::from_ether_type(ether type of b, b[14..])`**,
    for every byte string of at least 14 bytes: both succeed or both fail; on success the packets are
    the same with every window moved by 14 (link: the Ethernet II frame / the ether payload handed in);
    on failure both errors describe one and the same wire-format fault `f` of the bytes behind the
    header (`ErrMatch`: layer, offset, available and required bytes, length source / offending value),
    seen from the frame with its offset moved by 14. -/
theorem ethernet_start_equals_ether_type_start (b : Bytes) (h14 : 14 ≤ b.length) :
    match slicedFromEthernet (memOf b) b.length,
      slicedFromEtherType (memOf (b.drop 14)) (g16 (memOf b) 12) (b.drop 14).length with
    | .ok p, .ok q =>
      p = setLk (some (.eth2 ⟨0, b.length⟩)) (shPacket 14 q) ∧
        q.link = some (.etherPayload (g16 (memOf b) 12) ⟨0, b.length - 14⟩)
    | .error e, .error e' => ∃ f, ErrMatch e' f ∧ ErrMatch e (shFault 14 f)
    | _, _ => False := by
  rw [memOf_drop_eq, List.length_drop]
  exact from_ethernet_vs_ether_type (memOf b) (fun i => bAt_lt b i) b.length h14

/-- (i) the two doors accept the same byte strings -/
theorem ethernet_start_ok_iff_ether_type_start_ok (b : Bytes) (h14 : 14 ≤ b.length) :
    (slicedFromEthernet (memOf b) b.length).isOk =
      (slicedFromEtherType (memOf (b.drop 14)) (g16 (memOf b) 12) (b.drop 14).length).isOk := by
  have h := ethernet_start_equals_ether_type_start b h14
  revert h
  cases slicedFromEthernet (memOf b) b.length <;>
    cases slicedFromEtherType (memOf (b.drop 14)) (g16 (memOf b) 12) (b.drop 14).length <;>
    simp [Except.isOk, Except.toBool]

/-- (ii) on success: the Ethernet II frame resp. the ether payload as link, and the same link
    extensions, network and transport layers with every window moved by 14 -/
theorem ethernet_start_packet_is_ether_type_start_packet_shifted (b : Bytes) (h14 : 14 ≤ b.length)
    (p q : Packet) (hp : slicedFromEthernet (memOf b) b.length = .ok p)
    (hq : slicedFromEtherType (memOf (b.drop 14)) (g16 (memOf b) 12) (b.drop 14).length = .ok q) :
    p.link = some (.eth2 ⟨0, b.length⟩) ∧
      q.link = some (.etherPayload (g16 (memOf b) 12) ⟨0, b.length - 14⟩) ∧
      p.exts = q.exts.map (shExt 14) ∧ p.net = q.net.map (shNet 14) ∧ p.tp = q.tp.map (shTp 14) ∧
      p.stop = q.stop := by
  have h := ethernet_start_equals_ether_type_start b h14
  rw [hp, hq] at h
  obtain ⟨h1, h2⟩ := h
  subst h1
  exact ⟨rfl, h2, rfl, rfl, rfl, rfl⟩

/-- (iii) on failure with a length error: the other door fails with a length error as well, the
    `layer_start_offset`s differ by exactly 14, `len` and `required_len` agree, and both layers name the
    unit of one wire-format fault -/
theorem ethernet_start_len_error_is_ether_type_start_len_error_shifted (b : Bytes) (h14 : 14 ≤ b.length)
    (le : LenError) (he : slicedFromEthernet (memOf b) b.length = .error (.len le)) :
    ∃ le', slicedFromEtherType (memOf (b.drop 14)) (g16 (memOf b) 12) (b.drop 14).length = .error (.len le') ∧
      le.off = 14 + le'.off ∧ le.len = le'.len ∧ le.req = le'.req ∧
      ∃ f, LenMatch le' f ∧ LenMatch le (shFault 14 f) := by
  have h := ethernet_start_equals_ether_type_start b h14
  rw [he] at h
  cases hq : slicedFromEtherType (memOf (b.drop 14)) (g16 (memOf b) 12) (b.drop 14).length with
  | ok q => rw [hq] at h; exact h.elim
  | error e' =>
    rw [hq] at h
    obtain ⟨f, h1, h2⟩ := h
    have h2' : LenMatch le (shFault 14 f) := h2
    have hc : f.cls ≠ .content := h2'.cls
    cases e' with
    | len le' =>
      have h1' : LenMatch le' f := h1
      have k := lenMatch_shift_off h2' h1'
      exact ⟨le', rfl, k.1, k.2.1, k.2.2, f, h1', h2'⟩
    | _ => exact absurd h1.1 hc

/-- … and with a content error: the other door fails with a content error about the same fault -/
theorem ethernet_start_content_error_is_ether_type_start_content_error (b : Bytes) (h14 : 14 ≤ b.length)
    (e : PErr) (hne : ∀ le, e ≠ .len le) (he : slicedFromEthernet (memOf b) b.length = .error e) :
    ∃ e', slicedFromEtherType (memOf (b.drop 14)) (g16 (memOf b) 12) (b.drop 14).length = .error e' ∧
      (∀ le, e' ≠ .len le) ∧ ∃ f, ContentMatch e' f ∧ ContentMatch e (shFault 14 f) := by
  have h := ethernet_start_equals_ether_type_start b h14
  rw [he] at h
  cases hq : slicedFromEtherType (memOf (b.drop 14)) (g16 (memOf b) 12) (b.drop 14).length with
  | ok q => rw [hq] at h; exact h.elim
  | error e' =>
    rw [hq] at h
    obtain ⟨f, h1, h2⟩ := h
    have h2' : ContentMatch e (shFault 14 f) := by
      cases e with
      | len le => exact absurd rfl (hne le)
      | _ => exact h2
    have hc : f.cls = .content := h2'.1
    cases e' with
    | len le' => exact absurd hc (LenMatch.cls h1)
    | _ => exact ⟨_, rfl, fun le => by simp, f, h1, h2'⟩

/-- fewer than 14 bytes: the Ethernet II door fails at the Ethernet II header (there is no ether type
    to start from) -/
theorem ethernet_start_short (b : Bytes) (h : b.length < 14) :
    slicedFromEthernet (memOf b) b.length =
        .error (.len { req := 14, len := b.length, src := .slice, layer := .ethernet2Header, off := 0 }) ∧
      laxSlicedFromEthernet (memOf b) b.length =
        .error { req := 14, len := b.length, src := .slice, layer := .ethernet2Header, off := 0 } ∧
      Spec.decode .eth (memOf b) b.length =
        .error { cls := .cutShort, unit := .eth, off := 0, avail := b.length, need := 14, lim := .slice, value := 0 } := by
  refine ⟨?_, ?_, ?_⟩
  · simp [slicedFromEthernet, eth2FromSlice, h, LenError.addOffset]
  · simp [laxSlicedFromEthernet, eth2FromSlice, h]
  · rw [decode_eth_short (memOf b) b.length h]; simp [mkFault, Ctx.avail]

/-- **`LaxSlicedPacket::from_ethernet(b)` against `LaxSlicedPacket::from_ether_type(ether type of b, b[14..])`**,
    for every byte string of at least 14 bytes: `from_ethernet` returns a packet; without their stop
    errors the two packets are the same with every window moved by 14 (link: Ethernet II frame / ether
    payload); one has a stop error exactly when the other has, at the same layer, and both stop errors
    describe one wire-format fault `f` of the bytes behind the header, seen from the frame with its
    offset moved by 14 (`StopDescribes` = the relation of the lax refinement C05, short-IPv4 wrinkle
    included). -/
theorem lax_ethernet_start_equals_ether_type_start (b : Bytes) (h14 : 14 ≤ b.length) :
    ∃ m, laxSlicedFromEthernet (memOf b) b.length = .ok m ∧
      noStop m = setLk (some (.eth2 ⟨0, b.length⟩))
        (shPacket 14 (noStop (laxSlicedFromEtherType (memOf (b.drop 14)) (g16 (memOf b) 12) (b.drop 14).length))) ∧
      (laxSlicedFromEtherType (memOf (b.drop 14)) (g16 (memOf b) 12) (b.drop 14).length).link =
        some (.etherPayload (g16 (memOf b) 12) ⟨0, b.length - 14⟩) ∧
      match m.stop, (laxSlicedFromEtherType (memOf (b.drop 14)) (g16 (memOf b) 12) (b.drop 14).length).stop with
      | none, none => True
      | some (e, ly), some (e', ly') =>
        ly = ly' ∧ ∃ f, StopDescribes (memOf (b.drop 14)) e' ly' f ∧ StopDescribes (memOf b) e ly (shFault 14 f)
      | _, _ => False := by
  rw [memOf_drop_eq, List.length_drop]
  exact lax_from_ethernet_vs_ether_type (memOf b) (fun i => bAt_lt b i) b.length h14

/-- consequence for lax length stop errors: offsets differ by exactly 14, `len` agrees (this part holds
    also on the input class of the short-IPv4 wrinkle) -/
theorem lax_ethernet_start_stop_len_error_shifted (b : Bytes) (h14 : 14 ≤ b.length) (m : Packet)
    (hm : laxSlicedFromEthernet (memOf b) b.length = .ok m) (le le' : LenError) (ly ly' : Layer)
    (hs : m.stop = some (.len le, ly))
    (hs' : (laxSlicedFromEtherType (memOf (b.drop 14)) (g16 (memOf b) 12) (b.drop 14).length).stop =
      some (.len le', ly')) :
    ly = ly' ∧ le.off = 14 + le'.off ∧ le.len = le'.len := by
  obtain ⟨m0, hm0, _, _, h⟩ := lax_ethernet_start_equals_ether_type_start b h14
  rw [hm] at hm0
  cases hm0
  rw [hs, hs'] at h
  obtain ⟨hl, f, h1, h2⟩ := h
  refine ⟨hl, ?_⟩
  have k1 : le'.off = f.off ∧ le'.len = f.avail := by
    rcases h1 with h1 | h1
    · have : LenMatch le' f := h1.2
      exact ⟨this.off, this.len⟩
    · obtain ⟨_, _, _, _, _, _, _, h1 | h1⟩ := h1
      · exact absurd h1.2 (by simp)
      · obtain ⟨_, s, _, hs⟩ := h1
        cases hs; exact ⟨rfl, rfl⟩
  have k2 : le.off = 14 + f.off ∧ le.len = f.avail := by
    rcases h2 with h2 | h2
    · have : LenMatch le (shFault 14 f) := h2.2
      exact ⟨this.off, this.len⟩
    · obtain ⟨_, _, _, _, _, _, _, h2 | h2⟩ := h2
      · exact absurd h2.2 (by simp)
      · obtain ⟨_, s, _, hs⟩ := h2
        cases hs; exact ⟨rfl, rfl⟩
  rw [k1.1, k1.2, k2.1, k2.2]
  exact ⟨rfl, rfl⟩

/-! the hypotheses are satisfiable and the success case is inhabited: an ARP request in an Ethernet II frame -/

def arpFrame : Bytes :=
  [0,0,0,0,0,0, 0,0,0,0,0,0, 0x08,0x06, 0,1,8,0,6,4,0,1, 1,2,3,4,5,6, 10,0,0,1, 0,0,0,0,0,0, 10,0,0,2]

set_option maxRecDepth 4000 in
example : slicedFromEthernet (memOf arpFrame) arpFrame.length =
    .ok { link := some (.eth2 ⟨0, 42⟩), exts := [], net := some (.arp ⟨14, 28⟩), tp := none, stop := none } := by
  rfl

set_option maxRecDepth 4000 in
example : slicedFromEtherType (memOf (arpFrame.drop 14)) (g16 (memOf arpFrame) 12) (arpFrame.drop 14).length =
    .ok { link := some (.etherPayload 0x0806 ⟨0, 28⟩), exts := [], net := some (.arp ⟨0, 28⟩), tp := none,
          stop := none } := by
  rfl

end EthernetVsEtherType

/-! ### every header reader against the `from_slice` of the same header type

  The read programs of Model/Io.lean (`Reads.*`, validated against every `read` function by the `io.read.*`
  correspondence of C16) against the slice decoders of Model/Codec/*.lean (`*.fromSlice`, validated by the
  `enc.*` correspondence of C08), for EVERY byte string `b` and every position in a stream: the reader
  `readerAt pre b` has handed out `pre`, stands at the start of `b`, has no injected fault and runs dry
  only at the end of `b` (`pre = []`: a fresh reader over `b`).  Vocabulary (Lemmas/ReadVsSlice.lean):

    `ReadsOk p pre b n a`       `p.run (readerAt pre b) = (readerAdv pre b n, .ok a)`: success, `n` bytes consumed
    `ReadsEof p pre b`          … `= (readerAdv pre b b.length, .error (.io .unexpectedEof))`: ran dry, all consumed
    `ReadsContent p pre b n s`  … `= (readerAdv pre b n, .error (.other s))`: content error with text `s`
    `OkRow p dec pre b h rest`  `ReadsOk p pre b n (b.take n)` ∧ `b = b.take n ++ rest` ∧ `dec (b.take n) = .ok (h, [])`
                                with `n = b.length - rest.length`: `read` gathers and consumes exactly the bytes
                                in front of `rest`, and decoding them (`decode ∘ gather`, what the driver of C16
                                prints) gives the same header
    `linkText`, `ipv4ErrText`, `ipv6ErrText`, `authErrText`   canonical text of a content error of the slice
                                decoder (the text carries the offending value), `none` for length errors

  Per header type: `*_read_vs_from_slice` is the complete table (for each outcome of `from_slice`, what
  `read` does on the same bytes; both are functions, so the table fixes both directions), and read off it
    (1) `*_read_of_slice`: `from_slice b = ok (h, rest)` ⟹ `read` succeeds, gathers `b.take n`, consumes `n`,
        `n = b.length - rest.length`, and the gathered bytes decode to `h`;
    (2) `*_slice_of_read`: `read` returns `g` ⟹ `b = g ++ rest`, `g.length` bytes consumed, `from_slice g` and
        `from_slice b` give the same header - with the end-of-slice rules as explicit exceptions (ICMPv4
        timestamp exact size, ICMPv6 `u32::MAX` limit; the single IPv4 / IPv6 header decoders have no
        total_len / payload_length rule, those belong to `IpHeaders`);
    (3)+(4) `*_rejections_coincide`: content errors coincide (same error, same offending value), a length
        error of `from_slice` is the reader's end-of-data error and never a success.  One honest wrinkle, stated
        in the tables: the IPv4 / IPv6 readers look at the version nibble after ONE byte while the slice
        decoders check the minimum length first, so on a slice shorter than the fixed header whose first
        byte has the wrong version `from_slice` reports the length and `read` the version. -/

section ReadersVsSlices
open EpModel.Io EpModel.Codec EpModel.CodecNet EpModel.Lemmas.ReadVsSlice

/-! #### Ethernet II (`Ethernet2Header::read` / `from_slice`) -/

/-- the complete comparison: for each outcome of `from_slice` what `read` does on the same bytes -/
theorem eth2_read_vs_from_slice (pre b : Bytes) :
    match Eth2.fromSlice b with
    | .ok (h, rest) => OkRow Reads.eth2 Eth2.fromSlice pre b h rest
    | .error e => e = lenErrSlice 14 b.length "Ethernet2Header" ∧ b.length < 14 ∧ ReadsEof Reads.eth2 pre b :=
  eth2_table pre b

/-- (1) `from_slice` succeeds ⟹ `read` succeeds, gathers and consumes exactly the header's bytes -/
theorem eth2_read_of_slice (pre b : Bytes) (h) (rest : Bytes) (hd : Eth2.fromSlice b = .ok (h, rest)) :
    ReadsOk Reads.eth2 pre b (b.length - rest.length) (b.take (b.length - rest.length)) ∧
      b = b.take (b.length - rest.length) ++ rest ∧
      Eth2.fromSlice (b.take (b.length - rest.length)) = .ok (h, []) := by
  have t := eth2_table pre b; rw [hd] at t; exact t

/-- (2) `read` succeeds with `g` ⟹ `b = g ++ rest`, `g.length` bytes consumed, same header from `g` and `b` -/
theorem eth2_slice_of_read (pre b g : Bytes) (hr : (Reads.eth2.run (readerAt pre b)).2 = .ok g) :
    ∃ h rest, Eth2.fromSlice b = .ok (h, rest) ∧ b = g ++ rest ∧
      (Reads.eth2.run (readerAt pre b)).1 = readerAdv pre b g.length ∧ Eth2.fromSlice g = .ok (h, []) := by
  have t := eth2_table pre b
  cases hd : Eth2.fromSlice b with
  | ok x => rw [hd] at t; exact ⟨x.1, x.2, rfl, t.converse hr⟩
  | error e => rw [hd] at t; rw [t.2.2.snd] at hr; cases hr

/-- (3)+(4) one rejects iff the other does; there is no content error on either side: `from_slice`
    reports a length error, `read` the end of the data (everything consumed) -/
theorem eth2_rejections_coincide (pre b : Bytes) :
    ((∃ e, Eth2.fromSlice b = .error e) ↔ ∃ e, (Reads.eth2.run (readerAt pre b)).2 = .error e) ∧
    (∀ e, Eth2.fromSlice b = .error e →
      e = lenErrSlice 14 b.length "Ethernet2Header" ∧ b.length < 14 ∧ ReadsEof Reads.eth2 pre b) := by
  have t := eth2_table pre b
  cases hd : Eth2.fromSlice b with
  | ok x =>
    rw [hd] at t
    exact ⟨⟨fun ⟨e, he⟩ => (by cases he), fun ⟨e, he⟩ => (by rw [t.1.snd] at he; cases he)⟩,
      fun e he => (by cases he)⟩
  | error e =>
    rw [hd] at t
    exact ⟨⟨fun _ => ⟨_, t.2.2.snd⟩, fun _ => ⟨_, rfl⟩⟩, fun e' he => by cases he; exact t⟩

/-! #### single VLAN header (`SingleVlanHeader::read` / `from_slice`) -/

/-- the complete comparison: for each outcome of `from_slice` what `read` does on the same bytes -/
theorem vlan_read_vs_from_slice (pre b : Bytes) :
    match Vlan.fromSlice b with
    | .ok (h, rest) => OkRow Reads.vlan Vlan.fromSlice pre b h rest
    | .error e => e = lenErrSlice 4 b.length "VlanHeader" ∧ b.length < 4 ∧ ReadsEof Reads.vlan pre b :=
  vlan_table pre b

/-- (1) `from_slice` succeeds ⟹ `read` succeeds, gathers and consumes exactly the header's bytes -/
theorem vlan_read_of_slice (pre b : Bytes) (h) (rest : Bytes) (hd : Vlan.fromSlice b = .ok (h, rest)) :
    ReadsOk Reads.vlan pre b (b.length - rest.length) (b.take (b.length - rest.length)) ∧
      b = b.take (b.length - rest.length) ++ rest ∧
      Vlan.fromSlice (b.take (b.length - rest.length)) = .ok (h, []) := by
  have t := vlan_table pre b; rw [hd] at t; exact t

/-- (2) `read` succeeds with `g` ⟹ `b = g ++ rest`, `g.length` bytes consumed, same header from `g` and `b` -/
theorem vlan_slice_of_read (pre b g : Bytes) (hr : (Reads.vlan.run (readerAt pre b)).2 = .ok g) :
    ∃ h rest, Vlan.fromSlice b = .ok (h, rest) ∧ b = g ++ rest ∧
      (Reads.vlan.run (readerAt pre b)).1 = readerAdv pre b g.length ∧ Vlan.fromSlice g = .ok (h, []) := by
  have t := vlan_table pre b
  cases hd : Vlan.fromSlice b with
  | ok x => rw [hd] at t; exact ⟨x.1, x.2, rfl, t.converse hr⟩
  | error e => rw [hd] at t; rw [t.2.2.snd] at hr; cases hr

/-- (3)+(4) one rejects iff the other does; there is no content error on either side: `from_slice`
    reports a length error, `read` the end of the data (everything consumed) -/
theorem vlan_rejections_coincide (pre b : Bytes) :
    ((∃ e, Vlan.fromSlice b = .error e) ↔ ∃ e, (Reads.vlan.run (readerAt pre b)).2 = .error e) ∧
    (∀ e, Vlan.fromSlice b = .error e →
      e = lenErrSlice 4 b.length "VlanHeader" ∧ b.length < 4 ∧ ReadsEof Reads.vlan pre b) := by
  have t := vlan_table pre b
  cases hd : Vlan.fromSlice b with
  | ok x =>
    rw [hd] at t
    exact ⟨⟨fun ⟨e, he⟩ => (by cases he), fun ⟨e, he⟩ => (by rw [t.1.snd] at he; cases he)⟩,
      fun e he => (by cases he)⟩
  | error e =>
    rw [hd] at t
    exact ⟨⟨fun _ => ⟨_, t.2.2.snd⟩, fun _ => ⟨_, rfl⟩⟩, fun e' he => by cases he; exact t⟩

/-! #### ARP packet (`ArpPacket::read` / `from_slice`); `arpLen b` = 8 + 2·hw size + 2·proto size -/

/-- the complete comparison: for each outcome of `from_slice` what `read` does on the same bytes -/
theorem arp_read_vs_from_slice (pre b : Bytes) :
    match Arp.fromSlice b with
    | .ok (h, rest) => OkRow Reads.arp Arp.fromSlice pre b h rest
    | .error e => (∃ le, e = .len le) ∧ (b.length < 8 ∨ b.length < arpLen b) ∧ ReadsEof Reads.arp pre b :=
  arp_table pre b

/-- (1) `from_slice` succeeds ⟹ `read` succeeds, gathers and consumes exactly the header's bytes -/
theorem arp_read_of_slice (pre b : Bytes) (h) (rest : Bytes) (hd : Arp.fromSlice b = .ok (h, rest)) :
    ReadsOk Reads.arp pre b (b.length - rest.length) (b.take (b.length - rest.length)) ∧
      b = b.take (b.length - rest.length) ++ rest ∧
      Arp.fromSlice (b.take (b.length - rest.length)) = .ok (h, []) := by
  have t := arp_table pre b; rw [hd] at t; exact t

/-- (2) `read` succeeds with `g` ⟹ `b = g ++ rest`, `g.length` bytes consumed, same header from `g` and `b` -/
theorem arp_slice_of_read (pre b g : Bytes) (hr : (Reads.arp.run (readerAt pre b)).2 = .ok g) :
    ∃ h rest, Arp.fromSlice b = .ok (h, rest) ∧ b = g ++ rest ∧
      (Reads.arp.run (readerAt pre b)).1 = readerAdv pre b g.length ∧ Arp.fromSlice g = .ok (h, []) := by
  have t := arp_table pre b
  cases hd : Arp.fromSlice b with
  | ok x => rw [hd] at t; exact ⟨x.1, x.2, rfl, t.converse hr⟩
  | error e => rw [hd] at t; rw [t.2.2.snd] at hr; cases hr

/-- (3)+(4) one rejects iff the other does; there is no content error on either side: `from_slice`
    reports a length error, `read` the end of the data (everything consumed) -/
theorem arp_rejections_coincide (pre b : Bytes) :
    ((∃ e, Arp.fromSlice b = .error e) ↔ ∃ e, (Reads.arp.run (readerAt pre b)).2 = .error e) ∧
    (∀ e, Arp.fromSlice b = .error e →
      (∃ le, e = .len le) ∧ (b.length < 8 ∨ b.length < arpLen b) ∧ ReadsEof Reads.arp pre b) := by
  have t := arp_table pre b
  cases hd : Arp.fromSlice b with
  | ok x =>
    rw [hd] at t
    exact ⟨⟨fun ⟨e, he⟩ => (by cases he), fun ⟨e, he⟩ => (by rw [t.1.snd] at he; cases he)⟩,
      fun e he => (by cases he)⟩
  | error e =>
    rw [hd] at t
    exact ⟨⟨fun _ => ⟨_, t.2.2.snd⟩, fun _ => ⟨_, rfl⟩⟩, fun e' he => by cases he; exact t⟩

/-! #### IPv6 raw extension header (`Ipv6RawExtHeader::read` / `from_slice`); `rawextLen b` = (b[1]+1)·8 -/

/-- the complete comparison: for each outcome of `from_slice` what `read` does on the same bytes -/
theorem ipv6_raw_ext_read_vs_from_slice (pre b : Bytes) :
    match Ipv6RawExtHeader.fromSlice b with
    | .ok (h, rest) => OkRow Reads.rawext Ipv6RawExtHeader.fromSlice pre b h rest
    | .error e => (∃ le, e = .len le) ∧ (b.length < 8 ∨ b.length < rawextLen b) ∧ ReadsEof Reads.rawext pre b :=
  rawext_table pre b

/-- (1) `from_slice` succeeds ⟹ `read` succeeds, gathers and consumes exactly the header's bytes -/
theorem ipv6_raw_ext_read_of_slice (pre b : Bytes) (h) (rest : Bytes) (hd : Ipv6RawExtHeader.fromSlice b = .ok (h, rest)) :
    ReadsOk Reads.rawext pre b (b.length - rest.length) (b.take (b.length - rest.length)) ∧
      b = b.take (b.length - rest.length) ++ rest ∧
      Ipv6RawExtHeader.fromSlice (b.take (b.length - rest.length)) = .ok (h, []) := by
  have t := rawext_table pre b; rw [hd] at t; exact t

/-- (2) `read` succeeds with `g` ⟹ `b = g ++ rest`, `g.length` bytes consumed, same header from `g` and `b` -/
theorem ipv6_raw_ext_slice_of_read (pre b g : Bytes) (hr : (Reads.rawext.run (readerAt pre b)).2 = .ok g) :
    ∃ h rest, Ipv6RawExtHeader.fromSlice b = .ok (h, rest) ∧ b = g ++ rest ∧
      (Reads.rawext.run (readerAt pre b)).1 = readerAdv pre b g.length ∧ Ipv6RawExtHeader.fromSlice g = .ok (h, []) := by
  have t := rawext_table pre b
  cases hd : Ipv6RawExtHeader.fromSlice b with
  | ok x => rw [hd] at t; exact ⟨x.1, x.2, rfl, t.converse hr⟩
  | error e => rw [hd] at t; rw [t.2.2.snd] at hr; cases hr

/-- (3)+(4) one rejects iff the other does; there is no content error on either side: `from_slice`
    reports a length error, `read` the end of the data (everything consumed) -/
theorem ipv6_raw_ext_rejections_coincide (pre b : Bytes) :
    ((∃ e, Ipv6RawExtHeader.fromSlice b = .error e) ↔ ∃ e, (Reads.rawext.run (readerAt pre b)).2 = .error e) ∧
    (∀ e, Ipv6RawExtHeader.fromSlice b = .error e →
      (∃ le, e = .len le) ∧ (b.length < 8 ∨ b.length < rawextLen b) ∧ ReadsEof Reads.rawext pre b) := by
  have t := rawext_table pre b
  cases hd : Ipv6RawExtHeader.fromSlice b with
  | ok x =>
    rw [hd] at t
    exact ⟨⟨fun ⟨e, he⟩ => (by cases he), fun ⟨e, he⟩ => (by rw [t.1.snd] at he; cases he)⟩,
      fun e he => (by cases he)⟩
  | error e =>
    rw [hd] at t
    exact ⟨⟨fun _ => ⟨_, t.2.2.snd⟩, fun _ => ⟨_, rfl⟩⟩, fun e' he => by cases he; exact t⟩

/-! #### IPv6 fragment header (`Ipv6FragmentHeader::read` / `from_slice`) -/

/-- the complete comparison: for each outcome of `from_slice` what `read` does on the same bytes -/
theorem ipv6_frag_read_vs_from_slice (pre b : Bytes) :
    match Ipv6FragmentHeader.fromSlice b with
    | .ok (h, rest) => OkRow Reads.ipv6frag Ipv6FragmentHeader.fromSlice pre b h rest
    | .error e => e = sliceLenErr 8 b.length .ipv6FragHeader ∧ b.length < 8 ∧ ReadsEof Reads.ipv6frag pre b :=
  ipv6frag_table pre b

/-- (1) `from_slice` succeeds ⟹ `read` succeeds, gathers and consumes exactly the header's bytes -/
theorem ipv6_frag_read_of_slice (pre b : Bytes) (h) (rest : Bytes) (hd : Ipv6FragmentHeader.fromSlice b = .ok (h, rest)) :
    ReadsOk Reads.ipv6frag pre b (b.length - rest.length) (b.take (b.length - rest.length)) ∧
      b = b.take (b.length - rest.length) ++ rest ∧
      Ipv6FragmentHeader.fromSlice (b.take (b.length - rest.length)) = .ok (h, []) := by
  have t := ipv6frag_table pre b; rw [hd] at t; exact t

/-- (2) `read` succeeds with `g` ⟹ `b = g ++ rest`, `g.length` bytes consumed, same header from `g` and `b` -/
theorem ipv6_frag_slice_of_read (pre b g : Bytes) (hr : (Reads.ipv6frag.run (readerAt pre b)).2 = .ok g) :
    ∃ h rest, Ipv6FragmentHeader.fromSlice b = .ok (h, rest) ∧ b = g ++ rest ∧
      (Reads.ipv6frag.run (readerAt pre b)).1 = readerAdv pre b g.length ∧ Ipv6FragmentHeader.fromSlice g = .ok (h, []) := by
  have t := ipv6frag_table pre b
  cases hd : Ipv6FragmentHeader.fromSlice b with
  | ok x => rw [hd] at t; exact ⟨x.1, x.2, rfl, t.converse hr⟩
  | error e => rw [hd] at t; rw [t.2.2.snd] at hr; cases hr

/-- (3)+(4) one rejects iff the other does; there is no content error on either side: `from_slice`
    reports a length error, `read` the end of the data (everything consumed) -/
theorem ipv6_frag_rejections_coincide (pre b : Bytes) :
    ((∃ e, Ipv6FragmentHeader.fromSlice b = .error e) ↔ ∃ e, (Reads.ipv6frag.run (readerAt pre b)).2 = .error e) ∧
    (∀ e, Ipv6FragmentHeader.fromSlice b = .error e →
      e = sliceLenErr 8 b.length .ipv6FragHeader ∧ b.length < 8 ∧ ReadsEof Reads.ipv6frag pre b) := by
  have t := ipv6frag_table pre b
  cases hd : Ipv6FragmentHeader.fromSlice b with
  | ok x =>
    rw [hd] at t
    exact ⟨⟨fun ⟨e, he⟩ => (by cases he), fun ⟨e, he⟩ => (by rw [t.1.snd] at he; cases he)⟩,
      fun e he => (by cases he)⟩
  | error e =>
    rw [hd] at t
    exact ⟨⟨fun _ => ⟨_, t.2.2.snd⟩, fun _ => ⟨_, rfl⟩⟩, fun e' he => by cases he; exact t⟩

/-! #### UDP header (`UdpHeader::read` / `from_slice`) -/

/-- the complete comparison: for each outcome of `from_slice` what `read` does on the same bytes -/
theorem udp_read_vs_from_slice (pre b : Bytes) :
    match Udp.fromSlice b with
    | .ok (h, rest) => OkRow Reads.udp Udp.fromSlice pre b h rest
    | .error e => e = lenErrSlice 8 b.length "UdpHeader" ∧ b.length < 8 ∧ ReadsEof Reads.udp pre b :=
  udp_table pre b

/-- (1) `from_slice` succeeds ⟹ `read` succeeds, gathers and consumes exactly the header's bytes -/
theorem udp_read_of_slice (pre b : Bytes) (h) (rest : Bytes) (hd : Udp.fromSlice b = .ok (h, rest)) :
    ReadsOk Reads.udp pre b (b.length - rest.length) (b.take (b.length - rest.length)) ∧
      b = b.take (b.length - rest.length) ++ rest ∧
      Udp.fromSlice (b.take (b.length - rest.length)) = .ok (h, []) := by
  have t := udp_table pre b; rw [hd] at t; exact t

/-- (2) `read` succeeds with `g` ⟹ `b = g ++ rest`, `g.length` bytes consumed, same header from `g` and `b` -/
theorem udp_slice_of_read (pre b g : Bytes) (hr : (Reads.udp.run (readerAt pre b)).2 = .ok g) :
    ∃ h rest, Udp.fromSlice b = .ok (h, rest) ∧ b = g ++ rest ∧
      (Reads.udp.run (readerAt pre b)).1 = readerAdv pre b g.length ∧ Udp.fromSlice g = .ok (h, []) := by
  have t := udp_table pre b
  cases hd : Udp.fromSlice b with
  | ok x => rw [hd] at t; exact ⟨x.1, x.2, rfl, t.converse hr⟩
  | error e => rw [hd] at t; rw [t.2.2.snd] at hr; cases hr

/-- (3)+(4) one rejects iff the other does; there is no content error on either side: `from_slice`
    reports a length error, `read` the end of the data (everything consumed) -/
theorem udp_rejections_coincide (pre b : Bytes) :
    ((∃ e, Udp.fromSlice b = .error e) ↔ ∃ e, (Reads.udp.run (readerAt pre b)).2 = .error e) ∧
    (∀ e, Udp.fromSlice b = .error e →
      e = lenErrSlice 8 b.length "UdpHeader" ∧ b.length < 8 ∧ ReadsEof Reads.udp pre b) := by
  have t := udp_table pre b
  cases hd : Udp.fromSlice b with
  | ok x =>
    rw [hd] at t
    exact ⟨⟨fun ⟨e, he⟩ => (by cases he), fun ⟨e, he⟩ => (by rw [t.1.snd] at he; cases he)⟩,
      fun e he => (by cases he)⟩
  | error e =>
    rw [hd] at t
    exact ⟨⟨fun _ => ⟨_, t.2.2.snd⟩, fun _ => ⟨_, rfl⟩⟩, fun e' he => by cases he; exact t⟩

/-! #### Linux SLL (`LinuxSllHeader::read` / `from_slice`): packet type and ARP hardware id checks -/

/-- the complete comparison: for each outcome of `from_slice` what `read` does on the same bytes -/
theorem sll_read_vs_from_slice (pre b : Bytes) :
    match Sll.fromSlice b with
    | .ok (h, rest) => OkRow Reads.sll Sll.fromSlice pre b h rest
    | .error e =>
      (b.length < 16 ∧ e = lenErrSlice 16 b.length "LinuxSllHeader" ∧ ReadsEof Reads.sll pre b) ∨
      (16 ≤ b.length ∧ (∃ w, e = .content w) ∧ ReadsContent Reads.sll pre b 16 e.render) :=
  sll_table pre b

/-- (1) -/
theorem sll_read_of_slice (pre b : Bytes) (h) (rest : Bytes) (hd : Sll.fromSlice b = .ok (h, rest)) :
    ReadsOk Reads.sll pre b (b.length - rest.length) (b.take (b.length - rest.length)) ∧
      b = b.take (b.length - rest.length) ++ rest ∧
      Sll.fromSlice (b.take (b.length - rest.length)) = .ok (h, []) := by
  have t := sll_table pre b; rw [hd] at t; exact t

/-- (2) -/
theorem sll_slice_of_read (pre b g : Bytes) (hr : (Reads.sll.run (readerAt pre b)).2 = .ok g) :
    ∃ h rest, Sll.fromSlice b = .ok (h, rest) ∧ b = g ++ rest ∧
      (Reads.sll.run (readerAt pre b)).1 = readerAdv pre b g.length ∧ Sll.fromSlice g = .ok (h, []) := by
  have t := sll_table pre b
  cases hd : Sll.fromSlice b with
  | ok x => rw [hd] at t; exact ⟨x.1, x.2, rfl, t.converse hr⟩
  | error e =>
    rw [hd] at t
    rcases t with ⟨_, _, t⟩ | ⟨_, _, t⟩ <;> rw [t.snd] at hr <;> cases hr

/-- (3) the content rejections coincide (same error, `linkText` = its canonical text, which carries the
    offending packet type / hardware id), (4) a length error of `from_slice` is the reader's end of data -/
theorem sll_rejections_coincide (pre b : Bytes) :
    (∀ s, (Reads.sll.run (readerAt pre b)).2 = .error (.other s) ↔
      ∃ e, Sll.fromSlice b = .error e ∧ linkText e = some s) ∧
    ((Reads.sll.run (readerAt pre b)).2 = .error (.io .unexpectedEof) ↔
      ∃ le, Sll.fromSlice b = .error (.len le)) := by
  have t := sll_table pre b
  cases hd : Sll.fromSlice b with
  | ok x =>
    rw [hd] at t
    refine ⟨fun s => ⟨fun hr => ?_, fun ⟨e, he, _⟩ => (by cases he)⟩, ⟨fun hr => ?_, fun ⟨e, he⟩ => (by cases he)⟩⟩
    all_goals rw [t.1.snd] at hr; cases hr
  | error e =>
    rw [hd] at t
    rcases t with ⟨_, rfl, t⟩ | ⟨_, ⟨w, rfl⟩, t⟩
    · refine ⟨fun s => ⟨fun hr => ?_, fun ⟨e, he, ht⟩ => ?_⟩, ⟨fun _ => ⟨_, rfl⟩, fun _ => t.snd⟩⟩
      · rw [t.snd] at hr; cases hr
      · cases he; cases ht
    · refine ⟨fun s => ⟨fun hr => ?_, fun ⟨e, he, ht⟩ => ?_⟩, ⟨fun hr => ?_, fun ⟨le, he⟩ => (by cases he)⟩⟩
      · rw [t.snd] at hr; cases hr; exact ⟨_, rfl, rfl⟩
      · cases he; cases ht; exact t.snd
      · rw [t.snd] at hr; cases hr

/-! #### MACsec SecTag (`MacsecHeader::read` / `from_slice`): version and short length checks; `macsecReq b` = 6 (+2 unmodified) (+8 SCI) -/

/-- the complete comparison: for each outcome of `from_slice` what `read` does on the same bytes -/
theorem macsec_read_vs_from_slice (pre b : Bytes) :
    match Macsec.fromSlice b with
    | .ok (h, rest) => OkRow Reads.macsec Macsec.fromSlice pre b h rest
    | .error e =>
      ((∃ le, e = .len le) ∧ ReadsEof Reads.macsec pre b) ∨
      (6 ≤ b.length ∧ (∃ w, e = .content w) ∧ ReadsContent Reads.macsec pre b 6 e.render) :=
  macsec_table pre b

/-- (1) -/
theorem macsec_read_of_slice (pre b : Bytes) (h) (rest : Bytes) (hd : Macsec.fromSlice b = .ok (h, rest)) :
    ReadsOk Reads.macsec pre b (b.length - rest.length) (b.take (b.length - rest.length)) ∧
      b = b.take (b.length - rest.length) ++ rest ∧
      Macsec.fromSlice (b.take (b.length - rest.length)) = .ok (h, []) := by
  have t := macsec_table pre b; rw [hd] at t; exact t

/-- (2) -/
theorem macsec_slice_of_read (pre b g : Bytes) (hr : (Reads.macsec.run (readerAt pre b)).2 = .ok g) :
    ∃ h rest, Macsec.fromSlice b = .ok (h, rest) ∧ b = g ++ rest ∧
      (Reads.macsec.run (readerAt pre b)).1 = readerAdv pre b g.length ∧ Macsec.fromSlice g = .ok (h, []) := by
  have t := macsec_table pre b
  cases hd : Macsec.fromSlice b with
  | ok x => rw [hd] at t; exact ⟨x.1, x.2, rfl, t.converse hr⟩
  | error e =>
    rw [hd] at t
    rcases t with ⟨_, t⟩ | ⟨_, _, t⟩ <;> rw [t.snd] at hr <;> cases hr

/-- (3) the content rejections coincide (same error; `linkText` = its canonical text with the offending
    value), (4) a length error of `from_slice` is the reader's end of data -/
theorem macsec_rejections_coincide (pre b : Bytes) :
    (∀ s, (Reads.macsec.run (readerAt pre b)).2 = .error (.other s) ↔
      ∃ e, Macsec.fromSlice b = .error e ∧ linkText e = some s) ∧
    ((Reads.macsec.run (readerAt pre b)).2 = .error (.io .unexpectedEof) ↔
      ∃ le, Macsec.fromSlice b = .error (.len le)) := by
  have t := macsec_table pre b
  cases hd : Macsec.fromSlice b with
  | ok x =>
    rw [hd] at t
    refine ⟨fun s => ⟨fun hr => ?_, fun ⟨e, he, _⟩ => (by cases he)⟩, ⟨fun hr => ?_, fun ⟨e, he⟩ => (by cases he)⟩⟩
    all_goals rw [t.1.snd] at hr; cases hr
  | error e =>
    rw [hd] at t
    rcases t with ⟨⟨le, rfl⟩, t⟩ | ⟨_, ⟨w, rfl⟩, t⟩
    · refine ⟨fun s => ⟨fun hr => ?_, fun ⟨e, he, ht⟩ => ?_⟩, ⟨fun _ => ⟨_, rfl⟩, fun _ => t.snd⟩⟩
      · rw [t.snd] at hr; cases hr
      · cases he; cases ht
    · refine ⟨fun s => ⟨fun hr => ?_, fun ⟨e, he, ht⟩ => ?_⟩, ⟨fun hr => ?_, fun ⟨le, he⟩ => (by cases he)⟩⟩
      · rw [t.snd] at hr; cases hr; exact ⟨_, rfl, rfl⟩
      · cases he; cases ht; exact t.snd
      · rw [t.snd] at hr; cases hr

/-! #### TCP header (`TcpHeader::read` / `from_slice`): data offset check; `tcpLen b` = data offset · 4 -/

/-- the complete comparison: for each outcome of `from_slice` what `read` does on the same bytes -/
theorem tcp_read_vs_from_slice (pre b : Bytes) :
    match Tcp.fromSlice b with
    | .ok (h, rest) => OkRow Reads.tcp Tcp.fromSlice pre b h rest
    | .error e =>
      ((∃ le, e = .len le) ∧ ReadsEof Reads.tcp pre b) ∨
      (20 ≤ b.length ∧ (∃ w, e = .content w) ∧ ReadsContent Reads.tcp pre b 20 e.render) :=
  tcp_table pre b

/-- (1) -/
theorem tcp_read_of_slice (pre b : Bytes) (h) (rest : Bytes) (hd : Tcp.fromSlice b = .ok (h, rest)) :
    ReadsOk Reads.tcp pre b (b.length - rest.length) (b.take (b.length - rest.length)) ∧
      b = b.take (b.length - rest.length) ++ rest ∧
      Tcp.fromSlice (b.take (b.length - rest.length)) = .ok (h, []) := by
  have t := tcp_table pre b; rw [hd] at t; exact t

/-- (2) -/
theorem tcp_slice_of_read (pre b g : Bytes) (hr : (Reads.tcp.run (readerAt pre b)).2 = .ok g) :
    ∃ h rest, Tcp.fromSlice b = .ok (h, rest) ∧ b = g ++ rest ∧
      (Reads.tcp.run (readerAt pre b)).1 = readerAdv pre b g.length ∧ Tcp.fromSlice g = .ok (h, []) := by
  have t := tcp_table pre b
  cases hd : Tcp.fromSlice b with
  | ok x => rw [hd] at t; exact ⟨x.1, x.2, rfl, t.converse hr⟩
  | error e =>
    rw [hd] at t
    rcases t with ⟨_, t⟩ | ⟨_, _, t⟩ <;> rw [t.snd] at hr <;> cases hr

/-- (3) the content rejections coincide (same error; `linkText` = its canonical text with the offending
    value), (4) a length error of `from_slice` is the reader's end of data -/
theorem tcp_rejections_coincide (pre b : Bytes) :
    (∀ s, (Reads.tcp.run (readerAt pre b)).2 = .error (.other s) ↔
      ∃ e, Tcp.fromSlice b = .error e ∧ linkText e = some s) ∧
    ((Reads.tcp.run (readerAt pre b)).2 = .error (.io .unexpectedEof) ↔
      ∃ le, Tcp.fromSlice b = .error (.len le)) := by
  have t := tcp_table pre b
  cases hd : Tcp.fromSlice b with
  | ok x =>
    rw [hd] at t
    refine ⟨fun s => ⟨fun hr => ?_, fun ⟨e, he, _⟩ => (by cases he)⟩, ⟨fun hr => ?_, fun ⟨e, he⟩ => (by cases he)⟩⟩
    all_goals rw [t.1.snd] at hr; cases hr
  | error e =>
    rw [hd] at t
    rcases t with ⟨⟨le, rfl⟩, t⟩ | ⟨_, ⟨w, rfl⟩, t⟩
    · refine ⟨fun s => ⟨fun hr => ?_, fun ⟨e, he, ht⟩ => ?_⟩, ⟨fun _ => ⟨_, rfl⟩, fun _ => t.snd⟩⟩
      · rw [t.snd] at hr; cases hr
      · cases he; cases ht
    · refine ⟨fun s => ⟨fun hr => ?_, fun ⟨e, he, ht⟩ => ?_⟩, ⟨fun hr => ?_, fun ⟨le, he⟩ => (by cases he)⟩⟩
      · rw [t.snd] at hr; cases hr; exact ⟨_, rfl, rfl⟩
      · cases he; cases ht; exact t.snd
      · rw [t.snd] at hr; cases hr

/-! #### ICMPv4 header (`Icmpv4Header::read` / `from_slice`); `icmp4Len b` = 20 for timestamp / timestamp
  reply messages (type 13 / 14, code 0), 8 otherwise.  EXCEPTION (needs the end of the slice):
  `from_slice` accepts a timestamp message only if the slice is *exactly* 20 bytes long; the reader
  cannot see the end, reads the 20 bytes and succeeds. -/

/-- the complete comparison: for each outcome of `from_slice` what `read` does on the same bytes -/
theorem icmpv4_read_vs_from_slice (pre b : Bytes) :
    match Icmp4.fromSlice b with
    | .ok (h, rest) => OkRow Reads.icmpv4 Icmp4.fromSlice pre b h rest
    | .error e =>
      (∃ le, e = .len le) ∧
      ((b.length < icmp4Len b ∧ ReadsEof Reads.icmpv4 pre b) ∨
       (icmp4Len b = 20 ∧ 20 < b.length ∧ ReadsOk Reads.icmpv4 pre b 20 (b.take 20) ∧
         ∃ h, Icmp4.fromSlice (b.take 20) = .ok (h, []))) :=
  icmpv4_table pre b

/-- (1) -/
theorem icmpv4_read_of_slice (pre b : Bytes) (h) (rest : Bytes) (hd : Icmp4.fromSlice b = .ok (h, rest)) :
    ReadsOk Reads.icmpv4 pre b (b.length - rest.length) (b.take (b.length - rest.length)) ∧
      b = b.take (b.length - rest.length) ++ rest ∧
      Icmp4.fromSlice (b.take (b.length - rest.length)) = .ok (h, []) := by
  have t := icmpv4_table pre b; rw [hd] at t; exact t

/-- (2) `read` succeeds with `g` ⟹ `b = g ++ rest`, `g.length` bytes consumed, `g` decodes to a header,
    and `from_slice b` gives the same header — except for a timestamp message followed by more bytes,
    which `from_slice` rejects with a length error (exact-size rule) -/
theorem icmpv4_slice_of_read (pre b g : Bytes) (hr : (Reads.icmpv4.run (readerAt pre b)).2 = .ok g) :
    ∃ h rest, b = g ++ rest ∧ (Reads.icmpv4.run (readerAt pre b)).1 = readerAdv pre b g.length ∧
      Icmp4.fromSlice g = .ok (h, []) ∧
      (Icmp4.fromSlice b = .ok (h, rest) ∨
       (icmp4Len b = 20 ∧ rest ≠ [] ∧ ∃ le, Icmp4.fromSlice b = .error (.len le))) := by
  have t := icmpv4_table pre b
  cases hd : Icmp4.fromSlice b with
  | ok x =>
    rw [hd] at t
    have c := t.converse hr
    exact ⟨x.1, x.2, c.1, c.2.1, c.2.2, .inl rfl⟩
  | error e =>
    rw [hd] at t
    obtain ⟨⟨le, rfl⟩, ⟨_, t⟩ | ⟨h20, hlt, t, h, hg⟩⟩ := t
    · rw [t.snd] at hr; cases hr
    · rw [t.snd] at hr; cases hr
      have hl : (b.take 20).length = 20 := by simp [List.length_take]; omega
      refine ⟨h, b.drop 20, (List.take_append_drop 20 b).symm, by rw [hl]; exact t.fst, hg, .inr ⟨h20, ?_, le, rfl⟩⟩
      intro h0
      have : (b.drop 20).length = 0 := by rw [h0]; rfl
      simp [List.length_drop] at this; omega

/-- (3)+(4) no content errors on either side; `read` fails (end of data) exactly when fewer than
    `icmp4Len b` bytes are there, and then `from_slice` reports a length error -/
theorem icmpv4_rejections_coincide (pre b : Bytes) :
    (∀ e, (Reads.icmpv4.run (readerAt pre b)).2 = .error e →
      e = .io .unexpectedEof ∧ b.length < icmp4Len b ∧ ∃ le, Icmp4.fromSlice b = .error (.len le)) ∧
    (∀ e, Icmp4.fromSlice b = .error e → (∃ le, e = .len le) ∧
      (b.length < icmp4Len b ∧ ReadsEof Reads.icmpv4 pre b ∨ icmp4Len b = 20 ∧ 20 < b.length)) := by
  have t := icmpv4_table pre b
  cases hd : Icmp4.fromSlice b with
  | ok x =>
    rw [hd] at t
    exact ⟨fun e he => (by rw [t.1.snd] at he; cases he), fun e he => (by cases he)⟩
  | error e =>
    rw [hd] at t
    obtain ⟨⟨le, rfl⟩, ⟨hs, t⟩ | ⟨h20, hlt, t, _⟩⟩ := t
    · exact ⟨fun e he => (by rw [t.snd] at he; cases he; exact ⟨rfl, hs, le, rfl⟩),
        fun e he => (by cases he; exact ⟨⟨_, rfl⟩, .inl ⟨hs, t⟩⟩)⟩
    · exact ⟨fun e he => (by rw [t.snd] at he; cases he),
        fun e he => (by cases he; exact ⟨⟨_, rfl⟩, .inr ⟨h20, hlt⟩⟩)⟩

/-! #### ICMPv6 header (`Icmpv6Header::read` / `from_slice`).  EXCEPTION (needs the end of the slice):
  `from_slice` rejects slices longer than `u32::MAX` bytes; the reader reads 8 bytes and succeeds. -/

/-- the complete comparison: for each outcome of `from_slice` what `read` does on the same bytes -/
theorem icmpv6_read_vs_from_slice (pre b : Bytes) :
    match Icmp6.fromSlice b with
    | .ok (h, rest) => OkRow Reads.icmpv6 Icmp6.fromSlice pre b h rest
    | .error e =>
      (b.length < 8 ∧ e = lenErrSlice 8 b.length "Icmpv6" ∧ ReadsEof Reads.icmpv6 pre b) ∨
      (4294967295 < b.length ∧ e = lenErrSlice 4294967295 b.length "Icmpv6" ∧
        ReadsOk Reads.icmpv6 pre b 8 (b.take 8) ∧ ∃ h, Icmp6.fromSlice (b.take 8) = .ok (h, [])) :=
  icmpv6_table pre b

/-- (1) -/
theorem icmpv6_read_of_slice (pre b : Bytes) (h) (rest : Bytes) (hd : Icmp6.fromSlice b = .ok (h, rest)) :
    ReadsOk Reads.icmpv6 pre b (b.length - rest.length) (b.take (b.length - rest.length)) ∧
      b = b.take (b.length - rest.length) ++ rest ∧
      Icmp6.fromSlice (b.take (b.length - rest.length)) = .ok (h, []) := by
  have t := icmpv6_table pre b; rw [hd] at t; exact t

/-- (2), with the explicit exception for slices longer than `u32::MAX` -/
theorem icmpv6_slice_of_read (pre b g : Bytes) (hr : (Reads.icmpv6.run (readerAt pre b)).2 = .ok g) :
    ∃ h rest, b = g ++ rest ∧ (Reads.icmpv6.run (readerAt pre b)).1 = readerAdv pre b g.length ∧
      Icmp6.fromSlice g = .ok (h, []) ∧
      (Icmp6.fromSlice b = .ok (h, rest) ∨
       (4294967295 < b.length ∧ Icmp6.fromSlice b = .error (lenErrSlice 4294967295 b.length "Icmpv6"))) := by
  have t := icmpv6_table pre b
  cases hd : Icmp6.fromSlice b with
  | ok x =>
    rw [hd] at t
    have c := t.converse hr
    exact ⟨x.1, x.2, c.1, c.2.1, c.2.2, .inl rfl⟩
  | error e =>
    rw [hd] at t
    obtain ⟨_, _, t⟩ | ⟨hlt, rfl, t, h, hg⟩ := t
    · rw [t.snd] at hr; cases hr
    · rw [t.snd] at hr; cases hr
      have hl : (b.take 8).length = 8 := by simp [List.length_take]; omega
      exact ⟨h, b.drop 8, (List.take_append_drop 8 b).symm, by rw [hl]; exact t.fst, hg, .inr ⟨hlt, rfl⟩⟩

/-- (3)+(4) no content errors on either side; `read` fails (end of data) exactly when fewer than 8 bytes
    are there, and then `from_slice` reports the length error -/
theorem icmpv6_rejections_coincide (pre b : Bytes) :
    (∀ e, (Reads.icmpv6.run (readerAt pre b)).2 = .error e →
      e = .io .unexpectedEof ∧ b.length < 8 ∧ Icmp6.fromSlice b = .error (lenErrSlice 8 b.length "Icmpv6")) ∧
    (∀ e, Icmp6.fromSlice b = .error e →
      (b.length < 8 ∧ e = lenErrSlice 8 b.length "Icmpv6" ∧ ReadsEof Reads.icmpv6 pre b) ∨
      (4294967295 < b.length ∧ e = lenErrSlice 4294967295 b.length "Icmpv6")) := by
  have t := icmpv6_table pre b
  cases hd : Icmp6.fromSlice b with
  | ok x =>
    rw [hd] at t
    exact ⟨fun e he => (by rw [t.1.snd] at he; cases he), fun e he => (by cases he)⟩
  | error e =>
    rw [hd] at t
    obtain ⟨hs, rfl, t⟩ | ⟨hlt, rfl, t, _⟩ := t
    · exact ⟨fun e he => (by rw [t.snd] at he; cases he; exact ⟨rfl, hs, rfl⟩),
        fun e he => (by cases he; exact .inl ⟨hs, rfl, t⟩)⟩
    · exact ⟨fun e he => (by rw [t.snd] at he; cases he),
        fun e he => (by cases he; exact .inr ⟨hlt, rfl⟩)⟩

/-! #### IPv4 header (`Ipv4Header::read` / `from_slice`): version and IHL checks; `ipv4Len b` = IHL · 4.
  (The single-header decoder has no `total_len` rule; that one is part of `IpHeaders`, below.)
  The reader looks at the version nibble after ONE byte, the slice decoder checks `len ≥ 20` first:
  on a slice shorter than 20 bytes with a wrong version nibble `from_slice` reports the length, `read`
  the version.  Stated explicitly in the `.len` row. -/

/-- the complete comparison: for each outcome of `from_slice` what `read` does on the same bytes -/
theorem ipv4_header_read_vs_from_slice (pre b : Bytes) :
    match Ipv4Header.fromSlice b with
    | .ok (h, rest) => OkRow Reads.ipv4 Ipv4Header.fromSlice pre b h rest
    | .error (.unexpectedVersion v) =>
      20 ≤ b.length ∧ v = bAt b 0 >>> 4 ∧ v ≠ 4 ∧ ReadsContent Reads.ipv4 pre b 1 s!"err(version({v}))"
    | .error (.headerLengthSmallerThanHeader i) =>
      20 ≤ b.length ∧ i = bAt b 0 &&& 0xf ∧ i < 5 ∧ ReadsContent Reads.ipv4 pre b 20 s!"err(ihl({i}))"
    | .error (.len le) =>
      ((b.length < 20 ∧ le = sliceLenErr 20 b.length .ipv4Header) ∨
       (20 ≤ b.length ∧ b.length < ipv4Len b ∧ le = sliceLenErr (ipv4Len b) b.length .ipv4Header)) ∧
      (((b = [] ∨ bAt b 0 >>> 4 = 4) ∧ ReadsEof Reads.ipv4 pre b) ∨
       (b ≠ [] ∧ b.length < 20 ∧ bAt b 0 >>> 4 ≠ 4 ∧
         ReadsContent Reads.ipv4 pre b 1 s!"err(version({bAt b 0 >>> 4}))")) :=
  ipv4_table pre b

/-- (1) -/
theorem ipv4_header_read_of_slice (pre b : Bytes) (h) (rest : Bytes)
    (hd : Ipv4Header.fromSlice b = .ok (h, rest)) :
    ReadsOk Reads.ipv4 pre b (b.length - rest.length) (b.take (b.length - rest.length)) ∧
      b = b.take (b.length - rest.length) ++ rest ∧
      Ipv4Header.fromSlice (b.take (b.length - rest.length)) = .ok (h, []) := by
  have t := ipv4_table pre b; rw [hd] at t; exact t

/-- (2) -/
theorem ipv4_header_slice_of_read (pre b g : Bytes) (hr : (Reads.ipv4.run (readerAt pre b)).2 = .ok g) :
    ∃ h rest, Ipv4Header.fromSlice b = .ok (h, rest) ∧ b = g ++ rest ∧
      (Reads.ipv4.run (readerAt pre b)).1 = readerAdv pre b g.length ∧
      Ipv4Header.fromSlice g = .ok (h, []) := by
  have t := ipv4_table pre b
  cases hd : Ipv4Header.fromSlice b with
  | ok x => rw [hd] at t; exact ⟨x.1, x.2, rfl, t.converse hr⟩
  | error e =>
    rw [hd] at t
    cases e with
    | unexpectedVersion v => rw [t.2.2.2.snd] at hr; cases hr
    | headerLengthSmallerThanHeader i => rw [t.2.2.2.snd] at hr; cases hr
    | len le => rcases t.2 with ⟨_, t⟩ | ⟨_, _, _, t⟩ <;> rw [t.snd] at hr <;> cases hr

/-- (3) a content error of `from_slice` is the content error of `read` (same text = same offending
    value); conversely on a slice of at least 20 bytes; (4) a length error of `from_slice`: `read` never
    succeeds, it reports the end of the data — or, on fewer than 20 bytes, the wrong version nibble -/
theorem ipv4_header_rejections_coincide (pre b : Bytes) :
    (∀ e s, Ipv4Header.fromSlice b = .error e → ipv4ErrText e = some s →
      (Reads.ipv4.run (readerAt pre b)).2 = .error (.other s)) ∧
    (20 ≤ b.length → ∀ s, (Reads.ipv4.run (readerAt pre b)).2 = .error (.other s) →
      ∃ e, Ipv4Header.fromSlice b = .error e ∧ ipv4ErrText e = some s) ∧
    (∀ le, Ipv4Header.fromSlice b = .error (.len le) →
      (Reads.ipv4.run (readerAt pre b)).2 = .error (.io .unexpectedEof) ∨
      (b.length < 20 ∧ (Reads.ipv4.run (readerAt pre b)).2 =
        .error (.other s!"err(version({bAt b 0 >>> 4}))"))) ∧
    ((Reads.ipv4.run (readerAt pre b)).2 = .error (.io .unexpectedEof) →
      ∃ le, Ipv4Header.fromSlice b = .error (.len le)) := by
  have t := ipv4_table pre b
  cases hd : Ipv4Header.fromSlice b with
  | ok x =>
    rw [hd] at t
    refine ⟨fun e s he => (by cases he), fun _ s hr => ?_, fun le he => (by cases he), fun hr => ?_⟩
    all_goals rw [t.1.snd] at hr; cases hr
  | error e =>
    rw [hd] at t
    cases e with
    | unexpectedVersion v =>
      refine ⟨fun e s he ht => ?_, fun _ s hr => ?_, fun le he => (by cases he), fun hr => ?_⟩
      · cases he; cases ht; exact t.2.2.2.snd
      · rw [t.2.2.2.snd] at hr; cases hr; exact ⟨_, rfl, rfl⟩
      · rw [t.2.2.2.snd] at hr; cases hr
    | headerLengthSmallerThanHeader i =>
      refine ⟨fun e s he ht => ?_, fun _ s hr => ?_, fun le he => (by cases he), fun hr => ?_⟩
      · cases he; cases ht; exact t.2.2.2.snd
      · rw [t.2.2.2.snd] at hr; cases hr; exact ⟨_, rfl, rfl⟩
      · rw [t.2.2.2.snd] at hr; cases hr
    | len le =>
      refine ⟨fun e s he ht => (by cases he; cases ht), fun h20 s hr => ?_, fun le' he => ?_, fun _ => ⟨_, rfl⟩⟩
      · rcases t.2 with ⟨_, t⟩ | ⟨_, hl, _, _⟩
        · rw [t.snd] at hr; cases hr
        · omega
      · rcases t.2 with ⟨_, t⟩ | ⟨_, hl, _, t⟩
        · exact .inl t.snd
        · exact .inr ⟨hl, t.snd⟩

/-! #### IPv6 header (`Ipv6Header::read` / `from_slice`): version check.  (No `payload_length` rule in
  the single-header decoder; that one is part of `IpHeaders`.)  Same check-order remark as for IPv4. -/

/-- the complete comparison: for each outcome of `from_slice` what `read` does on the same bytes -/
theorem ipv6_header_read_vs_from_slice (pre b : Bytes) :
    match Ipv6Header.fromSlice b with
    | .ok (h, rest) => OkRow Reads.ipv6 Ipv6Header.fromSlice pre b h rest
    | .error (.unexpectedVersion v) =>
      40 ≤ b.length ∧ v = bAt b 0 >>> 4 ∧ v ≠ 6 ∧ ReadsContent Reads.ipv6 pre b 1 s!"err(version({v}))"
    | .error (.len le) =>
      b.length < 40 ∧ le = sliceLenErr 40 b.length .ipv6Header ∧
      (((b = [] ∨ bAt b 0 >>> 4 = 6) ∧ ReadsEof Reads.ipv6 pre b) ∨
       (b ≠ [] ∧ bAt b 0 >>> 4 ≠ 6 ∧
         ReadsContent Reads.ipv6 pre b 1 s!"err(version({bAt b 0 >>> 4}))")) :=
  ipv6_table pre b

/-- (1) -/
theorem ipv6_header_read_of_slice (pre b : Bytes) (h) (rest : Bytes)
    (hd : Ipv6Header.fromSlice b = .ok (h, rest)) :
    ReadsOk Reads.ipv6 pre b (b.length - rest.length) (b.take (b.length - rest.length)) ∧
      b = b.take (b.length - rest.length) ++ rest ∧
      Ipv6Header.fromSlice (b.take (b.length - rest.length)) = .ok (h, []) := by
  have t := ipv6_table pre b; rw [hd] at t; exact t

/-- (2) -/
theorem ipv6_header_slice_of_read (pre b g : Bytes) (hr : (Reads.ipv6.run (readerAt pre b)).2 = .ok g) :
    ∃ h rest, Ipv6Header.fromSlice b = .ok (h, rest) ∧ b = g ++ rest ∧
      (Reads.ipv6.run (readerAt pre b)).1 = readerAdv pre b g.length ∧
      Ipv6Header.fromSlice g = .ok (h, []) := by
  have t := ipv6_table pre b
  cases hd : Ipv6Header.fromSlice b with
  | ok x => rw [hd] at t; exact ⟨x.1, x.2, rfl, t.converse hr⟩
  | error e =>
    rw [hd] at t
    cases e with
    | unexpectedVersion v => rw [t.2.2.2.snd] at hr; cases hr
    | len le => rcases t.2.2 with ⟨_, t⟩ | ⟨_, _, t⟩ <;> rw [t.snd] at hr <;> cases hr

/-- (3) + (4), as for IPv4 -/
theorem ipv6_header_rejections_coincide (pre b : Bytes) :
    (∀ e s, Ipv6Header.fromSlice b = .error e → ipv6ErrText e = some s →
      (Reads.ipv6.run (readerAt pre b)).2 = .error (.other s)) ∧
    (40 ≤ b.length → ∀ s, (Reads.ipv6.run (readerAt pre b)).2 = .error (.other s) →
      ∃ e, Ipv6Header.fromSlice b = .error e ∧ ipv6ErrText e = some s) ∧
    (∀ le, Ipv6Header.fromSlice b = .error (.len le) → b.length < 40 ∧
      ((Reads.ipv6.run (readerAt pre b)).2 = .error (.io .unexpectedEof) ∨
       (Reads.ipv6.run (readerAt pre b)).2 = .error (.other s!"err(version({bAt b 0 >>> 4}))"))) ∧
    ((Reads.ipv6.run (readerAt pre b)).2 = .error (.io .unexpectedEof) →
      ∃ le, Ipv6Header.fromSlice b = .error (.len le)) := by
  have t := ipv6_table pre b
  cases hd : Ipv6Header.fromSlice b with
  | ok x =>
    rw [hd] at t
    refine ⟨fun e s he => (by cases he), fun _ s hr => ?_, fun le he => (by cases he), fun hr => ?_⟩
    all_goals rw [t.1.snd] at hr; cases hr
  | error e =>
    rw [hd] at t
    cases e with
    | unexpectedVersion v =>
      refine ⟨fun e s he ht => ?_, fun _ s hr => ?_, fun le he => (by cases he), fun hr => ?_⟩
      · cases he; cases ht; exact t.2.2.2.snd
      · rw [t.2.2.2.snd] at hr; cases hr; exact ⟨_, rfl, rfl⟩
      · rw [t.2.2.2.snd] at hr; cases hr
    | len le =>
      refine ⟨fun e s he ht => (by cases he; cases ht), fun h40 s hr => (by have := t.1; omega),
        fun le' he => ⟨t.1, ?_⟩, fun _ => ⟨_, rfl⟩⟩
      rcases t.2.2 with ⟨_, t⟩ | ⟨_, _, t⟩
      · exact .inl t.snd
      · exact .inr t.snd

/-! #### IP authentication header (`IpAuthHeader::read` / `from_slice`): payload length 0 check;
  `authLen b` = (b[1]+2)·4 -/

/-- the complete comparison: for each outcome of `from_slice` what `read` does on the same bytes
    (the `unwrap` of `to_header` is unreachable) -/
theorem ip_auth_read_vs_from_slice (pre b : Bytes) :
    match IpAuthHeader.fromSlice b with
    | .ok (h, rest) => OkRow Reads.auth IpAuthHeader.fromSlice pre b h rest
    | .error .zeroPayloadLen =>
      12 ≤ b.length ∧ bAt b 1 = 0 ∧ ReadsContent Reads.auth pre b 12 "err(zeropayloadlen)"
    | .error (.len le) =>
      ((b.length < 12 ∧ le = sliceLenErr 12 b.length .ipAuthHeader) ∨
       (12 ≤ b.length ∧ b.length < authLen b ∧ le = sliceLenErr (authLen b) b.length .ipAuthHeader)) ∧
      ReadsEof Reads.auth pre b
    | .error .panicUnwrap => False :=
  auth_table pre b

/-- (1) -/
theorem ip_auth_read_of_slice (pre b : Bytes) (h) (rest : Bytes)
    (hd : IpAuthHeader.fromSlice b = .ok (h, rest)) :
    ReadsOk Reads.auth pre b (b.length - rest.length) (b.take (b.length - rest.length)) ∧
      b = b.take (b.length - rest.length) ++ rest ∧
      IpAuthHeader.fromSlice (b.take (b.length - rest.length)) = .ok (h, []) := by
  have t := auth_table pre b; rw [hd] at t; exact t

/-- (2) -/
theorem ip_auth_slice_of_read (pre b g : Bytes) (hr : (Reads.auth.run (readerAt pre b)).2 = .ok g) :
    ∃ h rest, IpAuthHeader.fromSlice b = .ok (h, rest) ∧ b = g ++ rest ∧
      (Reads.auth.run (readerAt pre b)).1 = readerAdv pre b g.length ∧
      IpAuthHeader.fromSlice g = .ok (h, []) := by
  have t := auth_table pre b
  cases hd : IpAuthHeader.fromSlice b with
  | ok x => rw [hd] at t; exact ⟨x.1, x.2, rfl, t.converse hr⟩
  | error e =>
    rw [hd] at t
    cases e with
    | zeroPayloadLen => rw [t.2.2.snd] at hr; cases hr
    | len le => rw [t.2.snd] at hr; cases hr
    | panicUnwrap => exact t.elim

/-- (3) the content rejection coincides, (4) a length error of `from_slice` is the reader's end of data -/
theorem ip_auth_rejections_coincide (pre b : Bytes) :
    (∀ s, (Reads.auth.run (readerAt pre b)).2 = .error (.other s) ↔
      ∃ e, IpAuthHeader.fromSlice b = .error e ∧ authErrText e = some s) ∧
    ((Reads.auth.run (readerAt pre b)).2 = .error (.io .unexpectedEof) ↔
      ∃ le, IpAuthHeader.fromSlice b = .error (.len le)) := by
  have t := auth_table pre b
  cases hd : IpAuthHeader.fromSlice b with
  | ok x =>
    rw [hd] at t
    refine ⟨fun s => ⟨fun hr => ?_, fun ⟨e, he, _⟩ => (by cases he)⟩, ⟨fun hr => ?_, fun ⟨e, he⟩ => (by cases he)⟩⟩
    all_goals rw [t.1.snd] at hr; cases hr
  | error e =>
    rw [hd] at t
    cases e with
    | zeroPayloadLen =>
      refine ⟨fun s => ⟨fun hr => ?_, fun ⟨e, he, ht⟩ => ?_⟩, ⟨fun hr => ?_, fun ⟨le, he⟩ => (by cases he)⟩⟩
      · rw [t.2.2.snd] at hr; cases hr; exact ⟨_, rfl, rfl⟩
      · cases he; cases ht; exact t.2.2.snd
      · rw [t.2.2.snd] at hr; cases hr
    | len le =>
      refine ⟨fun s => ⟨fun hr => ?_, fun ⟨e, he, ht⟩ => ?_⟩, ⟨fun _ => ⟨_, rfl⟩, fun _ => t.2.snd⟩⟩
      · rw [t.2.snd] at hr; cases hr
      · cases he; cases ht
    | panicUnwrap => exact t.elim

/-! #### Ipv4Extensions (`Ipv4Extensions::read` / `from_slice`): the authentication header, if the start
  ip number announces one.  The reader returns the gathered bytes of that header (or `none`) and the next
  ip number; the decoder of the gathered bytes is `Ipv4Extensions.fromSlice start` itself. -/

/-- the complete comparison: for each outcome of `from_slice` what `read` does on the same bytes -/
theorem ipv4_exts_read_vs_from_slice (start : Nat) (pre b : Bytes) :
    match Ipv4Extensions.fromSlice start b with
    | .ok (e, next, rest) =>
      ReadsOk (Reads.ipv4exts start) pre b (b.length - rest.length)
        (if ipNumberAuth = start then some (b.take (b.length - rest.length)) else none, next) ∧
      b = b.take (b.length - rest.length) ++ rest ∧
      Ipv4Extensions.fromSlice start (b.take (b.length - rest.length)) = .ok (e, next, [])
    | .error .zeroPayloadLen =>
      ipNumberAuth = start ∧ 12 ≤ b.length ∧ bAt b 1 = 0 ∧
      ReadsContent (Reads.ipv4exts start) pre b 12 "err(zeropayloadlen)"
    | .error (.len le) =>
      ipNumberAuth = start ∧
      ((b.length < 12 ∧ le = sliceLenErr 12 b.length .ipAuthHeader) ∨
       (12 ≤ b.length ∧ b.length < authLen b ∧ le = sliceLenErr (authLen b) b.length .ipAuthHeader)) ∧
      ReadsEof (Reads.ipv4exts start) pre b
    | .error .panicUnwrap => False :=
  ipv4exts_table start pre b

/-- (1) -/
theorem ipv4_exts_read_of_slice (start : Nat) (pre b : Bytes) (e) (next : Nat) (rest : Bytes)
    (hd : Ipv4Extensions.fromSlice start b = .ok (e, next, rest)) :
    ReadsOk (Reads.ipv4exts start) pre b (b.length - rest.length)
        (if ipNumberAuth = start then some (b.take (b.length - rest.length)) else none, next) ∧
      b = b.take (b.length - rest.length) ++ rest ∧
      Ipv4Extensions.fromSlice start (b.take (b.length - rest.length)) = .ok (e, next, []) := by
  have t := ipv4exts_table start pre b; rw [hd] at t; exact t

/-- (2) `read` succeeds with `(g, next)` ⟹ `from_slice` succeeds with the same next ip number, the
    gathered bytes are the ones in front of `rest`, and they decode to the same extensions -/
theorem ipv4_exts_slice_of_read (start : Nat) (pre b : Bytes) (g : Option Bytes) (next : Nat)
    (hr : ((Reads.ipv4exts start).run (readerAt pre b)).2 = .ok (g, next)) :
    ∃ e rest, Ipv4Extensions.fromSlice start b = .ok (e, next, rest) ∧ b = g.getD [] ++ rest ∧
      ((Reads.ipv4exts start).run (readerAt pre b)).1 = readerAdv pre b (g.getD []).length ∧
      (g.isSome ↔ ipNumberAuth = start) ∧
      Ipv4Extensions.fromSlice start (g.getD []) = .ok (e, next, []) := by
  have t := ipv4exts_table start pre b
  cases hd : Ipv4Extensions.fromSlice start b with
  | ok x =>
    obtain ⟨e, n, rest⟩ := x
    rw [hd] at t
    obtain ⟨t1, t2, t3⟩ := t
    rw [t1.snd] at hr
    cases hr
    have hl : (b.take (b.length - rest.length)).length = b.length - rest.length := by
      simp [List.length_take]
    by_cases hs : ipNumberAuth = start
    · simp only [if_pos hs, Option.getD_some, hl, Option.isSome_some, true_iff]
      exact ⟨e, rest, rfl, t2, t1.fst, hs, t3⟩
    · have h0 : b.length - rest.length = 0 := by
        have := ipv4exts_dec start b
        rw [if_neg hs, hd] at this
        cases this; simp
      simp only [if_neg hs, Option.getD_none, List.length_nil, Option.isSome_none, List.nil_append]
      rw [h0] at t1 t2 t3
      exact ⟨e, rest, rfl, by simpa using t2, t1.fst, ⟨fun h => (by cases h), fun h => absurd h hs⟩, by simpa using t3⟩
  | error e =>
    rw [hd] at t
    cases e with
    | zeroPayloadLen => rw [t.2.2.2.snd] at hr; cases hr
    | len le => rw [t.2.2.snd] at hr; cases hr
    | panicUnwrap => exact t.elim

/-- (3) the content rejection coincides, (4) a length error of `from_slice` is the reader's end of data -/
theorem ipv4_exts_rejections_coincide (start : Nat) (pre b : Bytes) :
    (∀ s, ((Reads.ipv4exts start).run (readerAt pre b)).2 = .error (.other s) ↔
      ∃ e, Ipv4Extensions.fromSlice start b = .error e ∧ authErrText e = some s) ∧
    (((Reads.ipv4exts start).run (readerAt pre b)).2 = .error (.io .unexpectedEof) ↔
      ∃ le, Ipv4Extensions.fromSlice start b = .error (.len le)) := by
  have t := ipv4exts_table start pre b
  cases hd : Ipv4Extensions.fromSlice start b with
  | ok x =>
    rw [hd] at t
    refine ⟨fun s => ⟨fun hr => ?_, fun ⟨e, he, _⟩ => (by cases he)⟩, ⟨fun hr => ?_, fun ⟨e, he⟩ => (by cases he)⟩⟩
    all_goals rw [t.1.snd] at hr; cases hr
  | error e =>
    rw [hd] at t
    cases e with
    | zeroPayloadLen =>
      refine ⟨fun s => ⟨fun hr => ?_, fun ⟨e, he, ht⟩ => ?_⟩, ⟨fun hr => ?_, fun ⟨le, he⟩ => (by cases he)⟩⟩
      · rw [t.2.2.2.snd] at hr; cases hr; exact ⟨_, rfl, rfl⟩
      · cases he; cases ht; exact t.2.2.2.snd
      · rw [t.2.2.2.snd] at hr; cases hr
    | len le =>
      refine ⟨fun s => ⟨fun hr => ?_, fun ⟨e, he, ht⟩ => ?_⟩, ⟨fun _ => ⟨_, rfl⟩, fun _ => t.2.2.snd⟩⟩
      · rw [t.2.2.snd] at hr; cases hr
      · cases he; cases ht
    | panicUnwrap => exact t.elim

/-! #### Ipv6Extensions (`Ipv6Extensions::read` / `from_slice`): the whole extension header chain.
  Slice side: `Ext.Exts.fromSlice` (the model of C12, `ext.from_slice` correspondence).  The reader returns,
  per header, the bytes it gathered (`ExtsRead.got`, in reading order) and the next ip number.  Glue
  (Lemmas/ReadVsSlice.lean): `gathered got` = the concatenation of the gathered bytes; `decodeGot got` =
  `decode ∘ gather`: every gathered header decoded with the slice decoder of its own type and put into the
  slot the reader filled; `extsErrText` = canonical text of the two content errors (hop-by-hop header not
  at the start, authentication header with payload length 0).  Proved by induction along the two loops
  (`loop_rel`): the reader's free-slot list and the decoder's partially filled struct stay in step
  (`FreeInv`), including the routing / final-destination-options bookkeeping. -/

/-- the complete comparison: for each outcome of `from_slice` what `read` does on the same bytes
    (the `unwrap`s of `to_header` are unreachable) -/
theorem ipv6_exts_read_vs_from_slice (start : Nat) (pre b : Bytes) :
    match Ext.Exts.fromSlice start b with
    | .ok (e, next, rest) =>
      ∃ got, ReadsOk (Reads.ipv6exts start) pre b (b.length - rest.length) { got := got, next := next } ∧
        b = b.take (b.length - rest.length) ++ rest ∧
        gathered got = b.take (b.length - rest.length) ∧ decodeGot got = some e ∧
        Ext.Exts.fromSlice start (b.take (b.length - rest.length)) = .ok (e, next, [])
    | .error (.err (.len _)) => ReadsEof (Reads.ipv6exts start) pre b
    | .error (.err (.content c)) =>
      ∃ n, n ≤ b.length ∧ ReadsContent (Reads.ipv6exts start) pre b n (extsErrText c)
    | .error .panic => False :=
  ipv6exts_table start pre b

/-- (1) `from_slice` succeeds ⟹ `read` succeeds with the same next ip number, the gathered headers are,
    concatenated, exactly the bytes in front of `rest` (all consumed, nothing more), and they decode to
    the same `Ipv6Extensions` -/
theorem ipv6_exts_read_of_slice (start : Nat) (pre b : Bytes) (e : Ext.Exts) (next : Nat) (rest : Bytes)
    (hd : Ext.Exts.fromSlice start b = .ok (e, next, rest)) :
    ∃ got, ReadsOk (Reads.ipv6exts start) pre b (b.length - rest.length) { got := got, next := next } ∧
      b = b.take (b.length - rest.length) ++ rest ∧
      gathered got = b.take (b.length - rest.length) ∧ decodeGot got = some e ∧
      Ext.Exts.fromSlice start (b.take (b.length - rest.length)) = .ok (e, next, []) := by
  have t := ipv6exts_table start pre b; rw [hd] at t; exact t

/-- (2) `read` succeeds with `r` ⟹ `from_slice` succeeds with the same next ip number, `b` is the gathered
    bytes followed by `rest`, exactly the gathered bytes were consumed, and they decode to the same struct
    (header by header, and through `from_slice` on the gathered bytes) -/
theorem ipv6_exts_slice_of_read (start : Nat) (pre b : Bytes) (r : Reads.ExtsRead)
    (hr : ((Reads.ipv6exts start).run (readerAt pre b)).2 = .ok r) :
    ∃ e rest, Ext.Exts.fromSlice start b = .ok (e, r.next, rest) ∧ b = gathered r.got ++ rest ∧
      ((Reads.ipv6exts start).run (readerAt pre b)).1 = readerAdv pre b (gathered r.got).length ∧
      decodeGot r.got = some e ∧ Ext.Exts.fromSlice start (gathered r.got) = .ok (e, r.next, []) := by
  have t := ipv6exts_table start pre b
  cases hd : Ext.Exts.fromSlice start b with
  | ok x =>
    obtain ⟨e, n, rest⟩ := x
    rw [hd] at t
    obtain ⟨got, t1, t2, t3, t4, t5⟩ := t
    rw [t1.snd] at hr
    cases hr
    have hl : (b.take (b.length - rest.length)).length = b.length - rest.length := by
      simp [List.length_take]
    exact ⟨e, rest, rfl, by rw [t3]; exact t2, by rw [t3, hl]; exact t1.fst, t4, by rw [t3]; exact t5⟩
  | error f =>
    rw [hd] at t
    cases f with
    | panic => exact t.elim
    | err se =>
      cases se with
      | len le => rw [t.snd] at hr; cases hr
      | content c => obtain ⟨n, _, t⟩ := t; rw [t.snd] at hr; cases hr

/-- (3) the content rejections coincide (same error), (4) a length error of `from_slice` (any header of
    the chain cut short) is the reader's end of data, everything consumed -/
theorem ipv6_exts_rejections_coincide (start : Nat) (pre b : Bytes) :
    (∀ s, ((Reads.ipv6exts start).run (readerAt pre b)).2 = .error (.other s) ↔
      ∃ c, Ext.Exts.fromSlice start b = .error (.err (.content c)) ∧ extsErrText c = s) ∧
    (((Reads.ipv6exts start).run (readerAt pre b)).2 = .error (.io .unexpectedEof) ↔
      ∃ le, Ext.Exts.fromSlice start b = .error (.err (.len le))) := by
  have t := ipv6exts_table start pre b
  cases hd : Ext.Exts.fromSlice start b with
  | ok x =>
    obtain ⟨e, n, rest⟩ := x
    rw [hd] at t
    obtain ⟨got, t1, _⟩ := t
    refine ⟨fun s => ⟨fun hr => ?_, fun ⟨c, he, _⟩ => (by cases he)⟩, ⟨fun hr => ?_, fun ⟨e, he⟩ => (by cases he)⟩⟩
    all_goals rw [t1.snd] at hr; cases hr
  | error f =>
    rw [hd] at t
    cases f with
    | panic => exact t.elim
    | err se =>
      cases se with
      | len le =>
        refine ⟨fun s => ⟨fun hr => ?_, fun ⟨c, he, _⟩ => (by cases he)⟩, ⟨fun _ => ⟨_, rfl⟩, fun _ => t.snd⟩⟩
        rw [t.snd] at hr; cases hr
      | content c =>
        obtain ⟨n, _, t⟩ := t
        refine ⟨fun s => ⟨fun hr => ?_, fun ⟨c', he, ht⟩ => ?_⟩, ⟨fun hr => ?_, fun ⟨le, he⟩ => (by cases he)⟩⟩
        · rw [t.snd] at hr; cases hr; exact ⟨_, rfl, rfl⟩
        · cases he; subst ht; exact t.snd
        · rw [t.snd] at hr; cases hr

/-- hop-by-hop options (8 bytes) → fragment header (8 bytes) → UDP, + 1 byte; the hypotheses of (1), (2)
    and of the content row are satisfiable -/
def exChain : Bytes := [44, 0, 1, 2, 3, 4, 5, 6, 17, 0, 0, 9, 0, 0, 0, 5, 0x77]
theorem exChain_from_slice : Ext.Exts.fromSlice 0 exChain =
    .ok ({ hopByHopOptions := some { nextHeader := 44, payload := [1, 2, 3, 4, 5, 6] },
           destinationOptions := none, routing := none,
           fragment := some { nextHeader := 17, fragmentOffset := 1, moreFragments := true, identification := 5 },
           auth := none }, 17, [0x77]) := by
  simp [Ext.Exts.fromSlice, exChain, Ext.rawSliceLen, Ext.rawToHeader, Ext.Raw.newRaw, sub, bAt,
    Ext.fromSliceLoop, Ext.fragFromSlice, Ext.Exts.empty, be16, be32]
example : ∃ r, ((Reads.ipv6exts 0).run (readerAt [0xff] exChain)).2 = .ok r ∧ r.next = 17 ∧
    gathered r.got = exChain.take 16 := by
  obtain ⟨got, h1, _, h3, _, _⟩ := ipv6_exts_read_of_slice 0 [0xff] exChain _ _ _ exChain_from_slice
  exact ⟨_, h1.snd, rfl, h3⟩
/-- a second hop-by-hop header behind the first one: `HopByHopNotAtStart` on both sides -/
example : Ext.Exts.fromSlice 0 [0, 0, 1, 2, 3, 4, 5, 6, 9] = .error (.err (.content .hopByHopNotAtStart)) := by
  simp [Ext.Exts.fromSlice, Ext.rawSliceLen, Ext.rawToHeader, Ext.Raw.newRaw, sub, bAt, Ext.fromSliceLoop]

/-! #### the hypotheses of the theorems above are satisfiable (concrete packets, `pre` non-empty: the reader
  is in the middle of a stream; trailing bytes behind every header) -/

section ReaderExamples
set_option maxRecDepth 8000

/-- Ethernet II header + 2 payload bytes -/
def exEth2 : Bytes := [1, 2, 3, 4, 5, 6, 7, 8, 9, 10, 11, 12, 0x08, 0x00, 0xaa, 0xbb]
example : Eth2.fromSlice exEth2 =
    .ok ({ dst := [1, 2, 3, 4, 5, 6], src := [7, 8, 9, 10, 11, 12], et := 0x0800 }, [0xaa, 0xbb]) := rfl
example : Reads.eth2.run (readerAt [0xff] exEth2) = (readerAdv [0xff] exEth2 14, .ok (exEth2.take 14)) := rfl
example : ∃ e, Eth2.fromSlice (exEth2.take 13) = .error e := ⟨_, rfl⟩

/-- VLAN header + 1 byte -/
def exVlan : Bytes := [0xe1, 0x23, 0x08, 0x00, 9]
example : Vlan.fromSlice exVlan = .ok ({ pcp := 7, dei := false, vid := 0x123, et := 0x0800 }, [9]) := rfl
example : (Reads.vlan.run (readerAt [0xff] exVlan)).2 = .ok [0xe1, 0x23, 0x08, 0x00] := rfl

/-- Linux SLL header (Ethernet hardware id, IPv4 protocol) + 1 byte; a header with packet type 8 -/
def exSll : Bytes := [0, 0, 0, 1, 0, 6, 1, 2, 3, 4, 5, 6, 0, 0, 0x08, 0x00, 7]
def exSllBad : Bytes := [0, 8, 0, 1, 0, 6, 1, 2, 3, 4, 5, 6, 0, 0, 0x08, 0x00, 7]
example : ∃ h, Sll.fromSlice exSll = .ok (h, [7]) := ⟨_, rfl⟩
example : (Reads.sll.run (readerAt [0xff] exSll)).2 = .ok (exSll.take 16) := rfl
example : Sll.fromSlice exSllBad = .error (.content "UnsupportedPacketTypeField(packet_type=8)") := by rfl
example : (Reads.sll.run (readerAt [0xff] exSllBad)).2 =
    .error (.other "err(content(UnsupportedPacketTypeField(packet_type=8)))") := by rfl
example : ∃ le, Sll.fromSlice (exSll.take 15) = .error (.len le) := ⟨_, rfl⟩

/-- MACsec SecTag with SCI, unmodified payload (16 bytes) + 1 byte; version bit set; short length 1 -/
def exMacsec : Bytes := [0x20, 0, 0, 0, 0, 1, 1, 2, 3, 4, 5, 6, 7, 8, 0x08, 0x00, 9]
example : ∃ h, Macsec.fromSlice exMacsec = .ok (h, [9]) := ⟨_, rfl⟩
example : (Reads.macsec.run (readerAt [0xff] exMacsec)).2 = .ok (exMacsec.take 16) := rfl
example : Macsec.fromSlice [0x80, 0, 0, 0, 0, 0] = .error (.content "UnexpectedVersion") := rfl
example : Macsec.fromSlice [0x00, 1, 0, 0, 0, 0] = .error (.content "InvalidUnmodifiedShortLen") := rfl
example : ∃ le, Macsec.fromSlice (exMacsec.take 15) = .error (.len le) := ⟨_, rfl⟩

/-- ARP request (Ethernet / IPv4, 28 bytes) + 2 bytes -/
def exArp : Bytes := arpFrame.drop 14 ++ [0xde, 0xad]
example : ∃ h, Arp.fromSlice exArp = .ok (h, [0xde, 0xad]) := ⟨_, rfl⟩
example : (Reads.arp.run (readerAt [0xff] exArp)).2 = .ok (exArp.take 28) := rfl
example : ∃ le, Arp.fromSlice (exArp.take 27) = .error (.len le) := ⟨_, rfl⟩

/-- IPv4 header with IHL 6 (24 bytes) + 1 byte; version 5; IHL 4; one byte with version 6 -/
def exIpv4 : Bytes := [0x46, 0, 0, 40, 0, 1, 0x40, 0, 64, 17, 0, 0, 10, 0, 0, 1, 10, 0, 0, 2, 1, 1, 1, 0, 0x77]
example : ∃ h, Ipv4Header.fromSlice exIpv4 = .ok (h, [0x77]) := ⟨_, rfl⟩
example : (Reads.ipv4.run (readerAt [0xff] exIpv4)).2 = .ok (exIpv4.take 24) := rfl
example : Ipv4Header.fromSlice (0x55 :: List.replicate 19 0) = .error (.unexpectedVersion 5) := rfl
example : Ipv4Header.fromSlice (0x44 :: List.replicate 19 0) = .error (.headerLengthSmallerThanHeader 4) := rfl
example : Ipv4Header.fromSlice (exIpv4.take 23) = .error (.len (sliceLenErr 24 23 .ipv4Header)) := rfl
example : ∃ le, Ipv4Header.fromSlice [0x65] = .error (.len le) := ⟨_, rfl⟩
example : (Reads.ipv4.run (readerAt [0xff] [0x65])).2 = .error (.other "err(version(6))") := by rfl

/-- IPv6 header + 1 byte -/
def exIpv6 : Bytes := [0x60, 0, 0, 0, 0, 8, 17, 64] ++ List.replicate 16 1 ++ List.replicate 16 2 ++ [0x77]
example : ∃ h, Ipv6Header.fromSlice exIpv6 = .ok (h, [0x77]) := ⟨_, rfl⟩
example : (Reads.ipv6.run (readerAt [0xff] exIpv6)).2 = .ok (exIpv6.take 40) := rfl
example : Ipv6Header.fromSlice (0x45 :: exIpv6.drop 1) = .error (.unexpectedVersion 4) := rfl
example : ∃ le, Ipv6Header.fromSlice (exIpv6.take 39) = .error (.len le) := ⟨_, rfl⟩

/-- IPv6 raw extension header with `hdr ext len` 1 (16 bytes) + 1 byte -/
def exRawExt : Bytes := [17, 1] ++ List.replicate 14 3 ++ [0x77]
example : ∃ h, Ipv6RawExtHeader.fromSlice exRawExt = .ok (h, [0x77]) := ⟨_, rfl⟩
example : (Reads.rawext.run (readerAt [0xff] exRawExt)).2 = .ok (exRawExt.take 16) := rfl
example : ∃ le, Ipv6RawExtHeader.fromSlice (exRawExt.take 15) = .error (.len le) := ⟨_, rfl⟩

/-- IPv6 fragment header + 1 byte -/
def exFrag : Bytes := [17, 0, 0x00, 0x09, 0, 0, 0, 5, 0x77]
example : ∃ h, Ipv6FragmentHeader.fromSlice exFrag = .ok (h, [0x77]) := ⟨_, rfl⟩
example : (Reads.ipv6frag.run (readerAt [0xff] exFrag)).2 = .ok (exFrag.take 8) := rfl

/-- IP authentication header with 4 ICV bytes (16 bytes) + 1 byte; payload length 0 -/
def exAuth : Bytes := [6, 2, 0, 0, 0, 0, 0, 1, 0, 0, 0, 2, 9, 8, 7, 6, 0x77]
example : ∃ h, IpAuthHeader.fromSlice exAuth = .ok (h, [0x77]) := ⟨_, rfl⟩
example : (Reads.auth.run (readerAt [0xff] exAuth)).2 = .ok (exAuth.take 16) := rfl
example : IpAuthHeader.fromSlice (6 :: 0 :: exAuth.drop 2) = .error .zeroPayloadLen := rfl
example : ∃ le, IpAuthHeader.fromSlice (exAuth.take 15) = .error (.len le) := ⟨_, rfl⟩

/-- UDP header + 1 byte -/
def exUdp : Bytes := [0, 53, 0x10, 0, 0, 9, 0xab, 0xcd, 0x77]
example : Udp.fromSlice exUdp = .ok ({ sp := 53, dp := 4096, len := 9, ck := 0xabcd }, [0x77]) := rfl
example : (Reads.udp.run (readerAt [0xff] exUdp)).2 = .ok (exUdp.take 8) := rfl

/-- TCP header with data offset 6 (24 bytes) + 1 byte; data offset 4 -/
def exTcp : Bytes := [0, 80, 0x10, 0, 0, 0, 0, 1, 0, 0, 0, 2, 0x60, 0x12, 0x20, 0, 0, 0, 0, 0, 2, 4, 5, 0xb4, 0x77]
example : ∃ h, Tcp.fromSlice exTcp = .ok (h, [0x77]) := ⟨_, rfl⟩
example : (Reads.tcp.run (readerAt [0xff] exTcp)).2 = .ok (exTcp.take 24) := rfl
example : Tcp.fromSlice (exTcp.set 12 0x40) = .error (.content "DataOffsetTooSmall(data_offset=4)") := by rfl
example : ∃ le, Tcp.fromSlice (exTcp.take 23) = .error (.len le) := ⟨_, rfl⟩

/-- ICMPv4 echo request + 2 bytes; a timestamp message (20 bytes); the same followed by one more byte
    (the exception of `icmpv4_slice_of_read`) -/
def exIcmp4 : Bytes := [8, 0, 0x12, 0x34, 0, 1, 0, 2, 0x61, 0x62]
def exIcmp4Ts : Bytes := [13, 0, 0, 0, 0, 1, 0, 2, 0, 0, 0, 3, 0, 0, 0, 4, 0, 0, 0, 5]
example : Icmp4.fromSlice exIcmp4 = .ok ({ ty := .echoRequest 1 2, ck := 0x1234 }, [0x61, 0x62]) := rfl
example : (Reads.icmpv4.run (readerAt [0xff] exIcmp4)).2 = .ok (exIcmp4.take 8) := rfl
example : Icmp4.fromSlice exIcmp4Ts = .ok ({ ty := .tsRequest 1 2 3 4 5, ck := 0 }, []) := rfl
example : (Reads.icmpv4.run (readerAt [0xff] (exIcmp4Ts ++ [0x77]))).2 = .ok exIcmp4Ts := rfl
example : Icmp4.fromSlice (exIcmp4Ts ++ [0x77]) = .error (lenErrSlice 20 21 "Icmpv4Timestamp") := rfl

/-- ICMPv6 echo request + 1 byte -/
def exIcmp6 : Bytes := [128, 0, 0x12, 0x34, 0, 1, 0, 2, 0x77]
example : Icmp6.fromSlice exIcmp6 = .ok ({ ty := .echoRequest 1 2, ck := 0x1234 }, [0x77]) := rfl
example : (Reads.icmpv6.run (readerAt [0xff] exIcmp6)).2 = .ok (exIcmp6.take 8) := rfl

/-- Ipv4Extensions: protocol 51 announces the authentication header; protocol 17 does not -/
example : ∃ e, Ipv4Extensions.fromSlice 51 exAuth = .ok (e, 6, [0x77]) := ⟨_, rfl⟩
example : ((Reads.ipv4exts 51).run (readerAt [0xff] exAuth)).2 = .ok (some (exAuth.take 16), 6) := rfl
example : Ipv4Extensions.fromSlice 17 exAuth = .ok ({ auth := none }, 17, exAuth) := rfl
example : ((Reads.ipv4exts 17).run (readerAt [0xff] exAuth)).2 = .ok (none, 17) := rfl

end ReaderExamples

/-! #### IpHeaders (`IpHeaders::read` / `IpHeaders::from_slice`): IP header + extension headers through a
  `LimitedReader` bounded by total_len / payload_length.
  Slice side: `Dec.ipHeadersFromSlice` on the memory of `b` (struct mode, windows of `b`; `dec.*` correspondence
  of C03/C06).  Reader side: `ipHeadersRead` (Model/Io.lean, `io.read.ipheaders` correspondence of C16).
  EXCEPTIONS, explicit as the hypothesis `HoldsAnnounced b` (both need the end of the slice, which a reader
  does not have): (a) `from_slice` rejects a slice shorter than total_len / 40 + payload_length, the reader reads
  on; (b) `from_slice` takes an IPv6 payload_length of 0 as "to the end of the slice", the reader as a limit of
  0 bytes.  Examples of both below.  Under the hypothesis:
    * success ⟺ success, same header bytes, same extension headers in the same slots (`IpViewMatch`), same
      next ip number, and the reader has consumed exactly up to the start of the payload (`r.pl.w.o`);
    * errors (`IpErrAgrees`): same content error with the same offending value; a header cut by the END OF
      THE SLICE is the reader's end of data (or, on fewer than 20 bytes, the bad IHL the reader has already
      seen in the first byte); a header cut by the LENGTH FIELD is a `LenError` of the `LimitedReader` with
      the same `len`, `len_source`, `layer` and `layer_start_offset` - and the same `required_len`, except on
      an IPv6 raw extension header with fewer than 8 bytes left, where the reader asks for 2 bytes first and
      then for the whole header, the slice decoder for 8 (`LenErrAgrees`; checked on the crate: payload_length
      1 behind next_header 60 gives required_len 8 from `from_slice`, 2 from `read`). -/

/-- the complete comparison -/
theorem ip_headers_read_vs_from_slice (pre b : Bytes) (hH : HoldsAnnounced b) :
    match Dec.ipHeadersFromSlice (Dec.memOf b) 0 b.length with
    | .ok r => ∃ v, ipHeadersRead (readerAt pre b) = (readerAdv pre b r.pl.w.o, .ok v) ∧ IpViewMatch b r v
    | .error e => ∃ n le, ipHeadersRead (readerAt pre b) = (readerAdv pre b n, .error le) ∧ IpErrAgrees b e le :=
  ipheaders_table pre b hH

/-- (1) `from_slice` succeeds ⟹ `read` succeeds with the matching value and has consumed exactly the
    headers; the only hypothesis left is exception (b) (a successful `from_slice` implies the rest) -/
theorem ip_headers_read_of_slice (pre b : Bytes) (r : Dec.IpR)
    (hd : Dec.ipHeadersFromSlice (Dec.memOf b) 0 b.length = .ok r)
    (hz : bAt b 0 / 16 = 6 → ¬ (be16 b 4 = 0 ∧ 40 < b.length)) :
    ∃ v, ipHeadersRead (readerAt pre b) = (readerAdv pre b r.pl.w.o, .ok v) ∧ IpViewMatch b r v := by
  have t := ipheaders_table pre b (holdsAnnounced_of_ok b r hd hz)
  rw [hd] at t; exact t

/-- (2) `read` succeeds ⟹ `from_slice` succeeds with the matching value -/
theorem ip_headers_slice_of_read (pre b : Bytes) (hH : HoldsAnnounced b) (v : IpRead)
    (hr : (ipHeadersRead (readerAt pre b)).2 = .ok v) :
    ∃ r, Dec.ipHeadersFromSlice (Dec.memOf b) 0 b.length = .ok r ∧
      (ipHeadersRead (readerAt pre b)).1 = readerAdv pre b r.pl.w.o ∧ IpViewMatch b r v := by
  have t := ipheaders_table pre b hH
  cases hd : Dec.ipHeadersFromSlice (Dec.memOf b) 0 b.length with
  | ok r =>
    rw [hd] at t
    obtain ⟨v', t1, t2⟩ := t
    rw [t1] at hr ⊢
    cases hr
    exact ⟨r, rfl, rfl, t2⟩
  | error e =>
    rw [hd] at t
    obtain ⟨n, le, t1, _⟩ := t
    rw [t1] at hr; cases hr

/-- (3)+(4) one rejects iff the other does, with agreeing errors -/
theorem ip_headers_rejections_coincide (pre b : Bytes) (hH : HoldsAnnounced b) :
    (∀ e, Dec.ipHeadersFromSlice (Dec.memOf b) 0 b.length = .error e →
      ∃ le, (ipHeadersRead (readerAt pre b)).2 = .error le ∧ IpErrAgrees b e le) ∧
    (∀ le, (ipHeadersRead (readerAt pre b)).2 = .error le →
      ∃ e, Dec.ipHeadersFromSlice (Dec.memOf b) 0 b.length = .error e ∧ IpErrAgrees b e le) := by
  have t := ipheaders_table pre b hH
  cases hd : Dec.ipHeadersFromSlice (Dec.memOf b) 0 b.length with
  | ok r =>
    rw [hd] at t
    obtain ⟨v', t1, _⟩ := t
    exact ⟨fun e he => (by cases he), fun le hr => (by rw [t1] at hr; cases hr)⟩
  | error e =>
    rw [hd] at t
    obtain ⟨n, le, t1, t2⟩ := t
    exact ⟨fun e' he => (by cases he; exact ⟨le, by rw [t1], t2⟩),
      fun le' hr => (by rw [t1] at hr; cases hr; exact ⟨e, rfl, t2⟩)⟩

section IpHeadersExamples
set_option maxRecDepth 8000

/-- IPv4 header (total_len 36, protocol 51) + authentication header (16 bytes) + 1 byte: the hypotheses
    hold, both doors succeed, 36 bytes consumed -/
def exIph4 : Bytes := [0x45, 0, 0, 36, 0, 1, 0x40, 0, 64, 51, 0, 0, 10, 0, 0, 1, 10, 0, 0, 2] ++ exAuth
example : HoldsAnnounced exIph4 := by decide
example : Dec.ipHeadersFromSlice (Dec.memOf exIph4) 0 exIph4.length =
    .ok (Dec.mkV4 0 20 (some ⟨20, 16⟩)
      { num := 6, frag := false, src := .ipv4HeaderTotalLen, w := ⟨36, 0⟩, inc := false }) := by rfl
example : ipHeadersRead (readerAt [0xff] exIph4) =
    (readerAdv [0xff] exIph4 36, .ok (.v4 (exIph4.take 20) (some (exAuth.take 16)) 6)) := by rfl
/-- total_len 24 cuts the authentication header: the same `LenError` through both doors -/
example : HoldsAnnounced (exIph4.set 3 24) := by decide
example : Dec.ipHeadersFromSlice (Dec.memOf (exIph4.set 3 24)) 0 (exIph4.set 3 24).length =
    .error (.len { req := 12, len := 4, src := .ipv4HeaderTotalLen, layer := .ipAuthHeader, off := 20 }) := by rfl
example : (ipHeadersRead (readerAt [0xff] (exIph4.set 3 24))).2 =
    .error (.len { required := 12, len := 4, src := "Ipv4HeaderTotalLen", layer := "IpAuthHeader", off := 20 }) := by
  rfl

/-- exception (a): the same packet with total_len 100 in a 37 byte slice: `from_slice` rejects, `read`
    succeeds -/
def exIph4Long : Bytes := exIph4.set 3 100
example : ¬ HoldsAnnounced exIph4Long := by decide
example : Dec.ipHeadersFromSlice (Dec.memOf exIph4Long) 0 exIph4Long.length =
    .error (.len { req := 100, len := 37, src := .slice, layer := .ipv4Packet, off := 0 }) := by rfl
example : (ipHeadersRead (readerAt [0xff] exIph4Long)).2 =
    .ok (.v4 (exIph4Long.take 20) (some (exAuth.take 16)) 6) := by rfl

/-- exception (b): IPv6 header with payload_length 0 and next header 60, a destination options header
    in the slice: `from_slice` succeeds (payload = rest of the slice), `read` hits its limit of 0 bytes -/
def exIph6Zero : Bytes :=
  [0x60, 0, 0, 0, 0, 0, 60, 64] ++ List.replicate 16 1 ++ List.replicate 16 2 ++ [17, 0, 0, 0, 0, 0, 0, 0]
example : ¬ HoldsAnnounced exIph6Zero := by decide
example : ∃ r, Dec.ipHeadersFromSlice (Dec.memOf exIph6Zero) 0 exIph6Zero.length = .ok r := by
  simp [Dec.ipHeadersFromSlice, Dec.ipDispatchHeader, exIph6Zero, Dec.memOf, bAt, Dec.ipv6AfterHeaderStrict,
    Dec.ipv6BoundStrict, Dec.g16, Dec.ipv6ChainStrict, Dec.extsWalkStrict, Dec.extsWalk, Dec.extsLoop,
    Dec.rawFits, Dec.ExtSlots.none, Dec.extsDone, Dec.rawStore]
example : (ipHeadersRead (readerAt [0xff] exIph6Zero)).2 =
    .error (.len { required := 2, len := 0, src := "Ipv6HeaderPayloadLen", layer := "Ipv6ExtHeader", off := 40 }) := by
  have h := ipHeadersRead_v6_exts [0xff] exIph6Zero (by decide) (by rfl) (by decide)
  rw [h]
  have hnh : bAt exIph6Zero 6 = 60 := by rfl
  have hpl : be16 exIph6Zero 4 = 0 := by rfl
  rw [hnh, hpl]
  have hs : LReads.slot 60 [.dst, .rt, .frag, .auth, .fdst] = some (⟨.dst, by decide⟩, LReads.rawext) := by
    simp [LReads.slot]
  simp only [LReads.ipv6exts, show ¬ ((60 : Nat) = 0) by decide, if_false]
  rw [lextsLoop_some 60 _ [] (by decide) .dst (by decide) LReads.rawext hs, evalOnL_bind]
  simp [LReads.rawext, evalOnL, st6, LSt.started, LSt.lenErr]

end IpHeadersExamples

end ReadersVsSlices

end EpModel.Props.C06
