import EpModel.Lemmas.DecCopies
import EpModel.Lemmas.DecLax
import EpModel.Props.C15
import EpModel.Lemmas.SpecShift
import EpModel.Lemmas.SpecShiftEntry
import EpModel.Props.C06Headers
/-
  C06 — equivalent entry points give equivalent answers.

  The crate implements the IP boundary logic in twelve hand-copied variants and offers several doors to the
  same bytes.  In the model (Model/Dec/Ip.lean) every copy is its own definition that follows the Rust
  control flow of that copy (which checks come first, which error type is used, whether `len < 20` is
  tested before the IHL); what the copies share is factored into `ipv4AfterHeaderStrict/Lax`,
  `ipv6AfterHeaderStrict/Lax` - and that sharing is exactly what the correspondence check
  (tools/epcheck/props/c06.py) validates against the twelve Rust functions on every run.

  Proved here, for every memory and window:
    * the dispatching decoders equal the version-specific ones (strict, lax; slice family, struct family),
      up to the *names* of the header content errors, which are different Rust types; the one length
      class where the answers differ in more than the name (IPv4 nibble, fewer than 20 bytes through
      IpSlice/LaxIpSlice, which look at the IHL first) is excluded by hypothesis and characterised in
      C03 (`ShortV4`) - both answers reject and both are true of the bytes;
    * starting at the IPv4 / IPv6 ether type equals starting at IP (same packet with the link set);
    * header readers vs `from_slice` for the IPv4 and IPv6 headers (re-exported from C15's bit-level model);
    * starting at an Ethernet II header equals starting at its ether type on the bytes behind it, offsets
      moved by 14 (last section).  The wire-format walk is proved placement independent
      (Lemmas/SpecShift.lean: `step_shift` for every branch of `Spec.step`, `chain_shift`, `walkN_shift`;
      the link field is not touched behind the link layer, `walkN_link`; 7 steps suffice from an ether
      type, `walkN_fuel`), which gives `Spec.decode .eth` = `Spec.decode (.etherType _)` on the shifted
      memory for strict and lax decoding as an EQUATION; the refinements of C03 / C05 carry it to
      `SlicedPacket` / `LaxSlicedPacket`: `from_ethernet(b)` and `from_ether_type(et(b), b[14..])` accept
      the same byte strings, on success return the same packet with every window moved by 14 (link: Ethernet II frame / ether
      payload), on failure return errors that describe one and the same wire-format fault, seen 14
      bytes apart (so `layer_start_offset` differs by exactly 14, `len` / `required_len` agree); lax: the
      same layers in front of the stop, a stop error in one iff in the other, at the same layer,
      describing the same fault.  What the transfer through the (relational) refinement does not
      give: that the two errors are the *same value* up to the offset where `ErrMatch` leaves a choice
      (e.g. which of two crate layers names an ICMPv4 fault, the `len_source` where it may be the slice
      or the limiting field); that part stays with the correspondence check, which runs both doors.
  Not proved (checked by correspondence + oracle only): Ethernet II start vs ether-type start for the
  struct families `PacketHeaders` / `LaxPacketHeaders` (C03 / C05 refine the slice families `SlicedPacket` /
  `LaxSlicedPacket` only; the oracle compares all four families after shifting by 14); the remaining
  header readers (C16 models their I/O).
-/
namespace EpModel.Props.C06
open EpModel EpModel.Dec EpModel.Lemmas.Refine EpModel.Lemmas.Copies

/-! ### the twelve IP boundary implementations -/

/-- strict slice family: IpSlice::from_slice vs Ipv4Slice::from_slice / Ipv6Slice::from_slice -/
theorem ip_slice_dispatch_equals_specific (g : Mem) (o l : Nat) :
    (g o / 16 = 4 → 20 ≤ l → ipSliceFromSlice g o l = renameErr (ipv4SliceFromSlice g o l)) ∧
    (g o / 16 = 6 → 0 < l → ipSliceFromSlice g o l = ipv6SliceFromSlice g o l) ∧
    (g o / 16 ≠ 4 → g o / 16 ≠ 6 → 0 < l → ipSliceFromSlice g o l = .error (.ipVersion (g o / 16))) :=
  ⟨ipSlice_eq_ipv4Slice g o l, ipSlice_eq_ipv6Slice g o l, ipSlice_other g o l⟩

/-- strict struct family: IpHeaders::from_slice vs from_ipv4_slice / from_ipv6_slice (all lengths) -/
theorem ip_headers_dispatch_equals_specific (g : Mem) (o l : Nat) (h0 : 0 < l) :
    (g o / 16 = 4 → ipHeadersFromSlice g o l = renameErr (ipHeadersFromIpv4Slice g o l)) ∧
    (g o / 16 = 6 → ipHeadersFromSlice g o l = ipHeadersFromIpv6Slice g o l) :=
  ⟨fun h => ipHeaders_eq_ipv4 g o l h h0, fun h => ipHeaders_eq_ipv6 g o l h h0⟩

/-- struct vs slice, IPv4: IpHeaders::from_ipv4_slice is Ipv4Slice::from_slice -/
theorem ip_headers_ipv4_equals_slice (g : Mem) (o l : Nat) :
    ipHeadersFromIpv4Slice g o l = ipv4SliceFromSlice g o l := ipHeaders_ipv4_eq_ipv4Slice g o l

/-- lax slice family -/
theorem lax_ip_slice_dispatch_equals_specific (g : Mem) (o l : Nat) :
    (g o / 16 = 4 → 20 ≤ l → laxIpSliceFromSlice g o l = renameErr (laxIpv4SliceFromSlice g o l)) ∧
    (g o / 16 = 6 → 0 < l → laxIpSliceFromSlice g o l = laxIpv6SliceFromSlice g o l) :=
  ⟨laxIpSlice_eq_laxIpv4Slice g o l, laxIpSlice_eq_laxIpv6Slice g o l⟩

/-- lax struct family (this pair agrees on the error names as well) -/
theorem lax_ip_headers_dispatch_equals_specific (g : Mem) (o l : Nat) (h0 : 0 < l) :
    (g o / 16 = 4 → ipHeadersFromSliceLax g o l = ipHeadersFromIpv4SliceLax g o l) ∧
    (g o / 16 = 6 → ipHeadersFromSliceLax g o l = ipHeadersFromIpv6SliceLax g o l) :=
  ⟨fun h => ipHeadersLax_eq_ipv4Lax g o l h h0, fun h => ipHeadersLax_eq_ipv6Lax g o l h h0⟩

/-! ### starting at the IP ether types = starting at IP -/

theorem from_ipv4_ether_type_equals_from_ip (g : Mem) (n : Nat) (h4 : g 0 / 16 = 4) (h20 : 20 ≤ n) :
    slicedFromEtherType g 0x0800 n =
        mapOk (Packet.withLink · (some (.etherPayload 0x0800 ⟨0, n⟩))) (ipv4Path id Cur.new g 0 n) ∧
      slicedFromIp g n = ipv4Path renameIp Cur.new g 0 n :=
  from_ether_type_ipv4_vs_from_ip g n h4 h20

theorem from_ipv6_ether_type_equals_from_ip (g : Mem) (n : Nat) (h6 : g 0 / 16 = 6) (h0 : 0 < n) :
    slicedFromEtherType g 0x86dd n =
      mapOk (Packet.withLink · (some (.etherPayload 0x86dd ⟨0, n⟩))) (slicedFromIp g n) :=
  from_ether_type_ipv6_vs_from_ip g n h6 h0

/-- hypotheses of the above are satisfiable and the conclusion is not about errors only -/
example : (fun i => if i = 0 then 0x45 else 0 : Mem) 0 / 16 = 4 := by decide

/-! ### readers vs slices (bit-level model of C15) -/

theorem ipv4_read_equals_from_slice (b : Bytes) (h : EpModel.BitFields.Ip4) (r : Bytes)
    (hd : EpModel.BitFields.Ip4.fromSlice b = .ok (h, r)) : EpModel.BitFields.Ip4.read b = some (.ok h) :=
  EpModel.Props.C15.ip4_read_eq_from_slice b h r hd

theorem ipv6_read_equals_from_slice (b : Bytes) (h : EpModel.BitFields.Ip6) (r : Bytes)
    (hd : EpModel.BitFields.Ip6.fromSlice b = .ok (h, r)) : EpModel.BitFields.Ip6.read b = some (.ok h) :=
  EpModel.Props.C15.ip6_read_eq_from_slice b h r hd

/-- every strict UDP slice lies inside the slice it was cut from. -/
theorem udp_within (g : Mem) (o l : Nat) (w : Win) (h : udpFromSlice g o l = .ok w) :
    o ≤ w.o ∧ w.o + w.l ≤ o + l := by
  unfold udpFromSlice at h
  split at h
  · contradiction
  · simp only at h
    split at h
    · contradiction
    · split at h
      · cases h; simp
      · split at h
        · contradiction
        · cases h; simp; omega

/-! ### starting at an Ethernet II header = starting at its ether type on the bytes behind it

  Proved at the level of the wire-format walk (Lemmas/SpecShift.lean: every step of `Spec.step`, the IPv6
  extension chain and the whole walk commute with moving the memory, i.e. the walk is placement
  independent) and transferred to the models of the four doors through the refinements of C03 / C05. -/

section EthernetVsEtherType
open EpModel.Spec EpModel.Lemmas.ShiftEntry EpModel.Lemmas.RefineLax

/-- Wire-format reading, strict: decoding `n ≥ 14` bytes from the Ethernet II header gives the verdict
    of decoding the bytes behind the header (the memory seen from offset 14) from the header's ether
    type; the packet is the same with every window moved by 14 and the Ethernet II frame as link, the
    fault is the same with its offset moved by 14. -/
theorem spec_ethernet_start_equals_ether_type_start (g : Mem) (n : Nat) (h : 14 ≤ n) :
    Spec.decode .eth g n =
      match Spec.decode (.etherType (g16 g 12)) (shM 14 g) (n - 14) with
      | .ok p => .ok (setLk (some (.eth2 ⟨0, n⟩)) (shPacket 14 p))
      | .error f => .error (shFault 14 f) :=
  decode_eth_eq_ether_type g n h

/-- … and lax: the same layers in front of the fault (moved by 14), the same fault (moved by 14). -/
theorem spec_lax_ethernet_start_equals_ether_type_start (g : Mem) (n : Nat) (h : 14 ≤ n) :
    Spec.decodeLax .eth g n =
      (setLk (some (.eth2 ⟨0, n⟩)) (shPacket 14 (Spec.decodeLax (.etherType (g16 g 12)) (shM 14 g) (n - 14)).1),
        (Spec.decodeLax (.etherType (g16 g 12)) (shM 14 g) (n - 14)).2.map (shFault 14)) :=
  decodeLax_eth_eq_ether_type g n h

/-- the memory of the bytes behind the first `k` is the memory seen from offset `k` -/
theorem memOf_drop (b : Bytes) (k i : Nat) : memOf (b.drop k) i = memOf b (k + i) :=
  EpModel.Lemmas.ShiftEntry.memOf_drop b k i

/-- **`SlicedPacket::from_ethernet(b)` against `SlicedPacket::from_ether_type(ether type of b, b[14..])`**,
    for every byte string of at least 14 bytes: both succeed or both fail; on success the packets are
    the same with every window moved by 14 (link: the Ethernet II frame / the ether payload handed in);
    on failure both errors describe one and the same wire-format fault `f` of the bytes behind the
    header (`ErrMatch`: layer, offset, available and required bytes, length source / offending value),
    seen from the frame with its offset moved by 14. -/
theorem ethernet_start_equals_ether_type_start (b : Bytes) (h14 : 14 ≤ b.length) :
    match slicedFromEthernet (memOf b) b.length,
      slicedFromEtherType (memOf (b.drop 14)) (g16 (memOf b) 12) (b.drop 14).length with
    | .ok p, .ok q =>
      p = setLk (some (.eth2 ⟨0, b.length⟩)) (shPacket 14 q) ∧
        q.link = some (.etherPayload (g16 (memOf b) 12) ⟨0, b.length - 14⟩)
    | .error e, .error e' => ∃ f, ErrMatch e' f ∧ ErrMatch e (shFault 14 f)
    | _, _ => False := by
  rw [memOf_drop_eq, List.length_drop]
  exact from_ethernet_vs_ether_type (memOf b) (fun i => bAt_lt b i) b.length h14

/-- (i) the two doors accept the same byte strings -/
theorem ethernet_start_ok_iff_ether_type_start_ok (b : Bytes) (h14 : 14 ≤ b.length) :
    (slicedFromEthernet (memOf b) b.length).isOk =
      (slicedFromEtherType (memOf (b.drop 14)) (g16 (memOf b) 12) (b.drop 14).length).isOk := by
  have h := ethernet_start_equals_ether_type_start b h14
  revert h
  cases slicedFromEthernet (memOf b) b.length <;>
    cases slicedFromEtherType (memOf (b.drop 14)) (g16 (memOf b) 12) (b.drop 14).length <;>
    simp [Except.isOk, Except.toBool]

/-- (ii) on success: the Ethernet II frame resp. the ether payload as link, and the same link
    extensions, network and transport layers with every window moved by 14 -/
theorem ethernet_start_packet_is_ether_type_start_packet_shifted (b : Bytes) (h14 : 14 ≤ b.length)
    (p q : Packet) (hp : slicedFromEthernet (memOf b) b.length = .ok p)
    (hq : slicedFromEtherType (memOf (b.drop 14)) (g16 (memOf b) 12) (b.drop 14).length = .ok q) :
    p.link = some (.eth2 ⟨0, b.length⟩) ∧
      q.link = some (.etherPayload (g16 (memOf b) 12) ⟨0, b.length - 14⟩) ∧
      p.exts = q.exts.map (shExt 14) ∧ p.net = q.net.map (shNet 14) ∧ p.tp = q.tp.map (shTp 14) ∧
      p.stop = q.stop := by
  have h := ethernet_start_equals_ether_type_start b h14
  rw [hp, hq] at h
  obtain ⟨h1, h2⟩ := h
  subst h1
  exact ⟨rfl, h2, rfl, rfl, rfl, rfl⟩

/-- (iii) on failure with a length error: the other door fails with a length error as well, the
    `layer_start_offset`s differ by exactly 14, `len` and `required_len` agree, and both layers name the
    unit of one wire-format fault -/
theorem ethernet_start_len_error_is_ether_type_start_len_error_shifted (b : Bytes) (h14 : 14 ≤ b.length)
    (le : LenError) (he : slicedFromEthernet (memOf b) b.length = .error (.len le)) :
    ∃ le', slicedFromEtherType (memOf (b.drop 14)) (g16 (memOf b) 12) (b.drop 14).length = .error (.len le') ∧
      le.off = 14 + le'.off ∧ le.len = le'.len ∧ le.req = le'.req ∧
      ∃ f, LenMatch le' f ∧ LenMatch le (shFault 14 f) := by
  have h := ethernet_start_equals_ether_type_start b h14
  rw [he] at h
  cases hq : slicedFromEtherType (memOf (b.drop 14)) (g16 (memOf b) 12) (b.drop 14).length with
  | ok q => rw [hq] at h; exact h.elim
  | error e' =>
    rw [hq] at h
    obtain ⟨f, h1, h2⟩ := h
    have h2' : LenMatch le (shFault 14 f) := h2
    have hc : f.cls ≠ .content := h2'.cls
    cases e' with
    | len le' =>
      have h1' : LenMatch le' f := h1
      have k := lenMatch_shift_off h2' h1'
      exact ⟨le', rfl, k.1, k.2.1, k.2.2, f, h1', h2'⟩
    | _ => exact absurd h1.1 hc

/-- … and with a content error: the other door fails with a content error about the same fault -/
theorem ethernet_start_content_error_is_ether_type_start_content_error (b : Bytes) (h14 : 14 ≤ b.length)
    (e : PErr) (hne : ∀ le, e ≠ .len le) (he : slicedFromEthernet (memOf b) b.length = .error e) :
    ∃ e', slicedFromEtherType (memOf (b.drop 14)) (g16 (memOf b) 12) (b.drop 14).length = .error e' ∧
      (∀ le, e' ≠ .len le) ∧ ∃ f, ContentMatch e' f ∧ ContentMatch e (shFault 14 f) := by
  have h := ethernet_start_equals_ether_type_start b h14
  rw [he] at h
  cases hq : slicedFromEtherType (memOf (b.drop 14)) (g16 (memOf b) 12) (b.drop 14).length with
  | ok q => rw [hq] at h; exact h.elim
  | error e' =>
    rw [hq] at h
    obtain ⟨f, h1, h2⟩ := h
    have h2' : ContentMatch e (shFault 14 f) := by
      cases e with
      | len le => exact absurd rfl (hne le)
      | _ => exact h2
    have hc : f.cls = .content := h2'.1
    cases e' with
    | len le' => exact absurd hc (LenMatch.cls h1)
    | _ => exact ⟨_, rfl, fun le => by simp, f, h1, h2'⟩

/-- fewer than 14 bytes: the Ethernet II door fails at the Ethernet II header (there is no ether type
    to start from) -/
theorem ethernet_start_short (b : Bytes) (h : b.length < 14) :
    slicedFromEthernet (memOf b) b.length =
        .error (.len { req := 14, len := b.length, src := .slice, layer := .ethernet2Header, off := 0 }) ∧
      laxSlicedFromEthernet (memOf b) b.length =
        .error { req := 14, len := b.length, src := .slice, layer := .ethernet2Header, off := 0 } ∧
      Spec.decode .eth (memOf b) b.length =
        .error { cls := .cutShort, unit := .eth, off := 0, avail := b.length, need := 14, lim := .slice, value := 0 } := by
  refine ⟨?_, ?_, ?_⟩
  · simp [slicedFromEthernet, eth2FromSlice, h, LenError.addOffset]
  · simp [laxSlicedFromEthernet, eth2FromSlice, h]
  · rw [decode_eth_short (memOf b) b.length h]; simp [mkFault, Ctx.avail]

/-- **`LaxSlicedPacket::from_ethernet(b)` against `LaxSlicedPacket::from_ether_type(ether type of b, b[14..])`**,
    for every byte string of at least 14 bytes: `from_ethernet` returns a packet; without their stop
    errors the two packets are the same with every window moved by 14 (link: Ethernet II frame / ether
    payload); one has a stop error exactly when the other has, at the same layer, and both stop errors
    describe one wire-format fault `f` of the bytes behind the header, seen from the frame with its
    offset moved by 14 (`StopDescribes` = the relation of the lax refinement C05, short-IPv4 wrinkle
    included). -/
theorem lax_ethernet_start_equals_ether_type_start (b : Bytes) (h14 : 14 ≤ b.length) :
    ∃ m, laxSlicedFromEthernet (memOf b) b.length = .ok m ∧
      noStop m = setLk (some (.eth2 ⟨0, b.length⟩))
        (shPacket 14 (noStop (laxSlicedFromEtherType (memOf (b.drop 14)) (g16 (memOf b) 12) (b.drop 14).length))) ∧
      (laxSlicedFromEtherType (memOf (b.drop 14)) (g16 (memOf b) 12) (b.drop 14).length).link =
        some (.etherPayload (g16 (memOf b) 12) ⟨0, b.length - 14⟩) ∧
      match m.stop, (laxSlicedFromEtherType (memOf (b.drop 14)) (g16 (memOf b) 12) (b.drop 14).length).stop with
      | none, none => True
      | some (e, ly), some (e', ly') =>
        ly = ly' ∧ ∃ f, StopDescribes (memOf (b.drop 14)) e' ly' f ∧ StopDescribes (memOf b) e ly (shFault 14 f)
      | _, _ => False := by
  rw [memOf_drop_eq, List.length_drop]
  exact lax_from_ethernet_vs_ether_type (memOf b) (fun i => bAt_lt b i) b.length h14

/-- consequence for lax length stop errors: offsets differ by exactly 14, `len` agrees (this part holds
    also on the input class of the short-IPv4 wrinkle) -/
theorem lax_ethernet_start_stop_len_error_shifted (b : Bytes) (h14 : 14 ≤ b.length) (m : Packet)
    (hm : laxSlicedFromEthernet (memOf b) b.length = .ok m) (le le' : LenError) (ly ly' : Layer)
    (hs : m.stop = some (.len le, ly))
    (hs' : (laxSlicedFromEtherType (memOf (b.drop 14)) (g16 (memOf b) 12) (b.drop 14).length).stop =
      some (.len le', ly')) :
    ly = ly' ∧ le.off = 14 + le'.off ∧ le.len = le'.len := by
  obtain ⟨m0, hm0, _, _, h⟩ := lax_ethernet_start_equals_ether_type_start b h14
  rw [hm] at hm0
  cases hm0
  rw [hs, hs'] at h
  obtain ⟨hl, f, h1, h2⟩ := h
  refine ⟨hl, ?_⟩
  have k1 : le'.off = f.off ∧ le'.len = f.avail := by
    rcases h1 with h1 | h1
    · have : LenMatch le' f := h1.2
      exact ⟨this.off, this.len⟩
    · obtain ⟨_, _, _, _, _, _, _, h1 | h1⟩ := h1
      · exact absurd h1.2 (by simp)
      · obtain ⟨_, s, _, hs⟩ := h1
        cases hs; exact ⟨rfl, rfl⟩
  have k2 : le.off = 14 + f.off ∧ le.len = f.avail := by
    rcases h2 with h2 | h2
    · have : LenMatch le (shFault 14 f) := h2.2
      exact ⟨this.off, this.len⟩
    · obtain ⟨_, _, _, _, _, _, _, h2 | h2⟩ := h2
      · exact absurd h2.2 (by simp)
      · obtain ⟨_, s, _, hs⟩ := h2
        cases hs; exact ⟨rfl, rfl⟩
  rw [k1.1, k1.2, k2.1, k2.2]
  exact ⟨rfl, rfl⟩

/-! the hypotheses are satisfiable and the success case is inhabited: an ARP request in an Ethernet II frame -/

def arpFrame : Bytes :=
  [0,0,0,0,0,0, 0,0,0,0,0,0, 0x08,0x06, 0,1,8,0,6,4,0,1, 1,2,3,4,5,6, 10,0,0,1, 0,0,0,0,0,0, 10,0,0,2]

set_option maxRecDepth 4000 in
example : slicedFromEthernet (memOf arpFrame) arpFrame.length =
    .ok { link := some (.eth2 ⟨0, 42⟩), exts := [], net := some (.arp ⟨14, 28⟩), tp := none, stop := none } := by
  rfl

set_option maxRecDepth 4000 in
example : slicedFromEtherType (memOf (arpFrame.drop 14)) (g16 (memOf arpFrame) 12) (arpFrame.drop 14).length =
    .ok { link := some (.etherPayload 0x0806 ⟨0, 28⟩), exts := [], net := some (.arp ⟨0, 28⟩), tp := none,
          stop := none } := by
  rfl

end EthernetVsEtherType

end EpModel.Props.C06
