import EpModel.Lemmas.DecCopies
import EpModel.Lemmas.DecLax
import EpModel.Props.C15
/-
  C06 — equivalent entry points give equivalent answers.

  The crate implements the IP boundary logic in twelve hand-copied variants and offers several doors to the
  same bytes.  In the model (Model/Dec/Ip.lean) every copy is its own definition that follows the Rust
  control flow of that copy (which checks come first, which error type is used, whether `len < 20` is
  tested before the IHL); what the copies share is factored into `ipv4AfterHeaderStrict/Lax`,
  `ipv6AfterHeaderStrict/Lax` - and that sharing is exactly what the correspondence check
  (tools/epcheck/props/c06.py) validates against the twelve Rust functions on every run.

  Proved here, for every memory and window:
    * the dispatching decoders equal the version-specific ones (strict, lax; slice family, struct family),
      up to the *names* of the header content errors, which are different Rust types; the one length
      class where the answers differ in more than the name (IPv4 nibble, fewer than 20 bytes through
      IpSlice/LaxIpSlice, which look at the IHL first) is excluded by hypothesis and characterised in
      C03 (`ShortV4`) - both answers reject and both are true of the bytes;
    * starting at the IPv4 / IPv6 ether type equals starting at IP (same packet with the link set);
    * header readers vs `from_slice` for the IPv4 and IPv6 headers (re-exported from C15's bit-level model).
  Not proved (checked by correspondence + oracle only): `from_ethernet` = header + `from_ether_type`
  shifted by 14 - this needs placement independence of the whole model, which is validated at run time
  on two placements of every input; the remaining header readers (C16 models their I/O).
-/
namespace EpModel.Props.C06
open EpModel EpModel.Dec EpModel.Lemmas.Refine EpModel.Lemmas.Copies

/-! ### the twelve IP boundary implementations -/

/-- strict slice family: IpSlice::from_slice vs Ipv4Slice::from_slice / Ipv6Slice::from_slice -/
theorem ip_slice_dispatch_equals_specific (g : Mem) (o l : Nat) :
    (g o / 16 = 4 → 20 ≤ l → ipSliceFromSlice g o l = renameErr (ipv4SliceFromSlice g o l)) ∧
    (g o / 16 = 6 → 0 < l → ipSliceFromSlice g o l = ipv6SliceFromSlice g o l) ∧
    (g o / 16 ≠ 4 → g o / 16 ≠ 6 → 0 < l → ipSliceFromSlice g o l = .error (.ipVersion (g o / 16))) :=
  ⟨ipSlice_eq_ipv4Slice g o l, ipSlice_eq_ipv6Slice g o l, ipSlice_other g o l⟩

/-- strict struct family: IpHeaders::from_slice vs from_ipv4_slice / from_ipv6_slice (all lengths) -/
theorem ip_headers_dispatch_equals_specific (g : Mem) (o l : Nat) (h0 : 0 < l) :
    (g o / 16 = 4 → ipHeadersFromSlice g o l = renameErr (ipHeadersFromIpv4Slice g o l)) ∧
    (g o / 16 = 6 → ipHeadersFromSlice g o l = ipHeadersFromIpv6Slice g o l) :=
  ⟨fun h => ipHeaders_eq_ipv4 g o l h h0, fun h => ipHeaders_eq_ipv6 g o l h h0⟩

/-- struct vs slice, IPv4: IpHeaders::from_ipv4_slice is Ipv4Slice::from_slice -/
theorem ip_headers_ipv4_equals_slice (g : Mem) (o l : Nat) :
    ipHeadersFromIpv4Slice g o l = ipv4SliceFromSlice g o l := ipHeaders_ipv4_eq_ipv4Slice g o l

/-- lax slice family -/
theorem lax_ip_slice_dispatch_equals_specific (g : Mem) (o l : Nat) :
    (g o / 16 = 4 → 20 ≤ l → laxIpSliceFromSlice g o l = renameErr (laxIpv4SliceFromSlice g o l)) ∧
    (g o / 16 = 6 → 0 < l → laxIpSliceFromSlice g o l = laxIpv6SliceFromSlice g o l) :=
  ⟨laxIpSlice_eq_laxIpv4Slice g o l, laxIpSlice_eq_laxIpv6Slice g o l⟩

/-- lax struct family (this pair agrees on the error names as well) -/
theorem lax_ip_headers_dispatch_equals_specific (g : Mem) (o l : Nat) (h0 : 0 < l) :
    (g o / 16 = 4 → ipHeadersFromSliceLax g o l = ipHeadersFromIpv4SliceLax g o l) ∧
    (g o / 16 = 6 → ipHeadersFromSliceLax g o l = ipHeadersFromIpv6SliceLax g o l) :=
  ⟨fun h => ipHeadersLax_eq_ipv4Lax g o l h h0, fun h => ipHeadersLax_eq_ipv6Lax g o l h h0⟩

/-! ### starting at the IP ether types = starting at IP -/

theorem from_ipv4_ether_type_equals_from_ip (g : Mem) (n : Nat) (h4 : g 0 / 16 = 4) (h20 : 20 ≤ n) :
    slicedFromEtherType g 0x0800 n =
        mapOk (Packet.withLink · (some (.etherPayload 0x0800 ⟨0, n⟩))) (ipv4Path id Cur.new g 0 n) ∧
      slicedFromIp g n = ipv4Path renameIp Cur.new g 0 n :=
  from_ether_type_ipv4_vs_from_ip g n h4 h20

theorem from_ipv6_ether_type_equals_from_ip (g : Mem) (n : Nat) (h6 : g 0 / 16 = 6) (h0 : 0 < n) :
    slicedFromEtherType g 0x86dd n =
      mapOk (Packet.withLink · (some (.etherPayload 0x86dd ⟨0, n⟩))) (slicedFromIp g n) :=
  from_ether_type_ipv6_vs_from_ip g n h6 h0

/-- hypotheses of the above are satisfiable and the conclusion is not about errors only -/
example : (fun i => if i = 0 then 0x45 else 0 : Mem) 0 / 16 = 4 := by decide

/-! ### readers vs slices (bit-level model of C15) -/

theorem ipv4_read_equals_from_slice (b : Bytes) (h : EpModel.BitFields.Ip4) (r : Bytes)
    (hd : EpModel.BitFields.Ip4.fromSlice b = .ok (h, r)) : EpModel.BitFields.Ip4.read b = some (.ok h) :=
  EpModel.Props.C15.ip4_read_eq_from_slice b h r hd

theorem ipv6_read_equals_from_slice (b : Bytes) (h : EpModel.BitFields.Ip6) (r : Bytes)
    (hd : EpModel.BitFields.Ip6.fromSlice b = .ok (h, r)) : EpModel.BitFields.Ip6.read b = some (.ok h) :=
  EpModel.Props.C15.ip6_read_eq_from_slice b h r hd

/-- every strict UDP slice lies inside the slice it was cut from. -/
theorem udp_within (g : Mem) (o l : Nat) (w : Win) (h : udpFromSlice g o l = .ok w) :
    o ≤ w.o ∧ w.o + w.l ≤ o + l := by
  unfold udpFromSlice at h
  split at h
  · contradiction
  · simp only at h
    split at h
    · contradiction
    · split at h
      · cases h; simp
      · split at h
        · contradiction
        · cases h; simp; omega

end EpModel.Props.C06
