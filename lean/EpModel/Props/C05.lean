import EpModel.Lemmas.DecLax
import EpModel.Lemmas.DecRefineLax
import EpModel.Lemmas.DecRefineLaxIp
import EpModel.Lemmas.DecRefineLaxEntry
/-
  C05 — lax parsing extends strict parsing and flags truncation honestly.

  Proved for every memory and input length:
  * `strict_ok_lax_same_*`: whenever strict slicing (from Ethernet II, an ether type, IP) succeeds,
    lax slicing of the same input returns exactly the same layers and payloads, no stop error and
    nothing marked incomplete; the same for every IP boundary implementation, UDP, MACsec and the
    extension walkers (where the strict function *is* the lax one that turns a stop error into Err).
  * `lax_err_iff_first_header_*`: a lax entry point returns Err exactly when the very first header
    is undecodable.
  * `incomplete_iff_*`: a payload is marked incomplete exactly when its length field promised more
    than the slice holds; then the data up to the end of the slice is handed out and the slice is
    the reported length source.
  * `lax_*_matches_wire_formats` (second half of the file): the LAX REFINEMENT.  For every byte string
    the lax cursor model returns exactly what the lax wire-format walk `Spec.decodeLax` returns: the
    same layers in front of the first fault (windows, fragmentation flags, length sources, incomplete
    marks), a stop error exactly when the walk reports a fault, recorded at the layer of the faulting
    unit and describing the fault (`ErrMatch`, the notion of the strict refinement C03/C07).  One known
    wrinkle (`ShortV4Stop`, the lax twin of C03's `ShortV4`): every lax door decodes IP through the
    version-dispatching `LaxIpSlice::from_slice`, which reads the IHL before the length check, so for
    an IPv4 version nibble in 1..19 bytes it names the bad IHL / requires `ihl*4` bytes where the wire
    format reading says "20 bytes needed"; offset, available bytes and layer still agree.
  `Tolerated` (what lax mode absorbs) is the explicit list in the python module; the oracle of the
  check runs `spec.dec.decode_lax` against the real crate in addition to this proof.
-/
namespace EpModel.Props.C05
open EpModel EpModel.Dec EpModel.Lemmas.Dec

theorem strict_ok_lax_same_ethernet (g : Mem) (n : Nat) (p : Packet) (h : slicedFromEthernet g n = .ok p) :
    laxSlicedFromEthernet g n = .ok p ∧ p.stop = none ∧ NoInc p := sliced_ethernet_strict_lax g n p h

theorem strict_ok_lax_same_ether_type (g : Mem) (et n : Nat) (p : Packet)
    (h : slicedFromEtherType g et n = .ok p) :
    laxSlicedFromEtherType g et n = p ∧ p.stop = none ∧ NoInc p := sliced_ether_type_strict_lax g et n p h

theorem strict_ok_lax_same_ip (g : Mem) (n : Nat) (p : Packet) (h : slicedFromIp g n = .ok p) :
    laxSlicedFromIp g n = .ok p ∧ p.stop = none ∧ NoInc p := sliced_ip_strict_lax g n p h

/-- the IP boundary implementations -/
theorem strict_ok_lax_same_ip_boundaries (g : Mem) (o l : Nat) (r : IpR) :
    (ipSliceFromSlice g o l = .ok r → laxIpSliceFromSlice g o l = .ok (r, none) ∧ r.pl.inc = false) ∧
    (ipv4SliceFromSlice g o l = .ok r →
      laxIpv4SliceFromSlice g o l = .ok (r, none) ∧ laxIpSliceFromSlice g o l = .ok (r, none) ∧ r.pl.inc = false) ∧
    (ipv6SliceFromSlice g o l = .ok r →
      laxIpv6SliceFromSlice g o l = .ok (r, none) ∧ laxIpSliceFromSlice g o l = .ok (r, none) ∧ r.pl.inc = false) ∧
    (ipHeadersFromSlice g o l = .ok r → ipHeadersFromSliceLax g o l = .ok (r, none) ∧ r.pl.inc = false) :=
  ⟨ipSlice_strict_lax g o l r,
   fun h => let k := ipv4Slice_strict_lax g o l r h; ⟨k.2.1, k.1, k.2.2⟩,
   fun h => let k := ipv6Slice_strict_lax g o l r h; ⟨k.2.1, k.1, k.2.2⟩,
   ipHeaders_strict_lax g o l r⟩

theorem strict_ok_lax_same_udp (g : Mem) (o l : Nat) (w : Win) (h : udpFromSlice g o l = .ok w) :
    udpFromSliceLax g o l = .ok w := udp_strict_ok_lax_same g o l w h

theorem strict_ok_lax_same_macsec (g : Mem) (o l : Nat) (x : ExtR) (h : macsecFromSlice g o l = .ok x) :
    laxMacsecFromSlice g o l = .ok x := macsec_strict_ok_lax_same g o l x h

/-- extension walkers: the strict result is the lax result, and the lax one has no stop error -/
theorem strict_ok_lax_same_exts (g : Mem) (sm : Bool) (nh o l : Nat) (r : ExtsOut)
    (h : extsWalkStrict g sm nh o l = .ok r) : r = extsWalk g sm nh o l ∧ (extsWalk g sm nh o l).stop = none :=
  extsWalkStrict_ok g sm nh o l r h

/-! ### Err only when the first header is undecodable -/

theorem lax_err_iff_first_header_ethernet (g : Mem) (n : Nat) :
    (∃ e, laxSlicedFromEthernet g n = .error e) ↔ n < 14 := by
  unfold laxSlicedFromEthernet eth2FromSlice
  by_cases h : n < 14 <;> simp [h]

theorem lax_err_iff_first_header_ip (g : Mem) (n : Nat) :
    (∃ e, laxSlicedFromIp g n = .error e) ↔ ∃ e, ipDispatchHeader g false 0 n = .error e := by
  unfold laxSlicedFromIp laxIpSliceFromSlice
  cases hd : ipDispatchHeader g false 0 n with
  | error e => simp
  | ok x => cases x <;> simp

/-- (`LaxSlicedPacket::from_ether_type` returns no `Result` at all: it is total by its type.) -/
theorem lax_ether_type_total (g : Mem) (et n : Nat) : ∃ p, laxSlicedFromEtherType g et n = p := ⟨_, rfl⟩

/-! ### incomplete ⇔ the length field promised more than the slice holds -/

theorem incomplete_iff_ipv4 (o l hl tl : Nat) :
    ((ipv4BoundLax o l hl tl).2.2 = true ↔ (hl ≤ tl ∧ l < tl)) ∧
      ((ipv4BoundLax o l hl tl).2.2 = true →
        (ipv4BoundLax o l hl tl).1 = ⟨o + hl, l - hl⟩ ∧ (ipv4BoundLax o l hl tl).2.1 = .slice) := by
  unfold ipv4BoundLax
  split
  · simp; omega
  · split <;> simp <;> omega

theorem incomplete_iff_ipv6 (o l pl : Nat) :
    ((ipv6BoundLax o l pl).2.2 = true ↔ (¬ (pl = 0 ∧ l > 40) ∧ l < 40 + pl)) ∧
      ((ipv6BoundLax o l pl).2.2 = true →
        (ipv6BoundLax o l pl).1 = ⟨o + 40, l - 40⟩ ∧ (ipv6BoundLax o l pl).2.1 = .slice) := by
  unfold ipv6BoundLax
  split
  · simp_all
  · split <;> simp_all

theorem incomplete_iff_macsec (g : Mem) (o l : Nat) (hdr pl : Win) (src : LenSource) (inc : Bool)
    (h : laxMacsecFromSlice g o l = .ok (.macsec hdr pl src inc)) :
    (inc = true ↔ ∃ n, macsecExpectedPayloadLen g o = some n ∧ l < hdr.l + n) ∧
      (inc = true → pl = ⟨o + hdr.l, l - hdr.l⟩ ∧ src = .slice) := by
  unfold laxMacsecFromSlice at h
  split at h
  · contradiction
  · rename_i hl hh
    split at h
    · rename_i n hn
      simp only at h
      split at h
      · cases h; simp_all
      · cases h; simp_all
    · cases h; simp_all

/-- UDP lax: the slice is cut to the UDP length exactly when that length is admissible, otherwise
    the rest of the data is handed out -/
theorem udp_lax_rule (g : Mem) (o l : Nat) (h8 : 8 ≤ l) :
    udpFromSliceLax g o l =
      .ok (if l < g16 g (o + 4) ∨ g16 g (o + 4) < 8 then ⟨o, l⟩ else ⟨o, g16 g (o + 4)⟩) := by
  unfold udpFromSliceLax
  have : ¬ l < 8 := by omega
  simp only [this, if_false]
  split <;> rfl

/-! ### the lax refinement: lax slicing = the lax wire-format walk, for every byte string -/

open EpModel.Spec EpModel.Lemmas.Refine EpModel.Lemmas.RefineLax

/-- `LaxSlicedPacket::from_ether_type` = wire formats, for every ether type and byte string:
    the same layers in front of the first fault, a stop error iff the walk reports a fault, and the
    stop error describes the fault (`RelLaxW` = `RelLax` + the short-IPv4 wrinkle `ShortV4Stop`). -/
theorem lax_from_ether_type_matches_wire_formats (et : Nat) (b : Bytes) :
    RelLaxW (memOf b) (laxSlicedFromEtherType (memOf b) et b.length)
      (Spec.decodeLax (.etherType et) (memOf b) b.length) :=
  lax_from_ether_type_refinesW (memOf b) (byteMem_memOf b) et b.length

/-- … and without any exception (`RelLax`: the stop error matches the fault in the sense of the strict
    refinement) whenever the walk does not end at an IPv4 header of fewer than 20 bytes. -/
theorem lax_from_ether_type_matches_wire_formats_exactly (et : Nat) (b : Bytes)
    (h : ¬ ShortV4Fault (Spec.decodeLax (.etherType et) (memOf b) b.length)) :
    RelLax (laxSlicedFromEtherType (memOf b) et b.length)
      (Spec.decodeLax (.etherType et) (memOf b) b.length) :=
  relLax_of_W (lax_from_ether_type_matches_wire_formats et b) h

/-- `LaxSlicedPacket::from_ethernet` = wire formats: `Err` exactly when the walk faults at the
    Ethernet II header (with a matching length error), otherwise as for `from_ether_type`. -/
theorem lax_from_ethernet_matches_wire_formats (b : Bytes) :
    match laxSlicedFromEthernet (memOf b) b.length with
    | .error e =>
      ∃ f, Spec.decodeLax .eth (memOf b) b.length = (Packet.empty, some f) ∧ f.unit = .eth ∧ LenMatch e f
    | .ok m =>
      RelLaxW (memOf b) m (Spec.decodeLax .eth (memOf b) b.length) ∧
        ∀ f, (Spec.decodeLax .eth (memOf b) b.length).2 = some f → f.unit ≠ .eth :=
  lax_from_ethernet_refinesW (memOf b) (byteMem_memOf b) b.length

theorem lax_from_ethernet_matches_wire_formats_exactly (b : Bytes) (m : Packet)
    (hm : laxSlicedFromEthernet (memOf b) b.length = .ok m)
    (h : ¬ ShortV4Fault (Spec.decodeLax .eth (memOf b) b.length)) :
    RelLax m (Spec.decodeLax .eth (memOf b) b.length) := by
  have key := lax_from_ethernet_matches_wire_formats b
  rw [hm] at key
  exact relLax_of_W key.1 h

/-- `LaxSlicedPacket::from_ip` = wire formats: `Err` exactly when the walk faults at the first (IP)
    header, before any layer; otherwise `RelLax`.  On the input class of the wrinkle (IPv4 version
    nibble, 1..19 bytes) both reject, the model with the error `ShortV4` describes (as in C03). -/
theorem lax_from_ip_matches_wire_formats (b : Bytes) :
    if memOf b 0 / 16 = 4 ∧ 0 < b.length ∧ b.length < 20 then
      (∃ e, laxSlicedFromIp (memOf b) b.length = .error e ∧ ShortV4 (memOf b) 0 b.length Cur.new e) ∧
        Spec.decodeLax .ip (memOf b) b.length =
          (Packet.empty, some (mkFault (ctx0 b.length) .cutShort .ipv4Header 20))
    else
      match laxSlicedFromIp (memOf b) b.length with
      | .error e =>
        ∃ f, Spec.decodeLax .ip (memOf b) b.length = (Packet.empty, some f) ∧
          (f.unit = .ipAny ∨ f.unit = .ipv4Header ∨ f.unit = .ipv6Header) ∧ ErrMatch e f
      | .ok m => RelLax m (Spec.decodeLax .ip (memOf b) b.length) ∧ m.net.isSome :=
  lax_from_ip_refines (memOf b) (byteMem_memOf b) b.length

/-- … and an `Ok` of lax `from_ip` means the walk has no fault at the first (IP) header -/
theorem lax_from_ip_ok_not_first_header (b : Bytes) (m : Packet)
    (h : laxSlicedFromIp (memOf b) b.length = .ok m) (f : Fault)
    (hf : (Spec.decodeLax .ip (memOf b) b.length).2 = some f) :
    ¬ (f.unit = .ipAny ∨ f.unit = .ipv4Header ∨ f.unit = .ipv6Header) :=
  lax_from_ip_ok_fault_unit (memOf b) (byteMem_memOf b) b.length m h f hf

/-- Corollary (all lax doors that return a packet): the layers in front of the fault are the wire
    format's, a lax result has a stop error exactly when the wire-format walk reports a fault, and the
    stop error is located where the fault is — the recorded layer names the faulting unit, a length
    error carries the fault's absolute offset and the bytes really available there.  This holds
    without exception (also on the wrinkle's input class). -/
theorem lax_stop_iff_fault_and_located (g : Mem) (m : Packet) (s : Packet × Option Fault)
    (h : RelLaxW g m s) :
    noStop m = s.1 ∧ (m.stop = none ↔ s.2 = none) ∧
      ∀ e ly f, m.stop = some (e, ly) → s.2 = some f →
        StopLayer ly f.unit ∧ ∀ le, e = .len le → le.off = f.off ∧ le.len = f.avail :=
  ⟨((relLaxW_iff g m s).mp h).1, ((relLaxW_iff g m s).mp h).2.1,
    fun e ly f hm hf => relLaxW_located h e ly f hm hf⟩

theorem lax_ether_type_stop_iff_fault (et : Nat) (b : Bytes) :
    ((laxSlicedFromEtherType (memOf b) et b.length).stop = none ↔
      (Spec.decodeLax (.etherType et) (memOf b) b.length).2 = none) ∧
    ∀ e ly f, (laxSlicedFromEtherType (memOf b) et b.length).stop = some (e, ly) →
      (Spec.decodeLax (.etherType et) (memOf b) b.length).2 = some f →
      StopLayer ly f.unit ∧ ∀ le, e = .len le → le.off = f.off ∧ le.len = f.avail :=
  (lax_stop_iff_fault_and_located _ _ _ (lax_from_ether_type_matches_wire_formats et b)).2

theorem lax_ethernet_stop_iff_fault (b : Bytes) (m : Packet)
    (hm : laxSlicedFromEthernet (memOf b) b.length = .ok m) :
    (m.stop = none ↔ (Spec.decodeLax .eth (memOf b) b.length).2 = none) ∧
    ∀ e ly f, m.stop = some (e, ly) → (Spec.decodeLax .eth (memOf b) b.length).2 = some f →
      StopLayer ly f.unit ∧ ∀ le, e = .len le → le.off = f.off ∧ le.len = f.avail := by
  have key := lax_from_ethernet_matches_wire_formats b
  rw [hm] at key
  exact (lax_stop_iff_fault_and_located _ _ _ key.1).2

theorem lax_ip_stop_iff_fault (b : Bytes) (m : Packet)
    (hm : laxSlicedFromIp (memOf b) b.length = .ok m) :
    (m.stop = none ↔ (Spec.decodeLax .ip (memOf b) b.length).2 = none) ∧
    ∀ e ly f, m.stop = some (e, ly) → (Spec.decodeLax .ip (memOf b) b.length).2 = some f →
      StopLayer ly f.unit ∧ ErrMatch e f := by
  have key := lax_from_ip_matches_wire_formats b
  split at key
  · obtain ⟨⟨e, he, _⟩, _⟩ := key
    rw [he] at hm; cases hm
  · rw [hm] at key
    exact ((relLax_iff _ _).mp key.1).2

/-! ### the wrinkle is real -/

/-- the statement without the wrinkle, kept for reference -/
def LaxEtherTypeExceptionFree : Prop :=
  ∀ (et : Nat) (b : Bytes),
    RelLax (laxSlicedFromEtherType (memOf b) et b.length) (Spec.decodeLax (.etherType et) (memOf b) b.length)

/-- … it is false: on the 4 bytes `4f 00 00 00` behind ether type 0x0800 the lax cursor requires
    60 bytes (IHL 15, read before the length check) where the wire-format walk says "20 needed".
    `lax_from_ether_type_matches_wire_formats` (with `ShortV4Stop`) is therefore the full statement;
    `…_exactly` says that this input class is the only exception. -/
theorem lax_exception_free_statement_fails : ¬ LaxEtherTypeExceptionFree := by
  intro hall
  have h := hall 0x0800 [0x4f, 0, 0, 0]
  have hm : (laxSlicedFromEtherType (memOf [0x4f, 0, 0, 0]) 0x0800 4).stop =
      some (.len { req := 60, len := 4, src := .slice, layer := .ipv4Header, off := 0 }, .ipHeader) := by
    decide
  have hf : (Spec.decodeLax (.etherType 0x0800) (memOf [0x4f, 0, 0, 0]) 4).2 =
      some { cls := .cutShort, unit := .ipv4Header, off := 0, avail := 4, need := 20, lim := .slice, value := 0 } := by
    decide
  have := (((relLax_iff _ _).mp h).2.2 _ _ _ hm hf).2
  exact absurd this.req (by decide)

end EpModel.Props.C05
