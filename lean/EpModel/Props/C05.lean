import EpModel.Lemmas.DecLax
/-
  C05 — lax parsing extends strict parsing and flags truncation honestly.

  Proved for every memory and input length:
  * `strict_ok_lax_same_*`: whenever strict slicing (from Ethernet II, an ether type, IP) succeeds,
    lax slicing of the same input returns exactly the same layers and payloads, no stop error and
    nothing marked incomplete; the same for every IP boundary implementation, UDP, MACsec and the
    extension walkers (where the strict function *is* the lax one that turns a stop error into Err).
  * `lax_err_iff_first_header_*`: a lax entry point returns Err exactly when the very first header
    is undecodable.
  * `incomplete_iff_*`: a payload is marked incomplete exactly when its length field promised more
    than the slice holds; then the data up to the end of the slice is handed out and the slice is
    the reported length source.
  The comparison of the lax layer prefix with the wire formats (Spec.decodeLax) and the location of
  stop errors is exercised by the oracle of the check; `Tolerated` (what lax mode absorbs) is the
  explicit list in the python module.
-/
namespace EpModel.Props.C05
open EpModel EpModel.Dec EpModel.Lemmas.Dec

theorem strict_ok_lax_same_ethernet (g : Mem) (n : Nat) (p : Packet) (h : slicedFromEthernet g n = .ok p) :
    laxSlicedFromEthernet g n = .ok p ∧ p.stop = none ∧ NoInc p := sliced_ethernet_strict_lax g n p h

theorem strict_ok_lax_same_ether_type (g : Mem) (et n : Nat) (p : Packet)
    (h : slicedFromEtherType g et n = .ok p) :
    laxSlicedFromEtherType g et n = p ∧ p.stop = none ∧ NoInc p := sliced_ether_type_strict_lax g et n p h

theorem strict_ok_lax_same_ip (g : Mem) (n : Nat) (p : Packet) (h : slicedFromIp g n = .ok p) :
    laxSlicedFromIp g n = .ok p ∧ p.stop = none ∧ NoInc p := sliced_ip_strict_lax g n p h

/-- the IP boundary implementations -/
theorem strict_ok_lax_same_ip_boundaries (g : Mem) (o l : Nat) (r : IpR) :
    (ipSliceFromSlice g o l = .ok r → laxIpSliceFromSlice g o l = .ok (r, none) ∧ r.pl.inc = false) ∧
    (ipv4SliceFromSlice g o l = .ok r →
      laxIpv4SliceFromSlice g o l = .ok (r, none) ∧ laxIpSliceFromSlice g o l = .ok (r, none) ∧ r.pl.inc = false) ∧
    (ipv6SliceFromSlice g o l = .ok r →
      laxIpv6SliceFromSlice g o l = .ok (r, none) ∧ laxIpSliceFromSlice g o l = .ok (r, none) ∧ r.pl.inc = false) ∧
    (ipHeadersFromSlice g o l = .ok r → ipHeadersFromSliceLax g o l = .ok (r, none) ∧ r.pl.inc = false) :=
  ⟨ipSlice_strict_lax g o l r,
   fun h => let k := ipv4Slice_strict_lax g o l r h; ⟨k.2.1, k.1, k.2.2⟩,
   fun h => let k := ipv6Slice_strict_lax g o l r h; ⟨k.2.1, k.1, k.2.2⟩,
   ipHeaders_strict_lax g o l r⟩

theorem strict_ok_lax_same_udp (g : Mem) (o l : Nat) (w : Win) (h : udpFromSlice g o l = .ok w) :
    udpFromSliceLax g o l = .ok w := udp_strict_ok_lax_same g o l w h

theorem strict_ok_lax_same_macsec (g : Mem) (o l : Nat) (x : ExtR) (h : macsecFromSlice g o l = .ok x) :
    laxMacsecFromSlice g o l = .ok x := macsec_strict_ok_lax_same g o l x h

/-- extension walkers: the strict result is the lax result, and the lax one has no stop error -/
theorem strict_ok_lax_same_exts (g : Mem) (sm : Bool) (nh o l : Nat) (r : ExtsOut)
    (h : extsWalkStrict g sm nh o l = .ok r) : r = extsWalk g sm nh o l ∧ (extsWalk g sm nh o l).stop = none :=
  extsWalkStrict_ok g sm nh o l r h

/-! ### Err only when the first header is undecodable -/

theorem lax_err_iff_first_header_ethernet (g : Mem) (n : Nat) :
    (∃ e, laxSlicedFromEthernet g n = .error e) ↔ n < 14 := by
  unfold laxSlicedFromEthernet eth2FromSlice
  by_cases h : n < 14 <;> simp [h]

theorem lax_err_iff_first_header_ip (g : Mem) (n : Nat) :
    (∃ e, laxSlicedFromIp g n = .error e) ↔ ∃ e, ipDispatchHeader g false 0 n = .error e := by
  unfold laxSlicedFromIp laxIpSliceFromSlice
  cases hd : ipDispatchHeader g false 0 n with
  | error e => simp
  | ok x => cases x <;> simp

/-- (`LaxSlicedPacket::from_ether_type` returns no `Result` at all: it is total by its type.) -/
theorem lax_ether_type_total (g : Mem) (et n : Nat) : ∃ p, laxSlicedFromEtherType g et n = p := ⟨_, rfl⟩

/-! ### incomplete ⇔ the length field promised more than the slice holds -/

theorem incomplete_iff_ipv4 (o l hl tl : Nat) :
    ((ipv4BoundLax o l hl tl).2.2 = true ↔ (hl ≤ tl ∧ l < tl)) ∧
      ((ipv4BoundLax o l hl tl).2.2 = true →
        (ipv4BoundLax o l hl tl).1 = ⟨o + hl, l - hl⟩ ∧ (ipv4BoundLax o l hl tl).2.1 = .slice) := by
  unfold ipv4BoundLax
  split
  · simp; omega
  · split <;> simp <;> omega

theorem incomplete_iff_ipv6 (o l pl : Nat) :
    ((ipv6BoundLax o l pl).2.2 = true ↔ (¬ (pl = 0 ∧ l > 40) ∧ l < 40 + pl)) ∧
      ((ipv6BoundLax o l pl).2.2 = true →
        (ipv6BoundLax o l pl).1 = ⟨o + 40, l - 40⟩ ∧ (ipv6BoundLax o l pl).2.1 = .slice) := by
  unfold ipv6BoundLax
  split
  · simp_all
  · split <;> simp_all

theorem incomplete_iff_macsec (g : Mem) (o l : Nat) (hdr pl : Win) (src : LenSource) (inc : Bool)
    (h : laxMacsecFromSlice g o l = .ok (.macsec hdr pl src inc)) :
    (inc = true ↔ ∃ n, macsecExpectedPayloadLen g o = some n ∧ l < hdr.l + n) ∧
      (inc = true → pl = ⟨o + hdr.l, l - hdr.l⟩ ∧ src = .slice) := by
  unfold laxMacsecFromSlice at h
  split at h
  · contradiction
  · rename_i hl hh
    split at h
    · rename_i n hn
      simp only at h
      split at h
      · cases h; simp_all
      · cases h; simp_all
    · cases h; simp_all

/-- UDP lax: the slice is cut to the UDP length exactly when that length is admissible, otherwise
    the rest of the data is handed out -/
theorem udp_lax_rule (g : Mem) (o l : Nat) (h8 : 8 ≤ l) :
    udpFromSliceLax g o l =
      .ok (if l < g16 g (o + 4) ∨ g16 g (o + 4) < 8 then ⟨o, l⟩ else ⟨o, g16 g (o + 4)⟩) := by
  unfold udpFromSliceLax
  have : ¬ l < 8 := by omega
  simp only [this, if_false]
  split <;> rfl

end EpModel.Props.C05
