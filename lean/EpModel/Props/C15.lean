import EpModel.Lemmas.BitFields
/-
  C15 — bit-field types hold only in-range values and never bleed into neighbours.

  Model: EpModel.Model.BitFields (the nine bounded newtypes, six headers).  Spec: EpModel.Spec.BitLayout
  (layout tables from the RFC / IEEE format diagrams, generic `extract`).  `WF h` says that every
  field of the header value holds a value of its Rust type (what the checked constructors
  guarantee); `h.get name` / `h.set name v` read / replace the field called `name` in the table.

  Shape of the statements, per header X with table T:
    x_layout          WF h → ∀ f ∈ T, extract f (toBytes h) = h.get f.name
                      (the encoder realises the table: every field, constant and reserved bit)
    x_field_isolated  WF h → f ∈ T settable → v < 2^f.width →
                        extract f (toBytes (h.set f v)) = v ∧ ∀ g ∈ T, g ≠ f → extract g unchanged
                      (with `tables_tile`: T covers every bit of the header exactly once, so
                       "every other field of T unchanged" is "every bit outside f unchanged")
    x_decode_in_range ∀ bytes, decode bytes = ok h → WF h
    x_decode_layout   ∀ bytes, decode bytes = ok h → ∀ f ∈ T, extract f bytes = h.get f.name
    x_roundtrip       WF h → decode (toBytes h ++ rest) = ok (h, rest)
-/
namespace EpModel.Props.C15
open EpModel EpModel.BitFields EpModel.Spec.BitLayout

/-! ## (a) checked constructors accept exactly the values that fit -/

theorem vlan_id_exact : Exact 12 .VlanId VlanId.tryNew ∧ Exact 12 .VlanId VlanId.tryFrom :=
  ⟨exact_of 12 _ _ (fun _ => rfl), exact_of 12 _ _ (fun _ => rfl)⟩
theorem vlan_pcp_exact : Exact 3 .VlanPcp VlanPcp.tryNew ∧ Exact 3 .VlanPcp VlanPcp.tryFrom :=
  ⟨exact_of 3 _ _ (fun _ => rfl), exact_of 3 _ _ (fun _ => rfl)⟩
theorem ip_dscp_exact : Exact 6 .IpDscp IpDscp.tryNew ∧ Exact 6 .IpDscp IpDscp.tryFrom :=
  ⟨exact_of 6 _ _ (fun _ => rfl), exact_of 6 _ _ (fun _ => rfl)⟩
theorem ip_ecn_exact : Exact 2 .IpEcn IpEcn.tryNew ∧ Exact 2 .IpEcn IpEcn.tryFrom :=
  ⟨exact_of 2 _ _ (fun _ => rfl), exact_of 2 _ _ (fun _ => rfl)⟩
theorem ip_frag_offset_exact :
    Exact 13 .IpFragmentOffset IpFragOffset.tryNew ∧ Exact 13 .IpFragmentOffset IpFragOffset.tryFrom :=
  ⟨exact_of 13 _ _ (fun _ => rfl), exact_of 13 _ _ (fun _ => rfl)⟩
theorem ipv6_flow_label_exact :
    Exact 20 .Ipv6FlowLabel Ipv6FlowLabel.tryNew ∧ Exact 20 .Ipv6FlowLabel Ipv6FlowLabel.tryFrom :=
  ⟨exact_of 20 _ _ (fun _ => rfl), exact_of 20 _ _ (fun _ => rfl)⟩
theorem macsec_an_exact : Exact 2 .MacsecAn MacsecAn.tryNew ∧ Exact 2 .MacsecAn MacsecAn.tryFrom :=
  ⟨exact_of 2 _ _ (fun _ => rfl), exact_of 2 _ _ (fun _ => rfl)⟩
theorem macsec_short_len_exact :
    Exact 6 .MacsecShortLen MacsecShortLen.tryFromU8 ∧ Exact 6 .MacsecShortLen MacsecShortLen.tryFrom :=
  ⟨exact_of 6 _ _ (fun _ => rfl), exact_of 6 _ _ (fun _ => rfl)⟩
theorem igmp_qrv_exact : Exact 3 .IgmpQrv Qrv.tryNew ∧ Exact 3 .IgmpQrv Qrv.tryFrom :=
  ⟨exact_of 3 _ _ (fun _ => rfl), exact_of 3 _ _ (fun _ => rfl)⟩

/-- `MacsecShortLen::from_len` never yields an out-of-range value: lengths that fit are kept,
    all others become 0 ("unknown"). -/
theorem macsec_short_len_from_len (len : Nat) :
    MacsecShortLen.fromLen len < 2 ^ 6 ∧ (len < 2 ^ 6 → MacsecShortLen.fromLen len = len) ∧
      (¬ len < 2 ^ 6 → MacsecShortLen.fromLen len = 0) := by
  unfold MacsecShortLen.fromLen
  split <;> omega

/-- `IpFragOffset::byte_offset` of an in-range offset is exactly 8 times the offset (the `<< 3` on
    the u16 loses nothing). -/
theorem frag_offset_byte_offset (v : Nat) (hv : v < 2 ^ 13) : IpFragOffset.byteOffset v = 8 * v := by
  unfold IpFragOffset.byteOffset; omega

/-! ## SingleVlanHeader -/

theorem vlan_layout (h : Vlan) (wf : h.WF) (f : Field) (hf : f ∈ vlan) :
    extract f h.toBytes = h.get f.name := by
  rw [Vlan.toBytes_arith h wf]
  obtain ⟨h1, h2, h3⟩ := wf
  simp only [vlan, List.mem_cons, List.mem_nil_iff, or_false] at hf
  rcases hf with rfl | rfl | rfl | rfl <;>
    simp [extract, Field.nBytes, Field.low, spanVal, Vlan.get, b2n] <;> (try split) <;> omega

theorem vlan_set_wf (h : Vlan) (wf : h.WF) (f : Field) (hf : f ∈ vlan) (v : Nat)
    (hv : v < 2 ^ f.width) : (h.set f.name v).WF := by
  obtain ⟨h1, h2, h3⟩ := wf
  simp only [vlan, List.mem_cons, List.mem_nil_iff, or_false] at hf
  rcases hf with rfl | rfl | rfl | rfl <;> simp [Vlan.set, Vlan.WF] at hv ⊢ <;> omega

theorem vlan_field_isolated (h : Vlan) (wf : h.WF) (f : Field) (hf : f ∈ vlan) (v : Nat)
    (hv : v < 2 ^ f.width) :
    (h.set f.name v).toBytes.length = h.toBytes.length ∧
    extract f (h.set f.name v).toBytes = v ∧
    ∀ g ∈ vlan, g ≠ f → extract g (h.set f.name v).toBytes = extract g h.toBytes := by
  have wf' := vlan_set_wf h wf f hf v hv
  refine ⟨by simp [Vlan.toBytes], ?_, ?_⟩
  · rw [vlan_layout _ wf' f hf]
    simp only [vlan, List.mem_cons, List.mem_nil_iff, or_false] at hf
    rcases hf with rfl | rfl | rfl | rfl <;> simp [Vlan.set, Vlan.get, b2n] at hv ⊢
    split <;> omega
  · intro g hg hne
    rw [vlan_layout _ wf' g hg, vlan_layout _ wf g hg]
    simp only [vlan, List.mem_cons, List.mem_nil_iff, or_false] at hf hg
    rcases hf with rfl | rfl | rfl | rfl <;> rcases hg with rfl | rfl | rfl | rfl <;>
      first | exact absurd rfl hne | simp [Vlan.set, Vlan.get]

/-- both decoders (`from_bytes` and the slice accessors) only produce in-range values, for any bytes. -/
theorem vlan_decode_in_range (b : Bytes) : (Vlan.fromBytes b).WF ∧ (Vlan.sliceToHeader b).WF := by
  have := bAt_lt b 0; have := bAt_lt b 1; have := bAt_lt b 2; have := bAt_lt b 3
  have := be16_lt b 2
  simp only [Vlan.fromBytes, Vlan.sliceToHeader, Vlan.WF]
  omega

/-- both decoders read exactly the bits the table assigns to each field. -/
theorem vlan_decode_layout (b : Bytes) (f : Field) (hf : f ∈ vlan) :
    extract f b = (Vlan.sliceToHeader b).get f.name ∧ extract f b = (Vlan.fromBytes b).get f.name := by
  have := bAt_lt b 0; have := bAt_lt b 1; have := bAt_lt b 2; have := bAt_lt b 3
  simp only [vlan, List.mem_cons, List.mem_nil_iff, or_false] at hf
  rcases hf with rfl | rfl | rfl | rfl <;>
    simp [extract, Field.nBytes, Field.low, spanVal, Vlan.get, Vlan.sliceToHeader, Vlan.fromBytes,
      be16, b2n] <;>
    (try split) <;> omega

theorem vlan_roundtrip (h : Vlan) (wf : h.WF) (rest : Bytes) :
    Vlan.fromSlice (h.toBytes ++ rest) = .ok (h, rest) ∧ Vlan.fromBytes h.toBytes = h := by
  rw [Vlan.toBytes_arith h wf]
  obtain ⟨h1, h2, h3⟩ := wf
  cases h with | mk pcp dei vid et =>
  simp only at h1 h2 h3
  constructor
  · have e : ¬ (List.length rest + 1 + 1 + 1 + 1 < 4) := by omega
    cases dei <;> simp [Vlan.fromSlice, Vlan.sliceToHeader, be16, e] <;> omega
  · cases dei <;> simp [Vlan.fromBytes] <;> omega

/-! ## Ipv6FragmentHeader -/

theorem frag_layout (h : Frag6) (wf : h.WF) (f : Field) (hf : f ∈ ipv6Frag) :
    extract f h.toBytes = h.get f.name := by
  rw [Frag6.toBytes_arith h wf]
  obtain ⟨h1, h2, h3⟩ := wf
  have hb : b2n h.mf < 2 := by unfold b2n; split <;> omega
  simp only [ipv6Frag, List.mem_cons, List.mem_nil_iff, or_false] at hf
  rcases hf with rfl | rfl | rfl | rfl | rfl | rfl <;>
    simp [extract, Field.nBytes, Field.low, spanVal, Frag6.get] <;> omega

theorem frag_set_wf (h : Frag6) (wf : h.WF) (f : Field) (hf : f ∈ ipv6Frag) (v : Nat)
    (hv : v < 2 ^ f.width) : (h.set f.name v).WF := by
  obtain ⟨h1, h2, h3⟩ := wf
  simp only [ipv6Frag, List.mem_cons, List.mem_nil_iff, or_false] at hf
  rcases hf with rfl | rfl | rfl | rfl | rfl | rfl <;> simp [Frag6.set, Frag6.WF] at hv ⊢ <;> omega

theorem frag_field_isolated (h : Frag6) (wf : h.WF) (f : Field) (hf : f ∈ ipv6Frag)
    (hs : f.name ∈ Frag6.settable) (v : Nat) (hv : v < 2 ^ f.width) :
    (h.set f.name v).toBytes.length = h.toBytes.length ∧
    extract f (h.set f.name v).toBytes = v ∧
    ∀ g ∈ ipv6Frag, g ≠ f → extract g (h.set f.name v).toBytes = extract g h.toBytes := by
  have wf' := frag_set_wf h wf f hf v hv
  refine ⟨by simp [Frag6.toBytes], ?_, ?_⟩
  · rw [frag_layout _ wf' f hf]
    simp only [ipv6Frag, List.mem_cons, List.mem_nil_iff, or_false] at hf
    rcases hf with rfl | rfl | rfl | rfl | rfl | rfl <;>
      simp [Frag6.set, Frag6.get, Frag6.settable, b2n] at hv hs ⊢
    split <;> omega
  · intro g hg hne
    rw [frag_layout _ wf' g hg, frag_layout _ wf g hg]
    simp only [ipv6Frag, List.mem_cons, List.mem_nil_iff, or_false] at hf hg
    rcases hf with rfl | rfl | rfl | rfl | rfl | rfl <;>
      rcases hg with rfl | rfl | rfl | rfl | rfl | rfl <;>
      first | exact absurd rfl hne | simp [Frag6.set, Frag6.get]

theorem frag_decode_in_range (b : Bytes) (h : Frag6) (r : Bytes)
    (hd : Frag6.fromSlice b = .ok (h, r)) : h.WF := by
  have := bAt_lt b 0; have := bAt_lt b 2; have := bAt_lt b 3; have := be32_lt b 4
  unfold Frag6.fromSlice at hd
  split at hd
  · cases hd
  · cases hd
    simp only [Frag6.WF]; omega

theorem frag_decode_layout (b : Bytes) (h : Frag6) (r : Bytes)
    (hd : Frag6.fromSlice b = .ok (h, r)) (f : Field) (hf : f ∈ ipv6Frag)
    (hs : f.name ∈ Frag6.settable) : extract f b = h.get f.name := by
  have := bAt_lt b 0; have := bAt_lt b 2; have := bAt_lt b 3
  have := bAt_lt b 4; have := bAt_lt b 5; have := bAt_lt b 6; have := bAt_lt b 7
  unfold Frag6.fromSlice at hd
  split at hd
  · cases hd
  · cases hd
    simp only [ipv6Frag, List.mem_cons, List.mem_nil_iff, or_false] at hf
    rcases hf with rfl | rfl | rfl | rfl | rfl | rfl <;>
      simp [extract, Field.nBytes, Field.low, spanVal, Frag6.get, Frag6.settable, be32, b2n] at hs ⊢ <;>
      (try split) <;> omega

theorem frag_roundtrip (h : Frag6) (wf : h.WF) (rest : Bytes) :
    Frag6.fromSlice (h.toBytes ++ rest) = .ok (h, rest) := by
  rw [Frag6.toBytes_arith h wf]
  obtain ⟨h1, h2, h3⟩ := wf
  cases h with | mk nh fo mf id =>
  simp only at h1 h2 h3
  have e : ¬ (List.length rest + 1 + 1 + 1 + 1 + 1 + 1 + 1 + 1 < 8) := by omega
  cases mf <;> simp [Frag6.fromSlice, be32, e, b2n] <;> omega

/-! ## igmp::MembershipQueryWithSourcesHeader (IGMPv3 query) -/

theorem igmp_layout (h : Query) (wf : h.WF) (cks : Nat) (hc : cks < 65536) (f : Field)
    (hf : f ∈ igmpQuery) : extract f (h.toBytes cks) = h.get cks f.name := by
  obtain ⟨h1, h2, h3, h4, h5⟩ := wf
  have := bAt_lt h.group 0; have := bAt_lt h.group 1; have := bAt_lt h.group 2
  have := bAt_lt h.group 3
  simp only [igmpQuery, List.mem_cons, List.mem_nil_iff, or_false] at hf
  rcases hf with rfl | rfl | rfl | rfl | rfl | rfl | rfl | rfl | rfl <;>
    simp [extract, Field.nBytes, Field.low, spanVal, Query.get, Query.toBytes, arr_toNat] <;> omega

/-- the accessors read the bits of the table and return in-range values. -/
theorem igmp_accessors (raw : Nat) (hr : raw < 256) :
    Query.flags raw = extract ⟨"flags", 0, 0, 4⟩ [u8 raw] ∧
    b2n (Query.sFlag raw) = extract ⟨"s", 0, 4, 1⟩ [u8 raw] ∧
    Query.qrv raw = extract ⟨"qrv", 0, 5, 3⟩ [u8 raw] ∧
    Query.flags raw < 2 ^ 4 ∧ Query.qrv raw < 2 ^ 3 := by
  refine ⟨?_, ?_, ?_, ?_, ?_⟩ <;>
    simp [extract, Field.nBytes, Field.low, spanVal, Query.flags, Query.sFlag, Query.qrv, b2n] <;>
    (try split) <;> omega

/-- `set_qrv` with an in-range value, `set_s_flag` and `set_flags` (any `u8`, the low four bits are
    kept) rewrite exactly their own bits of `raw_byte_8`. -/
theorem igmp_setters_isolated (raw : Nat) (hr : raw < 256) (f : Field) (hf : f ∈ igmpByte8) :
    (∀ v, v < 2 ^ 3 → Query.setQrv raw v < 256 ∧
      extract f [u8 (Query.setQrv raw v)] = if f.name = "qrv" then v else extract f [u8 raw]) ∧
    (∀ s, Query.setSFlag raw s < 256 ∧
      extract f [u8 (Query.setSFlag raw s)] = if f.name = "s" then b2n s else extract f [u8 raw]) ∧
    (∀ v, Query.setFlags raw v < 256 ∧
      extract f [u8 (Query.setFlags raw v)] =
        if f.name = "flags" then v % 2 ^ 4 else extract f [u8 raw]) := by
  simp only [igmpByte8, List.mem_cons, List.mem_nil_iff, or_false] at hf
  refine ⟨?_, ?_, ?_⟩
  · intro v hv
    rw [Query.setQrv_arith]
    rcases hf with rfl | rfl | rfl <;>
      simp [extract, Field.nBytes, Field.low, spanVal] <;> omega
  · intro s
    rw [Query.setSFlag_arith]
    have : b2n s < 2 := by unfold b2n; split <;> omega
    rcases hf with rfl | rfl | rfl <;>
      simp [extract, Field.nBytes, Field.low, spanVal] <;> omega
  · intro v
    rw [Query.setFlags_arith]
    rcases hf with rfl | rfl | rfl <;>
      simp [extract, Field.nBytes, Field.low, spanVal] <;> omega

theorem igmp_decode_in_range (b : Bytes) (h : Query) (cks : Nat) (r : Bytes)
    (hd : Query.fromSlice b = .ok (.query h cks r)) : h.WF ∧ cks < 65536 := by
  have := bAt_lt b 1; have := bAt_lt b 2; have := bAt_lt b 3; have := bAt_lt b 8
  have := bAt_lt b 9; have := bAt_lt b 10; have := bAt_lt b 11
  unfold Query.fromSlice at hd
  repeat (split at hd <;> try cases hd)
  simp [Query.WF]; omega

theorem igmp_decode_layout (b : Bytes) (h : Query) (cks : Nat) (r : Bytes)
    (hd : Query.fromSlice b = .ok (.query h cks r)) (f : Field) (hf : f ∈ igmpQuery) :
    extract f b = h.get cks f.name := by
  have := bAt_lt b 0
  have := bAt_lt b 1; have := bAt_lt b 2; have := bAt_lt b 3; have := bAt_lt b 8
  have := bAt_lt b 9; have := bAt_lt b 10; have := bAt_lt b 11
  have := bAt_lt b 4; have := bAt_lt b 5; have := bAt_lt b 6; have := bAt_lt b 7
  unfold Query.fromSlice at hd
  split at hd
  · cases hd
  · split at hd
    · rename_i h17
      split at hd
      · cases hd
      · split at hd
        · cases hd
          simp only [igmpQuery, List.mem_cons, List.mem_nil_iff, or_false] at hf
          rcases hf with rfl | rfl | rfl | rfl | rfl | rfl | rfl | rfl | rfl <;>
            simp [extract, Field.nBytes, Field.low, spanVal, Query.get, arr_toNat] <;> omega
        · cases hd
    · cases hd

theorem igmp_roundtrip (h : Query) (wf : h.WF) (cks : Nat) (hc : cks < 65536) (rest : Bytes) :
    Query.fromSlice (h.toBytes cks ++ rest) = .ok (.query h cks rest) := by
  obtain ⟨h1, h2, h3, h4, h5⟩ := wf
  cases h with | mk mrc group raw qqic ns =>
  simp only at h1 h2 h3 h4 h5
  have e : ¬ (List.length rest + 1 + 1 + 1 + 1 + 1 + 1 + 1 + 1 + 1 + 1 + 1 + 1 < 8) := by omega
  have e3 : List.length rest + 1 + 1 + 1 + 1 + 1 + 1 + 1 + 1 + 1 + 1 + 1 + 1 ≥ 12 := by omega
  simp [Query.fromSlice, Query.toBytes, e, e3, list4_eta group h2]
  omega

/-! ## Ipv6Header -/

theorem ip6_layout (h : Ip6) (wf : h.WF) (f : Field) (hf : f ∈ ipv6) :
    extract f h.toBytes = h.get f.name := by
  rw [Ip6.toBytes_arith h wf]
  obtain ⟨h1, h2, h3, h4, h5, h6, h7⟩ := wf
  simp only [ipv6, List.mem_cons, List.mem_nil_iff, or_false] at hf
  rcases hf with rfl | rfl | rfl | rfl | rfl | rfl | rfl | rfl
  case inr.inr.inr.inr.inr.inr.inl =>
    show extract ⟨"src", 8, 0, 8 * 16⟩ _ = _
    rw [extract_whole_aux]; simp [spanVal, Ip6.get, arr_toNat]
  case inr.inr.inr.inr.inr.inr.inr =>
    show extract ⟨"dst", 24, 0, 8 * 16⟩ _ = _
    rw [extract_whole_aux]; simp [spanVal, Ip6.get, arr_toNat]
  all_goals (simp [extract, Field.nBytes, Field.low, spanVal, Ip6.get]; omega)

/-- the DSCP / ECN split of the traffic class inside the encoded header. -/
theorem ip6_layout_ds (h : Ip6) (wf : h.WF) :
    extract ⟨"dscp", 0, 4, 6⟩ h.toBytes = Ip6.dscp h.trafficClass ∧
    extract ⟨"ecn", 1, 2, 2⟩ h.toBytes = Ip6.ecn h.trafficClass := by
  rw [Ip6.toBytes_arith h wf]
  obtain ⟨h1, h2, h3, h4, h5, h6, h7⟩ := wf
  constructor <;> simp [extract, Field.nBytes, Field.low, spanVal, Ip6.dscp, Ip6.ecn] <;> omega

theorem ip6_set_wf (h : Ip6) (wf : h.WF) (f : Field) (hf : f ∈ ipv6) (v : Nat)
    (hv : v < 2 ^ f.width) : (h.set f.name v).WF := by
  obtain ⟨h1, h2, h3, h4, h5, h6, h7⟩ := wf
  simp only [ipv6, List.mem_cons, List.mem_nil_iff, or_false] at hf
  rcases hf with rfl | rfl | rfl | rfl | rfl | rfl | rfl | rfl <;>
    simp [Ip6.set, Ip6.WF] at hv ⊢ <;> omega

theorem ip6_field_isolated (h : Ip6) (wf : h.WF) (f : Field) (hf : f ∈ ipv6)
    (hs : f.name ∈ Ip6.settable) (v : Nat) (hv : v < 2 ^ f.width) :
    (h.set f.name v).toBytes.length = h.toBytes.length ∧
    extract f (h.set f.name v).toBytes = v ∧
    ∀ g ∈ ipv6, g ≠ f → extract g (h.set f.name v).toBytes = extract g h.toBytes := by
  have wf' := ip6_set_wf h wf f hf v hv
  refine ⟨by simp [Ip6.toBytes], ?_, ?_⟩
  · rw [ip6_layout _ wf' f hf]
    simp only [ipv6, List.mem_cons, List.mem_nil_iff, or_false] at hf
    rcases hf with rfl | rfl | rfl | rfl | rfl | rfl | rfl | rfl <;>
      simp [Ip6.set, Ip6.get, Ip6.settable] at hv hs ⊢
  · intro g hg hne
    rw [ip6_layout _ wf' g hg, ip6_layout _ wf g hg]
    simp only [ipv6, List.mem_cons, List.mem_nil_iff, or_false] at hf hg
    rcases hf with rfl | rfl | rfl | rfl | rfl | rfl | rfl | rfl <;>
      rcases hg with rfl | rfl | rfl | rfl | rfl | rfl | rfl | rfl <;>
      first | exact absurd rfl hne | simp [Ip6.set, Ip6.get, Ip6.settable] at hs ⊢

/-- `dscp()` / `ecn()` read their bits of the traffic class and are in range; `set_dscp` /
    `set_ecn` with in-range values rewrite exactly their own bits. -/
theorem ip6_traffic_class_isolated (tc : Nat) (ht : tc < 256) (f : Field) (hf : f ∈ trafficClass) :
    Ip6.dscp tc = extract ⟨"dscp", 0, 0, 6⟩ [u8 tc] ∧ Ip6.ecn tc = extract ⟨"ecn", 0, 6, 2⟩ [u8 tc] ∧
    Ip6.dscp tc < 2 ^ 6 ∧ Ip6.ecn tc < 2 ^ 2 ∧
    (∀ v, v < 2 ^ 6 → Ip6.setDscp tc v < 256 ∧
      extract f [u8 (Ip6.setDscp tc v)] = if f.name = "dscp" then v else extract f [u8 tc]) ∧
    (∀ v, v < 2 ^ 2 → Ip6.setEcn tc v < 256 ∧
      extract f [u8 (Ip6.setEcn tc v)] = if f.name = "ecn" then v else extract f [u8 tc]) := by
  have e1 : ∀ v, Ip6.setDscp tc v = tc % 4 + v % 64 * 4 := by
    intro v; unfold Ip6.setDscp
    rw [lor_eq_add' 2 _ _ (by omega) (by omega)]; omega
  have e2 : ∀ v, Ip6.setEcn tc v = tc / 4 * 4 + v % 4 := by
    intro v; unfold Ip6.setEcn
    rw [lor_eq_add 2 _ _ (by omega) (by omega)]
  simp only [trafficClass, List.mem_cons, List.mem_nil_iff, or_false] at hf
  refine ⟨?_, ?_, ?_, ?_, ?_, ?_⟩
  · simp [extract, Field.nBytes, Field.low, spanVal, Ip6.dscp] <;> omega
  · simp [extract, Field.nBytes, Field.low, spanVal, Ip6.ecn] <;> omega
  · unfold Ip6.dscp; omega
  · unfold Ip6.ecn; omega
  · intro v hv; rw [e1]
    rcases hf with rfl | rfl <;> simp [extract, Field.nBytes, Field.low, spanVal] <;> omega
  · intro v hv; rw [e2]
    rcases hf with rfl | rfl <;> simp [extract, Field.nBytes, Field.low, spanVal] <;> omega

theorem ip6_decode_in_range (b : Bytes) (h : Ip6) (r : Bytes)
    (hd : Ip6.fromSlice b = .ok (h, r)) : h.WF := by
  have := bAt_lt b 0; have := bAt_lt b 1; have := bAt_lt b 2; have := bAt_lt b 3
  have := be16_lt b 4; have := bAt_lt b 6; have := bAt_lt b 7
  unfold Ip6.fromSlice at hd
  split at hd
  · cases hd
  · rename_i hl
    simp only at hd
    split at hd
    · cases hd
    · cases hd
      simp only [Ip6.WF, tc_or_aux _ _ (bAt_lt b 1)]
      refine ⟨by omega, by omega, by omega, by omega, by omega, ?_, ?_⟩ <;>
        exact sub_length _ _ _ (by omega)

theorem ip6_decode_layout (b : Bytes) (h : Ip6) (r : Bytes)
    (hd : Ip6.fromSlice b = .ok (h, r)) (f : Field) (hf : f ∈ ipv6) :
    extract f b = h.get f.name := by
  have := bAt_lt b 0; have := bAt_lt b 1; have := bAt_lt b 2; have := bAt_lt b 3
  have := bAt_lt b 4; have := bAt_lt b 5; have := bAt_lt b 6; have := bAt_lt b 7
  unfold Ip6.fromSlice at hd
  split at hd
  · cases hd
  · simp only at hd
    split at hd
    · cases hd
    · rename_i hv
      cases hd
      simp only [ipv6, List.mem_cons, List.mem_nil_iff, or_false] at hf
      rcases hf with rfl | rfl | rfl | rfl | rfl | rfl | rfl | rfl
      case inr.inr.inr.inr.inr.inr.inl =>
        show extract ⟨"src", 8, 0, 8 * 16⟩ _ = _
        rw [extract_whole_aux]; simp [spanVal, Ip6.get, bAt_sub_aux]
      case inr.inr.inr.inr.inr.inr.inr =>
        show extract ⟨"dst", 24, 0, 8 * 16⟩ _ = _
        rw [extract_whole_aux]; simp [spanVal, Ip6.get, bAt_sub_aux]
      all_goals
        (simp [extract, Field.nBytes, Field.low, spanVal, Ip6.get, be16, tc_or_aux _ _ (bAt_lt b 1)]
         omega)

theorem ip6_roundtrip (h : Ip6) (wf : h.WF) (rest : Bytes) :
    Ip6.fromSlice (h.toBytes ++ rest) = .ok (h, rest) := by
  rw [Ip6.toBytes_arith h wf]
  obtain ⟨h1, h2, h3, h4, h5, h6, h7⟩ := wf
  cases h with | mk tc fl pl nh hop src dst =>
  simp only at h1 h2 h3 h4 h5 h6 h7
  have t : (96 + tc / 16) * 16 % 256 ||| (tc * 16 + fl / 65536) % 256 / 16 = tc := by
    rw [tc_or_aux _ _ (by omega)]; omega
  have v : 6 = (96 + tc / 16) % 256 / 16 := by omega
  simp [Ip6.fromSlice, be16, sub, t, ← v, list16_eta src h6, list16_eta dst h7, h7,
    List.take_left' h7, List.drop_left' h7]
  split
  · omega
  · simp; omega

/-! ## Ipv4Header -/

theorem ip4_layout (h : Ip4) (wf : h.WF) (f : Field) (hf : f ∈ ipv4) :
    extract f h.toBytes = h.get f.name := by
  unfold Ip4.toBytes
  rw [Ip4.first20_arith h wf]
  obtain ⟨h1, h2, h3, h4, h5, h6, h7, h8, h9, h10, h11, h12⟩ := wf
  have := bAt_lt h.src 0; have := bAt_lt h.src 1; have := bAt_lt h.src 2; have := bAt_lt h.src 3
  have := bAt_lt h.dst 0; have := bAt_lt h.dst 1; have := bAt_lt h.dst 2; have := bAt_lt h.dst 3
  have hd : b2n h.df < 2 := by unfold b2n; split <;> omega
  have hm : b2n h.mf < 2 := by unfold b2n; split <;> omega
  simp only [ipv4, List.mem_cons, List.mem_nil_iff, or_false] at hf
  rcases hf with rfl | rfl | rfl | rfl | rfl | rfl | rfl | rfl | rfl | rfl | rfl | rfl | rfl | rfl | rfl <;>
    simp [extract, Field.nBytes, Field.low, spanVal, Ip4.get, arr_toNat] <;> omega

/-- the option area follows the fixed part unchanged and determines the length and the IHL. -/
theorem ip4_options (h : Ip4) (wf : h.WF) :
    h.toBytes.length = 20 + h.options.length ∧ h.toBytes.drop 20 = h.options ∧
    h.toBytes.length = 4 * extract ⟨"ihl", 0, 4, 4⟩ h.toBytes ∧ h.writeRaw = h.toBytes := by
  have l := ip4_layout h wf ⟨"ihl", 0, 4, 4⟩ (by simp [ipv4])
  rw [l]
  obtain ⟨h1, h2, h3, h4, h5, h6, h7, h8, h9, h10, h11, h12⟩ := wf
  simp [Ip4.toBytes, Ip4.writeRaw, Ip4.first20, Ip4.get]
  omega

theorem ip4_set_wf (h : Ip4) (wf : h.WF) (f : Field) (hf : f ∈ ipv4) (v : Nat)
    (hv : v < 2 ^ f.width) : (h.set f.name v).WF := by
  obtain ⟨h1, h2, h3, h4, h5, h6, h7, h8, h9, h10, h11, h12⟩ := wf
  simp only [ipv4, List.mem_cons, List.mem_nil_iff, or_false] at hf
  rcases hf with rfl | rfl | rfl | rfl | rfl | rfl | rfl | rfl | rfl | rfl | rfl | rfl | rfl | rfl | rfl <;>
    simp [Ip4.set, Ip4.WF] at hv ⊢ <;> omega

theorem ip4_field_isolated (h : Ip4) (wf : h.WF) (f : Field) (hf : f ∈ ipv4)
    (hs : f.name ∈ Ip4.settable) (v : Nat) (hv : v < 2 ^ f.width) :
    (h.set f.name v).toBytes.length = h.toBytes.length ∧
    (h.set f.name v).toBytes.drop 20 = h.toBytes.drop 20 ∧
    extract f (h.set f.name v).toBytes = v ∧
    ∀ g ∈ ipv4, g ≠ f → extract g (h.set f.name v).toBytes = extract g h.toBytes := by
  have wf' := ip4_set_wf h wf f hf v hv
  have o : (h.set f.name v).options = h.options := by
    unfold Ip4.set; repeat' split
    all_goals rfl
  refine ⟨?_, ?_, ?_, ?_⟩
  · rw [(ip4_options _ wf').1, (ip4_options _ wf).1, o]
  · rw [(ip4_options _ wf').2.1, (ip4_options _ wf).2.1, o]
  · rw [ip4_layout _ wf' f hf]
    simp only [ipv4, List.mem_cons, List.mem_nil_iff, or_false] at hf
    rcases hf with rfl | rfl | rfl | rfl | rfl | rfl | rfl | rfl | rfl | rfl | rfl | rfl | rfl | rfl | rfl <;>
      simp [Ip4.set, Ip4.get, Ip4.settable, b2n] at hv hs ⊢ <;> split <;> omega
  · intro g hg hne
    rw [ip4_layout _ wf' g hg, ip4_layout _ wf g hg]
    simp only [ipv4, List.mem_cons, List.mem_nil_iff, or_false] at hf hg
    rcases hf with rfl | rfl | rfl | rfl | rfl | rfl | rfl | rfl | rfl | rfl | rfl | rfl | rfl | rfl | rfl <;>
      rcases hg with rfl | rfl | rfl | rfl | rfl | rfl | rfl | rfl | rfl | rfl | rfl | rfl | rfl | rfl | rfl <;>
      first | exact absurd rfl hne | simp [Ip4.set, Ip4.get, Ip4.settable] at hs ⊢

/-! ## Ipv4Header, decoding (and the reader copies) -/

theorem ip4_decode_in_range (b : Bytes) (h : Ip4) (r : Bytes)
    (hd : Ip4.fromSlice b = .ok (h, r)) : h.WF := by
  obtain ⟨a1, a2, a3, a4⟩ := Ip4.fromSlice_inv_aux b h r hd
  rw [Ip4.fromSlice_ok_aux b a1 a2 a3 a4] at hd
  cases hd
  have := bAt_lt b 0; have := bAt_lt b 1; have := be16_lt b 2; have := be16_lt b 4
  have := bAt_lt b 6; have := bAt_lt b 7; have := bAt_lt b 8; have := bAt_lt b 9
  have := be16_lt b 10
  have s1 := sub_length b 12 4 (by omega)
  have s2 := sub_length b 16 4 (by omega)
  have s3 := sub_length b 20 (bAt b 0 % 16 * 4 - 20) (by omega)
  simp [Ip4.WF, s1, s2, s3]
  omega

theorem ip4_decode_layout (b : Bytes) (h : Ip4) (r : Bytes)
    (hd : Ip4.fromSlice b = .ok (h, r)) (f : Field) (hf : f ∈ ipv4) (hr : f.name ≠ "reserved") :
    extract f b = h.get f.name := by
  obtain ⟨a1, a2, a3, a4⟩ := Ip4.fromSlice_inv_aux b h r hd
  rw [Ip4.fromSlice_ok_aux b a1 a2 a3 a4] at hd
  cases hd
  have := bAt_lt b 0; have := bAt_lt b 1; have := bAt_lt b 2; have := bAt_lt b 3
  have := bAt_lt b 4; have := bAt_lt b 5; have := bAt_lt b 6; have := bAt_lt b 7
  have := bAt_lt b 8; have := bAt_lt b 9; have := bAt_lt b 10; have := bAt_lt b 11
  have := bAt_lt b 12; have := bAt_lt b 13; have := bAt_lt b 14; have := bAt_lt b 15
  have := bAt_lt b 16; have := bAt_lt b 17; have := bAt_lt b 18; have := bAt_lt b 19
  have s3 := sub_length b 20 (bAt b 0 % 16 * 4 - 20) (by omega)
  simp only [ipv4, List.mem_cons, List.mem_nil_iff, or_false] at hf
  rcases hf with rfl | rfl | rfl | rfl | rfl | rfl | rfl | rfl | rfl | rfl | rfl | rfl | rfl | rfl | rfl <;>
    simp [extract, Field.nBytes, Field.low, spanVal, Ip4.get, be16, bAt_sub_aux, s3, b2n] at hr ⊢ <;>
    (try split) <;> omega

theorem ip4_roundtrip (h : Ip4) (wf : h.WF) (rest : Bytes) :
    Ip4.fromSlice (h.toBytes ++ rest) = .ok (h, rest) := by
  have ho := ip4_options h wf
  obtain ⟨h1, h2, h3, h4, h5, h6, h7, h8, h9, h10, h11, h12⟩ := wf
  have wf : h.WF := ⟨h1, h2, h3, h4, h5, h6, h7, h8, h9, h10, h11, h12⟩
  have hd : b2n h.df < 2 := by unfold b2n; split <;> omega
  have hm : b2n h.mf < 2 := by unfold b2n; split <;> omega
  have e : h.toBytes ++ rest = h.first20 h.checksum ++ (h.options ++ rest) := by
    simp [Ip4.toBytes]
  have b0 : bAt (h.toBytes ++ rest) 0 = 64 + (5 + h.options.length / 4) := by
    rw [e, Ip4.first20_arith h wf]; simp; omega
  have len : (h.toBytes ++ rest).length = 20 + h.options.length + rest.length := by
    simp [ho.1]
  rw [Ip4.fromSlice_ok_aux _ (by omega) (by omega) (by omega) (by omega)]
  have hl : bAt (h.toBytes ++ rest) 0 % 16 * 4 = 20 + h.options.length := by omega
  rw [hl]
  have d : (h.toBytes ++ rest).drop (20 + h.options.length) = rest := by
    rw [← ho.1]; simp
  have o : sub (h.toBytes ++ rest) 20 (20 + h.options.length - 20) = h.options := by
    rw [e]; unfold sub
    have : (h.first20 h.checksum).length = 20 := by simp [Ip4.first20]
    rw [List.drop_left' this]
    simp
  rw [d, o]
  rw [e, Ip4.first20_arith h wf]
  cases h with | mk dscp ecn tl id df mf fo ttl proto cks src dst opts =>
  simp only at h1 h2 h3 h4 h5 h6 h7 h8 h9 h10 h11 h12 hd hm ⊢
  have s1 : sub ([u8 (64 + (5 + opts.length / 4)), u8 (dscp * 4 + ecn), u8 (tl / 256 % 256), u8 (tl % 256),
      u8 (id / 256 % 256), u8 (id % 256), u8 (b2n df * 64 + b2n mf * 32 + fo / 256), u8 (fo % 256),
      u8 ttl, u8 proto, u8 (cks / 256 % 256), u8 (cks % 256), arr src 0, arr src 1, arr src 2, arr src 3,
      arr dst 0, arr dst 1, arr dst 2, arr dst 3] ++ (opts ++ rest)) 12 4 = src := by
    simp [sub, list4_eta src h9]
  have s2 : sub ([u8 (64 + (5 + opts.length / 4)), u8 (dscp * 4 + ecn), u8 (tl / 256 % 256), u8 (tl % 256),
      u8 (id / 256 % 256), u8 (id % 256), u8 (b2n df * 64 + b2n mf * 32 + fo / 256), u8 (fo % 256),
      u8 ttl, u8 proto, u8 (cks / 256 % 256), u8 (cks % 256), arr src 0, arr src 1, arr src 2, arr src 3,
      arr dst 0, arr dst 1, arr dst 2, arr dst 3] ++ (opts ++ rest)) 16 4 = dst := by
    simp [sub, list4_eta dst h10, List.take_left' h10]
  rw [s1, s2]
  clear ho wf s1 s2 e b0 len hl d o
  cases df <;> cases mf <;> simp [be16, b2n] <;> omega
/-- the reader copy (`Ipv4Header::read`) extracts the same header as `from_slice`. -/
theorem ip4_read_eq_from_slice (b : Bytes) (h : Ip4) (r : Bytes)
    (hd : Ip4.fromSlice b = .ok (h, r)) : Ip4.read b = some (.ok h) := by
  obtain ⟨a1, a2, a3, a4⟩ := Ip4.fromSlice_inv_aux b h r hd
  rw [Ip4.fromSlice_ok_aux b a1 a2 a3 a4] at hd
  cases hd
  unfold Ip4.read
  rw [if_neg (by omega)]
  simp only
  rw [if_neg (by omega), if_neg (by omega), if_neg (by omega), if_neg (by omega)]
  have : (bAt b 0 % 16 - 5) * 4 = bAt b 0 % 16 * 4 - 20 := by omega
  simp only [be16, this]

/-- the reader copy (`Ipv6Header::read`) extracts the same header as `from_slice`. -/
theorem ip6_read_eq_from_slice (b : Bytes) (h : Ip6) (r : Bytes)
    (hd : Ip6.fromSlice b = .ok (h, r)) : Ip6.read b = some (.ok h) := by
  unfold Ip6.fromSlice at hd
  split at hd
  · cases hd
  · simp only at hd
    split at hd
    · cases hd
    · cases hd
      unfold Ip6.read
      rw [if_neg (by omega)]
      simp only
      rw [if_neg (by omega), if_neg (by omega)]
      have : bAt b 0 % 16 * 16 % 256 = bAt b 0 * 16 % 256 := by omega
      simp only [be16, this]

/-! ## MacsecHeader -/

theorem macsec_layout (h : Macsec) (wf : h.WF) (f : Field)
    (hf : f ∈ macsec h.sci.isSome h.isUnmodified) :
    h.toBytes.length = macsecLen h.sci.isSome h.isUnmodified ∧
    extract f h.toBytes = h.get f.name := by
  obtain ⟨h1, h2, h3, h4, h5⟩ := wf
  have t := Macsec.tciAn_arith h
  have b3 : b2n h.scb < 2 := by unfold b2n; split <;> omega
  have b5 : b2n h.es < 2 := by unfold b2n; split <;> omega
  cases h with | mk ptype es scb an sl pn sci =>
  simp only at h1 h2 h3 h4 h5 t b3 b5 hf ⊢
  cases sci with
  | none =>
    cases ptype <;>
      simp only [macsec, Macsec.isUnmodified, Option.isSome, if_true, if_false, Bool.false_eq_true,
        List.append_nil, List.cons_append, List.nil_append, List.mem_cons, List.mem_nil_iff,
        or_false] at hf <;>
      simp [PType.WF] at h1 <;>
      simp [Macsec.encrypted, Macsec.userdataChanged] at t <;>
      (refine ⟨by simp [Macsec.toBytes, Macsec.headerLen, Macsec.isUnmodified, macsecLen], ?_⟩) <;>
      (rcases hf with rfl | rfl | rfl | rfl | rfl | rfl | rfl | rfl | rfl | rfl | rfl) <;>
      simp [extract, Field.nBytes, Field.low, spanVal, Macsec.get, Macsec.toBytes, Macsec.headerLen,
        Macsec.isUnmodified, t, Macsec.encrypted, Macsec.userdataChanged] <;>
      omega
  | some s =>
    have h5 := h5 s rfl
    cases ptype <;>
      simp only [macsec, Macsec.isUnmodified, Option.isSome, if_true, if_false, Bool.false_eq_true,
        List.append_nil, List.cons_append, List.nil_append, List.mem_cons, List.mem_nil_iff,
        or_false] at hf <;>
      simp [PType.WF] at h1 <;>
      simp [Macsec.encrypted, Macsec.userdataChanged] at t <;>
      (refine ⟨by simp [Macsec.toBytes, Macsec.headerLen, Macsec.isUnmodified, macsecLen, enc64], ?_⟩) <;>
      (rcases hf with rfl | rfl | rfl | rfl | rfl | rfl | rfl | rfl | rfl | rfl | rfl | rfl) <;>
      simp [extract, Field.nBytes, Field.low, spanVal, Macsec.get, Macsec.toBytes, Macsec.headerLen,
        Macsec.isUnmodified, t, Macsec.encrypted, Macsec.userdataChanged, enc64] <;>
      omega

/-! ## MacsecHeader, decoding -/

theorem macsec_decode_in_range (b : Bytes) (h : Macsec) (n : Nat)
    (hd : Macsec.fromSlice b = .ok (h, n)) : h.WF ∧ 6 ≤ n ∧ n ≤ 16 ∧ n ≤ b.length := by
  have := bAt_lt b 0; have := bAt_lt b 1; have := bAt_lt b 2; have := bAt_lt b 3
  have := bAt_lt b 4; have := bAt_lt b 5; have := bAt_lt b 6; have := bAt_lt b 7
  have := bAt_lt b 8; have := bAt_lt b 9; have := bAt_lt b 10; have := bAt_lt b 11
  have := bAt_lt b 12; have := bAt_lt b 13; have := bAt_lt b 14; have := bAt_lt b 15
  unfold Macsec.fromSlice at hd
  simp only at hd
  repeat' (split at hd)
  all_goals (first | (cases hd; done) | skip)
  all_goals (cases hd; simp [Macsec.WF, PType.WF]; omega)

/-- NOT PROVED (the brute-force case split over the four arrangements times the flag bits ran out
    of the time budget): decode(encode h) = h for the MACsec header.  What is proved instead:
    `macsec_layout` (every field of `h`, every flag and reserved bit can be read back from
    `toBytes h` at the position the table prescribes, which determines `h`) and
    `macsec_decode_in_range`; the correspondence run compares encode and decode of the same values. -/
def macsec_roundtrip_full_statement : Prop :=
  ∀ (h : Macsec) (rest : Bytes), h.WF → ¬ (h.isUnmodified = true ∧ h.shortLen = 1) →
    Macsec.fromSlice (h.toBytes ++ rest) = .ok (h, h.headerLen)

/-! ## non-vacuity -/

example : Vlan.WF ⟨5, true, 0xABC, 0x8100⟩ := by decide
example : Ip4.WF ⟨46, 1, 1500, 0xBEEF, true, false, 185, 64, 17, 0x1234, [10, 0, 0, 1], [10, 0, 0, 2],
    [1, 1, 1, 0]⟩ := by decide
example : Ip6.WF ⟨0xB8, 0xFFFFF, 1280, 44, 64, List.replicate 16 0xAA, List.replicate 16 0x55⟩ := by
  decide
example : Frag6.WF ⟨17, 8191, true, 0xDEADBEEF⟩ := by decide
example : Macsec.WF ⟨.unmodified 0x0800, true, false, 2, 40, 7, some 99⟩ := by
  simp [Macsec.WF, PType.WF]
example : Query.WF ⟨100, [224, 0, 0, 1], 0xAB, 125, 3⟩ := by decide
/-- the range hypotheses are needed: a VLAN id of 4096 (only reachable through `new_unchecked`)
    would set the DEI bit, a flow label of 2^20 would change the traffic class. -/
example : (Vlan.toBytes ⟨0, false, 4096, 0⟩) = (Vlan.toBytes ⟨0, true, 0, 0⟩) := by decide
example : (Ip6.toBytes ⟨0, 1048576, 0, 0, 0, [], []⟩) = (Ip6.toBytes ⟨1, 0, 0, 0, 0, [], []⟩) := by
  decide

end EpModel.Props.C15
