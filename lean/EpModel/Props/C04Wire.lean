import EpModel.Props.C04
import EpModel.Props.C03
import EpModel.Props.C05
import EpModel.Props.C06Headers
/-
  C04, composed with the refinements of C03 / C05: decoding into header structs against the WIRE FORMATS
  themselves (`Spec.decode` / `Spec.decodeLax`), not only against slicing.  (A separate file because
  Props/C03.lean and Props/C05.lean must not be imported by Props/C04.lean's own dependencies; the check
  builds and audits every `C04*.lean`.)
-/
namespace EpModel.Props.C04
open EpModel EpModel.Dec EpModel.Lemmas.StructSlice EpModel.Lemmas.Refine

/-- **`PacketHeaders::from_ethernet_slice` against the wire formats** (composition of the agreement with slicing
    and of C03's refinement): for every byte string, with `Spec.decode` started at the Ethernet II header,
    * the walk returns a packet and struct decoding returns the same layers as header structs (`NetAgree`,
      `PayAgree`: same network layer, same payload range), or struct decoding stopped in front of an IPv6
      extension header it cannot hold (`Early`);
    * the walk reports a fault and struct decoding reports an error that describes this fault (`ErrMatch`:
      layer, absolute offset, available / required bytes, limiting field; or the offending value), or it
      stopped `Early` in front of it;
    * struct decoding never rejects what the wire formats accept. -/
theorem headers_from_ethernet_vs_wire_formats (b : Bytes) :
    match Spec.decode .eth (memOf b) b.length, phFromEthernet (memOf b) b.length with
    | .ok p, .ok x =>
      (x.p.link = some (.eth2 ⟨0, 14⟩) ∧ p.link = some (.eth2 ⟨0, b.length⟩) ∧ x.p.exts = p.exts.map hdrExt ∧
        NetAgree x.p.net p.net ∧ x.p.tp = p.tp ∧ PayAgree (memOf b) x.pay p) ∨ Early x
    | .error f, .error e => ErrMatch e f
    | .error _, .ok x => Early x
    | .ok _, .error _ => False := by
  have h3 := EpModel.Props.C03.strict_from_ethernet_matches_wire_formats b
  have h4 := headers_from_ethernet_agree_with_slicing b
  unfold EpModel.Props.C03.Refines at h3
  cases hs : slicedFromEthernet (memOf b) b.length with
  | ok p =>
    rw [hs] at h3 h4
    cases hd : Spec.decode .eth (memOf b) b.length with
    | error f => rw [hd] at h3; exact h3.elim
    | ok p' =>
      rw [hd] at h3
      simp only at h3
      subst h3
      cases hp : phFromEthernet (memOf b) b.length with
      | ok x => rw [hp] at h4; exact h4
      | error e => rw [hp] at h4; exact h4
  | error e =>
    rw [hs] at h3 h4
    cases hd : Spec.decode .eth (memOf b) b.length with
    | ok p' => rw [hd] at h3; exact h3.elim
    | error f =>
      rw [hd] at h3
      simp only at h3
      cases hp : phFromEthernet (memOf b) b.length with
      | ok x => rw [hp] at h4; exact h4
      | error e' => rw [hp] at h4; simp only at h4; rw [← h4]; exact h3


/-- **`PacketHeaders::from_ether_type` against the wire formats**, for every ether type and byte string -/
theorem headers_from_ether_type_vs_wire_formats (et : Nat) (b : Bytes) :
    match Spec.decode (.etherType et) (memOf b) b.length, phFromEtherType (memOf b) et 0 b.length with
    | .ok p, .ok x =>
      Agree (memOf b) x p Packet.empty (Packet.empty.setLink (.etherPayload et ⟨0, b.length⟩)) ∨ Early x
    | .error f, .error e => ErrMatch e f
    | .error _, .ok x => Early x
    | .ok _, .error _ => False := by
  have h3 := EpModel.Props.C03.strict_from_ether_type_matches_wire_formats et b
  have h4 := headers_from_ether_type_agree_with_slicing et b
  unfold EpModel.Props.C03.Refines at h3
  unfold Verdict at h4
  cases hs : slicedFromEtherType (memOf b) et b.length with
  | ok p =>
    rw [hs] at h3 h4
    cases hd : Spec.decode (.etherType et) (memOf b) b.length with
    | error f => rw [hd] at h3; exact h3.elim
    | ok p' =>
      rw [hd] at h3
      simp only at h3
      subst h3
      cases hp : phFromEtherType (memOf b) et 0 b.length with
      | ok x => rw [hp] at h4; exact h4
      | error e => rw [hp] at h4; exact h4
  | error e =>
    rw [hs] at h3 h4
    cases hd : Spec.decode (.etherType et) (memOf b) b.length with
    | ok p' => rw [hd] at h3; exact h3.elim
    | error f =>
      rw [hd] at h3
      simp only at h3
      cases hp : phFromEtherType (memOf b) et 0 b.length with
      | ok x => rw [hp] at h4; exact h4
      | error e' =>
        rw [hp] at h4
        simp only at h4
        rw [lenAddOff_zero] at h4
        rw [← h4]; exact h3

/-- **`LaxPacketHeaders::from_ethernet` against the wire formats** (composition of the lax agreement with lax
    slicing and of C05's lax refinement): whenever it returns a value, lax slicing returns a packet `m` for the
    same bytes that is the lax wire-format walk in front of its first fault (`RelLaxW`: same layers, a stop error
    exactly when the walk faults, describing the fault), and the header structs are those layers - same
    extensions, network layer, transport layer, stop error up to its wording, payload range and incomplete
    mark - or struct decoding stopped in front of an IPv6 extension header it cannot hold (`EarlyLax`). -/
theorem lax_headers_from_ethernet_vs_wire_formats (b : Bytes) (x : Headers)
    (hx : lphFromEthernet (memOf b) b.length = .ok x) :
    ∃ m, laxSlicedFromEthernet (memOf b) b.length = .ok m ∧
      EpModel.Lemmas.RefineLax.RelLaxW (memOf b) m (Spec.decodeLax .eth (memOf b) b.length) ∧
      ((x.p.link = some (.eth2 ⟨0, 14⟩) ∧ m.link = some (.eth2 ⟨0, b.length⟩) ∧ x.p.exts = m.exts.map hdrExt ∧
          NetAgree x.p.net m.net ∧ x.p.tp = m.tp ∧
          (StopAgree 0 x.p.stop m.stop ∨ ShortV4Stops (memOf b) x.p.stop m.stop) ∧
          PayAgreeLax (memOf b) x.pay m) ∨ EarlyLax x) := by
  have h4 := lax_headers_from_ethernet_agree_with_slicing b
  have h5 := EpModel.Props.C05.lax_from_ethernet_matches_wire_formats b
  rw [hx] at h4
  cases hs : laxSlicedFromEthernet (memOf b) b.length with
  | error e => rw [hs] at h4; exact h4.elim
  | ok m =>
    rw [hs] at h4 h5
    exact ⟨m, rfl, h5.1, h4⟩

/-- **`LaxPacketHeaders::from_ether_type` against the wire formats**: its result agrees (`LaxAgree`) with a packet that
    is the lax wire-format walk in front of its first fault, or it stopped `EarlyLax` -/
theorem lax_headers_from_ether_type_vs_wire_formats (et : Nat) (b : Bytes) :
    EpModel.Lemmas.RefineLax.RelLaxW (memOf b) (laxSlicedFromEtherType (memOf b) et b.length)
        (Spec.decodeLax (.etherType et) (memOf b) b.length) ∧
      (LaxAgree (memOf b) 0 (lphFromEtherType (memOf b) et 0 b.length) (laxSlicedFromEtherType (memOf b) et b.length)
          Packet.empty (Packet.empty.setLink (.etherPayload et ⟨0, b.length⟩)) ∨
        EarlyLax (lphFromEtherType (memOf b) et 0 b.length)) :=
  ⟨EpModel.Props.C05.lax_from_ether_type_matches_wire_formats et b, lax_headers_from_ether_type_agree_with_slicing et b⟩

set_option maxRecDepth 8000 in
/-- the theorems speak about real results: the Ethernet / VLAN / IPv4 / UDP frame of Props/C06Headers.lean is
    accepted by struct decoding, and cut after 40 bytes it is rejected (so both the `ok, ok` and the
    `error, error` rows are inhabited) -/
example : (phFromEthernet (memOf EpModel.Props.C06.vlanUdpFrame) EpModel.Props.C06.vlanUdpFrame.length).isOk = true ∧
    (phFromEthernet (memOf (EpModel.Props.C06.vlanUdpFrame.take 40)) (EpModel.Props.C06.vlanUdpFrame.take 40).length).isOk = false := by
  constructor <;> rfl

end EpModel.Props.C04
