import EpModel.Lemmas.DecTotal
import EpModel.Props.C08Net
import EpModel.Props.C13
import EpModel.Props.C17
/-
  C02 — decoders are total: Ok or Err for every input, never a panic or a hang.

  * Termination: every function of the decode model (cursors, the 13 IP boundary implementations,
    the extension walkers `extsLoop`, the re-walk iterator `extIterAll`, the Spec walk) is a total
    Lean definition accepted by the kernel with structural recursion or an explicit strictly
    decreasing measure (`termination_by l` — the remaining length) and no fuel argument, so "no
    unbounded loop" is checked, not tested; `walker_progress` states the measure.
  * Bounds on what iterators yield: `ext_iter_bound` (here), TCP options (`C13.iter_bound`), NDP options
    (`C17.ndp_step_consumes`), re-stated below so that the audit of this property covers them.
  * The conversions that `unwrap`/`expect`: `to_header_exts_total` (the struct re-decode of a
    validated IPv6 extension slice in `IpSlice::to_header`), `auth_to_header_total`,
    `raw_ext_to_header_total` (from C08) cannot fail.
  * No arithmetic underflow: every subtraction of the model sits behind the check the Rust code
    makes (`*_within` of C01 give `hl ≤ l` etc. at each site).
  The model has no panic value for the decode paths: what is proved is that the modelled checks
  imply the preconditions of every `[a..b]`, `unwrap`, `expect` and subtraction on those paths; the
  harness (catch_unwind, overflow checks, step-bounded iteration) looks for the same on the code.
-/
namespace EpModel.Props.C02
open EpModel EpModel.Dec EpModel.Lemmas.Dec

/-- every successful step of the extension re-walk consumes at least 8 bytes and hands out exactly
    the bytes it consumed: progress, no gap, no overlap -/
theorem walker_progress (g : Mem) (nh o l : Nat) (k : ExtKind) (w : Win) (nh' o' l' : Nat)
    (h : extIterNext g nh o l = some (.ok (k, w, nh', o', l'))) :
    l' + 8 ≤ l ∧ o' + l' = o + l ∧ w.o = o ∧ w.o + w.l = o' :=
  extIterNext_progress g nh o l k w nh' o' l' h

/-- the iterator yields at most `len / 8` items -/
theorem ext_iter_bound (g : Mem) (nh o l : Nat) (xs : List (ExtKind × Win))
    (h : extIterAll g nh o l = .ok xs) : xs.length * 8 ≤ l :=
  extIterAll_bound g nh o l xs h

/-- the rest of every extension walk (strict, lax, slice mode, struct mode) is a suffix of the
    slice walked: the walk only moves forward -/
theorem walk_moves_forward (g : Mem) (sm : Bool) (nh o l : Nat) :
    (extsWalk g sm nh o l).rest.o + (extsWalk g sm nh o l).rest.l = o + l ∧
      (extsWalk g sm nh o l).rest.l ≤ l :=
  extsWalk_suffix g sm nh o l

/-- `IpSlice::to_header` re-decodes the validated extension slice with `Ipv6Extensions::from_slice`
    and calls `expect`: for every input the strict slice-mode walk accepts, that re-decode succeeds
    (it may stop early at a header that does not fit the struct, it never errs). -/
theorem to_header_exts_total (g : Mem) (nh o l : Nat) (r : ExtsOut)
    (h : extsWalkStrict g false nh o l = .ok r) : (extsWalk g true nh o (l - r.rest.l)).stop = none :=
  structWalk_total_on_validated g nh o l r h

/-- `IpAuthHeaderSlice::to_header` (`IpAuthHeader::new(..).unwrap()`) cannot panic on any input of
    `from_slice` (theorem of the codec model, C08) -/
theorem auth_to_header_total (b : Bytes) :
    CodecNet.IpAuthHeader.fromSlice b ≠ .error .panicUnwrap := C08Net.Auth.no_unwrap_panic b

/-- `Ipv6RawExtHeaderSlice::to_header` (`new_raw(..).unwrap()`) cannot panic -/
theorem raw_ext_to_header_total (b : Bytes) :
    CodecNet.Ipv6RawExtHeader.fromSlice b ≠ .error .panicUnwrap := C08Net.RawExt.no_unwrap_panic b

/-- TCP options iterator: at most `len` items, every step shrinks the rest (C13) -/
theorem tcp_options_iter_bound (b : Bytes) :
    (TcpOptions.iterate b).length ≤ b.length ∧
      (∀ r s, TcpOptions.next b = (some r, s) → s.length < b.length) := C13.iter_bound b

/-- the subtractions of the strict IPv4 path cannot underflow: header ≤ slice, header ≤ total length
    ≤ slice, authentication header ≤ payload -/
theorem ipv4_no_underflow (g : Mem) (o l : Nat) (r : IpR) (h : ipv4SliceFromSlice g o l = .ok r) :
    20 ≤ r.hdr.l ∧ r.hdr.l ≤ l ∧ r.hdr.o = o ∧ r.hdr.o + r.hdr.l ≤ r.pl.w.o ∧ r.pl.w.o + r.pl.w.l ≤ o + l := by
  unfold ipv4SliceFromSlice at h
  split at h
  · contradiction
  · rename_i hl hh
    have hb := ipv4Header_ok g o l hl hh
    have h2 := ipv4AfterHeaderStrict_in g o l hl r hb.1 hb.2.1 h
    have hpl := h2.1.2.2.2.2
    unfold WIn at hpl
    rw [h2.2]
    simp only
    refine ⟨hb.1, hb.2.1, trivial, ?_, hpl.2⟩
    unfold ipv4AfterHeaderStrict at h
    simp only at h
    split at h
    · contradiction
    · rename_i hp hbd
      have : hp.o = o + hl := by
        unfold ipv4BoundStrict at hbd
        split at hbd
        · contradiction
        · split at hbd
          · contradiction
          · cases hbd; rfl
      split at h
      · split at h
        · contradiction
        · contradiction
        · cases h; simp [mkV4]; omega
      · cases h; simp [mkV4]; omega

/-- the NDP options iterator (model of C17, structurally the caller's `for` loop, accepted by Lean with a
    decreasing measure): it yields at most `len / 8` options, and after an error it is exhausted -/
theorem ndp_options_iter_bound (area : Bytes) :
    (EpModel.View.ndpRun ⟨0, area⟩).1.length ≤ area.length / 8 ∧
      (∀ it it' e, EpModel.View.ndpNext it = some (.error e, it') → EpModel.View.ndpNext it' = none) :=
  ⟨(C17.ndp_tiles area).2.2.2, fun it it' e h => C17.ndp_exhausted_after_error it it' e h⟩

end EpModel.Props.C02
