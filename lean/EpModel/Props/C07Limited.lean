import EpModel.Model.Io
/-
  C07 for the length-limited readers (`io::LimitedReader`, the `read_limited` functions and
  `IpHeaders::read`): a length error produced by ANY program of `read_exact` / `start_layer` calls on a
  `LimitedReader` describes the real fault.

  Model: EpModel.Io.Limited / LProg (Model/Io.lean; tied to io/limited_reader.rs and the `read_limited`
  functions by the `io.limited`, `io.read.*` operations of C16 and the `impl.dec.readlim_*` operations of
  C06/C07).  The statements are about every program `p : LProg α` (not only the five of the crate), every
  inner reader, every limit.

  `LInv base total p0 l`: the state of a reader that was created as
  `LimitedReader::new(inner, total, src, base, _)` when `inner` had handed out `p0` bytes.
-/
namespace EpModel.Props.C07
open EpModel EpModel.Io

/-- invariant of a `LimitedReader` between calls -/
structure LInv (base total p0 : Nat) (src : String) (l : Limited) : Prop where
  notPanicked : l.panicked = false
  within : l.readLen ≤ l.maxLen
  /-- the bytes still allowed to the current layer end where the limit ends -/
  limitEnd : l.layerOffset + l.maxLen = base + total
  /-- the start offset of the current layer plus what was read of it = everything the reader delivered -/
  truePos : l.layerOffset + l.readLen = base + (l.inner.pos - p0)
  posMono : p0 ≤ l.inner.pos
  offMono : base ≤ l.layerOffset
  src : l.lenSource = src

theorem linv_new (inner : Reader) (maxLen : Nat) (src : String) (off : Nat) (layer : String) :
    LInv off maxLen inner.pos src (Limited.new inner maxLen src off layer) := by
  constructor <;> simp [Limited.new]

theorem linv_startLayer {base total p0 : Nat} {src : String} {l : Limited} (layer : String)
    (h : LInv base total p0 src l) : LInv base total p0 src (l.startLayer layer) ∧ (l.startLayer layer).layer = layer := by
  have hw := h.within
  unfold Limited.startLayer
  rw [if_pos hw]
  refine ⟨⟨h.notPanicked, by simp, ?_, ?_, h.posMono, ?_, h.src⟩, rfl⟩
  · have := h.limitEnd; simp only; omega
  · have := h.truePos; simp only; omega
  · have := h.offMono; simp only; omega

theorem reader_readExact_ok {r r' : Reader} {n : Nat} {b : Bytes} (h : r.readExact n = (r', .ok b)) :
    r'.pos = r.pos + n := by
  unfold Reader.readExact at h
  split at h
  · next hn => cases h; omega
  · split at h
    · cases h; rfl
    · cases h

/-- one `read_exact` on a reader in a good state: either it succeeds and the state stays good, or it is an
    I/O error of the inner reader, or it is a length error that says exactly what the state says -/
theorem linv_readExact {base total p0 : Nat} {src : String} {l : Limited} (n : Nat)
    (h : LInv base total p0 src l) :
    match l.readExact n with
    | (l', .ok _) => LInv base total p0 src l' ∧ l'.layer = l.layer
    | (_, .error (.io _)) => True
    | (l', .error (.len e)) =>
        l' = l ∧ e.src = src ∧ e.layer = l.layer ∧ e.off = l.layerOffset ∧ e.len = l.maxLen ∧
          e.required = l.readLen + n ∧ e.len < e.required
    | (_, .error (.other _)) => False
    | (_, .error .panic) => False := by
  have hw := h.within
  unfold Limited.readExact
  rw [if_neg (by omega)]
  by_cases hlim : l.maxLen - l.readLen < n
  · rw [if_pos hlim]
    exact ⟨rfl, h.src, rfl, rfl, rfl, rfl, by simp only; omega⟩
  · rw [if_neg hlim]
    cases hr : l.inner.readExact n with
    | mk r' res =>
      cases res with
      | error e => simp
      | ok b =>
        have hp := reader_readExact_ok hr
        refine ⟨⟨h.notPanicked, by simp only; omega, h.limitEnd, ?_, ?_, h.offMono, h.src⟩, rfl⟩
        · have := h.truePos; have := h.posMono; simp only; omega
        · have := h.posMono; simp only; omega

/-- what is true of the length error of a run, in terms of the state `l'` the reader is left in:
    `lastLayer` is the layer named by the last `start_layer` executed (the reader's own layer if none was) -/
structure LimitedDescribes (base total p0 : Nat) (src : String) (l' : Limited) (e : LenErr) : Prop where
  /-- the length source is the one the reader was created with -/
  src : e.src = src
  /-- the layer is the one most recently started -/
  layer : e.layer = l'.layer
  /-- its offset is `base` + the bytes the inner reader delivered before the layer was started … -/
  off : e.off + l'.readLen = base + (l'.inner.pos - p0)
  /-- … and `len` is what the limit leaves to the layer from there: the layer ends where the limit ends -/
  len : e.off + e.len = base + total
  /-- missing data: more bytes are required than available; the layer had already got `readLen` of them -/
  missing : e.len < e.required ∧ l'.readLen < e.required
  /-- the layer does not start in front of the reader's base offset -/
  offMono : base ≤ e.off

/-- **every** program on a limited reader: a length error describes the fault; a run never panics and never
    leaves a good state otherwise.  Induction over the program. -/
theorem run_describes {α : Type} (p : LProg α) {base total p0 : Nat} {src : String} (l : Limited)
    (h : LInv base total p0 src l) :
    match p.run l with
    | (l', .ok _) => LInv base total p0 src l'
    | (l', .error (.len e)) => LimitedDescribes base total p0 src l' e
    | (_, .error .panic) => False
    | _ => True := by
  induction p generalizing l with
  | done r =>
    cases r with
    | ok a => simpa [LProg.run] using h
    | error s => simp [LProg.run]
  | read n k ih =>
    have hr := linv_readExact n h
    unfold LProg.run
    cases hx : l.readExact n with
    | mk l' res =>
      rw [hx] at hr
      cases res with
      | ok b => exact ih b l' hr.1
      | error e =>
        cases e with
        | io e => simp
        | other s => exact hr.elim
        | panic => exact hr.elim
        | len e =>
          obtain ⟨hl, h1, h2, h3, h4, h5, h6⟩ := hr
          subst hl
          simp only
          refine ⟨h1, h2, ?_, ?_, ⟨h6, ?_⟩, ?_⟩
          · rw [h3]; exact h.truePos
          · rw [h3, h4]; exact h.limitEnd
          · rw [h5]; have := h.within; omega
          · rw [h3]; exact h.offMono
  | start layer k ih =>
    have hs := (linv_startLayer layer h).1
    unfold LProg.run
    simp only [hs.notPanicked]
    exact ih (l.startLayer layer) hs

/-- the statement for a reader fresh from `LimitedReader::new(inner, max_len, src, offset, layer)` -/
theorem limited_len_error_describes_fault {α : Type} (p : LProg α) (inner : Reader) (maxLen : Nat) (src : String)
    (off : Nat) (layer : String) (l' : Limited) (e : LenErr)
    (h : p.run (Limited.new inner maxLen src off layer) = (l', .error (.len e))) :
    e.src = src ∧ e.layer = l'.layer ∧
      e.off + l'.readLen = off + (l'.inner.pos - inner.pos) ∧
      e.off + e.len = off + maxLen ∧ e.len < e.required ∧ off ≤ e.off := by
  have hd := run_describes p (Limited.new inner maxLen src off layer) (linv_new inner maxLen src off layer)
  rw [h] at hd
  exact ⟨hd.src, hd.layer, hd.off, hd.len, hd.missing.1, hd.offMono⟩

/-- the premise is met by real runs: a fragment header read under a limit of 7 bytes, and a hop-by-hop header
    of 16 bytes behind 8 bytes already read of which the limit leaves 12 -/
example : LReads.ipv6frag.run (Limited.new ⟨[44, 0, 0, 0, 0, 0, 0, 1, 9, 9], 0, none⟩ 7 "Ipv6HeaderPayloadLen" 40 "Ipv6Header")
    = ({ inner := ⟨[44, 0, 0, 0, 0, 0, 0, 1, 9, 9], 0, none⟩, maxLen := 7, lenSource := "Ipv6HeaderPayloadLen",
         layer := "Ipv6FragHeader", layerOffset := 40, readLen := 0, panicked := false },
       .error (.len { required := 8, len := 7, src := "Ipv6HeaderPayloadLen", layer := "Ipv6FragHeader", off := 40 })) := by
  rfl

example :
    ((LReads.ipv6frag.bind fun _ => LReads.rawext).run
      (Limited.new ⟨[0, 0, 0, 0, 0, 0, 0, 1, 59, 1, 0, 0, 0, 0, 0, 0, 0, 0, 0, 0, 0, 0, 0, 0], 0, none⟩ 20
        "Ipv6HeaderPayloadLen" 40 "Ipv6Header")).2
      = .error (.len { required := 16, len := 12, src := "Ipv6HeaderPayloadLen", layer := "Ipv6ExtHeader", off := 48 }) := by
  rfl

/-- a run through `liftErr` (the reader handed back by `take_reader`) -/
theorem lift_describes {α : Type} (p : LProg α) (inner : Reader) (maxLen : Nat) (src : String) (off : Nat)
    (layer : String) (r3 : Reader) (e : LenErr)
    (h : liftErr (p.run (Limited.new inner maxLen src off layer)) = (r3, .error (.len e))) :
    e.src = src ∧ e.off + e.len = off + maxLen ∧ e.len < e.required ∧ off ≤ e.off := by
  have hd := run_describes p (Limited.new inner maxLen src off layer) (linv_new inner maxLen src off layer)
  generalize p.run (Limited.new inner maxLen src off layer) = res at h hd
  obtain ⟨l'', rr⟩ := res
  simp only [liftErr] at h
  by_cases hp : l''.panicked = true
  · rw [if_pos hp] at h; cases h
  · rw [if_neg hp] at h
    cases h
    simp only at hd
    exact ⟨hd.src, hd.len, hd.missing.1, hd.offMono⟩

/-- `IpHeaders::read` (model `ipHeadersRead`): a length error either is the rule "IPv4 total length smaller
    than the header" (layer `Ipv4Packet` at offset 0, `len` = the total length, `required_len` = the header
    length), or comes from the extension headers behind the header: then it names the IP length field as
    the source, the layer starts behind the header and ends exactly where that field says the packet ends
    (`off + len` = total length, or 40 + payload length), and more is required than is there. -/
theorem ip_headers_read_len_error (r r' : Reader) (e : LenErr)
    (h : ipHeadersRead r = (r', .error (.len e))) :
    (e.layer = "Ipv4Packet" ∧ e.src = "Ipv4HeaderTotalLen" ∧ e.off = 0 ∧ e.len < e.required ∧ 20 ≤ e.required) ∨
    (∃ hdr : Bytes, e.src = "Ipv4HeaderTotalLen" ∧ 20 ≤ e.off ∧ e.off + e.len = be16 hdr 2 ∧ e.len < e.required) ∨
    (∃ hdr : Bytes, e.src = "Ipv6HeaderPayloadLen" ∧ 40 ≤ e.off ∧ e.off + e.len = 40 + be16 hdr 4 ∧
      e.len < e.required) := by
  unfold ipHeadersRead at h
  split at h
  · cases h
  · next r1 first _ =>
    cases hplan : ipHeadersPlan first with
    | fail s => rw [hplan] at h; cases h
    | v4 rest =>
      rw [hplan] at h
      simp only at h
      have hrest : 19 ≤ rest := by
        unfold ipHeadersPlan at hplan
        simp only at hplan
        split at hplan
        · split at hplan
          · cases hplan
          · cases hplan; omega
        · split at hplan <;> cases hplan
      split at h
      · cases h
      · next r2 more _ =>
        split at h
        · next hlt =>
          cases h
          exact Or.inl ⟨rfl, rfl, rfl, hlt, by simp only; omega⟩
        · next hge =>
          split at h
          · next r3 e' hrun =>
            cases h
            have hd := lift_describes _ _ _ _ _ _ _ _ hrun
            refine Or.inr (Or.inl ⟨first ++ more, hd.1, by have := hd.2.2.2; omega, ?_, hd.2.2.1⟩)
            have := hd.2.1; omega
          · cases h
    | v6 =>
      rw [hplan] at h
      simp only at h
      split at h
      · cases h
      · next r2 more _ =>
        split at h
        · next r3 e' hrun =>
          cases h
          have hd := lift_describes _ _ _ _ _ _ _ _ hrun
          exact Or.inr (Or.inr ⟨first ++ more, hd.1, hd.2.2.2, hd.2.1, hd.2.2.1⟩)
        · cases h

end EpModel.Props.C07
