import EpModel.Driver.EncLink
import EpModel.Driver.EncNet
/- `enc.*` / `spec.enc.*` operations: header codecs (C08). Split over two modules. -/
namespace EpModel.Driver.Enc

def run (op : String) (args : List String) : Option String :=
  match EncLink.run op args with
  | some r => some r
  | none => EncNet.run op args

end EpModel.Driver.Enc
