import EpModel.Driver.Util
/- `enc.*` and `spec.enc.*` operations (stub; filled in by the owner of this family). -/
namespace EpModel.Driver.Enc
open EpModel EpModel.Driver

def run (op : String) (args : List String) : Option String :=
  match op, args with
  | _, _ => none

end EpModel.Driver.Enc
