import EpModel.Driver.Util
import EpModel.Model.Ipv6Exts
import EpModel.Model.Ipv4Exts
import EpModel.Spec.Rfc8200Order
/- `ext.*` and `spec.ext.*` operations: the extension header chain walkers (property C12).

   Textual value `<exts>`: six comma separated slots in the order
     hop-by-hop , destination options , routing , final destination options , fragment , auth
   each `-` (absent) or
     raw slots   `<next_header>:<payload hex>`
     fragment    `<next_header>:<fragment offset>:<more 0|1>:<identification>`
     auth        `<next_header>:<spi>:<sequence number>:<raw icv hex>`
   A final destination options slot without a routing slot is not representable in the Rust
   type (`Ipv6RoutingExtensions`) and is `bad-op` on both sides.  `<auth>` of the `ext.v4.*`
   operations is a single auth slot. -/
namespace EpModel.Driver.Ext
open EpModel EpModel.Driver EpModel.Ext

def argU8 (s : String) : Option Nat := do
  let n ← s.toNat?
  if n < 256 then some n else none

def argU32 (s : String) : Option Nat := do
  let n ← s.toNat?
  if n < 4294967296 then some n else none

def parseRaw (s : String) : Option (Option Raw) :=
  if s == "-" then some none else
  match s.splitOn ":" with
  | [nh, pl] => do
    let nh ← argU8 nh
    let pl ← argHex pl
    match Raw.newRaw nh pl with
    | .ok r => some (some r)
    | .error _ => none
  | _ => none

def parseFrag (s : String) : Option (Option Frag) :=
  if s == "-" then some none else
  match s.splitOn ":" with
  | [nh, off, more, ident] => do
    let nh ← argU8 nh
    let off ← off.toNat?
    if off > 8191 then none
    let more ← (if more == "1" then some true else if more == "0" then some false else none)
    let ident ← argU32 ident
    some (some { nextHeader := nh, fragmentOffset := off, moreFragments := more, identification := ident })
  | _ => none

def parseAuth (s : String) : Option (Option Auth) :=
  if s == "-" then some none else
  match s.splitOn ":" with
  | [nh, spi, seq, icv] => do
    let nh ← argU8 nh
    let spi ← argU32 spi
    let seq ← argU32 seq
    let icv ← argHex icv
    match Auth.new nh spi seq icv with
    | .ok a => some (some a)
    | .error _ => none
  | _ => none

def parseExts (s : String) : Option Exts :=
  match s.splitOn "," with
  | [hop, dest, route, final, frag, auth] => do
    let hop ← parseRaw hop
    let dest ← parseRaw dest
    let route ← parseRaw route
    let final ← parseRaw final
    let frag ← parseFrag frag
    let auth ← parseAuth auth
    let routing : Option Routing ← (match route, final with
      | some r, f => some (some { routing := r, finalDestinationOptions := f })
      | none, none => some none
      | none, some _ => none)
    some { hopByHopOptions := hop, destinationOptions := dest, routing := routing, fragment := frag, auth := auth }
  | _ => none

def showRaw : Option Raw → String
  | none => "-"
  | some r => s!"{r.nextHeader}:{hexOfBytes r.payload}"

def showFrag : Option Frag → String
  | none => "-"
  | some f => s!"{f.nextHeader}:{f.fragmentOffset}:{if f.moreFragments then 1 else 0}:{f.identification}"

def showAuth : Option Auth → String
  | none => "-"
  | some a => s!"{a.nextHeader}:{a.spi}:{a.sequenceNumber}:{hexOfBytes a.rawIcv}"

def showExts (e : Exts) : String :=
  joinWith "," [showRaw e.hopByHopOptions, showRaw e.destinationOptions,
    showRaw (e.routing.map (·.routing)), showRaw e.finalDest, showFrag e.fragment, showAuth e.auth]

def showWalkErr : WalkErr → String
  | .hopByHopNotAtStart => "HopByHopNotAtStart"
  | .extNotReferenced n => s!"ExtNotReferenced({n})"

def showLayer : Layer → String
  | .ipv6ExtHeader => "Ipv6ExtHeader"
  | .ipv6FragHeader => "Ipv6FragHeader"
  | .ipAuthHeader => "IpAuthHeader"
  | .ipv6HopByHopHeader => "Ipv6HopByHopHeader"
  | .ipv6DestOptionsHeader => "Ipv6DestOptionsHeader"
  | .ipv6RouteHeader => "Ipv6RouteHeader"

def showLenErr (e : LenError) : String :=
  s!"len(req={e.requiredLen},len={e.len},src=Slice,layer={showLayer e.layer},off={e.layerStartOffset})"

def showSliceErr : SliceErr → String
  | .len e => showLenErr e
  | .content .hopByHopNotAtStart => "content(HopByHopNotAtStart)"
  | .content (.ipAuth .zeroPayloadLen) => "content(IpAuth(ZeroPayloadLen))"

def showAuthSliceErr : AuthSliceErr → String
  | .len e => showLenErr e
  | .content .zeroPayloadLen => "content(ZeroPayloadLen)"

def showWalk : Except (Fault WalkErr) Nat → String
  | .ok n => s!"ok({n})"
  | .error .panic => "panic"
  | .error (.err e) => s!"err({showWalkErr e})"

def showWrite : Bytes × Except (Fault WalkErr) Unit → String
  | (out, .ok ()) => s!"ok({hexOfBytes out})"
  | (_, .error .panic) => "panic"
  | (out, .error (.err e)) => s!"err({showWalkErr e},written={hexOfBytes out})"

def showFromSlice (b : Bytes) : Except (Fault SliceErr) (Exts × Nat × Bytes) → String
  | .ok (e, next, rest) =>
    s!"ok({showExts e},next={next},rest={showWin (b.length - rest.length) rest.length},header_len={e.headerLen})"
  | .error .panic => "panic"
  | .error (.err e) => s!"err({showSliceErr e})"

def showFromSlice4 (b : Bytes) : Except (Fault AuthSliceErr) (Exts4 × Nat × Bytes) → String
  | .ok (e, next, rest) =>
    s!"ok({showAuth e.auth},next={next},rest={showWin (b.length - rest.length) rest.length},header_len={e.headerLen})"
  | .error .panic => "panic"
  | .error (.err e) => s!"err({showAuthSliceErr e})"

def showKind : Spec.Ext.Kind → String
  | .hopByHop => "hop" | .destOpts => "dest" | .routing => "route" | .fragment => "frag"
  | .auth => "auth" | .esp => "esp" | .finalDestOpts => "final"

def run (op : String) (args : List String) : Option String :=
  match op, args with
  | "ext.set_next", [e, n] => do
      let e ← parseExts e; let n ← argU8 n
      let (e', first) := e.setNextHeaders n
      pure s!"first={first} {showExts e'}"
  | "ext.next_header", [e, first] => do
      let e ← parseExts e; let first ← argU8 first
      pure (showWalk (e.nextHeader first))
  | "ext.write", [e, first] => do
      let e ← parseExts e; let first ← argU8 first
      pure (showWrite (e.write first))
  | "ext.header_len", [e] => do
      let e ← parseExts e
      pure (toString e.headerLen)
  | "ext.is_frag", [e] => do
      let e ← parseExts e
      pure (toString e.isFragmentingPayload)
  | "ext.from_slice", [first, h] => do
      let first ← argU8 first; let b ← argHex h
      pure (showFromSlice b (Exts.fromSlice first b))
  | "ext.from_slice_lax", [first, h] => do
      let first ← argU8 first; let b ← argHex h
      match Exts.fromSliceLax first b with
      | .ok (e, next, rest, err) =>
        let es := match err with
          | none => "none"
          | some (er, layer) => s!"some({showSliceErr er},{showLayer layer})"
        pure s!"({showExts e},next={next},rest={showWin (b.length - rest.length) rest.length},header_len={e.headerLen},err={es})"
      | .error _ => pure "panic"
  -- write, then from_slice of (written ++ tail); `none` when write fails
  | "ext.roundtrip", [e, first, tail] => do
      let e ← parseExts e; let first ← argU8 first; let tail ← argHex tail
      match e.write first with
      | (out, .ok ()) => pure (showFromSlice (out ++ tail) (Exts.fromSlice first (out ++ tail)))
      | (_, .error .panic) => pure "panic"
      | (_, .error (.err _)) => pure "none"
  -- set_next_headers, then next_header and write from the returned first number
  | "ext.link_walk", [e, n] => do
      let e ← parseExts e; let n ← argU8 n
      let (e', first) := e.setNextHeaders n
      pure s!"first={first} {showExts e'} walk={showWalk (e'.nextHeader first)} write={showWrite (e'.write first)}"
  | "ext.v4.roundtrip", [a, first, tail] => do
      let a ← parseAuth a; let first ← argU8 first; let tail ← argHex tail
      match (Exts4.mk a).write first with
      | (out, .ok ()) => pure (showFromSlice4 (out ++ tail) (Exts4.fromSlice first (out ++ tail)))
      | (_, .error .panic) => pure "panic"
      | (_, .error (.err _)) => pure "none"
  | "ext.v4.link_walk", [a, n] => do
      let a ← parseAuth a; let n ← argU8 n
      let (e', first) := (Exts4.mk a).setNextHeaders n
      pure s!"first={first} {showAuth e'.auth} walk={showWalk (e'.nextHeader first)} write={showWrite (e'.write first)}"
  | "ext.v4.set_next", [a, n] => do
      let a ← parseAuth a; let n ← argU8 n
      let (e', first) := (Exts4.mk a).setNextHeaders n
      pure s!"first={first} {showAuth e'.auth}"
  | "ext.v4.next_header", [a, first] => do
      let a ← parseAuth a; let first ← argU8 first
      pure (showWalk ((Exts4.mk a).nextHeader first))
  | "ext.v4.write", [a, first] => do
      let a ← parseAuth a; let first ← argU8 first
      pure (showWrite ((Exts4.mk a).write first))
  | "ext.v4.header_len", [a] => do
      let a ← parseAuth a
      pure (toString (Exts4.mk a).headerLen)
  | "ext.v4.from_slice", [first, h] => do
      let first ← argU8 first; let b ← argHex h
      pure (showFromSlice4 b (Exts4.fromSlice first b))
  -- IpHeaders::set_next_headers: ether type, the protocol / next_header field of the IP header, the extensions
  | "ext.ip_set_next", [v, e, n] => do
      let n ← argU8 n
      let h : IpHdrs ← (if v == "v4" then do let a ← parseAuth e; pure (IpHdrs.ipv4 255 ⟨a⟩)
                         else if v == "v6" then do let e ← parseExts e; pure (IpHdrs.ipv6 255 e)
                         else none)
      match h.setNextHeaders n with
      | (.ipv4 p x, et) => pure s!"ether={et} first={p} {showAuth x.auth}"
      | (.ipv6 p x, et) => pure s!"ether={et} first={p} {showExts x}"
  -- NetHeaders::try_set_next_headers
  | "ext.net_set_next", [v, e, n] => do
      let n ← argU8 n
      let h : NetHdrs ← (if v == "v4" then do let a ← parseAuth e; pure (NetHdrs.ip (IpHdrs.ipv4 255 ⟨a⟩))
                          else if v == "v6" then do let e ← parseExts e; pure (NetHdrs.ip (IpHdrs.ipv6 255 e))
                          else if v == "arp" && e == "-" then pure NetHdrs.arp
                          else none)
      match h.trySetNextHeaders n with
      | .ok (.ip (.ipv4 p x), et) => pure s!"ok(ether={et}) first={p} {showAuth x.auth}"
      | .ok (.ip (.ipv6 p x), et) => pure s!"ok(ether={et}) first={p} {showExts x}"
      | .ok (.arp, _) => none
      | .error .arpHeader => pure "err(ArpHeader)"
  -- IpHeaders::next_header
  | "ext.ip_next_header", [v, e, first] => do
      let first ← argU8 first
      let h : IpHdrs ← (if v == "v4" then do let a ← parseAuth e; pure (IpHdrs.ipv4 first ⟨a⟩)
                         else if v == "v6" then do let e ← parseExts e; pure (IpHdrs.ipv6 first e)
                         else none)
      match h.nextHeader with
      | .ok n => pure s!"ok({n})"
      | .error .panic => pure "panic"
      | .error (.err (.ipv4Exts e)) => pure s!"err(Ipv4Exts({showWalkErr e}))"
      | .error (.err (.ipv6Exts e)) => pure s!"err(Ipv6Exts({showWalkErr e}))"
  -- reference semantics: the RFC 8200 recommended order (kinds of the present slots, in order)
  | "spec.ext.order", [p] => do
      -- p: six characters 0/1, presence of hop,dest,route,final,frag,auth
      let cs := p.toList
      if cs.length ≠ 6 ∨ cs.any (fun c => c ≠ '0' ∧ c ≠ '1') then none
      let pres : Spec.Ext.Kind → Bool := fun k => match k with
        | .hopByHop => cs.getD 0 '0' == '1' | .destOpts => cs.getD 1 '0' == '1'
        | .routing => cs.getD 2 '0' == '1' | .finalDestOpts => cs.getD 3 '0' == '1'
        | .fragment => cs.getD 4 '0' == '1' | .auth => cs.getD 5 '0' == '1' | .esp => false
      let ks := Spec.Ext.rfc8200Order.filter pres
      pure ("[" ++ joinWith "," (ks.map (fun k => s!"{showKind k}:{k.ipNumber}")) ++ "]")
  | _, _ => none

end EpModel.Driver.Ext
