import EpModel.Driver.Util
/- `ext.*` and `spec.ext.*` operations (stub; filled in by the owner of this family). -/
namespace EpModel.Driver.Ext
open EpModel EpModel.Driver

def run (op : String) (args : List String) : Option String :=
  match op, args with
  | _, _ => none

end EpModel.Driver.Ext
