import EpModel.Driver.Util
import EpModel.Model.ViewAbs
import EpModel.Spec.IcmpTables
import EpModel.Spec.NdpFormat
import EpModel.Spec.IgmpArpFormat
/- `view.*` and `spec.view.*` operations: typed views of ICMPv4 / ICMPv6 / NDP / IGMP / ARP (C17). -/
namespace EpModel.Driver.View
open EpModel EpModel.Driver EpModel.View EpModel.Spec

def showSrc : LenSource → String
  | .slice => "Slice" | .arpAddrLengths => "ArpAddrLengths"

def showLayer : Layer → String
  | .icmpv4 => "Icmpv4" | .icmpv4Timestamp => "Icmpv4Timestamp"
  | .icmpv4TimestampReply => "Icmpv4TimestampReply" | .icmpv6 => "Icmpv6" | .igmp => "Igmp"
  | .arp => "Arp"

def showLenErr (e : LenError) : String :=
  s!"err(len(req={e.req},len={e.len},src={showSrc e.src},layer={showLayer e.layer},off={e.off}))"

def showW (w : Win) : String := showWin w.off w.len

def showOptNat : Option Nat → String
  | none => "none" | some n => s!"some({n})"

/-! ### ICMPv4 / ICMPv6 -/

def icmp4 (b : Bytes) : String :=
  let sl := match icmp4FromSlice b with
    | .error e => showLenErr e
    | .ok s =>
      let ty := icmp4Type s
      s!"ok(type={ty.view.render},hl={icmp4SliceHeaderLen s},pl={showW (icmp4Payload s)},t={bAt s 0},c={bAt s 1},ck={be16 s 2},b58={hexOfBytes (bytes5to8 s)},sl={showWin 0 s.length},thl={ty.headerLen},fps={showOptNat ty.fixedPayloadSize})"
  let hd := match icmp4HeaderFromSlice b with
    | .err e => showLenErr e
    | .panic => "panic"
    | .ok h => s!"ok(type={h.icmpType.view.render},ck={h.checksum},rest={showW h.rest})"
  s!"sl={sl};hd={hd}"

def icmp6 (b : Bytes) : String :=
  let sl := match icmp6FromSlice b with
    | .error e => showLenErr e
    | .ok s =>
      let ty := icmp6Type s
      s!"ok(type={ty.view.render},hl=8,pl={showW (icmp6Payload s)},t={bAt s 0},c={bAt s 1},ck={be16 s 2},b58={hexOfBytes (bytes5to8 s)},sl={showWin 0 s.length},tt={ty.typeU8},tc={ty.codeU8},thl={ty.headerLen},fps={showOptNat ty.fixedPayloadSize})"
  let hd := match icmp6HeaderFromSlice b with
    | .err e => showLenErr e
    | .panic => "panic"
    | .ok h => s!"ok(type={h.icmpType.view.render},ck={h.checksum},rest={showW h.rest})"
  s!"sl={sl};hd={hd}"

/-! ### NDP option iteration -/

def showFields (fs : List (String × Val)) : String :=
  ",".intercalate (fs.map fun p => p.1 ++ "=" ++ p.2.render)

/-- drive the iterator like the harness: at most `fuel` steps, then two more `next()` calls. -/
def ndpDrive : Nat → NdpIter → List String → (List String × Option NdpIter)
  | 0, _, acc => (acc.reverse, none)          -- runaway
  | fuel + 1, it, acc =>
    match ndpNext it with
    | none => (acc.reverse, some it)
    | some (.ok o, it') =>
      ndpDrive fuel it' (s!"{o.view.render}@{showWin it'.off it'.options.length}" :: acc)
    | some (.error e, it') =>
      ndpDrive fuel it' (s!"err({e.view.render})@{it'.options.length}" :: acc)

def showStep (it : NdpIter) : String × NdpIter :=
  match ndpNext it with
  | none => ("none", it)
  | some (.ok o, it') => (s!"some({o.view.render})", it')
  | some (.error e, it') => (s!"some(err({e.view.render}))", it')

/-- iterate the option area `area` that starts at absolute offset `base`. -/
def ndpIterate (base : Nat) (area : Bytes) : String :=
  let (items, fin) := ndpDrive (area.length / 8 + 3) { off := base, options := area } []
  let body := "[" ++ ",".intercalate items ++ "]"
  match fin with
  | none => body ++ ";runaway"
  | some it =>
    let (a, it1) := showStep it
    let (b, _) := showStep it1
    s!"{body};tail={a},{b}"

def ndpOptKind : String → Option NdpKind
  | "sll" => some .sourceLinkLayerAddress | "tll" => some .targetLinkLayerAddress
  | "prefix" => some .prefixInformation | "redirected" => some .redirectedHeader
  | "mtu" => some .mtu | "unknown" => some .unknown | _ => none

def ndpOpt (k : NdpKind) (s : Bytes) : String :=
  match ndpOptFromSlice k s with
  | .error e => s!"err({e.view.render})"
  | .ok () => s!"ok({({ kind := k, off := 0, bytes := s } : NdpOpt).view.render})"

def ndpHeader (s : Bytes) : String :=
  match ndpHeaderFromSlice s with
  | .error e => s!"err({e.view.render})"
  | .ok (t, u) => s!"ok(type={t},units={u},blen={u * 8},rest={showWin 2 (s.length - 2)})"

/-! ### ICMPv6 payload slices -/

def showPayload (b : Bytes) (r : Except LenError Payload6Kind) : String :=
  match r with
  | .error e => showLenErr e
  | .ok k =>
    let p := b.drop 8
    let sl := showWin 8 p.length
    match k.options p.length with
    | some w =>
      let fx := showFields (k.fixedFields p)
      let fx := if fx = "" then "" else fx ++ ","
      let ow := showWin (8 + w.off) w.len
      s!"{k.name}(sl={sl},{fx}opts={ow},tp=some({fx}opts={ow}),it={ndpIterate (8 + w.off) (p.drop w.off)})"
    | none =>
      match k with
      | .raw => s!"Raw(sl={sl},tp=none)"
      | _ => s!"{k.name}(sl={sl},data={sl},tp=none)"

def icmp6Payload (b : Bytes) : String :=
  match icmp6FromSlice b with
  | .error e => showLenErr e
  | .ok s =>
    s!"ok(ps={showPayload s (icmp6PayloadSlice s)};tps={showPayload s (payload6FromType (icmp6Type s) (s.drop 8))})"

/-! ### IGMP -/

def igmp (b : Bytes) : String :=
  match igmpFromSlice b with
  | .error e => showLenErr e
  | .ok h =>
    let tenths := match h.igmpType with
      | .membershipQueryWithSources r _ _ _ _ => toString (maxRespAs10thSecs r)
      | _ => "-"
    s!"ok(type={h.igmpType.view.render},hl={h.igmpType.headerLen},rest={showW h.rest},ck={h.checksum},tenths={tenths})"

def igmpRecord (b : Bytes) : String :=
  match groupRecordFromSlice b with
  | .error e => showLenErr e
  | .ok h => s!"ok(type={h.view.render},hl=8,rest={showW h.rest})"

/-! ### ARP -/

def arpEthIpv4 (b : Bytes) : String :=
  match arpSliceFromSlice b with
  | .error e => s!"sl={showLenErr e};pk={match arpPacketFromSlice b with | .error e => showLenErr e | .ok _ => "ok"}"
  | .ok s =>
    let h := bAt s 4
    let p := bAt s 5
    let sl := s!"ok(w={showWin 0 s.length},hrd={be16 s 0},pro={be16 s 2},hln={h},pln={p},op={be16 s 6},sha={showWin 8 h},spa={showWin (8 + h) p},tha={showWin (8 + h + p) h},tpa={showWin (8 + h * 2 + p) p})"
    match arpPacketFromSlice b with
    | .error e => s!"sl={sl};pk={showLenErr e}"
    | .ok pk =>
      let pks := s!"ok(hrd={pk.hwAddrType},pro={pk.protoAddrType},hln={pk.hwAddrSize},pln={pk.protoAddrSize},op={pk.operation},sha={hexOfBytes pk.senderHwAddr},spa={hexOfBytes pk.senderProtocolAddr},tha={hexOfBytes pk.targetHwAddr},tpa={hexOfBytes pk.targetProtocolAddr})"
      let v := match tryEthIpv4 pk with
        | .error e => s!"err({e.view.1}({e.view.2}))"
        | .ok x => s!"ok({x.view.render})"
      s!"sl={sl};pk={pks};v={v};tf={v}"

/-! ### Spec twins (reference semantics for the oracle) -/

def specIcmp (tbl : List Icmp.Entry) (maxLen : Option Nat) (b : Bytes) : String :=
  match Icmp.check tbl maxLen b with
  | some (.tooShort n l) => s!"err(req={n},len={l})"
  | some (.notExact n l) => s!"err(req={n},len={l})"
  | some (.tooLong n l) => s!"err(req={n},len={l})"
  | none =>
    let hl := Icmp.headerLen tbl b
    s!"ok(type={(Icmp.view tbl b).render},hl={hl},pl={showWin hl (b.length - hl)}"

def specRejectView : Ndp.Reject → String
  | .truncatedHeader t h => s!"TruncatedHeader(type={t},have={h})"
  | .zeroLength t => s!"ZeroLength(type={t})"
  | .truncated t n h => s!"Truncated(type={t},need={n},have={h})"
  | .wrongSize t n h => s!"WrongSize(type={t},need={n},have={h})"

def specNdpOpts (base : Nat) (area : Bytes) : String :=
  let r := Ndp.parse base area
  let items := r.1.map fun o => o.view.render
  let rej := match r.2 with
    | none => "none"
    | some x => specRejectView x
  "[" ++ ",".intercalate items ++ "];" ++ rej

def specIcmp6Payload (b : Bytes) : String :=
  if b.length < 8 then "short"
  else
    match Ndp.lookupMsg (bAt b 0) (bAt b 1) with
    | none => "other"
    | some e =>
      match Ndp.split e b with
      | .tooShort n l => s!"err(req={n - 8},len={l - 8})"
      | .ok v o l =>
        let fx := showFields v.fields
        let fx := if fx = "" then "" else fx ++ ","
        s!"{v.kind}(sl={showWin 8 (b.length - 8)},{fx}opts={showWin o l};{specNdpOpts o (b.drop o)}"

def specIgmpOutcome : Igmp.Outcome → Nat → String
  | .tooShort n l, _ => s!"err(req={n},len={l})"
  | .ok v hl, len => s!"ok(type={v.render},hl={hl},rest={showWin hl (len - hl)}"

def specArp (b : Bytes) : String :=
  match Arp.decodeEthIpv4 b with
  | .tooShort n l a => s!"short(req={n},len={l},addr={if a then 1 else 0})"
  | .mismatch name v => s!"mismatch({name}({v}))"
  | .ok v n => s!"ok({v.render});len={n}"

def run (op : String) (args : List String) : Option String :=
  match op, args with
  | "view.icmp4", [h] => do let b ← argHex h; pure (icmp4 b)
  | "view.icmp6", [h] => do let b ← argHex h; pure (icmp6 b)
  | "view.icmp6_payload", [h] => do let b ← argHex h; pure (icmp6Payload b)
  | "view.ndp_opts", [h] => do let b ← argHex h; pure (ndpIterate 0 b)
  | "view.ndp_opt", [k, h] => do
      let b ← argHex h
      if k = "header" then pure (ndpHeader b)
      else do let k ← ndpOptKind k; pure (ndpOpt k b)
  | "view.igmp", [h] => do let b ← argHex h; pure (igmp b)
  | "view.igmp_record", [h] => do let b ← argHex h; pure (igmpRecord b)
  | "view.arp_eth_ipv4", [h] => do let b ← argHex h; pure (arpEthIpv4 b)
  | "spec.view.icmp4", [h] => do let b ← argHex h; pure (specIcmp Icmp.icmp4Table none b)
  | "spec.view.icmp6", [h] => do
      let b ← argHex h; pure (specIcmp Icmp.icmp6Table (some Icmp.icmp6MaxLen) b)
  | "spec.view.icmp6_payload", [h] => do let b ← argHex h; pure (specIcmp6Payload b)
  | "spec.view.ndp_opts", [h] => do let b ← argHex h; pure (specNdpOpts 0 b)
  | "spec.view.igmp", [h] => do let b ← argHex h; pure (specIgmpOutcome (Igmp.decode b) b.length)
  | "spec.view.igmp_record", [h] => do
      let b ← argHex h; pure (specIgmpOutcome (Igmp.decodeRecord b) b.length)
  | "spec.view.arp_eth_ipv4", [h] => do let b ← argHex h; pure (specArp b)
  | _, _ => none

end EpModel.Driver.View
