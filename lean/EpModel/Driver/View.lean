import EpModel.Driver.Util
/- `view.*` and `spec.view.*` operations (stub; filled in by the owner of this family). -/
namespace EpModel.Driver.View
open EpModel EpModel.Driver

def run (op : String) (args : List String) : Option String :=
  match op, args with
  | _, _ => none

end EpModel.Driver.View
