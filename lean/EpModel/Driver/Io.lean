import EpModel.Driver.Util
/- `io.*` and `spec.io.*` operations (stub; filled in by the owner of this family). -/
namespace EpModel.Driver.Io
open EpModel EpModel.Driver

def run (op : String) (args : List String) : Option String :=
  match op, args with
  | _, _ => none

end EpModel.Driver.Io
