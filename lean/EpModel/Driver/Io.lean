import EpModel.Driver.Util
import EpModel.Driver.EncLink
import EpModel.Driver.EncNet
import EpModel.Model.Io
import EpModel.Model.IoBuild
import EpModel.Model.IoSkip
/- `io.*` operations (C16): fault injection on writers, readers, output slices and the
   LimitedReader (same line formats as harness/src/io.rs).

   io.write.<t> <fields…> <k>      → <result>;w=<hex accepted by the writer>;post=0
   io.wslice.<t> <fields…> <cap>   → <result>;buf=<hex of the cap bytes>;canary=intact
   io.read.<t> [start] <hex> <k>   → <result>;used=<bytes handed out>;post=0
   io.limited <hex> <k> <max> <src> <off> <layer> <op>…
                                   → [<op>=<result>@(max_len,read_len,layer_offset,layer,src),…];pulled=<n>
   io.build.write / io.build.wslice <path> <args…> <payload> <k|cap>
   io.skip.ext / io.skip.all <next_header> <hex> <k>
                                   → ok(<next header>)|err(io)|err(eof);pos=<final position>;post=0
   io.skip.ext.sf / io.skip.all.sf <next_header> <hex> <k> <j>      (the j-th call of `seek` fails)
                                   → ok(<next header>)|err(io)|err(eof)|err(seek);pos=<final position>;seeks=<seek calls made>;post=0
   (`post`: calls made after the first failure — the model makes none by construction;
    `canary`: bytes behind the slice — the model has no way to touch them) -/
namespace EpModel.Driver.Io
open EpModel EpModel.Driver EpModel.Io

def hx (b : Bytes) : String := hexOfBytes b

/-! ### values (the `enc.*` field lists; a value a checked constructor rejects is `bad-value`) -/

def ofExcept {ε α : Type} : Option (Except ε α) → Option (Option α)
  | none => none
  | some (.ok a) => some (some a)
  | some (.error _) => some none

def commaList (s : String) : List String := s.splitOn ","

/-- `none` or a comma separated field list -/
def mkOpt {α : Type} (mk : List String → Option (Option α)) (s : String) : Option (Option (Option α)) :=
  if s = "none" then some (some none)
  else (mk (commaList s)).map fun v => v.map some

def mkEth2 (a : List String) : Option (Option Codec.Eth2) := (EncLink.mkEth2 a).map some
def mkVlan (a : List String) := ofExcept (EncLink.mkVlan a)
def mkSll (a : List String) := ofExcept (EncLink.mkSll a)
def mkMacsec (a : List String) := ofExcept (EncLink.mkMacsec a)
def mkArp (a : List String) := ofExcept (EncLink.mkArp a)
def mkUdp (a : List String) : Option (Option Codec.Udp) := (EncLink.mkUdp a).map some
def mkTcp (a : List String) := ofExcept (EncLink.mkTcp a)
def mkIcmp4 (a : List String) := ofExcept (EncLink.mkIcmp4 a)
def mkIcmp6 (a : List String) := ofExcept (EncLink.mkIcmp6 a)
def mkIpv6 (a : List String) := ofExcept (EncNet.ipv6Value a)
def mkFrag (a : List String) := ofExcept (EncNet.fragValue a)
def mkIpv4 (a : List String) := ofExcept (EncNet.ipv4Value a)
def mkAuth (a : List String) := ofExcept (EncNet.authValue a)
def mkRawExt (a : List String) := ofExcept (EncNet.rawExtValue a)

def mkIpv4Exts : List String → Option (Option CodecNet.Ipv4Extensions)
  | [auth] => (mkOpt mkAuth auth).map fun v => v.map fun a => { auth := a }
  | _ => none

def mkIpv6Exts : List String → Option (Option Ipv6Exts)
  | [hbh, dst, rt, frag, auth, fdst] => do
    let hbh ← mkOpt mkRawExt hbh
    let dst ← mkOpt mkRawExt dst
    let rt ← mkOpt mkRawExt rt
    let frag ← mkOpt mkFrag frag
    let auth ← mkOpt mkAuth auth
    let fdst ← mkOpt mkRawExt fdst
    pure (do
      let hbh ← hbh; let dst ← dst; let rt ← rt; let frag ← frag; let auth ← auth; let fdst ← fdst
      if rt.isNone ∧ fdst.isSome then none
      else some { hbh := hbh, dst := dst, rt := rt.map fun r => (r, fdst), frag := frag, auth := auth })
  | _ => none

def mkIpHdrs : List String → Option (Option IpHdrs)
  | ["v4", h, auth] => do
    let h ← mkIpv4 (commaList h)
    let e ← mkIpv4Exts [auth]
    pure (do pure (.v4 (← h) (← e)))
  | "v6" :: h :: rest => do
    let h ← mkIpv6 (commaList h)
    let e ← mkIpv6Exts rest
    pure (do pure (.v6 (← h) (← e)))
  | _ => none

/-! ### result lines -/

def showIpv4Walk : CodecNet.Ipv4ExtsWalkError → String
  | .extNotReferenced m => s!"err(notreferenced({m}))"

def showIpv6Walk : Ipv6WalkErr → String
  | .hopByHopNotAtStart => "err(hbhnotatstart)"
  | .extNotReferenced m => s!"err(notreferenced({m}))"
  | .panicUnwrap => "panic"

def showIpHdrsW : IpHdrsWErr → String
  | .ipv4Exts e => showIpv4Walk e
  | .ipv6Exts e => showIpv6Walk e

def writeLine {ε : Type} (s : Ser ε) (shw : ε → String) (k : Nat) : String :=
  let (w, r) := s.run (Writer.failingAt k)
  let rs := match r with
    | .ok () => "ok"
    | .error (.io e) => e.render
    | .error (.content c) => shw c
  if rs = "panic" then "panic" else s!"{rs};w={hx w.out};post=0"

def plainWrite (parts : List Bytes) (k : Nat) : String :=
  writeLine (Ser.plain parts) (fun e => nomatch e) k

/-- split the last argument off. -/
def splitLast (args : List String) : Option (List String × String) :=
  match args.reverse with
  | [] => none
  | l :: r => some (r.reverse, l)

def simpleWrite {α : Type} (mk : List String → Option (Option α)) (parts : α → List Bytes)
    (args : List String) : Option String := do
  let (f, k) ← splitLast args
  let k ← argNat k
  match ← mk f with
  | none => pure "bad-value"
  | some h => pure (plainWrite (parts h) k)

def fill : UInt8 := 0x5a

def sliceLine (r : Bytes × Except SpaceErr Nat) : String :=
  let rs := match r.2 with
    | .ok rest => s!"ok(rest={rest})"
    | .error e => e.render
  s!"{rs};buf={hx r.1};canary=intact"

/-! ### re-encoding of what a `read` gathered (`to_bytes()` of the returned header) -/

def reLink {α : Type} (fromSlice : Bytes → Except Codec.Err (α × Bytes)) (toBytes : α → Bytes)
    (b : Bytes) : String :=
  match fromSlice b with
  | .ok (h, _) => hx (toBytes h)
  | .error _ => "model-gap"

def reNet {ε α : Type} (fromSlice : Bytes → Except ε (α × Bytes)) (toBytes : α → Bytes)
    (b : Bytes) : String :=
  match fromSlice b with
  | .ok (h, _) => hx (toBytes h)
  | .error _ => "model-gap"

open Codec CodecNet in
def reKind : ExtKind → Bytes → String
  | .frag, b => reNet Ipv6FragmentHeader.fromSlice Ipv6FragmentHeader.toBytes b
  | .auth, b => reNet IpAuthHeader.fromSlice IpAuthHeader.toBytes b
  | _, b => reNet Ipv6RawExtHeader.fromSlice Ipv6RawExtHeader.toBytes b

def showExtsRead (e : Reads.ExtsRead) : String :=
  let f (k : ExtKind) : String :=
    match e.got.find? (fun p => p.1 == k) with
    | none => "none"
    | some (_, b) => reKind k b
  s!"hbh={f .hbh},dst={f .dst},rt={f .rt},frag={f .frag},auth={f .auth},fdst={f .fdst}"

def showAuthOpt : Option Bytes → String
  | none => "auth=none"
  | some b => s!"auth={reKind .auth b}"

def readLine {α : Type} (p : RProg α) (shw : α → String) (d : Bytes) (k : Nat) : String :=
  let (r, res) := p.run { data := d, pos := 0, failAt := some k }
  let rs := match res with
    | .ok a => shw a
    | .error e => e.render
  s!"{rs};used={r.pos};post=0"

def simpleRead (p : RProg Bytes) (re : Bytes → String) : List String → Option String
  | [d, k] => do
    let d ← argHex d; let k ← argNat k
    pure (readLine p (fun b => s!"ok({re b})") d k)
  | _ => none

/-! ### LimitedReader sessions -/

def knownLayer (s : String) : Bool :=
  ["Ethernet2Header", "Ipv4Header", "Ipv4Packet", "IpAuthHeader", "Ipv6Header", "Ipv6ExtHeader",
   "Ipv6FragHeader", "UdpHeader", "TcpHeader"].contains s
def knownSrc (s : String) : Bool :=
  ["Slice", "Ipv4HeaderTotalLen", "Ipv6HeaderPayloadLen", "UdpHeaderLen", "TcpHeaderLen"].contains s

def splitOp (op : String) : String × String :=
  match op.splitOn ":" with
  | [n] => (n, "")
  | n :: rest => (n, ":".intercalate rest)
  | [] => ("", "")

def okBytes (f : Bytes → String) : LProg Bytes → LProg String
  | p => p.bind fun b => .done (.ok s!"ok({f b})")

/-- one session op as a limited read program that yields the result text. -/
def opProg (op : String) : Option (LProg String) :=
  match splitOp op with
  | ("read", n) => do
    let n ← argNat n
    pure (okBytes hx (.read n fun b => .done (.ok b)))
  | ("start", l) => if knownLayer l then some (.start l (.done (.ok "ok"))) else none
  | ("auth", "") => some (okBytes (reKind .auth) LReads.auth)
  | ("frag", "") => some (okBytes (reKind .frag) LReads.ipv6frag)
  | ("rawext", "") => some (okBytes (reKind .hbh) LReads.rawext)
  | ("ipv4exts", s) => do
    let s ← EncLink.argU8 s
    pure ((LReads.ipv4exts s).bind fun (a, next) => .done (.ok s!"ok({showAuthOpt a},next={next})"))
  | ("ipv6exts", s) => do
    let s ← EncLink.argU8 s
    pure ((LReads.ipv6exts s).bind fun e => .done (.ok s!"ok({showExtsRead e},next={e.next})"))
  | _ => none

def runOps : List (String × LProg String) → Limited → List String → Limited × List String
  | [], l, acc => (l, acc.reverse)
  | (op, p) :: rest, l, acc =>
    let (l', r) := p.run l
    let rs := match r with
      | .ok s => s
      | .error e => e.render
    runOps rest l'
      (s!"{op}={rs}@({l'.maxLen},{l'.readLen},{l'.layerOffset},{l'.layer},{l'.lenSource})" :: acc)

def limited : List String → Option String
  | d :: k :: mx :: src :: off :: layer :: ops => do
    let d ← argHex d; let k ← argNat k; let mx ← argNat mx; let off ← argNat off
    if ¬ knownSrc src ∨ ¬ knownLayer layer then none
    else
      let progs ← ops.mapM fun op => (opProg op).map fun p => (op, p)
      let l0 := Limited.new { data := d, pos := 0, failAt := some k } mx src off layer
      let (l, outs) := runOps progs l0 []
      if l.panicked then pure "panic"
      else pure s!"[{",".intercalate outs}];pulled={l.inner.pos}"
  | _ => none

/-! ### PacketBuilder paths -/

open EpModel.Io.Build in
/-- `<path> <args…>` → the packet description (`none`: unknown path, `some none`: a checked
    constructor rejects a value) -/
def mkPacket (path : String) (a : List String) (payload : Bytes) : Option (Option Packet) :=
  let hexN := EncLink.argHexN
  let u8 := EncLink.argU8
  let u16 := EncLink.argU16
  let u32 := EncLink.argU32
  match path, a with
  | "e4u", [s, d, isrc, idst, ttl, sp, dp] => do
    pure (some { link := .eth2 (← hexN 6 s) (← hexN 6 d), vlan := .none,
                 net := .v4 (← hexN 4 isrc) (← hexN 4 idst) (← u8 ttl), tp := .udp (← u16 sp) (← u16 dp),
                 payload := payload })
  | "ev6u", [s, d, vid, isrc, idst, hop, sp, dp] => do
    let vid ← u16 vid
    let pk : Packet := { link := .eth2 (← hexN 6 s) (← hexN 6 d), vlan := (.single vid),
                            net := .v6 (← hexN 16 isrc) (← hexN 16 idst) (← u8 hop), tp := .udp (← u16 sp) (← u16 dp),
                            payload := payload }
    pure (if vid > 4095 then none else some pk)
  | "4t", [isrc, idst, ttl, sp, dp, seq, win] => do
    pure (some { link := .none, vlan := .none, net := .v4 (← hexN 4 isrc) (← hexN 4 idst) (← u8 ttl),
                 tp := .tcp (← u16 sp) (← u16 dp) (← u32 seq) (← u16 win), payload := payload })
  | "edd4i", [s, d, outer, inner, isrc, idst, ttl, eid, eseq] => do
    let o ← u16 outer; let i ← u16 inner
    let pk : Packet := { link := .eth2 (← hexN 6 s) (← hexN 6 d), vlan := (.double o i),
                            net := .v4 (← hexN 4 isrc) (← hexN 4 idst) (← u8 ttl),
                            tp := .icmp4echo (← u16 eid) (← u16 eseq), payload := payload }
    pure (if o > 4095 ∨ i > 4095 then none else some pk)
  | "6i6", [isrc, idst, hop, eid, eseq] => do
    pure (some { link := .none, vlan := .none, net := .v6 (← hexN 16 isrc) (← hexN 16 idst) (← u8 hop),
                 tp := .icmp6echo (← u16 eid) (← u16 eseq), payload := payload })
  | "e4i6", [s, d, isrc, idst, ttl, eid, eseq] => do
    pure (some { link := .eth2 (← hexN 6 s) (← hexN 6 d), vlan := .none,
                 net := .v4 (← hexN 4 isrc) (← hexN 4 idst) (← u8 ttl),
                 tp := .icmp6echo (← u16 eid) (← u16 eseq), payload := payload })
  | "earp", s :: d :: rest => do
    if ¬ payload.isEmpty then none
    else
      let src ← hexN 6 s; let dst ← hexN 6 d
      match ← mkArp rest with
      | none => pure none
      | some arp => pure (some { link := .eth2 src dst, vlan := .none, net := (.arp arp), tp := .none,
                                 payload := payload })
  | _, _ => none

def buildOp (slice : Bool) (args : List String) : Option String := do
  let (a, n) ← splitLast args
  let n ← argNat n
  let (a, payload) ← splitLast a
  let payload ← argHex payload
  match a with
  | [] => none
  | path :: a =>
    match ← mkPacket path a payload with
    | none => pure "bad-value"
    | some pk =>
      if slice then
        let (buf, r) := Build.writeToSlice pk (List.replicate n fill)
        let rs := match r with
          | .ok m => s!"ok(n={m})"
          | .error (.space m) => s!"err(space({m}))"
          | .error (.content c) => c
        pure s!"{rs};buf={hx buf};canary=intact"
      else pure (writeLine (Build.ser pk) id n)

/-! ### Read + Seek skipping of IPv6 extension headers -/

def skipOp (f : Reader → Nat → Reader × Except IoError Nat) : List String → Option String
  | [nh, d, k] => do
    let nh ← EncLink.argU8 nh; let d ← argHex d; let k ← argNat k
    let (r, res) := f { data := d, pos := 0, failAt := some k } nh
    let rs := match res with
      | .ok n => s!"ok({n})"
      | .error e => e.render
    pure s!"{rs};pos={r.pos};post=0"
  | _ => none

def skipOpSf (f : Skip.SReader → Nat → Skip.SReader × Except Skip.SkipError Nat) :
    List String → Option String
  | [nh, d, k, j] => do
    let nh ← EncLink.argU8 nh; let d ← argHex d; let k ← argNat k; let j ← argNat j
    let (s, res) := f { rd := { data := d, pos := 0, failAt := some k }, seeks := 0, seekFail := some j } nh
    let rs := match res with
      | .ok n => s!"ok({n})"
      | .error e => e.render
    pure s!"{rs};pos={s.rd.pos};seeks={s.seeks};post=0"
  | _ => none

/-! ### dispatch -/

open Codec CodecNet in
def run (op : String) (args : List String) : Option String :=
  match op with
  -- writers
  | "io.write.eth2" => simpleWrite mkEth2 Parts.eth2 args
  | "io.write.vlan" => simpleWrite mkVlan Parts.vlan args
  | "io.write.sll" => simpleWrite mkSll Parts.sll args
  | "io.write.macsec" => simpleWrite mkMacsec Parts.macsec args
  | "io.write.arp" => simpleWrite mkArp Parts.arp args
  | "io.write.ipv4" => simpleWrite mkIpv4 Parts.ipv4 args
  | "io.write.ipv4raw" => simpleWrite mkIpv4 Parts.ipv4raw args
  | "io.write.ipv6" => simpleWrite mkIpv6 Parts.ipv6 args
  | "io.write.ipv6frag" => simpleWrite mkFrag Parts.ipv6frag args
  | "io.write.rawext" => simpleWrite mkRawExt Parts.rawext args
  | "io.write.auth" => simpleWrite mkAuth Parts.auth args
  | "io.write.udp" => simpleWrite mkUdp Parts.udp args
  | "io.write.tcp" => simpleWrite mkTcp Parts.tcp args
  | "io.write.icmpv4" => simpleWrite mkIcmp4 Parts.icmpv4 args
  | "io.write.icmpv6" => simpleWrite mkIcmp6 Parts.icmpv6 args
  -- `Icmpv6Payload::write`: one `write_all` of the payload's fixed bytes (0 / 8 / 16 / 16 / 32 of them)
  | "io.write.icmpv6payload" =>
    match args with
    | [kind, h, k] => do
      let b ← argHex h
      let k ← argNat k
      let want := match kind with
        | "rs" => some 0 | "ra" => some 8 | "ns" => some 16 | "na" => some 16 | "rd" => some 32 | _ => none
      if want = some b.length then pure (plainWrite [b] k) else none
    | _ => none
  -- `LinkHeader::write` / `TransportHeader::write`: a `match` that calls the `write` of the variant
  | "io.write.link.eth2" => simpleWrite mkEth2 Parts.eth2 args
  | "io.write.link.sll" => simpleWrite mkSll Parts.sll args
  | "io.write.tp.udp" => simpleWrite mkUdp Parts.udp args
  | "io.write.tp.tcp" => simpleWrite mkTcp Parts.tcp args
  | "io.write.tp.icmpv4" => simpleWrite mkIcmp4 Parts.icmpv4 args
  | "io.write.tp.icmpv6" => simpleWrite mkIcmp6 Parts.icmpv6 args
  | "io.write.ipv4exts" => do
    let (f, k) ← splitLast args
    let k ← argNat k
    match f with
    | start :: f =>
      let start ← EncLink.argU8 start
      match ← mkIpv4Exts f with
      | none => pure "bad-value"
      | some e => pure (writeLine (Parts.ipv4exts e start) showIpv4Walk k)
    | [] => none
  | "io.write.ipv6exts" => do
    let (f, k) ← splitLast args
    let k ← argNat k
    match f with
    | start :: f =>
      let start ← EncLink.argU8 start
      match ← mkIpv6Exts f with
      | none => pure "bad-value"
      | some e => pure (writeLine (e.ser start) showIpv6Walk k)
    | [] => none
  | "io.write.ipheaders" => do
    let (f, k) ← splitLast args
    let k ← argNat k
    match ← mkIpHdrs f with
    | none => pure "bad-value"
    | some h => pure (writeLine h.ser showIpHdrsW k)
  -- slice writers
  | "io.wslice.eth2" => do
    let (f, c) ← splitLast args
    let c ← argNat c
    match ← mkEth2 f with
    | none => pure "bad-value"
    | some h => pure (sliceLine (eth2WriteToSlice h (List.replicate c fill)))
  | "io.wslice.sll" => do
    let (f, c) ← splitLast args
    let c ← argNat c
    match ← mkSll f with
    | none => pure "bad-value"
    | some h => pure (sliceLine (sllWriteToSlice h (List.replicate c fill)))
  -- readers
  | "io.read.eth2" => simpleRead Reads.eth2 (reLink Eth2.fromSlice Eth2.toBytes) args
  | "io.read.vlan" => simpleRead Reads.vlan (reLink Vlan.fromSlice Vlan.toBytes) args
  | "io.read.sll" => simpleRead Reads.sll (reLink Sll.fromSlice Sll.toBytes) args
  | "io.read.macsec" => simpleRead Reads.macsec (reLink Macsec.fromSlice Macsec.toBytes) args
  | "io.read.arp" => simpleRead Reads.arp (reLink Arp.fromSlice Arp.toBytes) args
  | "io.read.ipv4" => simpleRead Reads.ipv4 (reNet Ipv4Header.fromSlice Ipv4Header.toBytes) args
  | "io.read.ipv6" => simpleRead Reads.ipv6 (reNet Ipv6Header.fromSlice Ipv6Header.toBytes) args
  | "io.read.ipv6frag" => simpleRead Reads.ipv6frag (reKind .frag) args
  | "io.read.rawext" => simpleRead Reads.rawext (reKind .hbh) args
  | "io.read.auth" => simpleRead Reads.auth (reKind .auth) args
  | "io.read.udp" => simpleRead Reads.udp (reLink Udp.fromSlice Udp.toBytes) args
  | "io.read.tcp" => simpleRead Reads.tcp (reLink Tcp.fromSlice Tcp.toBytes) args
  | "io.read.icmpv4" => simpleRead Reads.icmpv4 (reLink Icmp4.fromSlice Icmp4.toBytes) args
  | "io.read.icmpv6" => simpleRead Reads.icmpv6 (reLink Icmp6.fromSlice Icmp6.toBytes) args
  | "io.read.ipv4exts" =>
    match args with
    | [s, d, k] => do
      let s ← EncLink.argU8 s; let d ← argHex d; let k ← argNat k
      pure (readLine (Reads.ipv4exts s) (fun (a, next) => s!"ok({showAuthOpt a},next={next})") d k)
    | _ => none
  | "io.read.ipv6exts" =>
    match args with
    | [s, d, k] => do
      let s ← EncLink.argU8 s; let d ← argHex d; let k ← argNat k
      pure (readLine (Reads.ipv6exts s) (fun e => s!"ok({showExtsRead e},next={e.next})") d k)
    | _ => none
  | "io.read.ipheaders" =>
    match args with
    | [d, k] => do
      let d ← argHex d; let k ← argNat k
      let (r, res) := ipHeadersRead { data := d, pos := 0, failAt := some k }
      let rs := match res with
        | .ok (.v4 h a next) =>
          s!"ok(v4(h={reNet Ipv4Header.fromSlice Ipv4Header.toBytes h},{showAuthOpt a}),next={next})"
        | .ok (.v6 h e) =>
          s!"ok(v6(h={reNet Ipv6Header.fromSlice Ipv6Header.toBytes h},{showExtsRead e}),next={e.next})"
        | .error e => e.render
      if rs = "panic" then pure "panic" else pure s!"{rs};used={r.pos};post=0"
    | _ => none
  | "io.limited" => limited args
  | "io.build.write" => buildOp false args
  | "io.build.wslice" => buildOp true args
  | "io.skip.ext" => skipOp Skip.skipHeaderExtension args
  | "io.skip.all" => skipOp Skip.skipAll args
  | "io.skip.ext.sf" => skipOpSf Skip.skipExtSf args
  | "io.skip.all.sf" => skipOpSf Skip.skipAllSf args
  | _ => none

end EpModel.Driver.Io
