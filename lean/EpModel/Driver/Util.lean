import EpModel.Model.Basic
/- Helpers for the line-protocol driver (argument parsing / canonical printing). -/
namespace EpModel.Driver
open EpModel

def argNat (s : String) : Option Nat := s.toNat?
def argHex (s : String) : Option Bytes := bytesOfHex s

/-- `(offset,len)` rendering of a window. -/
def showWin (o l : Nat) : String := s!"({o},{l})"

def joinWith (sep : String) (xs : List String) : String := sep.intercalate xs

end EpModel.Driver
