import EpModel.Driver.DecRender
import EpModel.Spec.Decode
/- `dec.*` operations: every decoding door of the model. -/
namespace EpModel.Driver.Dec
open EpModel EpModel.Driver EpModel.Dec EpModel.Driver.DecRender

def errS (e : PErr) : String := s!"err({perr e})"
def lenErrS (e : LenError) : String := s!"err({lenErr e})"

def ipStrict (g : Mem) (slice : Bool) (r : Except PErr IpR) : String :=
  match r with
  | .error e => errS e
  | .ok ip =>
    if slice then s!"ok(ip={ipSlice g ip};stop=none)"
    else s!"ok(ip={hIp g ip};pl={ipPl ip.pl};stop=none)"

def ipLax (g : Mem) (slice : Bool) (r : Except PErr (IpR × Option (PErr × Layer))) : String :=
  match r with
  | .error e => errS e
  | .ok (ip, st) =>
    if slice then s!"ok(ip={ipSlice g ip};stop={stop st})"
    else s!"ok(ip={hIp g ip};pl={ipPl ip.pl};stop={stop st})"

def extsOut (g : Mem) (sm : Bool) (nh l : Nat) (r : ExtsOut) : String :=
  let first := extsFirst nh l r
  let body :=
    if sm then
      let fr := match r.slots.frag with
        | none => "none"
        | some s => s!"frag({fragFields g s.o})"
      s!"hbh={hRaw g r.slots.hbh},dest={hRaw g r.slots.dest},routing={hRaw g r.slots.routing},fdest={hRaw g r.slots.finalDest},frag={fr},auth={hAuth g r.slots.auth}"
    else
      let it := match extIterAll g (first.getD 17) 0 (l - r.rest.l) with
        | .ok xs => "[" ++ joinWith "," (xs.map (extItem g)) ++ "]"
        | .error _ => "fault"
      s!"s={w ⟨0, l - r.rest.l⟩},first={optNat first},iter={it}"
  s!"ok({body};next={r.next};frag={b01 r.frag};rest={w r.rest};stop={stop (r.stop.map (fun (e, ly) => (extErrToPErr e, ly)))})"

def faultS (f : Spec.Fault) : String :=
  let cls := match f.cls with
    | .cutShort => "cutShort" | .claimsMore => "claimsMore" | .claimsLess => "claimsLess"
    | .tooLong => "tooLong" | .content => "content"
  let u := match f.unit with
    | .eth => "eth" | .sll => "sll" | .vlan => "vlan" | .macsecHeader => "macsecHeader"
    | .macsecPacket => "macsecPacket" | .ipAny => "ipAny" | .ipv4Header => "ipv4Header"
    | .ipv4Packet => "ipv4Packet" | .ipv6Header => "ipv6Header" | .ipv6Packet => "ipv6Packet"
    | .auth => "auth" | .hopByHop => "hopByHop" | .destOpts => "destOpts" | .route => "route"
    | .fragHeader => "fragHeader" | .arp => "arp" | .udpHeader => "udpHeader"
    | .udpPayload => "udpPayload" | .tcp => "tcp" | .icmp4 => "icmp4" | .icmp6 => "icmp6"
  s!"fault(cls={cls},unit={u},off={f.off},avail={f.avail},need={f.need},lim={src f.lim},value={f.value})"

def specStart (s : String) (et : Option Nat) : Option Spec.Start :=
  match s, et with
  | "eth", none => some .eth
  | "sll", none => some .sll
  | "ip", none => some .ip
  | "et", some e => some (.etherType e)
  | _, _ => none

def specRun (lax : Bool) (st : Spec.Start) (b : Bytes) : String :=
  let g := memOf b
  if lax then
    let (p, f) := Spec.decodeLax st g b.length
    s!"{packet g p};fault={match f with | none => "none" | some f => faultS f}"
  else
    match Spec.decode st g b.length with
    | .ok p => packet g p
    | .error f => s!"err({faultS f})"

def run (op : String) (args : List String) : Option String :=
  match op, args with
  | "spec.dec.decode", [st, h] => do
      let b ← argHex h; let st ← specStart st none; pure (specRun false st b)
  | "spec.dec.decode", [st, et, h] => do
      let b ← argHex h; let et ← argNat et; let st ← specStart st (some et); pure (specRun false st b)
  | "spec.dec.decode_lax", [st, h] => do
      let b ← argHex h; let st ← specStart st none; pure (specRun true st b)
  | "spec.dec.decode_lax", [st, et, h] => do
      let b ← argHex h; let et ← argNat et; let st ← specStart st (some et); pure (specRun true st b)
  -- whole packet: slices
  | "dec.sp_eth", [h] => do
      let b ← argHex h; let g := memOf b
      pure (match slicedFromEthernet g b.length with | .ok p => packet g p | .error e => errS e)
  | "dec.sp_sll", [h] => do
      let b ← argHex h; let g := memOf b
      pure (match slicedFromLinuxSll g b.length with | .ok p => packet g p | .error e => errS e)
  | "dec.sp_et", [et, h] => do
      let et ← argNat et; let b ← argHex h; let g := memOf b
      pure (match slicedFromEtherType g et b.length with | .ok p => packet g p | .error e => errS e)
  | "dec.sp_ip", [h] => do
      let b ← argHex h; let g := memOf b
      pure (match slicedFromIp g b.length with | .ok p => packet g p | .error e => errS e)
  | "dec.lsp_eth", [h] => do
      let b ← argHex h; let g := memOf b
      pure (match laxSlicedFromEthernet g b.length with | .ok p => packet g p | .error e => lenErrS e)
  | "dec.lsp_et", [et, h] => do
      let et ← argNat et; let b ← argHex h; let g := memOf b
      pure (packet g (laxSlicedFromEtherType g et b.length))
  | "dec.lsp_ip", [h] => do
      let b ← argHex h; let g := memOf b
      pure (match laxSlicedFromIp g b.length with | .ok p => packet g p | .error e => errS e)
  -- whole packet: header structs
  | "dec.ph_eth", [h] => do
      let b ← argHex h; let g := memOf b
      pure (match phFromEthernet g b.length with | .ok p => headers g p | .error e => errS e)
  | "dec.ph_et", [et, h] => do
      let et ← argNat et; let b ← argHex h; let g := memOf b
      pure (match phFromEtherType g et 0 b.length with | .ok p => headers g p | .error e => errS e)
  | "dec.ph_ip", [h] => do
      let b ← argHex h; let g := memOf b
      pure (match phFromIp g b.length with | .ok p => headers g p | .error e => errS e)
  | "dec.lph_eth", [h] => do
      let b ← argHex h; let g := memOf b
      pure (match lphFromEthernet g b.length with | .ok p => headers g p | .error e => lenErrS e)
  | "dec.lph_sll", [h] => do
      let b ← argHex h; let g := memOf b
      pure (match lphFromLinuxSll g b.length with | .ok p => headers g p | .error e => errS e)
  | "dec.lph_et", [et, h] => do
      let et ← argNat et; let b ← argHex h; let g := memOf b
      pure (headers g (lphFromEtherType g et 0 b.length))
  | "dec.lph_ip", [h] => do
      let b ← argHex h; let g := memOf b
      pure (match lphFromIp g b.length with | .ok p => headers g p | .error e => errS e)
  -- the IP boundary implementations
  | "dec.ip_slice", [h] => do
      let b ← argHex h; let g := memOf b; pure (ipStrict g true (ipSliceFromSlice g 0 b.length))
  | "dec.ipv4_slice", [h] => do
      let b ← argHex h; let g := memOf b; pure (ipStrict g true (ipv4SliceFromSlice g 0 b.length))
  | "dec.ipv6_slice", [h] => do
      let b ← argHex h; let g := memOf b; pure (ipStrict g true (ipv6SliceFromSlice g 0 b.length))
  | "dec.ipv6_slice_lax", [h] => do
      let b ← argHex h; let g := memOf b; pure (ipStrict g true (ipv6SliceFromSliceLax g 0 b.length))
  | "dec.lax_ip_slice", [h] => do
      let b ← argHex h; let g := memOf b; pure (ipLax g true (laxIpSliceFromSlice g 0 b.length))
  | "dec.lax_ipv4_slice", [h] => do
      let b ← argHex h; let g := memOf b; pure (ipLax g true (laxIpv4SliceFromSlice g 0 b.length))
  | "dec.lax_ipv6_slice", [h] => do
      let b ← argHex h; let g := memOf b; pure (ipLax g true (laxIpv6SliceFromSlice g 0 b.length))
  | "dec.iph", [h] => do
      let b ← argHex h; let g := memOf b; pure (ipStrict g false (ipHeadersFromSlice g 0 b.length))
  | "dec.iph_lax", [h] => do
      let b ← argHex h; let g := memOf b; pure (ipLax g false (ipHeadersFromSliceLax g 0 b.length))
  | "dec.iph_v4", [h] => do
      let b ← argHex h; let g := memOf b; pure (ipStrict g false (ipHeadersFromIpv4Slice g 0 b.length))
  | "dec.iph_v4_lax", [h] => do
      let b ← argHex h; let g := memOf b; pure (ipLax g false (ipHeadersFromIpv4SliceLax g 0 b.length))
  | "dec.iph_v6", [h] => do
      let b ← argHex h; let g := memOf b; pure (ipStrict g false (ipHeadersFromIpv6Slice g 0 b.length))
  | "dec.iph_v6_lax", [h] => do
      let b ← argHex h; let g := memOf b; pure (ipLax g false (ipHeadersFromIpv6SliceLax g 0 b.length))
  -- extension chains
  | "dec.exts", [nh, h] => do
      let nh ← argNat nh; let b ← argHex h; let g := memOf b
      pure (match extsWalkStrict g false nh 0 b.length with
        | .ok r => extsOut g false nh b.length r | .error e => errS (extErrToPErr e))
  | "dec.exts_lax", [nh, h] => do
      let nh ← argNat nh; let b ← argHex h; let g := memOf b
      pure (extsOut g false nh b.length (extsWalk g false nh 0 b.length))
  | "dec.exts_struct", [nh, h] => do
      let nh ← argNat nh; let b ← argHex h; let g := memOf b
      pure (match extsWalkStrict g true nh 0 b.length with
        | .ok r => extsOut g true nh b.length r | .error e => errS (extErrToPErr e))
  | "dec.exts_struct_lax", [nh, h] => do
      let nh ← argNat nh; let b ← argHex h; let g := memOf b
      pure (extsOut g true nh b.length (extsWalk g true nh 0 b.length))
  -- single layers
  | "dec.eth2", [h] => do
      let b ← argHex h; let g := memOf b
      pure (match eth2FromSlice 0 b.length with
        | .ok s => s!"ok({link g (some (.eth2 s))};fcs=none)" | .error e => lenErrS e)
  | "dec.eth2_fcs", [h] => do
      let b ← argHex h; let g := memOf b
      pure (match eth2FromSliceFcs 0 b.length with
        | .ok s => s!"ok(eth2(s={w s},{eth2Fields g s.o},pl={w ⟨s.o + 14, s.l - 14 - 4⟩});fcs={memHex g (s.l - 4) 4})"
        | .error e => lenErrS e)
  | "dec.sll", [h] => do
      let b ← argHex h; let g := memOf b
      pure (match sllFromSlice g 0 b.length with
        | .ok s => s!"ok({link g (some (.sll s))})" | .error e => errS e)
  | "dec.vlan", [h] => do
      let b ← argHex h; let g := memOf b
      pure (match vlanFromSlice 0 b.length with
        | .ok s => s!"ok({ext g (.vlan s)})" | .error e => lenErrS e)
  | "dec.macsec", [h] => do
      let b ← argHex h; let g := memOf b
      pure (match macsecFromSlice g 0 b.length with
        | .ok x => s!"ok({ext g x})" | .error e => errS e)
  | "dec.lax_macsec", [h] => do
      let b ← argHex h; let g := memOf b
      pure (match laxMacsecFromSlice g 0 b.length with
        | .ok x => s!"ok({ext g x})" | .error e => errS e)
  | "dec.arp", [h] => do
      let b ← argHex h; let g := memOf b
      pure (match arpFromSlice g 0 b.length with
        | .ok s => s!"ok({net g (some (.arp s))})" | .error e => lenErrS e)
  | "dec.udp", [h] => do
      let b ← argHex h; let g := memOf b
      pure (match udpFromSlice g 0 b.length with
        | .ok s => s!"ok({tp g (some (.udp s))})" | .error e => lenErrS e)
  | "dec.udp_lax", [h] => do
      let b ← argHex h; let g := memOf b
      pure (match udpFromSliceLax g 0 b.length with
        | .ok s => s!"ok({tp g (some (.udp s))})" | .error e => lenErrS e)
  | "dec.tcp", [h] => do
      let b ← argHex h; let g := memOf b
      pure (match tcpFromSlice g 0 b.length with
        | .ok hl => s!"ok({tp g (some (.tcp ⟨0, b.length⟩ hl))})" | .error e => errS e)
  | "dec.icmp4", [h] => do
      let b ← argHex h; let g := memOf b
      pure (match icmp4FromSlice g 0 b.length with
        | .ok s => s!"ok({tp g (some (.icmp4 s))})" | .error e => lenErrS e)
  | "dec.icmp6", [h] => do
      let b ← argHex h; let g := memOf b
      pure (match icmp6FromSlice 0 b.length with
        | .ok s => s!"ok({tp g (some (.icmp6 s))})" | .error e => lenErrS e)
  | _, _ => none

end EpModel.Driver.Dec
