import EpModel.Driver.Util
/- `dec.*` and `spec.dec.*` operations (stub; filled in by the owner of this family). -/
namespace EpModel.Driver.Dec
open EpModel EpModel.Driver

def run (op : String) (args : List String) : Option String :=
  match op, args with
  | _, _ => none

end EpModel.Driver.Dec
