import EpModel.Driver.Util
import EpModel.Spec.Rfc1071
/- `spec.*` operations: reference semantics evaluated for the oracles (never the model). -/
namespace EpModel.Driver.SpecOps
open EpModel EpModel.Driver

def run (op : String) (args : List String) : Option String :=
  match op, args with
  | "spec.ck", [h] => do
      let b ← argHex h
      pure (toString (Spec.checksum b))
  | _, _ => none

end EpModel.Driver.SpecOps
