import EpModel.Driver.Util
import EpModel.Driver.EncLink
import EpModel.Driver.EncNet
import EpModel.Driver.Opt
import EpModel.Model.Builder
import EpModel.Model.BuilderIo
/- `build.*` operations (C10; `build.failw` / `build.slicebuf`: C16): PacketBuilder.

   build.write <cfg> <payload>
       → ok(size=<size()>,len=<bytes written>,b=<hex>)                              (len ≤ 2000)
         ok(size=…,len=…,head=<first 128 bytes>,tail=<last 16 bytes>,ck=<Adler-32>) (len > 2000)
         err(<BuildWriteError variant>,size=<size()>,written=<hex handed to the writer before the error>)
         err(ctor(...)) when a checked constructor / `.options()` rejects a configured value
   build.slice <cfg> <payload> <cap>
       → ok(n=<returned length>,…same body as build.write…) / err(Space(<required>)) / err(<variant>)

   build.failw <cfg> <payload> <k>      `write` into a writer that accepts exactly k bytes, then fails
       → ok|err(io)|err(<BuildWriteError variant>);w=<hex accepted by the writer>;post=<write calls after the failure>
   build.slicebuf <cfg> <payload> <cap>  `write_to_slice` into the first cap bytes (0xaa) of a buffer with a canary behind
       → <build.slice result>;buf=<hex of the cap bytes>;canary=intact|clobbered

   <payload> := <hex> | "-" | "len:" N ":" byte            (N copies of the byte)

   <cfg>  := <link> "/" <vlan> "/" <net> "/" <tp>          (fields ":"-separated, sub-sections "|")
   <link> := none | eth:<src6>:<dst6> | sll:<ptype>:<alen>:<addr8>
   <vlan> := none | s:<vid> | d:<outer>:<inner> | vs:<pcp>:<dei>:<vid>:<et>
           | vd:<pcp>:<dei>:<vid>:<et>:<pcp>:<dei>:<vid>:<et>                (only behind eth)
   <net>  := arp:<hw>:<proto>:<op>:<shw>:<sp>:<thw>:<tp>                     (needs a link; <tp> = none)
           | v4:<src4>:<dst4>:<ttl> | v6:<src16>:<dst16>:<hop>
           | ip4:<dscp>:<ecn>:<tlen>:<id>:<df>:<mf>:<fo>:<ttl>:<proto>:<ck>:<src4>:<dst4>:<opts>[|au:<nh>:<spi>:<seq>:<icv>]
           | ip6:<tc>:<fl>:<plen>:<nh>:<hop>:<src16>:<dst16>{|hbh:<nh>:<pl> | |dst:… | |rt:… | |fd:… (needs rt)
                                                            | |fr:<nh>:<fo>:<mf>:<id> | |au:<nh>:<spi>:<seq>:<icv>}
   <tp>   := none | raw:<ip number> | udp:<sp>:<dp>
           | tcp:<sp>:<dp>:<seq>:<win>|<flag calls: - or comma list of ns fin syn rst psh ack=N urg=N ece cwr>|<- | raw=<hex> | el=<opt.* element list>>
           | tcph:<sp>:<dp>:<seq>:<ack>:<9 flag bits>:<win>:<ck>:<urg>:<opts hex>     (.tcp_header)
           | i4:t:<variant>:<args> | i4:raw:<type>:<code>:<b58> | i4:ereq:<id>:<seq> | i4:erep:<id>:<seq>
           | i6:t:<variant>:<args> | i6:raw:… | i6:ereq:… | i6:erep:…        (variants/args as in enc.icmpv4 / enc.icmpv6)
-/
namespace EpModel.Driver.Build
open EpModel EpModel.Driver EpModel.Codec EpModel.CodecNet EpModel.Builder

/- parse results `Option (Except String α)`: `none` = bad-op, `some (.error s)` = a checked
   constructor refused (printed `s`) -/

def pOk {α} (x : α) : Option (Except String α) := some (.ok x)

def natLt (lim : Nat) (s : String) : Option Nat := EncLink.argLt lim s
def hexN (n : Nat) (s : String) : Option Bytes := EncLink.argHexN n s

def parsePayload (s : String) : Option Bytes :=
  match s.splitOn ":" with
  | ["len", n, b] => do
      let n ← natLt 1000000 n; let b ← natLt 256 b
      pure (List.replicate n (UInt8.ofNat b))
  | [h] => argHex h
  | _ => none

def parseLink (s : String) : Option (Option Link) :=
  match s.splitOn ":" with
  | ["none"] => some none
  | ["eth", a, b] => do pure (Step.ethernet2 (← hexN 6 a) (← hexN 6 b))
  | ["sll", pt, alen, addr] => do pure (Step.linuxSll (← natLt 8 pt) (← natLt 65536 alen) (← hexN 8 addr))
  | _ => none

def parseVlanH : List String → Option Vlan
  | [p, d, v, e] => do
      pure { pcp := ← natLt 8 p, dei := ← EncLink.argBool d, vid := ← natLt 4096 v, et := ← natLt 65536 e }
  | _ => none

def parseVlan (s : String) : Option (Option VlanH) :=
  match s.splitOn ":" with
  | ["none"] => some none
  | ["s", v] => do pure (Step.singleVlan (← natLt 4096 v))
  | ["d", o, i] => do pure (Step.doubleVlan (← natLt 4096 o) (← natLt 4096 i))
  | "vs" :: r => do pure (some (.single (← parseVlanH r)))
  | ["vd", a, b, c, d, e, f, g, h] => do
      pure (some (.double (← parseVlanH [a, b, c, d]) (← parseVlanH [e, f, g, h])))
  | _ => none

def errOf {α} (e : Except Err α) : Except String α :=
  match e with
  | .ok x => .ok x
  | .error e => .error (Err.render e)

/-- the extension sub-sections of `ip6:` in any order, each at most once -/
def parseExt6 (e : Ipv6Exts) (fd : Option Ipv6RawExtHeader) (s : String) :
    Option (Except String (Ipv6Exts × Option Ipv6RawExtHeader)) :=
  match s.splitOn ":" with
  | ["hbh", nh, pl] => do
      if e.hbh.isSome then none
      match ← EncNet.rawExtValue [nh, pl] with
      | .error m => pure (.error m)
      | .ok h => pOk ({ e with hbh := some h }, fd)
  | ["dst", nh, pl] => do
      if e.dest.isSome then none
      match ← EncNet.rawExtValue [nh, pl] with
      | .error m => pure (.error m)
      | .ok h => pOk ({ e with dest := some h }, fd)
  | ["rt", nh, pl] => do
      if e.routing.isSome then none
      match ← EncNet.rawExtValue [nh, pl] with
      | .error m => pure (.error m)
      | .ok h => pOk ({ e with routing := some { routing := h, finalDest := none } }, fd)
  | ["fd", nh, pl] => do
      if fd.isSome then none
      match ← EncNet.rawExtValue [nh, pl] with
      | .error m => pure (.error m)
      | .ok h => pOk (e, some h)
  | ["fr", nh, fo, mf, id] => do
      if e.fragment.isSome then none
      match ← EncNet.fragValue [nh, fo, mf, id] with
      | .error m => pure (.error m)
      | .ok h => pOk ({ e with fragment := some h }, fd)
  | ["au", nh, spi, seq, icv] => do
      if e.auth.isSome then none
      match ← EncNet.authValue [nh, spi, seq, icv] with
      | .error m => pure (.error m)
      | .ok h => pOk ({ e with auth := some h }, fd)
  | _ => none

def parseExts6 : List String → Ipv6Exts → Option Ipv6RawExtHeader → Option (Except String (Ipv6Exts × Option Ipv6RawExtHeader))
  | [], e, fd => pOk (e, fd)
  | s :: rest, e, fd =>
    match parseExt6 e fd s with
    | none => none
    | some (.error m) => some (.error m)
    | some (.ok (e', fd')) => parseExts6 rest e' fd'

def parseNet (s : String) : Option (Except String Net) :=
  match s.splitOn "|" with
  | [] => none
  | main :: subs =>
    match main.splitOn ":", subs with
    | "arp" :: r, [] => do
        match ← EncLink.mkArp r with
        | .error e => pure (.error (Err.render e))
        | .ok a => pOk (.arp a)
    | ["v4", a, b, t], [] => do pOk (Step.ipv4 (← hexN 4 a) (← hexN 4 b) (← natLt 256 t))
    | ["v6", a, b, t], [] => do pOk (Step.ipv6 (← hexN 16 a) (← hexN 16 b) (← natLt 256 t))
    | "ip4" :: r, subs => do
        match ← EncNet.ipv4Value r with
        | .error m => pure (.error m)
        | .ok ip =>
          match subs with
          | [] => pOk (.ipv4 ip { auth := none })
          | [au] =>
            match au.splitOn ":" with
            | ["au", nh, spi, seq, icv] => do
                match ← EncNet.authValue [nh, spi, seq, icv] with
                | .error m => pure (.error m)
                | .ok h => pOk (.ipv4 ip { auth := some h })
            | _ => none
          | _ => none
    | "ip6" :: r, subs => do
        match ← EncNet.ipv6Value r with
        | .error m => pure (.error m)
        | .ok ip =>
          match ← parseExts6 subs Ipv6Exts.empty none with
          | .error m => pure (.error m)
          | .ok (e, fd) =>
            match fd, e.routing with
            | none, _ => pOk (.ipv6 ip e)
            | some f, some r => pOk (.ipv6 ip { e with routing := some { routing := r.routing, finalDest := some f } })
            | some _, none => none
    | _, _ => none

def applyFlag (h : Tcp) (s : String) : Option Tcp :=
  match s.splitOn "=" with
  | ["ns"] => some (Step.ns h)
  | ["fin"] => some (Step.fin h)
  | ["syn"] => some (Step.syn h)
  | ["rst"] => some (Step.rst h)
  | ["psh"] => some (Step.psh h)
  | ["ece"] => some (Step.ece h)
  | ["cwr"] => some (Step.cwr h)
  | ["ack", n] => do pure (Step.ack h (← natLt 4294967296 n))
  | ["urg", n] => do pure (Step.urg h (← natLt 65536 n))
  | _ => none

def applyOpts (h : Tcp) (s : String) : Option (Except String Tcp) :=
  if s = "-" then pOk h
  else if s.startsWith "raw=" then do
    let d ← argHex (s.drop 4).toString
    match TcpOpts.tryFromSlice d with
    | .ok o => pOk (Step.options h o)
    | .error _ => pure (.error s!"err(ctor(TcpOptions(NotEnoughSpace({d.length}))))")
  else if s.startsWith "el=" then do
    let es ← Opt.parseElems (s.drop 3).toString
    match TcpOptions.encode es with
    | .ok b => pOk (Step.options h { len := b.length, buf := b ++ List.replicate (40 - b.length) 0 })
    | .err (.notEnoughSpace n) => pure (.error s!"err(ctor(TcpOptions(NotEnoughSpace({n}))))")
    | .panic => pure (.error "panic")
  else none

def parseIcmp4 : List String → Option (Except String Tp)
  | ["t", v, args] => do
      match ← EncLink.mkIcmp4 ["0", v, args] with
      | .error e => pure (.error (Err.render e))
      | .ok h => pOk (Step.icmpv4 h.ty)
  | ["raw", t, c, b] => do pOk (Step.icmpv4Raw (← natLt 256 t) (← natLt 256 c) (← hexN 4 b))
  | ["ereq", i, s] => do pOk (Step.icmpv4EchoRequest (← natLt 65536 i) (← natLt 65536 s))
  | ["erep", i, s] => do pOk (Step.icmpv4EchoReply (← natLt 65536 i) (← natLt 65536 s))
  | _ => none

def parseIcmp6 : List String → Option (Except String Tp)
  | ["t", v, args] => do
      match ← EncLink.mkIcmp6 ["0", v, args] with
      | .error e => pure (.error (Err.render e))
      | .ok h => pOk (Step.icmpv6 h.ty)
  | ["raw", t, c, b] => do pOk (Step.icmpv6Raw (← natLt 256 t) (← natLt 256 c) (← hexN 4 b))
  | ["ereq", i, s] => do pOk (Step.icmpv6EchoRequest (← natLt 65536 i) (← natLt 65536 s))
  | ["erep", i, s] => do pOk (Step.icmpv6EchoReply (← natLt 65536 i) (← natLt 65536 s))
  | _ => none

/-- transport section: the transport header (if any) and the `last_next_header_ip_number` -/
def parseTp (s : String) : Option (Except String (Option Tp × Nat)) :=
  match s.splitOn "|" with
  | [main] =>
    match main.splitOn ":" with
    | ["none"] => pOk (none, 0)
    | ["raw", n] => do pOk (none, ← natLt 256 n)
    | ["udp", a, b] => do pOk (some (Step.udp (← natLt 65536 a) (← natLt 65536 b)), 0)
    | "tcph" :: r => do
        match ← EncLink.mkTcp r with
        | .error _ =>
          match r with
          | [_, _, _, _, _, _, _, _, o] => do
              let d ← argHex o
              pure (.error s!"err(ctor(TcpOptions(NotEnoughSpace({d.length}))))")
          | _ => none
        | .ok h => pOk (some (.tcp h), 0)
    | "i4" :: r => do
        match ← parseIcmp4 r with
        | .error m => pure (.error m)
        | .ok t => pOk (some t, 0)
    | "i6" :: r => do
        match ← parseIcmp6 r with
        | .error m => pure (.error m)
        | .ok t => pOk (some t, 0)
    | _ => none
  | [main, flags, opts] =>
    match main.splitOn ":" with
    | ["tcp", a, b, c, d] => do
        let h := Step.tcp (← natLt 65536 a) (← natLt 65536 b) (← natLt 4294967296 c) (← natLt 65536 d)
        let h ← (EncLink.argList flags).foldlM applyFlag h
        match ← applyOpts h opts with
        | .error m => pure (.error m)
        | .ok h => pOk (some (.tcp h), 0)
    | _ => none
  | _ => none

def parseCfg (s : String) : Option (Except String Cfg) :=
  match s.splitOn "/" with
  | [l, v, n, t] => do
      let link ← parseLink l
      let vlan ← parseVlan v
      match ← parseNet n with
      | .error m => pure (.error m)
      | .ok net =>
        match ← parseTp t with
        | .error m => pure (.error m)
        | .ok (tp, last) =>
          -- the typed builder steps: VLAN only behind Ethernet II, ARP only behind a link and
          -- without transport, IP always with `udp`/`tcp`/`icmp*` or the raw `write`
          let isEth : Bool := match link with | some (.eth2 _) => true | _ => false
          let isArp : Bool := match net with | .arp _ => true | _ => false
          if vlan.isSome && !isEth then none
          else if isArp && (link.isNone || t != "none") then none
          else if !isArp && t == "none" then none
          else pOk { link := link, vlan := vlan, net := net, tp := tp, last := last }
  | _ => none

/-! ### rendering -/

/-- Adler-32 (RFC 1950) of the bytes -/
def digest (b : Bytes) : Nat :=
  let r := b.foldl (fun (acc : Nat × Nat) x =>
    let a := (acc.1 + x.toNat) % 65521
    (a, (acc.2 + a) % 65521)) (1, 0)
  r.2 * 65536 + r.1

def showBytes (b : Bytes) : String :=
  if b.length > 2000 then
    s!"head={hexOfBytes (b.take 128)},tail={hexOfBytes (b.drop (b.length - 16))},ck={digest b}"
  else s!"b={hexOfBytes b}"

def showTooBig (e : TooBig) : String := s!"PayloadLen(actual={e.actual},max={e.maxAllowed},type={e.ty})"

/-- `none` = the implementation panics -/
def showErr : BuildErr → Option String
  | .payloadLen e => some (showTooBig e)
  | .ipv4Exts (.extNotReferenced n) => some s!"Ipv4Exts(ExtNotReferenced({n}))"
  | .ipv6Exts .hopByHopNotAtStart => some "Ipv6Exts(HopByHopNotAtStart)"
  | .ipv6Exts (.extNotReferenced n) => some s!"Ipv6Exts(ExtNotReferenced({n}))"
  | .icmpv6InIpv4 => some "Icmpv6InIpv4"
  | .panic _ => none

def runWrite (cfg : Cfg) (payload : Bytes) : String :=
  let sz := size cfg payload.length
  match build cfg payload with
  | .ok out => s!"ok(size={sz},len={out.length},{showBytes out})"
  | .error f =>
    match showErr f.err with
    | some e => s!"err({e},size={sz},written={hexOfBytes f.written})"
    | none => "panic"

def runSlice (cfg : Cfg) (payload : Bytes) (cap : Nat) : String :=
  match writeToSlice cfg cap payload with
  | .ok n out => s!"ok(n={n},len={out.length},{showBytes out})"
  | .space r => s!"err(Space({r}))"
  | .overflow => "!slice-overflow"
  | .fail e =>
    match showErr e with
    | some e => s!"err({e})"
    | none => "panic"

/-- `post`: calls after the first failure — a serialiser makes none by construction -/
def runFailw (cfg : Cfg) (payload : Bytes) (k : Nat) : String :=
  let (w, r) := writeFailing cfg payload k
  let rs : Option String := match r with
    | .ok () => some "ok"
    | .error (.io e) => some e.render
    | .error (.content c) => (showErr c).map fun e => s!"err({e})"
  match rs with
  | some rs => s!"{rs};w={hexOfBytes w.out};post=0"
  | none => "panic"

/-- `canary`: bytes behind the slice — the model has no way to touch them -/
def runSliceBuf (cfg : Cfg) (payload : Bytes) (cap : Nat) : String :=
  let rs := runSlice cfg payload cap
  if rs = "panic" then rs
  else s!"{rs};buf={hexOfBytes (sliceBuffer cfg cap payload 0xaa)};canary=intact"

/-- the argument checks shared by all ops (the ARP step has no payload parameter) -/
def withCfg (c p : String) (f : Cfg → Bytes → String) : Option String := do
  let payload ← parsePayload p
  match ← parseCfg c with
  | .error m => pure m
  | .ok cfg =>
    match cfg.net with
    | .arp _ => if payload ≠ [] then none else pure (f cfg payload)
    | _ => pure (f cfg payload)

def run (op : String) (args : List String) : Option String :=
  match op, args with
  | "build.failw", [c, p, k] => do
      let k ← argNat k
      withCfg c p fun cfg payload => runFailw cfg payload k
  | "build.slicebuf", [c, p, cap] => do
      let cap ← natLt 1000000 cap
      withCfg c p fun cfg payload => runSliceBuf cfg payload cap
  | "build.write", [c, p] => do
      let payload ← parsePayload p
      match ← parseCfg c with
      | .error m => pure m
      | .ok cfg =>
        -- the ARP step has no payload parameter
        match cfg.net with
        | .arp _ => if payload ≠ [] then none else pure (runWrite cfg payload)
        | _ => pure (runWrite cfg payload)
  | "build.slice", [c, p, cap] => do
      let payload ← parsePayload p
      let cap ← natLt 1000000 cap
      match ← parseCfg c with
      | .error m => pure m
      | .ok cfg =>
        match cfg.net with
        | .arp _ => if payload ≠ [] then none else pure (runSlice cfg payload cap)
        | _ => pure (runSlice cfg payload cap)
  | _, _ => none

end EpModel.Driver.Build
