import EpModel.Driver.Util
/- `build.*` and `spec.build.*` operations (stub; filled in by the owner of this family). -/
namespace EpModel.Driver.Build
open EpModel EpModel.Driver

def run (op : String) (args : List String) : Option String :=
  match op, args with
  | _, _ => none

end EpModel.Driver.Build
