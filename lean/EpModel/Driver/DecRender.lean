import EpModel.Driver.Util
import EpModel.Model.Dec.Headers
/- Canonical rendering of decoding results (shared grammar with harness/src/dec.rs). -/
namespace EpModel.Driver.DecRender
open EpModel EpModel.Driver EpModel.Dec

def w (x : Win) : String := s!"({x.o},{x.l})"
def b01 (b : Bool) : String := if b then "1" else "0"

def memHex (g : Mem) (o l : Nat) : String :=
  hexOfBytes ((List.range l).map (fun i => UInt8.ofNat (g (o + i))))

def src : LenSource → String
  | .slice => "Slice" | .macsecShortLength => "MacsecShortLength"
  | .ipv4HeaderTotalLen => "Ipv4HeaderTotalLen" | .ipv6HeaderPayloadLen => "Ipv6HeaderPayloadLen"
  | .udpHeaderLen => "UdpHeaderLen" | .tcpHeaderLen => "TcpHeaderLen"
  | .arpAddrLengths => "ArpAddrLengths"

def layer : Layer → String
  | .linuxSllHeader => "LinuxSllHeader" | .ethernet2Header => "Ethernet2Header"
  | .etherPayload => "EtherPayload" | .vlanHeader => "VlanHeader" | .macsecHeader => "MacsecHeader"
  | .macsecPacket => "MacsecPacket" | .ipHeader => "IpHeader" | .ipv4Header => "Ipv4Header"
  | .ipv4Packet => "Ipv4Packet" | .ipAuthHeader => "IpAuthHeader" | .ipv6Header => "Ipv6Header"
  | .ipv6Packet => "Ipv6Packet" | .ipv6ExtHeader => "Ipv6ExtHeader"
  | .ipv6HopByHopHeader => "Ipv6HopByHopHeader" | .ipv6DestOptionsHeader => "Ipv6DestOptionsHeader"
  | .ipv6RouteHeader => "Ipv6RouteHeader" | .ipv6FragHeader => "Ipv6FragHeader"
  | .udpHeader => "UdpHeader" | .udpPayload => "UdpPayload" | .tcpHeader => "TcpHeader"
  | .icmpv4 => "Icmpv4" | .icmpv4Timestamp => "Icmpv4Timestamp"
  | .icmpv4TimestampReply => "Icmpv4TimestampReply" | .icmpv6 => "Icmpv6" | .igmp => "Igmp"
  | .arp => "Arp"

def lenErr (e : LenError) : String :=
  s!"len(req={e.req},len={e.len},src={src e.src},layer={layer e.layer},off={e.off})"

def perr : PErr → String
  | .len e => lenErr e
  | .sllPacketType v => s!"LinuxSll(PacketType({v}))"
  | .sllArpHw v => s!"LinuxSll(ArpHw({v}))"
  | .macsecVersion => "Macsec(UnexpectedVersion)"
  | .macsecShortLen => "Macsec(InvalidUnmodifiedShortLen)"
  | .ipVersion v => s!"Ip(Version({v}))"
  | .ipIhl v => s!"Ip(Ihl({v}))"
  | .ipv4Version v => s!"Ipv4(Version({v}))"
  | .ipv4Ihl v => s!"Ipv4(Ihl({v}))"
  | .ipv6Version v => s!"Ipv6(Version({v}))"
  | .ipv4ExtsZeroLen => "Ipv4Exts(ZeroPayloadLen)"
  | .ipv6HopByHop => "Ipv6Exts(HopByHopNotAtStart)"
  | .ipv6ExtsAuthZeroLen => "Ipv6Exts(IpAuth(ZeroPayloadLen))"
  | .tcpDataOffset v => s!"Tcp(DataOffset({v}))"

def stop : Option (PErr × Layer) → String
  | none => "none"
  | some (e, ly) => s!"({perr e},{layer ly})"

/-! #### field lists (shared by the slice and the struct renderings) -/

def eth2Fields (g : Mem) (o : Nat) : String :=
  s!"dst={memHex g o 6},src={memHex g (o + 6) 6},et={g16 g (o + 12)}"

def sllProto (g : Mem) (o : Nat) : String :=
  match sllProtoOf (g16 g (o + 2)) (g16 g (o + 14)) with
  | .ok (.ignored v) => s!"Ignored({v})"
  | .ok (.netlink v) => s!"Netlink({v})"
  | .ok (.gre v) => s!"Gre({v})"
  | .ok (.etherType v) => s!"EtherType({v})"
  | .ok (.nonstandard v) => s!"Nonstandard({v})"
  | .error _ => "invalid"

def sllFields (g : Mem) (o : Nat) : String :=
  s!"pt={g16 g o},hw={g16 g (o + 2)},alen={g16 g (o + 4)},addr={memHex g (o + 6) 8},proto={sllProto g o}"

def vlanFields (g : Mem) (o : Nat) : String :=
  s!"pcp={g o / 32},dei={(g o / 16) % 2},vid={(g o % 16) * 256 + g (o + 1)},et={g16 g (o + 2)}"

def macsecFields (g : Mem) (o : Nat) : String :=
  let tci := g o
  let e := (tci / 8) % 2 = 1
  let c := (tci / 4) % 2 = 1
  let sci := macsecSciPresent tci
  let ptype :=
    if e then (if c then "Encrypted" else "EncryptedUnmodified")
    else if c then "Modified"
    else if sci then s!"Unmodified({g16 g (o + 14)})" else s!"Unmodified({g16 g (o + 6)})"
  let sciS := if sci then toString (g32 g (o + 6) * 4294967296 + g32 g (o + 10)) else "none"
  s!"ptype={ptype},es={(tci / 64) % 2},scb={(tci / 16) % 2},an={tci % 4},sl={g (o + 1) % 64},pn={g32 g (o + 2)},sci={sciS}"

def ipv4Fields (g : Mem) (o : Nat) : String :=
  s!"ihl={g o % 16},dscp={g (o + 1) / 4},ecn={g (o + 1) % 4},tl={g16 g (o + 2)},id={g16 g (o + 4)},df={(g (o + 6) / 64) % 2},mf={(g (o + 6) / 32) % 2},fo={(g (o + 6) % 32) * 256 + g (o + 7)},ttl={g (o + 8)},proto={g (o + 9)},ck={g16 g (o + 10)},src={memHex g (o + 12) 4},dst={memHex g (o + 16) 4}"

def ahFields (g : Mem) (o : Nat) : String :=
  s!"nh={g o},spi={g32 g (o + 4)},seq={g32 g (o + 8)}"

def ipv6Fields (g : Mem) (o : Nat) : String :=
  s!"tc={(g o % 16) * 16 + g (o + 1) / 16},fl={(g (o + 1) % 16) * 65536 + g16 g (o + 2)},plen={g16 g (o + 4)},nh={g (o + 6)},hop={g (o + 7)},src={memHex g (o + 8) 16},dst={memHex g (o + 24) 16}"

def fragFields (g : Mem) (o : Nat) : String :=
  s!"nh={g o},fo={(g16 g (o + 2)) / 8},mf={g (o + 3) % 2},id={g32 g (o + 4)}"

def udpFields (g : Mem) (o : Nat) : String :=
  s!"sp={g16 g o},dp={g16 g (o + 2)},len={g16 g (o + 4)},ck={g16 g (o + 6)}"

def tcpFields (g : Mem) (o : Nat) : String :=
  s!"sp={g16 g o},dp={g16 g (o + 2)},seq={g32 g (o + 4)},ack={g32 g (o + 8)},doff={g (o + 12) / 16},flags={(g (o + 12) % 2) * 256 + g (o + 13)},win={g16 g (o + 14)},ck={g16 g (o + 16)},urg={g16 g (o + 18)}"

def icmpFields (g : Mem) (o : Nat) : String :=
  s!"type={g o},code={g (o + 1)},ck={g16 g (o + 2)}"

def arpFields (g : Mem) (o : Nat) : String :=
  s!"hw={g16 g o},proto={g16 g (o + 2)},hlen={g (o + 4)},plen={g (o + 5)},op={g16 g (o + 6)}"

def ipPl (p : IpPl) : String :=
  s!"(num={p.num},frag={b01 p.frag},src={src p.src},w={w p.w},inc={b01 p.inc})"

/-! #### slice family -/

def link (g : Mem) : Option LinkR → String
  | none => "none"
  | some (.eth2 s) => s!"eth2(s={w s},{eth2Fields g s.o},pl={w ⟨s.o + 14, s.l - 14⟩})"
  | some (.sll s) =>
    s!"sll(s={w s},{sllFields g s.o},sa={w ⟨s.o + 6, min (g16 g (s.o + 4)) 8⟩},pl={w ⟨s.o + 16, s.l - 16⟩})"
  | some (.etherPayload et s) => s!"ep(et={et},pl={w s})"

def ext (g : Mem) : ExtR → String
  | .vlan s => s!"vlan(s={w s},{vlanFields g s.o},pl={w ⟨s.o + 4, s.l - 4⟩})"
  | .macsec h pl sr inc =>
    s!"macsec(h={w h},{macsecFields g h.o},pl={w pl},plsrc={src sr},inc={b01 inc})"

def extItem (g : Mem) : ExtKind × Win → String
  | (.hopByHop, s) => s!"HopByHop(s={w s},nh={g s.o})"
  | (.routing, s) => s!"Routing(s={w s},nh={g s.o})"
  | (.destOpts, s) => s!"DestinationOptions(s={w s},nh={g s.o})"
  | (.fragment, s) => s!"Fragment(s={w s},{fragFields g s.o})"
  | (.auth, s) => s!"Authentication(s={w s},{ahFields g s.o},icv={w ⟨s.o + 12, s.l - 12⟩})"

def optNat : Option Nat → String
  | none => "none"
  | some n => toString n

def ipSlice (g : Mem) (r : IpR) : String :=
  if r.v4 then
    let auth := match r.auth with
      | none => "none"
      | some a => s!"ah(s={w a},{ahFields g a.o},icv={w ⟨a.o + 12, a.l - 12⟩})"
    s!"ipv4(h={w r.hdr},{ipv4Fields g r.hdr.o},opts={w ⟨r.hdr.o + 20, r.hdr.l - 20⟩},auth={auth},pl={ipPl r.pl})"
  else
    let it := match extIterAll g ((r.first).getD 17) r.exts.o r.exts.l with
      | .ok xs => "[" ++ joinWith "," (xs.map (extItem g)) ++ "]"
      | .error _ => "fault"
    s!"ipv6(h={w r.hdr},{ipv6Fields g r.hdr.o},exts={w r.exts},first={optNat r.first},iter={it},pl={ipPl r.pl})"

def net (g : Mem) : Option NetR → String
  | none => "none"
  | some (.arp s) =>
    let hl := g (s.o + 4)
    let pl := g (s.o + 5)
    s!"arp(s={w s},{arpFields g s.o},sha={w ⟨s.o + 8, hl⟩},spa={w ⟨s.o + 8 + hl, pl⟩},tha={w ⟨s.o + 8 + hl + pl, hl⟩},tpa={w ⟨s.o + 8 + hl * 2 + pl, pl⟩})"
  | some (.ip r) => ipSlice g r

def tp (g : Mem) : Option TpR → String
  | none => "none"
  | some (.udp s) => s!"udp(s={w s},{udpFields g s.o},pl={w ⟨s.o + 8, s.l - 8⟩})"
  | some (.tcp s hl) =>
    s!"tcp(s={w s},hl={hl},{tcpFields g s.o},opts={w ⟨s.o + 20, hl - 20⟩},pl={w ⟨s.o + hl, s.l - hl⟩})"
  | some (.icmp4 s) =>
    let hl := icmp4HeaderLen g s.o
    s!"icmp4(s={w s},{icmpFields g s.o},b58={memHex g (s.o + 4) 4},hl={hl},pl={w ⟨s.o + hl, s.l - hl⟩})"
  | some (.icmp6 s) =>
    s!"icmp6(s={w s},{icmpFields g s.o},b58={memHex g (s.o + 4) 4},pl={w ⟨s.o + 8, s.l - 8⟩})"

def packet (g : Mem) (p : Packet) : String :=
  s!"ok(link={link g p.link};exts=[{joinWith "," (p.exts.map (ext g))}];net={net g p.net};tp={tp g p.tp};stop={stop p.stop})"

/-! #### struct family -/

def hLink (g : Mem) : Option LinkR → String
  | none => "none"
  | some (.eth2 s) => s!"eth2({eth2Fields g s.o})"
  | some (.sll s) => s!"sll({sllFields g s.o})"
  | some (.etherPayload et _) => s!"ep(et={et})"

def hExt (g : Mem) : ExtR → String
  | .vlan s => s!"vlan({vlanFields g s.o})"
  | .macsec h _ _ _ => s!"macsec({macsecFields g h.o})"

def hRaw (g : Mem) : Option Win → String
  | none => "none"
  | some s => s!"raw(nh={g s.o},pl={memHex g (s.o + 2) (s.l - 2)})"

def hAuth (g : Mem) : Option Win → String
  | none => "none"
  | some a => s!"ah({ahFields g a.o},icv={memHex g (a.o + 12) (a.l - 12)})"

def hIp (g : Mem) (r : IpR) : String :=
  if r.v4 then
    s!"ipv4({ipv4Fields g r.hdr.o},opts={memHex g (r.hdr.o + 20) (r.hdr.l - 20)},auth={hAuth g r.auth})"
  else
    let fr := match r.slots.frag with
      | none => "none"
      | some s => s!"frag({fragFields g s.o})"
    s!"ipv6({ipv6Fields g r.hdr.o},hbh={hRaw g r.slots.hbh},dest={hRaw g r.slots.dest},routing={hRaw g r.slots.routing},fdest={hRaw g r.slots.finalDest},frag={fr},auth={hAuth g r.slots.auth})"

def hNet (g : Mem) : Option NetR → String
  | none => "none"
  | some (.arp s) =>
    let hl := g (s.o + 4)
    let pl := g (s.o + 5)
    s!"arp({arpFields g s.o},sha={memHex g (s.o + 8) hl},spa={memHex g (s.o + 8 + hl) pl},tha={memHex g (s.o + 8 + hl + pl) hl},tpa={memHex g (s.o + 8 + hl * 2 + pl) pl})"
  | some (.ip r) => hIp g r

def hTp (g : Mem) : Option TpR → String
  | none => "none"
  | some (.udp s) => s!"udp({udpFields g s.o})"
  | some (.tcp s hl) => s!"tcp({tcpFields g s.o},opts={memHex g (s.o + 20) (hl - 20)})"
  | some (.icmp4 s) => s!"icmp4({icmpFields g s.o},hl={icmp4HeaderLen g s.o})"
  | some (.icmp6 s) => s!"icmp6({icmpFields g s.o})"

def pay (g : Mem) : Pay → String
  | .empty => "Empty"
  | .ether et sr x inc => s!"Ether(et={et},src={src sr},w={w x},inc={b01 inc})"
  | .macsecMod x inc => s!"MacsecMod(w={w x},inc={b01 inc})"
  | .ip p => s!"Ip{ipPl p}"
  | .udp x inc => s!"Udp(w={w x},inc={b01 inc})"
  | .tcp x inc => s!"Tcp(w={w x},inc={b01 inc})"
  | .icmp4 x inc => s!"Icmpv4(w={w x},inc={b01 inc})"
  | .icmp6 x inc => s!"Icmpv6(w={w x},inc={b01 inc})"
  | .linuxSll x => s!"LinuxSll(proto={sllProto g 0},w={w x})"

def headers (g : Mem) (h : Headers) : String :=
  s!"ok(link={hLink g h.p.link};exts=[{joinWith "," (h.p.exts.map (hExt g))}];net={hNet g h.p.net};tp={hTp g h.p.tp};pay={pay g h.pay};stop={stop h.p.stop})"

end EpModel.Driver.DecRender
