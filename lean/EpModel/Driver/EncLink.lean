import EpModel.Driver.Util
import EpModel.Model.Codec.LinkEth
import EpModel.Model.Codec.LinkArp
import EpModel.Model.Codec.TpUdpTcp
import EpModel.Model.Codec.TpIcmp
import EpModel.Model.Codec.TpIgmp
/- `enc.<type>.*` operations of the link / ARP / transport half of C08.

   enc.<t>.to_bytes <fields…> <tail-hex>
       → ok(b=<hex>,w=same|<hex>|na,s=same|<hex>|err…|na,len=<header_len>,dec=<from_slice(b++tail)>)
         or err(...) when a checked constructor rejects a field value
   enc.<t>.from_slice <hex>
       → ok(<fields>,rest=(off,len),re=<to_bytes of the decoded value>,again=same|<second decode>)
         or err(...)
   enc.<t>.wslice <fields…> <cap>      (eth2, sll: write_to_slice into a buffer of cap bytes)
       → ok(written=<hex>,rest=<len>) / err(space(...))
-/
namespace EpModel.Driver.EncLink
open EpModel EpModel.Driver EpModel.Codec

/-! ### argument parsing -/

def argLt (lim : Nat) (s : String) : Option Nat := do
  let n ← argNat s
  if n < lim then some n else none
def argU8 := argLt 256
def argU16 := argLt 65536
def argU32 := argLt 4294967296
def argU64 := argLt 18446744073709551616
def argBool (s : String) : Option Bool := if s = "1" then some true else if s = "0" then some false else none
def argHexN (n : Nat) (s : String) : Option Bytes := do
  let b ← argHex s
  if b.length = n then some b else none
def argList (s : String) : List String := if s = "-" then [] else s.splitOn ","
def argBits (n : Nat) (s : String) : Option (List Bool) := do
  let cs := s.toList
  if cs.length ≠ n then none
  else cs.mapM (fun c => if c = '1' then some true else if c = '0' then some false else none)

def sb (b : Bool) : String := if b then "1" else "0"
def hx (b : Bytes) : String := hexOfBytes b

/-! ### generic result lines -/

def decStr {α} (shw : α → String) (total : Nat) : Except Err (α × Bytes) → String
  | .error e => e.render
  | .ok (h, rest) => s!"ok({shw h},rest={showWin (total - rest.length) rest.length})"

/-- the `to_bytes` line. `w`: second serialiser (`write`, or the documented alternative path),
    `ws`: `write_to_slice` into a buffer of exactly `header_len` bytes. -/
def encLine {α} (shw : α → String) (toBytes : α → Bytes) (w : Option (α → Bytes))
    (ws : Option (α → Nat → Except Err (Bytes × Nat))) (headerLen : α → Nat)
    (fromSlice : Bytes → Except Err (α × Bytes)) (h : α) (tail : Bytes) : String :=
  let b := toBytes h
  let wS := match w with
    | none => "na"
    | some f => if f h = b then "same" else hx (f h)
  let sS := match ws with
    | none => "na"
    | some f => match f h (headerLen h) with
      | .error e => e.render
      | .ok (wr, restLen) => if wr = b ∧ restLen = 0 then "same" else s!"{hx wr}+{restLen}"
  let all := b ++ tail
  s!"ok(b={hx b},w={wS},s={sS},len={headerLen h},dec={decStr shw all.length (fromSlice all)})"

def fromLine {α} (shw : α → String) (toBytes : α → Bytes)
    (fromSlice : Bytes → Except Err (α × Bytes)) (b : Bytes) : String :=
  match fromSlice b with
  | .error e => e.render
  | .ok (h, rest) =>
    let first := s!"{shw h},rest={showWin (b.length - rest.length) rest.length}"
    let re := toBytes h
    let b2 := re ++ rest
    let again := match fromSlice b2 with
      | .error e => e.render
      | .ok (h2, rest2) =>
        let s2 := s!"{shw h2},rest={showWin (b2.length - rest2.length) rest2.length}"
        if s2 = first then "same" else s!"ok({s2})"
    s!"ok({first},re={hx re},again={again})"

def wsliceLine : Except Err (Bytes × Nat) → String
  | .error e => e.render
  | .ok (wr, restLen) => s!"ok(written={hx wr},rest={restLen})"

/-! ### per type: rendering and value construction -/

def showEth2 (h : Eth2) : String := s!"dst={hx h.dst},src={hx h.src},et={h.et}"
def mkEth2 : List String → Option Eth2
  | [d, s, e] => do pure { dst := ← argHexN 6 d, src := ← argHexN 6 s, et := ← argU16 e }
  | _ => none

def showVlan (h : Vlan) : String := s!"pcp={h.pcp},dei={sb h.dei},vid={h.vid},et={h.et}"
def mkVlan : List String → Option (Except Err Vlan)
  | [p, d, v, e] => do pure (Vlan.mk? (← argU8 p) (← argBool d) (← argU16 v) (← argU16 e))
  | _ => none

def showSllProto : SllProto → String
  | .ignored v => s!"ign({v})"
  | .netlink v => s!"netlink({v})"
  | .gre v => s!"gre({v})"
  | .etherType v => s!"et({v})"
  | .nonstd v => s!"nonstd({v})"
def showSll (h : Sll) : String :=
  s!"pt={h.ptype},hrd={h.hrd},alen={h.alen},addr={hx h.addr},proto={showSllProto h.proto}"
def mkSll : List String → Option (Except Err Sll)
  | [pt, hrd, alen, addr, tag, v] => do
    let pt ← argU16 pt; let hrd ← argU16 hrd; let alen ← argU16 alen
    let addr ← argHexN 8 addr; let v ← argU16 v
    let proto : Except Err SllProto ← match tag with
      | "ign" => some (.ok (.ignored v))
      | "netlink" => some (.ok (.netlink v))
      | "gre" => some (.ok (.gre v))
      | "et" => some (.ok (.etherType v))
      | "nonstd" => some (if isNonstdEtherType v then .ok (.nonstd v) else .error (.other "nonstd"))
      | _ => none
    pure (do
      let pt ← Sll.ptypeTryFrom pt
      let proto ← proto
      pure { ptype := pt, hrd := hrd, alen := alen, addr := addr, proto := proto })
  | _ => none

def showMacsec (h : Macsec) : String :=
  let p := match h.ptype with
    | .unmodified et => s!"unmod({et})" | .modified => "mod" | .encrypted => "enc"
    | .encryptedUnmodified => "encunmod"
  let sci := match h.sci with | none => "none" | some s => s!"some({s})"
  s!"ptype={p},es={sb h.es},scb={sb h.scb},an={h.an},sl={h.sl},pn={h.pn},sci={sci}"
def mkMacsec : List String → Option (Except Err Macsec)
  | [p, et, es, scb, an, sl, pn, sci] => do
    let et ← argU16 et
    let p ← match p with
      | "unmod" => some (MacsecPType.unmodified et) | "mod" => some .modified
      | "enc" => some .encrypted | "encunmod" => some .encryptedUnmodified | _ => none
    let sci ← if sci = "none" then some none else (argU64 sci).map some
    pure (Macsec.mk? p (← argBool es) (← argBool scb) (← argU8 an) (← argU8 sl) (← argU32 pn) sci)
  | _ => none

def showArp (h : Arp) : String :=
  s!"hw={h.hw},proto={h.proto},op={h.op},hs={h.hwSize},ps={h.protoSize},shw={hx (h.shw.take h.hwSize)},sp={hx (h.sp.take h.protoSize)},thw={hx (h.thw.take h.hwSize)},tp={hx (h.tp.take h.protoSize)}"
def mkArp : List String → Option (Except Err Arp)
  | [hw, pr, op, a, b, c, d] => do
    pure (Arp.new (← argU16 hw) (← argU16 pr) (← argU16 op) (← argHex a) (← argHex b) (← argHex c) (← argHex d))
  | _ => none

def showArpEth (h : ArpEth) : String :=
  s!"op={h.op},smac={hx h.smac},sip={hx h.sip},tmac={hx h.tmac},tip={hx h.tip}"
def mkArpEth : List String → Option ArpEth
  | [op, a, b, c, d] => do
    pure { op := ← argU16 op, smac := ← argHexN 6 a, sip := ← argHexN 4 b, tmac := ← argHexN 6 c, tip := ← argHexN 4 d }
  | _ => none

def showUdp (h : Udp) : String := s!"sp={h.sp},dp={h.dp},len={h.len},ck={h.ck}"
def mkUdp : List String → Option Udp
  | [a, b, c, d] => do pure { sp := ← argU16 a, dp := ← argU16 b, len := ← argU16 c, ck := ← argU16 d }
  | _ => none

def showTcp (h : Tcp) : String :=
  let fl := String.join ([h.ns, h.fin, h.syn, h.rst, h.psh, h.ackf, h.urg, h.ece, h.cwr].map sb)
  s!"sp={h.sp},dp={h.dp},seq={h.seq},ack={h.ack},fl={fl},win={h.win},ck={h.ck},urg={h.urgp},doff={h.opts.dataOffset % 256},opts={hx h.opts.asSlice}"
def mkTcp : List String → Option (Except Err Tcp)
  | [sp, dp, seq, ack, fl, win, ck, urg, opts] => do
    let sp ← argU16 sp; let dp ← argU16 dp; let seq ← argU32 seq; let ack ← argU32 ack
    let win ← argU16 win; let ck ← argU16 ck; let urg ← argU16 urg; let opts ← argHex opts
    match ← argBits 9 fl with
    | [ns, fin, syn, rst, psh, ackf, urgf, ece, cwr] =>
      pure (do
        let o ← TcpOpts.tryFromSlice opts
        pure { sp := sp, dp := dp, seq := seq, ack := ack, ns := ns, fin := fin, syn := syn, rst := rst,
               psh := psh, ackf := ackf, urg := urgf, ece := ece, cwr := cwr, win := win, ck := ck,
               urgp := urg, opts := o })
    | _ => none
  | _ => none

def showIcmp4 (h : Icmp4) : String :=
  let t := match h.ty with
    | .unknown t c b => s!"unknown({t},{c},{hx b})"
    | .echoReply i s => s!"echoreply({i},{s})"
    | .destUnreach c m => s!"du({c},{m})"
    | .redirect c g => s!"redirect({c},{hx g})"
    | .echoRequest i s => s!"echoreq({i},{s})"
    | .timeExceeded c => s!"te({c})"
    | .paramProblem c p => s!"pp({c},{p})"
    | .tsRequest i s o r t => s!"tsreq({i},{s},{o},{r},{t})"
    | .tsReply i s o r t => s!"tsreply({i},{s},{o},{r},{t})"
  s!"ty={t},ck={h.ck}"
/-- value construction through the crate's constructors: `DestUnreachableHeader::from_values`,
    `RedirectCode::from_u8`, `TimeExceededCode::from_u8`, `ParameterProblemHeader::from_values`
    return `None` for an unknown code (printed `err(code)`); `from_values` drops the unused field. -/
def mkIcmp4 : List String → Option (Except Err Icmp4)
  | [ck, v, args] => do
    let ck ← argU16 ck
    let ty : Except Err Icmp4Type ← match v, argList args with
      | "unknown", [t, c, b] => do pure (.ok (.unknown (← argU8 t) (← argU8 c) (← argHexN 4 b)))
      | "echoreply", [i, s] => do pure (.ok (.echoReply (← argU16 i) (← argU16 s)))
      | "echoreq", [i, s] => do pure (.ok (.echoRequest (← argU16 i) (← argU16 s)))
      | "du", [c, m] => do
        let c ← argU8 c; let m ← argU16 m
        pure (if c ≤ 15 then .ok (.destUnreach c (if c = 4 then m else 0)) else .error (.other "code"))
      | "redirect", [c, g] => do
        let c ← argU8 c; let g ← argHexN 4 g
        pure (if c ≤ 3 then .ok (.redirect c g) else .error (.other "code"))
      | "te", [c] => do
        let c ← argU8 c
        pure (if c ≤ 1 then .ok (.timeExceeded c) else .error (.other "code"))
      | "pp", [c, p] => do
        let c ← argU8 c; let p ← argU8 p
        pure (if c ≤ 2 then .ok (.paramProblem c (if c = 0 then p else 0)) else .error (.other "code"))
      | "tsreq", [i, s, o, r, t] => do
        pure (.ok (.tsRequest (← argU16 i) (← argU16 s) (← argU32 o) (← argU32 r) (← argU32 t)))
      | "tsreply", [i, s, o, r, t] => do
        pure (.ok (.tsReply (← argU16 i) (← argU16 s) (← argU32 o) (← argU32 r) (← argU32 t)))
      | _, _ => none
    pure (ty.map fun t => { ty := t, ck := ck })
  | _ => none

def showIcmp6 (h : Icmp6) : String :=
  let t := match h.ty with
    | .unknown t c b => s!"unknown({t},{c},{hx b})"
    | .destUnreach c => s!"du({c})"
    | .packetTooBig m => s!"ptb({m})"
    | .timeExceeded c => s!"te({c})"
    | .paramProblem c p => s!"pp({c},{p})"
    | .echoRequest i s => s!"echoreq({i},{s})"
    | .echoReply i s => s!"echoreply({i},{s})"
    | .routerSolicitation => "rs"
    | .routerAdvertisement c m o l => s!"ra({c},{sb m},{sb o},{l})"
    | .neighborSolicitation => "ns"
    | .neighborAdvertisement r s o => s!"na({sb r},{sb s},{sb o})"
    | .redirect => "redirect"
  s!"ty={t},ck={h.ck}"
def mkIcmp6 : List String → Option (Except Err Icmp6)
  | [ck, v, args] => do
    let ck ← argU16 ck
    let ty : Except Err Icmp6Type ← match v, argList args with
      | "unknown", [t, c, b] => do pure (.ok (.unknown (← argU8 t) (← argU8 c) (← argHexN 4 b)))
      | "du", [c] => do
        let c ← argU8 c
        pure (if c ≤ 6 then .ok (.destUnreach c) else .error (.other "code"))
      | "ptb", [m] => do pure (.ok (.packetTooBig (← argU32 m)))
      | "te", [c] => do
        let c ← argU8 c
        pure (if c ≤ 1 then .ok (.timeExceeded c) else .error (.other "code"))
      | "pp", [c, p] => do
        let c ← argU8 c; let p ← argU32 p
        pure (if c ≤ 10 then .ok (.paramProblem c p) else .error (.other "code"))
      | "echoreq", [i, s] => do pure (.ok (.echoRequest (← argU16 i) (← argU16 s)))
      | "echoreply", [i, s] => do pure (.ok (.echoReply (← argU16 i) (← argU16 s)))
      | "rs", [] => some (.ok .routerSolicitation)
      | "ra", [c, m, o, l] => do
        pure (.ok (.routerAdvertisement (← argU8 c) (← argBool m) (← argBool o) (← argU16 l)))
      | "ns", [] => some (.ok .neighborSolicitation)
      | "na", [r, s, o] => do pure (.ok (.neighborAdvertisement (← argBool r) (← argBool s) (← argBool o)))
      | "redirect", [] => some (.ok .redirect)
      | _, _ => none
    pure (ty.map fun t => { ty := t, ck := ck })
  | _ => none

def showIgmp (h : Igmp) : String :=
  let t := match h.ty with
    | .membershipQuery m g => s!"query({m},{hx g})"
    | .membershipQueryWithSources m g r q n => s!"querysrc({m},{hx g},{r},{q},{n})"
    | .membershipReportV1 g => s!"reportv1({hx g})"
    | .membershipReportV2 g => s!"reportv2({hx g})"
    | .membershipReportV3 f n => s!"reportv3({hx f},{n})"
    | .leaveGroup g => s!"leave({hx g})"
    | .unknown t r raw => s!"unknown({t},{r},{hx raw})"
  s!"ty={t},ck={h.ck}"
def mkIgmp : List String → Option Igmp
  | [ck, v, args] => do
    let ck ← argU16 ck
    let ty : IgmpType ← match v, argList args with
      | "query", [m, g] => do pure (.membershipQuery (← argU8 m) (← argHexN 4 g))
      | "querysrc", [m, g, r, q, n] => do
        pure (.membershipQueryWithSources (← argU8 m) (← argHexN 4 g) (← argU8 r) (← argU8 q) (← argU16 n))
      | "reportv1", [g] => do pure (.membershipReportV1 (← argHexN 4 g))
      | "reportv2", [g] => do pure (.membershipReportV2 (← argHexN 4 g))
      | "reportv3", [f, n] => do pure (.membershipReportV3 (← argHexN 2 f) (← argU16 n))
      | "leave", [g] => do pure (.leaveGroup (← argHexN 4 g))
      | "unknown", [t, r, raw] => do pure (.unknown (← argU8 t) (← argU8 r) (← argHexN 4 raw))
      | _, _ => none
    pure { ty := ty, ck := ck }
  | _ => none

def showIgmpRec (h : IgmpRec) : String :=
  s!"rt={h.recordType},aux={h.auxDataLen},n={h.numSources},addr={hx h.addr}"
def mkIgmpRec : List String → Option IgmpRec
  | [a, b, c, d] => do
    pure { recordType := ← argU8 a, auxDataLen := ← argU8 b, numSources := ← argU16 c, addr := ← argHexN 4 d }
  | _ => none

/-! ### dispatch -/

/-- split the last argument off. -/
def splitLast (args : List String) : Option (List String × String) :=
  match args.reverse with
  | [] => none
  | l :: r => some (r.reverse, l)

def withValue {α} (v : Option (Except Err α)) (k : α → String) : Option String :=
  v.map fun r => match r with
    | .error e => e.render
    | .ok h => k h

def run (op : String) (args : List String) : Option String :=
  match op with
  | "enc.eth2.to_bytes" => do
    let (f, t) ← splitLast args; let t ← argHex t; let h ← mkEth2 f
    pure (encLine showEth2 Eth2.toBytes (some Eth2.writeOut) (some Eth2.writeToSlice) Eth2.headerLen Eth2.fromSlice h t)
  | "enc.eth2.from_slice" => do
    match args with | [b] => pure (fromLine showEth2 Eth2.toBytes Eth2.fromSlice (← argHex b)) | _ => none
  | "enc.eth2.wslice" => do
    let (f, c) ← splitLast args; let c ← argNat c; let h ← mkEth2 f
    pure (wsliceLine (Eth2.writeToSlice h c))
  | "enc.vlan.to_bytes" => do
    let (f, t) ← splitLast args; let t ← argHex t
    withValue (mkVlan f) fun h => encLine showVlan Vlan.toBytes (some Vlan.writeOut) none Vlan.headerLen Vlan.fromSlice h t
  | "enc.vlan.from_slice" => do
    match args with | [b] => pure (fromLine showVlan Vlan.toBytes Vlan.fromSlice (← argHex b)) | _ => none
  | "enc.sll.to_bytes" => do
    let (f, t) ← splitLast args; let t ← argHex t
    withValue (mkSll f) fun h => encLine showSll Sll.toBytes (some Sll.writeOut) (some Sll.writeToSlice) Sll.headerLen Sll.fromSlice h t
  | "enc.sll.from_slice" => do
    match args with | [b] => pure (fromLine showSll Sll.toBytes Sll.fromSlice (← argHex b)) | _ => none
  | "enc.sll.wslice" => do
    let (f, c) ← splitLast args; let c ← argNat c
    withValue (mkSll f) fun h => wsliceLine (Sll.writeToSlice h c)
  | "enc.macsec.to_bytes" => do
    let (f, t) ← splitLast args; let t ← argHex t
    withValue (mkMacsec f) fun h => encLine showMacsec Macsec.toBytes (some Macsec.writeOut) none Macsec.headerLen Macsec.fromSlice h t
  | "enc.macsec.from_slice" => do
    match args with | [b] => pure (fromLine showMacsec Macsec.toBytes Macsec.fromSlice (← argHex b)) | _ => none
  | "enc.arp.to_bytes" => do
    let (f, t) ← splitLast args; let t ← argHex t
    withValue (mkArp f) fun h => encLine showArp Arp.toBytes (some Arp.writeOut) none Arp.headerLen Arp.fromSlice h t
  | "enc.arp.from_slice" => do
    match args with | [b] => pure (fromLine showArp Arp.toBytes Arp.fromSlice (← argHex b)) | _ => none
  | "enc.arpeth.to_bytes" => do
    let (f, t) ← splitLast args; let t ← argHex t; let h ← mkArpEth f
    pure (encLine showArpEth ArpEth.toBytes (some ArpEth.writeOut) none ArpEth.headerLen ArpEth.fromSlice h t)
  | "enc.arpeth.from_slice" => do
    match args with | [b] => pure (fromLine showArpEth ArpEth.toBytes ArpEth.fromSlice (← argHex b)) | _ => none
  | "enc.udp.to_bytes" => do
    let (f, t) ← splitLast args; let t ← argHex t; let h ← mkUdp f
    pure (encLine showUdp Udp.toBytes (some Udp.writeOut) none Udp.headerLen Udp.fromSlice h t)
  | "enc.udp.from_slice" => do
    match args with | [b] => pure (fromLine showUdp Udp.toBytes Udp.fromSlice (← argHex b)) | _ => none
  | "enc.tcp.to_bytes" => do
    let (f, t) ← splitLast args; let t ← argHex t
    withValue (mkTcp f) fun h => encLine showTcp Tcp.toBytes (some Tcp.writeOut) none Tcp.headerLen Tcp.fromSlice h t
  | "enc.tcp.from_slice" => do
    match args with | [b] => pure (fromLine showTcp Tcp.toBytes Tcp.fromSlice (← argHex b)) | _ => none
  | "enc.icmpv4.to_bytes" => do
    let (f, t) ← splitLast args; let t ← argHex t
    withValue (mkIcmp4 f) fun h => encLine showIcmp4 Icmp4.toBytes (some Icmp4.writeOut) none Icmp4.headerLen Icmp4.fromSlice h t
  | "enc.icmpv4.from_slice" => do
    match args with | [b] => pure (fromLine showIcmp4 Icmp4.toBytes Icmp4.fromSlice (← argHex b)) | _ => none
  | "enc.icmpv6.to_bytes" => do
    let (f, t) ← splitLast args; let t ← argHex t
    withValue (mkIcmp6 f) fun h => encLine showIcmp6 Icmp6.toBytes (some Icmp6.writeOut) none Icmp6.headerLen Icmp6.fromSlice h t
  | "enc.icmpv6.from_slice" => do
    match args with | [b] => pure (fromLine showIcmp6 Icmp6.toBytes Icmp6.fromSlice (← argHex b)) | _ => none
  | "enc.igmp.to_bytes" => do
    let (f, t) ← splitLast args; let t ← argHex t; let h ← mkIgmp f
    pure (encLine showIgmp Igmp.toBytes none none Igmp.headerLen Igmp.fromSlice h t)
  | "enc.igmp.from_slice" => do
    match args with | [b] => pure (fromLine showIgmp Igmp.toBytes Igmp.fromSlice (← argHex b)) | _ => none
  | "enc.igmprec.to_bytes" => do
    let (f, t) ← splitLast args; let t ← argHex t; let h ← mkIgmpRec f
    pure (encLine showIgmpRec IgmpRec.toBytes none none IgmpRec.headerLen IgmpRec.fromSlice h t)
  | "enc.igmprec.from_slice" => do
    match args with | [b] => pure (fromLine showIgmpRec IgmpRec.toBytes IgmpRec.fromSlice (← argHex b)) | _ => none
  | _ => none

end EpModel.Driver.EncLink
