import EpModel.Driver.Util
/- part of the `enc.*` family (stub; filled in by the owner). -/
namespace EpModel.Driver.EncLink
open EpModel EpModel.Driver

def run (op : String) (args : List String) : Option String :=
  match op, args with
  | _, _ => none

end EpModel.Driver.EncLink
