import EpModel.Driver.Util
import EpModel.Model.Checksum
import EpModel.Model.ChecksumFast
import EpModel.Model.ChecksumWire
import EpModel.Model.ChecksumIgmp
import EpModel.Spec.Rfc1071
/- `ck.*` operations: checksum helpers. -/
namespace EpModel.Driver.Ck
open EpModel EpModel.Driver EpModel.Checksum

def run (op : String) (args : List String) : Option String :=
  match op, args with
  | "ck.slice64", [s, h] => do
      let s ← argNat s; let b ← argHex h
      pure (toString (addSlice64 s b))
  | "ck.slice32", [s, h] => do
      let s ← argNat s; let b ← argHex h
      pure (toString (addSlice32 s b))
  | "ck.add8_64", [s, h] => do
      let s ← argNat s; let b ← argHex h
      if b.length = 8 then pure (toString (add8_64 s b)) else none
  | "ck.add4_64", [s, h] => do
      let s ← argNat s; let b ← argHex h
      if b.length = 4 then pure (toString (add4_64 s b)) else none
  | "ck.add2_64", [s, h] => do
      let s ← argNat s; let b ← argHex h
      if b.length = 2 then pure (toString (add2_64 s b)) else none
  | "ck.add4_32", [s, h] => do
      let s ← argNat s; let b ← argHex h
      if b.length = 4 then pure (toString (add4_32 s b)) else none
  | "ck.add2_32", [s, h] => do
      let s ← argNat s; let b ← argHex h
      if b.length = 2 then pure (toString (add2_32 s b)) else none
  | "ck.oc64", [s] => do let s ← argNat s; pure (toString (onesComplement64 s))
  | "ck.oc32", [s] => do let s ← argNat s; pure (toString (onesComplement32 s))
  | "ck.ocnz64", [s] => do let s ← argNat s; pure (toString (onesComplementNoZero64 s))
  | "ck.ocnz32", [s] => do let s ← argNat s; pure (toString (onesComplementNoZero32 s))
  | "ck.sum16", parts => do
      -- Sum16BitWords::new().add_slice(p1).add_slice(p2)… .ones_complement().to_be()
      let bs ← parts.mapM argHex
      let s := bs.foldl addSlice64 0
      pure s!"{swap16 (onesComplement64 s)} {swap16 (onesComplementNoZero64 s)}"
  | "ck.s16", parts => do
      -- Sum16BitWords::new() followed by the method that takes an argument of each part's size
      let bs ← parts.mapM argHex
      let s := bs.foldl s16Method 0
      pure s!"{swap16 (onesComplement64 s)} {swap16 (onesComplementNoZero64 s)}"
  | "ck.w.ipv4", [h] => do
      let b ← argHex h
      let ihl := bAt b 0 % 16
      if b.length < 20 ∨ bAt b 0 / 16 ≠ 4 ∨ ihl < 5 ∨ b.length < ihl * 4 then pure "err"
      else pure s!"ok({wireIpv4 (b.take (ihl * 4))})"
  | "ck.w.udp4", [src, dst, h, pl] => do
      let src ← argHex src; let dst ← argHex dst; let h ← argHex h; let pl ← argHex pl
      if src.length ≠ 4 ∨ dst.length ≠ 4 ∨ h.length ≠ 8 then none
      else if pl.length > 65535 - 8 then pure "err"
      else pure s!"ok({wireUdp4 src dst h pl})"
  | "ck.w.udp6", [src, dst, h, pl] => do
      let src ← argHex src; let dst ← argHex dst; let h ← argHex h; let pl ← argHex pl
      if src.length ≠ 16 ∨ dst.length ≠ 16 ∨ h.length ≠ 8 then none
      else pure s!"ok({wireUdp6 src dst h pl})"
  | "ck.w.tcp4", [src, dst, h, pl] => do
      let src ← argHex src; let dst ← argHex dst; let h ← argHex h; let pl ← argHex pl
      if src.length ≠ 4 ∨ dst.length ≠ 4 ∨ h.length < 20 ∨ h.length ≠ (bAt h 12 / 16) * 4 then none
      else if pl.length > 65535 - h.length then pure "err"
      else pure s!"ok({wireTcp4 src dst h pl})"
  | "ck.w.tcp6", [src, dst, h, pl] => do
      let src ← argHex src; let dst ← argHex dst; let h ← argHex h; let pl ← argHex pl
      if src.length ≠ 16 ∨ dst.length ≠ 16 ∨ h.length < 20 ∨ h.length ≠ (bAt h 12 / 16) * 4 then none
      else pure s!"ok({wireTcp6 src dst h pl})"
  | "ck.w.icmp4", [m] => do
      let m ← argHex m
      if m.length < 8 then none else pure s!"ok({wireIcmp4 m})"
  | "ck.w.icmp4", [m, extra] => do
      let m ← argHex m; let extra ← argHex extra
      if m.length < 8 then none else pure s!"ok({wireIcmp4 (m ++ extra)})"
  | "ck.w.icmp6", [src, dst, m] => do
      let src ← argHex src; let dst ← argHex dst; let m ← argHex m
      if src.length ≠ 16 ∨ dst.length ≠ 16 ∨ m.length < 8 then none
      else pure s!"ok({wireIcmp6 src dst m}) valid={validIcmp6 src dst m}"
  | "ck.w.igmp", [m] => do
      -- the model of the crate's own chain of add_* calls (= `wireIgmp m` by Props/C09Wire.lean `igmp_chain_is_wire`;
      -- the python oracle computes the RFC value independently)
      let m ← argHex m
      match Codec.Igmp.fromSlice m with
      | .ok (h, rest) => pure s!"ok({igmpChecksum h.ty rest})"
      | .error _ => none
  | "spec.ck.rfc", [h] => do
      let b ← argHex h
      pure (toString (Spec.checksum b))
  | _, _ => none

end EpModel.Driver.Ck
