import EpModel.Driver.Util
import EpModel.Model.Checksum
import EpModel.Spec.Rfc1071
/- `ck.*` operations: checksum helpers. -/
namespace EpModel.Driver.Ck
open EpModel EpModel.Driver EpModel.Checksum

def run (op : String) (args : List String) : Option String :=
  match op, args with
  | "ck.slice64", [s, h] => do
      let s ← argNat s; let b ← argHex h
      pure (toString (addSlice64 s b))
  | "ck.slice32", [s, h] => do
      let s ← argNat s; let b ← argHex h
      pure (toString (addSlice32 s b))
  | "ck.add8_64", [s, h] => do
      let s ← argNat s; let b ← argHex h
      if b.length = 8 then pure (toString (add8_64 s b)) else none
  | "ck.add4_64", [s, h] => do
      let s ← argNat s; let b ← argHex h
      if b.length = 4 then pure (toString (add4_64 s b)) else none
  | "ck.add2_64", [s, h] => do
      let s ← argNat s; let b ← argHex h
      if b.length = 2 then pure (toString (add2_64 s b)) else none
  | "ck.add4_32", [s, h] => do
      let s ← argNat s; let b ← argHex h
      if b.length = 4 then pure (toString (add4_32 s b)) else none
  | "ck.add2_32", [s, h] => do
      let s ← argNat s; let b ← argHex h
      if b.length = 2 then pure (toString (add2_32 s b)) else none
  | "ck.oc64", [s] => do let s ← argNat s; pure (toString (onesComplement64 s))
  | "ck.oc32", [s] => do let s ← argNat s; pure (toString (onesComplement32 s))
  | "ck.ocnz64", [s] => do let s ← argNat s; pure (toString (onesComplementNoZero64 s))
  | "ck.ocnz32", [s] => do let s ← argNat s; pure (toString (onesComplementNoZero32 s))
  | "ck.sum16", parts => do
      -- Sum16BitWords::new().add_slice(p1).add_slice(p2)… .ones_complement().to_be()
      let bs ← parts.mapM argHex
      let s := bs.foldl addSlice64 0
      pure s!"{swap16 (onesComplement64 s)} {swap16 (onesComplementNoZero64 s)}"
  | "spec.ck.rfc", [h] => do
      let b ← argHex h
      pure (toString (Spec.checksum b))
  | _, _ => none

end EpModel.Driver.Ck
