import EpModel.Driver.Util
import EpModel.Model.TcpOptions
/- `opt.*` operations: TCP options (see harness/src/opt.rs for the grammar and the line formats). -/
namespace EpModel.Driver.Opt
open EpModel EpModel.Driver EpModel.TcpOptions

def natBelow (lim : Nat) (s : String) : Option Nat := do
  let n ← s.toNat?
  if n < lim then some n else none

def parsePair (s : String) : Option Pair :=
  match s.splitOn "-" with
  | [a, b] => do
      let a ← natBelow 4294967296 a
      let b ← natBelow 4294967296 b
      pure (a, b)
  | _ => none

def parseSlot (s : String) : Option (Option Pair) :=
  if s == "_" then some none else (parsePair s).map some

def parseElem (s : String) : Option Elem :=
  if s == "nop" then some .noop
  else if s == "sackp" then some .sackPerm
  else
    match s.splitOn ":" with
    | ["mss", v] => (natBelow 65536 v).map .mss
    | ["ws", v] => (natBelow 256 v).map .ws
    | ["ts", a, b] => do
        let a ← natBelow 4294967296 a
        let b ← natBelow 4294967296 b
        pure (.ts a b)
    | ["sack", v] =>
        match v.splitOn ";" with
        | [f, s0, s1, s2] => do
            let f ← parsePair f
            let s0 ← parseSlot s0
            let s1 ← parseSlot s1
            let s2 ← parseSlot s2
            pure (.sack f s0 s1 s2)
        | _ => none
    | _ => none

def parseElems (s : String) : Option (List Elem) :=
  if s == "-" then some [] else (s.splitOn ",").mapM parseElem

def showSlot : Option Pair → String
  | none => "_"
  | some (a, b) => s!"{a}-{b}"

def showElem : Elem → String
  | .noop => "nop"
  | .mss v => s!"mss:{v}"
  | .ws v => s!"ws:{v}"
  | .sackPerm => "sackp"
  | .sack (a, b) r0 r1 r2 => s!"sack:{a}-{b};{showSlot r0};{showSlot r1};{showSlot r2}"
  | .ts a b => s!"ts:{a}:{b}"

def showErr : ReadErr → String
  | .eos id exp act => s!"err(eos(id={id},exp={exp},act={act}))"
  | .size id sz => s!"err(size(id={id},size={sz}))"
  | .unknown id => s!"err(unknown(id={id}))"

def showItem : Item → String
  | .ok e => showElem e
  | .error e => showErr e

/-- window of an iterator state relative to the iterated slice of length `total`: every state is
    a suffix, the exhausted state is `&options[len..len]`. -/
def stateWin (total : Nat) (s : Bytes) : String := showWin (total - s.length) s.length

/-- the harness' `drive`: items until the first `None` (model: `run`), then two more calls. -/
def drive (b : Bytes) : String :=
  let total := b.length
  let r := run b
  let items := r.1.map (fun (i, s) => s!"{showItem i}@{stateWin total s}")
  let st0 := r.2
  let c1 := next st0
  let c2 := next c1.2
  let showAfter (c : Option Item × Bytes) : String :=
    match c.1 with
    | none => "none"
    | some i => s!"!revived({showItem i})@{stateWin total c.2}"
  s!"items=[{joinWith "," items}],stop={stateWin total st0},after=[{showAfter c1},{showAfter c2}]"

def showEnc : EncRes → String
  | .ok o => s!"ok({hexOfBytes o},len={o.length},doff={dataOffset o.length})"
  | .err (.notEnoughSpace n) => s!"err(space={n})"
  | .panic => "panic"

/-- `show_header`: the header stores the options unchanged; `to_bytes` + the two slice types give
    the same option area back (TCP header codec itself is the subject of C08, not modelled here). -/
def showHeader : EncRes → String
  | .ok o =>
    let h := hexOfBytes o
    let d := drive o
    s!"ok(opts={h},doff={dataOffset o.length},hlen={20 + o.length},wire={h},it=({d}),sl=(opts={h},{d}),ts=(opts={h},{d}))"
  | .err (.notEnoughSpace n) => s!"err(space={n})"
  | .panic => "panic"

def oks : List (Item × Bytes) → List Elem
  | [] => []
  | (.ok e, _) :: t => e :: oks t
  | (.error _, _) :: t => oks t

def run (op : String) (args : List String) : Option String :=
  match op, args with
  | "opt.encode", [e] => do
      let es ← parseElems e
      pure (showEnc (encode es))
  | "opt.raw", [h] => do
      let b ← argHex h
      pure (showEnc (fromSlice b))
  | "opt.iter", [h] => do
      let b ← argHex h
      pure (drive b)
  | "opt.reenc", [h] => do
      let b ← argHex h
      let es := oks (TcpOptions.run b).1
      pure s!"n={es.length},{showEnc (encode es)}"
  | "opt.hdr_elems", [e] => do
      let es ← parseElems e
      pure (showHeader (encode es))
  | "opt.hdr_raw", [h] => do
      let b ← argHex h
      pure (showHeader (fromSlice b))
  | _, _ => none

end EpModel.Driver.Opt
