import EpModel.Driver.Util
/- `opt.*` and `spec.opt.*` operations (stub; filled in by the owner of this family). -/
namespace EpModel.Driver.Opt
open EpModel EpModel.Driver

def run (op : String) (args : List String) : Option String :=
  match op, args with
  | _, _ => none

end EpModel.Driver.Opt
