import EpModel.Driver.Util
import EpModel.Model.Defrag
import EpModel.Spec.Reassembly
/- `frag.*` and `spec.frag.*` operations.

   frag.buf   <proto> <stale-hex> <adds>        IpDefragBuf::new(proto, stale vec, []) then add, add, …
              adds    = `-` | add(;add)*        add = <fo>:<mf>:<hex>
              → per add `ok` / `err(…)`, `;`-joined, then `|proto=…,len=…,sections=[(s,e):hex,…],end=…,complete=…`
   frag.pool  <history>                         IpDefragPool<u64,u32> session
              history = item(;item)*
              item    = d:<key>:<ts>:<fo>:<mf>:<hex>   IPv4 packet / IPv6 packet with fragment header
                      | u:<key>:<ts>:<hex>             IPv4 packet without fragmentation / IPv6 packet without fragment header
                      | n                              ARP frame
                      | r                              return_buf(oldest outstanding result)
                      | t:<minTs>                      retain(|t| t >= minTs)
              key     = <4|6>,<src hex>,<dst hex>,<identification>,<protocol>,<vlans>,<channel>   vlans = `-` | id(+id){0,2}
              → per item `none` / `ok(proto,LenSource,hex)` / `err(…)` / `ret(n)` / `retained(active)`, `;`-joined,
                then `|active=…,fdata=…,fsec=…` (numbers of entries; which recycled vector is
                popped after a `retain` depends on the hash order, so their lengths are not printed)
   spec.frag.pool <history>                     the same history through Spec.Reasm (per item outputs only) -/
namespace EpModel.Driver.Frag
open EpModel EpModel.Driver EpModel.Defrag

def hexOfCells (cs : List Cell) : String :=
  if cs.isEmpty then "-" else
  String.ofList (cs.foldr (fun c acc =>
    match c with
    | some x => hexDigit (x.toNat / 16) :: hexDigit (x.toNat % 16) :: acc
    | none => '?' :: '?' :: acc) [])

def showErr : Err → String
  | .unalignedFragmentPayloadLen o l => s!"err(UnalignedFragmentPayloadLen(offset={o},payload_len={l}))"
  | .segmentTooBig o l m => s!"err(SegmentTooBig(offset={o},payload_len={l},max={m}))"
  | .conflictingEnd p c => s!"err(ConflictingEnd(previous_end={p},conflicting_end={c}))"
  | .allocationFailure l => s!"err(AllocationFailure(len={l}))"

def argBool (s : String) : Option Bool :=
  if s = "1" then some true else if s = "0" then some false else none

def showOptNat : Option Nat → String
  | none => "none"
  | some n => s!"some({n})"

/-! #### frag.buf -/

def parseAdd (s : String) : Option (Nat × Bool × Bytes) :=
  match s.splitOn ":" with
  | [fo, mf, h] => do
    let fo ← argNat fo; let mf ← argBool mf; let b ← argHex h
    if fo ≤ 8191 then pure (fo, mf, b) else none
  | _ => none

def runAdds (b : Buf) : List (Nat × Bool × Bytes) → Buf × List String
  | [] => (b, [])
  | (fo, mf, p) :: rest =>
    match b.add fo mf p with
    | .ok b' => let r := runAdds b' rest; (r.1, "ok" :: r.2)
    | .error e => let r := runAdds b rest; (r.1, showErr e :: r.2)

def showSection (data : List Cell) (r : Range) : String :=
  s!"({r.start},{r.stop}):{hexOfCells ((data.drop r.start).take (r.stop - r.start))}"

def showBuf (b : Buf) : String :=
  s!"proto={b.ipNumber},len={b.data.length},sections=[{joinWith "," (b.sections.map (showSection b.data))}],end={showOptNat b.endKnown},complete={b.isComplete}"

/-! #### frag.pool -/

def extHeaderNumbers : List Nat := [0, 43, 44, 51, 60, 135, 139, 140]
def transportNumbers : List Nat := [1, 2, 6, 17, 58]

def parseVlans (s : String) : Option (List Nat) :=
  if s = "-" then some [] else do
    let ids ← (s.splitOn "+").mapM argNat
    if ids.length ≤ 3 ∧ ids.all (· < 4096) then pure ids else none

def parseKey (s : String) : Option Key :=
  match s.splitOn "," with
  | [ver, src, dst, ident, proto, vlans, chan] => do
    let ver ← argNat ver; let src ← argHex src; let dst ← argHex dst; let ident ← argNat ident
    let proto ← argNat proto; let vlans ← parseVlans vlans; let chan ← argNat chan
    let alen := if ver = 4 then 4 else 16
    let idmax := if ver = 4 then 65536 else 4294967296
    if (ver = 4 ∨ ver = 6) ∧ src.length = alen ∧ dst.length = alen ∧ ident < idmax ∧ proto < 256
        ∧ ¬ extHeaderNumbers.contains proto ∧ chan < 4294967296 then
      pure { ver := ver, source := src, destination := dst, identification := ident,
             payloadIpNumber := proto, vlanIds := vlans, channelId := chan }
    else none
  | _ => none

def parseItem (s : String) : Option Op :=
  match s.splitOn ":" with
  | ["d", key, ts, fo, mf, h] => do
    let key ← parseKey key; let ts ← argNat ts; let fo ← argNat fo; let mf ← argBool mf; let b ← argHex h
    let maxPayload := if key.ver = 4 then 65515 else 65527
    let fragmenting := mf ∨ fo ≠ 0
    if ts < 18446744073709551616 ∧ fo ≤ 8191 ∧ b.length ≤ maxPayload
        ∧ (fragmenting ∨ ¬ transportNumbers.contains key.payloadIpNumber) then
      pure (.deliver (.frag key fo mf b) ts)
    else none
  | ["d", key, ts, fo, mf, h, rsv] => do
    -- reserved bits of the IPv4 flags / the IPv6 fragment header: carried on the wire, without meaning
    -- (RFC 791, RFC 8200 4.5), so the abstract fragment is the same
    let key ← parseKey key; let ts ← argNat ts; let fo ← argNat fo; let mf ← argBool mf; let b ← argHex h
    let rsv ← argNat rsv
    let maxPayload := if key.ver = 4 then 65515 else 65527
    let fragmenting := mf ∨ fo ≠ 0
    if 0 < rsv ∧ rsv ≤ 7 ∧ ts < 18446744073709551616 ∧ fo ≤ 8191 ∧ b.length ≤ maxPayload
        ∧ (fragmenting ∨ ¬ transportNumbers.contains key.payloadIpNumber) then
      pure (.deliver (.frag key fo mf b) ts)
    else none
  | ["u", key, ts, h] => do
    let key ← parseKey key; let ts ← argNat ts; let b ← argHex h
    let maxPayload := if key.ver = 4 then 65515 else 65535
    if ts < 18446744073709551616 ∧ b.length ≤ maxPayload ∧ ¬ transportNumbers.contains key.payloadIpNumber then
      -- an IPv4 header always carries the fragmentation fields
      if key.ver = 4 then pure (.deliver (.frag key 0 false b) ts) else pure (.deliver (.plain key b) ts)
    else none
  | ["n"] => some (.deliver .nonIp 0)
  | ["r"] => some .ret
  | ["t", m] => do let m ← argNat m; if m < 18446744073709551616 then pure (.retain m) else none
  | _ => none

def showOut : Out → String
  | .none => "none"
  | .ok p => s!"ok({p.ipNumber},{if p.isIpv4 then "Ipv4HeaderTotalLen" else "Ipv6HeaderPayloadLen"},{hexOfCells p.payload})"
  | .err e => showErr e
  | .returned n => s!"ret({n})"
  | .retained n => s!"retained({n})"

def showPool (p : Pool) : String :=
  s!"active={p.active.length},fdata={p.finishedDataBufs.length},fsec={p.finishedSectionBufs.length}"

/-! #### spec.frag.pool -/

open Spec.Reasm in
def specOp : Defrag.Op → Option (Spec.Reasm.Op Key)
  | .deliver (.frag k fo mf b) ts => some (.frag k ts { fo := fo, last := !mf, bytes := b })
  | .deliver (.plain _ _) _ => some .other
  | .deliver .nonIp _ => some .other
  | .ret => none
  | .retain m => some (.expire m)

def showReject : Spec.Reasm.Reject → String
  | .unaligned o l => s!"err(UnalignedFragmentPayloadLen(offset={o},payload_len={l}))"
  | .tooBig o l => s!"err(SegmentTooBig(offset={o},payload_len={l},max=65535))"
  | .endConflict p c => s!"err(ConflictingEnd(previous_end={p},conflicting_end={c}))"

def showSpecOut : Spec.Reasm.Out → String
  | .none => "none"
  | .payload b => s!"payload({hexOfBytes b})"
  | .rejected r => showReject r
  | .live n => s!"retained({n})"

def run (op : String) (args : List String) : Option String :=
  match op, args with
  | "frag.buf", [proto, stale, adds] => do
      let proto ← argNat proto; let _ ← argHex stale
      if proto ≥ 256 then none
      let adds ← if adds = "-" then some [] else (adds.splitOn ";").mapM parseAdd
      let r := runAdds (Buf.new proto) adds
      pure (joinWith ";" r.2 ++ "|" ++ showBuf r.1)
  | "frag.pool", [history] => do
      let ops ← (history.splitOn ";").mapM parseItem
      let r := Session.new.run ops
      pure (joinWith ";" (r.2.map showOut) ++ "|" ++ showPool r.1.pool)
  | "spec.frag.pool", [history] => do
      let ops ← (history.splitOn ";").mapM parseItem
      let sops := ops.filterMap specOp
      let r := Spec.Reasm.run ([] : Spec.Reasm.Pool Key) sops
      pure (joinWith ";" (r.2.map showSpecOut))
  | _, _ => none

end EpModel.Driver.Frag
