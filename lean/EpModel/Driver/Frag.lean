import EpModel.Driver.Util
/- `frag.*` and `spec.frag.*` operations (stub; filled in by the owner of this family). -/
namespace EpModel.Driver.Frag
open EpModel EpModel.Driver

def run (op : String) (args : List String) : Option String :=
  match op, args with
  | _, _ => none

end EpModel.Driver.Frag
