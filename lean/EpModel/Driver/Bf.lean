import EpModel.Driver.Util
import EpModel.Model.BitFields
import EpModel.Spec.BitLayout
/- `bf.*` and `spec.bf.*` operations: bounded integer types and the six bit-packed headers (C15). -/
namespace EpModel.Driver.Bf
open EpModel EpModel.Driver EpModel.BitFields

def showTooBig (e : TooBig) : String :=
  s!"err(actual={e.actual},max={e.maxAllowed},vt={e.valueType.name})"

def showDecErr : DecErr → String
  | .len r l layer => s!"err(len(req={r},len={l},src=Slice,layer={layer.name},off=0))"
  | .ip4UnexpectedVersion v => s!"err(ip4.UnexpectedVersion({v}))"
  | .ip4HeaderLengthSmallerThanHeader i => s!"err(ip4.HeaderLengthSmallerThanHeader({i}))"
  | .ip6UnexpectedVersion v => s!"err(ip6.UnexpectedVersion({v}))"
  | .macsecUnexpectedVersion => "err(macsec.UnexpectedVersion)"
  | .macsecInvalidUnmodifiedShortLen => "err(macsec.InvalidUnmodifiedShortLen)"

def b01 (b : Bool) : String := if b then "1" else "0"

def argBool (s : String) : Option Bool :=
  if s == "0" then some false else if s == "1" then some true else none

/-- a decimal argument that fits the Rust parameter type of `bits` bits. -/
def argU (bits : Nat) (s : String) : Option Nat := do
  let v ← argNat s
  if v < 2 ^ bits then some v else none

def argHexN (n : Nat) (s : String) : Option Bytes := do
  let b ← argHex s
  if b.length = n then some b else none

/-- (width of the Rust argument type, try_new, try_from) per type name. -/
def boundedType (t : String) : Option (Nat × (Nat → Except TooBig Nat) × (Nat → Except TooBig Nat)) :=
  match t with
  | "vlan_id" => some (16, VlanId.tryNew, VlanId.tryFrom)
  | "vlan_pcp" => some (8, VlanPcp.tryNew, VlanPcp.tryFrom)
  | "dscp" => some (8, IpDscp.tryNew, IpDscp.tryFrom)
  | "ecn" => some (8, IpEcn.tryNew, IpEcn.tryFrom)
  | "frag_off" => some (16, IpFragOffset.tryNew, IpFragOffset.tryFrom)
  | "flow_label" => some (32, Ipv6FlowLabel.tryNew, Ipv6FlowLabel.tryFrom)
  | "macsec_an" => some (8, MacsecAn.tryNew, MacsecAn.tryFrom)
  | "macsec_sl" => some (8, MacsecShortLen.tryFromU8, MacsecShortLen.tryFrom)
  | "qrv" => some (8, Qrv.tryNew, Qrv.tryFrom)
  | _ => none

def showBounded (t : String) (r : Except TooBig Nat) : String :=
  match r with
  | .ok v => if t == "ecn" then s!"ok({v},{IpEcn.variantName v})" else s!"ok({v})"
  | .error e => showTooBig e

def showIp4 (h : Ip4) : String :=
  s!"dscp={h.dscp},ecn={h.ecn},total_len={h.totalLen},id={h.ident},df={b01 h.df},mf={b01 h.mf},fo={h.fragOff},ttl={h.ttl},proto={h.proto},cks={h.checksum},src={hexOfBytes h.src},dst={hexOfBytes h.dst},opts={hexOfBytes h.options},ihl={h.ihl}"

def showIp6 (h : Ip6) : String :=
  s!"tc={h.trafficClass},dscp={Ip6.dscp h.trafficClass},ecn={Ip6.ecn h.trafficClass},fl={h.flowLabel},plen={h.payloadLen},nh={h.nextHeader},hop={h.hopLimit},src={hexOfBytes h.src},dst={hexOfBytes h.dst}"

def showPType : PType → String
  | .unmodified e => s!"unmod({e})"
  | .modified => "mod"
  | .encrypted => "enc"
  | .encryptedUnmodified => "encunmod"

def showVlan (h : Vlan) : String :=
  s!"pcp={h.pcp},dei={b01 h.dei},vid={h.vid},et={h.etherType}"

def showRaw8 (raw : Nat) : String :=
  s!"raw={raw},flags={Query.flags raw},s={b01 (Query.sFlag raw)},qrv={Query.qrv raw}"

open EpModel.Spec.BitLayout in
def specOp (op : String) (args : List String) : Option String :=
  match op, args with
  | "spec.bf.extract", [hd, fld, hx] => do
      let t ← table hd; let f ← lookup t fld; let b ← argHex hx
      pure (toString (extract f b))
  | "spec.bf.fields", [hd, hx] => do
      let t ← table hd; let b ← argHex hx
      pure (joinWith "," (t.map (fun f => s!"{f.name}={extract f b}")))
  | "spec.bf.insert", [hd, fld, hx, v] => do
      let t ← table hd; let f ← lookup t fld; let b ← argHex hx; let v ← argNat v
      pure (hexOfBytes (insert f b v))
  | _, _ => none

def run (op : String) (args : List String) : Option String :=
  match op, args with
  | "bf.try_new", [t, v] => do
      let (bits, f, _) ← boundedType t; let v ← argU bits v
      pure (showBounded t (f v))
  | "bf.try_from", [t, v] => do
      let (bits, _, f) ← boundedType t; let v ← argU bits v
      pure (showBounded t (f v))
  | "bf.sl_from_len", [n] => do
      let n ← argU 64 n
      pure (toString (MacsecShortLen.fromLen n))
  | "bf.fo_byte_offset", [v] => do
      let v ← argU 16 v
      match IpFragOffset.tryNew v with
      | .ok x => pure (toString (IpFragOffset.byteOffset x))
      | .error e => pure (showTooBig e)
  -- SingleVlanHeader
  | "bf.vlan_enc", [pcp, dei, vid, et] => do
      let pcp ← argU 8 pcp; let dei ← argBool dei; let vid ← argU 16 vid; let et ← argU 16 et
      match VlanPcp.tryNew pcp with
      | .error e => pure (showTooBig e)
      | .ok pcp =>
      match VlanId.tryNew vid with
      | .error e => pure (showTooBig e)
      | .ok vid => pure s!"ok({hexOfBytes (Vlan.toBytes ⟨pcp, dei, vid, et⟩)})"
  | "bf.vlan_dec", [hx] => do
      let b ← argHex hx
      match Vlan.fromSlice b with
      | .error e => pure (showDecErr e)
      | .ok (h, rest) => pure s!"ok({showVlan h},rest={showWin (b.length - rest.length) rest.length})"
  | "bf.vlan_from_bytes", [hx] => do
      let b ← argHexN 4 hx
      pure (showVlan (Vlan.fromBytes b))
  -- Ipv4Header
  | "bf.ip4_enc", [dscp, ecn, tl, id, df, mf, fo, ttl, proto, cks, src, dst, opts] => do
      let dscp ← argU 8 dscp; let ecn ← argU 8 ecn; let tl ← argU 16 tl; let id ← argU 16 id
      let df ← argBool df; let mf ← argBool mf; let fo ← argU 16 fo; let ttl ← argU 8 ttl
      let proto ← argU 8 proto; let cks ← argU 16 cks
      let src ← argHexN 4 src; let dst ← argHexN 4 dst; let opts ← argHex opts
      if ¬ (opts.length ≤ 40 ∧ opts.length % 4 = 0) then none else
      match IpDscp.tryNew dscp with
      | .error e => pure (showTooBig e)
      | .ok dscp =>
      match IpEcn.tryNew ecn with
      | .error e => pure (showTooBig e)
      | .ok ecn =>
      match IpFragOffset.tryNew fo with
      | .error e => pure (showTooBig e)
      | .ok fo =>
        let h : Ip4 := ⟨dscp, ecn, tl, id, df, mf, fo, ttl, proto, cks, src, dst, opts⟩
        pure s!"ok(bytes={hexOfBytes h.toBytes},raw={hexOfBytes h.writeRaw},ihl={h.ihl},len={h.toBytes.length})"
  | "bf.ip4_dec", [hx] => do
      let b ← argHex hx
      match Ip4.fromSlice b with
      | .error e => pure (showDecErr e)
      | .ok (h, rest) => pure s!"ok({showIp4 h},rest={showWin (b.length - rest.length) rest.length})"
  | "bf.ip4_read", [hx] => do
      let b ← argHex hx
      match Ip4.read b with
      | none => pure "err(io)"
      | some (.error e) => pure (showDecErr e)
      | some (.ok h) => pure s!"ok({showIp4 h})"
  -- Ipv6Header
  | "bf.ip6_enc", [tc, fl, plen, nh, hop, src, dst] => do
      let tc ← argU 8 tc; let fl ← argU 32 fl; let plen ← argU 16 plen; let nh ← argU 8 nh
      let hop ← argU 8 hop; let src ← argHexN 16 src; let dst ← argHexN 16 dst
      match Ipv6FlowLabel.tryNew fl with
      | .error e => pure (showTooBig e)
      | .ok fl => pure s!"ok({hexOfBytes (Ip6.toBytes ⟨tc, fl, plen, nh, hop, src, dst⟩)})"
  | "bf.ip6_dec", [hx] => do
      let b ← argHex hx
      match Ip6.fromSlice b with
      | .error e => pure (showDecErr e)
      | .ok (h, rest) => pure s!"ok({showIp6 h},rest={showWin (b.length - rest.length) rest.length})"
  | "bf.ip6_read", [hx] => do
      let b ← argHex hx
      match Ip6.read b with
      | none => pure "err(io)"
      | some (.error e) => pure (showDecErr e)
      | some (.ok h) => pure s!"ok({showIp6 h})"
  | "bf.ip6_tc", [tc, which, v] => do
      let tc ← argU 8 tc; let v ← argU 8 v
      if which == "dscp" then
        match IpDscp.tryNew v with
        | .error e => pure (showTooBig e)
        | .ok d => let t := Ip6.setDscp tc d; pure s!"ok(tc={t},dscp={Ip6.dscp t},ecn={Ip6.ecn t})"
      else if which == "ecn" then
        match IpEcn.tryNew v with
        | .error e => pure (showTooBig e)
        | .ok d => let t := Ip6.setEcn tc d; pure s!"ok(tc={t},dscp={Ip6.dscp t},ecn={Ip6.ecn t})"
      else none
  -- Ipv6FragmentHeader
  | "bf.frag_enc", [nh, fo, mf, id] => do
      let nh ← argU 8 nh; let fo ← argU 16 fo; let mf ← argBool mf; let id ← argU 32 id
      match IpFragOffset.tryNew fo with
      | .error e => pure (showTooBig e)
      | .ok fo => pure s!"ok({hexOfBytes (Frag6.toBytes ⟨nh, fo, mf, id⟩)})"
  | "bf.frag_dec", [hx] => do
      let b ← argHex hx
      match Frag6.fromSlice b with
      | .error e => pure (showDecErr e)
      | .ok (h, rest) =>
        pure s!"ok(nh={h.nextHeader},fo={h.fragOff},mf={b01 h.mf},id={h.ident},rest={showWin (b.length - rest.length) rest.length})"
  -- MacsecHeader
  | "bf.macsec_enc", [pt, et, es, scb, an, sl, pn, sci] => do
      let et ← argU 16 et; let es ← argBool es; let scb ← argBool scb; let an ← argU 8 an
      let sl ← argU 8 sl; let pn ← argU 32 pn
      let sci : Option Nat ← (if sci == "-" then some none else (argU 64 sci).map some)
      let ptype : PType ← (match pt with
        | "unmod" => some (.unmodified et) | "mod" => some .modified | "enc" => some .encrypted
        | "encunmod" => some .encryptedUnmodified | _ => none)
      match MacsecAn.tryNew an with
      | .error e => pure (showTooBig e)
      | .ok an =>
      match MacsecShortLen.tryFromU8 sl with
      | .error e => pure (showTooBig e)
      | .ok sl =>
        let h : Macsec := ⟨ptype, es, scb, an, sl, pn, sci⟩
        pure s!"ok({hexOfBytes h.toBytes},hlen={h.headerLen})"
  | "bf.macsec_dec", [hx] => do
      let b ← argHex hx
      match Macsec.fromSlice b with
      | .error e => pure (showDecErr e)
      | .ok (h, n) =>
        let sci := match h.sci with | none => "none" | some v => s!"some({v})"
        pure s!"ok(ptype={showPType h.ptype},es={b01 h.es},scb={b01 h.scb},an={h.an},sl={h.shortLen},pn={h.pn},sci={sci},hlen={n})"
  -- igmp::MembershipQueryWithSourcesHeader
  | "bf.igmp_set", [raw, which, v] => do
      let raw ← argU 8 raw; let v ← argU 8 v
      if which == "flags" then pure s!"ok({showRaw8 (Query.setFlags raw v)})"
      else if which == "s" then do
        let s ← argBool (toString v)
        pure s!"ok({showRaw8 (Query.setSFlag raw s)})"
      else if which == "qrv" then
        match Qrv.tryNew v with
        | .error e => pure (showTooBig e)
        | .ok q => pure s!"ok({showRaw8 (Query.setQrv raw q)})"
      else none
  | "bf.igmp_enc", [mrc, cks, group, raw, qqic, ns] => do
      let mrc ← argU 8 mrc; let cks ← argU 16 cks; let group ← argHexN 4 group
      let raw ← argU 8 raw; let qqic ← argU 8 qqic; let ns ← argU 16 ns
      pure (hexOfBytes (Query.toBytes ⟨mrc, group, raw, qqic, ns⟩ cks))
  | "bf.igmp_dec", [hx] => do
      let b ← argHex hx
      match Query.fromSlice b with
      | .error e => pure (showDecErr e)
      | .ok .other => pure "ok(other)"
      | .ok (.query h cks rest) =>
        pure s!"ok(query(mrc={h.maxRespCode},cks={cks},group={hexOfBytes h.group},{showRaw8 h.rawByte8},qqic={h.qqic},nsrc={h.numSources},rest={showWin (b.length - rest.length) rest.length}))"
  | _, _ => specOp op args

end EpModel.Driver.Bf
