import EpModel.Driver.Util
/- `bf.*` and `spec.bf.*` operations (stub; filled in by the owner of this family). -/
namespace EpModel.Driver.Bf
open EpModel EpModel.Driver

def run (op : String) (args : List String) : Option String :=
  match op, args with
  | _, _ => none

end EpModel.Driver.Bf
