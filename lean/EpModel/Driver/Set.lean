import EpModel.Driver.Util
/- `set.*` and `spec.set.*` operations (stub; filled in by the owner of this family). -/
namespace EpModel.Driver.Set
open EpModel EpModel.Driver

def run (op : String) (args : List String) : Option String :=
  match op, args with
  | _, _ => none

end EpModel.Driver.Set
