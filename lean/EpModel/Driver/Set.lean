import EpModel.Driver.Util
import EpModel.Model.Setters
/- `set.*` operations (C14): every length taking constructor / setter / checksum entry point.

   Header states are passed as the serialised header (hex) and decoded with the C08 codec models'
   `fromSlice` (the harness uses the crate's `from_slice`); payloads / option areas / addresses are
   described by `len a b` = the byte string `i ↦ (a + i*b) mod 256`, `i < len`, so that long inputs
   need no long lines.  Result lines:
     constructors   ok(<to_bytes hex>) | err(..)
     `&mut` setters <ok | err(..)>;hdr=<to_bytes of the header after the call>
     checksums      ok(<u16>) | err(..)
   `err(actual=..,max=..,vt=..)` is a `ValueTooBigError`, the other error enums are spelled out. -/
namespace EpModel.Driver.Set
open EpModel EpModel.Driver EpModel.Setters

def pat (len a b : Nat) : Bytes := (List.range len).map (fun i => u8 (a + i * b))

def argLt (s : String) (bound : Nat) : Option Nat := do
  let n ← argNat s
  if n < bound then some n else none

def argHexLen (s : String) (len : Nat) : Option Bytes := do
  let b ← argHex s
  if b.length = len then some b else none

def argPat (l a b : String) : Option Bytes := do
  let l ← argNat l; let a ← argLt a 256; let b ← argLt b 256
  -- the harness refuses to allocate more than 1 MiB for a described byte string
  if l ≤ 1048576 then some (pat l a b) else none

def showTooBig (e : TooBig) : String :=
  s!"err(actual={e.actual},max={e.maxAllowed},vt={e.vt.name})"

def showRes {α : Type} (showErr : α → String) : Except α Unit → String
  | .ok _ => "ok"
  | .error e => showErr e

def showCk : Except TooBig Nat → String
  | .ok v => s!"ok({v})"
  | .error e => showTooBig e

/-! header states from their serialised form (nothing may be left over) -/

def ipv4Of (s : String) : Option CodecNet.Ipv4Header := do
  match CodecNet.Ipv4Header.fromSlice (← argHex s) with
  | .ok (h, []) => some h
  | _ => none

def ipv6Of (s : String) : Option CodecNet.Ipv6Header := do
  match CodecNet.Ipv6Header.fromSlice (← argHex s) with
  | .ok (h, []) => some h
  | _ => none

def authOf (s : String) : Option CodecNet.IpAuthHeader := do
  match CodecNet.IpAuthHeader.fromSlice (← argHex s) with
  | .ok (h, []) => some h
  | _ => none

def rawExtOf (s : String) : Option CodecNet.Ipv6RawExtHeader := do
  match CodecNet.Ipv6RawExtHeader.fromSlice (← argHex s) with
  | .ok (h, []) => some h
  | _ => none

def fragOf (s : String) : Option CodecNet.Ipv6FragmentHeader := do
  match CodecNet.Ipv6FragmentHeader.fromSlice (← argHex s) with
  | .ok (h, []) => some h
  | _ => none

def udpOf (s : String) : Option Codec.Udp := do
  match Codec.Udp.fromSlice (← argHex s) with
  | .ok (h, []) => some h
  | _ => none

def tcpOf (s : String) : Option Codec.Tcp := do
  match Codec.Tcp.fromSlice (← argHex s) with
  | .ok (h, []) => some h
  | _ => none

def icmp6Of (s : String) : Option Codec.Icmp6 := do
  match Codec.Icmp6.fromSlice (← argHex s) with
  | .ok (h, []) => some h
  | _ => none

def macsecOf (s : String) : Option Codec.Macsec := do
  match Codec.Macsec.fromSlice (← argHex s) with
  | .ok (h, []) => some h
  | _ => none

def arpOf (s : String) : Option Codec.Arp := do
  match Codec.Arp.fromSlice (← argHex s) with
  | .ok (h, []) => some h
  | _ => none

/-- optional part: `-` = absent -/
def optOf {α : Type} (f : String → Option α) (s : String) : Option (Option α) :=
  if s == "-" then some none else (f s).map some

def showIcvErr : CodecNet.IcvLenError → String
  | .tooBig n => s!"err(TooBig({n}))"
  | .unaligned n => s!"err(Unaligned({n}))"

def showExtErr : CodecNet.ExtPayloadLenError → String
  | .tooSmall n => s!"err(TooSmall({n}))"
  | .tooBig n => s!"err(TooBig({n}))"
  | .unaligned n => s!"err(Unaligned({n}))"

def showArpAddrErr (which : String) : ArpAddrError → String
  | .lenNonMatching a b => s!"err({which}(LenNonMatching({a},{b})))"
  | .lenTooBig n => s!"err({which}(LenTooBig({n})))"

def showOptNat : Option Nat → String
  | none => "none"
  | some v => s!"some({v})"

def run (op : String) (args : List String) : Option String :=
  match op, args with
  /- IPv4 -/
  | "set.ipv4.new", [n, ttl, proto, src, dst] => do
      let n ← argLt n 65536; let ttl ← argLt ttl 256; let proto ← argLt proto 256
      let src ← argHexLen src 4; let dst ← argHexLen dst 4
      match ipv4New n ttl proto src dst with
      | .ok h => pure s!"ok({hexOfBytes h.toBytes})"
      | .error e => pure (showTooBig e)
  | "set.ipv4.set_payload_len", [hdr, n] => do
      let h ← ipv4Of hdr; let n ← argLt n (usizeMax + 1)
      let r := ipv4SetPayloadLen h n
      pure s!"{showRes showTooBig r.1};max={ipv4MaxPayloadLen h};hdr={hexOfBytes r.2.toBytes}"
  | "set.ipv4.set_options", [hdr, l, a, b] => do
      let h ← ipv4Of hdr; let d ← argPat l a b
      let r := ipv4SetOptions h d
      pure s!"{showRes (fun n => s!"err(BadOptionsLen({n}))") r.1};hdr={hexOfBytes r.2.toBytes}"
  | "set.ipv4opts.try_from", [l, a, b] => do
      let d ← argPat l a b
      match CodecNet.Ipv4Options.tryFrom d with
      | .ok o => pure s!"ok(len={o.length},{hexOfBytes o})"
      | .error n => pure s!"err(BadOptionsLen({n}))"
  /- IPv6 -/
  | "set.ipv6.set_payload_length", [hdr, n] => do
      let h ← ipv6Of hdr; let n ← argLt n (usizeMax + 1)
      let r := ipv6SetPayloadLength h n
      pure s!"{showRes showTooBig r.1};hdr={hexOfBytes r.2.toBytes}"
  /- IpHeaders -/
  | "set.ip4.set_payload_len", [hdr, auth, n] => do
      let h ← ipv4Of hdr; let a ← optOf authOf auth; let n ← argLt n (usizeMax + 1)
      let e : CodecNet.Ipv4Extensions := { auth := a }
      match ipHeadersSetPayloadLen (.v4 h e) n with
      | (r, .v4 h' e') =>
        pure s!"{showRes showTooBig r};hdr={hexOfBytes h'.toBytes};extlen={e'.headerLen}"
      | _ => none
  | "set.ip6.set_payload_len", [hdr, hbh, dst, rt, fdst, frag, auth, n] => do
      let h ← ipv6Of hdr
      let hbh ← optOf rawExtOf hbh; let dst ← optOf rawExtOf dst; let rt ← optOf rawExtOf rt
      let fdst ← optOf rawExtOf fdst; let frag ← optOf fragOf frag; let auth ← optOf authOf auth
      let n ← argLt n (usizeMax + 1)
      let routing ← match rt, fdst with
        | some r, f => some (some (r, f))
        | none, none => some none
        | none, some _ => none
      let e : Ipv6Exts := { hopByHop := hbh, destOpts := dst, routing := routing, fragment := frag,
                            auth := auth }
      match ipHeadersSetPayloadLen (.v6 h e) n with
      | (r, .v6 h' e') =>
        pure s!"{showRes showTooBig r};hdr={hexOfBytes h'.toBytes};extlen={e'.headerLen}"
      | _ => none
  /- UDP -/
  | "set.udp.without_ipv4_checksum", [sp, dp, n] => do
      let sp ← argLt sp 65536; let dp ← argLt dp 65536; let n ← argLt n (usizeMax + 1)
      match udpWithoutIpv4Checksum sp dp n with
      | .ok h => pure s!"ok({hexOfBytes h.toBytes})"
      | .error e => pure (showTooBig e)
  | "set.udp.with_ipv4_checksum", [sp, dp, src, dst, l, a, b] => do
      let sp ← argLt sp 65536; let dp ← argLt dp 65536
      let src ← argHexLen src 4; let dst ← argHexLen dst 4; let p ← argPat l a b
      match udpWithIpv4Checksum sp dp src dst p with
      | .ok h => pure s!"ok({hexOfBytes h.toBytes})"
      | .error e => pure (showTooBig e)
  | "set.udp.with_ipv6_checksum", [sp, dp, src, dst, l, a, b] => do
      let sp ← argLt sp 65536; let dp ← argLt dp 65536
      let src ← argHexLen src 16; let dst ← argHexLen dst 16; let p ← argPat l a b
      match udpWithIpv6Checksum sp dp src dst p with
      | .ok h => pure s!"ok({hexOfBytes h.toBytes})"
      | .error e => pure (showTooBig e)
  | "set.udp.calc_checksum_ipv4", [hdr, src, dst, l, a, b] => do
      let h ← udpOf hdr; let src ← argHexLen src 4; let dst ← argHexLen dst 4; let p ← argPat l a b
      let r := showCk (udpCalcChecksumIpv4Raw h src dst p)
      pure s!"raw={r},hdr={r}"
  | "set.udp.calc_checksum_ipv6", [hdr, src, dst, l, a, b] => do
      let h ← udpOf hdr; let src ← argHexLen src 16; let dst ← argHexLen dst 16; let p ← argPat l a b
      let r := showCk (udpCalcChecksumIpv6Raw h src dst p)
      pure s!"raw={r},hdr={r}"
  /- TCP -/
  | "set.tcp.calc_checksum_ipv4", [hdr, src, dst, l, a, b] => do
      let h ← tcpOf hdr; let src ← argHexLen src 4; let dst ← argHexLen dst 4; let p ← argPat l a b
      let r := showCk (tcpCalcChecksumIpv4Raw h src dst p)
      pure s!"raw={r},hdr={r}"
  | "set.tcp.calc_checksum_ipv6", [hdr, src, dst, l, a, b] => do
      let h ← tcpOf hdr; let src ← argHexLen src 16; let dst ← argHexLen dst 16; let p ← argPat l a b
      let r := showCk (tcpCalcChecksumIpv6Raw h src dst p)
      pure s!"raw={r},hdr={r}"
  | "set.tcpslice.calc_checksum_ipv4", [hdr, src, dst, l, a, b] => do
      let hb ← argHex hdr; let _ ← tcpOf hdr
      let src ← argHexLen src 4; let dst ← argHexLen dst 4; let p ← argPat l a b
      pure (showCk (tcpSliceCalcChecksumIpv4 (hb ++ p) src dst))
  | "set.tcpslice.calc_checksum_ipv6", [hdr, src, dst, l, a, b] => do
      let hb ← argHex hdr; let _ ← tcpOf hdr
      let src ← argHexLen src 16; let dst ← argHexLen dst 16; let p ← argPat l a b
      pure (showCk (tcpSliceCalcChecksumIpv6 (hb ++ p) src dst))
  | "set.tcp.set_options_raw", [hdr, l, a, b] => do
      let h ← tcpOf hdr; let d ← argPat l a b
      let r := tcpSetOptionsRaw h d
      let res := match r.1 with
        | .ok _ => "ok"
        | .error (.other w) => s!"err({w})"
        | .error e => e.render
      pure s!"{res};hdr={hexOfBytes r.2.toBytes}"
  | "set.tcpopts.try_from_slice", [l, a, b] => do
      let d ← argPat l a b
      match Codec.TcpOpts.tryFromSlice d with
      | .ok o => pure s!"ok(len={o.len},{hexOfBytes o.asSlice})"
      | .error (.other w) => pure s!"err({w})"
      | .error e => pure e.render
  /- ICMPv6 -/
  | "set.icmp6.calc_checksum", [hdr, src, dst, l, a, b] => do
      let h ← icmp6Of hdr; let src ← argHexLen src 16; let dst ← argHexLen dst 16; let p ← argPat l a b
      pure (showCk (icmp6CalcChecksum h.ty src dst p))
  | "set.icmp6.with_checksum", [hdr, src, dst, l, a, b] => do
      let h ← icmp6Of hdr; let src ← argHexLen src 16; let dst ← argHexLen dst 16; let p ← argPat l a b
      match icmp6WithChecksum h.ty src dst p with
      | .ok h' => pure s!"ok({hexOfBytes h'.toBytes})"
      | .error e => pure (showTooBig e)
  | "set.icmp6.update_checksum", [hdr, src, dst, l, a, b] => do
      let h ← icmp6Of hdr; let src ← argHexLen src 16; let dst ← argHexLen dst 16; let p ← argPat l a b
      let r := icmp6UpdateChecksum h src dst p
      pure s!"{showRes showTooBig r.1};hdr={hexOfBytes r.2.toBytes}"
  /- MACsec -/
  | "set.macsec.set_payload_len", [hdr, n] => do
      let h ← macsecOf hdr; let n ← argLt n (usizeMax + 1)
      let h' := macsecSetPayloadLen h n
      pure s!"ok;hdr={hexOfBytes h'.toBytes};sl={h'.sl};exp={showOptNat (macsecExpectedPayloadLen h')}"
  | "set.macsec.from_len", [n] => do
      let n ← argLt n (usizeMax + 1)
      pure (toString (macsecFromLen n))
  | "set.macsec.try_from", [n] => do
      let n ← argLt n 256
      match macsecTryFromU8 n with
      | .ok v => pure s!"ok({v})"
      | .error e => pure (showTooBig e)
  /- AH, raw extension header -/
  | "set.auth.new", [nh, spi, seq, l, a, b] => do
      let nh ← argLt nh 256; let spi ← argLt spi 4294967296; let seq ← argLt seq 4294967296
      let d ← argPat l a b
      match CodecNet.IpAuthHeader.new nh spi seq d with
      | .ok h => pure s!"ok({hexOfBytes h.toBytes})"
      | .error e => pure (showIcvErr e)
  | "set.auth.set_raw_icv", [hdr, l, a, b] => do
      let h ← authOf hdr; let d ← argPat l a b
      let r := authSetRawIcv h d
      pure s!"{showRes showIcvErr r.1};hdr={hexOfBytes r.2.toBytes}"
  | "set.rawext.new_raw", [nh, l, a, b] => do
      let nh ← argLt nh 256; let d ← argPat l a b
      match CodecNet.Ipv6RawExtHeader.newRaw nh d with
      | .ok h => pure s!"ok({hexOfBytes h.toBytes})"
      | .error e => pure (showExtErr e)
  | "set.rawext.set_payload", [hdr, l, a, b] => do
      let h ← rawExtOf hdr; let d ← argPat l a b
      let r := rawExtSetPayload h d
      pure s!"{showRes showExtErr r.1};hdr={hexOfBytes r.2.toBytes}"
  /- ARP -/
  | "set.arp.new", [hw, proto, oper, l1, l2, l3, l4, a, b] => do
      let hw ← argLt hw 65536; let proto ← argLt proto 65536; let oper ← argLt oper 65536
      let a' ← argLt a 256
      let shw ← argPat l1 a b; let sp ← argPat l2 (toString ((a' + 1) % 256)) b
      let thw ← argPat l3 (toString ((a' + 2) % 256)) b; let tp ← argPat l4 (toString ((a' + 3) % 256)) b
      match Codec.Arp.new hw proto oper shw sp thw tp with
      | .ok h => pure s!"ok({hexOfBytes h.toBytes})"
      | .error (.other w) =>
        -- the codec model spells the error `arpnew(X)`; print the enum itself
        pure s!"err({((w.drop 7).dropEnd 1).toString})"
      | .error e => pure e.render
  | "set.arp.set_hw_addrs", [hdr, l1, l2, a, b] => do
      let h ← arpOf hdr; let a' ← argLt a 256
      let s ← argPat l1 a b; let t ← argPat l2 (toString ((a' + 2) % 256)) b
      let r := arpSetHwAddrs h s t
      pure s!"{showRes (showArpAddrErr "HwAddr") r.1};hdr={hexOfBytes r.2.toBytes}"
  | "set.arp.set_protocol_addrs", [hdr, l1, l2, a, b] => do
      let h ← arpOf hdr; let a' ← argLt a 256
      let s ← argPat l1 a b; let t ← argPat l2 (toString ((a' + 2) % 256)) b
      let r := arpSetProtocolAddrs h s t
      pure s!"{showRes (showArpAddrErr "ProtoAddr") r.1};hdr={hexOfBytes r.2.toBytes}"
  | _, _ => none

end EpModel.Driver.Set
