import EpModel.Driver.Util
import EpModel.Model.Codec.NetIpv6
import EpModel.Model.Codec.NetIpv6Frag
import EpModel.Model.Codec.NetIpv4
import EpModel.Model.Codec.NetAuth
import EpModel.Model.Codec.NetRawExt
import EpModel.Model.Codec.NetIpv4Exts
/- network-layer part of the `enc.*` family (C08): Ipv6Header, Ipv6FragmentHeader, Ipv4Header,
   IpAuthHeader, Ipv6RawExtHeader and their slice types.

   ops per type t ∈ {ipv6, ipv6frag, ipv4, auth, rawext}:
     enc.t.to_bytes <fields>         value via the checked constructors → all serialisers, header_len
     enc.t.rt <fields> <tail>        from_slice(to_bytes(v) ++ tail)
     enc.t.from_slice <hex>          all fields + rest window
     enc.t.redec <hex>               from_slice, to_bytes of the result, from_slice(bytes ++ rest)
     enc.tslice.from_slice <hex>     every accessor of the slice type + to_header
   composite ipv4exts (optional authentication header behind an IPv4 header):
     enc.ipv4exts.write <start> (none | <auth fields>)      write, header_len, next_header
     enc.ipv4exts.rt <start> (none | <auth fields>) <tail>  from_slice(start, write(v) ++ tail)
     enc.ipv4exts.from_slice / redec / enc.ipv4extsslice.from_slice <start> <hex> -/
namespace EpModel.Driver.EncNet
open EpModel EpModel.Driver EpModel.CodecNet

def argLt (s : String) (bound : Nat) : Option Nat := do
  let n ← argNat s
  if n < bound then some n else none

def argBool (s : String) : Option Bool :=
  if s == "0" then some false else if s == "1" then some true else none

def argHexLen (s : String) (len : Nat) : Option Bytes := do
  let b ← argHex s
  if b.length = len then some b else none

def b01 (b : Bool) : String := if b then "1" else "0"

def showLenErr (e : LenError) : String :=
  s!"len(req={e.required},len={e.len},src={e.src.name},layer={e.layer.name},off={e.off})"

def showTooBig (e : ValueTooBig) : String :=
  s!"err(toobig(actual={e.actual},max={e.maxAllowed},type={e.ty.name}))"

def sameOr (ref x : Bytes) : String := if x = ref then "same" else hexOfBytes x

/-- window of `rest` behind the consumed prefix of `b` -/
def restWin (b rest : Bytes) : String := showWin (b.length - rest.length) rest.length

/-! ### Ipv6Header -/

def ipv6Fields (h : Ipv6Header) : String :=
  s!"tc={h.trafficClass},fl={h.flowLabel},plen={h.payloadLength},nh={h.nextHeader},hop={h.hopLimit},src={hexOfBytes h.source},dst={hexOfBytes h.destination}"

def ipv6Err : Ipv6Err → String
  | .len e => s!"err({showLenErr e})"
  | .unexpectedVersion v => s!"err(version({v}))"

def ipv6Value (a : List String) : Option (Except String Ipv6Header) :=
  match a with
  | [tc, fl, plen, nh, hop, src, dst] => do
    let tc ← argLt tc 256; let fl ← argLt fl 4294967296; let plen ← argLt plen 65536
    let nh ← argLt nh 256; let hop ← argLt hop 256
    let src ← argHexLen src 16; let dst ← argHexLen dst 16
    match Ipv6FlowLabel.tryNew fl with
    | .error e => pure (.error (showTooBig e))
    | .ok fl =>
      pure (.ok {
        trafficClass := tc, flowLabel := fl, payloadLength := plen,
        nextHeader := nh, hopLimit := hop, source := src, destination := dst })
  | _ => none

def ipv6Dec (b : Bytes) : String :=
  match Ipv6Header.fromSlice b with
  | .error e => ipv6Err e
  | .ok (h, rest) => s!"ok({ipv6Fields h},rest={restWin b rest})"

def ipv6Ops (op : String) (args : List String) : Option String :=
  match op, args with
  | "enc.ipv6.to_bytes", a => do
    match ← ipv6Value a with
    | .error e => pure e
    | .ok h =>
      let bytes := h.toBytes
      pure s!"ok(bytes={hexOfBytes bytes},write={sameOr bytes h.writeOut},len={h.headerLen})"
  | "enc.ipv6.rt", a => do
    let tail ← argHex (← a.getLast?)
    match ← ipv6Value a.dropLast with
    | .error e => pure e
    | .ok h => pure (ipv6Dec (h.toBytes ++ tail))
  | "enc.ipv6.from_slice", [h] => do pure (ipv6Dec (← argHex h))
  | "enc.ipv6.redec", [h] => do
    let b ← argHex h
    match Ipv6Header.fromSlice b with
    | .error e => pure (ipv6Err e)
    | .ok (h, rest) =>
      let again := ipv6Dec (h.toBytes ++ rest)
      pure s!"ok(bytes={hexOfBytes h.toBytes},again={again})"
  | "enc.ipv6slice.from_slice", [h] => do
    let b ← argHex h
    match Ipv6HeaderSlice.fromSlice b with
    | .error e => pure (ipv6Err e)
    | .ok s =>
      pure s!"ok(slice={showWin 0 s.slice.length},version={s.version},tc={s.trafficClass},ecn={s.ecn},dscp={s.dscp},fl={s.flowLabel},plen={s.payloadLength},nh={s.nextHeader},hop={s.hopLimit},src={hexOfBytes s.source},dst={hexOfBytes s.destination},header_len={s.headerLen},hdr=({ipv6Fields s.toHeader}))"
  | _, _ => none

/-! ### Ipv6FragmentHeader -/

def fragFields (h : Ipv6FragmentHeader) : String :=
  s!"nh={h.nextHeader},fo={h.fragmentOffset},mf={b01 h.moreFragments},id={h.identification}"

def fragValue (a : List String) : Option (Except String Ipv6FragmentHeader) :=
  match a with
  | [nh, fo, mf, id] => do
    let nh ← argLt nh 256; let fo ← argLt fo 65536; let mf ← argBool mf
    let id ← argLt id 4294967296
    match IpFragOffset.tryNew fo with
    | .error e => pure (.error (showTooBig e))
    | .ok fo =>
      pure (.ok {
        nextHeader := nh, fragmentOffset := fo, moreFragments := mf, identification := id })
  | _ => none

def fragDec (b : Bytes) : String :=
  match Ipv6FragmentHeader.fromSlice b with
  | .error e => s!"err({showLenErr e})"
  | .ok (h, rest) => s!"ok({fragFields h},rest={restWin b rest})"

def fragOps (op : String) (args : List String) : Option String :=
  match op, args with
  | "enc.ipv6frag.to_bytes", a => do
    match ← fragValue a with
    | .error e => pure e
    | .ok h =>
      let bytes := h.toBytes
      pure s!"ok(bytes={hexOfBytes bytes},write={sameOr bytes h.writeOut},len={h.headerLen},frag={b01 h.isFragmentingPayload})"
  | "enc.ipv6frag.rt", a => do
    let tail ← argHex (← a.getLast?)
    match ← fragValue a.dropLast with
    | .error e => pure e
    | .ok h => pure (fragDec (h.toBytes ++ tail))
  | "enc.ipv6frag.from_slice", [h] => do pure (fragDec (← argHex h))
  | "enc.ipv6frag.redec", [h] => do
    let b ← argHex h
    match Ipv6FragmentHeader.fromSlice b with
    | .error e => pure s!"err({showLenErr e})"
    | .ok (h, rest) =>
      let again := fragDec (h.toBytes ++ rest)
      pure s!"ok(bytes={hexOfBytes h.toBytes},again={again})"
  | "enc.ipv6fragslice.from_slice", [h] => do
    let b ← argHex h
    match Ipv6FragmentHeaderSlice.fromSlice b with
    | .error e => pure s!"err({showLenErr e})"
    | .ok s =>
      pure s!"ok(slice={showWin 0 s.slice.length},nh={s.nextHeader},fo={s.fragmentOffset},mf={b01 s.moreFragments},id={s.identification},frag={b01 s.isFragmentingPayload},hdr=({fragFields s.toHeader}))"
  | _, _ => none

/-! ### Ipv4Header -/

def ipv4Fields (h : Ipv4Header) : String :=
  s!"dscp={h.dscp},ecn={h.ecn},tlen={h.totalLen},id={h.identification},df={b01 h.dontFragment},mf={b01 h.moreFragments},fo={h.fragmentOffset},ttl={h.timeToLive},proto={h.protocol},ck={h.headerChecksum},src={hexOfBytes h.source},dst={hexOfBytes h.destination},opts={hexOfBytes h.options}"

def ipv4Err : Ipv4Err → String
  | .len e => s!"err({showLenErr e})"
  | .unexpectedVersion v => s!"err(version({v}))"
  | .headerLengthSmallerThanHeader i => s!"err(ihl({i}))"

def ipv4Value (a : List String) : Option (Except String Ipv4Header) :=
  match a with
  | [dscp, ecn, tlen, id, df, mf, fo, ttl, proto, ck, src, dst, opts] => do
    let dscp ← argLt dscp 256; let ecn ← argLt ecn 256; let tlen ← argLt tlen 65536
    let id ← argLt id 65536; let df ← argBool df; let mf ← argBool mf; let fo ← argLt fo 65536
    let ttl ← argLt ttl 256; let proto ← argLt proto 256; let ck ← argLt ck 65536
    let src ← argHexLen src 4; let dst ← argHexLen dst 4; let opts ← argHex opts
    match IpDscp.tryNew dscp with
    | .error e => pure (.error (showTooBig e))
    | .ok dscp =>
    match IpEcn.tryNew ecn with
    | .error e => pure (.error (showTooBig e))
    | .ok ecn =>
    match IpFragOffset.tryNew fo with
    | .error e => pure (.error (showTooBig e))
    | .ok fo =>
    match Ipv4Options.tryFrom opts with
    | .error n => pure (.error s!"err(badoptlen({n}))")
    | .ok opts =>
      pure (.ok {
        dscp := dscp, ecn := ecn, totalLen := tlen, identification := id,
        dontFragment := df, moreFragments := mf, fragmentOffset := fo,
        timeToLive := ttl, protocol := proto, headerChecksum := ck, source := src,
        destination := dst, options := opts })
  | _ => none

def ipv4Dec (b : Bytes) : String :=
  match Ipv4Header.fromSlice b with
  | .error e => ipv4Err e
  | .ok (h, rest) => s!"ok({ipv4Fields h},rest={restWin b rest})"

def ipv4Ops (op : String) (args : List String) : Option String :=
  match op, args with
  | "enc.ipv4.to_bytes", a => do
    match ← ipv4Value a with
    | .error e => pure e
    | .ok h =>
      let bytes := h.toBytes
      pure s!"ok(bytes={hexOfBytes bytes},write={sameOr bytes h.writeOut},write_raw={sameOr bytes h.writeRaw},len={h.headerLen},ihl={h.ihl},calc={h.calcHeaderChecksum})"
  | "enc.ipv4.rt", a => do
    let tail ← argHex (← a.getLast?)
    match ← ipv4Value a.dropLast with
    | .error e => pure e
    | .ok h => pure (ipv4Dec (h.toBytes ++ tail))
  | "enc.ipv4.from_slice", [h] => do pure (ipv4Dec (← argHex h))
  | "enc.ipv4.redec", [h] => do
    let b ← argHex h
    match Ipv4Header.fromSlice b with
    | .error e => pure (ipv4Err e)
    | .ok (h, rest) =>
      let again := ipv4Dec (h.toBytes ++ rest)
      pure s!"ok(bytes={hexOfBytes h.toBytes},again={again})"
  | "enc.ipv4slice.from_slice", [h] => do
    let b ← argHex h
    match Ipv4HeaderSlice.fromSlice b with
    | .error e => pure (ipv4Err e)
    | .ok s =>
      let pl := match s.payloadLen with
        | .ok n => s!"ok({n})"
        | .error e => s!"err({showLenErr e})"
      pure s!"ok(slice={showWin 0 s.slice.length},version={s.version},ihl={s.ihl},dscp={s.dcp},ecn={s.ecn},tlen={s.totalLen},plen={pl},id={s.identification},df={b01 s.dontFragment},mf={b01 s.moreFragments},fo={s.fragmentsOffset},ttl={s.ttl},proto={s.protocol},ck={s.headerChecksum},src={hexOfBytes s.source},dst={hexOfBytes s.destination},opts={showWin 20 s.options.length},frag={b01 s.isFragmentingPayload},hdr=({ipv4Fields s.toHeader}))"
  | _, _ => none

/-! ### IpAuthHeader -/

def authFields (h : IpAuthHeader) : String :=
  s!"nh={h.nextHeader},spi={h.spi},seq={h.sequenceNumber},icv={hexOfBytes h.rawIcv}"

def authErr : IpAuthErr → String
  | .len e => s!"err({showLenErr e})"
  | .zeroPayloadLen => "err(zeropayloadlen)"
  | .panicUnwrap => "panic"

def authValue (a : List String) : Option (Except String IpAuthHeader) :=
  match a with
  | [nh, spi, seq, icv] => do
    let nh ← argLt nh 256; let spi ← argLt spi 4294967296; let seq ← argLt seq 4294967296
    let icv ← argHex icv
    match IpAuthHeader.new nh spi seq icv with
    | .error (.tooBig n) => pure (.error s!"err(icv(TooBig({n})))")
    | .error (.unaligned n) => pure (.error s!"err(icv(Unaligned({n})))")
    | .ok h => pure (.ok h)
  | _ => none

def authDec (b : Bytes) : String :=
  match IpAuthHeader.fromSlice b with
  | .error e => authErr e
  | .ok (h, rest) => s!"ok({authFields h},rest={restWin b rest})"

def authOps (op : String) (args : List String) : Option String :=
  match op, args with
  | "enc.auth.to_bytes", a => do
    match ← authValue a with
    | .error e => pure e
    | .ok h =>
      let bytes := h.toBytes
      pure s!"ok(bytes={hexOfBytes bytes},write={sameOr bytes h.writeOut},len={h.headerLen},icv={hexOfBytes h.rawIcvAcc})"
  | "enc.auth.rt", a => do
    let tail ← argHex (← a.getLast?)
    match ← authValue a.dropLast with
    | .error e => pure e
    | .ok h => pure (authDec (h.toBytes ++ tail))
  | "enc.auth.from_slice", [h] => do pure (authDec (← argHex h))
  | "enc.auth.redec", [h] => do
    let b ← argHex h
    match IpAuthHeader.fromSlice b with
    | .error e => pure (authErr e)
    | .ok (h, rest) =>
      let again := authDec (h.toBytes ++ rest)
      pure s!"ok(bytes={hexOfBytes h.toBytes},again={again})"
  | "enc.authslice.from_slice", [h] => do
    let b ← argHex h
    match IpAuthHeaderSlice.fromSlice b with
    | .error e => pure (authErr e)
    | .ok s =>
      let hdr := match s.toHeader with
        | some h => s!"({authFields h})"
        | none => "panic"
      pure s!"ok(slice={showWin 0 s.slice.length},nh={s.nextHeader},spi={s.spi},seq={s.sequenceNumber},icv={showWin 12 s.rawIcv.length},hdr={hdr})"
  | _, _ => none

/-! ### Ipv6RawExtHeader -/

def rawExtFields (h : Ipv6RawExtHeader) : String :=
  s!"nh={h.nextHeader},payload={hexOfBytes h.payload}"

def rawExtErr : RawExtErr → String
  | .len e => s!"err({showLenErr e})"
  | .panicUnwrap => "panic"

def rawExtValue (a : List String) : Option (Except String Ipv6RawExtHeader) :=
  match a with
  | [nh, payload] => do
    let nh ← argLt nh 256; let payload ← argHex payload
    match Ipv6RawExtHeader.newRaw nh payload with
    | .error (.tooSmall n) => pure (.error s!"err(extlen(TooSmall({n})))")
    | .error (.tooBig n) => pure (.error s!"err(extlen(TooBig({n})))")
    | .error (.unaligned n) => pure (.error s!"err(extlen(Unaligned({n})))")
    | .ok h => pure (.ok h)
  | _ => none

def rawExtDec (b : Bytes) : String :=
  match Ipv6RawExtHeader.fromSlice b with
  | .error e => rawExtErr e
  | .ok (h, rest) => s!"ok({rawExtFields h},rest={restWin b rest})"

def rawExtOps (op : String) (args : List String) : Option String :=
  match op, args with
  | "enc.rawext.to_bytes", a => do
    match ← rawExtValue a with
    | .error e => pure e
    | .ok h =>
      let bytes := h.toBytes
      pure s!"ok(bytes={hexOfBytes bytes},write={sameOr bytes h.writeOut},len={h.headerLen},payload={hexOfBytes h.payloadAcc})"
  | "enc.rawext.rt", a => do
    let tail ← argHex (← a.getLast?)
    match ← rawExtValue a.dropLast with
    | .error e => pure e
    | .ok h => pure (rawExtDec (h.toBytes ++ tail))
  | "enc.rawext.from_slice", [h] => do pure (rawExtDec (← argHex h))
  | "enc.rawext.redec", [h] => do
    let b ← argHex h
    match Ipv6RawExtHeader.fromSlice b with
    | .error e => pure (rawExtErr e)
    | .ok (h, rest) =>
      let again := rawExtDec (h.toBytes ++ rest)
      pure s!"ok(bytes={hexOfBytes h.toBytes},again={again})"
  | "enc.rawextslice.from_slice", [h] => do
    let b ← argHex h
    match Ipv6RawExtHeaderSlice.fromSlice b with
    | .error e => pure (rawExtErr e)
    | .ok s =>
      let hdr := match s.toHeader with
        | some h => s!"({rawExtFields h})"
        | none => "panic"
      pure s!"ok(slice={showWin 0 s.slice.length},nh={s.nextHeader},payload={showWin 2 s.payload.length},hdr={hdr})"
  | _, _ => none

/-! ### Ipv4Extensions -/

def extsFields (e : Ipv4Extensions) : String :=
  match e.auth with
  | none => "auth=none"
  | some h => s!"auth=({authFields h})"

def extsWalkErr : Ipv4ExtsWalkError → String
  | .extNotReferenced m => s!"err(notreferenced({m}))"

def extsValue (a : List String) : Option (Except String Ipv4Extensions) :=
  match a with
  | ["none"] => some (.ok { auth := none })
  | a => do
    match ← authValue a with
    | .error e => pure (.error e)
    | .ok h => pure (.ok { auth := some h })

def extsDec (start : Nat) (b : Bytes) : String :=
  match Ipv4Extensions.fromSlice start b with
  | .error e => authErr e
  | .ok (e, next, rest) => s!"ok({extsFields e},next={next},rest={restWin b rest})"

def extsOps (op : String) (args : List String) : Option String :=
  match op, args with
  | "enc.ipv4exts.write", start :: a => do
    let start ← argLt start 256
    match ← extsValue a with
    | .error e => pure e
    | .ok e =>
      let next := match e.nextHeader start with
        | .ok n => s!"ok({n})"
        | .error x => extsWalkErr x
      match e.writeOut start with
      | .error x => pure s!"{extsWalkErr x},len={e.headerLen},next={next}"
      | .ok bytes => pure s!"ok(bytes={hexOfBytes bytes},len={e.headerLen},next={next})"
  | "enc.ipv4exts.rt", start :: a => do
    let start ← argLt start 256
    let tail ← argHex (← a.getLast?)
    match ← extsValue a.dropLast with
    | .error e => pure e
    | .ok e =>
      match e.writeOut start with
      | .error x => pure (extsWalkErr x)
      | .ok bytes => pure (extsDec start (bytes ++ tail))
  | "enc.ipv4exts.from_slice", [start, h] => do
    pure (extsDec (← argLt start 256) (← argHex h))
  | "enc.ipv4exts.redec", [start, h] => do
    let start ← argLt start 256
    let b ← argHex h
    match Ipv4Extensions.fromSlice start b with
    | .error e => pure (authErr e)
    | .ok (e, _, rest) =>
      match e.writeOut start with
      | .error x => pure (extsWalkErr x)
      | .ok bytes =>
        let again := extsDec start (bytes ++ rest)
        pure s!"ok(bytes={hexOfBytes bytes},again={again})"
  | "enc.ipv4extsslice.from_slice", [start, h] => do
    let start ← argLt start 256
    let b ← argHex h
    match Ipv4ExtensionsSlice.fromSlice start b with
    | .error e => pure (authErr e)
    | .ok (s, next, rest) =>
      let a := match s.auth with
        | none => "none"
        | some a => showWin 0 a.slice.length
      let hdr := match s.toHeader with
        | some e => s!"({extsFields e})"
        | none => "panic"
      pure s!"ok(auth={a},empty={b01 s.auth.isNone},next={next},rest={restWin b rest},hdr={hdr})"
  | _, _ => none

def run (op : String) (args : List String) : Option String :=
  match op.splitOn "." with
  | ["enc", "ipv4exts", _] | ["enc", "ipv4extsslice", _] => extsOps op args
  | ["enc", "ipv6", _] | ["enc", "ipv6slice", _] => ipv6Ops op args
  | ["enc", "ipv6frag", _] | ["enc", "ipv6fragslice", _] => fragOps op args
  | ["enc", "ipv4", _] | ["enc", "ipv4slice", _] => ipv4Ops op args
  | ["enc", "auth", _] | ["enc", "authslice", _] => authOps op args
  | ["enc", "rawext", _] | ["enc", "rawextslice", _] => rawExtOps op args
  | _ => none

end EpModel.Driver.EncNet
