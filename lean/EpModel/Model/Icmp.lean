import EpModel.Model.ViewBasic
/-
  Model of the ICMPv4 and ICMPv6 typed views, following the Rust code as written:
    transport/icmpv4_slice.rs   Icmpv4Slice::{from_slice, header_len, icmp_type, payload, …}
    transport/icmpv4_type.rs    Icmpv4Type::{header_len, fixed_payload_size}
    transport/icmpv4_header.rs  Icmpv4Header::from_slice
    transport/icmpv6_slice.rs   Icmpv6Slice::{from_slice, header_len, icmp_type, payload, …}
    transport/icmpv6_type.rs    Icmpv6Type::{type_u8, code_u8, header_len, fixed_payload_size}
    transport/icmpv6_header.rs  Icmpv6Header::from_slice
  A slice value `Icmpv4Slice { slice }` is its byte string (it always starts at offset 0 of the input).
-/
namespace EpModel.View
open EpModel

/-! ## ICMPv4 -/

/-- `icmpv4::DestUnreachableHeader` -/
inductive DestUnreachableHeader
  | network | host | protocol | port | fragmentationNeeded (nextHopMtu : Nat) | sourceRouteFailed
  | networkUnknown | hostUnknown | isolated | networkProhibited | hostProhibited | tosNetwork
  | tosHost | filterProhibited | hostPrecedenceViolation | precedenceCutoff
  deriving DecidableEq, Repr

/-- `icmpv4::RedirectCode` -/
inductive RedirectCode
  | redirectForNetwork | redirectForHost | redirectForTypeOfServiceAndNetwork
  | redirectForTypeOfServiceAndHost
  deriving DecidableEq, Repr

/-- `icmpv4::TimeExceededCode` -/
inductive TimeExceededCode4 | ttlExceededInTransit | fragmentReassemblyTimeExceeded
  deriving DecidableEq, Repr

/-- `icmpv4::ParameterProblemHeader` -/
inductive ParameterProblemHeader4
  | pointerIndicatesError (pointer : Nat) | missingRequiredOption | badLength
  deriving DecidableEq, Repr

/-- `IcmpEchoHeader` -/
structure EchoHeader where
  id : Nat
  seq : Nat
  deriving DecidableEq, Repr

/-- `icmpv4::TimestampMessage` -/
structure TimestampMessage where
  id : Nat
  seq : Nat
  originate : Nat
  receive : Nat
  transmit : Nat
  deriving DecidableEq, Repr

/-- `Icmpv4Type` -/
inductive Icmpv4Type
  | unknown (typeU8 codeU8 : Nat) (bytes5to8 : Bytes)
  | echoReply (h : EchoHeader)
  | destinationUnreachable (h : DestUnreachableHeader)
  | redirect (code : RedirectCode) (gateway : Bytes)
  | echoRequest (h : EchoHeader)
  | timeExceeded (c : TimeExceededCode4)
  | parameterProblem (h : ParameterProblemHeader4)
  | timestampRequest (m : TimestampMessage)
  | timestampReply (m : TimestampMessage)
  deriving DecidableEq, Repr

/-- `IcmpEchoHeader::from_bytes(bytes5to8)` read directly from the message. -/
def echoFromBytes (b : Bytes) : EchoHeader := { id := be16 b 4, seq := be16 b 6 }

/-- the local `timestamp_message(ptr)` of `Icmpv4Slice::icmp_type`. -/
def timestampMessage (b : Bytes) : TimestampMessage :=
  { id := be16 b 4, seq := be16 b 6, originate := be32 b 8, receive := be32 b 12,
    transmit := be32 b 16 }

/-- `Icmpv4Slice::from_slice`: at least 8 bytes; timestamp / timestamp reply with code 0 must be
    exactly 20 bytes. -/
def icmp4FromSlice (b : Bytes) : Except LenError Bytes :=
  if b.length < 8 then
    .error { req := 8, len := b.length, src := .slice, layer := .icmpv4, off := 0 }
  else if bAt b 0 = 13 ∧ bAt b 1 = 0 ∧ 20 ≠ b.length then
    .error { req := 20, len := b.length, src := .slice, layer := .icmpv4Timestamp, off := 0 }
  else if bAt b 0 = 14 ∧ bAt b 1 = 0 ∧ 20 ≠ b.length then
    .error { req := 20, len := b.length, src := .slice, layer := .icmpv4TimestampReply, off := 0 }
  else .ok b

/-- `Icmpv4Slice::header_len` (decided on the type and code bytes). -/
def icmp4SliceHeaderLen (b : Bytes) : Nat :=
  if (bAt b 0 = 13 ∨ bAt b 0 = 14) ∧ bAt b 1 = 0 then 20 else 8

/-- the destination-unreachable arm of `Icmpv4Slice::icmp_type`. -/
def destUnreachable4 (b : Bytes) : Option DestUnreachableHeader :=
  let c := bAt b 1
  if c = 0 then some .network
  else if c = 1 then some .host
  else if c = 2 then some .protocol
  else if c = 3 then some .port
  else if c = 4 then some (.fragmentationNeeded (be16 b 6))
  else if c = 5 then some .sourceRouteFailed
  else if c = 6 then some .networkUnknown
  else if c = 7 then some .hostUnknown
  else if c = 8 then some .isolated
  else if c = 9 then some .networkProhibited
  else if c = 10 then some .hostProhibited
  else if c = 11 then some .tosNetwork
  else if c = 12 then some .tosHost
  else if c = 13 then some .filterProhibited
  else if c = 14 then some .hostPrecedenceViolation
  else if c = 15 then some .precedenceCutoff
  else none

/-- the redirect arm: code byte to `RedirectCode`. -/
def redirectCode4 (c : Nat) : Option RedirectCode :=
  if c = 0 then some .redirectForNetwork
  else if c = 1 then some .redirectForHost
  else if c = 2 then some .redirectForTypeOfServiceAndNetwork
  else if c = 3 then some .redirectForTypeOfServiceAndHost
  else none

/-- `Icmpv4Slice::icmp_type`: the `match self.type_u8()` with its guards; every arm that does not
    return falls through to `Unknown`. -/
def icmp4Type (b : Bytes) : Icmpv4Type :=
  let t := bAt b 0
  let c := bAt b 1
  let unknown := Icmpv4Type.unknown t c (bytes5to8 b)
  if t = 0 ∧ c = 0 then .echoReply (echoFromBytes b)
  else if t = 3 then
    match destUnreachable4 b with
    | some h => .destinationUnreachable h
    | none => unknown
  else if t = 5 then
    match redirectCode4 c with
    | some code => .redirect code (bytes5to8 b)
    | none => unknown
  else if t = 8 ∧ c = 0 then .echoRequest (echoFromBytes b)
  else if t = 11 then
    if c = 0 then .timeExceeded .ttlExceededInTransit
    else if c = 1 then .timeExceeded .fragmentReassemblyTimeExceeded
    else unknown
  else if t = 12 then
    if c = 0 then .parameterProblem (.pointerIndicatesError (bAt b 4))
    else if c = 1 then .parameterProblem .missingRequiredOption
    else if c = 2 then .parameterProblem .badLength
    else unknown
  else if t = 13 ∧ c = 0 then .timestampRequest (timestampMessage b)
  else if t = 14 ∧ c = 0 then .timestampReply (timestampMessage b)
  else unknown

/-- `Icmpv4Type::header_len` (decided on the enum value: a second copy of the rule). -/
def Icmpv4Type.headerLen : Icmpv4Type → Nat
  | .timestampRequest _ => 20
  | .timestampReply _ => 20
  | _ => 8

/-- `Icmpv4Type::fixed_payload_size` -/
def Icmpv4Type.fixedPayloadSize : Icmpv4Type → Option Nat
  | .timestampRequest _ => some 0
  | .timestampReply _ => some 0
  | _ => none

/-- `Icmpv4Slice::payload`: `from_raw_parts(ptr + header_len, len - header_len)`; the header
    length is computed inline a third time.  The subtraction is only meaningful when
    `header_len ≤ len`, which is what `icmp4_payload_in_range` (Props/C17) proves for every
    accepted slice. -/
def icmp4Payload (b : Bytes) : Win :=
  let hl := if (bAt b 0 = 13 ∨ bAt b 0 = 14) ∧ bAt b 1 = 0 then 20 else 8
  { off := hl, len := b.length - hl }

/-- what `Icmpv4Header::from_slice` returns: the header (type + checksum) and the rest. -/
structure Icmp4HeaderRest where
  icmpType : Icmpv4Type
  checksum : Nat
  rest : Win
  deriving DecidableEq, Repr

/-- `Icmpv4Header::from_slice`: `Icmpv4Slice::from_slice(slice)?.header()`, then
    `&slice[header.header_len()..]` (a panicking index). -/
def icmp4HeaderFromSlice (b : Bytes) : Res LenError Icmp4HeaderRest :=
  match icmp4FromSlice b with
  | .error e => .err e
  | .ok s =>
    let ty := icmp4Type s
    let hl := ty.headerLen
    if hl ≤ b.length then
      .ok { icmpType := ty, checksum := be16 s 2, rest := { off := hl, len := b.length - hl } }
    else .panic

/-! ## ICMPv6 -/

/-- `icmpv6::DestUnreachableCode` -/
inductive DestUnreachableCode6
  | noRoute | prohibited | beyondScope | address | port | sourceAddressFailedPolicy | rejectRoute
  deriving DecidableEq, Repr

/-- `icmpv6::TimeExceededCode` -/
inductive TimeExceededCode6 | hopLimitExceeded | fragmentReassemblyTimeExceeded
  deriving DecidableEq, Repr

/-- `icmpv6::ParameterProblemCode` -/
inductive ParameterProblemCode6
  | erroneousHeaderField | unrecognizedNextHeader | unrecognizedIpv6Option
  | ipv6FirstFragmentIncompleteHeaderChain | srUpperLayerHeaderError
  | unrecognizedNextHeaderByIntermediateNode | extensionHeaderTooBig | extensionHeaderChainTooLong
  | tooManyExtensionHeaders | tooManyOptionsInExtensionHeader | optionTooBig
  deriving DecidableEq, Repr

/-- `icmpv6::RouterAdvertisementHeader` -/
structure RouterAdvertisementHeader where
  curHopLimit : Nat
  managedAddressConfig : Bool
  otherConfig : Bool
  routerLifetime : Nat
  deriving DecidableEq, Repr

/-- `icmpv6::NeighborAdvertisementHeader` -/
structure NeighborAdvertisementHeader where
  router : Bool
  solicited : Bool
  override : Bool
  deriving DecidableEq, Repr

/-- `Icmpv6Type` -/
inductive Icmpv6Type
  | unknown (typeU8 codeU8 : Nat) (bytes5to8 : Bytes)
  | destinationUnreachable (c : DestUnreachableCode6)
  | packetTooBig (mtu : Nat)
  | timeExceeded (c : TimeExceededCode6)
  | parameterProblem (code : ParameterProblemCode6) (pointer : Nat)
  | echoRequest (h : EchoHeader)
  | echoReply (h : EchoHeader)
  | routerSolicitation
  | routerAdvertisement (h : RouterAdvertisementHeader)
  | neighborSolicitation
  | neighborAdvertisement (h : NeighborAdvertisementHeader)
  | redirect
  deriving DecidableEq, Repr

/-- `DestUnreachableCode::from_u8` -/
def DestUnreachableCode6.fromU8 (c : Nat) : Option DestUnreachableCode6 :=
  if c = 0 then some .noRoute
  else if c = 1 then some .prohibited
  else if c = 2 then some .beyondScope
  else if c = 3 then some .address
  else if c = 4 then some .port
  else if c = 5 then some .sourceAddressFailedPolicy
  else if c = 6 then some .rejectRoute
  else none

/-- `TimeExceededCode::from_u8` -/
def TimeExceededCode6.fromU8 (c : Nat) : Option TimeExceededCode6 :=
  if c = 0 then some .hopLimitExceeded
  else if c = 1 then some .fragmentReassemblyTimeExceeded
  else none

/-- `ParameterProblemCode::from_u8` -/
def ParameterProblemCode6.fromU8 (c : Nat) : Option ParameterProblemCode6 :=
  if c = 0 then some .erroneousHeaderField
  else if c = 1 then some .unrecognizedNextHeader
  else if c = 2 then some .unrecognizedIpv6Option
  else if c = 3 then some .ipv6FirstFragmentIncompleteHeaderChain
  else if c = 4 then some .srUpperLayerHeaderError
  else if c = 5 then some .unrecognizedNextHeaderByIntermediateNode
  else if c = 6 then some .extensionHeaderTooBig
  else if c = 7 then some .extensionHeaderChainTooLong
  else if c = 8 then some .tooManyExtensionHeaders
  else if c = 9 then some .tooManyOptionsInExtensionHeader
  else if c = 10 then some .optionTooBig
  else none

/-- `MAX_ICMPV6_BYTE_LEN = u32::MAX as usize` -/
def maxIcmpv6ByteLen : Nat := 4294967295

/-- `Icmpv6Slice::from_slice` -/
def icmp6FromSlice (b : Bytes) : Except LenError Bytes :=
  if b.length < 8 then
    .error { req := 8, len := b.length, src := .slice, layer := .icmpv6, off := 0 }
  else if b.length > maxIcmpv6ByteLen then
    .error { req := maxIcmpv6ByteLen, len := b.length, src := .slice, layer := .icmpv6, off := 0 }
  else .ok b

/-- `RouterAdvertisementHeader::from_bytes(bytes5to8)` read directly from the message. -/
def routerAdvertisementHeader (b : Bytes) : RouterAdvertisementHeader :=
  { curHopLimit := bAt b 4, managedAddressConfig := bitSet (bAt b 5) 128,
    otherConfig := bitSet (bAt b 5) 64, routerLifetime := be16 b 6 }

/-- `NeighborAdvertisementHeader::from_bytes(bytes5to8)` -/
def neighborAdvertisementHeader (b : Bytes) : NeighborAdvertisementHeader :=
  { router := bitSet (bAt b 4) 128, solicited := bitSet (bAt b 4) 64,
    override := bitSet (bAt b 4) 32 }

/-- `Icmpv6Slice::icmp_type` -/
def icmp6Type (b : Bytes) : Icmpv6Type :=
  let t := bAt b 0
  let c := bAt b 1
  let unknown := Icmpv6Type.unknown t c (bytes5to8 b)
  if t = 1 then
    match DestUnreachableCode6.fromU8 c with
    | some code => .destinationUnreachable code
    | none => unknown
  else if t = 2 ∧ c = 0 then .packetTooBig (be32 b 4)
  else if t = 3 then
    match TimeExceededCode6.fromU8 c with
    | some code => .timeExceeded code
    | none => unknown
  else if t = 4 then
    match ParameterProblemCode6.fromU8 c with
    | some code => .parameterProblem code (be32 b 4)
    | none => unknown
  else if t = 128 ∧ c = 0 then .echoRequest (echoFromBytes b)
  else if t = 129 ∧ c = 0 then .echoReply (echoFromBytes b)
  else if t = 133 ∧ c = 0 then .routerSolicitation
  else if t = 134 ∧ c = 0 then .routerAdvertisement (routerAdvertisementHeader b)
  else if t = 135 ∧ c = 0 then .neighborSolicitation
  else if t = 136 ∧ c = 0 then .neighborAdvertisement (neighborAdvertisementHeader b)
  else if t = 137 ∧ c = 0 then .redirect
  else unknown

/-- `Icmpv6Type::type_u8` -/
def Icmpv6Type.typeU8 : Icmpv6Type → Nat
  | .unknown t _ _ => t
  | .destinationUnreachable _ => 1
  | .packetTooBig _ => 2
  | .timeExceeded _ => 3
  | .parameterProblem _ _ => 4
  | .echoRequest _ => 128
  | .echoReply _ => 129
  | .routerSolicitation => 133
  | .routerAdvertisement _ => 134
  | .neighborSolicitation => 135
  | .neighborAdvertisement _ => 136
  | .redirect => 137

def DestUnreachableCode6.codeU8 : DestUnreachableCode6 → Nat
  | .noRoute => 0 | .prohibited => 1 | .beyondScope => 2 | .address => 3 | .port => 4
  | .sourceAddressFailedPolicy => 5 | .rejectRoute => 6

def TimeExceededCode6.codeU8 : TimeExceededCode6 → Nat
  | .hopLimitExceeded => 0 | .fragmentReassemblyTimeExceeded => 1

def ParameterProblemCode6.codeU8 : ParameterProblemCode6 → Nat
  | .erroneousHeaderField => 0 | .unrecognizedNextHeader => 1 | .unrecognizedIpv6Option => 2
  | .ipv6FirstFragmentIncompleteHeaderChain => 3 | .srUpperLayerHeaderError => 4
  | .unrecognizedNextHeaderByIntermediateNode => 5 | .extensionHeaderTooBig => 6
  | .extensionHeaderChainTooLong => 7 | .tooManyExtensionHeaders => 8
  | .tooManyOptionsInExtensionHeader => 9 | .optionTooBig => 10

/-- `Icmpv6Type::code_u8` -/
def Icmpv6Type.codeU8 : Icmpv6Type → Nat
  | .unknown _ c _ => c
  | .destinationUnreachable c => c.codeU8
  | .timeExceeded c => c.codeU8
  | .parameterProblem c _ => c.codeU8
  | _ => 0

/-- `Icmpv6Type::header_len` (always 8). -/
def Icmpv6Type.headerLen (_ : Icmpv6Type) : Nat := 8

/-- `Icmpv6Type::fixed_payload_size` (always `None`). -/
def Icmpv6Type.fixedPayloadSize (_ : Icmpv6Type) : Option Nat := none

/-- `Icmpv6Slice::payload`: `from_raw_parts(ptr + 8, len - 8)`. -/
def icmp6Payload (b : Bytes) : Win := { off := 8, len := b.length - 8 }

structure Icmp6HeaderRest where
  icmpType : Icmpv6Type
  checksum : Nat
  rest : Win
  deriving DecidableEq, Repr

/-- `Icmpv6Header::from_slice` -/
def icmp6HeaderFromSlice (b : Bytes) : Res LenError Icmp6HeaderRest :=
  match icmp6FromSlice b with
  | .error e => .err e
  | .ok s =>
    let ty := icmp6Type s
    let hl := ty.headerLen
    if hl ≤ b.length then
      .ok { icmpType := ty, checksum := be16 s 2, rest := { off := hl, len := b.length - hl } }
    else .panic

end EpModel.View
