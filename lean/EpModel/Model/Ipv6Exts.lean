/-
  Model of `Ipv6Extensions` (etherparse/src/net/ipv6_exts.rs), `Ipv6RoutingExtensions`
  (ipv6_routing_exts.rs) and of the three header types it stores
  (`Ipv6RawExtHeader`, `Ipv6FragmentHeader`, `IpAuthHeader` and their `*Slice::from_slice`).

  The five walkers of the extension chain are modelled separately, each following its Rust function
  as written:

    `setNextHeaders`  ↔ `Ipv6Extensions::set_next_headers`
    `nextHeader`      ↔ `Ipv6Extensions::next_header`           (OutstandingRef bookkeeping)
    `write`           ↔ `Ipv6Extensions::write_internal`/`write` (NeedsWrite bookkeeping)
    `headerLen`       ↔ `Ipv6Extensions::header_len`
    `fromSlice`       ↔ `Ipv6Extensions::from_slice`

  `unwrap()` calls are modelled as explicit `Fault.panic` results (never totalised away); that no
  input reaches them is a theorem (Props/C12.lean), not a modelling decision.
  Core Lean only.
-/
import EpModel.Model.Basic
set_option linter.unusedVariables false
namespace EpModel.Ext

/-! ### IP numbers (ip_number_impl.rs) -/
abbrev IPV6_HOP_BY_HOP : Nat := 0
abbrev IPV6_ROUTE : Nat := 43
abbrev IPV6_FRAG : Nat := 44
abbrev ENCAP_SEC : Nat := 50
abbrev AUTH : Nat := 51
abbrev IPV6_DEST_OPTIONS : Nat := 60
abbrev MOBILITY : Nat := 135
abbrev HIP : Nat := 139
abbrev SHIM6 : Nat := 140
abbrev EXP0 : Nat := 253
abbrev EXP1 : Nat := 254

/-- `IpNumber::is_ipv6_ext_header_value` -/
def isIpv6ExtHeaderValue (n : Nat) : Bool :=
  n = 0 ∨ n = 43 ∨ n = 44 ∨ n = 50 ∨ n = 51 ∨ n = 60 ∨ n = 135 ∨ n = 139 ∨ n = 140 ∨ n = 253 ∨ n = 254

/-- the five numbers the walkers of `Ipv6Extensions` react to (the `match` arms of the loops). -/
def isWalked (n : Nat) : Bool := n = 0 ∨ n = 60 ∨ n = 43 ∨ n = 44 ∨ n = 51

/-! ### Faults and errors -/

/-- `panic`: an `unwrap()` on `None` / `Err` (what a Rust build does); `err`: an ordinary Rust error value. -/
inductive Fault (ε : Type) where
  | panic
  | err (e : ε)
deriving DecidableEq, Repr

/-- `err::ipv6_exts::ExtsWalkError` -/
inductive WalkErr where
  | hopByHopNotAtStart
  | extNotReferenced (missingExt : Nat)
deriving DecidableEq, Repr

inductive Layer where
  | ipv6ExtHeader | ipv6FragHeader | ipAuthHeader
  | ipv6HopByHopHeader | ipv6DestOptionsHeader | ipv6RouteHeader
deriving DecidableEq, Repr

inductive LenSource where
  | slice
deriving DecidableEq, Repr

/-- `err::LenError` -/
structure LenError where
  requiredLen : Nat
  len : Nat
  lenSource : LenSource
  layer : Layer
  layerStartOffset : Nat
deriving DecidableEq, Repr

def LenError.addOffset (e : LenError) (o : Nat) : LenError :=
  { e with layerStartOffset := e.layerStartOffset + o }

/-- `err::ip_auth::HeaderError` -/
inductive AuthHeaderError where
  | zeroPayloadLen
deriving DecidableEq, Repr

/-- `err::ip_auth::HeaderSliceError` -/
inductive AuthSliceErr where
  | len (e : LenError)
  | content (e : AuthHeaderError)
deriving DecidableEq, Repr

/-- `err::ipv6_exts::HeaderError` -/
inductive HeaderError where
  | hopByHopNotAtStart
  | ipAuth (e : AuthHeaderError)
deriving DecidableEq, Repr

/-- `err::ipv6_exts::HeaderSliceError` -/
inductive SliceErr where
  | len (e : LenError)
  | content (e : HeaderError)
deriving DecidableEq, Repr

/-! ### `Ipv6RawExtHeader` -/

/-- `next_header` plus `payload()` (the private `header_length`/`payload_buffer` pair of the Rust
    struct is represented by the payload bytes; `header_length` is recomputed as `new_raw` does). -/
structure Raw where
  nextHeader : Nat
  payload : Bytes
deriving DecidableEq, Repr

inductive ExtPayloadLenError where
  | tooSmall (n : Nat) | tooBig (n : Nat) | unaligned (n : Nat)
deriving DecidableEq, Repr

/-- `Ipv6RawExtHeader::new_raw` -/
def Raw.newRaw (nextHeader : Nat) (payload : Bytes) : Except ExtPayloadLenError Raw :=
  if payload.length < 6 then .error (.tooSmall payload.length)
  else if payload.length > 2046 then .error (.tooBig payload.length)
  else if 0 ≠ (payload.length + 2) % 8 then .error (.unaligned payload.length)
  else .ok { nextHeader := nextHeader, payload := payload }

/-- the private field `header_length` (`((payload.len() - 6) / 8) as u8`). -/
def Raw.headerLength (r : Raw) : Nat := ((r.payload.length - 6) / 8) % 256

/-- `Ipv6RawExtHeader::header_len` -/
def Raw.headerLen (r : Raw) : Nat := 2 + (6 + r.headerLength * 8)

/-- `Ipv6RawExtHeader::to_bytes` -/
def Raw.toBytes (r : Raw) : Bytes := [u8 r.nextHeader, u8 r.headerLength] ++ r.payload

/-- type invariant of `Ipv6RawExtHeader` (established by `new_raw`/`set_payload`/`read`, the fields
    are private) and of `IpNumber(u8)`. -/
def Raw.WF (r : Raw) : Prop :=
  r.nextHeader < 256 ∧ 6 ≤ r.payload.length ∧ r.payload.length ≤ 2046 ∧ (r.payload.length + 2) % 8 = 0

instance (r : Raw) : Decidable r.WF := by unfold Raw.WF; exact inferInstance

/-- `Ipv6RawExtHeaderSlice::from_slice`: length of the header slice, or the length error. -/
def rawSliceLen (s : Bytes) : Except LenError Nat :=
  if s.length < 8 then
    .error { requiredLen := 8, len := s.length, lenSource := .slice, layer := .ipv6ExtHeader, layerStartOffset := 0 }
  else
    let len := (bAt s 1 + 1) * 8
    if s.length < len then
      .error { requiredLen := len, len := s.length, lenSource := .slice, layer := .ipv6ExtHeader, layerStartOffset := 0 }
    else .ok len

/-- `Ipv6RawExtHeaderSlice::to_header` of the slice `s[..len]`:
    `Ipv6RawExtHeader::new_raw(self.next_header(), self.payload()).unwrap()` -/
def rawToHeader (s : Bytes) (len : Nat) : Except (Fault SliceErr) Raw :=
  match Raw.newRaw (bAt s 0) (sub s 2 (len - 2)) with
  | .ok r => .ok r
  | .error _ => .error .panic

/-! ### `Ipv6FragmentHeader` -/

structure Frag where
  nextHeader : Nat
  /-- `IpFragOffset` (13 bit) -/
  fragmentOffset : Nat
  moreFragments : Bool
  identification : Nat
deriving DecidableEq, Repr

def Frag.WF (f : Frag) : Prop :=
  f.nextHeader < 256 ∧ f.fragmentOffset ≤ 8191 ∧ f.identification < 4294967296

instance (f : Frag) : Decidable f.WF := by unfold Frag.WF; exact inferInstance

/-- `Ipv6FragmentHeader::to_bytes`.  `(offset << 3) | more`: the three low bits of the shifted
    value are zero, so the `|` with 0/1 is written as `+`. -/
def Frag.toBytes (f : Frag) : Bytes :=
  [u8 f.nextHeader, 0] ++ enc16 ((f.fragmentOffset * 8) % 65536 + (if f.moreFragments then 1 else 0))
    ++ enc32 f.identification

/-- `Ipv6FragmentHeader::header_len` -/
def Frag.headerLen (_ : Frag) : Nat := 8

/-- `Ipv6FragmentHeader::is_fragmenting_payload` -/
def Frag.isFragmentingPayload (f : Frag) : Bool := f.moreFragments || (0 != f.fragmentOffset)

/-- `Ipv6FragmentHeaderSlice::from_slice` + `to_header` -/
def fragFromSlice (s : Bytes) : Except LenError Frag :=
  if s.length < 8 then
    .error { requiredLen := 8, len := s.length, lenSource := .slice, layer := .ipv6FragHeader, layerStartOffset := 0 }
  else
    .ok { nextHeader := bAt s 0
          fragmentOffset := be16 s 2 / 8
          moreFragments := decide (bAt s 3 % 2 ≠ 0)
          identification := be32 s 4 }

/-! ### `IpAuthHeader` -/

structure Auth where
  nextHeader : Nat
  spi : Nat
  sequenceNumber : Nat
  rawIcv : Bytes
deriving DecidableEq, Repr

inductive IcvLenError where
  | tooBig (n : Nat) | unaligned (n : Nat)
deriving DecidableEq, Repr

/-- `IpAuthHeader::new` -/
def Auth.new (nextHeader spi sequenceNumber : Nat) (rawIcv : Bytes) : Except IcvLenError Auth :=
  if rawIcv.length > 1016 then .error (.tooBig rawIcv.length)
  else if 0 ≠ rawIcv.length % 4 then .error (.unaligned rawIcv.length)
  else .ok { nextHeader := nextHeader, spi := spi, sequenceNumber := sequenceNumber, rawIcv := rawIcv }

/-- the private field `raw_icv_len` (`(raw_icv.len() / 4) as u8`) -/
def Auth.rawIcvLen (a : Auth) : Nat := (a.rawIcv.length / 4) % 256

/-- `IpAuthHeader::header_len` -/
def Auth.headerLen (a : Auth) : Nat := 12 + a.rawIcvLen * 4

/-- `IpAuthHeader::to_bytes` (`raw_icv_len + 1` is a `u8` addition; `raw_icv_len ≤ 0xfe` by the type
    invariant so it does not overflow). -/
def Auth.toBytes (a : Auth) : Bytes :=
  [u8 a.nextHeader, u8 (a.rawIcvLen + 1), 0, 0] ++ enc32 a.spi ++ enc32 a.sequenceNumber ++ a.rawIcv

def Auth.WF (a : Auth) : Prop :=
  a.nextHeader < 256 ∧ a.spi < 4294967296 ∧ a.sequenceNumber < 4294967296 ∧
  a.rawIcv.length ≤ 1016 ∧ a.rawIcv.length % 4 = 0

instance (a : Auth) : Decidable a.WF := by unfold Auth.WF; exact inferInstance

/-- `IpAuthHeaderSlice::from_slice`: length of the header slice or the error. -/
def authSliceLen (s : Bytes) : Except AuthSliceErr Nat :=
  if s.length < 12 then
    .error (.len { requiredLen := 12, len := s.length, lenSource := .slice, layer := .ipAuthHeader, layerStartOffset := 0 })
  else
    let payloadLenEnc := bAt s 1
    if payloadLenEnc < 1 then .error (.content .zeroPayloadLen)
    else
      let len := (payloadLenEnc + 2) * 4
      if s.length < len then
        .error (.len { requiredLen := len, len := s.length, lenSource := .slice, layer := .ipAuthHeader, layerStartOffset := 0 })
      else .ok len

/-- `IpAuthHeaderSlice::to_header` of `s[..len]`: `IpAuthHeader::new(..).unwrap()` -/
def authToHeader {ε : Type} (s : Bytes) (len : Nat) : Except (Fault ε) Auth :=
  match Auth.new (bAt s 0) (be32 s 4) (be32 s 8) (sub s 12 (len - 12)) with
  | .ok a => .ok a
  | .error _ => .error .panic

/-! ### `Ipv6RoutingExtensions`, `Ipv6Extensions` -/

structure Routing where
  routing : Raw
  finalDestinationOptions : Option Raw
deriving DecidableEq, Repr

structure Exts where
  hopByHopOptions : Option Raw
  destinationOptions : Option Raw
  routing : Option Routing
  fragment : Option Frag
  auth : Option Auth
deriving DecidableEq, Repr

/-- `Default::default()` -/
def Exts.empty : Exts :=
  { hopByHopOptions := none, destinationOptions := none, routing := none, fragment := none, auth := none }

/-- the optional "final destination options" header (only representable behind a routing header). -/
def Exts.finalDest (e : Exts) : Option Raw :=
  match e.routing with
  | some r => r.finalDestinationOptions
  | none => none

def optWF {α : Type} (p : α → Prop) : Option α → Prop
  | none => True
  | some a => p a

instance {α : Type} (p : α → Prop) [DecidablePred p] (o : Option α) : Decidable (optWF p o) := by
  cases o <;> unfold optWF <;> exact inferInstance

/-- type invariants of all present headers. -/
def Exts.WF (e : Exts) : Prop :=
  optWF Raw.WF e.hopByHopOptions ∧ optWF Raw.WF e.destinationOptions ∧
  optWF (fun r => r.routing.WF ∧ optWF Raw.WF r.finalDestinationOptions) e.routing ∧
  optWF Frag.WF e.fragment ∧ optWF Auth.WF e.auth

instance (e : Exts) : Decidable e.WF := by unfold Exts.WF; exact inferInstance

/-! ### `header_len` -/

/-- `Ipv6Extensions::header_len` -/
def Exts.headerLen (e : Exts) : Nat :=
  let result := 0
  let result := match e.hopByHopOptions with
    | some h => result + h.headerLen
    | none => result
  let result := match e.destinationOptions with
    | some h => result + h.headerLen
    | none => result
  let result := match e.routing with
    | some r =>
      let result := result + r.routing.headerLen
      match r.finalDestinationOptions with
      | some h => result + h.headerLen
      | none => result
    | none => result
  let result := match e.fragment with
    | some h => result + h.headerLen
    | none => result
  let result := match e.auth with
    | some h => result + h.headerLen
    | none => result
  result

/-! ### `set_next_headers` -/

/-- `Ipv6Extensions::set_next_headers`: the updated struct and the returned first number. -/
def Exts.setNextHeaders (e : Exts) (lastProtocolNumber : Nat) : Exts × Nat :=
  let next := lastProtocolNumber
  -- if let Some(routing) { if let Some(final_destination_options) … }
  let (routing, next) : Option Routing × Nat := match e.routing with
    | some r => match r.finalDestinationOptions with
      | some h => (some { r with finalDestinationOptions := some { h with nextHeader := next } }, IPV6_DEST_OPTIONS)
      | none => (some r, next)
    | none => (none, next)
  let (auth, next) : Option Auth × Nat := match e.auth with
    | some h => (some { h with nextHeader := next }, AUTH)
    | none => (none, next)
  let (fragment, next) : Option Frag × Nat := match e.fragment with
    | some h => (some { h with nextHeader := next }, IPV6_FRAG)
    | none => (none, next)
  let (routing, next) : Option Routing × Nat := match routing with
    | some r => (some { r with routing := { r.routing with nextHeader := next } }, IPV6_ROUTE)
    | none => (none, next)
  let (dest, next) : Option Raw × Nat := match e.destinationOptions with
    | some h => (some { h with nextHeader := next }, IPV6_DEST_OPTIONS)
    | none => (none, next)
  let (hop, next) : Option Raw × Nat := match e.hopByHopOptions with
    | some h => (some { h with nextHeader := next }, IPV6_HOP_BY_HOP)
    | none => (none, next)
  ({ hopByHopOptions := hop, destinationOptions := dest, routing := routing, fragment := fragment, auth := auth }, next)

/-! ### the bookkeeping shared (as a copy) by `next_header` and `write_internal` -/

/-- `OutstandingRef` / `NeedsWrite` -/
structure Flags where
  hopByHopOptions : Bool
  destinationOptions : Bool
  routing : Bool
  fragment : Bool
  auth : Bool
  finalDestinationOptions : Bool
deriving DecidableEq, Repr

/-- the initialiser of `outstanding_refs` / `needs_write` -/
def Flags.ofExts (e : Exts) : Flags :=
  { hopByHopOptions := e.hopByHopOptions.isSome
    destinationOptions := e.destinationOptions.isSome
    routing := e.routing.isSome
    fragment := e.fragment.isSome
    auth := e.auth.isSome
    finalDestinationOptions := match e.routing with
      | some r => r.finalDestinationOptions.isSome
      | none => false }

/-- number of flags the loops can still clear (termination measure of both loops). -/
def Flags.count (f : Flags) : Nat :=
  f.destinationOptions.toNat + f.routing.toNat + f.fragment.toNat + f.auth.toNat + f.finalDestinationOptions.toNat

/-- the final "all headers referenced / written" check (same order in both functions). -/
def Flags.check (f : Flags) : Except (Fault WalkErr) Unit :=
  if f.hopByHopOptions then .error (.err (.extNotReferenced IPV6_HOP_BY_HOP))
  else if f.destinationOptions then .error (.err (.extNotReferenced IPV6_DEST_OPTIONS))
  else if f.routing then .error (.err (.extNotReferenced IPV6_ROUTE))
  else if f.fragment then .error (.err (.extNotReferenced IPV6_FRAG))
  else if f.auth then .error (.err (.extNotReferenced AUTH))
  else if f.finalDestinationOptions then .error (.err (.extNotReferenced IPV6_DEST_OPTIONS))
  else .ok ()

/-! ### `next_header` -/

/-- the `loop` of `Ipv6Extensions::next_header`; `break` returns the flags and the current number. -/
def nextHeaderLoop (e : Exts) (fl : Flags) (routeRefed : Bool) : Nat → Except (Fault WalkErr) (Flags × Nat)
  | 0 =>
    if fl.hopByHopOptions then .error (.err .hopByHopNotAtStart) else .ok (fl, 0)
  | 60 =>
    if routeRefed then
      if h : fl.finalDestinationOptions = true then
        match e.routing with
        | none => .error .panic
        | some r =>
          match r.finalDestinationOptions with
          | none => .error .panic
          | some header =>
            nextHeaderLoop e { fl with finalDestinationOptions := false } routeRefed header.nextHeader
      else .ok (fl, 60)
    else if h : fl.destinationOptions = true then
      match e.destinationOptions with
      | none => .error .panic
      | some header => nextHeaderLoop e { fl with destinationOptions := false } routeRefed header.nextHeader
    else .ok (fl, 60)
  | 43 =>
    if h : fl.routing = true then
      match e.routing with
      | none => .error .panic
      | some r => nextHeaderLoop e { fl with routing := false } true r.routing.nextHeader
    else .ok (fl, 43)
  | 44 =>
    if h : fl.fragment = true then
      match e.fragment with
      | none => .error .panic
      | some header => nextHeaderLoop e { fl with fragment := false } routeRefed header.nextHeader
    else .ok (fl, 44)
  | 51 =>
    if h : fl.auth = true then
      match e.auth with
      | none => .error .panic
      | some header => nextHeaderLoop e { fl with auth := false } routeRefed header.nextHeader
    else .ok (fl, 51)
  | n => .ok (fl, n)
termination_by fl.count
decreasing_by
  all_goals simp [Flags.count, h]

/-- the code behind the `loop` of `next_header`: an error `return`ed from inside the loop is passed
    on, after a `break` the outstanding flags are checked ("assume all done"). -/
def finishWalk : Except (Fault WalkErr) (Flags × Nat) → Except (Fault WalkErr) Nat
  | .error f => .error f
  | .ok (fl, next) =>
    match fl.check with
    | .error f => .error f
    | .ok () => .ok next

/-- `Ipv6Extensions::next_header` -/
def Exts.nextHeader (e : Exts) (firstNextHeader : Nat) : Except (Fault WalkErr) Nat :=
  let fl := Flags.ofExts e
  -- check if hop by hop header should be written first
  let (fl, next) : Flags × Nat :=
    if IPV6_HOP_BY_HOP = firstNextHeader then
      match e.hopByHopOptions with
      | some header => ({ fl with hopByHopOptions := false }, header.nextHeader)
      | none => (fl, firstNextHeader)
    else (fl, firstNextHeader)
  finishWalk (nextHeaderLoop e fl false next)

/-! ### `write_internal` / `write` (into a writer that never fails; I/O faults are C16) -/

/-- the `loop` of `write_internal`: writer content after the loop, and the `break` state or the error. -/
def writeLoop (e : Exts) (fl : Flags) (routeWritten : Bool) (out : Bytes) :
    Nat → Bytes × Except (Fault WalkErr) (Flags × Nat)
  | 0 =>
    if fl.hopByHopOptions then (out, .error (.err .hopByHopNotAtStart)) else (out, .ok (fl, 0))
  | 60 =>
    if routeWritten then
      if h : fl.finalDestinationOptions = true then
        match e.routing with
        | none => (out, .error .panic)
        | some r =>
          match r.finalDestinationOptions with
          | none => (out, .error .panic)
          | some header =>
            writeLoop e { fl with finalDestinationOptions := false } routeWritten (out ++ header.toBytes) header.nextHeader
      else (out, .ok (fl, 60))
    else if h : fl.destinationOptions = true then
      match e.destinationOptions with
      | none => (out, .error .panic)
      | some header =>
        writeLoop e { fl with destinationOptions := false } routeWritten (out ++ header.toBytes) header.nextHeader
    else (out, .ok (fl, 60))
  | 43 =>
    if h : fl.routing = true then
      match e.routing with
      | none => (out, .error .panic)
      | some r => writeLoop e { fl with routing := false } true (out ++ r.routing.toBytes) r.routing.nextHeader
    else (out, .ok (fl, 43))
  | 44 =>
    if h : fl.fragment = true then
      match e.fragment with
      | none => (out, .error .panic)
      | some header => writeLoop e { fl with fragment := false } routeWritten (out ++ header.toBytes) header.nextHeader
    else (out, .ok (fl, 44))
  | 51 =>
    if h : fl.auth = true then
      match e.auth with
      | none => (out, .error .panic)
      | some header => writeLoop e { fl with auth := false } routeWritten (out ++ header.toBytes) header.nextHeader
    else (out, .ok (fl, 51))
  | n => (out, .ok (fl, n))
termination_by fl.count
decreasing_by
  all_goals simp [Flags.count, h]

/-- the code behind the `loop` of `write_internal` ("check that all header have been written"). -/
def finishWrite : Bytes × Except (Fault WalkErr) (Flags × Nat) → Bytes × Except (Fault WalkErr) Unit
  | (out, .error f) => (out, .error f)
  | (out, .ok (fl, _)) => (out, fl.check)

/-- `Ipv6Extensions::write`: bytes handed to the writer (also in the error case) and the result. -/
def Exts.write (e : Exts) (firstHeader : Nat) : Bytes × Except (Fault WalkErr) Unit :=
  let fl := Flags.ofExts e
  let (fl, next, out) : Flags × Nat × Bytes :=
    if IPV6_HOP_BY_HOP = firstHeader then
      match e.hopByHopOptions with
      | some header => ({ fl with hopByHopOptions := false }, header.nextHeader, header.toBytes)
      | none => (fl, firstHeader, [])
    else (fl, firstHeader, [])
  finishWrite (writeLoop e fl false out next)

/-! ### `is_fragmenting_payload` -/

def Exts.isFragmentingPayload (e : Exts) : Bool :=
  match e.fragment with
  | some frag => frag.isFragmentingPayload
  | none => false

/-! ### `from_slice` -/

/-- `Len(err.add_offset(slice.len() - rest.len()))`: the `usize` subtraction panics on underflow
    (debug build / overflow checks), it is therefore modelled as partial. -/
def lenErrAt (slice rest : Bytes) (err : LenError) : Fault SliceErr :=
  if rest.length ≤ slice.length then .err (.len (err.addOffset (slice.length - rest.length)))
  else .panic

/-- number of slots of `result` the loop can still fill (termination measure). -/
def Exts.freeSlots (r : Exts) : Nat :=
  (if r.destinationOptions.isSome then 0 else 1) +
  (match r.routing with
   | none => 2
   | some ro => if ro.finalDestinationOptions.isSome then 0 else 1) +
  (if r.fragment.isSome then 0 else 1) + (if r.auth.isSome then 0 else 1)

/-- the `loop` of `Ipv6Extensions::from_slice`.  `slice` is the whole input (for the error offsets),
    `rest` the unread part. -/
def fromSliceLoop (slice : Bytes) (result : Exts) (rest : Bytes) :
    Nat → Except (Fault SliceErr) (Exts × Nat × Bytes)
  | 0 => .error (.err (.content .hopByHopNotAtStart))
  | 60 =>
    match hr : result.routing with
    | some routing =>
      -- if the routing header is already present this is a "final destination options" header
      match hf : routing.finalDestinationOptions with
      | some _ => .ok (result, 60, rest)
      | none =>
        match rawSliceLen rest with
        | .error err => .error (lenErrAt slice rest err)
        | .ok len =>
          match rawToHeader rest len with
          | .error f => .error f
          | .ok header =>
            fromSliceLoop slice { result with routing := some { routing with finalDestinationOptions := some header } }
              (rest.drop len) header.nextHeader
    | none =>
      match hd : result.destinationOptions with
      | some _ => .ok (result, 60, rest)
      | none =>
        match rawSliceLen rest with
        | .error err => .error (lenErrAt slice rest err)
        | .ok len =>
          match rawToHeader rest len with
          | .error f => .error f
          | .ok header =>
            fromSliceLoop slice { result with destinationOptions := some header } (rest.drop len) header.nextHeader
  | 43 =>
    match hr : result.routing with
    | some _ => .ok (result, 43, rest)
    | none =>
      match rawSliceLen rest with
      | .error err => .error (lenErrAt slice rest err)
      | .ok len =>
        match rawToHeader rest len with
        | .error f => .error f
        | .ok header =>
          fromSliceLoop slice { result with routing := some { routing := header, finalDestinationOptions := none } }
            (rest.drop len) header.nextHeader
  | 44 =>
    match hfr : result.fragment with
    | some _ => .ok (result, 44, rest)
    | none =>
      match fragFromSlice rest with
      | .error err => .error (lenErrAt slice rest err)
      | .ok header =>
        fromSliceLoop slice { result with fragment := some header } (rest.drop 8) header.nextHeader
  | 51 =>
    match ha : result.auth with
    | some _ => .ok (result, 51, rest)
    | none =>
      match authSliceLen rest with
      | .error (.len err) => .error (lenErrAt slice rest err)
      | .error (.content err) => .error (.err (.content (.ipAuth err)))
      | .ok len =>
        match authToHeader rest len with
        | .error f => .error f
        | .ok header =>
          fromSliceLoop slice { result with auth := some header } (rest.drop len) header.nextHeader
  | n => .ok (result, n, rest)
termination_by result.freeSlots
decreasing_by
  all_goals simp [Exts.freeSlots, *]

/-- `Ipv6Extensions::from_slice`: the decoded struct, the next ip number and the unread rest. -/
def Exts.fromSlice (startIpNumber : Nat) (slice : Bytes) : Except (Fault SliceErr) (Exts × Nat × Bytes) :=
  -- the hop by hop header is required to occur directly after the ipv6 header
  if IPV6_HOP_BY_HOP = startIpNumber then
    match rawSliceLen slice with
    | .error err => .error (.err (.len err))
    | .ok len =>
      match rawToHeader slice len with
      | .error f => .error f
      | .ok header =>
        fromSliceLoop slice { Exts.empty with hopByHopOptions := some header } (slice.drop len) header.nextHeader
  else fromSliceLoop slice Exts.empty slice startIpNumber

/-! ### `from_slice_lax` (a second copy of the `from_slice` loop that returns what was decoded
    together with the error) -/

abbrev LaxResult := Exts × Nat × Bytes × Option (SliceErr × Layer)

/-- `Some((Len(err.add_offset(slice.len() - rest.len())), layer))` -/
def laxLenErr (slice : Bytes) (result : Exts) (next : Nat) (rest : Bytes) (err : LenError) (layer : Layer) :
    Except (Fault SliceErr) LaxResult :=
  match lenErrAt slice rest err with
  | .panic => .error .panic
  | .err e => .ok (result, next, rest, some (e, layer))

/-- the `loop` of `Ipv6Extensions::from_slice_lax`. -/
def fromSliceLaxLoop (slice : Bytes) (result : Exts) (rest : Bytes) :
    Nat → Except (Fault SliceErr) LaxResult
  | 0 => .ok (result, 0, rest, some (.content .hopByHopNotAtStart, .ipv6HopByHopHeader))
  | 60 =>
    match hr : result.routing with
    | some routing =>
      match hf : routing.finalDestinationOptions with
      | some _ => .ok (result, 60, rest, none)
      | none =>
        match rawSliceLen rest with
        | .error err => laxLenErr slice result 60 rest err .ipv6DestOptionsHeader
        | .ok len =>
          match rawToHeader rest len with
          | .error f => .error f
          | .ok header =>
            fromSliceLaxLoop slice { result with routing := some { routing with finalDestinationOptions := some header } }
              (rest.drop len) header.nextHeader
    | none =>
      match hd : result.destinationOptions with
      | some _ => .ok (result, 60, rest, none)
      | none =>
        match rawSliceLen rest with
        | .error err => laxLenErr slice result 60 rest err .ipv6DestOptionsHeader
        | .ok len =>
          match rawToHeader rest len with
          | .error f => .error f
          | .ok header =>
            fromSliceLaxLoop slice { result with destinationOptions := some header } (rest.drop len) header.nextHeader
  | 43 =>
    match hr : result.routing with
    | some _ => .ok (result, 43, rest, none)
    | none =>
      match rawSliceLen rest with
      | .error err => laxLenErr slice result 43 rest err .ipv6RouteHeader
      | .ok len =>
        match rawToHeader rest len with
        | .error f => .error f
        | .ok header =>
          fromSliceLaxLoop slice { result with routing := some { routing := header, finalDestinationOptions := none } }
            (rest.drop len) header.nextHeader
  | 44 =>
    match hfr : result.fragment with
    | some _ => .ok (result, 44, rest, none)
    | none =>
      match fragFromSlice rest with
      | .error err => laxLenErr slice result 44 rest err .ipv6FragHeader
      | .ok header =>
        fromSliceLaxLoop slice { result with fragment := some header } (rest.drop 8) header.nextHeader
  | 51 =>
    match ha : result.auth with
    | some _ => .ok (result, 51, rest, none)
    | none =>
      match authSliceLen rest with
      | .error (.len err) => laxLenErr slice result 51 rest err .ipAuthHeader
      | .error (.content err) => .ok (result, 51, rest, some (.content (.ipAuth err), .ipAuthHeader))
      | .ok len =>
        match authToHeader rest len with
        | .error f => .error f
        | .ok header =>
          fromSliceLaxLoop slice { result with auth := some header } (rest.drop len) header.nextHeader
  | n => .ok (result, n, rest, none)
termination_by result.freeSlots
decreasing_by
  all_goals simp [Exts.freeSlots, *]

/-- `Ipv6Extensions::from_slice_lax` -/
def Exts.fromSliceLax (startIpNumber : Nat) (slice : Bytes) : Except (Fault SliceErr) LaxResult :=
  if IPV6_HOP_BY_HOP = startIpNumber then
    match rawSliceLen slice with
    | .error err => .ok (Exts.empty, startIpNumber, slice, some (.len err, .ipv6HopByHopHeader))
    | .ok len =>
      match rawToHeader slice len with
      | .error f => .error f
      | .ok header =>
        fromSliceLaxLoop slice { Exts.empty with hopByHopOptions := some header } (slice.drop len) header.nextHeader
  else fromSliceLaxLoop slice Exts.empty slice startIpNumber

end EpModel.Ext
